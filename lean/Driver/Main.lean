import NsyncVerif.Model.MuXDriver
/-
  `replay <layer>…` : reads a harness log on stdin, feeds every line to the selected layers' acceptors.
  Output: one line per rejection (`REJECT exec=<n> line=<k> <reason> | <log line>`), the first rejection
  of an execution stops that layer for the rest of that execution; a final `SUMMARY` line and `COV`
  lines with transition coverage.
-/
open NsyncVerif

structure St where
  mux : MuX.Driver.DState
  muxDead : Bool
  execNo : Nat
  lineNo : Nat
  accepted : Nat
  skipped : Nat
  rejects : Nat
  rejectedExecs : Nat
  cov : List (String × Nat)

def mergeCov (a b : List (String × Nat)) : List (String × Nat) :=
  b.foldl (fun acc (k, n) =>
    match acc.find? (fun p => p.1 == k) with
    | some p => (k, p.2 + n) :: acc.filter (fun q => q.1 != k)
    | none => (k, n) :: acc) a

partial def loop (h : IO.FS.Stream) (layers : List String) (st : St) : IO St := do
  let line ← h.getLine
  if line.isEmpty then
    return { st with cov := mergeCov st.cov st.mux.cov }
  let line := line.trimAsciiEnd.toString
  let st := { st with lineNo := st.lineNo + 1 }
  if line.startsWith "# begin" then
    let cov := mergeCov st.cov st.mux.cov
    loop h layers { st with mux := MuX.Driver.init, muxDead := false, execNo := st.execNo + 1, cov := cov }
  else if line.startsWith "#" then
    loop h layers st
  else
    let mut st := st
    if layers.contains "mux" && !st.muxDead then
      let (d, out) := MuX.Driver.step st.mux line
      if out == "ok" then st := { st with mux := d, accepted := st.accepted + 1 }
      else if out == "skip" then st := { st with mux := d, skipped := st.skipped + 1 }
      else
        IO.println s!"REJECT exec={st.execNo} line={st.lineNo} {out} | {line}"
        st := { st with muxDead := true, rejects := st.rejects + 1, rejectedExecs := st.rejectedExecs + 1 }
    loop h layers st

def main (args : List String) : IO UInt32 := do
  let stdin ← IO.getStdin
  let st ← loop stdin args
    { mux := MuX.Driver.init, muxDead := false, execNo := 0, lineNo := 0, accepted := 0, skipped := 0,
      rejects := 0, rejectedExecs := 0, cov := [] }
  for (k, n) in st.cov do
    IO.println s!"COV {k} {n}"
  IO.println s!"SUMMARY execs={st.execNo} lines={st.lineNo} accepted={st.accepted} skipped={st.skipped} rejects={st.rejects}"
  return (if st.rejects == 0 then 0 else 1)
