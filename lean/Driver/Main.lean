import NsyncVerif.Model.MuXDriver
import NsyncVerif.Model.TimeDriver
import NsyncVerif.Model.EmitDriver
import NsyncVerif.Model.FutexDriver
import NsyncVerif.Model.OnceDriver
import NsyncVerif.Model.DllDriver
import NsyncVerif.Model.Deadline
import NsyncVerif.Model.VCDriver
import NsyncVerif.Model.MuQDriver
import NsyncVerif.Model.CounterDriver
import NsyncVerif.Model.CvFixDriver
import NsyncVerif.Model.NoteDriver
import NsyncVerif.Model.MuCDriver
import NsyncVerif.Model.WaitNDriver
import NsyncVerif.Model.SemWaitDriver
import NsyncVerif.Model.CvMuDriver
import NsyncVerif.Model.PoolDriver
/-
  `replay <layer>…` : reads a harness log (or a differential case file) on stdin and feeds every line
  to the selected layers.  A layer answers `ok`, `skip`, `#` or a complaint (`REJECT …`, `MISMATCH …`,
  `bad-op`).  Output: one line per complaint (`REJECT exec=<n> line=<k> layer=<l> <reason> | <line>`);
  the first complaint of an execution stops that layer for the rest of that execution; finally `COV`
  lines (MuX transition coverage) and a `SUMMARY` line.  Exit status 1 iff there was a complaint.
-/
open NsyncVerif

structure Layers where
  mux : MuX.Driver.DState := MuX.Driver.init
  time : Time.Driver.DState := Time.Driver.init
  emit : Emit.Driver.DState := Emit.Driver.init
  futex : Futex.Driver.DState := Futex.Driver.init
  once : Once.Driver.DState := Once.Driver.init
  dll : Dll.Driver.DState := Dll.Driver.init
  deadline : Deadline.Driver.DState := Deadline.Driver.init
  vc : VC.Driver.DState := VC.Driver.init
  muq : MuQ.Driver.DState := MuQ.Driver.init
  counter : Counter.Driver.DState := Counter.Driver.init
  cv : CvFix.Driver.DState := CvFix.Driver.init
  note : Note.Driver.DState := Note.Driver.init
  muc : MuC.Driver.DState := MuC.Driver.init
  waitn : WaitN.Driver.DState := WaitN.Driver.init
  semwait : SemWait.Driver.DState := SemWait.Driver.init
  cvmu : CvMu.Driver.DState := CvMu.Driver.init
  pool : Pool.Driver.DState := Pool.Driver.init

/-- Nested API boundaries are logged as `ncall`/`nret` with structured names (`oncesync5.mu`,
    `ctr0.mu`, …); the layers that treat an inner mutex/cv as a black box were written against
    `call`/`ret` and flat names `mu<k>` / `cv<k>`. -/
def flatName (tok : String) : String :=
  if tok.startsWith "oncesync" && tok.endsWith ".mu" then "mu" ++ ((tok.drop 8).dropEnd 3).toString
  else if tok.startsWith "oncesync" && tok.endsWith ".cv" then "cv" ++ ((tok.drop 8).dropEnd 3).toString
  else if tok.startsWith "ctr" && tok.endsWith ".mu" then "mu" ++ ((tok.drop 3).dropEnd 3).toString
  else tok

def adaptNested (line : String) : String :=
  match line.splitOn " " with
  | t :: "ncall" :: rest => " ".intercalate (t :: "call" :: rest.map flatName)
  | t :: "nret" :: rest => " ".intercalate (t :: "ret" :: rest)
  | _ => line

/-- Event kinds of CONVENTIONS.md; the harness also logs auxiliary lines (`lockann`, `data`, `oracle`,
    `reclaim`, `condarg`, `plain`) that only some layers understand. -/
def isConventionKind (line : String) : Bool :=
  match line.splitOn " " with
  | _ :: k :: _ => k ∈ ["call", "ret", "ncall", "nret", "atm", "sem", "futex", "now", "tick", "cb", "cond", "panic"]
  | _ => false

/-- the Counter layer was written against `malloc <obj>` / `free <obj>` lines without the function name -/
def adaptCounter (line : String) : String :=
  match line.splitOn " " with
  | [t, "malloc", o, _fn] => " ".intercalate [t, "malloc", o]
  | [t, "free", o, _fn] => " ".intercalate [t, "free", o]
  | _ => line

def Layers.feed (l : Layers) (name line : String) : Layers × String :=
  match name with
  | "mux" => let (d, o) := MuX.Driver.step l.mux line; ({ l with mux := d }, o)
  | "time" => let (d, o) := Time.Driver.step l.time line; ({ l with time := d }, o)
  | "emit" => let (d, o) := Emit.Driver.step l.emit line; ({ l with emit := d }, o)
  | "futex" => let (d, o) := Futex.Driver.step l.futex line; ({ l with futex := d }, o)
  | "muq" => let (d, o) := MuQ.Driver.step l.muq line; ({ l with muq := d }, o)
  | "counter" =>
    if isConventionKind line || (line.splitOn " ").getD 1 "" == "malloc" || (line.splitOn " ").getD 1 "" == "free" then
      let (d, o) := Counter.Driver.step l.counter (adaptCounter (adaptNested line)); ({ l with counter := d }, o)
    else (l, "skip")
  | "cv" => let (d, o) := CvFix.Driver.step l.cv line; ({ l with cv := d }, o)
  | "note" => let (d, o) := Note.Driver.step l.note line; ({ l with note := d }, o)
  | "muc" => let (d, o) := MuC.Driver.step l.muc line; ({ l with muc := d }, o)
  | "waitn" => let (d, o) := WaitN.Driver.step l.waitn line; ({ l with waitn := d }, o)
  | "semwait" => let (d, o) := SemWait.Driver.step l.semwait line; ({ l with semwait := d }, o)
  | "cvmu" => let (d, o) := CvMu.Driver.step l.cvmu line; ({ l with cvmu := d }, o)
  | "pool" => let (d, o) := Pool.Driver.step l.pool line; ({ l with pool := d }, o)
  | "vc" => let (d, o) := VC.Driver.step l.vc line; ({ l with vc := d }, o)
  | "deadline" => let (d, o) := Deadline.Driver.step l.deadline line; ({ l with deadline := d }, o)
  | "dll" => let (d, o) := Dll.Driver.step l.dll line; ({ l with dll := d }, o)
  | "once" =>
    -- (a cancelled cv wait never occurs inside run_once; the Once parser does not know the result code)
    if isConventionKind line && !(line.endsWith "ECANCELED") then
      let (d, o) := Once.Driver.step l.once (adaptNested line); ({ l with once := d }, o)
    else (l, "skip")
  | _ => (l, "bad-layer")

structure St where
  layers : Layers := {}
  dead : List String := []
  execNo : Nat := 0
  lineNo : Nat := 0
  accepted : Nat := 0
  skipped : Nat := 0
  rejects : Nat := 0
  cov : List (String × Nat) := []
  active : Option (List String) := none   -- `# layers …` directive of the current execution
  foreign : List (String × Nat × Nat) := []   -- (layer, tid) ↦ depth of nested calls on objects that are not the layer's

def mergeCov (a b : List (String × Nat)) : List (String × Nat) :=
  b.foldl (fun acc (k, n) =>
    match acc.find? (fun p => p.1 == k) with
    | some p => (k, p.2 + n) :: acc.filter (fun q => q.1 != k)
    | none => (k, n) :: acc) a

/-- Nested calls (`ncall`/`nret`) on objects that do not belong to a layer (e.g. a counter's mutex seen by the
    Note layer) are hidden from that layer together with their matching `nret`. `own` tells whether an object
    name belongs to the layer. Returns the new depth table and whether the line must be hidden. -/
def hideForeign (tbl : List (String × Nat × Nat)) (layer : String) (own : String → Bool) (line : String) :
    List (String × Nat × Nat) × Bool :=
  match line.splitOn " " with
  | t :: kind :: rest =>
    match t.toNat? with
    | none => (tbl, false)
    | some tid =>
      let depth := match tbl.find? (fun e => e.1 == layer && e.2.1 == tid) with | some e => e.2.2 | none => 0
      let set (d : Nat) := (layer, tid, d) :: tbl.filter (fun e => !(e.1 == layer && e.2.1 == tid))
      if kind == "ncall" then
        let obj := rest.getD 1 ""
        let api := rest.getD 0 ""
        if depth > 0 then (set (depth + 1), true)
        else if own obj || api == "nsync_wait_n" || api == "nsync_note_notify" then (tbl, false)
        else (set 1, true)
      else if kind == "nret" then
        if depth > 0 then (set (depth - 1), true) else (tbl, false)
      else (tbl, false)
  | _ => (tbl, false)

partial def loop (h : IO.FS.Stream) (names : List String) (st : St) : IO St := do
  let line ← h.getLine
  if line.isEmpty then
    return { st with cov := mergeCov st.cov st.layers.mux.cov }
  let line := line.trimAsciiEnd.toString
  let st := { st with lineNo := st.lineNo + 1 }
  if line.startsWith "# begin" then
    let cov := mergeCov st.cov st.layers.mux.cov
    loop h names { st with layers := {}, dead := [], execNo := st.execNo + 1, cov := cov, foreign := [], active := none }
  else if line.startsWith "# layers " then
    -- per-execution choice of acceptors (the check maps scenario families to layers)
    loop h names { st with active := some (((line.drop 9).toString.splitOn " ").filter (· != "")) }
  else if line.startsWith "# outcome" || line.startsWith "# sched" || line.startsWith "# endexec" then
    loop h names st
  else
    let mut st := st
    for name in (st.active.getD names) do
      if !st.dead.contains name then
        let (ftbl, hide) :=
          if name == "note" then hideForeign st.foreign name (fun o => o.startsWith "note") line
          else if name == "counter" then hideForeign st.foreign name (fun o => o.startsWith "ctr") line
          else if name == "once" then hideForeign st.foreign name (fun o => o.startsWith "oncesync") line
          else (st.foreign, false)
        st := { st with foreign := ftbl }
        let (l, out) := if hide then (st.layers, "skip") else st.layers.feed name line
        if out == "ok" then st := { st with layers := l, accepted := st.accepted + 1 }
        else if out == "skip" || out == "#" then st := { st with layers := l, skipped := st.skipped + 1 }
        else
          IO.println s!"REJECT exec={st.execNo} line={st.lineNo} layer={name} {out} | {line}"
          st := { st with dead := name :: st.dead, rejects := st.rejects + 1 }
          if st.execNo == 0 then st := { st with dead := [] }   -- differential files: keep going
    loop h names st

def main (args : List String) : IO UInt32 := do
  let stdin ← IO.getStdin
  let st ← loop stdin args {}
  for (k, n) in st.cov do
    IO.println s!"COV {k} {n}"
  IO.println s!"SUMMARY execs={st.execNo} lines={st.lineNo} accepted={st.accepted} skipped={st.skipped} rejects={st.rejects}"
  return (if st.rejects == 0 then 0 else 1)
