def main (args : List String) : IO UInt32 := do
  IO.eprintln s!"replay: no layer selected {args}"
  return 2
