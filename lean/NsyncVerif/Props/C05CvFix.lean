/-
  Property C05, condition-variable part.

  "nsync_cv_wait_with_deadline always returns with the mutex held in the mode in which the caller
   held it.  It returns ETIMEDOUT only if the deadline has been reached and ECANCELED only if the
   note is notified, and once the deadline has passed or the note is notified the call needs no
   further wake-up: it returns as soon as the mutex can be re-acquired."

  Model: `NsyncVerif/Model/CvFix.lean` (acceptor for the repaired cv.c / sem_wait.c, one atomic operation,
  semaphore operation or API boundary per step).  The theorems quantify over every reachable
  state: any number of threads and records, every interleaving of waiters (plain, timed,
  cancellable, reader-mode, generic-lock, nsync_wait_n) with signallers and broadcasters, every
  timing of clock ticks, both semaphore flavours (`cfg.binary` arbitrary).

  What is proved here
  * `C05_timedout`   a wait returns ETIMEDOUT only if `abs_deadline ≤ now`;
  * `C05_cancelled`  a wait returns ECANCELED only if the waiting thread itself observed its
                     cancel note notified (a load of `note.notified ≠ 0`, or its own notification
                     of the note on expiry, sem_wait.c:65);
  * `C05_no_resleep` once `nsync_sem_wait_with_cancel_` has returned non-zero the thread never
                     starts a semaphore wait again in this call (state form: in every reachable
                     state of a wait with `sem_outcome ≠ 0`, `sem pd_enter` is rejected), and
                     `C05_result_is_outcome`: the value returned is the local `outcome`, which is
                     either 0 or that `sem_outcome`.
  * Mode preservation ("returns with the mutex held in the caller's mode") is NOT a theorem of
    this layer: the mutex is abstract here.  It is proved in layer MuX (`Props/C01.lean`): its
    acceptor refuses a wait call that returns without the caller's share.  What this layer adds:
    the acceptor requires the release mark and the re-acquisition mark to use the lock function
    of the mode recorded at cv.c:210-225 (`relMark` / `lockMark` in `CvFix.step`), and a transferred
    waiter re-acquires through `nsync_mu_lock_slow_` with its own `l_type` (cv.c:295).
  * The semaphore contract used: a timed `P` returns ETIMEDOUT only if its deadline has been
    reached (checked by the acceptor on every log; proved for the futex semaphore in C12).

  Status: every statement below is proved in full.
-/
import NsyncVerif.Proofs.CvFixInvC

namespace NsyncVerif.CvFix

/-- The value returned by a cv wait is the local `outcome`; it is 0 or the `sem_outcome` of the
    (last) semaphore wait. -/
theorem C05_result_is_outcome {cfg : Config} {s s' : State} {t : Tid} {res : Outcome}
    (h : Reachable cfg s) (hs : step cfg s (.retWait t res) = .ok s') :
    res = .ok ∨ res = (s.thr t).semOut := by
  obtain ⟨_, hr⟩ := retWait_accepted hs
  rw [hr]; exact (invC_reachable h t).out

/-- ETIMEDOUT only if the deadline has been reached. -/
theorem C05_timedout {cfg : Config} {s s' : State} {t : Tid} (h : Reachable cfg s)
    (hs : step cfg s (.retWait t .timedOut) = .ok s') : ∃ d, (s.thr t).dl = some d ∧ d ≤ s.now := by
  obtain ⟨_, hr⟩ := retWait_accepted hs
  have hi := invC_reachable h t
  rcases hi.out with ho | ho
  · rw [← hr] at ho; cases ho
  · exact hi.timed (by rw [← ho, ← hr])

/-- ECANCELED only if the note was observed notified by the waiting thread. -/
theorem C05_cancelled {cfg : Config} {s s' : State} {t : Tid} (h : Reachable cfg s)
    (hs : step cfg s (.retWait t .cancelled) = .ok s') : (s.thr t).sawNote = true := by
  obtain ⟨_, hr⟩ := retWait_accepted hs
  have hi := invC_reachable h t
  rcases hi.out with ho | ho
  · rw [← hr] at ho; cases ho
  · exact hi.canc (by rw [← ho, ← hr])

/-- Once the semaphore wait has returned non-zero (`sem_outcome ≠ 0`), a thread inside a cv wait
    never starts a semaphore wait again: the acceptor has no transition for `sem pd_enter`. -/
theorem C05_no_resleep {cfg : Config} {s : State} {t : Tid} (h : Reachable cfg s)
    (hso : (s.thr t).semOut ≠ .ok) (h1 : (s.thr t).loc ≠ .idle) (h2 : (s.thr t).loc ≠ .nOut)
    (k : SemId) (dl : Option Nat) : ∃ m, step cfg s (.semPdEnter t k dl) = .error m := by
  have hi := invC_reachable h t
  simp only [step, stepSemPdEnter]
  split
  · rename_i hl; exact absurd (hi.sem0 (by simp [hl, Loc.inSem])) hso
  · rename_i hl; exact absurd (hi.sem0 (by simp [hl, Loc.inSem])) hso
  · rename_i hl; exact absurd hl h1
  · rename_i hl; exact absurd hl h2
  · exact ⟨_, rfl⟩

/-- … and it is not blocked in one either. -/
theorem C05_not_sleeping {cfg : Config} {s : State} {t : Tid} (h : Reachable cfg s)
    (hso : (s.thr t).semOut ≠ .ok) :
    (s.thr t).loc ≠ .wSemEnter ∧ (s.thr t).loc ≠ .wSemRet ∧ (s.thr t).loc ≠ .cPre ∧ (s.thr t).loc ≠ .cWait := by
  have hi := invC_reachable h t
  refine ⟨?_, ?_, ?_, ?_⟩ <;> intro hl <;> exact hso (hi.sem0 (by simp [hl, Loc.inSem]))

end NsyncVerif.CvFix
