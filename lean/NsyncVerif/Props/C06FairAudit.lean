import NsyncVerif.Props.C06Fair
/-!
Axiom audit for `Props/C06Fair.lean` (allowed: `propext`, `Classical.choice`, `Quot.sound`).
-/
open NsyncVerif.MuC

#print axioms C06_fair_termination_of_settled
#print axioms C06_fair_termination_partial
#print axioms C06_fair_settled_of_finite_steps
#print axioms C06_fair_termination_of_finite_steps
#print axioms C06_fair_trylock_returns
#print axioms C06_fair_return_point
#print axioms C06_fair_wakes_delivered
#print axioms C06_fair_past_release_returns
#print axioms C06_fair_wait_null_returns
#print axioms nw_hyps
#print axioms nw_must
#print axioms C06_fair_needs_proviso
#print axioms C06_fair_needs_release
#print axioms C06_fair_needs_clock
#print axioms C06_fair_needs_note
#print axioms C06_fair_needs_note2
#print axioms C06_fair_needs_rc
#print axioms C06_fair_needs_env_posts
#print axioms C06_fair_needs_arrivals
#print axioms keep_step
#print axioms reachable_invRC
#print axioms fair_exit
#print axioms settled_of_no_steps
