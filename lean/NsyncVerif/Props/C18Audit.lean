/- Axiom audit for the Time layer (C18, C15 arithmetic half). -/
import NsyncVerif.Props.C18
import NsyncVerif.Props.C15Arith

open NsyncVerif.Time

#print axioms C18_add
#print axioms C18_add_exact
#print axioms C18_sub
#print axioms C18_sub_exact
#print axioms C18_cmp
#print axioms C18_toNs_injective
#print axioms C18_cmp_total_order
#print axioms C18_cmp_consistent_with_sub
#print axioms C18_roundtrip
#print axioms C18_roundtrip'
#print axioms C18_ms
#print axioms C18_us
#print axioms C18_ms_us_no_wrap
#print axioms C18_s_ns
#print axioms C18_s_ns_any
#print axioms C18_bounds
#print axioms C18_consts
#print axioms C15_cmp_zero_classifies
#print axioms C15_neg_sec_is_past
#print axioms C15_noDeadline_max
#print axioms C15_noDeadline_eq_iff
