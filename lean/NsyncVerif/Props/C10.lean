/-
  Props/C10.lean — property C10: "The counter is atomic and its waiters are released exactly at zero."

  All theorems are about `Reachable s` of the Counter acceptor (Model/Counter.lean), i.e. they hold
  for every number of threads, every interleaving, every sequence of deltas / deadlines / ticks
  and every choice of the environment (semaphore names, stale posts from other layers, malloc).
  Contract (explicit `Reject`s of the model = ASSERTs of counter.c): no decrement below zero, no
  overflow, no increment from zero after a wait.  Trusted: counter_mu is a lock (C01/C02), the
  queue is a sequence (C17), the semaphore is a counting semaphore (C12).

  Nothing here is `_partial`.
-/
import NsyncVerif.Proofs.CounterRet

namespace Counter

/-! ### atomicity / linearizability of nsync_counter_add -/

theorem sums_last (a : Int) (ds : List Int) : (sums a ds).getLast? = some (a + ds.sum) := by
  induction ds generalizing a with
  | nil => simp [sums]
  | cons d ds ih =>
    simp only [sums, List.sum_cons]
    rw [List.getLast?_cons_of_ne_nil (sums_ne_nil _ _), ih]
    congr 1; omega

/-- `hist` (every value the counter has held) is the sequence of prefix sums of the deltas of the
    successful CASes in their order, the current value is its last element, and therefore
    value = initial + Σ deltas *as integers* (no wrap-around under the contract). -/
theorem C10_linearizable {s : State} (h : Reachable s) (hc : s.sh.created = true) :
    s.sh.hist.map (fun (n : Nat) => (n : Int)) = sums s.sh.initial s.sh.deltas
    ∧ s.sh.hist.getLast? = some s.sh.value
    ∧ (s.sh.value : Int) = (s.sh.initial : Int) + s.sh.deltas.sum := by
  have hs := (inv_of_reachable h).sh
  refine ⟨hs.hsum hc, hs.last hc, ?_⟩
  have h1 := sums_last s.sh.initial s.sh.deltas
  rw [← hs.hsum hc, List.getLast?_map, hs.last hc] at h1
  simpa using h1

/-- Every accepted event of a thread leaves value / hist / deltas unchanged, except
    (a) the successful `ATM_CAS_RELACQ (&c->value, v, v+delta)` of an add, which is accepted only
        if v is the current value, appends `delta` to `deltas` and `v+delta` to `hist`, and
    (b) the initialising store of nsync_counter_new. -/
theorem C10_cas_atomic {s s' : State} {t : Tid} {e : Ev} (h : Reachable s)
    (hs : step s (.thr t e) = .ok s') :
    (s'.sh.hist = s.sh.hist ∧ s'.sh.deltas = s.sh.deltas ∧ s'.sh.value = s.sh.value
        ∧ s'.sh.initial = s.sh.initial)
    ∨ (∃ d v new, s.pc t = .aCas d v ∧ e = .cas .ar .value v new v true ∧ v = s.sh.value
        ∧ s'.sh.hist = s.sh.hist ++ [new] ∧ s'.sh.deltas = s.sh.deltas ++ [d]
        ∧ (new : Int) = (s.sh.value : Int) + d ∧ s'.sh.value = new ∧ s'.sh.initial = s.sh.initial)
    ∨ (∃ v, s.pc t = .newStore v ∧ s.sh.created = false ∧ s'.sh.hist = [v] ∧ s'.sh.value = v) :=
  (facts_stepThr (inv_of_reachable h) hs).hist

theorem C10_tick_keeps {s s' : State} {ns : Nat} (hs : step s (.tick ns) = .ok s') :
    s'.sh.hist = s.sh.hist ∧ s'.sh.deltas = s.sh.deltas ∧ s'.sh.value = s.sh.value ∧ s'.pc = s.pc := by
  simp only [step] at hs
  split at hs
  · cases hs; exact ⟨rfl, rfl, rfl, rfl⟩
  · cases hs

/-- The delta (resp. deadline) an in-flight call carries in its program counter is the argument
    of its `call` event. -/
theorem C10_call_args_kept {s s' : State} {t : Tid} {e : Ev} (h : Reachable s)
    (hs : step s (.thr t e) = .ok s') :
    (∀ d, e = .callAdd d → s.pc t = .idle ∧ pcDelta (s'.pc t) = some d)
    ∧ (∀ d, e = .callWait d → s.pc t = .idle ∧ s'.pc t = .w0Store d)
    ∧ (∀ d, pcDelta (s.pc t) = some d → s'.pc t = .idle ∨ pcDelta (s'.pc t) = some d)
    ∧ (∀ d, pcDl (s.pc t) = some d → s'.pc t = .idle ∨ pcDl (s'.pc t) = some d)
    ∧ (∀ u, u ≠ t → s'.pc u = s.pc u) :=
  let f := facts_stepThr (inv_of_reachable h) hs
  ⟨f.callA, f.callW, f.delta, f.dline, f.others⟩

/-- `ret nsync_counter_add r` is accepted only if r is the value that resulted from the caller's
    own successful CAS: r is the element of `hist` that CAS appended, its predecessor `old` in
    `hist` is the value the CAS observed, and r = old + delta.  (For delta = 0: r was held.) -/
theorem C10_add_returns {s s' : State} {t : Tid} {r : Nat} (h : Reachable s)
    (hs : step s (.thr t (.retAdd r)) = .ok s') :
    (∃ (d : Int) (i old : Nat), pcDelta (s.pc t) = some d ∧ s.sh.hist[i]? = some old ∧ s.sh.hist[i + 1]? = some r
        ∧ (r : Int) = (old : Int) + d)
    ∨ (pcDelta (s.pc t) = some 0 ∧ r ∈ s.sh.hist) := by
  have hi := inv_of_reachable h
  rcases retAdd_pc hs with hpc | ⟨d, idx, hpc⟩
  · right
    have hp := hi.pcs t; rw [hpc] at hp
    exact ⟨by rw [hpc]; rfl, hp.2⟩
  · left
    have hp := hi.pcs t; rw [hpc] at hp
    obtain ⟨g1, i, old, g2, g3, g4⟩ := hp.2
    subst g2
    exact ⟨d, i, old, by rw [hpc]; rfl, g3, g1, g4⟩

/-! ### nsync_counter_value (and every other returned value) was held by the counter -/

theorem C10_value_held {s s' : State} {t : Tid} {v : Nat} (h : Reachable s)
    (hs : step s (.thr t (.retValue v)) = .ok s') : v ∈ s.sh.hist := by
  have hp := (inv_of_reachable h).pcs t
  rw [retValue_pc hs] at hp
  exact hp.2

theorem C10_value_held_add {s s' : State} {t : Tid} {v : Nat} (h : Reachable s)
    (hs : step s (.thr t (.retAdd v)) = .ok s') : v ∈ s.sh.hist := by
  rcases C10_add_returns h hs with ⟨_, i, _, _, _, h2, _⟩ | ⟨_, h2⟩
  · exact List.mem_of_getElem? h2
  · exact h2

theorem C10_value_held_wait {s s' : State} {t : Tid} {r : Nat} (h : Reachable s)
    (hs : step s (.thr t (.retWait r)) = .ok s') : r ∈ s.sh.hist := by
  have hp := (inv_of_reachable h).pcs t
  obtain ⟨dl, hpc⟩ := retWait_pc hs
  rw [hpc] at hp
  exact hp.2.1

/-! ### nsync_counter_wait -/

/-- `ret nsync_counter_wait 0` is accepted only if the counter has reached zero at some earlier
    point of the trace (whichever of the paths produced the 0: first ready_time, enqueue or loop
    ready_time followed by dequeue, or the final load). -/
theorem C10_wait_zero {s s' : State} {t : Tid} (h : Reachable s)
    (hs : step s (.thr t (.retWait 0)) = .ok s') : 0 ∈ s.sh.hist :=
  C10_value_held_wait h hs

/-- `ret nsync_counter_wait r` with r ≠ 0 is accepted only once the deadline of that call has
    passed (`pcDl` is the deadline of the call by `C10_call_args_kept`). -/
theorem C10_wait_nonzero {s s' : State} {t : Tid} {r : Nat} (h : Reachable s)
    (hs : step s (.thr t (.retWait r)) = .ok s') (hr : r ≠ 0) :
    ∃ dl, pcDl (s.pc t) = some dl ∧ expired dl s.sh.now := by
  have hp := (inv_of_reachable h).pcs t
  obtain ⟨dl, hpc⟩ := retWait_pc hs
  rw [hpc] at hp
  exact ⟨dl, by rw [hpc]; rfl, hp.2.2 hr⟩

/-! ### release of the waiters at zero -/

/-- At zero with counter_mu free the queue is empty; at zero with a non-empty queue counter_mu is
    held by an add that is inside its wake loop (it cannot unlock before the queue is empty);
    queued ⇔ waiting flag set. -/
theorem C10_release_all {s : State} (h : Reachable s) (hz : s.sh.value = 0) :
    (s.sh.lockHolder = none → s.sh.waiters = [])
    ∧ (s.sh.waiters ≠ [] → ∃ u, s.sh.lockHolder = some u ∧ wakeLoop (s.pc u))
    ∧ (∀ k, k ∈ s.sh.waiters ↔ (s.sh.nw k).waiting = true) := by
  have hi := inv_of_reachable h
  have hs := hi.sh
  refine ⟨?_, ?_, hs.queue⟩
  · intro hl
    have hf := hs.free hl
    cases hw : s.sh.waiters with
    | nil => rfl
    | cons a l =>
      have := hs.zero (by simp [hw])
      simp [hz, hf.1] at this
  · intro hne
    rcases hs.zero hne with h1 | h1
    · exact absurd hz h1
    · exact waking_holder hi h1

/-- The wake loop's unlock is accepted only with an empty queue (acceptor side of the above). -/
theorem C10_release_all_unlock {s s' : State} {t : Tid} {m : MuId} {d : Int} {r idx : Nat}
    (hpc : s.pc t = .aHeld d r idx true) (hs : step s (.thr t (.callUnlock m)) = .ok s') :
    s.sh.waiters = [] := by
  simp only [step, stepThr, hpc] at hs
  split at hs
  · rename_i hc; exact hc.2 trivial
  · cases hs

/-- Every thread that was queued when the counter reached zero and is still on its way to / in
    its sleep has, once the add has released counter_mu, `waiting = 0` and a posted semaphore. -/
theorem C10_released_posted {s : State} {t : Tid} {dl : Deadline} {k : NwId} (h : Reachable s)
    (hz : s.sh.value = 0) (hl : s.sh.lockHolder = none)
    (hpc : (∃ j, s.pc t = .wPdWait dl k j) ∨ s.pc t = .wPdEnter dl k) :
    (s.sh.nw k).waiting = false ∧ ∃ j, (s.sh.nw k).sem = some j ∧ 0 < s.sh.sem j := by
  have hi := inv_of_reachable h
  have hs := hi.sh
  have hw := (C10_release_all h hz).1 hl
  have hq : (s.sh.nw k).waiting = false := by
    cases hk : (s.sh.nw k).waiting with
    | false => rfl
    | true => have := (hs.queue k).2 hk; simp [hw] at this
  have hwk : woken s.sh k := ⟨hq, by simp [(hs.free hl).2]⟩
  have hp := hi.pcs t
  rcases hpc with ⟨j, hpc⟩ | hpc
  · rw [hpc] at hp; exact ⟨hq, (hp.2.2.2.2.2 hwk).2⟩
  · rw [hpc] at hp; exact ⟨hq, (hp.2.2.2.2 hwk).2⟩

/-- Safety core of "every thread waiting when the counter reaches zero is released": a thread
    asleep in `nsync_mu_semaphore_p_with_deadline` (pd_enter done, no pd_ret yet) is never stuck
    at zero — either the counter is non-zero, or its semaphore is posted (pd_ret 0 is enabled),
    or the zeroing add still holds counter_mu with the thread's record yet to be processed. -/
theorem C10_no_lost_wakeup {s : State} {t : Tid} {dl : Deadline} {k : NwId} {j : SemId}
    (h : Reachable s) (hpc : s.pc t = .wPdWait dl k j) :
    s.sh.value ≠ 0 ∨ 0 < s.sh.sem j
    ∨ (∃ u, s.sh.lockHolder = some u ∧ wakeLoop (s.pc u) ∧ k ∈ s.sh.waiters)
    ∨ (∃ u d r idx, s.sh.lockHolder = some u ∧ s.pc u = .aPost d r idx k) := by
  have hi := inv_of_reachable h
  have hs := hi.sh
  have hp := hi.pcs t
  rw [hpc] at hp
  obtain ⟨_, _, _, _, hsem, hK⟩ := hp
  by_cases hz : s.sh.value = 0
  · right
    by_cases hpost : s.sh.posting = some k
    · right; right; exact posting_holder hi hpost
    · cases hw : (s.sh.nw k).waiting with
      | false =>
        left
        obtain ⟨_, j', h1, h2⟩ := hK ⟨hw, hpost⟩
        rw [hsem] at h1; cases h1; exact h2
      | true =>
        right; left
        have hk := (hs.queue k).2 hw
        have hne : s.sh.waiters ≠ [] := by intro h0; simp [h0] at hk
        obtain ⟨u, h1, h2⟩ := (C10_release_all h hz).2.1 hne
        exact ⟨u, h1, h2, hk⟩
  · left; exact hz

/-! ### a wait that starts after zero does not block -/

/-- zero is absorbing once a wait has been called (no increment from zero by contract). -/
theorem C10_zero_stable {s s' : State} {e : Event} (h : Reachable s) (hz : s.sh.value = 0)
    (hw : s.sh.waited = true) (hs : step s e = .ok s') : s'.sh.value = 0 ∧ s'.sh.waited = true := by
  cases e with
  | tick ns =>
    simp only [step] at hs
    split at hs
    · cases hs; exact ⟨hz, hw⟩
    · cases hs
  | thr t ev =>
    have f := facts_stepThr (inv_of_reachable h) hs
    exact ⟨f.zst hw hz, f.wtd hw⟩

theorem sleepPath_pd (dl : Deadline) (k : NwId) (j : SemId) :
    sleepPath (.wPdEnter dl k) = true ∧ sleepPath (.wPdWait dl k j) = true ∧ sleepPath .idle = false :=
  ⟨rfl, rfl, rfl⟩

/-- one step at zero: a thread outside the enqueue/sleep/dequeue part of nsync_counter_wait
    (`sleepPath`, which contains both `sem pd_enter` program points) stays outside. -/
theorem C10_no_block_step {s s' : State} {e : Event} (h : Reachable s) (hz : s.sh.value = 0)
    (hs : step s e = .ok s') (u : Tid) (hu : sleepPath (s.pc u) = false) :
    sleepPath (s'.pc u) = false := by
  cases e with
  | tick ns => rw [(C10_tick_keeps hs).2.2.2]; exact hu
  | thr t ev =>
    have f := facts_stepThr (inv_of_reachable h) hs
    by_cases hut : u = t
    · subst hut; exact f.nosleep hz hu
    · rw [f.others u hut]; exact hu

/-- Once the counter is zero and a wait has been called, the counter stays zero along every
    continuation and no thread that is not already past its first ready_time ever enters the
    enqueue/sleep path again: every later nsync_counter_wait returns at its first ready_time
    without `sem pd_enter`. -/
theorem C10_no_block_after_zero {s s' : State} {evs : List Event} (h : Reachable s)
    (hz : s.sh.value = 0) (hw : s.sh.waited = true) (hr : run s evs = .ok s') :
    s'.sh.value = 0 ∧ ∀ u, sleepPath (s.pc u) = false → sleepPath (s'.pc u) = false := by
  induction evs generalizing s with
  | nil => simp only [run] at hr; cases hr; exact ⟨hz, fun _ hu => hu⟩
  | cons e es ih =>
    simp only [run] at hr
    split at hr
    · rename_i s1 hs1
      have hz1 := C10_zero_stable h hz hw hs1
      have := ih (reachable_step h hs1) hz1.1 hz1.2 hr
      exact ⟨this.1, fun u hu => this.2 u (C10_no_block_step h hz hs1 u hu)⟩
    · cases hr

/-- the first ready_time of a wait at zero returns 0 immediately -/
theorem C10_wait_at_zero {s s' : State} {t : Tid} {dl : Deadline} {obs : Nat}
    (hpc : s.pc t = .w0Load dl) (hz : s.sh.value = 0)
    (hs : step s (.thr t (.ld .acq .value obs)) = .ok s') : s'.pc t = .wRet dl 0 := by
  simp only [step, stepThr, hpc] at hs
  split at hs
  · rename_i ho
    rw [hz] at ho; subst ho
    simp at hs; cases hs; simp [State.setPc]
  · cases hs

/-! ### lifetime of the waiter record (feeds C13) -/

/-- A thread other than the owner touches a live record (`nw->waiting`) only while it holds
    counter_mu inside the wake loop of an add, and the record is then in the queue. -/
theorem C10_record_lifetime {s s' : State} {u : Tid} {e : Ev} {k : NwId} (h : Reachable s)
    (hs : step s (.thr u e) = .ok s') (ht : touches e k) (hl : (s.sh.nw k).live = true)
    (ho : (s.sh.nw k).owner ≠ u) :
    s.sh.lockHolder = some u ∧ k ∈ s.sh.waiters ∧ wakeLoop (s.pc u) :=
  (facts_stepThr (inv_of_reachable h) hs).access k ht hl ho

/-- … and the post of the record's semaphore (between STORE_REL and sem v) is made while still
    holding counter_mu, on a record that is still live and belongs to another thread. -/
theorem C10_record_lifetime_post {s : State} {u : Tid} {d : Int} {r idx : Nat} {k : NwId}
    (h : Reachable s) (hpc : s.pc u = .aPost d r idx k) :
    s.sh.lockHolder = some u ∧ (s.sh.nw k).live = true ∧ (s.sh.nw k).owner ≠ u := by
  have hi := inv_of_reachable h
  have hp := hi.pcs u
  rw [hpc] at hp
  have hlive := (hi.sh.post k hp.2.2.2.2.2).2.1
  refine ⟨hp.1.2 rfl, hlive, ?_⟩
  intro ho
  have := recs_of_reachable h k hlive
  rw [ho, hpc] at this
  simp [pcNw] at this

/-- the queue is changed only by the holder of counter_mu -/
theorem C10_record_lifetime_queue {s s' : State} {u : Tid} {e : Ev} (h : Reachable s)
    (hs : step s (.thr u e) = .ok s') (hn : s.sh.lockHolder ≠ some u) : s'.sh.waiters = s.sh.waiters :=
  (facts_stepThr (inv_of_reachable h) hs).waiters hn

/-- When `ret nsync_counter_wait` is accepted the caller owns no live record: its record is in
    no queue, and no thread is between removing it and posting its semaphore. -/
theorem C10_record_lifetime_ret {s s' : State} {t : Tid} {r : Nat} (h : Reachable s)
    (hs : step s (.thr t (.retWait r)) = .ok s') :
    (∀ k, (s.sh.nw k).live = true → (s.sh.nw k).owner ≠ t)
    ∧ (∀ k, k ∈ s.sh.waiters → (s.sh.nw k).live = true ∧ (s.sh.nw k).owner ≠ t)
    ∧ (∀ u d r' idx k, s.pc u = .aPost d r' idx k → (s.sh.nw k).live = true ∧ (s.sh.nw k).owner ≠ t) := by
  have hi := inv_of_reachable h
  obtain ⟨dl, hpc⟩ := retWait_pc hs
  have h1 : ∀ k, (s.sh.nw k).live = true → (s.sh.nw k).owner ≠ t := by
    intro k hl ho
    have := recs_of_reachable h k hl
    rw [ho, hpc] at this
    simp [pcNw] at this
  refine ⟨h1, ?_, ?_⟩
  · intro k hk
    have hl := hi.sh.wlive k ((hi.sh.queue k).1 hk)
    exact ⟨hl, h1 k hl⟩
  · intro u d r' idx k hpu
    have hl := (C10_record_lifetime_post h hpu).2.1
    exact ⟨hl, h1 k hl⟩

/-! ### non-vacuity: accepted concrete traces -/

namespace Example

def lock (t : Tid) : List Event := [.thr t (.callLock 0), .thr t .other, .thr t .retLock]
def unlock (t : Tid) : List Event := [.thr t (.callUnlock 0), .thr t .other, .thr t .retUnlock]
def new (t : Tid) (v : Nat) : List Event :=
  [.thr t (.callNew v), .thr t (.malloc true), .thr t (.st .rlx .value v 0), .thr t (.retNew true)]
def ready (t : Tid) (waitedBefore val : Nat) : List Event :=
  [.thr t (.st .rlx .waited 1 waitedBefore), .thr t (.ld .acq .value val)]

/-- counter at 2; thread 2 waits without deadline, is queued and goes to sleep -/
def sleeping : List Event :=
  new 0 2 ++ [.thr 2 (.callWait none)] ++ ready 2 0 2
  ++ [.thr 2 (.st .rlx (.nwWaiting 0) 0 7)] ++ lock 2
  ++ [.thr 2 (.ld .acq .value 2), .thr 2 (.st .rlx (.nwWaiting 0) 1 0)] ++ unlock 2
  ++ ready 2 1 2 ++ [.thr 2 (.pdEnter 2 none)]

/-- … thread 0 adds -1 (→1), thread 1 reads 1, then adds -1 (→0) and wakes thread 2, which
    returns 0 -/
def twoAddersAndWaiter : List Event :=
  sleeping
  ++ [.thr 0 (.callAdd (-1))] ++ lock 0
  ++ [.thr 0 (.ld .rlx .value 2), .thr 0 (.cas .ar .value 2 1 2 true)] ++ unlock 0 ++ [.thr 0 (.retAdd 1)]
  ++ [.thr 1 .callValue, .thr 1 (.ld .acq .value 1), .thr 1 (.retValue 1), .tick 1000]
  ++ [.thr 1 (.callAdd (-1))] ++ lock 1
  ++ [.thr 1 (.ld .rlx .value 1), .thr 1 (.cas .ar .value 1 0 1 true),
      .thr 1 (.st .rel (.nwWaiting 0) 0 1), .thr 1 (.semV 2)] ++ unlock 1 ++ [.thr 1 (.retAdd 0)]
  ++ [.thr 2 (.pdRet 2 false)] ++ ready 2 1 0 ++ lock 2
  ++ [.thr 2 (.ld .acq .value 0), .thr 2 (.ld .acq (.nwWaiting 0) 0)] ++ unlock 2
  ++ [.thr 2 (.retWait 0)]

example : accepts twoAddersAndWaiter = true := by decide
/-- the hypotheses of `C10_no_lost_wakeup` / `C10_released_posted` are satisfiable -/
example : (final sleeping).map (fun s => decide (s.pc 2 = .wPdWait none 0 2 ∧ s.sh.waiters = [0]
    ∧ s.sh.value = 2)) = some true := by decide
example : (final twoAddersAndWaiter).map (fun s => decide (s.sh.hist = [2, 1, 0] ∧ s.sh.deltas = [-1, -1]
    ∧ s.sh.value = 0 ∧ s.sh.waiters = [] ∧ s.sh.sem 2 = 0 ∧ s.sh.waited = true)) = some true := by decide

/-- a wait with deadline 500 that times out and returns the non-zero value -/
def timesOut : List Event :=
  new 0 1 ++ [.thr 1 (.callWait (some 500))] ++ ready 1 0 1
  ++ [.thr 1 (.st .rlx (.nwWaiting 3) 0 9)] ++ lock 1
  ++ [.thr 1 (.ld .acq .value 1), .thr 1 (.st .rlx (.nwWaiting 3) 1 0)] ++ unlock 1
  ++ ready 1 1 1 ++ [.thr 1 (.pdEnter 1 (some 500)), .tick 499, .tick 500, .thr 1 (.pdRet 1 true)] ++ lock 1
  ++ [.thr 1 (.ld .acq .value 1), .thr 1 (.ld .acq (.nwWaiting 3) 1), .thr 1 (.st .rlx (.nwWaiting 3) 0 1)]
  ++ unlock 1 ++ [.thr 1 (.ld .acq .value 1), .thr 1 (.retWait 1)]

example : accepts timesOut = true := by decide
/-- the same trace with the timeout reported one tick early is rejected -/
example : accepts (new 0 1 ++ [.thr 1 (.callWait (some 500))] ++ ready 1 0 1
  ++ [.thr 1 (.st .rlx (.nwWaiting 3) 0 9)] ++ lock 1
  ++ [.thr 1 (.ld .acq .value 1), .thr 1 (.st .rlx (.nwWaiting 3) 1 0)] ++ unlock 1
  ++ ready 1 1 1 ++ [.thr 1 (.pdEnter 1 (some 500)), .tick 499, .thr 1 (.pdRet 1 true)]) = false := by decide

/-- wait after zero: returns 0 at the first ready_time, no record, no semaphore operation -/
def waitAfterZero : List Event :=
  new 0 1 ++ [.thr 0 (.callAdd (-1))] ++ lock 0
  ++ [.thr 0 (.ld .rlx .value 1), .thr 0 (.cas .ar .value 1 0 1 true)] ++ unlock 0 ++ [.thr 0 (.retAdd 0)]
  ++ [.thr 1 (.callWait none)] ++ ready 1 0 0 ++ [.thr 1 (.retWait 0)]

example : accepts waitAfterZero = true := by decide
/-- increment from zero after a wait is a contract violation: rejected at the CAS -/
example : accepts (waitAfterZero ++ [.thr 0 (.callAdd 1)] ++ lock 0
  ++ [.thr 0 (.ld .rlx .value 0), .thr 0 (.cas .ar .value 0 1 0 true)]) = false := by decide
/-- a stale return value of add is rejected; so is a wait returning 0 when 0 was never held -/
example : accepts (new 0 3 ++ [.thr 0 (.callAdd (-1))] ++ lock 0
  ++ [.thr 0 (.ld .rlx .value 3), .thr 0 (.cas .ar .value 3 2 3 true)] ++ unlock 0 ++ [.thr 0 (.retAdd 3)]) = false := by
  decide
example : accepts (new 0 1 ++ [.thr 1 (.callWait (some (-5)))] ++ ready 1 0 1
  ++ [.thr 1 (.ld .acq .value 1), .thr 1 (.retWait 0)]) = false := by decide
/-- a waiter left queued at zero: the add's unlock is rejected -/
example : accepts (new 0 1 ++ [.thr 2 (.callWait none)] ++ ready 2 0 1
  ++ [.thr 2 (.st .rlx (.nwWaiting 0) 0 7)] ++ lock 2
  ++ [.thr 2 (.ld .acq .value 1), .thr 2 (.st .rlx (.nwWaiting 0) 1 0)] ++ unlock 2
  ++ [.thr 0 (.callAdd (-1))] ++ lock 0
  ++ [.thr 0 (.ld .rlx .value 1), .thr 0 (.cas .ar .value 1 0 1 true), .thr 0 (.callUnlock 0)]) = false := by
  decide

end Example

end Counter
