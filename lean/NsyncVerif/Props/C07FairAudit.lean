/-
  Axiom audit for the liveness half of property C07: every theorem may depend only on
  `propext`, `Classical.choice`, `Quot.sound`.
-/
import NsyncVerif.Props.C07Fair

#print axioms Once.C07_fair_termination
#print axioms Once.C07_fair_exactly_once
#print axioms Once.C07_fair_lock_free_again
#print axioms Once.C07_fair_moves
#print axioms Once.C07_fair_done
#print axioms Once.C07_fair_needs_weak_fair
#print axioms Once.C07_fair_needs_init_returns
#print axioms Once.C07_fair_needs_lock_fair
#print axioms Once.fair_hyps
