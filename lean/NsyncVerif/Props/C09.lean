/-
  Property C09: "Concurrent notify / free / create on related notes is safe.  Threads may
  concurrently notify, poll, wait on, create children of and free different notes of one tree, each
  note being freed only when no other thread uses that same note: no such call deadlocks, none
  touches a note after that note's nsync_note_free has returned, and the children of a freed note
  are adopted by its parent, so that a later notification of that ancestor still reaches them."

  Model: `NsyncVerif.Model.Note`.  The contract ("freed only when no other thread uses that same
  note") is built into the acceptor: `call nsync_note_free n` is rejected while another thread is
  inside a call whose argument is `n`, and every later call on `n` is rejected.

  The model follows note.c AFTER the repair of the defects F4 and F7
  (/verif/fixes/F4F7/note_fix.diff: "the last disconnector unlinks" — `n` is removed from
  `parent->children` only by a thread that sees `n->disconnecting == 1`, the recursive call of
  `note_notify_child` counts itself — and "adopters set parent->children_adopted and wake the
  scanner, which rescans").

  STATUS — everything is proved at full strength:
      `C09_lock_order`  — a thread waiting for the mutex of note `m` holds only mutexes of notes
                          strictly above `m` in the creation order (`Lt`: on `m`'s path to the root
                          when `m` was created; it is the order "parent before child" of note.c:38);
      `C09_no_lock_cycle` — hence no cycle of threads each waiting for a mutex held by the next;
      `C09_holds_iff`   — the abstract mutexes agree with the program counters;
      `C09_adoption`    — the adoption step of nsync_note_free (+ `C09_adoption_wakes`: it sets
                          `children_adopted` of the adopting parent), `C09_free_leaves_no_child`;
      `C09_no_use_after_free` — NO accepted step dereferences a freed note
                          (`C09_no_use_after_free_full`, refuted on the unrepaired code by defect F7).
                          Behind it (`InvLive`, Proofs/NoteFixG*.lean): a note on a children list is
                          not freed, nor is the owner of the list; a note whose mutex is held is not
                          freed; and I1 (`InvForest.linked`, Proofs/NoteRelF6.lean): the local
                          `parent` of a disconnector of `n` is `n->parent`, with `n` on its children
                          list, until that thread itself has seen `n` disconnected — so
                          `nsync_note_free (parent)` cannot get past its WAIT_FOR_NO_CHILDREN.
                          `C09_parent_not_stale` states I1.
      `C09_no_stuck_state` — NO reachable state in which every thread is idle, blocked on a note
                          mutex, blocked in WAIT_FOR_NO_CHILDREN or asleep has a thread blocked on a
                          mutex or in WAIT_FOR_NO_CHILDREN (`C09_no_stuck_state_full`, refuted on the
                          unrepaired code by defect F4).  Behind it (Proofs/NoteFixP*.lean): I2
                          (`C09_wait_has_disconnectors`: while a thread is inside a
                          WAIT_FOR_NO_CHILDREN (`n`) whose condition is false, every child of `n` is
                          `disconnecting`), the exact count `InvForest.cnt` (`n->disconnecting` is the
                          number of threads that have incremented it and not yet decremented it), and
                          the locking order.
    The former refutations `C09_no_use_after_free_witness` / `C09_no_stuck_state_witness` (accepted
    traces of the UNREPAIRED library) are gone with the defects: `f7_repaired` / `f4_not_stuck` below
    replay the same scenarios on the repaired library.  /verif/corpus/C09/f7_*.txt, f4b_*.txt and
    /verif/corpus/C08/f4_*.txt stay as regressions.
    The former partial statements are kept as corollaries (`C09_no_use_after_free_partial`,
    `C09_no_stuck_state_partial`).
-/
import NsyncVerif.Proofs.NoteFixP7
import NsyncVerif.Proofs.NoteWitness

set_option linter.unusedSimpArgs false

namespace Note

/-! ### The locking discipline -/

/-- The abstract mutex of note `k` is held by thread `t` exactly when the program counter of `t`
    is inside a critical section of `k`. -/
theorem C09_holds_iff {s : State} (hr : Reachable s) (k : NoteId) (t : Tid) :
    (s.notes k).lockHolder = some t ↔ k ∈ (s.pc t).held :=
  hr.inv6.2.2.2.2.2.iff k t

/-- C09 ("no such call deadlocks", locking order): a thread that waits for the mutex of `m`
    (inside `nsync_mu_lock`, or re-acquiring in WAIT_FOR_NO_CHILDREN) holds only mutexes of notes
    strictly above `m`. -/
theorem C09_lock_order {s : State} (hr : Reachable s) {t : Tid} {m h : NoteId}
    (hw : (s.pc t).wants = some m) (hh : (s.notes h).lockHolder = some t) : Lt s h m :=
  lock_order hr hw hh

/-- Thread `t` waits for a mutex held by thread `u`. -/
def WaitsFor (s : State) (t u : Tid) : Prop :=
  ∃ m, (s.pc t).wants = some m ∧ (s.notes m).lockHolder = some u

/-- A non-empty chain of threads, each waiting for a mutex held by the next. -/
inductive WaitChain (s : State) : Tid → Tid → Prop
  | one {t u : Tid} : WaitsFor s t u → WaitChain s t u
  | more {t u v : Tid} : WaitsFor s t u → WaitChain s u v → WaitChain s t v

/-- C09 ("no such call deadlocks", mutexes): there is no cycle of threads each waiting for a note
    mutex held by the next one. -/
theorem C09_no_lock_cycle {s : State} (hr : Reachable s) (t : Tid) : ¬ WaitChain s t t := by
  have hL := hr.inv6.2.2.2.2.1
  -- along a chain the last thread holds a mutex at or below the one the first thread wants
  have key : ∀ t u, WaitChain s t u → ∀ m, (s.pc t).wants = some m →
      ∃ m', (s.notes m').lockHolder = some u ∧ (m = m' ∨ Lt s m m') := by
    intro t u hc
    induction hc with
    | one hw =>
      intro m hm
      obtain ⟨m0, h0, h1⟩ := hw
      rw [hm] at h0; cases h0
      exact ⟨m, h1, Or.inl rfl⟩
    | @more t u v hw hrest ih =>
      intro m hm
      obtain ⟨m0, h0, h1⟩ := hw
      rw [hm] at h0; cases h0
      -- `u` is itself waiting
      have hu : ∃ m1, (s.pc u).wants = some m1 := by
        cases hrest with
        | one h => exact ⟨_, h.choose_spec.1⟩
        | more h _ => exact ⟨_, h.choose_spec.1⟩
      obtain ⟨m1, hm1⟩ := hu
      have hlt : Lt s m m1 := C09_lock_order hr hm1 h1
      obtain ⟨m', h2, h3⟩ := ih m1 hm1
      refine ⟨m', h2, Or.inr ?_⟩
      rcases h3 with h3 | h3
      · exact h3 ▸ hlt
      · exact Lt.trans hL hlt h3
  intro hc
  have hw : ∃ m, (s.pc t).wants = some m := by
    cases hc with
    | one h => exact ⟨_, h.choose_spec.1⟩
    | more h _ => exact ⟨_, h.choose_spec.1⟩
  obtain ⟨m, hm⟩ := hw
  obtain ⟨m', h1, h2⟩ := key t t hc m hm
  have hlt : Lt s m' m := C09_lock_order hr hm h1
  rcases h2 with h2 | h2
  · subst h2; exact hlt.irrefl
  · exact Lt.asymm hL hlt h2

/-! ### Adoption -/

/-- C09 ("the children of a freed note are adopted by its parent"): the step of
    `nsync_note_free (n)` that finds the child `c` not disconnecting (note.c:255-270) makes the
    former parent `p` of `n` the parent of `c` and appends `c` to `p`'s children; `c` keeps
    everything else (flag, waiters, own children). -/
theorem C09_adoption {s s' : State} (hr : Reachable s) {t : Tid} {n p c : NoteId}
    {nx : Option NoteId}
    (hpc : s.pc t = .fr .lockChildRet n (some p) c nx) (hd : (s.notes c).disconnecting = 0)
    (hs : step s (.lockRet t) = .ok s') :
    (s'.notes c).parent = some p ∧ c ∈ (s'.notes p).children ∧
    (s'.notes c).children = (s.notes c).children ∧
    (s'.notes c).notified = (s.notes c).notified ∧ (s'.notes c).waiters = (s.notes c).waiters ∧
    s'.pc t = .fr .unlockChild n (some p) c nx := by
  have hL := hr.inv6.2.2.2.2.1
  have hc := hL.claim t
  rw [hpc] at hc
  have h1 : c ≠ n := fun e => (hc.2.2 rfl).2 e.symm
  have h2 : c ≠ p := fun e => (Lt.trans hL (hc.2.1 p rfl) (hc.2.2 rfl)).2 e.symm
  simp only [step, stepLockRet, hpc, need_ok, hd, if_true] at hs
  obtain ⟨_, hs⟩ := hs
  cases hs
  simp only [setPc_notes, link_f_parent, link_f_children, link_f_notified, link_f_waiters,
    eraseChild_f_parent, eraseChild_f_children, eraseChild_f_notified, eraseChild_f_waiters,
    acquire_f_parent, acquire_f_children, acquire_f_notified, acquire_f_waiters, if_true,
    setAdopted_f_parent, setAdopted_f_children, setAdopted_f_notified, setAdopted_f_waiters]
  exact ⟨trivial, by simp, by simp [h1, h2], trivial, trivial, by simp⟩

/-- … and wakes a thread that is notifying or freeing `p` and may already have examined the
    children of `p` (repair of F4): `p->children_adopted` is set. -/
theorem C09_adoption_wakes {s s' : State} {t : Tid} {n p c : NoteId} {nx : Option NoteId}
    (hpc : s.pc t = .fr .lockChildRet n (some p) c nx) (hd : (s.notes c).disconnecting = 0)
    (hs : step s (.lockRet t) = .ok s') : (s'.notes p).adopted = true :=
  step_adopt_sets hpc hd hs

/-- … and a parentless `n` simply drops the child (it becomes a root). -/
theorem C09_adoption_root {s s' : State} {t : Tid} {n c : NoteId} {nx : Option NoteId}
    (hpc : s.pc t = .fr .lockChildRet n none c nx) (hd : (s.notes c).disconnecting = 0)
    (hs : step s (.lockRet t) = .ok s') : (s'.notes c).parent = none := by
  simp only [step, stepLockRet, hpc, need_ok, hd, if_true] at hs
  obtain ⟨_, hs⟩ := hs
  cases hs
  simp

/-- When `nsync_note_free (n)` leaves its WAIT_FOR_NO_CHILDREN, either no child is left behind —
    every child was adopted (above) or has disconnected itself (it was `disconnecting`) — and `n`
    is disconnected from its parent; or children were adopted by `n` meanwhile
    (`n->children_adopted`), and `nsync_note_free` scans the list again (repair of F4). -/
theorem C09_free_leaves_no_child {s s' : State} {t : Tid} {kept : Bool} {n c : NoteId}
    {par nx : Option NoteId} (hpc : s.pc t = .fr (.waitRet kept) n par c nx)
    (hs : step s (.waitRet t) = .ok s') :
    ((s.notes n).children = [] ∧ (s'.notes n).children = [] ∧
      (∀ p, par = some p → (s'.notes n).parent = none) ∧
      (s'.pc t = .fr .unlockPCall n par c nx ∨ s'.pc t = .fr .unlockCall n par c nx)) ∨
    ((s.notes n).children ≠ [] ∧ (s.notes n).adopted = true ∧
      s' = freeLoopStart (s.acquire n t) t n par) := by
  simp only [step, stepWaitRet, hpc, need_ok] at hs
  obtain ⟨hwd, _, hs⟩ := hs
  by_cases h1 : (s.notes n).children = []
  · left
    rw [if_pos h1] at hs
    refine ⟨h1, ?_, ?_, ?_⟩
    · cases par with
      | none => simp only [Except.ok.injEq] at hs; cases hs; simp [h1]
      | some p =>
        simp only [Except.ok.injEq] at hs; cases hs
        simp only [setPc_notes, unlink_f_children, acquire_f_children, h1]
        split <;> simp
    · intro p hp
      subst hp
      simp only [Except.ok.injEq] at hs; cases hs
      simp
    · cases par with
      | none => simp only [Except.ok.injEq] at hs; cases hs; right; simp
      | some p => simp only [Except.ok.injEq] at hs; cases hs; left; simp
  · right
    rw [if_neg h1] at hs
    simp only [Except.ok.injEq] at hs
    refine ⟨h1, ?_, hs.symm⟩
    simpa [NoteRec.waitDone, h1] using hwd

/-! ### Use after free -/

/-- The statement at full strength: no accepted step dereferences a note on which `free` has
    been performed (`touches` = the notes whose memory the step reads or writes). -/
def C09_no_use_after_free_full : Prop :=
  ∀ (s s' : State) (e : Event), Reachable s → step s e = .ok s' →
    ∀ k, k ∈ touches s e → (s.notes k).freed = false

/-- C09 ("none touches a note after that note's nsync_note_free has returned"), at full strength,
    for the repaired code: in every reachable state, every note an accepted step dereferences — the
    argument of the call, the note being created, the local `parent` of `notify` /
    `nsync_note_free`, the notes of the activations of `note_notify_child`, the child a loop is
    working on, and the neighbours on the children lists that are walked or edited — is a note on
    which `free` has not been performed. -/
theorem C09_no_use_after_free : C09_no_use_after_free_full :=
  fun _ _ _ hr hs k hk => touches_live hr hr.invLive hs k hk

/-- I1 of the repair of F7 ("the last disconnector unlinks"): the `parent` that a thread inside
    `notify (n)` / `nsync_note_free (n)` read from `n->parent` is still `n`'s parent, `n` is still
    on its children list and it is not freed — also while the thread holds neither mutex —, as long
    as the thread has not executed the end of its own `note_notify_child (n, parent)` / its own
    disconnection of `n`. -/
theorem C09_parent_not_stale {s : State} (hr : Reachable s) {t : Tid} {n p : NoteId}
    (h : (s.pc t).linked = some (n, p)) :
    (s.notes n).parent = some p ∧ n ∈ (s.notes p).children ∧ (s.notes p).freed = false := by
  have h1 := hr.invForest.linked t n p h
  have h2 := hr.invT.p2c p n h1
  exact ⟨h1, h2, (hr.invLive.child p n h2).2⟩

/-- A note on a children list is not freed, nor is the owner of the list; a note whose mutex is
    held is not freed. -/
theorem C09_linked_or_locked_is_live {s : State} (hr : Reachable s) :
    (∀ p c, c ∈ (s.notes p).children → (s.notes c).freed = false ∧ (s.notes p).freed = false) ∧
    (∀ k t, (s.notes k).lockHolder = some t → (s.notes k).freed = false) :=
  ⟨hr.invLive.child, hr.invLive.held⟩

theorem f7_ok : (run init Traces.f7Trace).toOption.isSome = true := by decide
theorem f7_prefix_ok : (run init (Traces.f7Trace.take 78)).toOption.isSome = true := by decide

/-- The scenario of the former defect F7 on the repaired library (tree note0 → note1; T0 and T1
    call `nsync_note_notify (note1)`, T2 calls `nsync_note_free (note0)`; trace recorded with
    `vfh run … seed=1 strategy=1`).  After 78 events both notifiers have incremented
    `disconnecting`, read `parent = note0`, failed the trylock and dropped note1's lock; T1 has
    notified note1 and returned WITHOUT disconnecting it (`disconnecting` was 2); T0 is inside
    `nsync_mu_lock (&note0->note_mu)` holding the possibly stale `parent`: but note1 is still on
    note0's list, T2 is still inside WAIT_FOR_NO_CHILDREN (note0), and note0 is not freed.  At the
    end of the run T0 has disconnected note1 as the last disconnector, and only then T2 has freed
    note0. -/
theorem f7_repaired :
    let s1 := stateAfter _ f7_prefix_ok
    let s2 := stateAfter _ f7_ok
    (s1.pc 0 = .nfy .sLockPRet 1 (some 0) .ofApi ∧ s1.pc 1 = .idle ∧
      s1.pc 2 = .fr (.waitRet false) 0 none 0 none ∧
      (s1.notes 1).notified = true ∧ (s1.notes 1).parent = some 0 ∧
      (s1.notes 0).children = [1] ∧ (s1.notes 1).disconnecting = 1 ∧
      (s1.notes 0).freed = false ∧ (s1.notes 0).waitDone = false) ∧
    (s2.pc 0 = .idle ∧ s2.pc 2 = .idle ∧ (s2.notes 0).freed = true ∧
      (s2.notes 1).parent = none ∧ (s2.notes 1).disconnecting = 0 ∧
      (s2.notes 1).freed = false) := by
  decide

/-- What the UNREPAIRED code did in this scenario (defect F7; the accepted trace of the unrepaired
    library was the former `C09_no_use_after_free_witness`): T1 disconnected note1 although T0 was
    still counted in `note1->disconnecting`, T2 then freed note0, and T0 completed
    `nsync_mu_lock (&note0->note_mu)` on freed memory.  On the repaired code the state after 78
    events shows the difference: note1 is still linked (`disconnecting == 1`: T0), T2 still waits,
    note0 is not freed.  (`f7_repaired`, first half, under the name the check uses for documented
    old behaviour.) -/
theorem C09_no_use_after_free_old_code_witness :
    let s1 := stateAfter _ f7_prefix_ok
    s1.pc 0 = .nfy .sLockPRet 1 (some 0) .ofApi ∧ s1.pc 2 = .fr (.waitRet false) 0 none 0 none ∧
      (s1.notes 1).notified = true ∧ (s1.notes 1).parent = some 0 ∧
      (s1.notes 1).disconnecting = 1 ∧ (s1.notes 0).freed = false ∧
      0 ∈ touches s1 (.lockRet 0) := by
  decide

/-- The former partial statement, now a corollary of the invariants: the note passed to a call in
    progress is never a freed note — except for the `nsync_note_free` call itself between its
    `free` and its return. -/
theorem C09_no_use_after_free_partial {s : State} (hr : Reachable s) {t : Tid} {n : NoteId}
    (harg : (s.pc t).arg = some n) :
    (s.notes n).freed = false ∨ (s.pc t).freedIt = true := by
  have hU := hr.invU
  cases hf : (s.notes n).freed with
  | false => left; rfl
  | true => right; exact hU.freedK t n hf ((hU.users t n).mpr harg)

/-- The contract is enforced by the acceptor: once `nsync_note_free (n)` has been called no other
    thread is inside a call on `n`, and no new call on `n` is accepted. -/
theorem C09_free_is_exclusive {s : State} (hr : Reachable s) {t u : Tid} {n : NoteId}
    (hf : (s.pc t).freer = some n) (hu : (s.pc u).arg = some n) : u = t := by
  have hU := hr.invU
  have := (hU.users u n).mpr hu
  rw [hU.sole t n hf] at this
  exact List.mem_singleton.mp this

/-! ### No stuck state -/

/-- The statement at full strength: if every thread is idle, blocked on a note mutex (held by
    another thread), blocked in WAIT_FOR_NO_CHILDREN (its condition — no children, or
    `children_adopted` — is false) or asleep in a wait, then no thread is blocked on a mutex or in
    WAIT_FOR_NO_CHILDREN.  (`LockBlocked`, `WaitBlocked`, `Asleep`: Proofs/NoteFixP7.lean.) -/
def C09_no_stuck_state_full : Prop :=
  ∀ s, Reachable s →
    (∀ t, s.pc t = .idle ∨ LockBlocked s t ∨ WaitBlocked s t ∨ Asleep s t) →
    ∀ t, ¬ LockBlocked s t ∧ ¬ WaitBlocked s t

/-- C09 ("no such call deadlocks"), at full strength, for the repaired code: there is no reachable
    state in which some call is blocked and nobody can move.  In particular a
    WAIT_FOR_NO_CHILDREN always has somebody responsible for emptying the list or for setting
    `children_adopted` (`C09_wait_has_disconnectors`). -/
theorem C09_no_stuck_state : C09_no_stuck_state_full :=
  fun _ hr hall t => no_stuck_state hr hall t

/-- I2 of the repair of F4: while a thread is inside a WAIT_FOR_NO_CHILDREN (`m`) whose condition
    is false, every child `c` of `m` is `disconnecting`, and some thread is counted in
    `c->disconnecting` — it is inside `notify (c)` / `nsync_note_free (c)` between the increment
    and the decrement, or inside the recursive call `note_notify_child (c, …)` — and will
    disconnect `c` (or leave that to another thread that is counted too, I1). -/
theorem C09_wait_has_disconnectors {s : State} (hr : Reachable s) {t : Tid} {m : NoteId}
    (hw : WaitBlockedOn s t m) :
    (s.notes m).children ≠ [] ∧
    ∀ c ∈ (s.notes m).children, (s.notes c).disconnecting ≠ 0 ∧ ∃ u, cntOf (s.pc u) c ≠ 0 := by
  have hwd := hw.2
  simp only [NoteRec.waitDone, Bool.or_eq_false_iff, decide_eq_false_iff_not] at hwd
  obtain ⟨hne, had⟩ := hwd
  have hsc : (m, none, none) ∈ (s.pc t).scans := by
    rcases hw.1 with ⟨k, f, rest, top, hpc, rfl⟩ | ⟨k, par, c, nx, hpc⟩
    · rw [hpc]; simp [PC.scans, CPos.scan, headScan]
    · rw [hpc]; simp [PC.scans, FPos.scan, headScan]
  refine ⟨hne, fun c hc => ?_⟩
  have hd := hr.wait_children_disc hsc had c hc
  exact ⟨hd, hr.invForest.cnt_pos hd⟩

/-- `n->disconnecting` counts exactly the threads that have incremented it and not yet decremented
    it (`L` lists the threads inside a call; `cntOf`: one per top-level section of `notify` /
    `nsync_note_free` on `n`, one per inner activation of `note_notify_child` on `n`). -/
theorem C09_disconnecting_count {s : State} (hr : Reachable s) :
    ∃ L : List Tid, L.Nodup ∧ (∀ t, s.pc t ≠ .idle → t ∈ L) ∧
      ∀ n, (s.notes n).disconnecting = (L.map (fun t => cntOf (s.pc t) n)).sum :=
  hr.invForest.cnt

/-- Threads that take no part in a trace stay idle. -/
theorem pc_idle_of_not_actor {evs : List Event} {s0 s : State} (hr : run s0 evs = .ok s)
    (t : Tid) (ht : ∀ e ∈ evs, e.actor ≠ some t) : s.pc t = s0.pc t := by
  induction evs generalizing s0 with
  | nil => simp [run] at hr; rw [← hr]
  | cons e es ih =>
    simp only [run] at hr
    cases h1 : step s0 e with
    | ok s1 =>
      rw [h1] at hr
      rw [ih hr (fun e' he' => ht e' (List.mem_cons_of_mem _ he')),
        step_pc_other h1 t (ht e (List.mem_cons_self))]
    | error m => rw [h1] at hr; cases hr

theorem f4p_ok : (run init Traces.f4Prefix).toOption.isSome = true := by decide
theorem f4_ok : (run init Traces.f4Trace).toOption.isSome = true := by decide

/-- The scenario of the former defect F4 on the repaired library (tree note0 → note1 → note2;
    T0 `nsync_note_notify (note0)` ∥ T1 `nsync_note_free (note1)`).  In the state in which the
    unrepaired code was stuck for ever (T1 has returned, T0 inside WAIT_FOR_NO_CHILDREN (note0),
    `note0->children = [note2]`, note2 neither notified nor `disconnecting`) T0 is NOT blocked any
    more: `note0->children_adopted` is set, the condition of its wait holds, note0's mutex is free;
    and it does go on (`f4Trace`): at the end everybody is idle and note2 is notified. -/
theorem f4_not_stuck :
    let s1 := stateAfter _ f4p_ok
    let s2 := stateAfter _ f4_ok
    (s1.pc 0 = .chd (.waitRet false) [⟨0, none⟩] ⟨0, none, .ofApi⟩ ∧ s1.pc 1 = .idle ∧
      (s1.notes 0).children = [2] ∧ (s1.notes 2).disconnecting = 0 ∧
      (s1.notes 0).adopted = true ∧ (s1.notes 0).lockHolder = none ∧
      ¬ WaitBlocked s1 0 ∧ (step s1 (.waitRet 0)).toOption.isSome = true) ∧
    (s2.pc 0 = .idle ∧ s2.pc 1 = .idle ∧ (s2.notes 2).notified = true ∧
      (s2.notes 0).children = []) := by
  refine ⟨⟨by decide, by decide, by decide, by decide, by decide, by decide, ?_, by decide⟩,
    by decide, by decide, by decide, by decide⟩
  intro h
  have hpc : (stateAfter _ f4p_ok).pc 0 =
      .chd (.waitRet false) [⟨0, none⟩] ⟨0, none, .ofApi⟩ := by decide
  unfold WaitBlocked at h
  rw [hpc] at h
  have hw : ((stateAfter _ f4p_ok).notes 0).waitDone = true := by decide
  simp only at h
  rw [hw] at h; cases h

/-- What the UNREPAIRED code did in the F4 scenario (the former `C09_no_stuck_state_witness`): it
    stopped for ever in the state after the first 82 events — everybody idle except T0, which was
    inside WAIT_FOR_NO_CHILDREN (note0) with `note0->children = [note2]`, note2 not
    `disconnecting`, and no `children_adopted` to end the wait.  (`f4_not_stuck`, first half, under
    the name the check uses for documented old behaviour.) -/
theorem C09_no_stuck_state_old_code_witness :
    let s1 := stateAfter _ f4p_ok
    s1.pc 0 = .chd (.waitRet false) [⟨0, none⟩] ⟨0, none, .ofApi⟩ ∧ s1.pc 1 = .idle ∧
      s1.pc 99 = .idle ∧ (s1.notes 0).children = [2] ∧ (s1.notes 2).disconnecting = 0 ∧
      (s1.notes 0).adopted = true ∧ (s1.notes 0).lockHolder = none := by
  decide

/-- The former partial statement (no deadlock among the mutexes alone), a corollary. -/
theorem C09_no_stuck_state_partial {s : State} (hr : Reachable s) (t : Tid) :
    ¬ WaitChain s t t := C09_no_lock_cycle hr t

/-! ### Non-vacuity -/

/-- Free of a middle note with adoption, then notification of the root reaches the adopted child
    (accepted trace from the harness; final `nsync_note_is_notified (note2)` returns 1). -/
example : (match run init Traces.adoptTrace with
    | .ok s => (s.notes 1).freed && (s.notes 2).notified && (s.notes 0).notified &&
        decide (s.observed.head?.map (fun o => (o.n, o.res)) = some (2, true))
    | .error _ => false) = true := by decide

end Note
