/-
  Property C09: "Concurrent notify / free / create on related notes is safe.  Threads may
  concurrently notify, poll, wait on, create children of and free different notes of one tree, each
  note being freed only when no other thread uses that same note: no such call deadlocks, none
  touches a note after that note's nsync_note_free has returned, and the children of a freed note
  are adopted by its parent, so that a later notification of that ancestor still reaches them."

  Model: `NsyncVerif.Model.Note`.  The contract ("freed only when no other thread uses that same
  note") is built into the acceptor: `call nsync_note_free n` is rejected while another thread is
  inside a call whose argument is `n`, and every later call on `n` is rejected.

  STATUS
  * proved at full strength:
      `C09_lock_order`  — a thread waiting for the mutex of note `m` holds only mutexes of notes
                          strictly above `m` in the creation order (`Lt`: on `m`'s path to the root
                          when `m` was created; this is insensitive to re-parenting and to stale
                          `parent` locals, and it is the order "parent before child" of note.c:38);
      `C09_no_lock_cycle` — hence no cycle of threads each waiting for a mutex held by the next;
      `C09_holds_iff`   — the abstract mutexes agree with the program counters;
      `C09_adoption`    — the adoption step of nsync_note_free, and `C09_free_leaves_no_child`.
  * REFUTED at full strength (the code violates the property), with concrete accepted traces
    recorded from the unmodified library:
      `C09_no_use_after_free_witness` — NEW DEFECT F7: notify (n) ∥ notify (n) ∥ free (parent n):
                          the second notifier is inside nsync_mu_lock (&parent->note_mu) when the
                          parent is freed (note.c:124-127: `parent` is read under n's lock, the lock
                          is dropped, and nothing keeps `parent` alive once the first notifier has
                          unlinked n).
      `C09_no_stuck_state_witness`   — known defect F4: notify (n) ∥ free (c), n → c → g.
    Their restricted versions: `C09_no_use_after_free_partial` (the argument of the call itself is
    never a freed note), `C09_no_stuck_state_partial` = `C09_no_lock_cycle`.
-/
import NsyncVerif.Proofs.NoteInvU
import NsyncVerif.Proofs.NoteWitness

set_option linter.unusedSimpArgs false

namespace Note

/-! ### The locking discipline -/

/-- The abstract mutex of note `k` is held by thread `t` exactly when the program counter of `t`
    is inside a critical section of `k`. -/
theorem C09_holds_iff {s : State} (hr : Reachable s) (k : NoteId) (t : Tid) :
    (s.notes k).lockHolder = some t ↔ k ∈ (s.pc t).held :=
  hr.inv6.2.2.2.2.2.iff k t

/-- C09 ("no such call deadlocks", locking order): a thread that waits for the mutex of `m`
    (inside `nsync_mu_lock`, or re-acquiring in WAIT_FOR_NO_CHILDREN) holds only mutexes of notes
    strictly above `m`. -/
theorem C09_lock_order {s : State} (hr : Reachable s) {t : Tid} {m h : NoteId}
    (hw : (s.pc t).wants = some m) (hh : (s.notes h).lockHolder = some t) : Lt s h m := by
  obtain ⟨_, _, hS, _, hL, hK⟩ := hr.inv6
  have hmem := (hK.iff h t).mp hh
  have hc := hL.claim t
  cases hpc : s.pc t with
  | dl pos n nt dk =>
    rw [hpc] at hw hmem
    cases pos <;> simp [PC.wants] at hw <;> simp [PC.held] at hmem
  | nfy pos n par nk =>
    rw [hpc] at hw hmem hc
    cases pos <;> simp [PC.wants] at hw <;> simp [PC.held] at hmem
    · subst hw; exact hc h hmem
  | chd pos stk top =>
    rw [hpc] at hw hmem hc
    cases pos with
    | lockChildRet c =>
      simp only [PC.wants, Option.some.injEq] at hw
      subst hw
      exact LClaim.above_cur hL hc rfl h (by simpa [PC.held] using hmem)
    | waitRet b =>
      cases b with
      | true => simp [PC.wants] at hw
      | false =>
        cases stk with
        | nil => simp [PC.wants] at hw
        | cons f rest =>
          simp only [PC.wants, List.head?_cons, Option.map_some, Option.some.injEq] at hw
          subst hw
          exact LClaim.above_head hL hc h (by simpa [PC.held] using hmem)
    | _ => simp [PC.wants] at hw
  | newP pos n p dl =>
    rw [hpc] at hw hmem
    cases pos <;> simp [PC.wants] at hw <;> simp [PC.held] at hmem
  | fr pos n par c nx =>
    rw [hpc] at hw hmem hc
    cases pos with
    | sLockNRet =>
      simp only [PC.wants, Option.some.injEq] at hw
      subst hw
      exact hc.2.1 h (by simpa [PC.held] using hmem)
    | lockChildRet =>
      simp only [PC.wants, Option.some.injEq] at hw
      subst hw
      simp only [PC.held, List.mem_cons] at hmem
      rcases hmem with hm | hm
      · subst hm; exact hc.2.2 rfl
      · exact Lt.trans hL (hc.2.1 h (by simpa using hm)) (hc.2.2 rfl)
    | waitRet b =>
      cases b with
      | true => simp [PC.wants] at hw
      | false =>
        simp only [PC.wants, Option.some.injEq] at hw
        subst hw
        exact hc.2.1 h (by simpa [PC.held] using hmem)
    | lockRet => simp [PC.held] at hmem
    | sLockPRet => simp [PC.held] at hmem
    | _ => simp [PC.wants] at hw
  | wt pos n wdl r =>
    rw [hpc] at hw hmem
    cases pos <;> simp [PC.wants] at hw <;> simp [PC.held] at hmem
  | _ => rw [hpc] at hw; simp [PC.wants] at hw

/-- Thread `t` waits for a mutex held by thread `u`. -/
def WaitsFor (s : State) (t u : Tid) : Prop :=
  ∃ m, (s.pc t).wants = some m ∧ (s.notes m).lockHolder = some u

/-- A non-empty chain of threads, each waiting for a mutex held by the next. -/
inductive WaitChain (s : State) : Tid → Tid → Prop
  | one {t u : Tid} : WaitsFor s t u → WaitChain s t u
  | more {t u v : Tid} : WaitsFor s t u → WaitChain s u v → WaitChain s t v

/-- C09 ("no such call deadlocks", mutexes): there is no cycle of threads each waiting for a note
    mutex held by the next one. -/
theorem C09_no_lock_cycle {s : State} (hr : Reachable s) (t : Tid) : ¬ WaitChain s t t := by
  have hL := hr.inv6.2.2.2.2.1
  -- along a chain the last thread holds a mutex at or below the one the first thread wants
  have key : ∀ t u, WaitChain s t u → ∀ m, (s.pc t).wants = some m →
      ∃ m', (s.notes m').lockHolder = some u ∧ (m = m' ∨ Lt s m m') := by
    intro t u hc
    induction hc with
    | one hw =>
      intro m hm
      obtain ⟨m0, h0, h1⟩ := hw
      rw [hm] at h0; cases h0
      exact ⟨m, h1, Or.inl rfl⟩
    | @more t u v hw hrest ih =>
      intro m hm
      obtain ⟨m0, h0, h1⟩ := hw
      rw [hm] at h0; cases h0
      -- `u` is itself waiting
      have hu : ∃ m1, (s.pc u).wants = some m1 := by
        cases hrest with
        | one h => exact ⟨_, h.choose_spec.1⟩
        | more h _ => exact ⟨_, h.choose_spec.1⟩
      obtain ⟨m1, hm1⟩ := hu
      have hlt : Lt s m m1 := C09_lock_order hr hm1 h1
      obtain ⟨m', h2, h3⟩ := ih m1 hm1
      refine ⟨m', h2, Or.inr ?_⟩
      rcases h3 with h3 | h3
      · exact h3 ▸ hlt
      · exact Lt.trans hL hlt h3
  intro hc
  have hw : ∃ m, (s.pc t).wants = some m := by
    cases hc with
    | one h => exact ⟨_, h.choose_spec.1⟩
    | more h _ => exact ⟨_, h.choose_spec.1⟩
  obtain ⟨m, hm⟩ := hw
  obtain ⟨m', h1, h2⟩ := key t t hc m hm
  have hlt : Lt s m' m := C09_lock_order hr hm h1
  rcases h2 with h2 | h2
  · subst h2; exact hlt.irrefl
  · exact Lt.asymm hL hlt h2

/-! ### Adoption -/

/-- C09 ("the children of a freed note are adopted by its parent"): the step of
    `nsync_note_free (n)` that finds the child `c` not disconnecting (note.c:212-221) makes the
    former parent `p` of `n` the parent of `c` and appends `c` to `p`'s children; `c` keeps
    everything else (flag, waiters, own children). -/
theorem C09_adoption {s s' : State} (hr : Reachable s) {t : Tid} {n p c : NoteId}
    {nx : Option NoteId}
    (hpc : s.pc t = .fr .lockChildRet n (some p) c nx) (hd : (s.notes c).disconnecting = 0)
    (hs : step s (.lockRet t) = .ok s') :
    (s'.notes c).parent = some p ∧ c ∈ (s'.notes p).children ∧
    (s'.notes c).children = (s.notes c).children ∧
    (s'.notes c).notified = (s.notes c).notified ∧ (s'.notes c).waiters = (s.notes c).waiters ∧
    s'.pc t = .fr .unlockChild n (some p) c nx := by
  have hL := hr.inv6.2.2.2.2.1
  have hc := hL.claim t
  rw [hpc] at hc
  have h1 : c ≠ n := fun e => (hc.2.2 rfl).2 e.symm
  have h2 : c ≠ p := fun e => (Lt.trans hL (hc.2.1 p rfl) (hc.2.2 rfl)).2 e.symm
  simp only [step, stepLockRet, hpc, need_ok, hd, if_true] at hs
  obtain ⟨_, hs⟩ := hs
  cases hs
  simp only [setPc_notes, link_f_parent, link_f_children, link_f_notified, link_f_waiters,
    eraseChild_f_parent, eraseChild_f_children, eraseChild_f_notified, eraseChild_f_waiters,
    acquire_f_parent, acquire_f_children, acquire_f_notified, acquire_f_waiters, if_true]
  exact ⟨trivial, by simp, by simp [h1, h2], trivial, trivial, by simp⟩

/-- … and a parentless `n` simply drops the child (it becomes a root). -/
theorem C09_adoption_root {s s' : State} {t : Tid} {n c : NoteId} {nx : Option NoteId}
    (hpc : s.pc t = .fr .lockChildRet n none c nx) (hd : (s.notes c).disconnecting = 0)
    (hs : step s (.lockRet t) = .ok s') : (s'.notes c).parent = none := by
  simp only [step, stepLockRet, hpc, need_ok, hd, if_true] at hs
  obtain ⟨_, hs⟩ := hs
  cases hs
  simp

/-- When `nsync_note_free (n)` passes WAIT_FOR_NO_CHILDREN no child is left behind: every child was
    adopted (above) or has disconnected itself (it was `disconnecting`). -/
theorem C09_free_leaves_no_child {s s' : State} {t : Tid} {kept : Bool} {n c : NoteId}
    {par nx : Option NoteId} (hpc : s.pc t = .fr (.waitRet kept) n par c nx)
    (hs : step s (.waitRet t) = .ok s') :
    (s.notes n).children = [] ∧ (s'.notes n).children = [] ∧
    (∀ p, par = some p → (s'.notes n).parent = none) := by
  simp only [step, stepWaitRet, hpc, need_ok] at hs
  obtain ⟨h1, _, hs⟩ := hs
  refine ⟨h1, ?_, ?_⟩
  · cases par with
    | none => simp only [Except.ok.injEq] at hs; cases hs; simp [h1]
    | some p =>
      simp only [Except.ok.injEq] at hs; cases hs
      simp only [setPc_notes, unlink_f_children, acquire_f_children, h1]
      split <;> simp
  · intro p hp
    subst hp
    simp only [Except.ok.injEq] at hs; cases hs
    simp

/-! ### Use after free -/

/-- The statement at full strength: no accepted step dereferences a note on which `free` has
    been performed (`touches` = the notes whose memory the step reads or writes). -/
def C09_no_use_after_free_full : Prop :=
  ∀ (s s' : State) (e : Event), Reachable s → step s e = .ok s' →
    ∀ k, k ∈ touches s e → (s.notes k).freed = false

theorem f7_ok : (run init Traces.f7Trace).toOption.isSome = true := by decide

/-- NEW DEFECT F7 (accepted trace recorded from the unmodified library; tree note0 → note1):
    T0 and T1 call `nsync_note_notify (note1)`, T2 calls `nsync_note_free (note0)`.  Both notifiers
    increment `disconnecting`, read `parent = note0`, fail the trylock and drop note1's lock; T1
    notifies and unlinks note1; T2 (whose loop skipped the disconnecting note1) now finds no children,
    frees note0 and returns; T0 is still inside `nsync_mu_lock (&note0->note_mu)` (note.c:127) and
    completes it on freed memory. -/
theorem C09_no_use_after_free_witness : ¬ C09_no_use_after_free_full := by
  intro h
  have hstep : (step (stateAfter _ f7_ok) (.lockRet 0)).toOption.isSome = true := by decide
  obtain ⟨s', hs'⟩ := step_of_isSome hstep
  have := h _ s' (.lockRet 0) (reachable_stateAfter _ f7_ok) hs' 0 (by decide)
  have hf : ((stateAfter _ f7_ok).notes 0).freed = true := by decide
  rw [hf] at this
  cases this

/-- C09 (proved part): the note passed to a call in progress is never a freed note — except for
    the `nsync_note_free` call itself between its `free` and its return.  (What the defect F7
    breaks is the liveness of the *parent* read from `n->parent`, not of the argument.) -/
theorem C09_no_use_after_free_partial {s : State} (hr : Reachable s) {t : Tid} {n : NoteId}
    (harg : (s.pc t).arg = some n) :
    (s.notes n).freed = false ∨ (s.pc t).freedIt = true := by
  have hU := hr.invU
  cases hf : (s.notes n).freed with
  | false => left; rfl
  | true => right; exact hU.freedK t n hf ((hU.users t n).mpr harg)

/-- The contract is enforced by the acceptor: once `nsync_note_free (n)` has been called no other
    thread is inside a call on `n`, and no new call on `n` is accepted. -/
theorem C09_free_is_exclusive {s : State} (hr : Reachable s) {t u : Tid} {n : NoteId}
    (hf : (s.pc t).freer = some n) (hu : (s.pc u).arg = some n) : u = t := by
  have hU := hr.invU
  have := (hU.users u n).mpr hu
  rw [hU.sole t n hf] at this
  exact List.mem_singleton.mp this

/-! ### No stuck state -/

/-- Waiting for a note mutex that another thread holds. -/
def LockBlocked (s : State) (t : Tid) : Prop :=
  ∃ m u, (s.pc t).wants = some m ∧ (s.notes m).lockHolder = some u ∧ u ≠ t

/-- Inside WAIT_FOR_NO_CHILDREN with a non-empty children list. -/
def WaitBlocked (s : State) (t : Tid) : Prop :=
  match s.pc t with
  | .chd (.waitRet _) (f :: _) _ => (s.notes f.note).children ≠ []
  | .fr (.waitRet _) n _ _ _ => (s.notes n).children ≠ []
  | _ => False

/-- Asleep on the semaphore of a `nsync_note_wait`. -/
def Asleep (s : State) (t : Tid) : Prop :=
  ∃ d n wdl r, s.pc t = .wt (.pdRet d) n wdl r

/-- The statement at full strength: if every thread is idle, blocked on a note mutex, blocked in
    WAIT_FOR_NO_CHILDREN or asleep in a wait, then no thread is blocked on a mutex or in
    WAIT_FOR_NO_CHILDREN. -/
def C09_no_stuck_state_full : Prop :=
  ∀ s, Reachable s →
    (∀ t, s.pc t = .idle ∨ LockBlocked s t ∨ WaitBlocked s t ∨ Asleep s t) →
    ∀ t, ¬ LockBlocked s t ∧ ¬ WaitBlocked s t

/-- Threads that take no part in a trace stay idle. -/
theorem pc_idle_of_not_actor {evs : List Event} {s0 s : State} (hr : run s0 evs = .ok s)
    (t : Tid) (ht : ∀ e ∈ evs, e.actor ≠ some t) : s.pc t = s0.pc t := by
  induction evs generalizing s0 with
  | nil => simp [run] at hr; rw [← hr]
  | cons e es ih =>
    simp only [run] at hr
    cases h1 : step s0 e with
    | ok s1 =>
      rw [h1] at hr
      rw [ih hr (fun e' he' => ht e' (List.mem_cons_of_mem _ he')),
        step_pc_other h1 t (ht e (List.mem_cons_self))]
    | error m => rw [h1] at hr; cases hr

theorem f4_ok : (run init Traces.f4Trace).toOption.isSome = true := by decide

/-- Known defect F4 (accepted trace recorded from the unmodified library; tree
    note0 → note1 → note2): T0 `nsync_note_notify (note0)` skips note1 because T1
    `nsync_note_free (note1)` has marked it disconnecting, and sleeps in
    WAIT_FOR_NO_CHILDREN (note0); T1 re-parents note2 under note0 and returns.  Final state: T1 and
    the set-up thread idle, T0 in WAIT_FOR_NO_CHILDREN (note0) for ever: note0's children = [note2],
    note2 is neither notified nor disconnecting. -/
theorem C09_no_stuck_state_witness : ¬ C09_no_stuck_state_full := by
  intro h
  have hpc0 : (stateAfter _ f4_ok).pc 0 =
      .chd (.waitRet false) [⟨0, none⟩] ⟨0, none, .ofApi⟩ := by decide
  have hch : ((stateAfter _ f4_ok).notes 0).children = [2] := by decide
  have hw : WaitBlocked (stateAfter _ f4_ok) 0 := by
    unfold WaitBlocked; rw [hpc0]; simp [hch]
  refine (h _ (reachable_stateAfter _ f4_ok) ?_ 0).2 hw
  intro t
  by_cases h0 : t = 0
  · subst h0; right; right; left; exact hw
  · left
    by_cases h1 : t = 1
    · subst h1; decide
    · by_cases h99 : t = 99
      · subst h99; decide
      · have hact : ∀ e ∈ Traces.f4Trace, e.actor ≠ some t := by
          have hall : Traces.f4Trace.all
              (fun e => e.actor == some 0 || e.actor == some 1 || e.actor == some 99
                || e.actor == none) = true := by decide
          intro e he hea
          have := List.all_eq_true.mp hall e he
          rw [hea] at this
          simp [h0, h1, h99] at this
        exact pc_idle_of_not_actor (run_stateAfter _ f4_ok) t hact

/-- What remains true (proved part): no deadlock among the mutexes alone. -/
theorem C09_no_stuck_state_partial {s : State} (hr : Reachable s) (t : Tid) :
    ¬ WaitChain s t t := C09_no_lock_cycle hr t

/-- The notified flag of note2 in the F4 end state: never set, although its ancestor note0 is
    notified and no thread will ever deliver the notification. -/
example : ((stateAfter _ f4_ok).notes 0).notified = true ∧
    ((stateAfter _ f4_ok).notes 2).notified = false ∧
    ((stateAfter _ f4_ok).notes 2).parent = some 0 ∧
    ((stateAfter _ f4_ok).notes 2).disconnecting = 0 := by decide

/-! ### Non-vacuity -/

/-- Free of a middle note with adoption, then notification of the root reaches the adopted child
    (accepted trace from the harness; final `nsync_note_is_notified (note2)` returns 1). -/
example : (match run init Traces.adoptTrace with
    | .ok s => (s.notes 1).freed && (s.notes 2).notified && (s.notes 0).notified &&
        decide (s.observed.head?.map (fun o => (o.n, o.res)) = some (2, true))
    | .error _ => false) = true := by decide

end Note
