import NsyncVerif.Proofs.MuX
/-
  Property C01 — writer exclusion and reader sharing hold on every acquisition path.

  Model: `NsyncVerif.MuX` (Model/MuX.lean), one step per atomic operation on the mutex word.
  `Reachable s` quantifies over every event list the acceptor admits: any number of threads, any
  interleaving, any mix of lock / rlock / trylock / rtrylock / unlock / runlock / waits (cv wait,
  mu_wait, wait_n: their internal release and re-acquisition are ordinary writes to the word),
  wakers and debug callers (spinlock-only writes), any number of steps.  Deadlines, cancellation
  and semaphore flavour do not appear: they only influence *which* legal writes a thread attempts
  and when, and the theorem covers all of them.

  `held` is the client-visible ghost: set when an acquiring call returns, cleared when a releasing
  or waiting call starts.  `ann` is the same notion as declared by nsync's own annotations
  (RWLOCK_TRYACQUIRE / RWLOCK_RELEASE), which exist for every mutex including the internal ones
  of notes, counters and once.

  Contract (rejected by the acceptor, hence hypotheses): a thread releases only what it holds, in
  the mode it holds it; no recursive acquisition; waits only while holding.
-/
namespace NsyncVerif.Props.C01
open NsyncVerif.MuX

/-- At most one writer, and a writer excludes everybody else. -/
theorem C01_exclusion {s : State} (h : Reachable s) (t u : Tid) :
    s.held t = .W → s.held u ≠ .none → t = u := by
  intro ht hu
  have hi := reachable_inv h
  have hw := hi.heldW t ht
  cases hus : s.held u with
  | none => exact absurd hus hu
  | W =>
    have := hi.heldW u hus
    rw [hw] at this
    injection this
  | R =>
    have hmem := hi.heldR u hus
    have hnil := hi.wx (by rw [hw]; rfl)
    rw [hnil] at hmem
    cases hmem

/-- A reader excludes every writer (any number of readers may coexist: see `readers_share`). -/
theorem C01_reader_excludes_writer {s : State} (h : Reachable s) (t u : Tid) :
    s.held t = .R → s.held u ≠ .W := by
  intro ht hu
  have := C01_exclusion h u t hu (by rw [ht]; intro hc; cases hc)
  subst this
  rw [ht] at hu
  cases hu

/-- The same two statements for what nsync itself annotates as held (covers the internal
    mutexes of notes, counters and once, for which there is no client-level call event). -/
theorem C01_exclusion_ann {s : State} (h : Reachable s) (t u : Tid) :
    s.ann t = .W → s.ann u ≠ .none → t = u := by
  intro ht hu
  have hi := reachable_inv h
  have hw := hi.annW t ht
  cases hus : s.ann u with
  | none => exact absurd hus hu
  | W =>
    have := hi.annW u hus
    rw [hw] at this
    injection this
  | R =>
    have hmem := hi.annR u hus
    have hnil := hi.wx (by rw [hw]; rfl)
    rw [hnil] at hmem
    cases hmem

/-- The word tells the truth: the writer bit is set iff some thread owns it, the reader count is
    the number of owners, never both, and the spinlock bit is set iff some thread owns it. -/
theorem C01_word_agrees {s : State} (h : Reachable s) :
    ((decode s.word).wlock = s.w.isSome) ∧ ((decode s.word).readers = s.rs.length) ∧
    ((decode s.word).wlock = true → (decode s.word).readers = 0) ∧
    ((decode s.word).spin = s.sp.isSome) := by
  have hi := reachable_inv h
  refine ⟨hi.wl, hi.rd, ?_, hi.spn⟩
  intro hw
  rw [hi.wl] at hw
  rw [hi.rd, hi.wx hw]
  rfl

/-- Soundness of the plain release-stores (mu_wait.c:104,108): a store is admitted only from the
    owner of the spinlock AND the writer bit (nobody else can then write the word), and every admitted store leaves the invariant intact — in particular it can
    never erase another thread's share. -/
theorem C01_store_sound {s s' : State} (h : Reachable s) (t : Tid) (v : Nat) (ord : Ord)
    (hs : step s (.st t v ord) = .ok s') : s.sp = some t ∧ s.w = some t ∧ Inv s' := by
  have hi := reachable_inv h
  refine ⟨?_, ?_, step_inv hi hs⟩
  · simp only [step] at hs
    split at hs
    · rename_i hc; exact hc.1
    · cases hs
  · simp only [step] at hs
    split at hs
    · rename_i hc; exact hc.2
    · cases hs

/-! ### Non-vacuity: concrete accepted traces -/

/-- Two readers hold the mutex at once; a writer then gets it after both left. -/
def readersShare : List Ev :=
  [ .call 1 (.acq .R false), .cas 1 0 256, .annAcq 1 .R, .ret 1 true,
    .call 2 (.acq .R false), .casFail 2 0 256, .ld 2 256, .cas 2 256 512, .annAcq 2 .R, .ret 2 true ]

example : (run init readersShare).toOption.map (fun s => (s.held 1, s.held 2, s.word)) = some (.R, .R, 512) := by
  decide

def writerAfterReaders : List Ev :=
  readersShare ++
  [ .call 1 (.rel .R), .annRel 1 .R, .casFail 1 256 512, .ld 1 512, .cas 1 512 256, .ret 1 true,
    .call 2 (.rel .R), .annRel 2 .R, .cas 2 256 0, .ret 2 true,
    .call 3 (.acq .W false), .cas 3 0 1, .annAcq 3 .W, .ret 3 true ]

example : (run init writerAfterReaders).toOption.map (fun s => (s.held 1, s.held 2, s.held 3)) = some (.none, .none, .W) := by
  decide

/-- The timeout path of nsync_mu_wait: acquire writer bit + spinlock by CAS, then one plain store
    converts to a read share and drops the spinlock (mu_wait.c:73,104). -/
def timeoutReacquire : List Ev :=
  [ .call 1 (.acq .R false), .cas 1 0 256, .annAcq 1 .R, .ret 1 true,
    .call 1 .wait, .cas 1 256 (256 + 2 + 4 + 16), .annRel 1 .R, .cas 1 278 20,      -- enqueue, release share+spinlock
    .cas 1 20 23, .st 1 (20 + 256), .annAcq 1 .R, .ret 1 true ]

example : (run init timeoutReacquire).toOption.map (fun s => (s.held 1, s.word)) = some (.R, 276) := by
  decide

/-! ### What the acceptor refuses: the two-writer step is not a legal write -/

/-- A second thread "acquiring" the writer bit while it is set is rejected (no legal delta). -/
example : (run init [ .call 1 (.acq .W false), .cas 1 0 1, .ret 1 true,
                      .call 2 (.acq .W false), .cas 2 1 1 ]).toOption.isSome = true := by decide
-- (a CAS 1 → 1 changes nothing and is accepted; but thread 2 cannot return success:)
example : (run init [ .call 1 (.acq .W false), .cas 1 0 1, .ret 1 true,
                      .call 2 (.acq .W false), .cas 2 1 1, .ret 2 true ]).toOption.isSome = false := by decide

/-- Defect F1 (debug.c:218 on the unfixed tree): the debug caller holds only the spinlock and
    stores the word it read *before* another thread's acquire CAS.  The store would clear a writer
    bit the storing thread does not own; the acceptor rejects exactly that store — the lockstep
    replay of such an execution of the real code is the concrete failing history. -/
def f1Witness : List Ev :=
  [ .call 1 (.acq .W false), .cas 1 0 1, .ret 1 true,            -- T1 holds the mutex
    .call 3 (.acq .W false), .casFail 3 0 1, .ld 3 1,
    .cas 3 1 39, .cas 3 39 37,                                     -- T3 queues itself (spinlock, WAITING, WRITER_WAITING)
    .call 4 (.acq .W false), .casFail 4 0 37, .ld 4 37,
    .cas 4 37 39, .cas 4 39 37,                                    -- T4 queues itself
    .call 1 (.rel .W), .casFail 1 1 37, .ld 1 37,
    .cas 1 37 46, .ld 1 46, .cas 1 46 44, .ret 1 true,             -- T1 unlocks, wakes T3 (DESIG_WAKER), T4 stays queued
    .ld 9 44, .cas 9 44 46,                                        -- debug caller: load word, take the spinlock
    .ld 3 46, .cas 3 46 7, .ret 3 true,                            -- T3, the designated waker, acquires by CAS
    .st 9 44 ]                                                     -- debug caller stores the word it loaded: erases T3's bit

example : (run init (f1Witness.take 25)).toOption.map (fun s => (s.held 3, s.word)) = some (.W, 7) := by decide
example : (run init f1Witness).toOption.isSome = false := by decide

end NsyncVerif.Props.C01
