/- Axiom audit of every C12 theorem (allowed: propext, Classical.choice, Quot.sound). -/
import NsyncVerif.Props.C12

open NsyncVerif.Futex

#print axioms C12_conservation
#print axioms C12_takes_le_posts
#print axioms C12_success_le_posts
#print axioms C12_word_fits
#print axioms C12_take_positive
#print axioms C12_take_exact
#print axioms C12_success_needs_post
#print axioms C12_success_ret_consumes_take
#print axioms C12_no_lost_post
#print axioms C12_sleeper_is_owner
#print axioms C12_post_enables
#print axioms C12_post_enables_take4
#print axioms C12_future_wait_returns
#print axioms C12_future_timed_wait_returns
#print axioms C12_post_kept_on_timeout
#print axioms C12_wait_rechecks
#print axioms C12_wait_only_after_zero_load
#print axioms C12_sleep_only_if_zero
#print axioms C12_timeout_real
#print axioms C12_deadline_set
#print axioms C12_deadline_stable
#print axioms C12_no_deadline_never_times_out
#print axioms C12_faults_harmless
#print axioms C12_premature_timeout_rechecks
#print axioms C12_refines_init
#print axioms C12_refines
#print axioms C12_refines_labels
#print axioms C12_refines_run
