import NsyncVerif.Props.C02
import NsyncVerif.Proofs.MuQSoloAcq
import NsyncVerif.Proofs.MuQSoloRel
import NsyncVerif.Proofs.MuQLeadsDrain
import NsyncVerif.Proofs.MuQLeadsMono
/-!
# C02, progress half — "every nsync_mu_lock and nsync_mu_rlock call eventually returns"

Model: `NsyncVerif.Model.MuQ`, as in `Props/C02.lean`.  Everything below holds for any number of
threads and both semaphore flavours; every statement quantifies over ALL reachable states.

## Machine-checked here

OBSTRUCTION-FREEDOM (every loop a thread can go round without another thread's step is bounded)
* `C02_solo_progress : C02_solo_progress_full`   the statement left open in `Props/C02.lean`,
  proved AS STATED (constant 24 + 3·M).
* `C02_solo_acquire`   the sharper form: an accepted run of own events of a thread inside
  lock / rlock / trylock / rtrylock / lock_slow, started with the spinlock free or its own, that is
  longer than 14 + 3·M contains the thread's RETURN.  (A run that ends with the thread asleep is
  therefore at most 14 + 3·M long: asleep, no own event is accepted.)
* `C02_solo_release`   the same for unlock / runlock / unlock_slow with the bound
  11 + 4·|queue| + 2·|own wake list| + 2·(failed CASes on `remove_count` in the run).  The last
  term is unavoidable in this model: `remove_count` is memory the mutex does not own and the
  acceptor accepts a failed CAS there whenever the log reports one; a thread that runs alone in the
  real system sees none.
* `C02_thread_enabled`  the acceptor blocks a thread only in P on a semaphore whose count is 0:
  every thread inside a call that is not asleep has an accepted next event.

LEADS-TO (safety ⇒ "eventually returns"), existential-schedule form
* `C02_awake_responsible`  in EVERY reachable state in which somebody is asleep on the mutex there
  is a thread `u` — the responsible party of `C02_responsible`, made concrete — that is awake,
  is not a fresh contender, finds the spinlock free or owns it, and is: a thread that owns a share
  or is past its release point (`HolderLike`), or a woken / enqueueing thread inside lock_slow.
  (Invariant form of "steps of other threads do not destroy responsibility".)
* `C02_leads_to_wake`  from every reachable state in which `t` is asleep there is a finite
  schedule of `QuietStep`s — steps of threads that are neither fresh contenders nor idle holding
  nothing: NO barging, NO new acquisition, no environment post; the only `call`s are the
  unlock / runlock of holders — in which `t` does not move and after which `t`'s semaphore has been
  posted.  Ranking (explicit, `Proofs/MuQLeads.lean`): lexicographic
  ( Σ_t stage t , Σ_t awake3 t , solo rank of the running thread ), `stage` = 3 acquiring /
  2 owns a share / 1 past the release point / 0 idle holding nothing.  Each macro step = "run the
  responsible thread alone to its return or until it sleeps" (`solo_acq_exists`,
  `holder_release_exists`); it decreases the first component (the thread acquired, or released) or
  keeps it and decreases the second (a woken thread lost to a holder, re-queued and sleeps).
  The ONLY place where the argument waits for something it cannot force is the `call` of
  unlock / runlock by a thread that holds the mutex: exactly the hypothesis of C02.
* `C02_can_always_complete`  from every reachable state there is a finite schedule without new
  acquisition calls and without environment events after which EVERY thread is idle holding
  nothing (every pending call has returned, every sleeper was woken, acquired and released): no
  reachable state is doomed.  Strictly stronger than `C02_no_stuck_state`.
* `C02_stage_monotone`  robustness of the first component against ALL interleavings: no accepted
  step of anybody (environment included) increases any thread's stage, except the `call` of an
  acquiring operation.  So Σ stage grows only by new arrivals.

Barging and C14: in the schedules above nobody barges (QuietStep), so C14 is not needed.  C14
(`Props/C14.lean`, MU_LONG_WAIT after 30 failed attempts blocks fresh acquirers) is what bounds the
number of times a woken thread can lose against FRESH arrivals in an arbitrary schedule.

## Fair termination for all schedules: stated here, PROVED in `Props/C02Fair.lean` (`C02_fair_termination`)

`C02_fair_termination_full` (a `def … : Prop`): for every infinite execution (`Exec`) that is
weakly fair to every thread inside a call and not asleep (`WeakFair`), in which every holder
eventually calls unlock / runlock (`HoldersRelease`), only finitely many acquisition calls
arrive (`FiniteArrivals`) and only finitely many CASes on `remove_count` fail (`FiniteRcFails`),
every lock / rlock call returns.  The proof (Props/C02Fair.lean) chains "eventually forever" facts,
each with a local rank; it also shows by explicit fair counter-executions that none of
`HoldersRelease`, `FiniteRcFails`, `FiniteArrivals` can be dropped (for the last one: a thread can be
overtaken for ever between its load and its enqueue CAS by lock/unlock pairs on the fast paths).
-/
namespace NsyncVerif.MuQ

/-! ## obstruction-freedom -/

theorem acqPc_of_acquiring {p : PC} (h : acqMode p ≠ none ∨ ∃ c ph, role p = .slow c ph) : acqPc p = true := by
  rcases h with h | ⟨c, ph, h⟩
  · cases p <;> simp [acqMode] at h <;> rfl
  · cases p <;> simp [role] at h <;> rfl

/-- Sharper form: the run contains the RETURN of the call. -/
theorem C02_solo_acquire {cfg : Cfg} {s : State} {t : Tid} {M : Nat} (hr : Reachable cfg s)
    (hM : ∀ k, (s.wr k).sem ≤ M)
    (hin : acqMode (s.pc t) ≠ none ∨ ∃ c ph, role (s.pc t) = .slow c ph)
    (hsp : s.sp = none ∨ s.sp = some t) :
    ∀ evs s', (∀ e ∈ evs, e.tid = some t) → run cfg s evs = .ok s' → evs.length > 14 + 3 * M →
      ∃ n, n ≤ evs.length ∧ ∃ s1, run cfg s (evs.take n) = .ok s1 ∧ s1.pc t = .idle := by
  intro evs s' hown hrun hlen
  have := acqRank_le (word := s.word) hM (s.pc t)
  exact solo_acq_run evs s s' hr hM (acqPc_of_acquiring hin) hsp hown hrun (by omega)

/-- The statement of `Props/C02.lean`, as stated there. -/
theorem C02_solo_progress : C02_solo_progress_full := by
  intro cfg s t M hr hM hin _ hsp evs s' hown hrun hlen
  obtain ⟨n, hn, s1, h1, h2⟩ := C02_solo_acquire hr hM hin hsp evs s' hown hrun (by omega)
  exact ⟨n, hn, s1, h1, Or.inl h2⟩

/-- Release side: a thread inside nsync_mu_unlock / nsync_mu_runlock / unlock_slow running alone,
    with the spinlock free or its own, returns within a bound linear in the queue length. -/
theorem C02_solo_release {cfg : Cfg} {s : State} {t : Tid} (hr : Reachable cfg s)
    (hin : inRelease (s.pc t)) (hsp : s.sp = none ∨ s.sp = some t) :
    ∀ evs s', (∀ e ∈ evs, e.tid = some t) → run cfg s evs = .ok s' →
      evs.length > 11 + 4 * s.queue.length + 2 * (role (s.pc t)).wake.length + 2 * rcFails evs →
      ∃ n, n ≤ evs.length ∧ ∃ s1, run cfg s (evs.take n) = .ok s1 ∧ s1.pc t = .idle := by
  intro evs s' hown hrun hlen
  have := relRank_le hr t
  exact solo_rel_run evs s s' hr (relPc_of_inRelease hin) hsp hown hrun (by omega)

/-- The acceptor never blocks a thread except in P on a semaphore whose count is 0. -/
theorem C02_thread_enabled {cfg : Cfg} {s : State} {t : Tid} (hr : Reachable cfg s)
    (hne : s.pc t ≠ .idle) (hna : ¬ AsleepOnSem s t) :
    ∃ e, e.tid = some t ∧ e.rcFail = false ∧ e.isCall = false ∧ ∃ s', step cfg s e = .ok s' :=
  thread_enabled hr hne hna

/-! ## leads-to -/

/-- While somebody sleeps on the mutex, somebody responsible for the wake-up is awake, is not a
    fresh contender, and can run alone (the spinlock is free or its own). -/
theorem C02_awake_responsible {cfg : Cfg} {s : State} {t : Tid} (hr : Reachable cfg s)
    (ha : AsleepOnSem s t) :
    ∃ u, ¬ AsleepOnSem s u ∧ (s.sp = none ∨ s.sp = some u) ∧ ¬ freshPc (s.pc u) ∧
      ((wokenPc (s.pc u) = true ∧ ∃ c ph, role (s.pc u) = .slow c ph) ∨ HolderLike s u) := by
  obtain ⟨u, h1, h2, h3⟩ := exists_mover hr ha
  refine ⟨u, h1, h2, ?_, h3⟩
  rcases h3 with ⟨hw, _⟩ | hl
  · exact wokenPc_not_fresh hw
  · rcases hl with ⟨hp, _⟩ | hret | hrel
    · rw [hp]; simp [freshPc]
    · cases hp : s.pc u <;> simp [hp, retPc] at hret <;> simp [freshPc]
    · exact relPc_not_fresh hrel

/-- LEADS-TO (existential schedule).  `t` is asleep in P on the semaphore of its waiter record `k`.
    There is a finite schedule of quiet steps (no barging, no new acquisition call, no environment
    event) in which `t` does not move and after which the semaphore has been posted. -/
theorem C02_leads_to_wake {cfg : Cfg} {s : State} {t : Tid} {c : SL} {k : Wid} (hr : Reachable cfg s)
    (hp : s.pc t = .lsPRet c) (hw : c.w = some k) (hs : (s.wr k).sem = 0) :
    ∃ evs s', RunP cfg QuietStep s evs s' ∧ run cfg s evs = .ok s' ∧
      (∀ e ∈ evs, e.isAcqCall = false ∧ e.tid ≠ none) ∧
      s'.pc t = .lsPRet c ∧ (s'.wr k).sem ≠ 0 := by
  obtain ⟨evs, s', hrun, hna, hpc⟩ := leads_to_wake hr ⟨c, k, hp, hw, hs⟩
  refine ⟨evs, s', hrun, hrun.run_eq, ?_, by rw [hpc, hp], fun h0 => hna ⟨c, k, by rw [hpc, hp], hw, h0⟩⟩
  exact hrun.all_step (fun s e s' hq hs => noNewCall_not_acqCall (quiet_noNewCall s e hq) hs)

/-- Every reachable state can be completed: without any new acquisition call and without the
    environment, all pending calls return and all holders release. -/
theorem C02_can_always_complete {cfg : Cfg} {s : State} (hr : Reachable cfg s) :
    ∃ evs s', RunP cfg NoNewCall s evs s' ∧ run cfg s evs = .ok s' ∧
      (∀ e ∈ evs, e.isAcqCall = false ∧ e.tid ≠ none) ∧ ∀ t, IdleHoldingNothing s' t := by
  obtain ⟨evs, s', hrun, hdone⟩ := drain hr
  exact ⟨evs, s', hrun, hrun.run_eq, hrun.all_step (fun s e s' hq hs => noNewCall_not_acqCall hq hs), hdone⟩

/-- No step of anybody increases anybody's stage, except the call of an acquiring operation. -/
theorem C02_stage_monotone {cfg : Cfg} {s s' : State} {evs : List Event} (hr : Reachable cfg s)
    (h : run cfg s evs = .ok s') (hna : ∀ e ∈ evs, e.isAcqCall = false) (t : Tid) :
    stage s' t ≤ stage s t :=
  stage_run_le evs s s' hr h hna t

/-! ## fair termination (statement only) -/

/-- An infinite execution from `s0`; `σ i = none` means that nobody moves at time `i`. -/
structure Exec (cfg : Cfg) (s0 : State) where
  ρ : Nat → State
  σ : Nat → Option Event
  start : ρ 0 = s0
  next : ∀ i, match σ i with
    | none => ρ (i + 1) = ρ i
    | some e => step cfg (ρ i) e = .ok (ρ (i + 1))

/-- Weak fairness on each thread's next step: a thread that from time `i` on is inside a call and
    not asleep (by `C02_thread_enabled`: continuously enabled) moves at some time `j ≥ i`. -/
def WeakFair {cfg : Cfg} {s0 : State} (x : Exec cfg s0) : Prop :=
  ∀ t i, (∀ j, i ≤ j → (x.ρ j).pc t ≠ .idle ∧ ¬ AsleepOnSem (x.ρ j) t) →
    ∃ j e, i ≤ j ∧ x.σ j = some e ∧ e.tid = some t

/-- Every thread that holds the mutex eventually calls unlock / runlock. -/
def HoldersRelease {cfg : Cfg} {s0 : State} (x : Exec cfg s0) : Prop :=
  ∀ t i, (x.ρ i).held t ≠ none → ∃ j a, i ≤ j ∧ x.σ j = some (.call t a)

/-- Only finitely many acquisition calls arrive. -/
def FiniteArrivals {cfg : Cfg} {s0 : State} (x : Exec cfg s0) : Prop :=
  ∃ n, ∀ j e, n ≤ j → x.σ j = some e → e.isAcqCall = false

/-- Only finitely many CASes on `remove_count` fail.  (The location is not owned by the mutex and
    the acceptor accepts a failure whenever the log reports one; without this hypothesis the
    execution in which an unlocker's CAS fails for ever — spinlock held — is accepted and fair.  In
    the library `remove_count` of a waiter queued on a mutex is only written under that mutex's
    spinlock, so the CAS of mu.c:243-245 is in fact uncontended.) -/
def FiniteRcFails {cfg : Cfg} {s0 : State} (x : Exec cfg s0) : Prop :=
  ∃ n, ∀ j e, n ≤ j → x.σ j = some e → e.rcFail = false

/-- Proved in `Props/C02Fair.lean`: `theorem C02_fair_termination : C02_fair_termination_full`. -/
def C02_fair_termination_full : Prop :=
  ∀ (cfg : Cfg) (s0 : State) (x : Exec cfg s0), Reachable cfg s0 →
    WeakFair x → HoldersRelease x → FiniteArrivals x → FiniteRcFails x →
    ∀ t i, acqPc ((x.ρ i).pc t) = true → ∃ j, i ≤ j ∧ (x.ρ j).pc t = .idle

/-! ## non-vacuity -/

def freshB : PC → Bool
  | .lkCas0 _ | .lkLd _ | .lkCas1 _ _ | .tryCas0 _ | .tryLd _ | .tryCas1 _ _ => true
  | .lsLd c | .lsCasAcq c _ | .lsCasEnq c _ => !c.clear
  | _ => false

theorem freshB_iff (p : PC) : freshB p = true ↔ freshPc p := by
  cases p <;> simp [freshB, freshPc]

def quietB (s : State) (e : Event) : Bool :=
  match e.tid with
  | some u => !freshB (s.pc u) && !(decide (s.pc u = .idle) && (s.held u).isNone)
  | none => false

theorem quietB_sound {s : State} {e : Event} (h : quietB s e = true) : QuietStep s e := by
  unfold quietB at h
  split at h
  · rename_i u hu
    simp only [Bool.and_eq_true, Bool.not_eq_true', Bool.and_eq_false_iff, decide_eq_false_iff_not] at h
    refine ⟨u, hu, fun hf => ?_, fun hi => ?_⟩
    · have := (freshB_iff _).2 hf; rw [h.1] at this; cases this
    · rcases h.2 with h2 | h2
      · exact h2 hi.1
      · rw [hi.2] at h2; cases h2
  · cases h

/-- Executable check of `RunP cfg QuietStep`. -/
def runQuietB (cfg : Cfg) : State → List Event → Option State
  | s, [] => some s
  | s, e :: es =>
    if quietB s e then
      match step cfg s e with
      | .ok s1 => runQuietB cfg s1 es
      | .error _ => none
    else none

theorem runQuietB_sound {cfg : Cfg} : ∀ (evs : List Event) (s s' : State),
    runQuietB cfg s evs = some s' → RunP cfg QuietStep s evs s' := by
  intro evs
  induction evs with
  | nil => intro s s' h; simp [runQuietB] at h; subst h; exact .nil s
  | cons e es ih =>
    intro s s' h
    simp only [runQuietB] at h
    split at h <;> try (cases h; done)
    rename_i hq
    split at h <;> try (cases h; done)
    rename_i s1 hs1
    exact .cons (quietB_sound hq) hs1 (ih s1 s' h)

def afterB (cfg : Cfg) (evs rest : List Event) (f : State → State → Bool) : Bool :=
  match run cfg init evs with
  | .ok s =>
    match runQuietB cfg s rest with
    | some s' => f s s'
    | none => false
  | .error _ => false

/-- `C02_leads_to_wake`, a concrete instance (harness log `traceFront` of `Props/C02.lean`).  After 24
    events threads 1 and 2 are asleep on w0 and w1 (counts 0), both queued; thread 0 owns the writer
    share and is inside nsync_mu_unlock.  The next 10 events of the log — thread 0's unlock_slow:
    failed fast CAS, two loads, grab CAS, remove_count load + CAS, final load + CAS, `waiting := 0`,
    V — form a schedule of quiet steps in which thread 1 does not move and after which its
    semaphore w0 has count 1. -/
example : afterB ⟨false⟩ (traceFront.take 24) ((traceFront.drop 24).take 10) (fun s s' =>
    decide (s.pc 1 = .lsPRet { l := .W, w := some 0, clear := false, ign := false, wc := 0, lwl := false }) &&
    (s.wr 0).sem == 0 && decide (0 ∈ s.queue) &&
    decide (s'.pc 1 = .lsPRet { l := .W, w := some 0, clear := false, ign := false, wc := 0, lwl := false }) &&
    (s'.wr 0).sem == 1 && decide (s'.pc 0 = .ulRet .W)) = true := by decide

/-- … while a schedule in which thread 0 barges in again (the `call 0 lock` that follows in the log)
    is not quiet. -/
example : afterB ⟨false⟩ (traceFront.take 24) ((traceFront.drop 24).take 12) (fun _ _ => true) = false := by
  decide

/-- `C02_solo_acquire` / `C02_solo_progress`: the hypotheses are satisfiable by a state in which the
    thread owns the spinlock.  After 9 events of `traceFront` thread 1 has just taken the spinlock
    with its enqueue CAS (`lsSt`); running alone it stores `waiting := 1`, releases the spinlock
    (load + CAS), reads `waiting`, enters P: 5 own events, then it is asleep and no further own
    event is accepted (14 + 3·0 = 14 ≥ 5). -/
example : checkAfter ⟨false⟩ (traceFront.take 9) (fun s =>
    acqPc (s.pc 1) && decide (s.sp = some 1) && decide (s.pc 1 = .lsSt { l := .W, w := none, clear := false, ign := false, wc := 0, lwl := false }) &&
    (match run ⟨false⟩ s ((traceFront.drop 9).take 5) with
     | .ok s' => decide (s'.pc 1 = .lsPRet { l := .W, w := some 0, clear := false, ign := false, wc := 0, lwl := false }) &&
                 (s'.wr 0).sem == 0 &&
                 (match step ⟨false⟩ s' (.semPRet 1 0) with | .ok _ => false | .error _ => true)
     | .error _ => false)) = true := by decide

/-- `C02_solo_release`: after 24 events thread 0 is inside nsync_mu_unlock (`ulCas0`), the spinlock is
    free, the queue has length 2; its next 11 events (all its own, no failed `remove_count` CAS) take
    it to its return: 11 ≤ 11 + 4·2. -/
example : checkAfter ⟨false⟩ (traceFront.take 24) (fun s =>
    relPc (s.pc 0) && decide (s.sp = none) && decide (s.queue.length = 2) &&
    ((traceFront.drop 24).take 11).all (fun e => decide (e.tid = some 0) && !e.rcFail) &&
    (match run ⟨false⟩ s ((traceFront.drop 24).take 11) with
     | .ok s' => decide (s'.pc 0 = .idle)
     | .error _ => false)) = true := by decide

/-- `C02_fair_termination_full`'s hypotheses are satisfiable: the execution in which nothing ever
    happens, from the initial state. -/
def idleExec (cfg : Cfg) : Exec cfg init :=
  { ρ := fun _ => init, σ := fun _ => none, start := rfl, next := fun _ => rfl }

example (cfg : Cfg) : WeakFair (idleExec cfg) ∧ HoldersRelease (idleExec cfg) ∧ FiniteArrivals (idleExec cfg) ∧
    FiniteRcFails (idleExec cfg) := by
  refine ⟨fun t i h => absurd rfl (h i (Nat.le_refl _)).1, fun t i h => absurd rfl h,
    ⟨0, fun j e _ h => by cases h⟩, ⟨0, fun j e _ h => by cases h⟩⟩

end NsyncVerif.MuQ
