/-
  Property C08, the two clauses that Props/C08.lean left open:
    "… once no notification of it or of an ancestor is still in progress all its descendants are
     notified and EVERY THREAD WAITING ON THEM IS RELEASED, while ANCESTORS AND SIBLINGS ARE
     UNAFFECTED …"

  Model: `NsyncVerif.Model.Note` (note.c after the repair of F5 and of F4 / F7 —
  /verif/fixes/F4F7/note_fix.diff —, and the `nsync_wait_n` path of
  `nsync_note_wait`: the waiter records `nw<r>`, events `stW`, `sem v`, `sem pd_enter/pd_ret`).
  All theorems quantify over every reachable state (every forest, number of threads, schedule,
  clock).

  STATUS
  * Waiter release, safety form (no fairness; the semaphore is the harness-provided black box of
    assumption A3, so "released" = `waiting` cleared ∧ the V performed, or owed by a thread that
    is at the `nsync_mu_semaphore_v` of an activation of `note_notify_child` still in progress):
      `C08_waiters_released` — UNCONDITIONAL (no `ReachableH`), for the note itself: whenever the
          flag of `d` is set and no thread has an activation of `note_notify_child` on `d` past the
          store of the flag (`Active`), `d->waiters` is empty, every waiter record of `d` has
          `waiting = 0`, and every record whose owner is about to sleep / asleep on its semaphore
          has had its V (`posted ≥ 1`).  (The hypothesis asks for no activation on `d` ITSELF;
          activations on ancestors or descendants may still be in progress.)
      `C08_no_lost_wakeup` — the same as an invariant of ALL reachable states, activations in
          progress included: a sleeping owner's record is queued with `waiting = 1` (and if the
          note's flag is set a thread is inside the wake loop of that note), or has just been
          unlinked by the wake loop, or its V is owed by a thread at the V, or its V was performed.
      `C08_notified_waiters_in_progress`, `C08_waiting_record` — the two facts behind it.
      `C08_complete_released` — the completeness clause for the DESCENDANTS, flags and waiters
          together, in EVERY reachable state (the hypothesis `ReachableH` — no adoption under an
          already notified parent, i.e. defect F4 excluded — is gone with the repair of F4 / F7:
          `C08_complete`, Props/C08.lean).
      `C08_complete_full_holds : C08_complete_full` — the statement in terms of threads: once no
          thread is DELIVERING any more (inside notify / note_notify_child / nsync_note_free and
          not parked in a WAIT_FOR_NO_CHILDREN whose condition is false), every descendant of a
          notified note is notified and has no waiter record that is still waiting.  It was
          refuted on the unrepaired code (F4: a thread parked for ever above an un-notified
          adopted note); now a parked thread always has a delivering thread below it
          (`no_wait_blocked_all`, Proofs/NoteFixP7.lean — I2 and the exact `disconnecting` count).
      Limit of the model: the semaphore count is not part of the state (A3: `pd_ret 0` may
          happen at any time), so "the V has been performed" is the ghost counter `posted ≥ 1` of
          the record; that the sleeper then does return from P is the semaphore's contract.
  * Unaffected, w.r.t. the CURRENT forest:
      `C08_child_iff_parent` — the converse of `InvT` (and `InvT`): `c ∈ p->children ↔
          c->parent == p`, children lists have no duplicates (`C08_children_nodup`).  It rests on
          the locks (`LockInv`), on the `disconnecting` counters (`InvForest.cnt`) and on the local
          `parent` of notify / nsync_note_free being the note's parent until the thread itself has
          seen the note disconnected (`InvForest.linked`, `InvForest.stale`).
      `C08_unaffected_full_holds : C08_unaffected_full` — proved: a flag is set only for a note
          that is, at the time of the store, the note `n` of the `notify (n)` the storing thread is
          in or a descendant of `n` in the current forest (or by nsync_note_new for the unpublished
          note it is creating).  `C08_unaffected` is the sharper form (the whole activation stack is
          a path of the current forest), `C08_siblings_unaffected` the contrapositive.  A
          grandchild adopted by the grand-parent (nsync_note_free of the note in between) IS a
          descendant of the grand-parent from then on; the statement is about the forest at the
          time of each store, so this is consistent, and no corner was found where it fails.
  * Non-vacuity: `example`s by `decide` on two traces recorded from the library
    (Proofs/NoteRelTraces.lean; both are accepted unchanged by the model of the repaired code).
-/
import NsyncVerif.Proofs.NoteFixP7
import NsyncVerif.Proofs.NoteRelTraces
import NsyncVerif.Props.C08

set_option linter.unusedSimpArgs false

namespace Note

/-! ### Every thread waiting on a notified note is released -/

/-- The owner of waiter record `r` is about to sleep, or asleep, on the semaphore of the record
    (`nsync_mu_semaphore_p_with_deadline` in the wait loop of `nsync_wait_n`). -/
def Blocked (s : State) (r : Rid) : Prop :=
  ∃ m wdl, s.pc (s.recs r).owner = .wt (.pdEnter m) (s.recs r).note wdl r ∨
    s.pc (s.recs r).owner = .wt (.pdRet m) (s.recs r).note wdl r

theorem Blocked.mustQ {s : State} {r : Rid} (h : Blocked s r) :
    (s.pc (s.recs r).owner).mustQ = some r := by
  obtain ⟨m, wdl, h | h⟩ := h <;> rw [h] <;> rfl

/-- C08: a notified note with a non-empty `waiters` list has a thread inside the loop of
    `note_notify_child` that wakes its waiters (note.c:114-119) — an activation in progress. -/
theorem C08_notified_waiters_in_progress {s : State} (hr : Reachable s) (d : NoteId)
    (hn : (s.notes d).notified = true) (hw : (s.notes d).waiters ≠ []) :
    ∃ t, WakeLoop (s.pc t) d ∧ Active (s.pc t) d := by
  obtain ⟨t, ht⟩ := hr.invR.wake d hn hw
  exact ⟨t, ht, ht.active⟩

/-- C08: where a record with `waiting = 1` is: on the `waiters` list of its note, or unlinked by
    the wake loop of that note and about to have `waiting` cleared (note.c/2), or unlinked by its
    owner's `note_dequeue` (note.c/12) while the note is not notified. -/
theorem C08_waiting_record {s : State} (hr : Reachable s) (r : Rid)
    (hw : (s.recs r).waiting = true) :
    r ∈ (s.notes (s.recs r).note).waiters ∨
    (∃ t f rest top, s.pc t = .chd (.wake r) (f :: rest) top ∧ f.note = (s.recs r).note) ∨
    (∃ wdl, s.pc (s.recs r).owner = .wt .qSt (s.recs r).note wdl r ∧
      (s.notes (s.recs r).note).notified = false) := by
  rcases hr.invR.waiting r hw with h | h | ⟨wdl, h⟩
  · exact Or.inl h
  · exact Or.inr (Or.inl h)
  · exact Or.inr (Or.inr ⟨wdl, h, hr.invR.qst _ _ _ _ h⟩)

/-- C08 (waiter release as an invariant of all reachable states): the wake-up of a thread that is
    about to sleep / asleep on waiter record `r` of note `d` is never lost.  Either the record is
    still waiting (`waiting = 1`) — then it is on `d->waiters`, or in the hands of the wake loop
    of `d` — or `waiting` has been cleared and the V is owed by a thread at the
    `nsync_mu_semaphore_v` of the wake loop of `d`, or the V has been performed. -/
theorem C08_no_lost_wakeup {s : State} (hr : Reachable s) (r : Rid) (hb : Blocked s r) :
    ((s.recs r).waiting = true ∧
      (r ∈ (s.notes (s.recs r).note).waiters ∨
       ∃ t f rest top, s.pc t = .chd (.wake r) (f :: rest) top ∧ f.note = (s.recs r).note)) ∨
    ((s.recs r).waiting = false ∧
      ((∃ t f rest top, s.pc t = .chd (.semV r) (f :: rest) top ∧ f.note = (s.recs r).note) ∨
       1 ≤ (s.recs r).posted)) := by
  have hR := hr.invR
  cases hw : (s.recs r).waiting with
  | true =>
    left
    refine ⟨rfl, ?_⟩
    rcases hR.waiting r hw with h | h | ⟨wdl, h⟩
    · exact Or.inl h
    · exact Or.inr h
    · obtain ⟨m, wdl', h' | h'⟩ := hb <;> (rw [h] at h'; cases h')
  | false =>
    right
    refine ⟨rfl, ?_⟩
    rcases hR.must _ r hb.mustQ with h | ⟨t, f, rest, top, ht⟩ | h
    · rw [hw] at h; cases h
    · exact Or.inl ⟨t, f, rest, top, ht, (hR.unl t _ f rest top r ht (Or.inr rfl)).2.symm⟩
    · exact Or.inr h

/-- C08 ("every thread waiting on them is released"), unconditional, for the note itself: when
    the flag of `d` is set and no thread has an activation of `note_notify_child` on `d` past the
    store of the flag, then `d->waiters` is empty, every waiter record of `d` has `waiting = 0`,
    and every record whose owner is about to sleep / asleep on its semaphore has been posted. -/
theorem C08_waiters_released {s : State} (hr : Reachable s) (d : NoteId)
    (hn : (s.notes d).notified = true) (hq : ∀ t, ¬ Active (s.pc t) d) :
    (s.notes d).waiters = [] ∧
    ∀ r, (s.recs r).used = true → (s.recs r).note = d →
      (s.recs r).waiting = false ∧ (Blocked s r → 1 ≤ (s.recs r).posted) := by
  have hR := hr.invR
  have hw0 : (s.notes d).waiters = [] := by
    cases hw : (s.notes d).waiters with
    | nil => rfl
    | cons r ws =>
      obtain ⟨t, _, ht⟩ := C08_notified_waiters_in_progress hr d hn (by rw [hw]; simp)
      exact absurd ht (hq t)
  refine ⟨hw0, fun r _ hd => ?_⟩
  have hwf : (s.recs r).waiting = false := by
    cases hw : (s.recs r).waiting with
    | false => rfl
    | true =>
      exfalso
      rcases C08_waiting_record hr r hw with h | ⟨t, f, rest, top, ht, hf⟩ | ⟨wdl, _, h⟩
      · rw [hd, hw0] at h; cases h
      · exact hq t (by rw [ht]; exact Or.inl ⟨by rw [hf, hd], rfl⟩)
      · rw [hd, hn] at h; cases h
  refine ⟨hwf, fun hb => ?_⟩
  rcases C08_no_lost_wakeup hr r hb with ⟨h, _⟩ | ⟨_, ⟨t, f, rest, top, ht, hf⟩ | h⟩
  · rw [hwf] at h; cases h
  · exact absurd (by rw [ht]; exact Or.inl ⟨by rw [hf, hd], rfl⟩) (hq t)
  · exact h

/-- C08, completeness of delivery for the descendants, flags and waiters together, in EVERY
    reachable state: once no thread has an activation of `note_notify_child` on the notified note
    `n` past the store any more, every descendant `d` of `n` in the current forest is notified,
    has an empty `waiters` list, and every waiter record of `d` is released. -/
theorem C08_complete_released {s : State} (hr : Reachable s) (n : NoteId)
    (hn : (s.notes n).notified = true) (hq : ∀ t, ¬ Active (s.pc t) n) (d : NoteId)
    (hd : Anc s n d) :
    (s.notes d).notified = true ∧ (s.notes d).waiters = [] ∧
    ∀ r, (s.recs r).used = true → (s.recs r).note = d →
      (s.recs r).waiting = false ∧ (Blocked s r → 1 ≤ (s.recs r).posted) := by
  obtain ⟨hdn, hdf⟩ := (C08_complete hr n hn hq).2 d hd
  subst hdn
  exact ⟨hdf, C08_waiters_released hr d hdf hq⟩

/-- The thread is still delivering a notification / disconnecting a note: it is inside `notify`,
    `note_notify_child` or `nsync_note_free`, and not parked in a WAIT_FOR_NO_CHILDREN whose
    condition is false (where it only waits for other threads). -/
def Delivering (s : State) (t : Tid) : Prop :=
  InNotify (s.pc t) = true ∧ ¬ WaitBlocked s t

/-- The statement at full strength: once no thread is delivering any more, every descendant `d`
    of a notified note `n` is notified and has no waiter record that is still waiting. -/
def C08_complete_full : Prop :=
  ∀ s, Reachable s → (∀ t, ¬ Delivering s t) →
    ∀ n d, (s.notes n).notified = true → Anc s n d →
      (s.notes d).notified = true ∧
      ∀ r, (s.recs r).used = true → (s.recs r).note = d → (s.recs r).waiting = false

/-- … holds for the repaired code: when nobody is delivering, nobody is inside `notify` /
    `note_notify_child` / `nsync_note_free` at all (a parked thread always has a delivering thread
    below it), so no activation is in progress and `C08_complete_released` applies. -/
theorem C08_complete_full_holds : C08_complete_full := by
  intro s hr hno n d hn hd
  have hnone : ∀ t, InNotify (s.pc t) = false := by
    refine no_wait_blocked_all hr (fun u hu => ?_)
    exact Classical.byContradiction (fun hw => hno u ⟨hu, hw⟩)
  have hq : ∀ t, ¬ Active (s.pc t) n := by
    intro t h
    have := hnone t
    cases hpc : s.pc t <;> rw [hpc] at h this <;> simp [Active, InNotify] at h this
  obtain ⟨h1, _, h3⟩ := C08_complete_released hr n hn hq d hd
  exact ⟨h1, fun r hu hr' => (h3 r hu hr').1⟩

/-! ### The current forest -/

/-- C08 (the converse of `InvT`, with `InvT`): in every reachable state `c` is on `p->children`
    exactly when `c->parent == p`. -/
theorem C08_child_iff_parent {s : State} (hr : Reachable s) (p c : NoteId) :
    c ∈ (s.notes p).children ↔ (s.notes c).parent = some p :=
  ⟨hr.invForest.c2p p c, hr.invT.p2c p c⟩

theorem C08_children_nodup {s : State} (hr : Reachable s) (p : NoteId) :
    (s.notes p).children.Nodup := hr.invForest.nodup p

/-- The activation stack of `note_notify_child` is a path of the current forest. -/
theorem anc_of_chain {s : State} (hF : InvForest s) (l : List NoteId) (x a : NoteId)
    (hc : ChainCur s (x :: l)) (hl : (x :: l).getLast? = some a) : Anc s a x := by
  induction l generalizing x with
  | nil =>
    simp only [List.getLast?_singleton, Option.some.injEq] at hl
    subst hl; exact Anc.refl _
  | cons y ys ih =>
    rw [List.getLast?_cons_cons] at hl
    exact Anc.up (hF.c2p y x hc.1) (ih y hc.2 hl)

/-- C08 ("ancestors and siblings are unaffected"), sharp form: a flag goes from 0 to 1 only by
    the store note.c/1 of a thread inside `notify (n)`, for the note `k` of its innermost
    activation of `note_notify_child`, and at that moment `k` is `n` or a descendant of `n` in
    the CURRENT forest — or by `nsync_note_new` for the note it is creating, not yet returned to
    anybody, when it finds the intended parent notified (note.c/7). -/
theorem C08_unaffected {s s' : State} {e : Event} {k : NoteId} (hr : Reachable s)
    (hs : step s e = .ok s') (h0 : (s.notes k).notified = false)
    (h1 : (s'.notes k).notified = true) :
    (∃ a f rest top, e.actor = some a ∧ s.pc a = .chd .st (f :: rest) top ∧ f.note = k ∧
      Anc s top.n k) ∨
    (∃ a p dl, e.actor = some a ∧ s.pc a = .newP .st k p dl ∧ s.published k = false ∧
      s.Notified p) := by
  rcases C08_unaffected_partial hr hs h0 h1 with ⟨a, f, rest, top, ha, hpc, hf, _⟩ | h
  · left
    refine ⟨a, f, rest, top, ha, hpc, hf, ?_⟩
    have hc := hr.inv6.2.2.2.2.1.claim_of hpc
    have hch := hr.invForest.chain a _ _ _ hpc
    have hlast : ((f :: rest).map Frame.note).getLast? = some top.n := by
      rw [List.getLast?_map]; exact hc.2.2.1
    rw [← hf]
    exact anc_of_chain hr.invForest _ _ _ hch hlast
  · exact Or.inr h

/-- … hence the statement that Props/C08.lean left open. -/
theorem C08_unaffected_full_holds : C08_unaffected_full := by
  intro s s' e k hr hs h0 h1
  rcases C08_unaffected hr hs h0 h1 with ⟨a, f, rest, top, ha, hpc, _, hanc⟩ | h
  · exact Or.inl ⟨a, _, _, top, ha, hpc, hanc⟩
  · exact Or.inr h

/-- C08: a step of a thread inside `notify (n)` / `note_notify_child` never sets the flag of a
    note that is not `n` or a descendant of `n` in the current forest: in particular not the flag
    of a sibling or of an ancestor of `n` (`C08_ancestors_unaffected` is the same for the
    creation-time order). -/
theorem C08_siblings_unaffected {s s' : State} {e : Event} {k : NoteId} (hr : Reachable s)
    (hs : step s e = .ok s') {a : Tid} {pos : CPos} {stk : List Frame} {top : Top}
    (ha : e.actor = some a) (hpc : s.pc a = .chd pos stk top) (hk : ¬ Anc s top.n k) :
    (s'.notes k).notified = (s.notes k).notified := by
  cases h0 : (s.notes k).notified with
  | true => exact C08_flag_monotone hr hs k h0
  | false =>
    cases h1 : (s'.notes k).notified with
    | false => rfl
    | true =>
      exfalso
      rcases C08_unaffected hr hs h0 h1 with ⟨a', f, rest, top', ha', hpc', _, hanc⟩ |
        ⟨a', p, dl, ha', hpc', _⟩
      · obtain rfl := Option.some.inj (ha'.symm.trans ha)
        rw [hpc] at hpc'; cases hpc'
        exact hk hanc
      · obtain rfl := Option.some.inj (ha'.symm.trans ha)
        rw [hpc] at hpc'; cases hpc'

/-- The parent of a note is not one of its descendants (the current forest has no cycle through
    a parent pointer: `Anc` implies the creation order, which is antisymmetric). -/
theorem not_anc_of_parent {s : State} (hr : Reachable s) {n p : NoteId}
    (hp : (s.notes n).parent = some p) : ¬ Anc s n p := by
  obtain ⟨_, _, hS, _, hL, _⟩ := hr.inv6
  intro h
  have hpn := hS.parent p n hp
  have hpa : (s.notes p).allocated = true := hS.anc n p hpn.1
  have := hL.anti n p (C08_anc_ever hr h hpa) hpn.1
  exact hL.parent p n hp this.symm

/-- C08, "ancestors and siblings are unaffected", spelled out for the current forest: a step of
    a thread inside `notify (n)` / `note_notify_child` sets neither the flag of the parent `p` of
    `n` nor the flag of another child `k` of `p`. -/
theorem C08_parent_and_siblings_unaffected {s s' : State} {e : Event} (hr : Reachable s)
    (hs : step s e = .ok s') {a : Tid} {pos : CPos} {stk : List Frame} {top : Top}
    (ha : e.actor = some a) (hpc : s.pc a = .chd pos stk top) {p k : NoteId}
    (hp : (s.notes top.n).parent = some p)
    (hk : k = p ∨ ((s.notes k).parent = some p ∧ k ≠ top.n)) :
    (s'.notes k).notified = (s.notes k).notified := by
  refine C08_siblings_unaffected hr hs ha hpc ?_
  rcases hk with rfl | ⟨hkp, hne⟩
  · exact not_anc_of_parent hr hp
  · intro h
    cases h with
    | refl => exact hne rfl
    | up hq h' =>
      rw [hkp] at hq; cases hq
      exact not_anc_of_parent hr hp h'

/-! ### Non-vacuity -/

theorem release_prefix_ok : (run init (Traces.releaseTrace.take 101)).toOption.isSome = true := by
  decide

/-- A waiter on a child released by `notify (parent)` (trace recorded from the library): after
    `nsync_note_notify (note0)` has returned, note1 is notified, nobody is inside
    `note_notify_child` any more (the notifier is idle, the waiter — thread 0 — is still asleep in
    `nsync_mu_semaphore_p_with_deadline`), the `waiters` list of note1 is empty, and record `nw0`
    of note1 has `waiting = 0` and one V: the hypotheses of `C08_waiters_released` — including
    `Blocked` — hold in a reachable state. -/
example : ∃ s : State, Reachable s ∧ (s.notes 1).notified = true ∧
    s.pc 1 = .idle ∧ s.pc 0 = .wt (.pdRet none) 1 none 0 ∧
    (s.recs 0).used = true ∧ (s.recs 0).note = 1 ∧ (s.recs 0).owner = 0 ∧ Blocked s 0 ∧
    (s.notes 1).waiters = [] ∧ (s.recs 0).waiting = false ∧ (s.recs 0).posted = 1 ∧
    (s.notes 1).parent = none ∧ (s.notes 0).children = [] := by
  refine ⟨_, reachable_stateAfter _ release_prefix_ok, by decide, by decide, by decide, by decide,
    by decide, by decide, ?_, by decide, by decide, by decide, by decide, by decide⟩
  exact ⟨none, none, Or.inr (by decide)⟩

/-! #### The hypotheses of `C08_complete_released` / `C08_waiters_released` are satisfiable -/

/-- Decidable form of `AdoptsUnderNotified`. -/
def adoptsB (s : State) : Event → Bool
  | .lockRet t =>
    match s.pc t with
    | .fr .lockChildRet _ (some p) c _ =>
      decide ((s.notes c).disconnecting = 0) && (s.notes p).notified
    | _ => false
  | _ => false

theorem adoptsB_of {s : State} {e : Event} (h : AdoptsUnderNotified s e) :
    adoptsB s e = true := by
  obtain ⟨t, n, p, c, nx, rfl, hpc, hd, hn⟩ := h
  simp [adoptsB, hpc, hd, hn]

/-- Run the acceptor, refusing the adoption steps that `ReachableH` excludes. -/
def runH (s : State) : List Event → Option State
  | [] => some s
  | e :: es =>
    if adoptsB s e then none
    else match step s e with
      | .ok s' => runH s' es
      | .error _ => none

theorem reachableH_runH {s s' : State} {evs : List Event} (h : ReachableH s)
    (hr : runH s evs = some s') : ReachableH s' := by
  induction evs generalizing s with
  | nil => simp only [runH, Option.some.injEq] at hr; exact hr ▸ h
  | cons e es ih =>
    simp only [runH] at hr
    split at hr
    · cases hr
    · next hb =>
      cases hs : step s e with
      | ok s1 =>
        rw [hs] at hr
        exact ih (ReachableH.step h hs (fun ha => hb (adoptsB_of ha))) hr
      | error m => rw [hs] at hr; cases hr

theorem run_of_runH {s s' : State} {evs : List Event} (hr : runH s evs = some s') :
    run s evs = .ok s' := by
  induction evs generalizing s with
  | nil => simp only [runH, Option.some.injEq] at hr; simp [run, hr]
  | cons e es ih =>
    simp only [runH] at hr
    split at hr
    · cases hr
    · cases hs : step s e with
      | ok s1 => rw [hs] at hr; simp only [run, hs]; exact ih hr
      | error m => rw [hs] at hr; cases hr

/-- Threads that take no part in a trace keep their program counter. -/
theorem pc_of_not_actor_rel {evs : List Event} {s0 s : State} (hr : run s0 evs = .ok s)
    (t : Tid) (ht : ∀ e ∈ evs, e.actor ≠ some t) : s.pc t = s0.pc t := by
  induction evs generalizing s0 with
  | nil => simp only [run, Except.ok.injEq] at hr; rw [← hr]
  | cons e es ih =>
    simp only [run] at hr
    cases h1 : step s0 e with
    | ok s1 =>
      rw [h1] at hr
      rw [ih hr (fun e' he' => ht e' (List.mem_cons_of_mem _ he')),
        step_pc_other h1 t (ht e (List.mem_cons_self))]
    | error m => rw [h1] at hr; cases hr

theorem release_prefix_okH : (runH init (Traces.releaseTrace.take 101)).isSome = true := by
  decide

/-- All hypotheses of `C08_complete_released` (with `n = d = note0`; even the former hypothesis
    `ReachableH`, no longer needed) and of
    `C08_waiters_released` (with `d = note1`, the former child of note0, notified and disconnected
    by `notify (note0)`) hold together in a reachable state (the state of the example above):
    `ReachableH`, both notes notified, NO thread at all with an activation on note0 or note1; the
    waiter record `nw0` of note1 is in use and its owner is blocked on the semaphore. -/
example : ∃ s : State, ReachableH s ∧ (s.notes 0).notified = true ∧ (s.notes 1).notified = true ∧
    (∀ t, ¬ Active (s.pc t) 0) ∧ (∀ t, ¬ Active (s.pc t) 1) ∧
    (s.recs 0).used = true ∧ (s.recs 0).note = 1 ∧ Blocked s 0 := by
  have hrun : runH init (Traces.releaseTrace.take 101) =
      some ((runH init (Traces.releaseTrace.take 101)).get release_prefix_okH) := by simp
  have hpcs : ∀ t, ∀ d, ¬ Active (((runH init (Traces.releaseTrace.take 101)).get release_prefix_okH).pc t) d := by
    intro t d
    by_cases h0 : t = 0
    · subst h0
      have : ((runH init (Traces.releaseTrace.take 101)).get release_prefix_okH).pc 0 =
          .wt (.pdRet none) 1 none 0 := by decide
      rw [this]; simp [Active]
    · by_cases h1 : t = 1
      · subst h1
        have : ((runH init (Traces.releaseTrace.take 101)).get release_prefix_okH).pc 1 = .idle := by decide
        rw [this]; simp [Active]
      · by_cases h99 : t = 99
        · subst h99
          have : ((runH init (Traces.releaseTrace.take 101)).get release_prefix_okH).pc 99 = .idle := by
            decide
          rw [this]; simp [Active]
        · have hall : (Traces.releaseTrace.take 101).all
              (fun e => e.actor == some 0 || e.actor == some 1 || e.actor == some 99
                || e.actor == none) = true := by decide
          have hact : ∀ e ∈ Traces.releaseTrace.take 101, e.actor ≠ some t := by
            intro e he hea
            have := List.all_eq_true.mp hall e he
            rw [hea] at this
            simp [h0, h1, h99] at this
          rw [pc_of_not_actor_rel (run_of_runH hrun) t hact]
          simp [Note.init, Active]
  refine ⟨_, reachableH_runH ReachableH.init hrun, by decide, by decide, fun t => hpcs t 0,
    fun t => hpcs t 1, by decide, by decide, ?_⟩
  exact ⟨none, none, Or.inr (by decide)⟩

/-- … and before the notification reaches it the same record is queued with `waiting = 1`, its
    owner asleep (first alternative of `C08_no_lost_wakeup`). -/
example : (match run init (Traces.releaseTrace.take 75) with
    | .ok s => decide (s.pc 0 = .wt (.pdRet none) 1 none 0) && (s.recs 0).waiting &&
        decide ((s.notes 1).waiters = [0]) && !(s.notes 1).notified &&
        decide ((s.recs 0).posted = 0)
    | .error _ => false) = true := by decide

/-- The whole trace is accepted: the waiter wakes up, finds the note notified and
    `nsync_note_wait` returns 1. -/
example : (match run init Traces.releaseTrace with
    | .ok s => decide (s.pc 0 = .idle) && decide (s.pc 1 = .idle) &&
        decide (s.observed.head?.map (fun o => (o.t, o.n, o.res)) = some (0, 1, true))
    | .error _ => false) = true := by decide

theorem sibling_prefix_ok : (run init (Traces.siblingTrace.take 74)).toOption.isSome = true := by
  decide

/-- A sibling stays un-notified (trace recorded from the library): tree note0 → {note1 → note3,
    note2}; the step that sets the flag of note3 is performed by thread 0 inside `notify (note1)`,
    with the activation stack [note3, note1]. -/
example : (match run init (Traces.siblingTrace.take 74) with
    | .ok s =>
      (match step s (.stNote 0 .childSt .rel 3 1 0) with
       | .ok s' =>
         decide (s.pc 0 = .chd .st [⟨3, none⟩, ⟨1, none⟩] ⟨1, some 0, .ofApi⟩) &&
         !(s.notes 3).notified && (s'.notes 3).notified &&
         !(s'.notes 2).notified && !(s'.notes 0).notified
       | .error _ => false)
    | .error _ => false) = true := by decide

/-- … in that state note3 is a descendant of note1 in the current forest (first alternative of
    `C08_unaffected`), the sibling note2 and the parent note0 are not (hypothesis of
    `C08_siblings_unaffected`). -/
example : ∃ s : State, Reachable s ∧
    s.pc 0 = .chd .st [⟨3, none⟩, ⟨1, none⟩] ⟨1, some 0, .ofApi⟩ ∧
    (s.notes 3).notified = false ∧ Anc s 1 3 ∧ ¬ Anc s 1 2 ∧ ¬ Anc s 1 0 := by
  have hr := reachable_stateAfter _ sibling_prefix_ok
  have h3 : ((stateAfter _ sibling_prefix_ok).notes 3).parent = some 1 := by decide
  have h2 : ((stateAfter _ sibling_prefix_ok).notes 2).parent = some 0 := by decide
  have h0 : ((stateAfter _ sibling_prefix_ok).notes 0).parent = none := by decide
  refine ⟨_, hr, by decide, by decide, Anc.up h3 (Anc.refl 1), ?_, ?_⟩
  · intro h
    cases h with
    | up hp h' =>
      rw [h2] at hp; cases hp
      cases h' with
      | up hp' _ => rw [h0] at hp'; cases hp'
  · intro h
    cases h with
    | up hp _ => rw [h0] at hp; cases hp

/-- At the end of that trace: note1 and note3 notified, note0 and note2 not. -/
example : (match run init Traces.siblingTrace with
    | .ok s => (s.notes 1).notified && (s.notes 3).notified && !(s.notes 0).notified &&
        !(s.notes 2).notified &&
        decide (s.observed.map (fun o => (o.n, o.res)) = [(3, true), (0, false), (2, false)])
    | .error _ => false) = true := by decide

end Note
