import NsyncVerif.Props.PoolContract

#print axioms Pool.Pool_exclusive
#print axioms Pool.Pool_exclusive_trace
#print axioms Pool.Pool_held_by_trace
#print axioms Pool.Pool_client_checks
#print axioms Pool.Pool_free_list_inv
#print axioms Pool.Pool_free_list_quiescent
#print axioms Pool.Pool_init
#print axioms Pool.Pool_remove_count_monotone
#print axioms Pool.Pool_reserved
#print axioms Pool.Pool_no_leak_partial
#print axioms Pool.Pool_no_leak_exactly_one
#print axioms Pool.Pool_malloc_null_rejected
#print axioms Pool.reachable_inv
#print axioms Pool.reachable_ninv
