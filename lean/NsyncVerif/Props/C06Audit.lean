/- Axiom audit of every theorem of Props/C06 and Props/C05Mu
   (allowed: propext, Classical.choice, Quot.sound). -/
import NsyncVerif.Props.C06

open NsyncVerif.MuC

#print axioms C05_mode_recorded
#print axioms C05_mode
#print axioms C05_mu_wait_0
#print axioms C05_timedout
#print axioms C05_cancelled
#print axioms C05_no_resleep_partial
#print axioms C05_timed_p_deadline
#print axioms C05_no_resleep_full_refuted
#print axioms C06_cond_under_lock
#print axioms C06_inv_lock
#print axioms C06_inv_spin
#print axioms C06_inv_queue
#print axioms C06_hint_partial
#print axioms C06_samecond_ring_full_refuted
#print axioms C06_samecond_ring_partial
#print axioms not_midScan
