/- Axiom audit of every theorem of Props/C06 and Props/C05Mu
   (allowed: propext, Classical.choice, Quot.sound). -/
import NsyncVerif.Props.C06

open NsyncVerif.MuC

#print axioms C05_mode_recorded
#print axioms C05_mode
#print axioms C05_mu_wait_0
#print axioms C05_timedout
#print axioms C05_cancelled
#print axioms C05_no_resleep_partial
#print axioms C05_timed_p_deadline
#print axioms C05_no_resleep_full_refuted
#print axioms C06_cond_under_lock
#print axioms C06_inv_lock
#print axioms C06_inv_spin
#print axioms C06_inv_queue
#print axioms C06_hint_partial
#print axioms C06_samecond_ring_full_refuted
#print axioms C06_samecond_ring_partial
#print axioms not_midScan
#print axioms C06_samecond_ring_sound
#print axioms C06_skip_sound
#print axioms C06_hint_all_false
#print axioms C06_hint
#print axioms C06_true_cond_has_responsible
#print axioms C06_desig_waker_justified
#print axioms quiescent_sleeper_queued
#print axioms quiescent_not_resp
#print axioms C06_no_missed_cond
#print axioms C06_no_stuck_state_partial
#print axioms C06_writer_waiting_justified
#print axioms C06_timeout_store_clean
#print axioms C06_long_wait_justified
#print axioms C06_responsible
#print axioms C06_responsible_pending
#print axioms C06_lock_slow_record
#print axioms C06_no_stuck_state
#print axioms C06_quiescent_no_plain_waiter
#print axioms C06_quiescent_witness
#print axioms C06_no_stuck_state_old_code_witness
#print axioms C06_no_missed_cond_old_code_witness
#print axioms C06_without_wakeup_sound_full_refuted
#print axioms C06_without_wakeup_sound
#print axioms C06_without_wakeup_no_missed
#print axioms reachable_inv6
#print axioms reachable_inv7
#print axioms reachable_inv8
#print axioms reachable_inv9
#print axioms reachable_inv10
#print axioms reachable_inv11
#print axioms step_tl
#print axioms inv12_of_tl
#print axioms reachable_Inv12
