/-
  Axiom audit of every theorem of Props/C04.lean, Props/C05Cv.lean, Props/C13Cv.lean
  (allowed: propext, Classical.choice, Quot.sound).
-/
import NsyncVerif.Props.C04
import NsyncVerif.Props.C05Cv
import NsyncVerif.Props.C13Cv

open NsyncVerif.Cv

#print axioms C04_queue_inv
#print axioms C04_spinlock_excl
#print axioms C04_wait_atomic
#print axioms C04_unlink_once_partial
#print axioms C04_remove_count_handshake
#print axioms C04_unlink_once_nw_witness
#print axioms C04_unlink_once_full_false
#print axioms C04_outcome_partial
#print axioms C04_exitUnl_is_unl
#print axioms C04_signal
#print axioms C04_broadcast
#print axioms C04_broadcast_unlinks_all
#print axioms C04_no_lost_wake
#print axioms C05_result_is_outcome
#print axioms C05_timedout
#print axioms C05_cancelled
#print axioms C05_no_resleep
#print axioms C05_not_sleeping
#print axioms C13_record_touch
#print axioms C13_listed_owner_waits
#print axioms C13_owner_returns_clean
#print axioms C13_nw_store_after_return
#print axioms C13_nw_sem_read_after_return
#print axioms C13_record_touch_nw_full_false
