import NsyncVerif.Props.C02Progress
import NsyncVerif.Proofs.MuQFairMain
import NsyncVerif.Proofs.MuQFairTrace
/-!
# C02, progress half, for ALL fair schedules — "every nsync_mu_lock and nsync_mu_rlock call eventually returns"

Model `NsyncVerif.Model.MuQ`; executions, fairness and the hypotheses are the definitions of
`Props/C02Progress.lean` (`Exec`, `WeakFair`, `HoldersRelease`, `FiniteArrivals`, `FiniteRcFails`),
unchanged.  Any number of threads, both semaphore flavours, environment posts (`envV`, `envSem`) and
idle steps (`σ i = none`) at any time.

## Machine-checked here

* `C02_fair_termination : C02_fair_termination_full` — the statement left open in
  `Props/C02Progress.lean`, proved AS STATED: in every infinite execution from a reachable state that
  is weakly fair, in which holders call unlock / runlock, acquisition calls stop arriving and CASes on
  `remove_count` stop failing, every thread inside lock / rlock / trylock / rtrylock / lock_slow
  eventually returns.
* `C02_fair_quiescence` — the stronger fact the proof establishes: such an execution reaches a time
  after which EVERY thread is idle and holds nothing (every pending call, unlock / runlock
  included, has returned; every sleeper has been woken, has acquired and has released).
* `C02_fair_return` — every thread inside ANY core call (unlock / runlock included) returns.
* `C02_fair_wake` — fair version of `C02_leads_to_wake`: a thread asleep in P on its semaphore
  (count 0) is eventually posted: at some later time it is still at the return point of P and the
  count is non-zero.

## The argument (no explicit global ranking; "eventually for ever" facts, each by a local rank)

After the last arrival (`Proofs/MuQFairSettle.lean`, `Proofs/MuQFairMain.lean`):
A. Σ stage is non-increasing (`C02_stage_monotone`), so every thread's stage freezes.
B. Then nobody is past a point of no return (final CAS of a release done, failed try-lock): such a
   thread returns in ≤ 2·|wake list| + 3 own steps, which weak fairness gives it, and its stage
   would drop.  Hence C. no `waiting` flag is cleared any more, hence D. each thread takes the
   spinlock with its enqueue CAS at most once more.
E. The spinlock is eventually free and then stays free, and the word is constant: its owner
   (mu_release_spinlock, or the scan and final CAS of unlock_slow — here `FiniteRcFails`) faces a
   constant word and finishes in boundedly many own steps.
F. With the word constant every CAS attempted after re-reading the word succeeds, so (local ranks
   `preRank`, `rank2`, `loopRank`) no un-queued contender, no owner of a share (here, and only
   here, `HoldersRelease`), no woken-but-unaware waiter is left.
G. What is left is idle threads and threads in their wait loops with `waiting` set, and the
   invariants (`ALive.resp`, `AQueue.wt`) exclude the latter.
Spinning (`lsLd` / `usLd` with the spinlock taken), failed CASes and spurious semaphore wake-ups
(environment posts) are stutter: they change no component.  Weak fairness enters only through
`fair_move`: a thread that stays enabled until it moves, moves.

## Barging: `FiniteArrivals`, not C14

The proof uses `FiniteArrivals` outright (it covers try-locks: `Event.isAcqCall`); after the last
arrival no thread can barge more than once, so the MU_LONG_WAIT mechanism of C14 is NOT used.  (C14 is
what one would need to weaken `FiniteArrivals` to a bound on concurrent arrivals; under WEAK fairness
that is still not enough because of the test-and-set spinlock, see `Props/C02Progress.lean`.)

## Hypotheses really used

`Reachable cfg s0` (invariants), `WeakFair`, `HoldersRelease` (step F, threads idle holding the mutex),
`FiniteArrivals` (step A), `FiniteRcFails` (step E).  Nothing else.

## Each hypothesis is needed (explicit fair executions, machine-checked)

* `C02_fair_needs_release`   `heldExec` (a holder that never unlocks, a sleeper; then idling): weakly
  fair, finitely many arrivals, no `remove_count` failure — thread 1 never returns.
* `C02_fair_needs_rc`        `rcExec` (lasso: the unlocker's CAS on `remove_count` fails and it
  re-loads, for ever): weakly fair, holders release, finitely many arrivals — threads 1, 2 never return.
* `C02_fair_needs_arrivals`  `bargeExec` (lasso of period 8: thread 0 locks and unlocks on the fast paths
  for ever, each time between thread 1's load and its enqueue CAS): weakly fair, holders release, no
  `remove_count` failure, infinitely many arrivals — thread 1 never returns.
(`WeakFair` itself is trivially needed: an execution in which an enabled thread is never scheduled.)

## Non-vacuity

`frontExec`: the harness trace `traceFront` of `Props/C02.lean` (three threads; two writers queue and
sleep while thread 0 holds, thread 0 barges once, thread 1 re-queues) followed by idling for ever is
an `Exec` satisfying all four hypotheses; in it `nsync_mu_lock` is called by thread 1 at time 4
while thread 0 owns the writer bit, and thread 1 is asleep on a semaphore with count 0 at time 14.
-/
namespace NsyncVerif.MuQ

/-- Quiescence: eventually every thread is idle holding nothing, for ever. -/
theorem C02_fair_quiescence {cfg : Cfg} {s0 : State} (x : Exec cfg s0) (hr : Reachable cfg s0)
    (hf : WeakFair x) (hh : HoldersRelease x) (ha : FiniteArrivals x) (hc : FiniteRcFails x) :
    ∃ n, ∀ j, n ≤ j → ∀ t, IdleHoldingNothing (x.ρ j) t := by
  obtain ⟨na, hna⟩ := ha
  obtain ⟨nc, hnc⟩ := hc
  obtain ⟨n, _, h⟩ := fair_quiescence x hr hf hh (n0 := max na nc)
    (fun j e hj hs => hna j e (by omega) hs) (fun j e hj hs => hnc j e (by omega) hs)
  exact ⟨n, h⟩

/-- Every thread inside a core call — unlock / runlock included — eventually returns. -/
theorem C02_fair_return {cfg : Cfg} {s0 : State} (x : Exec cfg s0) (hr : Reachable cfg s0)
    (hf : WeakFair x) (hh : HoldersRelease x) (ha : FiniteArrivals x) (hc : FiniteRcFails x)
    (t : Tid) (i : Nat) : ∃ j, i ≤ j ∧ (x.ρ j).pc t = .idle := by
  obtain ⟨n, h⟩ := C02_fair_quiescence x hr hf hh ha hc
  exact ⟨max i n, by omega, (h (max i n) (by omega) t).1⟩

/-- The statement of `Props/C02Progress.lean`, as stated there. -/
theorem C02_fair_termination : C02_fair_termination_full := by
  intro cfg s0 x hr hf hh ha hc t i _
  exact C02_fair_return x hr hf hh ha hc t i

/-- The only step a thread takes from the return point of P needs a non-zero count. -/
theorem own_pRet_posted {cfg : Cfg} {s s' : State} {t : Tid} {b : Bool} {c : SL} {k : Wid}
    (h : Own cfg s t b s') (hp : s.pc t = .lsPRet c) (hw : c.w = some k) : (s.wr k).sem ≠ 0 := by
  cases h <;> simp_all

/-- Fair version of `C02_leads_to_wake`: a thread asleep in P on the semaphore of its waiter record
    (count 0) is eventually posted. -/
theorem C02_fair_wake {cfg : Cfg} {s0 : State} (x : Exec cfg s0) (hr : Reachable cfg s0)
    (hf : WeakFair x) (hh : HoldersRelease x) (ha : FiniteArrivals x) (hc : FiniteRcFails x)
    {t : Tid} {i : Nat} {c : SL} {k : Wid} (hp : (x.ρ i).pc t = .lsPRet c) (hw : c.w = some k) :
    ∃ j, i ≤ j ∧ (x.ρ j).pc t = .lsPRet c ∧ ((x.ρ j).wr k).sem ≠ 0 := by
  obtain ⟨j1, hj1, hidle⟩ := C02_fair_return x hr hf hh ha hc t i
  have hmv : ∃ j, i ≤ j ∧ Moves x t j := by
    apply Classical.byContradiction; intro hn
    obtain ⟨a, _⟩ := frame_between x hj1 (fun j' h1 _ hm => hn ⟨j', h1, hm⟩)
    rw [a, hp] at hidle; cases hidle
  obtain ⟨j, h1, h2, h3⟩ := first_move' x hmv
  obtain ⟨a, _⟩ := frame_between x h1 h3
  obtain ⟨e, _, hown⟩ := h2.own
  have hpj : (x.ρ j).pc t = .lsPRet c := by rw [a, hp]
  exact ⟨j, h1, hpj, own_pRet_posted hown hpj hw⟩

/-! ## non-vacuity -/

/-- The state after the whole of `traceFront`. -/
def frontFinal : State := stateAt ⟨false⟩ traceFront traceFront.length

set_option maxRecDepth 4096 in
theorem front_accepted : accepts ⟨false⟩ traceFront = true := by decide

theorem front_run : run ⟨false⟩ init traceFront = .ok frontFinal := by
  have h := front_accepted
  simp only [accepts] at h
  split at h
  · rename_i s hs
    have := stateAt_ge hs (Nat.le_refl traceFront.length)
    rw [frontFinal, this]; exact hs
  · cases h

/-- `traceFront`, then nothing for ever. -/
def frontExec : Exec ⟨false⟩ init := traceExec ⟨false⟩ traceFront frontFinal front_run

set_option maxRecDepth 4096 in
theorem front_threads : traceFront.all (fun e => match e.tid with | some t => decide (t < 3) | none => true) = true := by
  decide

set_option maxRecDepth 4096 in
theorem front_final_idle : checkAfter ⟨false⟩ traceFront (fun s =>
    (List.range 3).all (fun t => decide (s.pc t = .idle) && decide (s.held t = none))) = true := by decide

theorem front_quiescent (t : Tid) : IdleHoldingNothing frontFinal t := by
  by_cases ht : t < 3
  · have h := front_final_idle
    simp only [checkAfter, front_run, List.all_eq_true, List.mem_range, Bool.and_eq_true, decide_eq_true_eq] at h
    exact h t ht
  · have hne : ∀ e ∈ traceFront, e.tid ≠ some t := by
      intro e he htid
      have h := front_threads
      simp only [List.all_eq_true] at h
      have := h e he
      rw [htid] at this
      exact ht (by simpa using this)
    exact run_untouched traceFront init frontFinal hne front_run

theorem front_tail {j : Nat} (hj : traceFront.length ≤ j) : frontExec.ρ j = frontFinal ∧ frontExec.σ j = none :=
  traceExec_tail front_run hj

/-- `frontExec` satisfies every hypothesis of `C02_fair_termination` … -/
theorem front_hyps : Reachable ⟨false⟩ init ∧ WeakFair frontExec ∧ HoldersRelease frontExec ∧
    FiniteArrivals frontExec ∧ FiniteRcFails frontExec := by
  have hr := reachable_init ⟨false⟩
  refine ⟨hr, ?_, ?_, ?_⟩
  · exact weakFair_of_quiescent frontExec traceFront.length
      (fun j hj t => by rw [(front_tail hj).1]; exact (front_quiescent t).1)
  · exact holdersRelease_of_quiescent frontExec hr traceFront.length
      (fun j hj t => by rw [(front_tail hj).1]; exact (front_quiescent t).2)
  · exact finite_of_tail frontExec traceFront.length (fun j hj => (front_tail hj).2)

/-- … and in it nsync_mu_lock is called (time 4, thread 1) while thread 0 owns the writer bit; at
    time 5 thread 1 is inside the call; at time 14 it is asleep on semaphore w0 with count 0, queued
    behind a held mutex.  The theorems above say that it is posted and returns (in the trace: the
    post at time 33, a lost race and a second sleep, the return at time 65). -/
example : frontExec.σ 4 = some (.call 1 .lock) := rfl

set_option maxRecDepth 4096 in
example : (frontExec.ρ 4).word.wlock = true ∧ (frontExec.ρ 4).wOwner = some 0 ∧
    acqPc ((frontExec.ρ 5).pc 1) = true ∧
    (frontExec.ρ 14).pc 1 = .lsPRet { l := .W, w := some 0, clear := false, ign := false, wc := 0, lwl := false } ∧
    ((frontExec.ρ 14).wr 0).sem = 0 ∧ (frontExec.ρ 14).word.wlock = true := by
  decide

set_option maxRecDepth 4096 in
example : frontExec.σ 33 = some (.semV 0 0) ∧ frontExec.σ 65 = some (.ret 1 .lock none) ∧
    (frontExec.ρ 66).pc 1 = .idle := ⟨rfl, rfl, by decide⟩

example : ∃ j, 5 ≤ j ∧ (frontExec.ρ j).pc 1 = .idle :=
  C02_fair_termination _ _ frontExec front_hyps.1 front_hyps.2.1 front_hyps.2.2.1 front_hyps.2.2.2.1
    front_hyps.2.2.2.2 1 5 (by decide)

/-! ## the hypothesis of C02 is needed (sanity check of the formalisation)

Thread 0 acquires and never calls unlock; thread 1 calls nsync_mu_lock, queues and sleeps; then
nothing happens for ever.  The execution is weakly fair (thread 0 is idle, thread 1 is asleep on a
semaphore with count 0), has one arrival and no failing `remove_count` CAS — and thread 1 never
returns.  So `HoldersRelease` cannot be dropped (and, by `C02_fair_termination`, fails here). -/

def traceHeld : List Event := traceFront.take 3 ++ (traceFront.drop 4).take 10

def heldFinal : State := stateAt ⟨false⟩ traceHeld traceHeld.length

theorem held_run : run ⟨false⟩ init traceHeld = .ok heldFinal := by
  have h : accepts ⟨false⟩ traceHeld = true := by decide
  simp only [accepts] at h
  split at h
  · rename_i s hs
    have := stateAt_ge hs (Nat.le_refl traceHeld.length)
    rw [heldFinal, this]; exact hs
  · cases h

def heldExec : Exec ⟨false⟩ init := traceExec ⟨false⟩ traceHeld heldFinal held_run

theorem held_final (t : Tid) : heldFinal.pc t = .idle ∨ AsleepOnSem heldFinal t := by
  by_cases ht : t < 3
  · have h : checkAfter ⟨false⟩ traceHeld (fun s =>
        (List.range 3).all (fun t => decide (s.pc t = .idle) || asleepB s t)) = true := by decide
    simp only [checkAfter, held_run, List.all_eq_true, List.mem_range, Bool.or_eq_true, decide_eq_true_eq] at h
    rcases h t ht with h1 | h1
    · exact Or.inl h1
    · exact Or.inr ((asleepB_iff _ _).1 h1)
  · left
    have hne : ∀ e ∈ traceHeld, e.tid ≠ some t := by
      intro e he htid
      have h : traceHeld.all (fun e => match e.tid with | some t => decide (t < 3) | none => true) = true := by decide
      simp only [List.all_eq_true] at h
      have := h e he
      rw [htid] at this
      exact ht (by simpa using this)
    exact (run_untouched traceHeld init heldFinal hne held_run).1

theorem C02_fair_needs_release :
    WeakFair heldExec ∧ FiniteArrivals heldExec ∧ FiniteRcFails heldExec ∧ ¬ HoldersRelease heldExec ∧
      acqPc ((heldExec.ρ 13).pc 1) = true ∧ ∀ j, 13 ≤ j → (heldExec.ρ j).pc 1 ≠ .idle := by
  have htail : ∀ j, 13 ≤ j → heldExec.ρ j = heldFinal ∧ heldExec.σ j = none :=
    fun j hj => traceExec_tail held_run (by show traceHeld.length ≤ j; simpa [traceHeld, traceFront] using hj)
  have hwf : WeakFair heldExec :=
    weakFair_of_final heldExec 13 (fun j hj t => by rw [(htail j hj).1]; exact held_final t)
  have hfin := finite_of_tail heldExec 13 (fun j hj => (htail j hj).2)
  have hp1 : heldFinal.pc 1 = .lsPRet { l := .W, w := some 0, clear := false, ign := false, wc := 0, lwl := false } := by
    have h : checkAfter ⟨false⟩ traceHeld (fun s => decide (s.pc 1 =
        .lsPRet { l := .W, w := some 0, clear := false, ign := false, wc := 0, lwl := false })) = true := by decide
    simpa [checkAfter, held_run] using h
  have hnever : ∀ j, 13 ≤ j → (heldExec.ρ j).pc 1 ≠ .idle := by
    intro j hj; rw [(htail j hj).1, hp1]; simp
  have hacq : acqPc ((heldExec.ρ 13).pc 1) = true := by
    rw [(htail 13 (Nat.le_refl _)).1, hp1]; rfl
  refine ⟨hwf, hfin.1, hfin.2, fun hh => ?_, hacq, hnever⟩
  obtain ⟨j, hj, hidle⟩ := C02_fair_termination _ _ heldExec (reachable_init _) hwf hh hfin.1 hfin.2 1 13 hacq
  exact hnever j hj hidle

/-! ## `FiniteRcFails` is needed in this model

`traceFront` up to the point where thread 0, inside unlock_slow with the spinlock, has loaded
`remove_count` of w0 (time 29; threads 1 and 2 asleep, counts 0); then its CAS on `remove_count`
fails and it re-loads, for ever.  The acceptor accepts this (`remove_count` is memory the mutex does
not own), the execution is weakly fair (thread 0 moves at every step), nobody holds, nobody arrives —
and threads 1 and 2 never return. -/

def traceRc : List Event := traceFront.take 29

def rcA : State := stateAt ⟨false⟩ traceRc traceRc.length

def rcScan : Scan := { wake := [0], todo := [1], wt := some .W, sww := false, saf := true }

def rcB : State := setPc rcA 0 (.usRcLd .W rcScan 0)

theorem rc_run : run ⟨false⟩ init traceRc = .ok rcA := by
  have h : accepts ⟨false⟩ traceRc = true := by decide
  simp only [accepts] at h
  split at h
  · rename_i s hs
    have := stateAt_ge hs (Nat.le_refl traceRc.length)
    rw [rcA, this]; exact hs
  · cases h

theorem rcA_pc0 : rcA.pc 0 = .usRcCas .W rcScan 0 0 := by
  have h : checkAfter ⟨false⟩ traceRc (fun s => decide (s.pc 0 = .usRcCas .W rcScan 0 0)) = true := by decide
  simpa [checkAfter, rc_run] using h

theorem rc_step1 : step ⟨false⟩ rcA (.cas 0 .rlx (.rc 0) 0 1 5 false) = .ok rcB := by
  simp [step, stepCas, rcA_pc0, rcB]

theorem rc_step2 : step ⟨false⟩ rcB (.ld 0 .rlx (.rc 0) 0) = .ok rcA := by
  simp only [step, stepLd, rcB, setPc_pc_self]
  simp only [ne_eq, not_true_eq_false, if_false]
  rw [setPc_setPc_self rcA_pc0]

def rcLoop : List Event := [.cas 0 .rlx (.rc 0) 0 1 5 false, .ld 0 .rlx (.rc 0) 0]

theorem rc_loop : run ⟨false⟩ rcA rcLoop = .ok rcA := by
  simp [rcLoop, run, rc_step1, rc_step2]

def rcExec : Exec ⟨false⟩ init := lassoExec ⟨false⟩ traceRc rcLoop rcA rc_run rc_loop (by decide)

theorem rcA_facts : (rcA.pc 1 = .lsPRet { l := .W, w := some 0, clear := false, ign := false, wc := 0, lwl := false } ∧
    (rcA.wr 0).sem = 0) ∧ ∀ t, rcA.held t = none := by
  constructor
  · have h : checkAfter ⟨false⟩ traceRc (fun s => decide (s.pc 1 =
        .lsPRet { l := .W, w := some 0, clear := false, ign := false, wc := 0, lwl := false }) &&
        decide ((s.wr 0).sem = 0)) = true := by decide
    simpa [checkAfter, rc_run] using h
  · intro t
    by_cases ht : t < 3
    · have h : checkAfter ⟨false⟩ traceRc (fun s => (List.range 3).all (fun t => decide (s.held t = none))) = true := by
        decide
      simp only [checkAfter, rc_run, List.all_eq_true, List.mem_range, decide_eq_true_eq] at h
      exact h t ht
    · have hne : ∀ e ∈ traceRc, e.tid ≠ some t := by
        intro e he htid
        have h : traceRc.all (fun e => match e.tid with | some t => decide (t < 3) | none => true) = true := by decide
        simp only [List.all_eq_true] at h
        have := h e he
        rw [htid] at this
        exact ht (by simpa using this)
      exact (run_untouched traceRc init rcA hne rc_run).2

theorem rc_tail {j : Nat} (hj : 29 ≤ j) :
    (rcExec.ρ j = rcA ∨ rcExec.ρ j = rcB) ∧ ∃ e, rcExec.σ j = some e ∧ e.tid = some 0 ∧ e.isAcqCall = false := by
  have hlen : traceRc.length = 29 := by decide
  obtain ⟨h1', h2'⟩ := lassoExec_tail rc_run rc_loop (by decide) (j := j) (by omega)
  have h1 : rcExec.ρ j = stateFrom ⟨false⟩ rcA (rcLoop.take ((j - traceRc.length) % 2)) := h1'
  have h2 : rcExec.σ j = rcLoop[(j - traceRc.length) % 2]? := h2'
  have hr : (j - traceRc.length) % 2 = 0 ∨ (j - traceRc.length) % 2 = 1 := by omega
  rcases hr with hr | hr <;> rw [hr] at h1 h2
  · exact ⟨Or.inl (by rw [h1]; simp [stateFrom, run]), _, h2, rfl, rfl⟩
  · exact ⟨Or.inr (by rw [h1]; simp [stateFrom, run, rcLoop, rc_step1]), _, h2, rfl, rfl⟩

theorem C02_fair_needs_rc :
    WeakFair rcExec ∧ HoldersRelease rcExec ∧ FiniteArrivals rcExec ∧ ¬ FiniteRcFails rcExec ∧
      acqPc ((rcExec.ρ 29).pc 1) = true ∧ ∀ j, 29 ≤ j → (rcExec.ρ j).pc 1 ≠ .idle := by
  have hpc1 : ∀ j, 29 ≤ j → (rcExec.ρ j).pc 1 =
      .lsPRet { l := .W, w := some 0, clear := false, ign := false, wc := 0, lwl := false } := by
    intro j hj
    rcases (rc_tail hj).1 with h | h <;> rw [h]
    · exact rcA_facts.1.1
    · rw [rcB, setPc]; simp only [setFn]; rw [if_neg (by decide)]; exact rcA_facts.1.1
  have hheld : ∀ j, 29 ≤ j → ∀ t, (rcExec.ρ j).held t = none := by
    intro j hj t
    rcases (rc_tail hj).1 with h | h <;> rw [h]
    · exact rcA_facts.2 t
    · exact rcA_facts.2 t
  have hwf : WeakFair rcExec := by
    intro t i h
    by_cases ht : t = 0
    · subst ht
      obtain ⟨e, he, htid, _⟩ := (rc_tail (j := max i 29) (by omega)).2
      exact ⟨max i 29, e, by omega, he, htid⟩
    · -- every other thread is idle or asleep at all times ≥ 29 … thread 0 alone moves
      exfalso
      have hj : 29 ≤ max i 29 := by omega
      obtain ⟨hne, hna⟩ := h (max i 29) (by omega)
      have hA : rcA.pc t = .idle ∨ AsleepOnSem rcA t := by
        by_cases ht3 : t < 3
        · have h : checkAfter ⟨false⟩ traceRc (fun s =>
              (List.range 3).all (fun t => decide (t = 0) || decide (s.pc t = .idle) || asleepB s t)) = true := by decide
          simp only [checkAfter, rc_run, List.all_eq_true, List.mem_range, Bool.or_eq_true, decide_eq_true_eq] at h
          rcases h t ht3 with (h1 | h1) | h1
          · exact absurd h1 ht
          · exact Or.inl h1
          · exact Or.inr ((asleepB_iff _ _).1 h1)
        · left
          have hne : ∀ e ∈ traceRc, e.tid ≠ some t := by
            intro e he htid
            have h : traceRc.all (fun e => match e.tid with | some t => decide (t < 3) | none => true) = true := by decide
            simp only [List.all_eq_true] at h
            have := h e he
            rw [htid] at this
            exact ht3 (by simpa using this)
          exact (run_untouched traceRc init rcA hne rc_run).1
      rcases (rc_tail hj).1 with h' | h' <;> rw [h'] at hne hna
      · rcases hA with h1 | h1
        · exact hne h1
        · exact hna h1
      · have hpcB : rcB.pc t = rcA.pc t := by rw [rcB, setPc]; simp only [setFn]; rw [if_neg ht]
        rcases hA with h1 | ⟨c, k, h1, h2, h3⟩
        · exact hne (by rw [hpcB]; exact h1)
        · exact hna ⟨c, k, by rw [hpcB]; exact h1, h2, h3⟩
  have hhr : HoldersRelease rcExec :=
    holdersRelease_of_quiescent rcExec (reachable_init _) 29 hheld
  have hfa : FiniteArrivals rcExec := ⟨29, fun j e hj he => by
    obtain ⟨e', he', _, hacq⟩ := (rc_tail hj).2
    rw [he'] at he; cases he; exact hacq⟩
  have hacq : acqPc ((rcExec.ρ 29).pc 1) = true := by rw [hpc1 29 (Nat.le_refl _)]; rfl
  have hnever : ∀ j, 29 ≤ j → (rcExec.ρ j).pc 1 ≠ .idle := by intro j hj; rw [hpc1 j hj]; simp
  refine ⟨hwf, hhr, hfa, fun hc => ?_, hacq, hnever⟩
  obtain ⟨j, hj, hidle⟩ := C02_fair_termination _ _ rcExec (reachable_init _) hwf hhr hfa hc 1 29 hacq
  exact hnever j hj hidle

/-! ## `FiniteArrivals` is needed under weak fairness (and C14 does not help)

Thread 1 is inside lock_slow at its first load (it found the mutex held and has not queued yet); the
mutex is free again.  For ever: thread 0 calls nsync_mu_lock and acquires on the fast path; thread 1
loads the word (held, spinlock free) and prepares its enqueue CAS; thread 0 returns, calls
nsync_mu_unlock and releases on the fast path; thread 1's CAS fails (the word changed); thread 0
returns.  Every thread moves infinitely often, the holder always releases, no `remove_count` CAS
fails, and thread 1 never gets past its enqueue CAS (it never queues, so C14's MU_LONG_WAIT, which is
set by a waiter that has been woken 30 times, never comes into play) and never returns.  The
CAS-retry loop of lock_slow is lock-free, not wait-free: nsync's anti-starvation mechanism protects
QUEUED waiters only.  (This is simpler than the spinlock scenario sketched in
`Props/C02Progress.lean`: no spinlock is needed.) -/

def tracePre : List Event := traceFront.take 7 ++ [.cas 0 .rel .word 1 0 1 true, .ret 0 .unlock none]

def bargeLoop : List Event := [
  .call 0 .lock,
  .cas 0 .acq .word 0 1 0 true,
  .ld 1 .rlx .word 1,
  .ret 0 .lock none,
  .call 0 .unlock,
  .cas 0 .rel .word 1 0 1 true,
  .cas 1 .acq .word 1 39 0 false,
  .ret 0 .unlock none ]

theorem barge_loop (s : State) (hw : s.word = Word.zero) (h1 : s.pc 1 = .lsLd (SL.entry .W))
    (h0 : s.pc 0 = .idle) (hh : s.held 0 = none) (hwo : s.wOwner = none) :
    run ⟨false⟩ s bargeLoop = .ok s := by
  obtain ⟨word, queue, wr, pc, held, wOwner, rOwners, sp⟩ := s
  simp only at hw h1 h0 hh hwo
  subst hw hwo
  simp [bargeLoop, run, step, stepCall, stepRet, stepCas, stepLd, casWord, ldWord, setPc, setFn, h0, h1, hh,
    addShare, subShare, encode, b2n, addWord, Word.zero, blocked, enqWord, SL.entry]
  refine ⟨?_, ?_⟩ <;> funext u <;> simp only [setFn]
  · by_cases hu0 : u = 0
    · subst hu0; simp [h0]
    · by_cases hu1 : u = 1
      · subst hu1; simp [h1, SL.entry]
      · simp [hu0, hu1]
  · by_cases hu0 : u = 0
    · subst hu0; simp [hh]
    · simp [hu0]

def bargeA : State := stateAt ⟨false⟩ tracePre tracePre.length

theorem barge_run : run ⟨false⟩ init tracePre = .ok bargeA := by
  have h : accepts ⟨false⟩ tracePre = true := by decide
  simp only [accepts] at h
  split at h
  · rename_i s hs
    have := stateAt_ge hs (Nat.le_refl tracePre.length)
    rw [bargeA, this]; exact hs
  · cases h

theorem bargeA_facts : bargeA.word = Word.zero ∧ bargeA.pc 1 = .lsLd (SL.entry .W) ∧ bargeA.pc 0 = .idle ∧
    bargeA.held 0 = none ∧ bargeA.wOwner = none := by
  have h : checkAfter ⟨false⟩ tracePre (fun s => decide (s.word = Word.zero) &&
      decide (s.pc 1 = .lsLd (SL.entry .W)) && decide (s.pc 0 = .idle) && decide (s.held 0 = none) &&
      decide (s.wOwner = none)) = true := by decide
  simpa [checkAfter, barge_run, and_assoc] using h

theorem barge_cycle : run ⟨false⟩ bargeA bargeLoop = .ok bargeA :=
  barge_loop bargeA bargeA_facts.1 bargeA_facts.2.1 bargeA_facts.2.2.1 bargeA_facts.2.2.2.1 bargeA_facts.2.2.2.2

def bargeExec : Exec ⟨false⟩ init :=
  lassoExec ⟨false⟩ tracePre bargeLoop bargeA barge_run barge_cycle (by decide)

theorem barge_at {j : Nat} (hj : 9 ≤ j) :
    bargeExec.ρ j = stateFrom ⟨false⟩ bargeA (bargeLoop.take ((j - 9) % 8)) ∧
    bargeExec.σ j = bargeLoop[(j - 9) % 8]? :=
  lassoExec_tail barge_run barge_cycle (by decide) (j := j) (by show tracePre.length ≤ j; exact hj)

theorem barge_state_run (r : Nat) :
    run ⟨false⟩ bargeA (bargeLoop.take r) = .ok (stateFrom ⟨false⟩ bargeA (bargeLoop.take r)) :=
  stateFrom_ok barge_cycle r

theorem barge_other {t : Nat} (ht : 2 ≤ t) (r : Nat) :
    (stateFrom ⟨false⟩ bargeA (bargeLoop.take r)).pc t = .idle ∧
    (stateFrom ⟨false⟩ bargeA (bargeLoop.take r)).held t = none := by
  have hpre : ∀ e ∈ tracePre, e.tid ≠ some t := by
    intro e he htid
    have h : tracePre.all (fun e => match e.tid with | some t => decide (t < 2) | none => true) = true := by decide
    simp only [List.all_eq_true] at h
    have := h e he
    rw [htid] at this
    have h2 : (t : Nat) < 2 := by simpa using this
    omega
  have hloop : ∀ e ∈ bargeLoop.take r, e.tid ≠ some t := by
    intro e he htid
    have h : bargeLoop.all (fun e => match e.tid with | some t => decide (t < 2) | none => true) = true := by decide
    simp only [List.all_eq_true] at h
    have := h e (List.mem_of_mem_take he)
    rw [htid] at this
    have h2 : (t : Nat) < 2 := by simpa using this
    omega
  obtain ⟨a, b⟩ := run_untouched tracePre init bargeA hpre barge_run
  obtain ⟨a', b'⟩ := run_untouched _ bargeA _ hloop (barge_state_run r)
  exact ⟨by rw [a', a]; rfl, by rw [b', b]; rfl⟩

theorem barge_pc1 (r : Nat) : (stateFrom ⟨false⟩ bargeA (bargeLoop.take r)).pc 1 ≠ .idle := by
  refine run_no_api_not_idle _ bargeA _ ?_ (barge_state_run r) (by rw [bargeA_facts.2.1]; simp)
  intro e he htid
  have h : bargeLoop.all (fun e => !(decide (e.tid = some 1) && e.isApi)) = true := by decide
  simp only [List.all_eq_true] at h
  have := h e (List.mem_of_mem_take he)
  simpa [htid] using this

theorem bargeA_held (t : Nat) : bargeA.held t = none := by
  by_cases ht : 2 ≤ t
  · have := (barge_other ht 0).2; simpa [stateFrom, run] using this
  · have h : checkAfter ⟨false⟩ tracePre (fun s => (List.range 2).all (fun t => decide (s.held t = none))) = true := by
      decide
    simp only [checkAfter, barge_run, List.all_eq_true, List.mem_range, decide_eq_true_eq] at h
    exact h t (by omega)

theorem C02_fair_needs_arrivals :
    WeakFair bargeExec ∧ HoldersRelease bargeExec ∧ FiniteRcFails bargeExec ∧ ¬ FiniteArrivals bargeExec ∧
      acqPc ((bargeExec.ρ 9).pc 1) = true ∧ ∀ j, 9 ≤ j → (bargeExec.ρ j).pc 1 ≠ .idle := by
  -- times at which the loop is at position r
  have hpos : ∀ i r, r < 8 → ∃ j, i ≤ j ∧ 9 ≤ j ∧ (j - 9) % 8 = r :=
    fun i r hr => ⟨9 + 8 * i + r, by omega, by omega, by omega⟩
  have hwf : WeakFair bargeExec := by
    intro t i h
    by_cases h0 : t = 0
    · subst h0
      obtain ⟨j, h1, h2, h3⟩ := hpos i 0 (by omega)
      exact ⟨j, .call 0 .lock, h1, by rw [(barge_at h2).2, h3]; rfl, rfl⟩
    by_cases h1 : t = 1
    · subst h1
      obtain ⟨j, h1, h2, h3⟩ := hpos i 2 (by omega)
      exact ⟨j, .ld 1 .rlx .word 1, h1, by rw [(barge_at h2).2, h3]; rfl, rfl⟩
    · exfalso
      have ht2 : 2 ≤ (t : Nat) := by
        cases t with
        | zero => exact absurd rfl h0
        | succ n =>
          cases n with
          | zero => exact absurd rfl h1
          | succ m => exact Nat.le_add_left 2 m
      have := (h (max i 9) (by omega)).1
      rw [(barge_at (j := max i 9) (by omega)).1] at this
      exact this (barge_other (t := t) ht2 _).1
  have hhr : HoldersRelease bargeExec := by
    apply holdersRelease_of_recurrent bargeExec (reachable_init _)
    intro i t
    obtain ⟨j, h1, h2, h3⟩ := hpos i 0 (by omega)
    refine ⟨j, h1, ?_⟩
    rw [(barge_at h2).1, h3]
    simpa [stateFrom, run] using bargeA_held t
  have hrc : FiniteRcFails bargeExec := by
    refine ⟨9, fun j e hj he => ?_⟩
    rw [(barge_at hj).2] at he
    have hm : e ∈ bargeLoop := List.mem_of_getElem? he
    have h : bargeLoop.all (fun e => !e.rcFail) = true := by decide
    simp only [List.all_eq_true] at h
    simpa using h e hm
  have hna : ¬ FiniteArrivals bargeExec := by
    rintro ⟨n, hn⟩
    obtain ⟨j, h1, h2, h3⟩ := hpos n 0 (by omega)
    have := hn j (.call 0 .lock) h1 (by rw [(barge_at h2).2, h3]; rfl)
    cases this
  refine ⟨hwf, hhr, hrc, hna, ?_, ?_⟩
  · rw [(barge_at (Nat.le_refl 9)).1]
    have : (stateFrom ⟨false⟩ bargeA (bargeLoop.take ((9 - 9) % 8))) = bargeA := by simp [stateFrom, run]
    rw [this, bargeA_facts.2.1]; rfl
  · intro j hj
    rw [(barge_at hj).1]; exact barge_pc1 _

end NsyncVerif.MuQ
