import NsyncVerif.Props.C06FairFull
/-!
Axiom audit for `Props/C06FairFull.lean` (allowed: `propext`, `Classical.choice`, `Quot.sound`).
-/
open NsyncVerif.MuC

#print axioms C06_fair_termination_old_code_witness
#print axioms C06_stage_monotone
#print axioms C06_fair_stage_freezes
#print axioms C06_fair_closes
#print axioms C06_fair_frozen_no_return_point
#print axioms C06_cas_after_reread
#print axioms C06_spin_region_exit
#print axioms C06_scan_loop_exit
#print axioms C06_spinlock_released
#print axioms C06_queue_frame
#print axioms C06_fair_closed_prunes
#print axioms C06_fair_closed_eval_false
#print axioms C06_fair_termination_nolw_of_closed
#print axioms data_step
#print axioms kind_step
