import NsyncVerif.Props.C03Transfer
/-
  Audit of the cv-signal edge of C03 for TRANSFERRED waiters (composition CvFix × MuX × vector
  clocks): only `propext`, `Classical.choice`, `Quot.sound` may appear.
-/
open NsyncVerif NsyncVerif.CvMu

#print axioms C03_signal_transfer
#print axioms C03_signal_transfer_full_composed
#print axioms C03_signal_transfer_loop_exit
#print axioms C03_signal_transfer_published
#print axioms C03_signal_transfer_wake
#print axioms C03_transfer_orders
#print axioms C03_transfer_machine
#print axioms C03_transfer_ghosts
#print axioms C03_transfer_invariant
#print axioms C03_transfer_needs_acquire_cas
#print axioms C03_transfer_needs_release_store
#print axioms C03_transfer_needs_release_cas
#print axioms C03_transfer_needs_acquire_load
#print axioms ji_step_cv
#print axioms ji_step_mu
#print axioms xfer_frame
#print axioms xfer_no_store
#print axioms mux_sp
#print axioms jrun_cv
#print axioms jrun_mu
-- (the tie lemmas `Tie.transfer_sites_tie`, `Tie.mu_word_stores_tie` import the regenerated tables and are built
--  separately by the check, so that a changed source breaks the tie and not the whole library)
