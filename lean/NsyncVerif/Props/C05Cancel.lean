/-
  Props/C05Cancel.lean — property C05, the part that lives in nsync_sem_wait_with_cancel_ (internal/sem_wait.c) and
  the cancel note (internal/note.c): "They return ETIMEDOUT only if the deadline has been reached and ECANCELED only
  if the note is notified … once the deadline has passed or the note is notified the call needs no further wake-up".

  nsync_sem_wait_with_cancel_ is the sleep of every cancellable nsync_cv_wait_with_deadline /
  nsync_mu_wait_with_deadline; its result is their `sem_outcome` (layers CvFix / MuC: Props/C05CvFix.lean,
  Props/C05Mu.lean prove that a non-zero result of the wait IS that value and that no further sleep follows it;
  they treat the note abstractly — "the thread saw the note notified").  This layer (Model/SemWait.lean) models
  the note: flag, expiry time, mutex, waiters list, notifiers, the clock and the semaphore.
  All theorems: every reachable state of the acceptor of the code (`noReread = false`), any number of notes,
  waiters and notifiers, every interleaving, every timing of the clock, both semaphore flavours.

  STATUS: all proved as stated.
  * `C05_cancel_reason`: at the return of nsync_sem_wait_with_cancel_: ECANCELED only if the note's `notified` flag
    is set at that moment (set by nsync_note_notify, by somebody's lazy expiry, or by the waiter's own
    nsync_note_notify of sem_wait.c:65), or the note's expiry time is `<= 0` (NOTIFIED_TIME (n) <= 0 without the
    flag: a note created already expired — nsync_note_new with a non-positive deadline or under a notified
    parent; what the first inspection at sem_wait.c:39 found); ETIMEDOUT only if the clock has reached
    abs_deadline; 0 only if the P of this call took a token (`C05_cancel_consumed_step`: the ghost `consumed` of a
    call is raised only by its `P` returning 0 with a positive count, which it decrements).
  * `C05_cancel_no_missed`: a waiter that is enqueued and about to sleep / asleep in its P on a NOTIFIED note is
    never left without a wake-up: either its record is still on the list and the note's mutex is held by another
    thread — which cannot release it before it has emptied the list (`C05_cancel_unlock_needs_empty`: in every
    reachable state an accepted release of note_mu of a notified note finds the list empty; for the waiters' own
    releases this is a theorem, not a check of the acceptor) —, or a notifier holds it between unlink and V, or a
    token is in its semaphore.  This is what the re-read of NOTIFIED_TIME under note_mu (sem_wait.c:49) buys:
    CONTROL `ExampleC05.lost`: the variant that ignores the re-read (`noReread = true`) accepts a trace that ends with
    the waiter asleep for ever on a notified note, its record on the list, note_mu free, no V anywhere; under the
    acceptor of the code the same events leave the thread at its return with ECANCELED (`ExampleC05.lost_not_asleep`,
    `ExampleC05.raceEnqueue`).
  * `C05_cancel_deadline_bound`: the P is issued with min (abs_deadline, note expiry) (`C05_cancel_p_deadline`); an
    ETIMEDOUT of that P is accepted only if the clock has reached that minimum; if abs_deadline is strictly nearer
    the call returns ETIMEDOUT via the dequeue, otherwise the outcome becomes ECANCELED and the waiter calls
    nsync_note_notify itself, after which (`C05_cancel_l65_notified`) the flag is set.
-/
import NsyncVerif.Proofs.SemWaitSteps

set_option linter.unusedVariables false

namespace SemWait

/-- ECANCELED only if the note is notified (or was created expired); ETIMEDOUT only if the clock has reached
    abs_deadline; 0 only if a V was consumed -/
theorem C05_cancel_reason {cfg : Config} {s s' : State} {t : Tid} {o : Outcome} (hc : cfg.noReread = false)
    (hr : Reachable cfg s) (hs : step cfg s (.thr t (.retSW o)) = .ok s') :
    (o = .cancelled → (s.note (s.fr t).note).flag = true ∨ dlePast (s.note (s.fr t).note).expiry = true)
    ∧ (o = .timedOut → expiredB (s.fr t).dl s.now = true)
    ∧ (o = .ok → (s.fr t).consumed = true) := by
  have hi := inv_of_reachable hc hr
  obtain ⟨hpc, rfl, -⟩ := ret_cases hs
  have hl : late (s.pc t) = true := by rw [hpc]; rfl
  exact ⟨hi.o.o2 t hl, hi.o.o3 t hl, hi.o.o4 t hl⟩

/-- … and a note whose expiry is `<= 0` without the flag can only be what the FIRST inspection found: once the
    record has been enqueued the expiry is positive, so ECANCELED means the flag -/
theorem C05_cancel_reason_enqueued {cfg : Config} {s : State} {t : Tid} (hc : cfg.noReread = false)
    (hr : Reachable cfg s) (he : enq (s.pc t) = true) : dlePast (s.note (s.fr t).note).expiry = false :=
  (inv_of_reachable hc hr).q.e1 t he

/-- the ghost `consumed` of a call is raised only by the call's own P returning 0 with a token in the semaphore,
    which it takes (a new call starts with `consumed = false`: `Frame.empty`) -/
theorem C05_cancel_consumed_step {cfg : Config} {s s' : State} {e : Event} {t : Tid}
    (hs : step cfg s e = .ok s') (h0 : (s.fr t).consumed = false) (h1 : (s'.fr t).consumed = true) :
    ∃ j, s.pc t = .pdWait j ∧ 0 < s.sem j ∧ s'.sem j + 1 = s.sem j := by
  rcases step_cases hs with ⟨u, he⟩ | ⟨ns, -, rfl⟩
  · revert h1
    eff_cases he
    case m_p0 j c hpc hsem =>
      intro h1
      by_cases hu : t = u
      · subst hu; exact ⟨j, hpc, by omega, by simp [hsem]⟩
      · simp [hu, h0] at h1
    all_goals (intro h1; first | (simp [h0] at h1; done) | (split at h1 <;> simp_all))
  · simp [h0] at h1

/-- an accepted P-return 0 inside nsync_sem_wait_with_cancel_ takes a token -/
theorem C05_cancel_zero_takes_token {cfg : Config} {s s' : State} {t : Tid} {j j' : SemId} (hpc : s.pc t = .pdWait j)
    (hs : step cfg s (.thr t (.pdRet j' false)) = .ok s') : j' = j ∧ 0 < s.sem j ∧ s'.sem j + 1 = s.sem j := by
  obtain ⟨hj, h⟩ := pdRet_cases hpc hs
  rcases h with ⟨h, -⟩ | ⟨-, a, b, -⟩
  · cases h
  · exact ⟨hj, a, b⟩

/-- no release of note_mu leaves a waiter queued on a notified note — whoever releases it -/
theorem C05_cancel_unlock_needs_empty {cfg : Config} {s s' : State} {u : Tid} {k : NoteId} {e : Ev}
    (hc : cfg.noReread = false) (hr : Reachable cfg s) (he : e = .unlock k ∨ e = .muWait k)
    (hs : step cfg s (.thr u e) = .ok s') (hf : (s.note k).flag = true) : (s.note k).queue = [] := by
  have hi := inv_of_reachable hc hr
  rcases unlock_cases he hs with h | ⟨hk, hp, hl⟩
  · exact h hf
  · false_or_by_contra
    rename_i hne
    obtain ⟨-, h2⟩ := hi.q.k1 k hf hne
    rcases h2 u hl with h | h
    · rw [hp] at h; cases h
    · exact h hk.symm

/-- a waiter enqueued and about to sleep, or asleep, on a notified note has its wake-up: the list is being
    emptied by the holder of note_mu, or a notifier holds its record between unlink and V, or a token is in its
    semaphore -/
theorem C05_cancel_no_missed {cfg : Config} {s : State} {t : Tid} {r : Rid} (hc : cfg.noReread = false)
    (hr : Reachable cfg s) (hS : asleep (s.pc t) = true) (hnw : (s.fr t).nw = some r)
    (hflag : (s.note (s.fr t).note).flag = true) :
    (r ∈ (s.note (s.fr t).note).queue ∧ ∃ u, (s.note (s.fr t).note).lock = some u ∧ u ≠ t)
    ∨ (∃ u, s.post u = some r ∧ (s.note (s.fr t).note).lock = some u)
    ∨ ((s.fr t).sem ≠ none ∧ ∀ j, (s.fr t).sem = some j → 0 < s.sem j) := by
  have hi := inv_of_reachable hc hr
  obtain ⟨hl, ho, hn, -⟩ := hi.a.i1 t r hnw
  have he : enq (s.pc (s.rcd r).owner) = true := by rw [ho]; exact enqNL_enq (asleep_enqNL hS)
  rcases hi.q.q5 r hl he with hm | hw
  · rw [hn] at hm
    left
    refine ⟨hm, ?_⟩
    obtain ⟨h1, h2⟩ := hi.q.k1 _ hflag (List.ne_nil_of_mem hm)
    cases hlk : (s.note (s.fr t).note).lock with
    | none => exact absurd hlk h1
    | some u =>
      refine ⟨u, rfl, ?_⟩
      rintro rfl
      rcases h2 u hlk with h | h
      · have : protoMode (s.pc u) = false := by
          generalize s.pc u = p at hS
          pc_full p <;> first | rfl | exact absurd hS (by decide)
        rw [this] at h; cases h
      · exact h rfl
  · obtain ⟨-, -, h3⟩ := hi.q.q4 r hl hw
    cases hp : (s.rcd r).posted with
    | false =>
      right; left
      have := h3 hp
      exact ⟨_, this, hn ▸ (hi.q.q3 _ _ this).2.2.2.2.1⟩
    | true =>
      right; right
      exact hi.q.l3 t r hS hnw hw hp

/-- the P of sem_wait.c:61 is issued with min (abs_deadline, note expiry) -/
theorem C05_cancel_p_deadline {cfg : Config} {s s' : State} {t : Tid} {j : SemId} {d : Deadline}
    (hc : cfg.noReread = false) (hr : Reachable cfg s) (hpc : s.pc t = .pdEnter)
    (hs : step cfg s (.thr t (.pdEnter j d)) = .ok s') : d = dmin (s.fr t).dl (s.note (s.fr t).note).expiry := by
  have hi := inv_of_reachable hc hr
  rw [(pdEnter_cases hpc hs).1]
  exact (hi.o.p1 t (by rw [hpc]; rfl)).1

/-- ETIMEDOUT from that P: only if the clock has reached min (abs_deadline, note expiry); with abs_deadline
    strictly nearer the call goes on to return ETIMEDOUT, otherwise the outcome is converted to ECANCELED and the
    waiter calls nsync_note_notify (cancel_note) -/
theorem C05_cancel_deadline_bound {cfg : Config} {s s' : State} {t : Tid} {j j' : SemId} (hc : cfg.noReread = false)
    (hr : Reachable cfg s) (hpc : s.pc t = .pdWait j) (hs : step cfg s (.thr t (.pdRet j' true)) = .ok s') :
    expiredB (dmin (s.fr t).dl (s.note (s.fr t).note).expiry) s.now = true
    ∧ (if dlt (s.fr t).dl (s.note (s.fr t).note).expiry
        then s'.pc t = .lk2 ∧ (s'.fr t).out = .timedOut
        else s'.pc t = .nd .l65 .ld0 ∧ (s'.fr t).out = .cancelled) := by
  have hi := inv_of_reachable hc hr
  obtain ⟨h1, h2⟩ := hi.o.p1 t (by rw [hpc]; rfl)
  obtain ⟨-, h⟩ := pdRet_cases hpc hs
  rcases h with ⟨-, hx, h⟩ | ⟨h, -⟩
  · rw [h1] at hx
    refine ⟨hx, ?_⟩
    rcases h with ⟨hn, a, b⟩ | ⟨hn, a, b⟩
    · rw [h2] at hn; rw [if_pos hn]; exact ⟨a, b⟩
    · rw [h2] at hn; rw [if_neg (by simp [hn])]; exact ⟨a, b⟩
  · cases h

/-- after the nsync_note_notify of sem_wait.c:65 (and in general whenever the dequeue part is reached with
    sem_outcome = ECANCELED) the note's flag is set -/
theorem C05_cancel_l65_notified {cfg : Config} {s : State} {t : Tid} (hc : cfg.noReread = false)
    (hr : Reachable cfg s) (hpc : s.pc t = .lk2) (ho : (s.fr t).out = .cancelled) :
    (s.note (s.fr t).note).flag = true := by
  have hi := inv_of_reachable hc hr
  rcases hi.o.o2 t (by rw [hpc]; rfl) ho with h | h
  · exact h
  · have := hi.q.e1 t (by rw [hpc]; rfl)
    rw [this] at h; cases h

/-! ### non-vacuity, and the control -/

namespace ExampleC05

def cfg : Config := { binary := false }
def cfgNoReread : Config := { binary := false, noReread := true }

def mkNote (n : NoteId) (d : Deadline) : List Event := [.thr 9 (.newNote n d)]

/-- first inspection by t at time `now`: not notified, not expired -/
def inspect (t : Tid) (n : NoteId) (dl : Deadline) (now : Nat) : List Event :=
  [.thr t (.callSW n dl), .thr t (.ld .acq (.notified n) .nd 0), .thr t (.lock n),
   .thr t (.ld .acq (.notified n) .nd 0), .thr t (.unlock n), .thr t (.now now)]

/-- `nw.waiting := 1`; lock; re-read: not notified, enqueue; unlock; P (sem j, deadline d) -/
def enqueue (t : Tid) (n : NoteId) (r : Rid) (j : SemId) (d : Deadline) : List Event :=
  [.thr t (.st .rlx (.waiting r) .sw 1 12345),
   .thr t (.lock n), .thr t (.ld .acq (.notified n) .sw 0), .thr t (.unlock n), .thr t (.pdEnter j d)]

/-- nsync_note_notify (n) by u at time `now`, note not yet notified, waiters `rs` with semaphores `js` -/
def notifyHead (u : Tid) (n : NoteId) (now : Nat) : List Event :=
  [.thr u (.ld .acq (.notified n) .nd 0), .thr u (.lock n), .thr u (.ld .acq (.notified n) .nd 0), .thr u (.unlock n),
   .thr u (.now now),
   .thr u (.lock n), .thr u (.ld .acq (.notified n) .notify 0), .thr u (.ld .acq (.notified n) .child 0),
   .thr u (.st .rel (.notified n) .child 1 0)]
def notifyWake (u : Tid) (r : Rid) (j : SemId) : List Event :=
  [.thr u (.st .rel (.waiting r) .child 0 1), .thr u (.semV j)]
def notifyTail (u : Tid) (n : NoteId) : List Event :=
  [.thr u (.muWait n), .thr u (.lock n), .thr u (.unlock n)]

/-- final part of the call: lock, NOTIFIED_TIME (`obs` = the flag), [dequeue], unlock, return -/
def finish (t : Tid) (n : NoteId) (obs : Nat) (o : Outcome) : List Event :=
  [.thr t (.lock n), .thr t (.ld .acq (.notified n) .sw obs), .thr t (.unlock n), .thr t (.retSW o)]

/-- (1) cancel by nsync_note_notify while asleep: the V wakes the P (returns 0); the next call of the wait's
    loop finds the flag at once: ECANCELED -/
def cancelByNotify : List Event :=
  [.tick 5] ++ mkNote 0 none ++ inspect 0 0 none 5 ++ enqueue 0 0 0 7 none
  ++ notifyHead 1 0 5 ++ notifyWake 1 0 7 ++ notifyTail 1 0
  ++ [.thr 0 (.pdRet 7 false)] ++ finish 0 0 1 .ok
  ++ [.thr 0 (.callSW 0 none), .thr 0 (.ld .acq (.notified 0) .nd 1), .thr 0 (.retSW .cancelled)]
example : accepts cfg cancelByNotify = true := by decide
example : accepts { binary := true } cancelByNotify = true := by decide

/-- (2) cancel by expiry: the note's deadline (100) is nearer than abs_deadline (none): the P is issued with 100,
    times out at 100, the waiter notifies the note itself (popping its own record, posting its own semaphore) and
    returns ECANCELED with the flag set -/
def cancelByExpiry : List Event :=
  [.tick 5] ++ mkNote 0 (some 100) ++ inspect 0 0 none 5 ++ enqueue 0 0 0 7 (some 100)
  ++ [.tick 100, .thr 0 (.pdRet 7 true)]
  ++ notifyHead 0 0 100 ++ notifyWake 0 0 7 ++ notifyTail 0 0
  ++ finish 0 0 1 .cancelled
example : accepts cfg cancelByExpiry = true := by decide
example : (final cfg cancelByExpiry).map (fun s => decide ((s.note 0).flag = true ∧ s.pc 0 = .idle ∧ s.sem 7 = 1
    ∧ (s.rcd 0).live = false)) = some true := by decide
/-- the P may not be issued with another deadline, nor time out early -/
example : accepts cfg ([.tick 5] ++ mkNote 0 (some 100) ++ inspect 0 0 none 5 ++ enqueue 0 0 0 7 none) = false := by decide
example : accepts cfg ([.tick 5] ++ mkNote 0 (some 100) ++ inspect 0 0 none 5 ++ enqueue 0 0 0 7 (some 100)
  ++ [.tick 99, .thr 0 (.pdRet 7 true)]) = false := by decide

/-- (3) timeout: abs_deadline (50) nearer than the note's (100): ETIMEDOUT at 50, dequeue, return -/
def timeout : List Event :=
  [.tick 5] ++ mkNote 0 (some 100) ++ inspect 0 0 (some 50) 5 ++ enqueue 0 0 0 7 (some 50)
  ++ [.tick 50, .thr 0 (.pdRet 7 true)] ++ finish 0 0 0 .timedOut
example : accepts cfg timeout = true := by decide
example : (final cfg timeout).map (fun s => decide ((s.note 0).flag = false ∧ (s.note 0).queue = [] ∧ s.pc 0 = .idle))
    = some true := by decide
/-- … it cannot be reported as ECANCELED -/
example : accepts cfg ([.tick 5] ++ mkNote 0 (some 100) ++ inspect 0 0 (some 50) 5 ++ enqueue 0 0 0 7 (some 50)
  ++ [.tick 50, .thr 0 (.pdRet 7 true)] ++ finish 0 0 0 .cancelled) = false := by decide

/-- (4) plain wake-up: a V of another layer (cv signal, mutex hand-off) by thread 2: 0, dequeue, return -/
def wakeup : List Event :=
  [.tick 5] ++ mkNote 0 none ++ inspect 0 0 none 5 ++ enqueue 0 0 0 7 none
  ++ [.thr 2 (.semV 7), .thr 0 (.pdRet 7 false)] ++ finish 0 0 0 .ok
example : accepts cfg wakeup = true := by decide
/-- no 0 without a token -/
example : accepts cfg ([.tick 5] ++ mkNote 0 none ++ inspect 0 0 none 5 ++ enqueue 0 0 0 7 none
  ++ [.thr 0 (.pdRet 7 false)]) = false := by decide

/-- (5) notify racing the enqueue: the note is notified between the first inspection and the lock of
    sem_wait.c:48; the re-read under note_mu sees it: no enqueue, ECANCELED -/
def raceHead : List Event :=
  [.tick 5] ++ mkNote 0 none ++ inspect 0 0 none 5 ++ [.thr 0 (.st .rlx (.waiting 0) .sw 1 12345)]
  ++ notifyHead 1 0 5 ++ notifyTail 1 0
  ++ [.thr 0 (.lock 0), .thr 0 (.ld .acq (.notified 0) .sw 1), .thr 0 (.unlock 0)]
def raceEnqueue : List Event := raceHead ++ [.thr 0 (.retSW .cancelled)]
example : accepts cfg raceEnqueue = true := by decide

/-- (6) a cancel note born notified: nsync_note_new (parent 1, inf) after note 1 has been notified sets the flag of
    the fresh note 0 under the parent's mutex (repair of F5); a wait with it returns ECANCELED at the first
    inspection, nothing is enqueued -/
def bornNotified : List Event :=
  [.tick 5] ++ mkNote 1 none ++ notifyHead 1 1 5 ++ notifyTail 1 1
  ++ [.thr 2 (.newNote 0 none), .thr 2 (.inherit 0 1), .thr 2 (.lock 1), .thr 2 (.ld .acq (.notified 1) .other 1),
      .thr 2 (.bornNotified 0 1 1 0), .thr 2 (.unlock 1)]
  ++ [.thr 0 (.callSW 0 none), .thr 0 (.ld .acq (.notified 0) .nd 1), .thr 0 (.retSW .cancelled)]
example : accepts cfg bornNotified = true := by decide
example : (final cfg bornNotified).map (fun s => decide ((s.note 0).flag = true ∧ (s.note 0).queue = [] ∧ s.pc 0 = .idle))
    = some true := by decide
/-- … only under a parent that IS notified, and only while nobody uses the note -/
example : accepts cfg ([.tick 5] ++ mkNote 1 none ++ [.thr 2 (.newNote 0 none), .thr 2 (.lock 1),
    .thr 2 (.bornNotified 0 1 1 0)]) = false := by decide

/-- CONTROL: the variant without the re-read enqueues and sleeps: accepted by the variant, and the final state
    violates `C05_cancel_no_missed` — asleep on a notified note, record on the list, note_mu free, no post
    pending, no token -/
def lost : List Event := raceHead ++ [.thr 0 (.pdEnter 7 none)]
example : accepts cfgNoReread lost = true := by decide
example : (final cfgNoReread lost).map (fun s => decide (asleep (s.pc 0) = true ∧ (s.fr 0).nw = some 0
    ∧ (s.note 0).flag = true ∧ (s.note 0).queue = [0] ∧ (s.note 0).lock = none ∧ s.post 1 = none ∧ s.post 0 = none
    ∧ (s.fr 0).sem = some 7 ∧ s.sem 7 = 0)) = some true := by decide
/-- under the acceptor of the code the same events do not put the thread to sleep: the re-read sent it to the
    return (program point `ret`, nothing enqueued; the `pd_enter` line is then a P of another layer), and the
    trace continues with `ret ECANCELED` (`raceEnqueue`) -/
theorem lost_not_asleep : (final cfg lost).map (fun s => decide (s.pc 0 = .ret ∧ asleep (s.pc 0) = false
    ∧ (s.note 0).queue = [] ∧ (s.fr 0).out = .cancelled)) = some true := by decide

end ExampleC05

end SemWait
