/-
  Property C13, condition-variable part.

  "no waker accesses the bookkeeping of an nsync_wait_n or cancellable wait after that call can
   have returned, so the caller's stack frame may be reused immediately."

  Model: `NsyncVerif/Model/Cv.lean`.  Every step carries the ghost label `touches s e`: the records
  whose memory the step reads or writes (the `waiting` flag, `remove_count`, `flags` / `l_type` /
  `cv_mu`, the dll links of the element and of its neighbours — over-approximated by the whole
  list the element is on —, and the read of `p_nw->sem` for the V of wake_waiters, cv.c:145).
  Quantifier: all reachable states, all events, both semaphore flavours.

  WHAT IS TRUE OF THE CODE, AND WHAT IS NOT
  * Pooled waiters (`Rid.w`: every nsync_cv_wait*, including the cancellable ones — the stack
    record of nsync_sem_wait_with_cancel_ hangs on the NOTE's list and is the note layer's
    business): `C13_record_touch`, proved in full.  Whenever cv.c code run by a thread that is
    not the record's owner touches a pooled record, the record is in the cv queue, or on that
    thread's private `to_wake_list`, or is the record that thread is posting (between its
    `waiting := 0` and its V).  In the last case the owner may already have left — the V reads
    `p_nw->sem` of a pooled struct, which is never freed: safe.
    `C13_owner_returns_clean`: when the wait loop is left the record is in no queue and on no
    waker's list.
  * Records of nsync_wait_n (`Rid.nw`, `Rid.nwa`: stack frame / heap array of the caller): the
    property is FALSE on the current code, in two ways, both exhibited as accepted traces:
      - `C13_nw_store_after_return` (defect F3, first window): `cv_dequeue` believes a record is
        still queued although a waker has unlinked it; the call returns; the waker then executes
        `ATM_STORE_REL (&p_nw->waiting, 0)` (cv.c:144) into the dead frame and reads `p_nw->sem`
        from it.  Harness: corpus scenario `f3_waitn_cv`, oracle `dead-object`.
      - `C13_nw_sem_read_after_return` (second window, no timeout involved): after the waker's
        `ATM_STORE_REL (&p_nw->waiting, 0)` nothing keeps the owner inside nsync_wait_n — if it
        has not gone to sleep yet it sees `waiting == 0`, dequeues and returns — while the waker
        still has to evaluate `p_nw->sem` (cv.c:145) from the record.
    `C13_record_touch_nw_full` is the statement; `C13_record_touch_nw_full_false` its refutation.

  Status: `C13_record_touch`, `C13_owner_returns_clean` proved in full; the nw statement refuted.
-/
import NsyncVerif.Proofs.CvTouch
import NsyncVerif.Props.C04

namespace NsyncVerif.Cv

/-- Pooled records: every touch by cv.c code of a non-owner happens while the record is registered
    with the acting thread.  (The owner is taken after the step: the first store of a wait,
    cv.c:196, is what makes the storing thread the owner.) -/
theorem C13_record_touch {cfg : Config} {s s' : State} {e : Event} {r : Rid} {u : Tid}
    (h : Reachable cfg s) (hs : step cfg s e = .ok s') (hr : r ∈ touches s e) (hu : e.tid = some u)
    (hk : r.isMucv = true) (ho : (s'.recs r).owner ≠ u) :
    r ∈ s.queue ∨ r ∈ (s.thr u).list ∨ ∃ q, (s.thr u).cur = some (r, q) :=
  touch_registered (inv_reachable h) (step_tr hs) r hr u hu hk ho

/-- … and a pooled record that is on a waker's list still has `waiting = 1`: its owner is inside
    the wait loop (it cannot leave before `waiting` is cleared), so the STORE of wake_waiters goes
    to a record whose owner has not moved on. -/
theorem C13_listed_owner_waits {cfg : Config} {s : State} {r : Rid} {u : Tid} (h : Reachable cfg s)
    (hr : r ∈ (s.thr u).list) (hk : r.isMucv = true) : (s.recs r).waiting = true := by
  have hi := inv_reachable h
  exact hi.b.lWait r u ((hi.a.lMem u r).mp hr) (.inl hk)

/-- When a cv wait leaves its loop (cv.c:244 observes `waiting == 0`) its record is in no queue and
    on no waker's private list.  From there to the `ret` the call does not touch the record again
    (the acceptor has no record event at the program points after the loop). -/
theorem C13_owner_returns_clean {cfg : Config} {s s' : State} {t : Tid} {r : Rid} (h : Reachable cfg s)
    (hs : step cfg s (.recLd t .wHead r 0) = .ok s') :
    r ∉ s'.queue ∧ (∀ u, r ∉ (s'.thr u).list) ∧ (s'.recs r).stat = .idle := by
  obtain ⟨_, _, hst, _⟩ := wHead_exit_accepted hs
  have hi := (inv_reachable (reachable_step h hs)).a
  refine ⟨?_, ?_, hst⟩
  · intro hm; have := (hi.qMem r).mp hm; rw [hst] at this; cases this
  · intro u hm; have := (hi.lMem u r).mp hm; rw [hst] at this; cases this

/-- The claim for the records of nsync_wait_n: a non-owner touches them only while the owner's
    call is still in progress. -/
def C13_record_touch_nw_full : Prop :=
  ∀ (cfg : Config) (s s' : State) (e : Event) (r : Rid) (u : Tid), Reachable cfg s → step cfg s e = .ok s' →
    r ∈ touches s e → e.tid = some u → r.isMucv = false → (s'.recs r).owner ≠ u → alive s r = true

/-- F3, first window, continued until the owner has returned. -/
def f3ReturnTrace : List Event := [
  .tick 100, .callWaitN 0, .nwInit 0 (.nw 0),
  .wordLd 0 .spin0 0, .wordCas 0 0 1 0 true, .recSt 0 .enqSt (.nw 0) 1 0, .wordSt 0 .enqRel 2 1,
  .recLd 0 .ready (.nw 0) 1, .semPdEnter 0 0 (some 200),
  .callBroadcast 1, .wordLd 1 .bcLd 2, .wordLd 1 .spin0 2, .wordCas 1 2 3 2 true, .wordSt 1 .bcRel 0 3,
  .tick 200, .semPdRet 0 0 true,
  .wordLd 0 .spin0 0, .wordCas 0 0 1 0 true, .recLd 0 .deqLd (.nw 0) 1, .recSt 0 .deqSt (.nw 0) 0 1,
  .wordSt 0 .deqRel 0 1, .retWaitN 0]

/-- After `f3ReturnTrace` thread 0 is back in its caller, and the acceptor (like the code) lets
    thread 1 store into the record `nw0` of the finished call. -/
theorem C13_nw_store_after_return :
    okRun ⟨false⟩ f3ReturnTrace = true ∧
    ((runD ⟨false⟩ f3ReturnTrace).thr 0).loc = .idle ∧
    okRun ⟨false⟩ (f3ReturnTrace ++ [.recSt 1 .wake (.nw 0) 0 0, .semV 1 0, .retBroadcast 1]) = true ∧
    (.nw 0) ∈ touches (runD ⟨false⟩ f3ReturnTrace) (.recSt 1 .wake (.nw 0) 0 0) ∧
    alive (runD ⟨false⟩ f3ReturnTrace) (.nw 0) = false := by decide

/-- Second window: no timeout at all.  The waker stores `waiting := 0`; the owner, which has not
    gone to sleep yet, sees it, dequeues (nothing to do) and returns; the waker then reads
    `p_nw->sem` from the record for its V. -/
def semReadTrace : List Event := [
  .tick 100, .callWaitN 0, .nwInit 0 (.nw 0),
  .wordLd 0 .spin0 0, .wordCas 0 0 1 0 true, .recSt 0 .enqSt (.nw 0) 1 0, .wordSt 0 .enqRel 2 1,
  .callBroadcast 1, .wordLd 1 .bcLd 2, .wordLd 1 .spin0 2, .wordCas 1 2 3 2 true, .wordSt 1 .bcRel 0 3,
  .recSt 1 .wake (.nw 0) 0 1,
  .recLd 0 .ready (.nw 0) 0,
  .wordLd 0 .spin0 0, .wordCas 0 0 1 0 true, .recLd 0 .deqLd (.nw 0) 0, .wordSt 0 .deqRel 0 1, .retWaitN 0]

theorem C13_nw_sem_read_after_return :
    okRun ⟨false⟩ semReadTrace = true ∧ (runD ⟨false⟩ semReadTrace).f3 = false ∧
    ((runD ⟨false⟩ semReadTrace).thr 0).loc = .idle ∧
    okRun ⟨false⟩ (semReadTrace ++ [.semV 1 0, .retBroadcast 1]) = true ∧
    (.nw 0) ∈ touches (runD ⟨false⟩ semReadTrace) (.semV 1 0) ∧
    alive (runD ⟨false⟩ semReadTrace) (.nw 0) = false := by decide

theorem C13_record_touch_nw_full_false : ¬ C13_record_touch_nw_full := by
  intro h
  have hrun : okRun ⟨false⟩ (semReadTrace ++ [.semV 1 0]) = true := by decide
  have hstep : step ⟨false⟩ (runD ⟨false⟩ semReadTrace) (.semV 1 0) = .ok (runD ⟨false⟩ (semReadTrace ++ [.semV 1 0])) := by
    have h1 := run_runD hrun
    rw [run_append, run_runD (by decide : okRun ⟨false⟩ semReadTrace = true)] at h1
    exact h1
  have := h ⟨false⟩ _ _ (.semV 1 0) (.nw 0) 1 (reachable_runD (by decide)) hstep (by decide) rfl rfl (by decide)
  revert this
  decide

/-- Non-vacuity of `C13_record_touch`: in `semReadTrace`-like runs with a pooled record the V of the
    waker touches the record while it is the waker's `cur`. -/
example : okRun ⟨false⟩ (exBroadcast.take 22) = true ∧
    (.w 0) ∈ touches (runD ⟨false⟩ (exBroadcast.take 22)) (.semV 1 0) ∧
    ((runD ⟨false⟩ (exBroadcast.take 22)).thr 1).cur = some (.w 0, 0) := by decide

end NsyncVerif.Cv
