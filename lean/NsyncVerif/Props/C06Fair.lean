import NsyncVerif.Props.C06
import NsyncVerif.Proofs.MuCFairMain
import NsyncVerif.Proofs.MuCFairFinite
import NsyncVerif.Proofs.MuCFairStraight2
import NsyncVerif.Proofs.MuCFairWit
import NsyncVerif.Proofs.MuCFairLasso
/-!
# C06 / C02, liveness for ALL fair schedules on a mutex with conditional critical sections —
# "nsync_mu_wait returns once its condition has been made true; every lock / unlock call returns"

Model `NsyncVerif.Model.MuC`.  Pattern: `Props/C02Progress.lean` + `Props/C02Fair.lean` (model MuQ).
Definitions: `Proofs/MuCFairDefs.lean`.  Any number of threads, both semaphore flavours.

## STATUS: PARTIAL.  `C06_fair_termination_full` is STATED at full strength and NOT PROVED.

What is missing, exactly: `C06_fair_finite_steps_full` (Proofs/MuCFairFinite.lean) — in an execution that satisfies the
hypotheses only finitely many steps of the library happen (a pure termination statement about the loops of mu.c /
mu_wait.c: spinlock acquisition, CAS retries, the wait loops, the scan of unlock_slow; the analogue of steps A–F of
Props/C02Fair.lean, for which the MuQ development needed `Own`, `stage`, the solo ranks and the "point of no return"
lemmas — none of which exists for MuC yet).  Everything from there to the theorem IS proved:

    C06_fair_finite_steps_full  ⟹  C06_fair_quiescence_or_sleepers_full  ⟹  C06_fair_termination_full
        (`C06_fair_settled_of_finite_steps`)            (`C06_fair_termination_of_settled`)

## The statement (`C06_fair_termination_full`)

For every infinite execution `x : Exec cfg s0` (`σ i = none`: nobody moves at time `i`) with `FairHyps x`:
* `Reachable cfg s0`;
* `WeakFair`       a thread that from some time on is inside a call and not asleep (`AsleepOnSem`: in the P of
                   lock_slow with count 0, or in a timed P of nsync_mu_wait with count 0 whose deadline — if any —
                   the clock has not reached) takes a step OF THE LIBRARY: client data reads (`dataR`, which the
                   acceptor accepts from any thread at any time) do not count;
* `HoldersRelease` every thread that holds the mutex makes a call (after the last arrival: a release);
* `FiniteArrivals` finitely many lock / rlock / trylock / rtrylock / nsync_mu_wait calls;
* `FiniteRcFails`  finitely many failed CASes on a `remove_count` (both sites: unlock_slow, mu_try_acquire_after_timeout);
* `ContractKept`   `WithoutWakeupContract` in every state;
* `ClockAdvances`  the clock passes every finite deadline a sleeper waits for;
and the two hypotheses the MODEL needs on top of those asked for (each shown necessary below):
* `FiniteEnvPosts` finitely many semaphore posts from outside the mutex (`envV`): a timed P whose deadline has passed may
                   still return 0 when the count is non-zero, so a waiter posted again and again never takes its timeout;
* `NoteHonoured`   nsync_sem_wait_with_cancel_ is not inside a P once it has seen its note notified, and does not look at
                   the note again after that (the traffic on the note is abstract in the model; the acceptor accepts both);
every thread `t` inside a call at time `i` returns (`∃ j ≥ i, pc t = idle`) provided `MustReturn x t i`: unconditionally for
lock / rlock / trylock / rtrylock / unlock / runlock / unlock_without_wakeup (`PC.mw = none`); for
nsync_mu_wait_with_deadline with locals `c` if `c.dl ≠ none` (finite deadline), or at some time `≥ i` the call has seen its
cancel note notified (`MW.saw`, set by `noteSeen` / `noteNotify` — the model has no other notion of "the note is notified"),
or its condition, if any, is true on the protected data from some time on (`∀ cd, c.cond = some cd → ∃ n, ∀ j ≥ n,
evalCond (x.ρ j).data cd = true`).

## Machine-checked here

THE REDUCTION (the proof of the theorem, from the two open statements)
* `C06_fair_termination_of_settled`   `C06_fair_quiescence_or_sleepers_full → C06_fair_termination_full`
* `C06_fair_termination_partial`      the same for ONE execution: if it settles (`SettledFrom x n`: from time `n` on every
  thread is idle holding nothing or asleep, i.e. `Quiescent`), the conclusion of the theorem holds for it.  Uses only
  `Reachable`, `ContractKept`, `NoteHonoured`.  Proof: `C06_no_stuck_state` in the settled states (the only sleepers are
  nsync_mu_wait waiters in a P WITHOUT deadline, queued, whose condition is false on the data), and three new invariants:
  - `keep_step` (Proofs/MuCFairKeep*.lean): condition, deadline and note of the nsync_mu_wait call in progress never change,
    `saw` is never reset, a thread inside another call never gets inside nsync_mu_wait without returning;
  - `reachable_okD`: the deadline of a timed P is not later than the deadline of the call (so a P without deadline means a
    call without deadline);
  - `reachable_pd_cond` / `InvRC` (Proofs/MuCFairRec*.lean): from the store `waiting := 1` of mu_wait.c:198 until the
    thread re-contends, the condition stored in its waiter record IS the condition of the call.
* `C06_fair_settled_of_finite_steps`  `C06_fair_finite_steps_full → C06_fair_quiescence_or_sleepers_full`: an execution in
  which no thread takes a library step any more has settled (here `WeakFair`, `HoldersRelease`, `ClockAdvances`,
  `FiniteEnvPosts` are used: nobody can be awake inside a call, idle holding the mutex, or in a P with a finite deadline).
* `C06_fair_termination_of_finite_steps`  the composition.

WEAK FAIRNESS ALONE (no other hypothesis; Proofs/MuCFairStraight*.lean, `fair_exit`: a thread leaves every region of
program points without idle point, sleep point and loop)
* `C06_fair_trylock_returns`        nsync_mu_trylock / nsync_mu_rtrylock are wait-free: the call returns.
* `C06_fair_return_point`           a thread at the return point of any call returns.
* `C06_fair_wakes_delivered`        after the final CAS of unlock_slow the thread clears `waiting` of and posts every
                                    waiter on its wake list and comes back to its caller.
* `C06_fair_past_release_returns`   hence a thread inside unlock / runlock / unlock_without_wakeup past that CAS returns.
* `C06_fair_wait_null_returns`      nsync_mu_wait_with_deadline with a NULL condition returns at once.

NON-VACUITY  `nwExec` = the harness trace `traceNoWakeup` (Props/C06.lean) followed by idling: `nw_hyps : FairHyps nwExec`;
thread 0 calls nsync_mu_wait (x0 == 1) at time 3, really sleeps (count 0, condition false, queued) at time 14, its
condition is made true at time 49 (`nw_must : MustReturn nwExec 0 5`), and it returns at time 73.

EACH HYPOTHESIS IS NEEDED (explicit executions; in each ALL the other hypotheses hold, the proviso `MustReturn` holds for
the call shown, and the call never returns)
* `C06_fair_needs_proviso`    `falseExec`: a waiter without deadline and note whose condition stays false sleeps for ever
                              (here `MustReturn` fails, everything else holds): the proviso cannot be dropped.
* `C06_fair_needs_release`    `heldExec`: a holder that never calls again, a thread asleep inside nsync_mu_lock.
* `C06_fair_needs_clock`      `clockExec`: nsync_mu_wait_with_deadline, deadline 5, the clock stays at 0.
* `C06_fair_needs_note`       `noteExec`: the note is seen notified, then a P without deadline is started (1st clause).
* `C06_fair_needs_note2`      `spinExec` (lasso): `noteSeen` for ever (2nd clause; the 1st holds).
* `C06_fair_needs_rc`         `rcExec` (lasso): the unlocker's CAS on `remove_count` fails and it re-loads, for ever.
* `C06_fair_needs_env_posts`  `envExec` (lasso): deadline passed (`ClockAdvances` holds), but the environment posts the
                              semaphore before every P and the P returns 0 each time.
* `C06_fair_needs_arrivals`   `bargeExec` (lasso of period 8, as in Props/C02Fair.lean): lock/unlock pairs on the fast paths
                              between a contender's load and its enqueue CAS.
(`WeakFair` is trivially needed.  `ContractKept` is the hypothesis of `C06_no_stuck_state`; see `traceNwViol`, Props/C06.lean.)

## Findings / remarks

* The statement as asked for is FALSE in this model without `FiniteEnvPosts` and `NoteHonoured` (witnesses above); both are
  looseness of the acceptor (a semaphore that prefers the count to the deadline; the abstract note), not defects of the code.
* `dataR` events are accepted from threads inside a call; a fairness notion that counted them as the thread's step would be
  vacuous.  `WeakFair` asks for a library step.
* NOT proved for MuC: the analogue of `C02_thread_enabled` (the acceptor blocks a thread ONLY in `AsleepOnSem`); it would
  need panic-freedom of the scan (`scanRun`) and a supply of free waiter records.  Without it `WeakFair` is a hypothesis on
  the execution like the others (an execution in which an awake thread has no accepted library step is simply not fair).
* Point to watch in a future proof of `C06_fair_finite_steps_full`: mu_try_acquire_after_timeout_or_cancel spins while
  MU_LONG_WAIT is set (MU_WZERO_TO_ACQUIRE), and only the thread that set the bit clears it.  A timed-out waiter that is
  woken (designated) while it spins, with the long-waiter queued behind it, would deadlock the mutex; I could not construct
  such a state (the long-waiter always re-queues at the front and its enqueue CAS clears MU_DESIG_WAKER; a writer that could
  falsify/validate conditions cannot get in while the bit is set), nor is its absence implied by the invariants proved so
  far (`RespT` counts a spinning timed-out waiter as responsible).
-/
namespace NsyncVerif.MuC

/-- The reduction, as a statement about the two `_full` statements. -/
theorem C06_fair_termination_of_settled : C06_fair_quiescence_or_sleepers_full → C06_fair_termination_full := by
  intro hq cfg s0 x hy t i hm
  obtain ⟨n, hs⟩ := hq cfg s0 x hy
  exact fair_termination_of_settled x hy.reach hy.contract hy.note hs t i hm

/-- PROVED PART of `C06_fair_termination_full`: for executions that settle. -/
theorem C06_fair_termination_partial {cfg : Cfg} {s0 : State} (x : Exec cfg s0) (hr : Reachable cfg s0)
    (hc : ContractKept x) (hn : NoteHonoured x) (hs : ∃ n, SettledFrom x n) :
    ∀ t i, MustReturn x t i → ∃ j, i ≤ j ∧ (x.ρ j).pc t = .idle := by
  intro t i hm
  obtain ⟨n, hs⟩ := hs
  exact fair_termination_of_settled x hr hc hn hs t i hm

/-- An execution in which only finitely many library steps happen settles. -/
theorem C06_fair_settled_of_finite_steps : C06_fair_finite_steps_full → C06_fair_quiescence_or_sleepers_full := by
  intro hfin cfg s0 x hy
  obtain ⟨N, hN⟩ := hfin cfg s0 x hy
  exact settled_of_no_steps x hy hN

theorem C06_fair_termination_of_finite_steps : C06_fair_finite_steps_full → C06_fair_termination_full :=
  fun h => C06_fair_termination_of_settled (C06_fair_settled_of_finite_steps h)

/-! ## weak fairness alone -/

/-- nsync_mu_trylock / nsync_mu_rtrylock are wait-free. -/
theorem C06_fair_trylock_returns {cfg : Cfg} {s0 : State} (x : Exec cfg s0) (hf : WeakFair x) (t : Tid) (i : Nat)
    (h : tryPc ((x.ρ i).pc t)) : ∃ j, i ≤ j ∧ (x.ρ j).pc t = .idle :=
  fair_trylock x hf t i h

/-- A thread at the return point of a call returns. -/
theorem C06_fair_return_point {cfg : Cfg} {s0 : State} (x : Exec cfg s0) (hf : WeakFair x) (t : Tid) (i : Nat)
    (h : retPc ((x.ρ i).pc t)) : ∃ j, i ≤ j ∧ (x.ρ j).pc t = .idle :=
  fair_ret x hf t i h

/-- After the final CAS of unlock_slow every waiter on the wake list is released and posted, and the thread comes back to
    its caller (`r.pc`: the return point of unlock / runlock / unlock_without_wakeup, or the wait loop of nsync_mu_wait). -/
theorem C06_fair_wakes_delivered {cfg : Cfg} {s0 : State} (x : Exec cfg s0) (hf : WeakFair x) (t : Tid) (r : Ret) (i : Nat)
    (h : wakePc r ((x.ρ i).pc t)) : ∃ j, i ≤ j ∧ (x.ρ j).pc t = r.pc :=
  fair_wakes x hf t r i h

theorem C06_fair_past_release_returns {cfg : Cfg} {s0 : State} (x : Exec cfg s0) (hf : WeakFair x) (t : Tid) (l : Mode)
    (nw : Bool) (i : Nat) (h : wakePc (.ul l nw) ((x.ρ i).pc t)) : ∃ j, i ≤ j ∧ (x.ρ j).pc t = .idle :=
  fair_past_release x hf t l nw i h

/-- nsync_mu_wait_with_deadline with a NULL condition returns at once. -/
theorem C06_fair_wait_null_returns {cfg : Cfg} {s0 : State} (x : Exec cfg s0) (hf : WeakFair x) (t : Tid) (c : MW) (i : Nat)
    (h : (x.ρ i).pc t = .mwLd0 c) (hc : c.cond = none) : ∃ j, i ≤ j ∧ (x.ρ j).pc t = .idle :=
  fair_wait_null x hf t c i h hc

/-! ## non-vacuity -/

def cd0 : Cond := { fn := .eq, k := 0, var := 0, val := 1, hasEq := false }

set_option maxRecDepth 4096 in
theorem nw_accepts : acceptsF ⟨false⟩ traceNoWakeup = true := by decide

def nwFinal : State := stateAt ⟨false⟩ traceNoWakeup traceNoWakeup.length

theorem nw_run : run ⟨false⟩ init traceNoWakeup = .ok nwFinal := run_of_accepts nw_accepts

/-- `traceNoWakeup` (Props/C06.lean), then nothing for ever. -/
def nwExec : Exec ⟨false⟩ init := traceExec ⟨false⟩ traceNoWakeup nwFinal nw_run

set_option maxRecDepth 4096 in
/-- `nwExec` satisfies every hypothesis of `C06_fair_termination_full` … -/
theorem nw_hyps : FairHyps nwExec :=
  trace_fairHyps nw_run (T := 2) (by decide) (by decide) (by decide) (by decide) (by decide) (by decide)

set_option maxRecDepth 4096 in
/-- … thread 0 calls nsync_mu_wait (x0 == 1, no deadline, no note) at time 3 and at time 14 really sleeps on its
    semaphore (count 0) with a false condition, queued; the condition is made true at time 49 … -/
example : nwExec.σ 3 = some (.call 0 (.wait (some cd0) none false)) ∧ asleepSemB (nwExec.ρ 14) 0 = true ∧
    (nwExec.ρ 14).queue = [0] ∧ evalCond (nwExec.ρ 14).data cd0 = false ∧ nwExec.σ 49 = some (.dataW 1 0 1) := by
  decide

set_option maxRecDepth 4096 in
/-- … so the proviso of the theorem holds for that call … -/
theorem nw_must : MustReturn nwExec 0 5 := by
  intro c hc
  right; right
  intro cd hcd
  have h5 : ((nwExec.ρ 5).pc 0).mw.map (·.cond) = some (some cd0) := by decide
  rw [hc] at h5
  simp only [Option.map_some, Option.some.injEq] at h5
  have e : cd = cd0 := by rw [hcd] at h5; exact Option.some.inj h5
  subst e
  exact ⟨50, fun j hj => allStates_from nw_run (f := fun s => evalCond s.data cd0) 50 (by decide) j hj⟩

set_option maxRecDepth 4096 in
/-- … and in the trace the call returns (time 73), as the theorem says it must. -/
example : (nwExec.ρ 74).pc 0 = .idle ∧
    nwExec.σ 73 = some (.ret 0 (.wait (some cd0) none false) (.outc .ok)) := by decide

/-! ## the proviso of `MustReturn` is needed: a waiter whose condition stays false sleeps for ever -/

def traceFalse : List Event := traceNoWakeup.take 44

set_option maxRecDepth 4096 in
theorem false_accepts : acceptsF ⟨false⟩ traceFalse = true := by decide

def falseFinal : State := stateAt ⟨false⟩ traceFalse traceFalse.length

theorem false_run : run ⟨false⟩ init traceFalse = .ok falseFinal := run_of_accepts false_accepts

def falseExec : Exec ⟨false⟩ init := traceExec ⟨false⟩ traceFalse falseFinal false_run

def sawB (s : State) (t : Tid) : Bool :=
  match (s.pc t).mw with
  | some c => !c.saw
  | none => true

set_option maxRecDepth 4096 in
/-- All hypotheses hold; thread 0 is inside nsync_mu_wait (no deadline, no note, condition false for ever: the two
    write sections that follow end with nsync_mu_unlock_without_wakeup and leave it false) and never returns. -/
theorem C06_fair_needs_proviso :
    FairHyps falseExec ∧ ¬ MustReturn falseExec 0 14 ∧ ∀ j, 14 ≤ j → (falseExec.ρ j).pc 0 ≠ .idle := by
  have hy : FairHyps falseExec :=
    trace_fairHyps false_run (T := 2) (by decide) (by decide) (by decide) (by decide) (by decide) (by decide)
  refine ⟨hy, ?_, ?_⟩
  · intro hm
    have hmw : ((falseExec.ρ 14).pc 0).mw.isSome = true := by decide
    obtain ⟨c, hc⟩ := Option.isSome_iff_exists.mp hmw
    have hdl : ((falseExec.ρ 14).pc 0).mw.map (·.dl) = some none := by decide
    have hcd : ((falseExec.ρ 14).pc 0).mw.map (·.cond) = some (some cd0) := by decide
    rw [hc] at hdl hcd
    simp only [Option.map_some, Option.some.injEq] at hdl hcd
    rcases hm c hc with h | ⟨j, c', _, hmw', hsaw⟩ | h
    · exact h hdl
    · have := trace_all false_run (T := 2) (by decide) sawB (fun s t h => by simp [sawB, h, PC.mw]) (by decide) j 0
      have hmw'' : ((stateAt ⟨false⟩ traceFalse j).pc 0).mw = some c' := hmw'
      simp [sawB, hmw'', hsaw] at this
    · obtain ⟨n, hn⟩ := h cd0 hcd
      have := hn (max n traceFalse.length) (by omega)
      have e : falseExec.ρ (max n traceFalse.length) = falseFinal :=
        (traceExec_tail false_run (show traceFalse.length ≤ max n traceFalse.length by omega)).1
      rw [e] at this
      have hf : evalCond falseFinal.data cd0 = false := by decide
      rw [hf] at this; cases this
  · intro j hj
    have := allStates_from false_run (f := fun s => !decide (s.pc 0 = .idle)) 14 (by decide) j hj
    show (stateAt ⟨false⟩ traceFalse j).pc 0 ≠ .idle
    simpa using this

/-! ## `HoldersRelease` is needed

Thread 1 acquires and never calls again; thread 0 calls nsync_mu_lock, queues itself and sleeps; then nothing happens
for ever.  (The first 14 events of `traceLongWait` without thread 1's call of nsync_mu_unlock.) -/

def traceHeld : List Event := traceLongWait.take 3 ++ (traceLongWait.drop 4).take 10

set_option maxRecDepth 4096 in
theorem held_accepts : acceptsF ⟨false⟩ traceHeld = true := by decide

def heldFinal : State := stateAt ⟨false⟩ traceHeld traceHeld.length

theorem held_run : run ⟨false⟩ init traceHeld = .ok heldFinal := run_of_accepts held_accepts

def heldExec : Exec ⟨false⟩ init := traceExec ⟨false⟩ traceHeld heldFinal held_run

def isCall1 : Event → Bool
  | .call 1 _ => true
  | _ => false

set_option maxRecDepth 4096 in
theorem C06_fair_needs_release :
    WeakFair heldExec ∧ FiniteArrivals heldExec ∧ FiniteRcFails heldExec ∧ FiniteEnvPosts heldExec ∧ NoteHonoured heldExec ∧
      ContractKept heldExec ∧ ClockAdvances heldExec ∧ ¬ HoldersRelease heldExec ∧
      MustReturn heldExec 0 4 ∧ (heldExec.ρ 4).pc 0 ≠ .idle ∧ ∀ j, 4 ≤ j → (heldExec.ρ j).pc 0 ≠ .idle := by
  have hT : tidsBelow 2 traceHeld = true := by decide
  obtain ⟨a, b, c, d⟩ := trace_fair4 held_run hT (by decide)
  have hnever : ∀ j, 4 ≤ j → (heldExec.ρ j).pc 0 ≠ .idle := by
    intro j hj
    have := allStates_from held_run (f := fun s => !decide (s.pc 0 = .idle)) 4 (by decide) j hj
    show (stateAt ⟨false⟩ traceHeld j).pc 0 ≠ .idle
    simpa using this
  refine ⟨a, b, c, d, trace_note held_run hT (by decide) (by decide), trace_contract held_run (by decide),
    trace_clock held_run hT (by decide), ?_, ?_, hnever 4 (Nat.le_refl _), hnever⟩
  · intro hh
    have hheld : (heldExec.ρ 3).held 1 ≠ none := by decide
    obtain ⟨j, ap, hj, hσ⟩ := hh 1 3 hheld
    have hσ' : traceHeld[j]? = some (.call 1 ap) := hσ
    have hall : (traceHeld.drop 3).all (fun e => !isCall1 e) = true := by decide
    have hmem : Event.call 1 ap ∈ traceHeld.drop 3 := by
      have : (traceHeld.drop 3)[j - 3]? = some (.call 1 ap) := by
        rw [List.getElem?_drop, show 3 + (j - 3) = j by omega]; exact hσ'
      exact List.mem_of_getElem? this
    have := (List.all_eq_true.mp hall) _ hmem
    simp [isCall1] at this
  · intro c hc
    have : ((heldExec.ρ 4).pc 0).mw = none := by decide
    rw [this] at hc; cases hc

/-! ## `ClockAdvances` is needed

Thread 0 calls nsync_mu_wait_with_deadline (x0 == 1, deadline 5) at clock 0, finds the condition false, queues itself,
releases and sleeps in its timed P; the clock never moves. -/

def traceClock : List Event := [
 .call 0 .lock,
 .cas 0 .acq .word 0 1 0 true,
 .ret 0 .lock .void,
 .call 0 (.wait (some cd0) (some 5) false),
 .ld 0 .rlx .word 1,
 .cond 0 .eq 0 false,
 .st 0 .rlx (.waiting 0) 1 0,
 .ld 0 .rlx (.rc 0) 0,
 .ld 0 .rlx .word 1,
 .cas 0 .acq .word 1 23 1 true,
 .ld 0 .rlx .word 23,
 .cas 0 .rel .word 23 20 23 true,
 .ld 0 .acq (.waiting 0) 1,
 .semPdEnter 0 0 (some 5) ]

theorem clock_accepts : acceptsF ⟨false⟩ traceClock = true := by decide

def clockFinal : State := stateAt ⟨false⟩ traceClock traceClock.length

theorem clock_run : run ⟨false⟩ init traceClock = .ok clockFinal := run_of_accepts clock_accepts

def clockExec : Exec ⟨false⟩ init := traceExec ⟨false⟩ traceClock clockFinal clock_run

def mwClock : MW :=
  { hm := .W, l := .W, cond := some cd0, dl := some 5, note := false, first := false, w := some 0, rcl := 0,
    hadW := false, so := .ok, hl := false, outc := .ok, saw := false }

theorem C06_fair_needs_clock :
    WeakFair clockExec ∧ HoldersRelease clockExec ∧ FiniteArrivals clockExec ∧ FiniteRcFails clockExec ∧
      FiniteEnvPosts clockExec ∧ NoteHonoured clockExec ∧ ContractKept clockExec ∧ ¬ ClockAdvances clockExec ∧
      MustReturn clockExec 0 4 ∧ (clockExec.ρ 4).pc 0 ≠ .idle ∧ ∀ j, 4 ≤ j → (clockExec.ρ j).pc 0 ≠ .idle := by
  have hT : tidsBelow 1 traceClock = true := by decide
  obtain ⟨a, b, c, d, e⟩ := trace_fair5 clock_run hT (by decide)
  have hnever : ∀ j, 4 ≤ j → (clockExec.ρ j).pc 0 ≠ .idle := by
    intro j hj
    have := allStates_from clock_run (f := fun s => !decide (s.pc 0 = .idle)) 4 (by decide) j hj
    show (stateAt ⟨false⟩ traceClock j).pc 0 ≠ .idle
    simpa using this
  refine ⟨a, b, c, d, e, trace_note clock_run hT (by decide) (by decide), trace_contract clock_run (by decide), ?_, ?_,
    hnever 4 (Nat.le_refl _), hnever⟩
  · intro hk
    have hpc : (clockExec.ρ 14).pc 0 = .mwPdRet mwClock (some 5) := by decide
    obtain ⟨j, hj, h⟩ := hk 0 14 mwClock 5 hpc
    have e : clockExec.ρ j = clockFinal := (traceExec_tail clock_run (show traceClock.length ≤ j from hj)).1
    rw [e] at h
    have h1 : clockFinal.now = 0 := by decide
    have h2 : clockFinal.pc 0 = .mwPdRet mwClock (some 5) := by decide
    rcases h with h | h
    · rw [h1] at h; omega
    · exact h h2
  · intro c hc
    have h4 : ((clockExec.ρ 4).pc 0).mw.map (·.dl) = some (some 5) := by decide
    rw [hc] at h4
    simp only [Option.map_some, Option.some.injEq] at h4
    left; rw [h4]; simp

/-! ## `NoteHonoured` is needed in this model

Thread 0 calls nsync_mu_wait_with_deadline with a cancel note and no deadline; inside nsync_sem_wait_with_cancel_ it
sees the note notified (`noteSeen`) — and then starts a P without deadline all the same, which the acceptor accepts
(the library returns ECANCELED instead). -/

def traceNote : List Event := [
 .call 0 .lock,
 .cas 0 .acq .word 0 1 0 true,
 .ret 0 .lock .void,
 .call 0 (.wait (some cd0) none true),
 .ld 0 .rlx .word 1,
 .cond 0 .eq 0 false,
 .st 0 .rlx (.waiting 0) 1 0,
 .ld 0 .rlx (.rc 0) 0,
 .ld 0 .rlx .word 1,
 .cas 0 .acq .word 1 23 1 true,
 .ld 0 .rlx .word 23,
 .cas 0 .rel .word 23 20 23 true,
 .ld 0 .acq (.waiting 0) 1,
 .noteSeen 0,
 .semPdEnter 0 0 none ]

theorem note_accepts : acceptsF ⟨false⟩ traceNote = true := by decide

def noteFinal : State := stateAt ⟨false⟩ traceNote traceNote.length

theorem note_run : run ⟨false⟩ init traceNote = .ok noteFinal := run_of_accepts note_accepts

def noteExec : Exec ⟨false⟩ init := traceExec ⟨false⟩ traceNote noteFinal note_run

def mwNote : MW :=
  { hm := .W, l := .W, cond := some cd0, dl := none, note := true, first := false, w := some 0, rcl := 0,
    hadW := false, so := .ok, hl := false, outc := .ok, saw := true }

theorem C06_fair_needs_note :
    WeakFair noteExec ∧ HoldersRelease noteExec ∧ FiniteArrivals noteExec ∧ FiniteRcFails noteExec ∧
      FiniteEnvPosts noteExec ∧ ContractKept noteExec ∧ ClockAdvances noteExec ∧ ¬ NoteHonoured noteExec ∧
      MustReturn noteExec 0 4 ∧ (noteExec.ρ 4).pc 0 ≠ .idle ∧ ∀ j, 4 ≤ j → (noteExec.ρ j).pc 0 ≠ .idle := by
  have hT : tidsBelow 1 traceNote = true := by decide
  obtain ⟨a, b, c, d, e⟩ := trace_fair5 note_run hT (by decide)
  have hnever : ∀ j, 4 ≤ j → (noteExec.ρ j).pc 0 ≠ .idle := by
    intro j hj
    have := allStates_from note_run (f := fun s => !decide (s.pc 0 = .idle)) 4 (by decide) j hj
    show (stateAt ⟨false⟩ traceNote j).pc 0 ≠ .idle
    simpa using this
  have hpc : (noteExec.ρ 15).pc 0 = .mwPdRet mwNote none := by decide
  refine ⟨a, b, c, d, e, trace_contract note_run (by decide), trace_clock note_run hT (by decide), ?_, ?_,
    hnever 4 (Nat.le_refl _), hnever⟩
  · intro hn
    have := hn.1 15 0 mwNote none hpc
    cases this
  · intro c _
    right; left
    exact ⟨15, mwNote, by omega, by rw [hpc]; rfl, rfl⟩

/-! ## … and so is its second clause: the acceptor accepts `noteSeen` again and again -/

def traceSpin : List Event := traceNote.take 14

theorem spin_accepts : acceptsF ⟨false⟩ traceSpin = true := by decide

def spinA : State := stateAt ⟨false⟩ traceSpin traceSpin.length

theorem spin_run : run ⟨false⟩ init traceSpin = .ok spinA := run_of_accepts spin_accepts

def spinLoop : List Event := [.noteSeen 0]

theorem spin_loop : run ⟨false⟩ spinA spinLoop = .ok spinA := by
  have hpc : spinA.pc 0 = .mwSem mwNote := by decide
  have h1 : step ⟨false⟩ spinA (.noteSeen 0) = .ok spinA := by
    simp only [step, hpc]
    have : ({ mwNote with saw := true } : MW) = mwNote := rfl
    rw [this]
    have hn : mwNote.note = true := rfl
    simp only [hn, if_true]
    congr 1
    rw [← hpc]
    cases hs : spinA
    simp [setPc, setFn_self]
  simp [spinLoop, run, h1]

def spinExec : Exec ⟨false⟩ init := lassoExec ⟨false⟩ traceSpin spinLoop spinA spin_run spin_loop (by decide)

/-- Everything but `NoteHonoured` holds (its first clause too); the call has seen its note notified (the proviso holds),
    and it never returns: it looks at the note for ever. -/
theorem C06_fair_needs_note2 :
    WeakFair spinExec ∧ HoldersRelease spinExec ∧ FiniteArrivals spinExec ∧ FiniteRcFails spinExec ∧
      FiniteEnvPosts spinExec ∧ ContractKept spinExec ∧ ClockAdvances spinExec ∧ ¬ NoteHonoured spinExec ∧
      (∀ j t c dl, (spinExec.ρ j).pc t = .mwPdRet c dl → c.saw = false) ∧
      MustReturn spinExec 0 4 ∧ (spinExec.ρ 4).pc 0 ≠ .idle ∧ ∀ j, 4 ≤ j → (spinExec.ρ j).pc 0 ≠ .idle := by
  have hT : tidsBelow 1 traceSpin = true := by decide
  have hT2 : tidsBelow 1 spinLoop = true := by decide
  have hp : 0 < spinLoop.length := by decide
  have hnever : ∀ j, 4 ≤ j → (spinExec.ρ j).pc 0 ≠ .idle := by
    intro j hj
    have := lasso_from spin_run spin_loop hp (fun s => !decide (s.pc 0 = .idle)) 4 (by decide) (by decide) j hj
    show ((lassoExec ⟨false⟩ traceSpin spinLoop spinA spin_run spin_loop hp).ρ j).pc 0 ≠ .idle
    simpa using this
  have hpc : (spinExec.ρ 14).pc 0 = .mwSem mwNote := by decide
  refine ⟨lasso_weakFair spin_run spin_loop hp hT hT2 0 (r0 := 0) rfl rfl rfl (by decide),
    lasso_release spin_run spin_loop hp hT hT2 (by decide),
    ⟨traceSpin.length, fun j e hj he => by
      simpa using lasso_events spin_run spin_loop hp (fun e => !e.isArrival) (by decide) hj he⟩,
    ⟨traceSpin.length, fun j e hj he => by
      simpa using lasso_events spin_run spin_loop hp (fun e => !e.rcFail) (by decide) hj he⟩,
    ⟨traceSpin.length, fun j e hj he => by
      simpa using lasso_events spin_run spin_loop hp (fun e => !e.isEnvV) (by decide) hj he⟩,
    lasso_contract spin_run spin_loop hp (by decide) (by decide),
    lasso_clock spin_run spin_loop hp hT hT2 (by decide) (by decide), ?_, ?_, ?_, hnever 4 (Nat.le_refl _), hnever⟩
  · intro hn
    have hσ : spinExec.σ 14 = some (.noteSeen 0) := by decide
    exact hn.2 14 0 mwNote hpc rfl hσ
  · intro j t c dl hpc'
    have := lasso_all_thr spin_run spin_loop hp hT hT2 noteB (fun s t a _ => noteB_idle s t a) (by decide) (by decide) j t
    have hpc'' : ((lassoExec ⟨false⟩ traceSpin spinLoop spinA spin_run spin_loop hp).ρ j).pc t = .mwPdRet c dl := hpc'
    simpa [noteB, hpc''] using this
  · intro c _
    right; left
    exact ⟨14, mwNote, by omega, by rw [hpc]; rfl, rfl⟩


/-! ## `FiniteRcFails` is needed in this model

`traceNoWakeup` up to the point where thread 1, inside unlock_slow with the condition of thread 0's record found
true, has loaded `remove_count` of w0 (time 59; thread 0 asleep, count 0); then its CAS on `remove_count` fails and it
re-loads, for ever. -/

def traceRc : List Event := traceNoWakeup.take 59

set_option maxRecDepth 4096 in
theorem rc_accepts : acceptsF ⟨false⟩ traceRc = true := by decide

def rcA : State := stateAt ⟨false⟩ traceRc traceRc.length

theorem rc_run : run ⟨false⟩ init traceRc = .ok rcA := run_of_accepts rc_accepts

set_option maxRecDepth 4096 in
theorem rc_pc : ∃ r sc, rcA.pc 1 = .usRcCas r sc 0 0 := by
  have h : (match rcA.pc 1 with | .usRcCas _ _ 0 0 => true | _ => false) = true := by decide
  cases hp : rcA.pc 1 <;> rw [hp] at h <;> try (cases h; done)
  rename_i r sc k old
  refine ⟨r, sc, ?_⟩
  split at h
  · rename_i heq; cases heq; rfl
  · cases h

def rcLoop : List Event := [.cas 1 .rlx (.rc 0) 0 1 5 false, .ld 1 .rlx (.rc 0) 0]

theorem rc_loop : run ⟨false⟩ rcA rcLoop = .ok rcA := by
  obtain ⟨r, sc, hpc⟩ := rc_pc
  have h1 : step ⟨false⟩ rcA (.cas 1 .rlx (.rc 0) 0 1 5 false) = .ok (setPc rcA 1 (.usRcLd r sc 0)) := by
    simp [step, stepCas, hpc]
  have h2 : step ⟨false⟩ (setPc rcA 1 (.usRcLd r sc 0)) (.ld 1 .rlx (.rc 0) 0) = .ok rcA := by
    simp only [step, stepLd, setPc_pc, setFn_same]
    simp only [ne_eq, not_true_eq_false, if_false]
    rw [setPc_setPc_self hpc]
  simp [rcLoop, run, h1, h2]

def rcExec : Exec ⟨false⟩ init := lassoExec ⟨false⟩ traceRc rcLoop rcA rc_run rc_loop (by decide)

set_option maxRecDepth 4096 in
/-- Everything but `FiniteRcFails` holds; thread 0's condition is true from time 50 on (the proviso holds), and it
    never returns. -/
theorem C06_fair_needs_rc :
    WeakFair rcExec ∧ HoldersRelease rcExec ∧ FiniteArrivals rcExec ∧ FiniteEnvPosts rcExec ∧ NoteHonoured rcExec ∧
      ContractKept rcExec ∧ ClockAdvances rcExec ∧ ¬ FiniteRcFails rcExec ∧
      MustReturn rcExec 0 50 ∧ ∀ j, 50 ≤ j → (rcExec.ρ j).pc 0 ≠ .idle := by
  have hT : tidsBelow 2 traceRc = true := by decide
  have hT2 : tidsBelow 2 rcLoop = true := by decide
  have hp : 0 < rcLoop.length := by decide
  refine ⟨lasso_weakFair rc_run rc_loop hp hT hT2 1 (r0 := 0) rfl rfl rfl (by decide),
    lasso_release rc_run rc_loop hp hT hT2 (by decide),
    ⟨traceRc.length, fun j e hj he => by
      simpa using lasso_events rc_run rc_loop hp (fun e => !e.isArrival) (by decide) hj he⟩,
    ⟨traceRc.length, fun j e hj he => by
      simpa using lasso_events rc_run rc_loop hp (fun e => !e.isEnvV) (by decide) hj he⟩,
    lasso_note rc_run rc_loop hp hT hT2 (by decide) (by decide) (by decide),
    lasso_contract rc_run rc_loop hp (by decide) (by decide),
    lasso_clock rc_run rc_loop hp hT hT2 (by decide) (by decide), ?_, ?_, ?_⟩
  · rintro ⟨n, hn⟩
    obtain ⟨j, h1, h2, h3⟩ := lasso_pos (evs := traceRc) hp n (r := 0) (by decide)
    have hσ : rcExec.σ j = some (.cas 1 .rlx (.rc 0) 0 1 5 false) := by
      have := (lassoExec_tail rc_run rc_loop hp h2).2
      rw [h3] at this; exact this
    have := hn j _ h1 hσ
    cases this
  · intro c hc
    right; right
    intro cd hcd
    have h5 : ((rcExec.ρ 50).pc 0).mw.map (·.cond) = some (some cd0) := by decide
    rw [hc] at h5
    simp only [Option.map_some, Option.some.injEq] at h5
    have e : cd = cd0 := by rw [hcd] at h5; exact Option.some.inj h5
    subst e
    exact ⟨50, fun j hj => lasso_from rc_run rc_loop hp (fun s => evalCond s.data cd0) 50 (by decide) (by decide) j hj⟩
  · intro j hj
    have := lasso_from rc_run rc_loop hp (fun s => !decide (s.pc 0 = .idle)) 50 (by decide) (by decide) j hj
    show ((lassoExec ⟨false⟩ traceRc rcLoop rcA rc_run rc_loop hp).ρ j).pc 0 ≠ .idle
    simpa using this

/-! ## `FiniteEnvPosts` is needed in this model

Thread 0 calls nsync_mu_wait_with_deadline with deadline 0 at clock 0 (the deadline has passed), condition false,
queues itself and starts its timed P.  For ever: the environment posts its semaphore, the P returns 0 (count
non-zero — the acceptor, like a semaphore that looks at the count first, allows that although the deadline has passed),
the thread finds `waiting` still set and starts the next P.  The timeout is never taken. -/

def traceEnv : List Event := [
 .call 0 .lock,
 .cas 0 .acq .word 0 1 0 true,
 .ret 0 .lock .void,
 .call 0 (.wait (some cd0) (some 0) false),
 .ld 0 .rlx .word 1,
 .cond 0 .eq 0 false,
 .st 0 .rlx (.waiting 0) 1 0,
 .ld 0 .rlx (.rc 0) 0,
 .ld 0 .rlx .word 1,
 .cas 0 .acq .word 1 23 1 true,
 .ld 0 .rlx .word 23,
 .cas 0 .rel .word 23 20 23 true,
 .ld 0 .acq (.waiting 0) 1,
 .semPdEnter 0 0 (some 0) ]

theorem env_accepts : acceptsF ⟨false⟩ traceEnv = true := by decide

def envA : State := stateAt ⟨false⟩ traceEnv traceEnv.length

theorem env_run : run ⟨false⟩ init traceEnv = .ok envA := run_of_accepts env_accepts

def mwEnv : MW :=
  { hm := .W, l := .W, cond := some cd0, dl := some 0, note := false, first := false, w := some 0, rcl := 0,
    hadW := false, so := .ok, hl := false, outc := .ok, saw := false }

def envLoop : List Event := [
  .envV 0,
  .semPdRet 0 0 false,
  .ld 0 .rlx (.waiting 0) 1,
  .ld 0 .acq (.waiting 0) 1,
  .semPdEnter 0 0 (some 0) ]

theorem env_loop_gen (s : State) (hpc : s.pc 0 = .mwPdRet mwEnv (some 0)) (hsem : (s.wr 0).sem = 0)
    (hw : (s.wr 0).waiting = true) : run ⟨false⟩ s envLoop = .ok s := by
  obtain ⟨word, queue, wr, pc, data, cargs, now, held, wOwner, rOwners, sp, secStart, nwViol⟩ := s
  simp only at hpc hsem hw
  simp [envLoop, run, step, stepLd, ldWaiting, semPost, setPc, setFn, hpc, hsem, hw, mwEnv, b2n, dlLe]
  refine ⟨?_, ?_⟩ <;> funext u <;> simp only [setFn]
  · by_cases hu : u = 0
    · subst hu
      cases hwr : wr 0
      simp_all
    · simp [hu]
  · by_cases hu : u = 0
    · subst hu; simp [hpc, mwEnv]
    · simp [hu]

theorem env_loop : run ⟨false⟩ envA envLoop = .ok envA :=
  env_loop_gen envA (by decide) (by decide) (by decide)

def envExec : Exec ⟨false⟩ init := lassoExec ⟨false⟩ traceEnv envLoop envA env_run env_loop (by decide)

/-- Everything but `FiniteEnvPosts` holds (in particular the clock has passed the deadline: `ClockAdvances`); the call
    has a finite deadline (the proviso holds), and it never returns. -/
theorem C06_fair_needs_env_posts :
    WeakFair envExec ∧ HoldersRelease envExec ∧ FiniteArrivals envExec ∧ FiniteRcFails envExec ∧ NoteHonoured envExec ∧
      ContractKept envExec ∧ ClockAdvances envExec ∧ ¬ FiniteEnvPosts envExec ∧
      MustReturn envExec 0 4 ∧ (envExec.ρ 4).pc 0 ≠ .idle ∧ ∀ j, 4 ≤ j → (envExec.ρ j).pc 0 ≠ .idle := by
  have hT : tidsBelow 1 traceEnv = true := by decide
  have hT2 : tidsBelow 1 envLoop = true := by decide
  have hp : 0 < envLoop.length := by decide
  have hnever : ∀ j, 4 ≤ j → (envExec.ρ j).pc 0 ≠ .idle := by
    intro j hj
    have := lasso_from env_run env_loop hp (fun s => !decide (s.pc 0 = .idle)) 4 (by decide) (by decide) j hj
    show ((lassoExec ⟨false⟩ traceEnv envLoop envA env_run env_loop hp).ρ j).pc 0 ≠ .idle
    simpa using this
  refine ⟨lasso_weakFair env_run env_loop hp hT hT2 0 (r0 := 1) rfl rfl rfl (by decide),
    lasso_release env_run env_loop hp hT hT2 (by decide),
    ⟨traceEnv.length, fun j e hj he => by
      simpa using lasso_events env_run env_loop hp (fun e => !e.isArrival) (by decide) hj he⟩,
    ⟨traceEnv.length, fun j e hj he => by
      simpa using lasso_events env_run env_loop hp (fun e => !e.rcFail) (by decide) hj he⟩,
    lasso_note env_run env_loop hp hT hT2 (by decide) (by decide) (by decide),
    lasso_contract env_run env_loop hp (by decide) (by decide),
    lasso_clock env_run env_loop hp hT hT2 (by decide) (by decide), ?_, ?_, hnever 4 (Nat.le_refl _), hnever⟩
  · rintro ⟨n, hn⟩
    obtain ⟨j, h1, h2, h3⟩ := lasso_pos (evs := traceEnv) hp n (r := 0) (by decide)
    have hσ : envExec.σ j = some (.envV 0) := by
      have := (lassoExec_tail env_run env_loop hp h2).2
      rw [h3] at this; exact this
    have := hn j _ h1 hσ
    cases this
  · intro c hc
    have h4 : ((envExec.ρ 4).pc 0).mw.map (·.dl) = some (some 0) := by decide
    rw [hc] at h4
    simp only [Option.map_some, Option.some.injEq] at h4
    left; rw [h4]; simp

/-! ## `FiniteArrivals` is needed under weak fairness

Thread 1 is inside nsync_mu_lock_slow_ at its first load (it found the mutex held and has not queued yet); the mutex is
free again.  For ever: thread 0 calls nsync_mu_lock and acquires on the fast path; thread 1 loads the word (held,
spinlock free) and prepares its enqueue CAS; thread 0 returns, calls nsync_mu_unlock and releases on the fast path;
thread 1's CAS fails (the word changed); thread 0 returns.  (The execution of Props/C02Fair.lean, in this model.) -/

def tracePre : List Event := [
  .call 0 .lock,
  .cas 0 .acq .word 0 1 0 true,
  .ret 0 .lock .void,
  .call 1 .lock,
  .cas 1 .acq .word 0 1 1 false,
  .ld 1 .rlx .word 1,
  .call 0 .unlock,
  .cas 0 .rel .word 1 0 1 true,
  .ret 0 .unlock .void ]

theorem pre_accepts : acceptsF ⟨false⟩ tracePre = true := by decide

def bargeA : State := stateAt ⟨false⟩ tracePre tracePre.length

theorem barge_run : run ⟨false⟩ init tracePre = .ok bargeA := run_of_accepts pre_accepts

def bargeLoop : List Event := [
  .call 0 .lock,
  .cas 0 .acq .word 0 1 0 true,
  .ld 1 .rlx .word 1,
  .ret 0 .lock .void,
  .call 0 .unlock,
  .cas 0 .rel .word 1 0 1 true,
  .cas 1 .acq .word 1 39 0 false,
  .ret 0 .unlock .void ]

theorem barge_loop_gen (s : State) (hw : s.word = Word.zero) (h1 : s.pc 1 = .lsLd (SL.entry .W))
    (h0 : s.pc 0 = .idle) (hh : s.held 0 = none) (hwo : s.wOwner = none) (hsec : s.secStart = s.data) :
    run ⟨false⟩ s bargeLoop = .ok s := by
  obtain ⟨word, queue, wr, pc, data, cargs, now, held, wOwner, rOwners, sp, secStart, nwViol⟩ := s
  simp only at hw h1 h0 hh hwo hsec
  subst hw hwo hsec
  simp [bargeLoop, run, step, stepCall, stepRet, stepCas, stepLd, casWord, ldWord, setPc, setFn, h0, h1, hh,
    addShare, subShare, setHeld, encode, b2n, addWord, Word.zero, blocked, enqWord, SL.entry]
  refine ⟨?_, ?_⟩ <;> funext u <;> simp only [setFn]
  · by_cases hu0 : u = 0
    · subst hu0; simp [h0]
    · by_cases hu1 : u = 1
      · subst hu1; simp [h1, SL.entry]
      · simp [hu0, hu1]
  · by_cases hu0 : u = 0
    · subst hu0; simp [hh]
    · simp [hu0]

theorem barge_loop : run ⟨false⟩ bargeA bargeLoop = .ok bargeA :=
  barge_loop_gen bargeA (by decide) (by decide) (by decide) (by decide) (by decide)
    (by funext x; simp [bargeA, stateAt, tracePre, run, step, stepCall, stepRet, stepCas, stepLd, casWord, ldWord, setPc,
          setHeld, addShare, subShare, init, setFn, encode, b2n, addWord, Word.zero, blocked])

def bargeExec : Exec ⟨false⟩ init := lassoExec ⟨false⟩ tracePre bargeLoop bargeA barge_run barge_loop (by decide)

/-- Everything but `FiniteArrivals` holds, and thread 1, inside nsync_mu_lock, never returns. -/
theorem C06_fair_needs_arrivals :
    WeakFair bargeExec ∧ HoldersRelease bargeExec ∧ FiniteRcFails bargeExec ∧ FiniteEnvPosts bargeExec ∧
      NoteHonoured bargeExec ∧ ContractKept bargeExec ∧ ClockAdvances bargeExec ∧ ¬ FiniteArrivals bargeExec ∧
      MustReturn bargeExec 1 6 ∧ (bargeExec.ρ 6).pc 1 ≠ .idle ∧ ∀ j, 6 ≤ j → (bargeExec.ρ j).pc 1 ≠ .idle := by
  have hT : tidsBelow 2 tracePre = true := by decide
  have hT2 : tidsBelow 2 bargeLoop = true := by decide
  have hp : 0 < bargeLoop.length := by decide
  have hnever : ∀ j, 6 ≤ j → (bargeExec.ρ j).pc 1 ≠ .idle := by
    intro j hj
    have := lasso_from barge_run barge_loop hp (fun s => !decide (s.pc 1 = .idle)) 6 (by decide) (by decide) j hj
    show ((lassoExec ⟨false⟩ tracePre bargeLoop bargeA barge_run barge_loop hp).ρ j).pc 1 ≠ .idle
    simpa using this
  refine ⟨lasso_weakFairB barge_run barge_loop hp hT hT2 (by decide),
    lasso_release_rec barge_run barge_loop hp hT (by decide),
    ⟨tracePre.length, fun j e hj he => by
      simpa using lasso_events barge_run barge_loop hp (fun e => !e.rcFail) (by decide) hj he⟩,
    ⟨tracePre.length, fun j e hj he => by
      simpa using lasso_events barge_run barge_loop hp (fun e => !e.isEnvV) (by decide) hj he⟩,
    lasso_note barge_run barge_loop hp hT hT2 (by decide) (by decide) (by decide),
    lasso_contract barge_run barge_loop hp (by decide) (by decide),
    lasso_clock barge_run barge_loop hp hT hT2 (by decide) (by decide), ?_, ?_, hnever 6 (Nat.le_refl _), hnever⟩
  · rintro ⟨n, hn⟩
    obtain ⟨j, h1, h2, h3⟩ := lasso_pos (evs := tracePre) hp n (r := 0) (by decide)
    have hσ : bargeExec.σ j = some (.call 0 .lock) := by
      have := (lassoExec_tail barge_run barge_loop hp h2).2
      rw [h3] at this; exact this
    have := hn j _ h1 hσ
    cases this
  · intro c hc
    have : ((bargeExec.ρ 6).pc 1).mw = none := by decide
    rw [this] at hc; cases hc

end NsyncVerif.MuC
