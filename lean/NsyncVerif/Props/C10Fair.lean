/-
  Props/C10Fair.lean — property C10, LIVENESS form: "every thread waiting when the counter reaches
  zero is released", for ALL weakly fair schedules.  Nothing here is `_partial` except where named so.

  Model `Counter` (Model/Counter.lean).  Executions, fairness and hypotheses are defined in
  `Proofs/CounterFairDefs.lean` (and `FiniteStrayPosts` in `Proofs/CounterFairTimeout.lean`):
  * `Exec s0`        infinite execution (`σ i = none`: nobody moves at time `i`; ticks, events of other
                     layers and stray semaphore posts may happen at any time);
  * `Moves x t j`    thread `t` executes the next operation of its own code at time `j` (its program
                     point changes; events the acceptor skips do not count);
  * `Blocked s t`    `t` is asleep in P-with-deadline on a semaphore with count 0 before its deadline,
                     or waits for the abstract counter_mu while somebody holds it;
  * `WeakFair x`     a thread that from some time on is inside a call and not blocked, moves.  The
                     holder of counter_mu is never blocked.  NOTE: a thread that has reached a contract
                     violation (an ASSERT of counter.c = a `Reject` of the acceptor: decrement below
                     zero, overflow, increment from zero after a wait, free with waiters, double free)
                     has no accepted next operation, so an execution in which that happens is not
                     weakly fair in this sense: `WeakFair` includes "no thread sits at a failed ASSERT
                     for ever" (in the real system the process aborts there).
  * `FiniteArrivals x`   only finitely many API calls (`call nsync_counter_*`) occur.
  * `FiniteStrayPosts x` only finitely many semaphore posts come from outside the wake loop of
                     nsync_counter_add (late posts of the Mu layer, which the acceptor accounts).
  * `ClockAdvances x d`  the clock eventually reaches `d`.

  ## Machine-checked here

  * `C10_fair_release : C10_fair_release_full` — in EVERY weakly fair execution from a reachable state
    (any number of threads and of arrivals, ticks and stray events at any time): if at time `i` the
    value is 0 and `waited` is set (then the value stays 0, `C10_zero_forever`: an increment from zero
    after a wait is a contract violation the acceptor rejects), every thread that is inside
    nsync_counter_wait at a time `i' ≥ i` (there at time `i`, or entering later) reaches `idle`
    (returns) at some `j ≥ i'`, and every return point `wRet dl r` it passes has `r = 0` unless it
    already was at that very return point at time `i'` (and then, if `r ≠ 0`, its deadline had
    expired: `C10_fair_release_result`, cf. `C10_wait_nonzero`).
    NO `FiniteArrivals` hypothesis: at zero counter_mu is acquired only finitely often
    (`C10_fair_lock_free`): an add with non-zero delta that took counter_mu would sit at its CAS for
    ever, a free that took it frees the object, after which no call is accepted, and a wait that
    starts at zero does not lock.
  * `C10_fair_wait_returns : C10_fair_wait_returns_full` — a wait with a finite deadline `d` returns in
    every weakly fair execution in which the clock reaches `d` (`ClockAdvances`), with finitely many
    arrivals and finitely many stray posts.  Each of the three hypotheses is NEEDED:
    - `C10_fair_needs_clock`        `sleepExec`: the clock stays at 0, the counter at 1, the sleeper
                                    (deadline 500) is blocked for ever;
    - `C10_fair_needs_arrivals`     `arriveExec` (lasso, period 27): thread 1 has timed out and asks for
                                    counter_mu; thread 2's timed-out waits take counter_mu for ever, so
                                    thread 1 is never continuously enabled (WEAK fairness, abstract lock);
    - `C10_fair_needs_stray_posts`  `strayExec` (lasso, period 5): a stray post wakes the timed-out sleeper
                                    (`pd_ret 0`), it finds the counter non-zero and sleeps again, for ever.
    All three are weakly fair executions satisfying the other hypotheses in which the wait never returns.
  * `C10_fair_release_stays_partial` — variant of `C10_fair_release` whose hypothesis is only "the value
    is 0 from time `i` on" (`waited` not assumed), WITH `FiniteArrivals` (named `_partial` for that
    reason; the full theorem above does not need it).
  * `C10_fair_posted` — fair form of `C10_no_lost_wakeup`: a thread asleep on its semaphore while the
    counter stays zero is posted and leaves the P operation.
  * `C10_holder_releases` — the holder of counter_mu releases it.
  * non-vacuity: `releaseExec` (the accepted trace `Example.twoAddersAndWaiter` of Props/C10.lean, then
    idling) satisfies the hypotheses; in it thread 2 is asleep on semaphore 2 with count 0, still
    queued, at time 39 — the time at which the zeroing CAS has just made the value 0; it is posted at
    time 40 and returns 0.  `timeoutExec` (`Example.timesOut`, then idling) satisfies the hypotheses of
    `C10_fair_wait_returns`; in it thread 1 sleeps with deadline 500 at time 19 (clock 0) and returns 1
    after the clock has reached 500.

  ## The argument
  `Proofs/CounterFairStep*.lean`: per-step facts read off the acceptor, one program point at a time
  (`Prog`, `Prog2`, `Prog3`, `Prog4`).  `holder_releases`: rank `hm` (2·|queue| + position); needs the invariant
  `JInv` (the value an add is about to CAS is the current one, so the CAS does not fail).
  `pdwait_moves`: by `C10_no_lost_wakeup` a sleeper at zero with count 0 has a waker holding counter_mu
  that cannot release it before it has posted.  `lock_eventually_free(_zero)`: counter_mu is acquired
  finitely often (`lrank`, `lrank0`), then the last holder releases.  `fair_return_zero`: induction on
  `wrank` (at zero the path through nsync_counter_wait has no loop).  `fair_return_expired`:
  lexicographic induction on (units the record's semaphore can still deliver `Bf`, position `tpos`).
  Weak fairness enters only through `fair_move`.

  ## What `WeakFair` means: enabledness (`Proofs/CounterFairEnabled.lean`)
  * `C10_thread_enabled` — in every reachable state a thread that is inside a call, not `Blocked` and
    not `AtAssert` (at a failed ASSERT of counter.c: free with waiters, double free, an add whose CAS
    would violate the contract, the `waited` check of an increment from zero) has an accepted event
    that changes its program point.  So `WeakFair` is weak fairness on ENABLED threads, plus "nobody
    sits at a failed ASSERT for ever".  (Invariants used: counter_mu's log name is bound while
    somebody is past `call nsync_mu_lock`; `phase = creating` at the initialising store; a free record
    id and a free semaphore id exist.)
  * `C10_blocked_cannot_move` — conversely a `Blocked` thread has no accepted event that changes its
    program point: `Blocked` is exactly "not enabled (and not at an ASSERT)".
-/
import NsyncVerif.Proofs.CounterFairTimeout
import NsyncVerif.Proofs.CounterFairZeroLock
import NsyncVerif.Proofs.CounterFairEnabled
import NsyncVerif.Proofs.CounterFairWitnessA
import NsyncVerif.Proofs.CounterFairWitnessB

namespace Counter

/-! ## statements at full strength -/

/-- FULL statement; proved below (`C10_fair_release`). -/
def C10_fair_release_full : Prop :=
  ∀ (s0 : State) (x : Exec s0), Reachable s0 → WeakFair x →
    ∀ i, (x.ρ i).sh.value = 0 → (x.ρ i).sh.waited = true →
    ∀ t i', i ≤ i' → inWait ((x.ρ i').pc t) →
      ∃ j, i' ≤ j ∧ (x.ρ j).pc t = .idle ∧
        ∀ j', i' ≤ j' → j' ≤ j → ∀ dl r, (x.ρ j').pc t = .wRet dl r → r = 0 ∨ (x.ρ i').pc t = .wRet dl r

/-- FULL statement; proved below (`C10_fair_wait_returns`). -/
def C10_fair_wait_returns_full : Prop :=
  ∀ (s0 : State) (x : Exec s0), Reachable s0 → WeakFair x → FiniteArrivals x → FiniteStrayPosts x →
    ∀ t i (d : Int), pcDl ((x.ρ i).pc t) = some (some d) → ClockAdvances x d →
      ∃ j, i ≤ j ∧ (x.ρ j).pc t = .idle

/-! ## proved -/

/-- zero is absorbing once a wait has been called, along an execution -/
theorem C10_zero_forever {s0 : State} (x : Exec s0) (hr : Reachable s0) {i : Nat}
    (hz : (x.ρ i).sh.value = 0) (hw : (x.ρ i).sh.waited = true) :
    ∀ j, i ≤ j → (x.ρ j).sh.value = 0 ∧ (x.ρ j).sh.waited = true := by
  intro j hj
  obtain ⟨d, rfl⟩ : ∃ d, j = i + d := ⟨j - i, by omega⟩
  induction d with
  | zero => exact ⟨hz, hw⟩
  | succ d ih =>
    have ih := ih (by omega)
    cases h : x.σ (i + d) with
    | none => rw [show i + (d + 1) = i + d + 1 by omega, x.next_none h]; exact ih
    | some e => exact C10_zero_stable (x.reach hr (i + d)) ih.1 ih.2 (x.next_some h)

theorem C10_fair_release_stays_partial {s0 : State} (x : Exec s0) (hr : Reachable s0) (hf : WeakFair x)
    (ha : FiniteArrivals x) {i : Nat} (hz : ∀ j, i ≤ j → (x.ρ j).sh.value = 0)
    (t : Tid) {i' : Nat} (hi : i ≤ i') (hw : inWait ((x.ρ i').pc t)) :
    ∃ j, i' ≤ j ∧ (x.ρ j).pc t = .idle ∧
      ∀ j', i' ≤ j' → j' ≤ j → ∀ dl r, (x.ρ j').pc t = .wRet dl r → r = 0 ∨ (x.ρ i').pc t = .wRet dl r :=
  fair_return_zero x hr hf (lock_eventually_free x hr hf ha) hz t _ i' hi (Nat.le_refl _) (Or.inr hw)

/-- "Every thread waiting when the counter reaches zero is released", liveness form, for all weakly
    fair schedules and any number of arrivals. -/
theorem C10_fair_release : C10_fair_release_full := by
  intro s0 x hr hf i hz hw t i' hi hin
  have hzw := C10_zero_forever x hr hz hw
  exact fair_return_zero x hr hf (lock_eventually_free_zero x hr hf hzw) (fun j hj => (hzw j hj).1) t _ i' hi
    (Nat.le_refl _) (Or.inr hin)

/-- a thread at a return point with a non-zero result: its deadline has expired -/
theorem C10_fair_release_result {s0 : State} (x : Exec s0) (hr : Reachable s0) {t : Tid} {i : Nat} {dl : Deadline}
    {r : Nat} (h : (x.ρ i).pc t = .wRet dl r) (hne : r ≠ 0) : expired dl (x.ρ i).sh.now := by
  have hp := (inv_of_reachable (x.reach hr i)).pcs t
  rw [h] at hp
  exact hp.2.2 hne

/-- Once the counter is zero and a wait has been called, counter_mu is eventually free for ever
    (no `FiniteArrivals`). -/
theorem C10_fair_lock_free {s0 : State} (x : Exec s0) (hr : Reachable s0) (hf : WeakFair x) {i : Nat}
    (hz : (x.ρ i).sh.value = 0) (hw : (x.ρ i).sh.waited = true) :
    ∃ n, ∀ j, n ≤ j → (x.ρ j).sh.lockHolder = none :=
  lock_eventually_free_zero x hr hf (C10_zero_forever x hr hz hw)

/-- Fair form of `C10_no_lost_wakeup` (no `FiniteArrivals`): a thread asleep in P-with-deadline
    while the counter stays zero leaves the P operation. -/
theorem C10_fair_posted {s0 : State} (x : Exec s0) (hr : Reachable s0) (hf : WeakFair x) {i : Nat}
    (hz : ∀ j, i ≤ j → (x.ρ j).sh.value = 0) {t : Tid} {dl : Deadline} {k : NwId} {j : SemId} {j0 : Nat}
    (hj0 : i ≤ j0) (hp : (x.ρ j0).pc t = .wPdWait dl k j) : ∃ j', j0 ≤ j' ∧ Moves x t j' :=
  pdwait_moves x hr hf hz hj0 hp

/-- The holder of counter_mu releases it (no `FiniteArrivals`). -/
theorem C10_holder_releases {s0 : State} (x : Exec s0) (hr : Reachable s0) (hf : WeakFair x) {u : Tid} {j : Nat}
    (h : (x.ρ j).sh.lockHolder = some u) : ∃ j', j ≤ j' ∧ (x.ρ j').sh.lockHolder ≠ some u := by
  have hh := holds_of_holder (inv_of_reachable (x.reach hr j)) h
  obtain ⟨j', h1, h2⟩ := holder_releases x hr hf u _ j hh (Nat.le_refl _)
  refine ⟨j', h1, fun h3 => ?_⟩
  have := holds_of_holder (inv_of_reachable (x.reach hr j')) h3
  rw [h2] at this; cases this

/-- A wait with a finite deadline returns once the clock has passed the deadline. -/
theorem C10_fair_wait_returns : C10_fair_wait_returns_full := by
  intro s0 x hr hf ha hs t i d hw hc
  exact fair_return_expired x hr hf ha hs hc t hw

/-- The acceptor blocks a thread only on a semaphore whose count is 0 (before its deadline), on
    counter_mu while it is held, or at a failed ASSERT of counter.c. -/
theorem C10_thread_enabled {s : State} (hr : Reachable s) {t : Tid} (hne : s.pc t ≠ .idle)
    (hnb : ¬ Blocked s t) (hna : ¬ AtAssert s t) :
    ∃ e s', step s (.thr t e) = .ok s' ∧ s'.pc t ≠ s.pc t :=
  thread_enabled hr hne hnb hna

/-- A blocked thread has no accepted event that changes its program point. -/
theorem C10_blocked_cannot_move {s s' : State} {t : Tid} {e : Ev} (hb : Blocked s t)
    (h : step s (.thr t e) = .ok s') : s'.pc t = s.pc t :=
  blocked_cannot_move hb h

/-! ## non-vacuity -/

open Example in
def releaseFinal : State := stateAt twoAddersAndWaiter twoAddersAndWaiter.length

open Example in
theorem release_run : run init twoAddersAndWaiter = .ok releaseFinal := by
  have h : accepts twoAddersAndWaiter = true := by decide
  simp only [accepts, final] at h
  split at h
  · rename_i s hs
    have := stateAt_ge hs (Nat.le_refl twoAddersAndWaiter.length)
    rw [releaseFinal, this]; exact hs
  · cases h

open Example in
/-- `twoAddersAndWaiter`, then nothing for ever. -/
def releaseExec : Exec init := traceExec twoAddersAndWaiter releaseFinal release_run

open Example in
theorem release_final_idle (t : Tid) : releaseFinal.pc t = .idle := by
  by_cases ht : t < 3
  · have h : (final twoAddersAndWaiter).map (fun s => (List.range 3).all (fun t => decide (s.pc t = .idle)))
        = some true := by decide
    simp only [final, release_run, Option.map_some, Option.some.injEq, List.all_eq_true, List.mem_range,
      decide_eq_true_eq] at h
    exact h t ht
  · exact idle_of_bound reachable_init release_run 3 (by decide) ht

open Example in
theorem release_tail {j : Nat} (hj : 57 ≤ j) : releaseExec.ρ j = releaseFinal ∧ releaseExec.σ j = none :=
  traceExec_tail release_run (by show twoAddersAndWaiter.length ≤ j; exact hj)

/-- `releaseExec` satisfies the hypotheses of `C10_fair_release` (and `FiniteArrivals`) … -/
theorem release_hyps : Reachable init ∧ WeakFair releaseExec ∧ FiniteArrivals releaseExec :=
  ⟨reachable_init,
   weakFair_of_final releaseExec 57 (fun j hj t => by rw [(release_tail hj).1]; exact Or.inl (release_final_idle t)),
   finiteArrivals_of_tail releaseExec 57 (fun j hj => (release_tail hj).2)⟩

/-- … and in it thread 2 really sleeps: at time 39 the zeroing CAS of thread 1 has just made the value 0
    (event 38), `waited` is set, thread 2 is asleep in P-with-deadline on semaphore 2 whose count is
    0, still queued; the post is event 40, the `pd_ret` event 44 … -/
example : releaseExec.σ 38 = some (.thr 1 (.cas .ar .value 1 0 1 true)) ∧
    releaseExec.σ 40 = some (.thr 1 (.semV 2)) := ⟨rfl, rfl⟩

set_option maxRecDepth 4096 in
example : (releaseExec.ρ 38).sh.value = 1 ∧ (releaseExec.ρ 39).sh.value = 0 ∧ (releaseExec.ρ 39).sh.waited = true ∧
    (releaseExec.ρ 39).pc 2 = .wPdWait none 0 2 ∧ (releaseExec.ρ 39).sh.sem 2 = 0 ∧
    (releaseExec.ρ 39).sh.waiters = [0] ∧ (releaseExec.ρ 41).sh.sem 2 = 1 := by decide

/-- … and the theorem applies: thread 2 returns, with result 0. -/
example : ∃ j, 39 ≤ j ∧ (releaseExec.ρ j).pc 2 = .idle ∧
    ∀ j', 39 ≤ j' → j' ≤ j → ∀ dl r, (releaseExec.ρ j').pc 2 = .wRet dl r → r = 0 := by
  have h39 : (releaseExec.ρ 39).sh.value = 0 ∧ (releaseExec.ρ 39).sh.waited = true ∧
      (releaseExec.ρ 39).pc 2 = .wPdWait none 0 2 := by decide
  obtain ⟨j, h1, h2, h3⟩ := C10_fair_release _ releaseExec release_hyps.1 release_hyps.2.1
    39 h39.1 h39.2.1 2 39 (Nat.le_refl 39) (by rw [h39.2.2]; simp [inWait, wrank])
  refine ⟨j, h1, h2, fun j' a b dl r hr => ?_⟩
  rcases h3 j' a b dl r hr with c | c
  · exact c
  · rw [h39.2.2] at c; cases c

/-! ### non-vacuity of `C10_fair_wait_returns`: `Example.timesOut`, then idling -/

open Example in
def timeoutFinal : State := stateAt timesOut timesOut.length

open Example in
theorem timeout_run : run init timesOut = .ok timeoutFinal := by
  have h : accepts timesOut = true := by decide
  simp only [accepts, final] at h
  split at h
  · rename_i s hs
    have := stateAt_ge hs (Nat.le_refl timesOut.length)
    rw [timeoutFinal, this]; exact hs
  · cases h

open Example in
/-- counter at 1; thread 1 waits with deadline 500, queues, sleeps (time 19); the clock goes to 499, 500;
    thread 1 gets ETIMEDOUT, dequeues itself, returns 1; then nothing for ever -/
def timeoutExec : Exec init := traceExec timesOut timeoutFinal timeout_run

open Example in
theorem timeout_tail {j : Nat} (hj : 33 ≤ j) : timeoutExec.ρ j = timeoutFinal ∧ timeoutExec.σ j = none :=
  traceExec_tail timeout_run (by show timesOut.length ≤ j; exact hj)

open Example in
theorem timeout_final_idle (t : Tid) : timeoutFinal.pc t = .idle := by
  by_cases ht : t < 2
  · have h : (final timesOut).map (fun s => (List.range 2).all (fun t => decide (s.pc t = .idle)))
        = some true := by decide
    simp only [final, timeout_run, Option.map_some, Option.some.injEq, List.all_eq_true, List.mem_range,
      decide_eq_true_eq] at h
    exact h t ht
  · exact idle_of_bound reachable_init timeout_run 2 (by decide) ht

theorem timeout_hyps : Reachable init ∧ WeakFair timeoutExec ∧ FiniteArrivals timeoutExec ∧
    FiniteStrayPosts timeoutExec ∧ ClockAdvances timeoutExec 500 :=
  ⟨reachable_init,
   weakFair_of_final timeoutExec 33 (fun j hj t => by rw [(timeout_tail hj).1]; exact Or.inl (timeout_final_idle t)),
   finiteArrivals_of_tail timeoutExec 33 (fun j hj => (timeout_tail hj).2),
   ⟨33, fun j t k hj he => by rw [(timeout_tail hj).2] at he; cases he⟩,
   ⟨22, by decide⟩⟩

/-- at time 19 thread 1 is asleep (count 0, clock 0 < 500) inside a wait with deadline 500; the
    theorem says it returns -/
example : (timeoutExec.ρ 19).pc 1 = .wPdWait (some 500) 3 1 ∧ (timeoutExec.ρ 19).sh.sem 1 = 0 ∧
    (timeoutExec.ρ 19).sh.now = 0 ∧ (timeoutExec.ρ 19).sh.value = 1 := by decide

example : ∃ j, 19 ≤ j ∧ (timeoutExec.ρ j).pc 1 = .idle :=
  C10_fair_wait_returns _ timeoutExec timeout_hyps.1 timeout_hyps.2.1 timeout_hyps.2.2.1 timeout_hyps.2.2.2.1
    1 19 500 (by decide) timeout_hyps.2.2.2.2

/-! ## `ClockAdvances` (or the counter reaching zero) is needed for a wait to return

Counter at 1; thread 1 calls nsync_counter_wait with deadline 500, queues and sleeps; then nothing
happens for ever, the clock stays at 0.  Weakly fair (thread 1 is blocked: count 0, deadline not
reached), one arrival — and thread 1 never returns. -/

open Example in
def traceSleep : List Event := timesOut.take 19

def sleepFinal : State := stateAt traceSleep traceSleep.length

theorem sleep_run : run init traceSleep = .ok sleepFinal := by
  have h : accepts traceSleep = true := by decide
  simp only [accepts, final] at h
  split at h
  · rename_i s hs
    have := stateAt_ge hs (Nat.le_refl traceSleep.length)
    rw [sleepFinal, this]; exact hs
  · cases h

def sleepExec : Exec init := traceExec traceSleep sleepFinal sleep_run

theorem sleep_tail {j : Nat} (hj : 19 ≤ j) : sleepExec.ρ j = sleepFinal ∧ sleepExec.σ j = none :=
  traceExec_tail sleep_run (by show traceSleep.length ≤ j; exact hj)

theorem sleep_final : sleepFinal.pc 1 = .wPdWait (some 500) 3 1 ∧ sleepFinal.sh.sem 1 = 0 ∧ sleepFinal.sh.now = 0
    ∧ sleepFinal.pc 0 = .idle ∧ sleepFinal.sh.value = 1 := by
  have h : (final traceSleep).map (fun s => decide (s.pc 1 = .wPdWait (some 500) 3 1 ∧ s.sh.sem 1 = 0 ∧
      s.sh.now = 0 ∧ s.pc 0 = .idle ∧ s.sh.value = 1)) = some true := by decide
  simpa [final, sleep_run] using h

theorem C10_fair_needs_clock :
    Reachable init ∧ WeakFair sleepExec ∧ FiniteArrivals sleepExec ∧ ¬ ClockAdvances sleepExec 500 ∧
      pcDl ((sleepExec.ρ 19).pc 1) = some (some 500) ∧ inWait ((sleepExec.ρ 19).pc 1) ∧
      ∀ j, 19 ≤ j → (sleepExec.ρ j).pc 1 ≠ .idle := by
  obtain ⟨f1, f2, f3, f4, _⟩ := sleep_final
  have hidle : ∀ t, t ≠ 1 → sleepFinal.pc t = .idle := by
    intro t ht
    by_cases h2 : t < 2
    · match t, ht, h2 with
      | 0, _, _ => exact f4
      | 1, ht, _ => exact absurd rfl ht
      | n + 2, _, h2 => exact absurd h2 (Nat.not_lt.2 (Nat.le_add_left 2 n))
    · exact idle_of_bound reachable_init sleep_run 2 (by decide) h2
  refine ⟨reachable_init, ?_, finiteArrivals_of_tail sleepExec 19 (fun j hj => (sleep_tail hj).2), ?_, ?_, ?_, ?_⟩
  · refine weakFair_of_final sleepExec 19 (fun j hj t => ?_)
    rw [(sleep_tail hj).1]
    by_cases ht : t = 1
    · subst ht
      exact Or.inr (Or.inl ⟨_, _, _, f1, f2, by rw [f3]; decide⟩)
    · exact Or.inl (hidle t ht)
  · rintro ⟨j, hj⟩
    by_cases h19 : 19 ≤ j
    · rw [(sleep_tail h19).1, f3] at hj; omega
    · have hall : ∀ j, j < 19 → (sleepExec.ρ j).sh.now = 0 := by decide
      rw [hall j (by omega)] at hj; omega
  · rw [(sleep_tail (Nat.le_refl 19)).1, f1]; rfl
  · rw [(sleep_tail (Nat.le_refl 19)).1, f1]; simp [inWait, wrank]
  · intro j hj; rw [(sleep_tail hj).1, f1]; simp

/-! ## `FiniteStrayPosts` is needed for `C10_fair_wait_returns`

`strayExec` (Proofs/CounterFairWitnessA.lean): counter at 1, thread 1 asleep with deadline 500, the
clock at 500; then for ever: idle thread 0 (another layer) posts the semaphore, thread 1 wakes up with
`pd_ret 0`, runs ready_time (not ready) and goes back to sleep with `pd_enter` — it never gets the
ETIMEDOUT that would let it leave.  Weakly fair (thread 1 moves), no arrival, the clock has passed the
deadline. -/

theorem C10_fair_needs_stray_posts :
    Reachable init ∧ WeakFair strayExec ∧ FiniteArrivals strayExec ∧ ClockAdvances strayExec 500 ∧
      ¬ FiniteStrayPosts strayExec ∧ pcDl ((strayExec.ρ 20).pc 1) = some (some 500) ∧
      ∀ j, 20 ≤ j → (strayExec.ρ j).pc 1 ≠ .idle := by
  have h20 : strayExec.ρ 20 = strayA := by
    have := (stray_at 0 (r := 0) (by decide)).1
    rw [show strayLoop.take 0 = [] from rfl, stateFrom_nil] at this
    exact this
  refine ⟨reachable_init, stray_weakFair, ?_, ?_, ?_, ?_, stray_never⟩
  · refine ⟨20, fun j t e hj he => ?_⟩
    obtain ⟨m, r, hr, rfl⟩ : ∃ m r, r < 5 ∧ j = 20 + 5 * m + r :=
      ⟨(j - 20) / 5, (j - 20) % 5, Nat.mod_lt _ (by decide), by omega⟩
    rw [(stray_at m hr).2] at he
    have hm := List.mem_of_getElem? he
    have hall : strayLoop.all (fun ev => match ev with | .thr _ e => !e.isCall | _ => true) = true := by decide
    simp only [List.all_eq_true] at hall
    simpa using hall _ hm
  · exact ⟨20, by rw [h20, strayA_facts.2.2.2.2.2.2]; decide⟩
  · rintro ⟨n, hn⟩
    have hσ := (stray_at n (r := 0) (by decide)).2
    have hρ := (stray_at n (r := 0) (by decide)).1
    obtain ⟨d, r, idx, w, hpc⟩ := hn (20 + 5 * n + 0) 0 1 (by omega) hσ
    rw [hρ, (stray_loop_pcs 0 (by decide)).2] at hpc
    cases hpc
  · rw [h20, strayA_facts.1]; rfl

/-! ## `FiniteArrivals` is needed for `C10_fair_wait_returns` (weak fairness and the abstract lock)

`arriveExec` (Proofs/CounterFairWitnessB.lean): counter at 1; thread 1's wait (deadline 500) has timed out
at time 500 and asks for counter_mu in order to dequeue itself; for ever, thread 2 calls
nsync_counter_wait with the passed deadline 100: each call takes counter_mu twice (enqueue, dequeue).
Thread 1 is blocked whenever thread 2 holds counter_mu, so it is not continuously enabled and weak
fairness does not oblige it to move: it never returns.  No semaphore post at all, the clock has passed
the deadline. -/

theorem C10_fair_needs_arrivals :
    Reachable init ∧ WeakFair arriveExec ∧ FiniteStrayPosts arriveExec ∧ ClockAdvances arriveExec 500 ∧
      ¬ FiniteArrivals arriveExec ∧ pcDl ((arriveExec.ρ 49).pc 1) = some (some 500) ∧
      ∀ j, 49 ≤ j → (arriveExec.ρ j).pc 1 ≠ .idle := by
  have h49 : arriveExec.ρ 49 = arriveA := by
    have := (arrive_at 0 (r := 0) (by decide)).1
    rw [show arriveLoop.take 0 = [] from rfl, stateFrom_nil] at this
    exact this
  refine ⟨reachable_init, arrive_weakFair, ?_, ?_, ?_, ?_, arrive_never⟩
  · refine ⟨49, fun j t k hj he => ?_⟩
    exfalso
    obtain ⟨m, r, hr, rfl⟩ : ∃ m r, r < 27 ∧ j = 49 + 27 * m + r :=
      ⟨(j - 49) / 27, (j - 49) % 27, Nat.mod_lt _ (by decide), by omega⟩
    rw [(arrive_at m hr).2] at he
    have hm := List.mem_of_getElem? he
    have hall : arriveLoop.all (fun ev => match ev with | .thr _ (.semV _) => false | _ => true) = true := by
      decide
    simp only [List.all_eq_true] at hall
    simpa using hall _ hm
  · exact ⟨49, by rw [h49, arriveA_facts.2.2.2.2.2.2.2.2.1]; decide⟩
  · rintro ⟨n, hn⟩
    have hσ := (arrive_at n (r := 0) (by decide)).2
    have := hn (49 + 27 * n + 0) 2 (.callWait (some 100)) (by omega) hσ
    cases this
  · rw [h49, arriveA_facts.2.2.2.2.2.2.2.2.2.1]; rfl

end Counter
