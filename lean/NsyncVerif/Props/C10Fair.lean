/-
  Props/C10Fair.lean — property C10, LIVENESS form: "every thread waiting when the counter reaches
  zero is released", for ALL weakly fair schedules.

  Model `Counter` (Model/Counter.lean).  Executions, fairness and hypotheses are defined in
  `Proofs/CounterFairDefs.lean`:
  * `Exec s0`        infinite execution (`σ i = none`: nobody moves at time `i`; ticks, stray events of
                     other layers and stray semaphore posts may happen at any time);
  * `Moves x t j`    thread `t` executes the next operation of its own code at time `j` (its program
                     point changes; events the acceptor skips do not count);
  * `Blocked s t`    `t` is asleep in P-with-deadline on a semaphore with count 0 before its deadline,
                     or waits for the abstract counter_mu while somebody holds it;
  * `WeakFair x`     a thread that from some time on is inside a call and not blocked, moves.  The
                     holder of counter_mu is never blocked.  NOTE: a thread that has reached a contract
                     violation (an ASSERT of counter.c = a `Reject` of the acceptor: decrement below
                     zero, overflow, increment from zero after a wait, free with waiters) has no
                     accepted next operation, so an execution in which that happens is not weakly
                     fair in this sense: `WeakFair` includes "no thread sits at a failed ASSERT for
                     ever" (in the real system the process aborts there).
  * `FiniteArrivals x`  only finitely many API calls (`call nsync_counter_*`) occur.
  * `ClockAdvances x d` the clock eventually reaches `d`.

  ## Machine-checked here (no sorry, no axiom)

  * `C10_fair_release_partial`: in every weakly fair execution from a reachable state with finitely
    many arrivals, if at time `i` the value is 0 and `waited` is set (then the value stays 0:
    `C10_zero_forever`), every thread that is inside nsync_counter_wait at a time `i' ≥ i` reaches
    `idle` (returns) at some `j ≥ i'`, and every return point `wRet dl r` it passes has `r = 0` unless
    it already was at that very return point at time `i'` (and then, if `r ≠ 0`, its deadline had
    expired: `C10_wait_nonzero`).
  * `C10_fair_release_stays_partial`: the same with the hypothesis "the value is 0 from time `i` on".
  * `C10_fair_posted`: (NO `FiniteArrivals`) a thread asleep on its semaphore while the counter stays
    zero is posted and leaves the P operation — fair form of `C10_no_lost_wakeup`.
  * `C10_holder_releases`: (NO `FiniteArrivals`) the holder of counter_mu releases it.
  * `C10_fair_needs_clock`: explicit weakly fair execution with finitely many arrivals in which a wait
    with deadline 500 never returns because the clock stays at 0 and the counter at 1: without
    `ClockAdvances` (or the counter reaching zero) a wait need not return.
  * non-vacuity: `releaseExec` (the accepted trace `Example.twoAddersAndWaiter` of Props/C10.lean, then
    idling) satisfies all hypotheses; in it thread 2 is asleep on semaphore 2 with count 0 at time 39,
    the time at which the zeroing CAS has just made the value 0; it is posted at time 40 and returns.

  ## `_partial`: what is missing (nothing is weakened silently)

  1. `C10_fair_release_full` is stated WITHOUT `FiniteArrivals`; proved is `C10_fair_release_partial`
     WITH it.  `FiniteArrivals` is used in exactly one place (`lock_eventually_free`: under WEAK
     fairness a thread waiting for counter_mu must see it free continuously; with finitely many calls
     the lock is acquired finitely often — each call acquires it at most twice, rank `lrank`).  We
     believe the hypothesis is NOT necessary for this theorem (at zero no new call can take
     counter_mu and complete: a non-zero add is a contract violation, wait/value/add 0 do not lock),
     so no witness of necessity is given; removing it needs two more invariants (the delta of an add
     in progress is non-zero; `active` counts the calls in flight) and a bound on lock acquisitions
     at zero.  NOT done.
  2. `C10_fair_wait_returns_full` (a wait with a finite deadline returns once the clock passes it)
     is STATED (hypotheses `WeakFair`, `FiniteArrivals`, `ClockAdvances`, `FiniteStrayPosts`) and NOT
     proved.  Proved towards it: `C10_fair_needs_clock` (necessity of `ClockAdvances`) only.  The
     necessity of `FiniteArrivals` (a lasso in which another thread's timed-out waits take counter_mu
     for ever) and of `FiniteStrayPosts` (a lasso in which a stray post wakes the sleeper for ever:
     pd_ret 0, ready_time, pd_enter, …) are described here but NOT machine-checked.
-/
import NsyncVerif.Proofs.CounterFairTrace

namespace Counter

/-! ## statements at full strength -/

/-- FULL statement (not proved; see `C10_fair_release_partial`). -/
def C10_fair_release_full : Prop :=
  ∀ (s0 : State) (x : Exec s0), Reachable s0 → WeakFair x →
    ∀ i, (x.ρ i).sh.value = 0 → (x.ρ i).sh.waited = true →
    ∀ t i', i ≤ i' → inWait ((x.ρ i').pc t) →
      ∃ j, i' ≤ j ∧ (x.ρ j).pc t = .idle ∧
        ∀ j', i' ≤ j' → j' ≤ j → ∀ dl r, (x.ρ j').pc t = .wRet dl r → r = 0 ∨ (x.ρ i').pc t = .wRet dl r

/-- Only finitely many semaphore posts come from outside the wake loop of nsync_counter_add. -/
def FiniteStrayPosts {s0 : State} (x : Exec s0) : Prop :=
  ∃ n, ∀ j t k, n ≤ j → x.σ j = some (.thr t (.semV k)) → ∃ d r idx w, (x.ρ j).pc t = .aPost d r idx w

/-- FULL statement (not proved). -/
def C10_fair_wait_returns_full : Prop :=
  ∀ (s0 : State) (x : Exec s0), Reachable s0 → WeakFair x → FiniteArrivals x → FiniteStrayPosts x →
    ∀ t i (d : Int), pcDl ((x.ρ i).pc t) = some (some d) → ClockAdvances x d →
      ∃ j, i ≤ j ∧ (x.ρ j).pc t = .idle

/-! ## proved -/

/-- zero is absorbing once a wait has been called, along an execution -/
theorem C10_zero_forever {s0 : State} (x : Exec s0) (hr : Reachable s0) {i : Nat}
    (hz : (x.ρ i).sh.value = 0) (hw : (x.ρ i).sh.waited = true) :
    ∀ j, i ≤ j → (x.ρ j).sh.value = 0 ∧ (x.ρ j).sh.waited = true := by
  intro j hj
  obtain ⟨d, rfl⟩ : ∃ d, j = i + d := ⟨j - i, by omega⟩
  induction d with
  | zero => exact ⟨hz, hw⟩
  | succ d ih =>
    have ih := ih (by omega)
    cases h : x.σ (i + d) with
    | none => rw [show i + (d + 1) = i + d + 1 by omega, x.next_none h]; exact ih
    | some e => exact C10_zero_stable (x.reach hr (i + d)) ih.1 ih.2 (x.next_some h)

theorem C10_fair_release_stays_partial {s0 : State} (x : Exec s0) (hr : Reachable s0) (hf : WeakFair x)
    (ha : FiniteArrivals x) {i : Nat} (hz : ∀ j, i ≤ j → (x.ρ j).sh.value = 0)
    (t : Tid) {i' : Nat} (hi : i ≤ i') (hw : inWait ((x.ρ i').pc t)) :
    ∃ j, i' ≤ j ∧ (x.ρ j).pc t = .idle ∧
      ∀ j', i' ≤ j' → j' ≤ j → ∀ dl r, (x.ρ j').pc t = .wRet dl r → r = 0 ∨ (x.ρ i').pc t = .wRet dl r :=
  fair_return_zero x hr hf ha hz t _ i' hi (Nat.le_refl _) (Or.inr hw)

/-- `C10_fair_release_full` with the additional hypothesis `FiniteArrivals`. -/
theorem C10_fair_release_partial {s0 : State} (x : Exec s0) (hr : Reachable s0) (hf : WeakFair x)
    (ha : FiniteArrivals x) {i : Nat} (hz : (x.ρ i).sh.value = 0) (hw : (x.ρ i).sh.waited = true)
    (t : Tid) {i' : Nat} (hi : i ≤ i') (hin : inWait ((x.ρ i').pc t)) :
    ∃ j, i' ≤ j ∧ (x.ρ j).pc t = .idle ∧
      ∀ j', i' ≤ j' → j' ≤ j → ∀ dl r, (x.ρ j').pc t = .wRet dl r → r = 0 ∨ (x.ρ i').pc t = .wRet dl r :=
  C10_fair_release_stays_partial x hr hf ha (fun j hj => (C10_zero_forever x hr hz hw j hj).1) t hi hin

/-- Fair form of `C10_no_lost_wakeup` (no `FiniteArrivals`): a thread asleep in P-with-deadline
    while the counter stays zero leaves the P operation. -/
theorem C10_fair_posted {s0 : State} (x : Exec s0) (hr : Reachable s0) (hf : WeakFair x) {i : Nat}
    (hz : ∀ j, i ≤ j → (x.ρ j).sh.value = 0) {t : Tid} {dl : Deadline} {k : NwId} {j : SemId} {j0 : Nat}
    (hj0 : i ≤ j0) (hp : (x.ρ j0).pc t = .wPdWait dl k j) : ∃ j', j0 ≤ j' ∧ Moves x t j' :=
  pdwait_moves x hr hf hz hj0 hp

/-- The holder of counter_mu releases it (no `FiniteArrivals`). -/
theorem C10_holder_releases {s0 : State} (x : Exec s0) (hr : Reachable s0) (hf : WeakFair x) {u : Tid} {j : Nat}
    (h : (x.ρ j).sh.lockHolder = some u) : ∃ j', j ≤ j' ∧ (x.ρ j').sh.lockHolder ≠ some u := by
  have hh := holds_of_holder (inv_of_reachable (x.reach hr j)) h
  obtain ⟨j', h1, h2⟩ := holder_releases x hr hf u _ j hh (Nat.le_refl _)
  refine ⟨j', h1, fun h3 => ?_⟩
  have := holds_of_holder (inv_of_reachable (x.reach hr j')) h3
  rw [h2] at this; cases this

/-! ## non-vacuity -/

theorem final_idle_of_bound {evs : List Event} {sf : State} (h : run init evs = .ok sf) (B : Nat)
    (hb : evs.all (fun e => match e.tidOf with | some u => decide (u < B) | none => true) = true)
    {t : Tid} (ht : ¬ t < B) : sf.pc t = .idle := by
  have hne : ∀ e ∈ evs, e.tidOf ≠ some t := by
    intro e he htid
    simp only [List.all_eq_true] at hb
    have := hb e he
    rw [htid] at this
    exact ht (by simpa using this)
  exact run_untouched evs init sf reachable_init hne h

open Example in
def releaseFinal : State := stateAt twoAddersAndWaiter twoAddersAndWaiter.length

open Example in
theorem release_run : run init twoAddersAndWaiter = .ok releaseFinal := by
  have h : accepts twoAddersAndWaiter = true := by decide
  simp only [accepts, final] at h
  split at h
  · rename_i s hs
    have := stateAt_ge hs (Nat.le_refl twoAddersAndWaiter.length)
    rw [releaseFinal, this]; exact hs
  · cases h

open Example in
/-- `twoAddersAndWaiter`, then nothing for ever. -/
def releaseExec : Exec init := traceExec twoAddersAndWaiter releaseFinal release_run

open Example in
theorem release_final_idle (t : Tid) : releaseFinal.pc t = .idle := by
  by_cases ht : t < 3
  · have h : (final twoAddersAndWaiter).map (fun s => (List.range 3).all (fun t => decide (s.pc t = .idle)))
        = some true := by decide
    simp only [final, release_run, Option.map_some, Option.some.injEq, List.all_eq_true, List.mem_range,
      decide_eq_true_eq] at h
    exact h t ht
  · exact final_idle_of_bound release_run 3 (by decide) ht

open Example in
theorem release_tail {j : Nat} (hj : 57 ≤ j) : releaseExec.ρ j = releaseFinal ∧ releaseExec.σ j = none :=
  traceExec_tail release_run (by show twoAddersAndWaiter.length ≤ j; exact hj)

/-- `releaseExec` satisfies the hypotheses of `C10_fair_release_partial` … -/
theorem release_hyps : Reachable init ∧ WeakFair releaseExec ∧ FiniteArrivals releaseExec :=
  ⟨reachable_init,
   weakFair_of_final releaseExec 57 (fun j hj t => by rw [(release_tail hj).1]; exact Or.inl (release_final_idle t)),
   finiteArrivals_of_tail releaseExec 57 (fun j hj => (release_tail hj).2)⟩

/-- … and in it thread 2 really sleeps: at time 39 the zeroing CAS of thread 1 has just made the value 0
    (event 38), `waited` is set, thread 2 is asleep in P-with-deadline on semaphore 2 whose count is
    0, still queued; the post is event 40, the `pd_ret` event 44 … -/
example : releaseExec.σ 38 = some (.thr 1 (.cas .ar .value 1 0 1 true)) ∧
    releaseExec.σ 40 = some (.thr 1 (.semV 2)) := ⟨rfl, rfl⟩

set_option maxRecDepth 4096 in
example : (releaseExec.ρ 38).sh.value = 1 ∧ (releaseExec.ρ 39).sh.value = 0 ∧ (releaseExec.ρ 39).sh.waited = true ∧
    (releaseExec.ρ 39).pc 2 = .wPdWait none 0 2 ∧ (releaseExec.ρ 39).sh.sem 2 = 0 ∧
    (releaseExec.ρ 39).sh.waiters = [0] ∧ (releaseExec.ρ 41).sh.sem 2 = 1 := by decide

/-- … and the theorem applies: thread 2 returns, with result 0. -/
example : ∃ j, 39 ≤ j ∧ (releaseExec.ρ j).pc 2 = .idle ∧
    ∀ j', 39 ≤ j' → j' ≤ j → ∀ dl r, (releaseExec.ρ j').pc 2 = .wRet dl r → r = 0 := by
  have h39 : (releaseExec.ρ 39).sh.value = 0 ∧ (releaseExec.ρ 39).sh.waited = true ∧
      (releaseExec.ρ 39).pc 2 = .wPdWait none 0 2 := by decide
  obtain ⟨j, h1, h2, h3⟩ := C10_fair_release_partial releaseExec release_hyps.1 release_hyps.2.1
    release_hyps.2.2 h39.1 h39.2.1 2 (Nat.le_refl 39) (by rw [h39.2.2]; simp [inWait, wrank])
  refine ⟨j, h1, h2, fun j' a b dl r hr => ?_⟩
  rcases h3 j' a b dl r hr with c | c
  · exact c
  · rw [h39.2.2] at c; cases c

/-! ## `ClockAdvances` (or the counter reaching zero) is needed for a wait to return

Counter at 1; thread 1 calls nsync_counter_wait with deadline 500, queues and sleeps; then nothing
happens for ever, the clock stays at 0.  Weakly fair (thread 1 is blocked: count 0, deadline not
reached), one arrival — and thread 1 never returns. -/

open Example in
def traceSleep : List Event := timesOut.take 19

def sleepFinal : State := stateAt traceSleep traceSleep.length

theorem sleep_run : run init traceSleep = .ok sleepFinal := by
  have h : accepts traceSleep = true := by decide
  simp only [accepts, final] at h
  split at h
  · rename_i s hs
    have := stateAt_ge hs (Nat.le_refl traceSleep.length)
    rw [sleepFinal, this]; exact hs
  · cases h

def sleepExec : Exec init := traceExec traceSleep sleepFinal sleep_run

theorem sleep_tail {j : Nat} (hj : 19 ≤ j) : sleepExec.ρ j = sleepFinal ∧ sleepExec.σ j = none :=
  traceExec_tail sleep_run (by show traceSleep.length ≤ j; exact hj)

theorem sleep_final : sleepFinal.pc 1 = .wPdWait (some 500) 3 1 ∧ sleepFinal.sh.sem 1 = 0 ∧ sleepFinal.sh.now = 0
    ∧ sleepFinal.pc 0 = .idle ∧ sleepFinal.sh.value = 1 := by
  have h : (final traceSleep).map (fun s => decide (s.pc 1 = .wPdWait (some 500) 3 1 ∧ s.sh.sem 1 = 0 ∧
      s.sh.now = 0 ∧ s.pc 0 = .idle ∧ s.sh.value = 1)) = some true := by decide
  simpa [final, sleep_run] using h

theorem C10_fair_needs_clock :
    Reachable init ∧ WeakFair sleepExec ∧ FiniteArrivals sleepExec ∧ ¬ ClockAdvances sleepExec 500 ∧
      pcDl ((sleepExec.ρ 19).pc 1) = some (some 500) ∧ inWait ((sleepExec.ρ 19).pc 1) ∧
      ∀ j, 19 ≤ j → (sleepExec.ρ j).pc 1 ≠ .idle := by
  obtain ⟨f1, f2, f3, f4, _⟩ := sleep_final
  have hidle : ∀ t, t ≠ 1 → sleepFinal.pc t = .idle := by
    intro t ht
    by_cases h2 : t < 2
    · match t, ht, h2 with
      | 0, _, _ => exact f4
      | 1, ht, _ => exact absurd rfl ht
      | n + 2, _, h2 => exact absurd h2 (Nat.not_lt.2 (Nat.le_add_left 2 n))
    · exact final_idle_of_bound sleep_run 2 (by decide) h2
  refine ⟨reachable_init, ?_, finiteArrivals_of_tail sleepExec 19 (fun j hj => (sleep_tail hj).2), ?_, ?_, ?_, ?_⟩
  · refine weakFair_of_final sleepExec 19 (fun j hj t => ?_)
    rw [(sleep_tail hj).1]
    by_cases ht : t = 1
    · subst ht
      exact Or.inr (Or.inl ⟨_, _, _, f1, f2, by rw [f3]; decide⟩)
    · exact Or.inl (hidle t ht)
  · rintro ⟨j, hj⟩
    by_cases h19 : 19 ≤ j
    · rw [(sleep_tail h19).1, f3] at hj; omega
    · have hall : ∀ j, j < 19 → (sleepExec.ρ j).sh.now = 0 := by decide
      rw [hall j (by omega)] at hj; omega
  · rw [(sleep_tail (Nat.le_refl 19)).1, f1]; rfl
  · rw [(sleep_tail (Nat.le_refl 19)).1, f1]; simp [inWait, wrank]
  · intro j hj; rw [(sleep_tail hj).1, f1]; simp

end Counter
