import NsyncVerif.Proofs.MuX
/-
  Property C16, observer half — a debug-state caller on a mutex only observes.

  In the MuX protocol `nsync_mu_debug_state` / `nsync_mu_debug_state_and_waiters` are calls of kind
  `observe`.  The acceptor admits, from a thread inside such a call, only loads, failed CASes and
  successful CASes that toggle MU_SPINLOCK and nothing else (`spinOnly`), and no plain store.  The
  theorems say what that buys, for every reachable state, any number of threads, every interleaving:
  a step of an observing thread changes neither who owns the writer bit or a reader share, nor what
  any client holds, nor the lock bits, nor ANY of the six hint bits (WAITING, DESIG_WAKER, CONDITION,
  WRITER_WAITING, LONG_WAIT, ALL_FALSE — the wake-up bookkeeping), and the other threads' view of the
  protocol is exactly as if the observer were not there (exclusion is C01, which quantifies over
  programs containing observers).  That the real code's debug functions are such observers is the
  lockstep tie (on the unfixed tree they were not: defect F1).
-/
namespace NsyncVerif.Props.C16Observer
open NsyncVerif.MuX

theorem spinOnly_spec {old new : Nat} (h : spinOnly old new = true) :
    (decode new).wlock = (decode old).wlock ∧ (decode new).readers = (decode old).readers ∧
    (decode new).hints = (decode old).hints ∧ (decode new).spin = !(decode old).spin := by
  unfold spinOnly at h
  simp only [Bool.or_eq_true, Bool.and_eq_true, decide_eq_true_eq] at h
  rcases h with ⟨hs, hn⟩ | ⟨hs, hn⟩
  · subst hn
    have h0 : (old / 2) % 2 = 0 := by
      simp only [decode, decide_eq_false_iff_not] at hs; omega
    have e1 : (old + 2) % 2 = old % 2 := by omega
    have e2 : (old + 2) / 256 = old / 256 := by omega
    have e3 : ((old + 2) / 4) % 64 = (old / 4) % 64 := by omega
    have e4 : ((old + 2) / 2) % 2 = 1 := by omega
    have e5 : ¬ (old / 2 % 2 = 1) := by omega
    have e6 : (old / 2 + 1) % 2 = 1 := by omega
    simp [decode, e1, e2, e3, e4, e5, e6]
  · have h1 : (old / 2) % 2 = 1 := by
      simp only [decode, decide_eq_true_eq] at hs; exact hs
    have e1 : new % 2 = old % 2 := by omega
    have e2 : new / 256 = old / 256 := by omega
    have e3 : (new / 4) % 64 = (old / 4) % 64 := by omega
    have e4 : ¬ ((new / 2) % 2 = 1) := by omega
    simp [decode, e1, e2, e3, e4, h1]

theorem lockDelta_same {o n : Word} (h1 : o.wlock = n.wlock) (h2 : o.readers = n.readers) :
    lockDelta o n = some .same := by
  unfold lockDelta; simp [h1, h2]

/-- A write whose lock bits do not change leaves all owners and all client-level ghosts alone. -/
theorem applyWrite_same {s s' : State} {t : Tid} {new : Nat} {ord : Ord} {rmw : Bool}
    (h1 : (decode s.word).wlock = (decode new).wlock) (h2 : (decode s.word).readers = (decode new).readers)
    (h : applyWrite s t new ord rmw = .ok s') :
    s'.w = s.w ∧ s'.rs = s.rs ∧ s'.held = s.held ∧ s'.ann = s.ann ∧ s'.word = new := by
  unfold applyWrite at h
  simp only [lockDelta_same h1 h2, lockPart] at h
  split at h
  · cases h
  · split at h
    · cases h
    · split at h
      · cases h; simp
      · split at h
        · cases h; simp
        · cases h
      · split at h
        · cases h; simp
        · cases h

/-- A step of a thread inside a debug-state call leaves every owner, every client-visible holder, the
    lock bits and all hint bits unchanged; at most the spinlock bit (and its ghost owner) changes. -/
theorem C16_mu_observer {s s' : State} {e : Ev} (hobs : inObserve s e.tid = true)
    (hstep : step s e = .ok s') (hnotret : ∀ ok, e ≠ .ret e.tid ok) :
    s'.w = s.w ∧ s'.rs = s.rs ∧ s'.held = s.held ∧ s'.ann = s.ann ∧
    (decode s'.word).wlock = (decode s.word).wlock ∧ (decode s'.word).readers = (decode s.word).readers ∧
    (decode s'.word).hints = (decode s.word).hints := by
  cases e with
  | ld t v => simp [step] at hstep; split at hstep <;> cases hstep; simp
  | casFail t exp obs => simp [step] at hstep; split at hstep <;> cases hstep; simp
  | call t c =>
    simp only [Ev.tid, inObserve] at hobs
    simp only [step] at hstep
    split at hstep
    · cases hstep
    · rename_i hc; rw [hc] at hobs; cases hobs
  | ret t ok => exact absurd rfl (hnotret ok)
  | annAcq t l => simp only [Ev.tid] at hobs; simp [step, hobs] at hstep
  | annRel t l => simp only [Ev.tid] at hobs; simp [step, hobs] at hstep
  | st t new ord =>
    simp only [Ev.tid] at hobs
    simp only [step] at hstep
    split at hstep
    · simp [hobs] at hstep
    · cases hstep
  | cas t exp new ord =>
    simp only [Ev.tid] at hobs
    simp only [step] at hstep
    split at hstep
    · split at hstep
      · cases hstep
      · rename_i hg
        have hso : spinOnly s.word new = true := by
          cases hh : spinOnly s.word new with
          | true => rfl
          | false => simp [hobs, hh] at hg
        have hsp := spinOnly_spec hso
        have := applyWrite_same hsp.1.symm hsp.2.1.symm hstep
        obtain ⟨a, b, c, d, e⟩ := this
        rw [e]
        exact ⟨a, b, c, d, hsp.1, hsp.2.1, hsp.2.2.1⟩
    · cases hstep

/-- The other threads cannot tell: whatever an observer's step does, the next step of any OTHER thread is
    accepted or rejected exactly as it would be on the word with the observer's spinlock bit as it now is —
    in particular every step that does not involve the spinlock (acquire of a free mutex, fast-path
    release) is unaffected.  Formally: an observer step never changes `shareOf` of anybody. -/
theorem C16_shares_untouched {s s' : State} {e : Ev} (hobs : inObserve s e.tid = true)
    (hstep : step s e = .ok s') (hnotret : ∀ ok, e ≠ .ret e.tid ok) (u : Tid) :
    shareOf s' u = shareOf s u := by
  have h := C16_mu_observer hobs hstep hnotret
  unfold shareOf
  rw [h.1, h.2.1]

/-! ### Non-vacuity -/
/-- a debug caller takes and drops the spinlock around a queued waiter while a writer holds the mutex -/
def observeTrace : List Ev :=
  [ .call 1 (.acq .W false), .cas 1 0 1 .acq, .ret 1 true,
    .call 3 (.acq .W false), .casFail 3 0 1, .ld 3 1, .cas 3 1 39 .acq, .cas 3 39 37 .rel,
    .call 9 .observe, .ld 9 37, .cas 9 37 39 .acq, .ld 9 39, .cas 9 39 37 .rel, .ret 9 true ]
example : (run init observeTrace).toOption.map (fun s => (s.held 1, s.word)) = some (.W, 37) := by decide
/-- an observer that stores a stale word (the F1 shape) is refused -/
example : (run init (observeTrace.take 11 ++ [.st 9 37 .rel])).toOption.isSome = false := by decide
/-- … and so is one whose CAS changes a hint bit -/
example : (run init (observeTrace.take 11 ++ [.cas 9 39 33 .rel])).toOption.isSome = false := by decide

end NsyncVerif.Props.C16Observer
