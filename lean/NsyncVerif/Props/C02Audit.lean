/- Axiom audit of every theorem of Props/C02, Props/C14, Props/C13Mu
   (allowed: propext, Classical.choice, Quot.sound). -/
import NsyncVerif.Props.C02
import NsyncVerif.Props.C14
import NsyncVerif.Props.C13Mu

open NsyncVerif.MuQ

#print axioms C02_try_wait_free
#print axioms C02_inv_spin
#print axioms C02_inv_spin_queue
#print axioms C02_inv_lock
#print axioms C02_inv_queue
#print axioms C02_inv_hint
#print axioms C02_responsible
#print axioms C02_woken_not_lost
#print axioms C02_no_stuck_state
#print axioms C02_solo_progress_partial
#print axioms C14_escalates
#print axioms C14_sets_bit
#print axioms C14_requeue_front
#print axioms C14_blocks_fresh
#print axioms C14_cleared_only_by_long_waiter
#print axioms C14_woken_ignores_hints
#print axioms C13_release_point
#print axioms C13_before_release_point
#print axioms C13_release_is_last_needed
