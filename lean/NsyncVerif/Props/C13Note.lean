import NsyncVerif.Props.C08Release
import NsyncVerif.Proofs.NoteLock
/-
  Props/C13Note.lean — property C13, the note half of "no waker accesses the bookkeeping of an nsync_wait_n or
  cancellable wait after that call can have returned".

  note_dequeue () and the tail of nsync_sem_wait_with_cancel_ () remove their record from n->waiters only
  `if (!notified)`: when they find the note notified UNDER note_mu they conclude that the notifier has already
  unlinked the record, leave, and the caller's frame (which holds the record) is popped.  That conclusion is
  sound exactly if the notifier never releases note_mu between publishing `notified` and emptying n->waiters.
  Over the Note model (note.c statement by statement, forest of notes, WAIT_FOR_NO_CHILDREN releasing the
  mutex in the middle of note_notify_child):

  * `C13_note_wake_loop_holds_lock` — a thread inside the wake loop of `d` (note.c:114-119) holds `d`'s mutex;
  * `C13_note_locked_notified_has_no_waiters` — whoever else holds `d`'s mutex and finds `d` notified finds
    `d->waiters` empty — in particular the owner of a record inside note_dequeue;
  * `C13_note_dequeue_leaves_nothing` — so when note_dequeue () decides "not still queued" because the note is
    notified, its record is on no list any more and no wake loop will reach it: the notifier's accesses to the
    record all happened before the owner obtained the mutex.

  Seeded change this is aimed at: seeded/C13-notifier-wakes-waiters-after-child-wait (the wake loop moved after
  WAIT_FOR_NO_CHILDREN): the Note acceptor rejects the unlock of a notified note with queued waiters.
-/
namespace Note

/-- a thread inside the wake loop of `d` holds `d`'s mutex -/
theorem C13_note_wake_loop_holds_lock {s : State} (hr : Reachable s) {t : Tid} {d : NoteId}
    (h : WakeLoop (s.pc t) d) : (s.notes d).lockHolder = some t := by
  obtain ⟨_, _, _, _, _, hK⟩ := hr.inv6
  refine (hK.iff d t).2 ?_
  obtain ⟨pos, f, rest, top, r, hpc, hf, hp⟩ := h
  rw [hpc]
  rcases hp with rfl | rfl <;> simp [PC.held, hf]

/-- Under `d`'s mutex, held by a thread that is not itself in `d`'s wake loop: notified implies no waiters. -/
theorem C13_note_locked_notified_has_no_waiters {s : State} (hr : Reachable s) {t : Tid} {d : NoteId}
    (hl : (s.notes d).lockHolder = some t) (hnw : ¬ WakeLoop (s.pc t) d) (hn : (s.notes d).notified = true) :
    (s.notes d).waiters = [] := by
  cases hw : (s.notes d).waiters with
  | nil => rfl
  | cons a l =>
    exfalso
    obtain ⟨u, hu, _⟩ := C08_notified_waiters_in_progress hr d hn (by rw [hw]; simp)
    have := C13_note_wake_loop_holds_lock hr hu
    rw [hl] at this
    cases this
    exact hnw hu

/-- The owner of record `r` inside note_dequeue (d), mutex held: if the note is notified the record is not on
    the list, and nobody is about to touch it (no wake loop is at `r`). -/
theorem C13_note_dequeue_leaves_nothing {s : State} (hr : Reachable s) {t : Tid} {d : NoteId} {wdl : Dl} {r : Rid}
    (hp : s.pc t = .wt .qLd d wdl r ∨ s.pc t = .wt .qSt d wdl r) (hn : (s.notes d).notified = true) :
    (s.notes d).waiters = [] ∧ ∀ u, ¬ WakeLoop (s.pc u) d := by
  obtain ⟨_, _, _, _, _, hK⟩ := hr.inv6
  have hl : (s.notes d).lockHolder = some t := by
    refine (hK.iff d t).2 ?_
    rcases hp with hp | hp <;> rw [hp] <;> simp [PC.held]
  have hnw : ¬ WakeLoop (s.pc t) d := by
    rintro ⟨pos, f, rest, top, r', hpc, _⟩
    rcases hp with hp | hp <;> rw [hp] at hpc <;> cases hpc
  refine ⟨C13_note_locked_notified_has_no_waiters hr hl hnw hn, fun u hu => ?_⟩
  have := C13_note_wake_loop_holds_lock hr hu
  rw [hl] at this
  cases this
  exact hnw hu

/-! ### non-vacuity (trace `releaseTrace` of Proofs/NoteRelTraces.lean, recorded from the library) -/

/-- the hypotheses of `C13_note_dequeue_leaves_nothing` are met by a reachable state: thread 0 is inside
    note_dequeue (note 1) with the mutex held, the note is notified, its waiter list is empty -/
example : (match run init (Traces.releaseTrace.take 106) with
    | .ok s => decide (s.pc 0 = .wt .qLd 1 none 0) && (s.notes 1).notified && decide ((s.notes 1).waiters = [])
        && decide ((s.notes 1).lockHolder = some 0)
    | .error _ => false) = true := by decide
/-- … and earlier in the same trace the record WAS queued on the then un-notified note -/
example : (match run init (Traces.releaseTrace.take 75) with
    | .ok s => decide ((s.notes 1).waiters = [0]) && !(s.notes 1).notified
    | .error _ => false) = true := by decide

end Note
