import NsyncVerif.Model.Deadline
import NsyncVerif.Props.C15Arith
import NsyncVerif.Props.C18
/-
  Property C15 — every deadline value is handled: expired deadlines time out, none crash.

  What is decided here by proof is the part of C15 that is pure computation on the deadline value:
  the timespec handed to the kernel is always one the futex contract accepts (no EINVAL, hence the
  ASSERT at nsync_semaphore_futex.c:119 cannot fire for any deadline), a pre-epoch deadline is clamped
  to an instant that is still expired, every normalized deadline is classified as expired / future /
  none by the comparisons the code uses, and `nsync_wait_n`'s short-circuit takes exactly the
  deadlines not after time zero.  "No early timeout" and "an expired deadline needs no wake-up" for
  the semaphore are C12_timeout_real / C12_post_kept_on_timeout (Futex layer).  The behaviour of the
  whole entry points on the real platform (real futex, real kernel, C and C++ builds) is tied in by
  the real-platform probe, whose observed outcome class must equal `classify`.
-/
namespace NsyncVerif.Props.C15
open NsyncVerif.Time NsyncVerif.Deadline

/-- For EVERY deadline (normalized or not, any seconds value incl. negative) the timespec handed to
    the kernel is NULL or has tv_sec ≥ 0; for normalized ones the kernel accepts it. -/
theorem C15_futex_args_accepted (d : Time) (hn : Norm d) : kernelAccepts (futexTimespec d) = true := by
  unfold futexTimespec
  split
  · rfl
  · split
    · decide
    · rename_i hneg
      have h1 : 0 ≤ d.sec := by omega
      unfold Norm at hn
      simp [kernelAccepts, h1, hn.1]
      exact hn.2

/-- The clamp does not turn an expired deadline into a live one: what replaces a pre-epoch deadline is
    itself not after any non-negative "now", and the library's own re-check `cmp d now ≤ 0` after the
    kernel's ETIMEDOUT succeeds, so the call reports ETIMEDOUT. -/
theorem C15_clamp_still_expired (d now : Time) (hd : Norm d) (hnow : Norm now) (hneg : d.sec < 0)
    (hpos : 0 ≤ now.sec) : futexTimespec d = some (0, 0) ∧ cmp d now ≤ 0 ∧ cmp zero now ≤ 0 := by
  have hnd : cmp d noDeadline ≠ 0 := by
    intro h
    have := (C15_noDeadline_eq_iff d).mp h
    rw [this] at hneg
    simp [noDeadline] at hneg
  refine ⟨by simp [futexTimespec, hnd, hneg], ?_, ?_⟩
  · have := (C18_cmp hd hnow)
    unfold Norm at hd hnow
    have hlt : toNs d < toNs now := by unfold toNs; omega
    have h3 := this.2.2.mpr hlt
    omega
  · have := (C18_cmp (a := zero) (b := now) (by decide) hnow)
    unfold Norm at hnow
    have hle : toNs zero ≤ toNs now := by
      unfold toNs zero; simp; omega
    rcases Int.lt_or_eq_of_le hle with h | h
    · have := this.2.2.mpr h; omega
    · have := this.2.1.mpr h; omega

/-- A deadline that is not clamped is passed through unchanged. -/
theorem C15_timespec_faithful (d : Time) (h0 : 0 ≤ d.sec) (hnd : cmp d noDeadline ≠ 0) :
    futexTimespec d = some (d.sec, d.nsec) := by
  have : ¬ d.sec < 0 := by omega
  simp [futexTimespec, hnd, this]

/-- `no_deadline` (and only it) means "no timeout": the kernel gets NULL. -/
theorem C15_null_iff_no_deadline (d : Time) : futexTimespec d = none ↔ d = noDeadline := by
  unfold futexTimespec
  constructor
  · intro h
    split at h
    · rename_i hc; exact (C15_noDeadline_eq_iff d).mp hc
    · split at h <;> cases h
  · intro h
    subst h
    simp [(C15_noDeadline_eq_iff noDeadline).mpr rfl]

/-- Classification is total and agrees with integer time: expired ⇔ toNs d ≤ toNs now. -/
theorem C15_classify_expired (d now : Time) (hd : Norm d) (hn : Norm now) (ev : Bool) :
    (classify d now ev = .timeoutPrompt ↔ toNs d ≤ toNs now) := by
  have h := C18_cmp hd hn
  unfold classify
  constructor
  · intro hc
    split at hc
    · rename_i hle
      by_cases h1 : cmp d now = 1
      · omega
      · by_cases h0 : cmp d now = 0
        · have := h.2.1.mp h0; omega
        · have hm : cmp d now = -1 := by
            have := (C18_cmp_total_order d now now).1
            omega
          have := h.2.2.mp hm; omega
    · split at hc <;> cases hc
  · intro hle
    have : cmp d now ≤ 0 := by
      rcases Int.lt_or_eq_of_le hle with hlt | heq
      · have := h.2.2.mpr hlt; omega
      · have := h.2.1.mpr heq; omega
    simp [this]

/-- A future deadline never yields the prompt-timeout class, with or without the event. -/
theorem C15_future_not_prompt (d now : Time) (hd : Norm d) (hn : Norm now) (ev : Bool)
    (hf : toNs now < toNs d) : classify d now ev ≠ .timeoutPrompt := by
  intro hc
  have := (C15_classify_expired d now hd hn ev).mp hc
  omega

/-- `nsync_wait_n`'s short-circuit (wait.c:39) takes exactly the deadlines at or before time zero — in
    particular every pre-epoch deadline — so those never reach the semaphore. -/
theorem C15_wait_n_short_circuit (d : Time) (hd : Norm d) :
    (waitNShortCircuits d = true ↔ toNs d ≤ 0) := by
  unfold waitNShortCircuits
  simp
  exact C15_cmp_zero_classifies hd

/-! Non-vacuity / the boundary set of the property. -/
example : futexTimespec ⟨-1, 0⟩ = some (0, 0) := by decide
example : futexTimespec ⟨-1, 999999999⟩ = some (0, 0) := by decide
example : futexTimespec ⟨-4000000000, 0⟩ = some (0, 0) := by decide
example : futexTimespec zero = some (0, 0) := by decide
example : futexTimespec ⟨0, 1⟩ = some (0, 1) := by decide
example : futexTimespec noDeadline = none := by decide
example : futexTimespec ⟨9223372036854775807, 999999998⟩ = some (9223372036854775807, 999999998) := by decide
example : classify ⟨-1, 0⟩ ⟨1790000000, 5⟩ false = .timeoutPrompt := by decide
example : classify ⟨1790000001, 0⟩ ⟨1790000000, 5⟩ false = .timeoutAt := by decide
example : classify noDeadline ⟨1790000000, 5⟩ true = .event := by decide

end NsyncVerif.Props.C15
