/-
Property C16, buffer half (fixed text):
  "For every buffer size n [the debug-state functions] write only within buf[0..n-1],
   NUL-terminate the result when n>=1 and end it with "..." when it was truncated and n>=4."

Everything below is proved in full (no `_partial`).

Model: `NsyncVerif.Model.Emit` (`emit_init`/`emit_c` of /repo/internal/debug.c, exactly, with a
ghost log `written` of every index stored to).  `b` below is the buffer state after what every
debug entry point does: `emit_init (&b, buf, n)`, the character stream `cs` through `emit_c`, and
the final `emit_c (b, 0)`.  `IsCStr mem s` (Proofs/EmitCStr.lean) says that the buffer holds the
NUL-terminated C string `s`; by `IsCStr_unique` that string is unique.

What happens for 1 <= n <= 3 on truncation (worked out from the suffix loop, clause (v)):
the buffer holds n-1 dots and a NUL ("" for n=1, "." for n=2, ".." for n=3); for n <= 0
(including negative n) nothing at all is stored (clause (vi)).
-/
import NsyncVerif.Model.Emit
import NsyncVerif.Proofs.Emit
import NsyncVerif.Proofs.EmitCStr
import NsyncVerif.Proofs.EmitStreams

namespace NsyncVerif
namespace Emit

theorem C16_buffer (n : Int) (cs : List UInt8) (hcs : ∀ c ∈ cs, c ≠ 0) :
    let b := emitC (cs.foldl emitC (init n)) 0
    -- (i) every store is inside buf[0..n-1]
    (∀ i ∈ b.written, 0 ≤ i ∧ i < n) ∧
    -- (ii) n >= 1: a NUL-terminated C string lies inside the buffer
    (1 ≤ n → ∃ k, 0 ≤ k ∧ k < n ∧ b.mem k = some 0 ∧
        ∀ j, 0 ≤ j → j < k → ∃ v, b.mem j = some v ∧ v ≠ 0) ∧
    -- (iii) truncated and n >= 4: first n-4 stream bytes then "...", length n-1
    (4 ≤ n → n < (cs.length : Int) + 1 →
        IsCStr b.mem (cs.take (n - 4).toNat ++ [46, 46, 46]) ∧
        ((cs.take (n - 4).toNat ++ [46, 46, 46]).length : Int) = n - 1) ∧
    -- (iv) not truncated: exactly the stream
    ((cs.length : Int) + 1 ≤ n → IsCStr b.mem cs) ∧
    -- (v) truncated and 1 <= n <= 3: n-1 dots
    (1 ≤ n → n ≤ 3 → n < (cs.length : Int) + 1 →
        IsCStr b.mem (List.replicate (n - 1).toNat 46)) ∧
    -- (vi) n <= 0: nothing is stored
    (n ≤ 0 → b.written = []) ∧
    -- the ghost log is complete: every byte of the buffer that differs from "untouched" is logged
    (∀ j, b.mem j ≠ none → j ∈ b.written) ∧
    -- the overflow flag records truncation
    (b.overflow = true ↔ n < (cs.length : Int) + 1) := by
  intro b
  have hb : b = run n cs := rfl
  have h := inv_run n cs
  rw [← hb] at h
  refine ⟨h.wr, ?_, ?_, ?_, ?_, ?_, h.rd, ?_⟩
  · intro hn
    by_cases hfit : (cs.length : Int) + 1 ≤ n
    · exact IsCStr_terminated (specMem_fits h.mem hcs hfit) (by omega)
    · have hov : n < (cs.length : Int) + 1 := by omega
      exact IsCStr_terminated (specMem_truncated h.mem hcs hn hov)
        (by rw [truncated_length hn hov]; omega)
  · intro hn hov
    have h1 := specMem_truncated h.mem hcs (by omega) hov
    have h2 := truncated_length (cs := cs) (show 1 ≤ n by omega) hov
    rw [truncated_ge4 cs hn] at h1 h2
    exact ⟨h1, h2⟩
  · intro hfit; exact specMem_fits h.mem hcs hfit
  · intro h1 h3 hov
    have := specMem_truncated h.mem hcs h1 hov
    rwa [truncated_small cs h1 (by omega)] at this
  · intro hn
    cases hw : b.written with
    | nil => rfl
    | cons i rest =>
      have := h.wr i (by rw [hw]; exact List.mem_cons_self)
      omega
  · rw [hb]; exact run_overflow n cs

/-- The string left in the buffer is uniquely determined (so (iii)-(v) identify *the* result). -/
theorem C16_cstr_unique {mem : Int → Option UInt8} {s t : List UInt8}
    (hs : IsCStr mem s) (ht : IsCStr mem t) : s = t := IsCStr_unique hs ht

/-- Instantiation for the real entry points: `nsync_mu_debug_state (mu, buf, n)` with `mu` at
address `addr` whose word reads `word`, and `nsync_cv_debug_state` likewise.  Their streams
contain no NUL, so all clauses of `C16_buffer` apply. -/
theorem C16_mu_debug_state (addr word : Nat) (n : Int) :
    let b := muDebugState addr word n
    (∀ i ∈ b.written, 0 ≤ i ∧ i < n) ∧
    (1 ≤ n → ∃ k, 0 ≤ k ∧ k < n ∧ b.mem k = some 0 ∧
        ∀ j, 0 ≤ j → j < k → ∃ v, b.mem j = some v ∧ v ≠ 0) ∧
    (4 ≤ n → n < ((muDebugChars addr word).length : Int) + 1 →
        IsCStr b.mem ((muDebugChars addr word).take (n - 4).toNat ++ [46, 46, 46])) ∧
    (((muDebugChars addr word).length : Int) + 1 ≤ n → IsCStr b.mem (muDebugChars addr word)) := by
  have h := C16_buffer n (muDebugChars addr word) (muDebugChars_ne_zero addr word)
  exact ⟨h.1, h.2.1, fun a b => (h.2.2.1 a b).1, h.2.2.2.1⟩

theorem C16_cv_debug_state (addr word : Nat) (n : Int) :
    let b := cvDebugState addr word n
    (∀ i ∈ b.written, 0 ≤ i ∧ i < n) ∧
    (1 ≤ n → ∃ k, 0 ≤ k ∧ k < n ∧ b.mem k = some 0 ∧
        ∀ j, 0 ≤ j → j < k → ∃ v, b.mem j = some v ∧ v ≠ 0) ∧
    (4 ≤ n → n < ((cvDebugChars addr word).length : Int) + 1 →
        IsCStr b.mem ((cvDebugChars addr word).take (n - 4).toNat ++ [46, 46, 46])) ∧
    (((cvDebugChars addr word).length : Int) + 1 ≤ n → IsCStr b.mem (cvDebugChars addr word)) := by
  have h := C16_buffer n (cvDebugChars addr word) (cvDebugChars_ne_zero addr word)
  exact ⟨h.1, h.2.1, fun a b => (h.2.2.1 a b).1, h.2.2.2.1⟩

/-! ### Non-vacuity: concrete runs (stream "ABCDEFGHIJKL", 12 bytes), unwritten bytes shown as 0xEE -/

def demo : List UInt8 := [65, 66, 67, 68, 69, 70, 71, 72, 73, 74, 75, 76]

-- n = 0 and n = -1: nothing stored
example : (run 0 demo).written = [] ∧ (run (-1) demo).written = [] := by decide
-- n = 1: just the NUL
example : dump (run 1 demo) 1 0xEE = [0] ∧ (run 1 demo).written = [0, 0] := by decide
-- n = 2, 3: dots only
example : dump (run 2 demo) 2 0xEE = [46, 0] := by decide
example : dump (run 3 demo) 3 0xEE = [46, 46, 0] := by decide
-- n = 4: "..." + NUL, nothing of the stream survives
example : dump (run 4 demo) 4 0xEE = [46, 46, 46, 0] := by decide
-- n = 10: 6 stream bytes, "...", NUL; writes 0..9 then the suffix backwards 9,8,7,6
example : dump (run 10 demo) 10 0xEE = [65, 66, 67, 68, 69, 70, 46, 46, 46, 0] ∧
    (run 10 demo).written = [0, 1, 2, 3, 4, 5, 6, 7, 8, 9, 9, 8, 7, 6] ∧
    (run 10 demo).overflow = true := by decide
-- n = 12: the stream fits but its NUL does not: truncated
example : dump (run 12 demo) 12 0xEE = [65, 66, 67, 68, 69, 70, 71, 72, 46, 46, 46, 0] := by decide
-- n = 13: exact fit, not truncated; n = 16: bytes 13..15 untouched
example : dump (run 13 demo) 13 0xEE = demo ++ [0] ∧ (run 13 demo).overflow = false := by decide
example : dump (run 16 demo) 16 0xEE = demo ++ [0, 0xEE, 0xEE, 0xEE] := by decide
-- the hypotheses of (iii) are satisfiable, and (iii) then pins down the buffer
example : IsCStr (run 10 demo).mem [65, 66, 67, 68, 69, 70, 46, 46, 46] :=
  ((C16_buffer 10 demo (by decide)).2.2.1 (by decide) (by decide)).1
-- a real debug string: write-locked mutex, 17 readers impossible together, so two samples
example : muDebugChars 0x7ffd1234 1 = asc "mu 0x7ffd1234 -> 0x1 = { wlock }" := by decide
example : muDebugChars 0x7ffd1234 0x1100 = asc "mu 0x7ffd1234 -> 0x1100 = { readers=0x11 }" := by
  decide
example : cvDebugChars 0x10 0 = asc "cv 0x10 -> 0x0 = { }" := by decide
set_option maxRecDepth 4096 in
example : dump (muDebugState 0x7ffd1234 1 12) 12 0xEE = asc "mu 0x7ff..." ++ [0] := by decide

end Emit
end NsyncVerif
