/-
  Props/C11.lean — property C11: "nsync_wait_n reports a ready object, or a real timeout, and cleans up."

  All theorems are about `Reachable s` of the WaitN acceptor (Model/WaitN.lean, the code AFTER the repair of
  defect F3 in cv.c): every number of callers, wakers, objects (1 ≤ count, stack and heap bookkeeping), every
  interleaving, every deadline and every sequence of ticks.  Trusted: the objects' mutexes are locks (C01/C02),
  the queues are sequences (C17), the semaphores are counting semaphores (C12).  Contract (explicit
  `Reject`s of the model): no increment of a counter from zero after a wait has been called.

  What "ready" means in the code (wait.c + the three waitables):
  * note:    NOTIFIED_TIME (n) <= 0 under note_mu, after nsync_note_notified_deadline_ has notified the
             note itself if its deadline had passed.  So a note whose deadline has passed counts as
             ready (and becomes notified by the caller), and a note created with a deadline that is not
             after time zero is "ready" without its `notified` flag ever being set (the flag is only
             read through NOTIFIED_TIME by the library; the harness oracles that read the flag
             directly report it, see tools/gen_waitn.py).  `noteReady` = notified ∨ deadline passed.
  * counter: value 0 observed (stable once a wait has been called: API contract).
  * cv:      cv_dequeue returned 0: it read `waiting == 0` under the cv spinlock, or it read `waiting != 0`,
             did not find the record on pcv->waiters and waited for `waiting == 0`.  In both cases a
             signaller had unlinked the record for this call (ghost `unl = waker`, recorded in the frame's
             ghost list `deqUnl` at the return of the dequeue call — the record itself may be reused by
             another thread's call between `free` and the return when count > 4).

  STATUS.  Proved as stated, for all three kinds of objects: `C11_index_ready`, `C11_timeout`,
  `C11_short_circuit`, `C11_cleanup` (+ `C11_cleanup_ret`), `C11_mutex` (+ `C11_mutex_marks`), `C11_heap_path`.
  * `C11_no_oversleep` (safety form of "it does not keep sleeping after one becomes ready"), proved:
    there is no reachable state in which a caller is about to enter / inside the P of wait.c:78 while an object
    it is registered on is ready for it and nobody is going to end the sleep.  Precisely, for a caller t at the
    P (`atP`: `pd_enter` next, or between `pd_enter` and `pd_ret`), a record r = nw[i] of the call and object i
    ready for it (`becameReady`: note notified or its deadline passed; counter at 0; cv record no longer on
    pcv->waiters — at the P only a signaller can have unlinked it, `C11_cv_unlinked_by_waker`), one of:
      (A) `Tok`       a token is available on the call's semaphore — under the counting flavour (`sem j > 0`)
                      AND under the binary flavour (`binSem evs j`, a function of the event sequence: V sets,
                      a P that returns 0 clears, a second V is absorbed); only t's own `pd_ret` consumes
                      tokens of a bound semaphore, so the P returns at once;
      (B) `InFlight`  some waker has executed its store `waiting := 0` on one of t's records and owes the V on
                      t's semaphore (`post u = some r'`): the acceptor rejects its unlock of the object's mutex,
                      a further pop, and its return from nsync_cv_signal / broadcast before that V, and the V
                      binds to (is checked against) the semaphore of t's call;
      (C)             a cv signaller has unlinked r under the cv spinlock and is before its
                      `ATM_STORE_REL (&p_nw->waiting, 0)` in wake_waiters (`r ∈ pend …`), which (B) follows;
      (D)             r is still queued on the ready note / counter and some thread u holds the object's mutex —
                      the acceptor rejects the release of that mutex before r (and every other queued waiter)
                      has been popped and posted: u is inside its wake loop.  (`u ≠ t` is not part of the
                      statement: threads in foreign API code are accepted site-independently, so the model cannot
                      exclude a caller that took a note's internal mutex before the call; nsync has no such path.)
      (E)             the P is timed and its deadline `min_ntime` has passed (the lazy expiry of a note: nobody
                      posts, but `min_ntime <= expiry <= now`, `C11_sleep_deadline`), so the P returns ETIMEDOUT.
    None of (B)–(E) can be dropped: `Example.oversleepB / C / D / E` are accepted traces that end in a state
    satisfying the hypotheses in which no token is available (`¬ Tok` is part of the examples for C, D, E) and
    that disjunct is the one that holds; `Example.oversleepA` is the token case (object ready between the caller's scan and its P: the P returns at once).
    Core of the proof (`C11_cleared_accounted`): at the P, EVERY record of the call with `waiting = 0` has (A) or
    (B) (as a theorem about `Reachable` states, in the form the earlier `C11_no_oversleep_full` had:
    `C11_no_oversleep_token`) — the scan that precedes the P would have seen it (`ready_time <= 0` ⇒ no P)
    unless it was cleared after its `ready_time` evaluation, and then the waker's post is accounted for.  Late V's after the return
    (`Example.lateV`) and stale tokens only cause additional scans.
  * `C11_sleep_deadline`, proved: the P of wait.c:78 is called with `min_ntime`, which is after time zero, is
    `<= abs_deadline` and `<=` the expiry of every note of the call, and equals one of them (condition variables
    and counters have no ready time other than "now").
  Invariants: Proofs/WaitNSem*.lean (`inv_of_run`); no ghost field was added to the model.
  The interleaving of defect F3 (caller times out between a signaller's unlink and its `waiting := 0`) is an
  `example` below: the old behaviour (cv_dequeue "removes" the record and reports a timeout) is REJECTED,
  the repaired behaviour (wait for the waker, return the cv's index) is accepted.
-/
import NsyncVerif.Proofs.WaitNAnn
import NsyncVerif.Proofs.WaitNDq2
import NsyncVerif.Proofs.WaitNSem14

set_option linter.unusedVariables false

namespace WaitN

/-! ### ready index -/

/-- object i of t's call is ready (notified / expired note, counter at zero, cv record unlinked by a
    signaller when its dequeue call returned) -/
def readyFor (s : State) (t : Tid) (i : Nat) : Prop :=
  match (s.fr t).objs[i]? with
  | some (.note n) => noteReady s n
  | some (.ctr c) => (s.obj (.ctr c)).value = 0
  | some (.cv _) => (s.fr t).deqUnl[i]? = some .waker
  | none => False

/-- what the return value of an accepted `ret nsync_wait_n r` is -/
theorem ret_facts {s s' : State} {t : Tid} {r : Nat} {nested : Bool} (hr : Reachable s)
    (hs : step s (.thr t (.retWaitN r nested)) = .ok s') :
    s.pc t = .wRet r ∧ LInv (.wRet r) (s.fr t) ∧ PostF s (s.fr t) := by
  have hpc := (ret_pc hs).1
  exact ⟨hpc, hpc ▸ linv_of_reachable hr t, by have := tf_of_reachable hr t; rw [hpc] at this; exact this⟩

/-- `ret nsync_wait_n i` with i < count is accepted only if object i is a note that is notified or whose
    deadline has passed, a counter whose value is 0, or a condition variable whose record a signaller had
    unlinked when cv_dequeue returned. -/
theorem C11_index_ready {s s' : State} {t : Tid} {r : Nat} {nested : Bool} (hr : Reachable s)
    (hs : step s (.thr t (.retWaitN r nested)) = .ok s') (hlt : r < (s.fr t).count) : readyFor s t r := by
  obtain ⟨_, hl, hp⟩ := ret_facts hr hs
  have hrr : r = (s.fr t).ready := hl.1
  unfold readyFor
  cases ho : (s.fr t).objs[r]? with
  | none =>
    have : r < (s.fr t).objs.length := hlt
    rw [List.getElem?_eq_getElem this] at ho; cases ho
  | some o =>
    cases o with
    | cv c =>
      simp only
      have hcv : isCvAt (s.fr t) (s.fr t).ready := ⟨c, hrr ▸ ho⟩
      have hne := hp.cvr (hrr ▸ hlt) hcv
      rcases hl.2 with ⟨hf, _, _⟩ | ⟨hpost, _⟩
      · exact absurd hf.recs hne
      · have h1 := (hpost.rdy.first (hrr ▸ hlt)).1
        rw [hrr]
        exact (dui_of_reachable hr).cv t _ c (hrr ▸ ho) h1
    | note n =>
      simp only
      have := hp.rdy (hrr ▸ hlt) (by rintro ⟨c, hc⟩; rw [← hrr, ho] at hc; cases hc)
      rw [← hrr] at this
      unfold sReady at this
      rw [ho] at this
      exact this
    | ctr k =>
      simp only
      have := hp.rdy (hrr ▸ hlt) (by rintro ⟨c, hc⟩; rw [← hrr, ho] at hc; cases hc)
      rw [← hrr] at this
      unfold sReady at this
      rw [ho] at this
      exact this.1

/-- every kind of object, cv included: after a sleep the returned index is the least one whose dequeue call
    reported "no longer enqueued" (for a cv: cv_dequeue read `waiting == 0` under the cv's spinlock). -/
theorem C11_index_ready_first {s s' : State} {t : Tid} {r : Nat} {nested : Bool} (hr : Reachable s)
    (hs : step s (.thr t (.retWaitN r nested)) = .ok s') (hlt : r < (s.fr t).count) (hne : (s.fr t).recs ≠ []) :
    (s.fr t).deqRes[r]? = some false ∧ ∀ k, k < r → (s.fr t).deqRes[k]? = some true := by
  obtain ⟨_, hl, _⟩ := ret_facts hr hs
  have hrr : r = (s.fr t).ready := hl.1
  rcases hl.2 with ⟨hf, _, _⟩ | ⟨hpost, _⟩
  · exact absurd hf.recs hne
  · rw [hrr]; exact hpost.rdy.first (hrr ▸ hlt)

/-! ### timeout -/

/-- `ret nsync_wait_n count` is accepted only if
    (a) the deadline was not after time zero and nothing was allocated, enqueued or slept on
        (the `abs_deadline <= 0` short-circuit of wait.c:39), or
    (b) the deadline of the call has passed, and every object was dequeued with the result
        "was still enqueued". -/
theorem C11_timeout {s s' : State} {t : Tid} {r : Nat} {nested : Bool} (hr : Reachable s)
    (hs : step s (.thr t (.retWaitN r nested)) = .ok s') (heq : r = (s.fr t).count) :
    (dlePast (s.fr t).dl = true ∧ (s.fr t).recs = [] ∧ (s.fr t).deqRes = [])
    ∨ (expiredB (s.fr t).dl s.now = true ∧ (s.fr t).deqRes.length = (s.fr t).recs.length
        ∧ (s.fr t).recs ≠ [] ∧ ∀ b ∈ (s.fr t).deqRes, b = true) := by
  obtain ⟨_, hl, hp⟩ := ret_facts hr hs
  have hrr : (s.fr t).ready = (s.fr t).count := hl.1 ▸ heq
  rcases hl.2 with ⟨hf, _, hd⟩ | ⟨hpost, _⟩
  · exact .inl ⟨hd hrr, hf.recs, hf.deqRes⟩
  · right
    have hall := hpost.rdy.all hrr
    have hwhy : (s.fr t).why = .timeout := by
      cases hw : (s.fr t).why with
      | none => exact absurd hw hpost.why
      | timeout => rfl
      | readyAt k =>
        have h1 := hp.why k hw
        have := hall false (List.mem_of_getElem? h1)
        cases this
    refine ⟨hp.tmo hwhy, hpost.dlen, ?_, hall⟩
    intro h0; have := hpost.npos; rw [h0] at this; exact absurd this (Nat.lt_irrefl _)

/-- the `abs_deadline <= 0` short-circuit: a caller whose deadline is not after time zero never
    leaves the first poll loop — no record, no allocation, no semaphore wait. -/
theorem C11_short_circuit {s : State} {t : Tid} (hr : Reachable s) (hc : inCall (s.pc t) = true)
    (hd : dlePast (s.fr t).dl = true) :
    (s.fr t).recs = [] ∧ (s.fr t).heap = none ∧ (s.fr t).mallocs = 0 ∧ (s.fr t).unlocked = false
    ∧ s.pc t ≠ .wPdEnter ∧ (∀ j, s.pc t ≠ .wPdWait j)
    ∧ ((∃ i l, s.pc t = .wCtrRT .poll i l) ∨ (∃ i st, s.pc t = .wND .poll i st) ∨ s.pc t = .wRet (s.fr t).ready) := by
  have hl := linv_of_reachable hr t
  have key : ∀ {f : Frame}, Alloc f → dlePast f.dl = true → False := fun a h => by rw [a.dl] at h; cases h
  cases hp : s.pc t with
  | idle => rw [hp] at hc; simp [inCall] at hc
  | sg c bc st => rw [hp] at hc; simp [inCall] at hc
  | stuck => rw [hp] at hl; exact hl.elim
  | wCtrRT u i l =>
    rw [hp] at hl
    cases u with
    | poll => exact ⟨hl.1.recs, hl.1.heap, hl.1.mallocs, hl.1.unlocked, by simp, by simp, .inl ⟨i, l, rfl⟩⟩
    | loop => exact (key hl.1.toAlloc hd).elim
    | deq => exact hl.elim
  | wND u i st =>
    rw [hp] at hl
    cases u with
    | poll => exact ⟨hl.1.recs, hl.1.heap, hl.1.mallocs, hl.1.unlocked, by simp, by simp, .inr (.inl ⟨i, st, rfl⟩)⟩
    | loop => exact (key hl.1.toAlloc hd).elim
    | deq => exact (key hl.1.toAlloc hd).elim
  | wAlloc => rw [hp] at hl; rw [hl.2.2.2] at hd; cases hd
  | wInit i => rw [hp] at hl; exact (key hl.1.toAlloc hd).elim
  | wEnqCv i st => rw [hp] at hl; exact (key hl.1.toAlloc hd).elim
  | wEnq i st => rw [hp] at hl; exact (key hl.1.toAlloc hd).elim
  | wUnlock => rw [hp] at hl; exact (key hl.1.toAlloc hd).elim
  | wCvRT j => rw [hp] at hl; exact (key hl.1.toAlloc hd).elim
  | wPdEnter => rw [hp] at hl; exact (key hl.1.toAlloc hd).elim
  | wPdWait j => rw [hp] at hl; exact (key hl.1.toAlloc hd).elim
  | wDeqCv j st => rw [hp] at hl; exact (key hl.1.toAlloc hd).elim
  | wDeq j st => rw [hp] at hl; exact (key hl.1.toAlloc hd).elim
  | wFree => rw [hp] at hl; exact (key hl.1.toAlloc hd).elim
  | wRelock => rw [hp] at hl; exact (key hl.1.toAlloc hd).elim
  | wRet r =>
    rw [hp] at hl
    rcases hl.2 with ⟨hf, _, _⟩ | ⟨hpost, _⟩
    · exact ⟨hf.recs, hf.heap, hf.mallocs, hf.unlocked, by simp, by simp, .inr (.inr (by rw [hl.1]))⟩
    · exact (key hpost.toAlloc hd).elim

/-! ### the supplied mutex -/

/-- Inside nsync_wait_n a lock annotation of the supplied mutex is accepted only as the `(*unlock) (mu)` of
    wait.c:62 — after the enqueue loop has attempted every object — or as the `(*lock) (mu)` of wait.c:96. -/
theorem C11_mutex_marks {s s' : State} {t : Tid} {e : Ev} {m : MuId} (hr : Reachable s)
    (he : e = .annRel m ∨ e = .annAcq m) (hc : inCall (s.pc t) = true) (hm : (s.fr t).mu = some m)
    (hs : step s (.thr t e) = .ok s') :
    (e = .annRel m ∧ s.pc t = .wUnlock ∧ (s.fr t).recs.length = (s.fr t).count ∧ (s.fr t).held = true)
    ∨ (e = .annAcq m ∧ s.pc t = .wRelock ∧ (s.fr t).held = false ∧ (s.fr t).deqRes.length = (s.fr t).recs.length) := by
  have hl := linv_of_reachable hr t
  rcases ann_pc he hc hm hs with ⟨h1, h2⟩ | ⟨h1, h2⟩
  · rw [h2] at hl
    exact .inl ⟨h1, h2, hl.2.1, by rw [hl.1.held, hm]; rfl⟩
  · rw [h2] at hl
    exact .inr ⟨h1, h2, hl.2.2, hl.1.dlen⟩

/-- `held` (ghost: the supplied mutex is held by the caller): true until the enqueue loop is over, false
    while the caller sleeps — and then every object has been attempted —, true again at the return. -/
theorem C11_mutex {s : State} {t : Tid} (hr : Reachable s) (hm : (s.fr t).mu.isSome = true) :
    ((∃ i, s.pc t = .wInit i) ∨ (∃ i st, s.pc t = .wEnqCv i st) ∨ (∃ i st, s.pc t = .wEnq i st) ∨ s.pc t = .wUnlock
        → (s.fr t).held = true ∧ (s.fr t).unlocked = false)
    ∧ (s.pc t = .wPdEnter ∨ (∃ j, s.pc t = .wPdWait j)
        → (s.fr t).held = false ∧ (s.fr t).unlocked = true ∧ (s.fr t).recs.length = (s.fr t).count)
    ∧ (∀ r, s.pc t = .wRet r → (s.fr t).held = true) := by
  have hl := linv_of_reachable hr t
  refine ⟨?_, ?_, ?_⟩
  · rintro (⟨i, hp⟩ | ⟨i, st, hp⟩ | ⟨i, st, hp⟩ | hp) <;> rw [hp] at hl <;>
      exact ⟨by rw [hl.1.held, hm], hl.1.unlocked⟩
  · rintro (hp | ⟨j, hp⟩) <;> rw [hp] at hl <;> exact ⟨hl.1.held, by rw [hl.1.unlocked, hm], hl.1.full⟩
  · intro r hp
    rw [hp] at hl
    rcases hl.2 with ⟨hf, _, _⟩ | ⟨_, hh⟩
    · rw [hf.held, hm]
    · rw [hh, hm]

/-! ### stack and heap bookkeeping -/

/-- At the return: a call over more than four objects that got past the first poll used one malloc'ed array,
    all its records are elements of that array, and it freed it exactly once; a call over at most four
    objects never called malloc / free and all its records are on its stack. -/
theorem C11_heap_path {s : State} {t : Tid} {r : Nat} (hr : Reachable s) (hp : s.pc t = .wRet r) :
    ((s.fr t).recs = [] → (s.fr t).mallocs = 0 ∧ (s.fr t).frees = 0)
    ∧ ((s.fr t).recs ≠ [] → 4 < (s.fr t).count →
        (s.fr t).mallocs = 1 ∧ (s.fr t).frees = 1 ∧ ∃ a, (s.fr t).heap = some a ∧ ∀ x ∈ (s.fr t).recs, ∃ i, x = .heap a i)
    ∧ ((s.fr t).recs ≠ [] → (s.fr t).count ≤ 4 →
        (s.fr t).mallocs = 0 ∧ (s.fr t).frees = 0 ∧ (s.fr t).heap = none ∧ ∀ x ∈ (s.fr t).recs, ∃ k, x = .stk k) := by
  have hl := linv_of_reachable hr t
  rw [hp] at hl
  rcases hl.2 with ⟨hf, _, _⟩ | ⟨hpost, _⟩
  · exact ⟨fun _ => ⟨hf.mallocs, hf.frees⟩, fun h => absurd hf.recs h, fun h => absurd hf.recs h⟩
  · have hne : (s.fr t).recs ≠ [] := fun h0 => by have := hpost.npos; rw [h0] at this; exact absurd this (Nat.lt_irrefl _)
    refine ⟨fun h0 => absurd h0 hne, ?_, ?_⟩
    · intro _ h4
      have hh := hpost.heap; simp only [h4, decide_true] at hh
      obtain ⟨a, ha⟩ := Option.isSome_iff_exists.1 hh
      refine ⟨by rw [hpost.mallocs]; simp [h4], by rw [hpost.frees, hpost.mallocs]; simp [h4], a, ha, ?_⟩
      intro x hx
      have := hpost.kinds x hx
      rw [ha] at this
      cases x with
      | stk k => exact this.elim
      | heap a' i => simp only [recKind] at this; subst this; exact ⟨i, rfl⟩
    · intro _ h4
      have h4' : ¬ 4 < (s.fr t).count := Nat.not_lt.2 h4
      have hh := hpost.heap; simp only [h4', decide_false] at hh
      have hn : (s.fr t).heap = none := by
        cases hx : (s.fr t).heap with
        | none => rfl
        | some a => rw [hx] at hh; cases hh
      refine ⟨by rw [hpost.mallocs]; simp [h4'], by rw [hpost.frees, hpost.mallocs]; simp [h4'], hn, ?_⟩
      intro x hx
      have := hpost.kinds x hx
      rw [hn] at this
      cases x with
      | stk k => exact ⟨k, rfl⟩
      | heap a' i => exact this.elim

/-! ### cleanup -/

/-- a record whose lifetime ends in this step — the return of a call with count <= 4, or the `free` of the
    heap array — belongs to the stepping caller, whose dequeue call for it has returned; it is in no object's
    queue, no signaller is between unlinking it and clearing its `waiting`, and no note / counter waker is
    between removing it and posting. -/
theorem C11_cleanup {s s' : State} {ev : Event} {r : Rid} (hr : Reachable s) (hs : step s ev = .ok s')
    (hl : registered s r) (hd : ¬ registered s' r) :
    (∃ t e, ev = .thr t e ∧ (s.rcd r).owner = t ∧ r ∈ (s.fr t).recs ∧ (s.pc t = .wFree ∨ ∃ r0, s.pc t = .wRet r0))
    ∧ (s.rcd r).deqd = true
    ∧ (∀ o, r ∉ (s.obj o).queue)
    ∧ (∀ u c l, wk (s.pc u) = some (c, l) → r ∉ pend (s.post u) l)
    ∧ (∀ u, s.post u = some r → (wk (s.pc u)).isSome = true) := by
  have hd' : (s'.rcd r).live = false := by
    cases hx : (s'.rcd r).live with
    | false => rfl
    | true => exact absurd hx hd
  obtain ⟨t, e, h1, h2, h3, h4, h5, _⟩ := dies_facts hr hs hl hd'
  have := deqd_out (qinv_of_reachable hr).qi h4
  exact ⟨⟨t, e, h1, h3, h2, h5⟩, h4, this.1, this.2.1, this.2.2⟩

/-- the statement at the return of a call whose records are on the caller's stack (count <= 4): none of them
    is in a queue, between a signaller's unlink and clear, or in the hands of a note / counter waker.
    (For count > 4 the records die at `free`: `C11_cleanup`.) -/
theorem C11_cleanup_ret {s s' : State} {t : Tid} {i : Nat} {nested : Bool} (hr : Reachable s)
    (hs : step s (.thr t (.retWaitN i nested)) = .ok s') (hh : (s.fr t).heap = none) :
    ∀ r ∈ (s.fr t).recs, (∀ o, r ∉ (s.obj o).queue) ∧ (∀ u c l, wk (s.pc u) = some (c, l) → r ∉ pend (s.post u) l)
      ∧ (∀ u, s.post u = some r → (wk (s.pc u)).isSome = true) := by
  intro r hm
  obtain ⟨hpc, hl, _⟩ := ret_facts hr hs
  have hfz : (s.fr t).frees = 0 := by
    rcases hl.2 with ⟨hf, _, _⟩ | ⟨hpost, _⟩
    · exact hf.frees
    · have h4 : ¬ 4 < (s.fr t).count := by
        intro h4; have := hpost.heap; rw [hh] at this; simp [h4] at this
      rw [hpost.frees, hpost.mallocs]; simp [h4]
  have hlive := ((own_of_reachable hr).own t r (by rw [hpc]; rfl) hfz hm).1
  have hdead : ¬ registered s' r := by
    simp only [step, stepThr, hpc, stepRet] at hs
    split at hs
    · cases hs; simp [registered, hh, hm]
    · simp at hs
  have := C11_cleanup hr hs hlive hdead
  exact ⟨this.2.2.1, this.2.2.2.1, this.2.2.2.2⟩

/-! ### the sleep -/

/-- t is about to call (`pd_enter` is its next semaphore event), or is inside, the
    nsync_mu_semaphore_p_with_deadline of wait.c:78 -/
def atP (s : State) (t : Tid) : Prop := s.pc t = .wPdEnter ∨ ∃ j, s.pc t = .wPdWait j

/-- object i of t's call is ready for t's record r = nw[i]: the note is notified or its deadline has passed, the
    counter is at zero, the cv record is no longer on pcv->waiters -/
def becameReady (s : State) (t : Tid) (i : Nat) (r : Rid) : Prop :=
  match (s.fr t).objs[i]? with
  | some (.note n) => (s.obj (.note n)).flag = true ∨ expiredB (s.obj (.note n)).expiry s.now = true
  | some (.ctr c) => (s.obj (.ctr c)).value = 0
  | some (.cv c) => r ∉ (s.obj (.cv c)).queue
  | none => False

theorem inSleep_of_atP {s : State} {t : Tid} (h : atP s t) : inSleep (s.pc t) = true := by
  rcases h with h | ⟨j, h⟩ <;> rw [h] <;> rfl

theorem seen_atP {s : State} {t : Tid} {i : Nat} (hr : Reachable s) (h : atP s t) : ¬ Seen s (s.pc t) (s.fr t) i := by
  have hl := linv_of_reachable hr t
  intro hs
  rcases h with h | ⟨j, h⟩ <;> rw [h] at hl hs <;>
    (rcases hs with h1 | h1
     · rw [hl.2] at h1; cases h1
     · exact h1)

/-- At the P, every record of the call whose `waiting` is 0 is accounted for: a token is available on the
    call's semaphore (counting and binary flavour), or the V is the next semaphore operation of a waker. -/
theorem C11_cleared_accounted {evs : List Event} {s : State} {t : Tid} {i : Nat} {r : Rid}
    (hrun : run init evs = .ok s) (hp : atP s t) (hr : (s.fr t).recs[i]? = some r)
    (hw : (s.rcd r).waiting = false) : Tok s (binSem evs) t ∨ InFlight s t := by
  have ti := (inv_of_run evs s hrun).2 t
  rcases ti.os (inSleep_of_atP hp) i r hr hw with h | h | h
  · exact .inl h
  · exact .inr h
  · exact absurd h (seen_atP ⟨evs, hrun⟩ hp)

/-- The statement that earlier versions of this file kept as the definition `C11_no_oversleep_full`: a caller
    asleep in the semaphore whose call has a record with `waiting = 0` has a token to consume, or a waker is
    about to post it. -/
theorem C11_no_oversleep_token {s : State} {t : Tid} {j : SemId} (hr : Reachable s) (hpc : s.pc t = .wPdWait j)
    (h : ∃ r ∈ (s.fr t).recs, (s.rcd r).waiting = false) :
    0 < s.sem j ∨ ∃ u r, s.post u = some r ∧ r ∈ (s.fr t).recs := by
  obtain ⟨evs, hrun⟩ := hr
  obtain ⟨r, hm, hw⟩ := h
  obtain ⟨i, hi⟩ := List.mem_iff_getElem?.1 hm
  rcases C11_cleared_accounted hrun (.inr ⟨j, hpc⟩) hi hw with ⟨j', hj', hpos, _⟩ | h
  · have := (inv_of_run evs s hrun).1.b3 t j hpc
    rw [hj'] at this; cases this
    exact .inl hpos
  · exact .inr h

/-- The P is never entered with a deadline that is not after time zero; the deadline is at most abs_deadline and
    at most the expiry of every note of the call (state form of `C11_sleep_deadline`). -/
theorem sleep_deadline_state {s : State} {t : Tid} (hr : Reachable s) (hp : atP s t) :
    dlePast (s.fr t).min = false ∧ dle (s.fr t).min (s.fr t).dl
    ∧ (∀ (i n : Nat), (s.fr t).objs[i]? = some (ObjId.note n) → dle (s.fr t).min (s.obj (.note n)).expiry)
    ∧ ((s.fr t).min = (s.fr t).dl
        ∨ ∃ k n : Nat, (s.fr t).objs[k]? = some (ObjId.note n) ∧ (s.fr t).min = (s.obj (.note n)).expiry) := by
  obtain ⟨evs, hrun⟩ := hr
  have hr : Reachable s := ⟨evs, hrun⟩
  have ti := (inv_of_run evs s hrun).2 t
  have hl := linv_of_reachable hr t
  have htf := tf_of_reachable hr t
  have key : dlePast (s.fr t).min = false ∧ scanned (s.pc t) (s.fr t) = some (s.fr t).count ∧ LoopF s (s.fr t) := by
    rcases hp with h | ⟨j, h⟩ <;> rw [h] at hl htf ⊢ <;> exact ⟨hl.2, rfl, htf.2⟩
  obtain ⟨hm, hsc, hlf⟩ := key
  obtain ⟨h1, h2⟩ := ti.sd _ hsc hm
  refine ⟨hm, h1, fun i n hn => h2 i n (lt_count_of_get hn) hn, ?_⟩
  cases hw : (s.fr t).who with
  | none => exact .inl (hlf.whoNone hw)
  | some k =>
    obtain ⟨n, hn, he⟩ := hlf.whoSome k hw hm
    exact .inr ⟨k, n, hn, he⟩

/-- Safety form of "it does not keep sleeping after one becomes ready" (disjuncts (A)–(E) of the header). -/
theorem C11_no_oversleep {evs : List Event} {s : State} {t : Tid} {i : Nat} {r : Rid}
    (hrun : run init evs = .ok s) (hp : atP s t) (hr : (s.fr t).recs[i]? = some r) (hrdy : becameReady s t i r) :
    Tok s (binSem evs) t
    ∨ InFlight s t
    ∨ (∃ u c l, wk (s.pc u) = some (c, l) ∧ r ∈ pend (s.post u) l)
    ∨ (∃ o u, (s.fr t).objs[i]? = some o ∧ o.isCv = false ∧ wakeable o (s.obj o) = true ∧ r ∈ (s.obj o).queue
          ∧ (s.obj o).lock = some u)
    ∨ expiredB (s.fr t).min s.now = true := by
  have hreach : Reachable s := ⟨evs, hrun⟩
  cases hw : (s.rcd r).waiting with
  | false =>
    rcases C11_cleared_accounted hrun hp hr hw with h | h
    · exact .inl h
    · exact .inr (.inl h)
  | true =>
    have hsl := inSleep_of_atP hp
    have hc := inCall_of_inSleep hsl
    have hil := inLoop_of_inSleep hsl (linv_of_reachable hreach t)
    have own := own_of_reachable hreach
    have q := (qinv_of_reachable hreach).qi
    have hlive := (own.own t r hc hil.frees (List.mem_of_getElem? hr)).1
    have hidx := own.idx t i r hc hil.frees hr
    rcases q.q3 r hlive hw with hq | hpend
    · -- still queued on its object
      unfold becameReady at hrdy
      rw [hidx] at hrdy
      have held : ∀ o, (s.rcd r).obj = o → o.isCv = false → wakeable o (s.obj o) = true →
          ∃ o u, (s.fr t).objs[i]? = some o ∧ o.isCv = false ∧ wakeable o (s.obj o) = true ∧ r ∈ (s.obj o).queue
            ∧ (s.obj o).lock = some u := by
        intro o ho hcv hwk
        rw [ho] at hq hidx
        have := q.q7 o hcv hwk (List.ne_nil_of_mem hq)
        cases hlk : (s.obj o).lock with
        | none => exact absurd hlk this
        | some u => exact ⟨o, u, hidx, hcv, hwk, hq, hlk⟩
      cases ho : (s.rcd r).obj with
      | cv c => rw [ho] at hrdy hq; exact absurd hq hrdy
      | ctr c =>
        rw [ho] at hrdy
        exact .inr (.inr (.inr (.inl (held _ ho rfl (by simpa [wakeable] using hrdy)))))
      | note n =>
        rw [ho] at hrdy hidx
        rcases hrdy with hfl | hex
        · exact .inr (.inr (.inr (.inl (held _ ho rfl (by simpa [wakeable] using hfl)))))
        · exact .inr (.inr (.inr (.inr (expiredB_of_dle ((sleep_deadline_state hreach hp).2.2.1 i n hidx) hex))))
    · exact .inr (.inr (.inl hpend))

/-- `pd_enter` of the P of wait.c:78 is accepted only with the deadline `min_ntime` of the preceding scan, which
    is after time zero, at most abs_deadline, at most the expiry of every note of the call, and equal to
    abs_deadline or to the expiry of one of the notes. -/
theorem C11_sleep_deadline {s s' : State} {t : Tid} {j : SemId} {d : Deadline} (hr : Reachable s)
    (hpc : s.pc t = .wPdEnter) (hs : step s (.thr t (.pdEnter j d)) = .ok s') :
    d = (s.fr t).min ∧ dlePast d = false ∧ dle d (s.fr t).dl
    ∧ (∀ (i n : Nat), (s.fr t).objs[i]? = some (ObjId.note n) → dle d (s.obj (.note n)).expiry)
    ∧ (d = (s.fr t).dl ∨ ∃ k n : Nat, (s.fr t).objs[k]? = some (ObjId.note n) ∧ d = (s.obj (.note n)).expiry) := by
  have hd : d = (s.fr t).min := by
    simp only [step, stepThr, hpc, stepPdEnter] at hs
    split at hs
    · assumption
    · simp at hs
  subst hd
  exact ⟨rfl, sleep_deadline_state hr (.inl hpc)⟩

/-- At the P, a cv record that is no longer on pcv->waiters has been unlinked by a signaller (ghost `unl`). -/
theorem C11_cv_unlinked_by_waker {s : State} {t : Tid} {i c : Nat} {r : Rid} (hreach : Reachable s) (hp : atP s t)
    (hr : (s.fr t).recs[i]? = some r) (ho : (s.fr t).objs[i]? = some (.cv c)) (hq : r ∉ (s.obj (.cv c)).queue) :
    (s.rcd r).unl = .waker := by
  have hsl := inSleep_of_atP hp
  have hc := inCall_of_inSleep hsl
  have hil := inLoop_of_inSleep hsl (linv_of_reachable hreach t)
  have own := own_of_reachable hreach
  have qi := qinv_of_reachable hreach
  have ul := ulife_of_reachable hreach
  have hlive := (own.own t r hc hil.frees (List.mem_of_getElem? hr)).1
  have hidx := own.idx t i r hc hil.frees hr
  rw [ho] at hidx
  have hobj : (s.rcd r).obj = .cv c := (Option.some.inj hidx).symm
  cases hw : (s.rcd r).waiting with
  | true =>
    rcases qi.qi.q3 r hlive hw with h | ⟨u, c', l, h1, h2⟩
    · rw [hobj] at h; exact absurd h hq
    · exact ul.pend u c' l r h1 h2
  | false =>
    cases hu : (s.rcd r).unl with
    | waker => rfl
    | none =>
      exfalso
      rcases ul.fresh t i r c hc hil.frees hr hobj hu with h | h
      · rw [hw] at h; cases h
      · rcases hp with hp | ⟨j, hp⟩ <;> rw [hp] at h <;> simp [freshAt] at h
    | owner =>
      exfalso
      rcases ul.owner t i r c hc hil.frees hr hobj hu with h | h
      · have := ((qi.cf t).dq hc hil.frees i r hr).1 h
        rcases hp with hp | ⟨j, hp⟩ <;> rw [hp] at this <;> simp [dqIdx] at this
      · rcases hp with hp | ⟨j, hp⟩ <;> rw [hp] at h <;> cases h

/-! ### non-vacuity, and the interleaving of defect F3 before and after the repair -/

namespace Example

def lock (t : Tid) (o : ObjId) : List Event := [.thr t (.lockCall o), .thr t .other, .thr t .lockRet]
def unlock (t : Tid) (o : ObjId) : List Event := [.thr t (.unlockCall o), .thr t .other, .thr t .unlockRet]
/-- nsync_note_notified_deadline_ on an un-notified note without deadline -/
def nd (t : Tid) (n : Nat) (now : Nat) : List Event :=
  [.thr t (.ld .acq (.notified n) .noteND 0)] ++ lock t (.note n) ++ [.thr t (.ld .acq (.notified n) .noteND 0)]
  ++ unlock t (.note n) ++ [.thr t (.now now)]
def ctrRT (t : Tid) (k : Nat) (w v : Nat) : List Event :=
  [.thr t (.st .rlx (.waited k) .ctrRT 1 w), .thr t (.ld .acq (.value k) .ctrRT v)]
def noteEnq (t : Tid) (n : Nat) (r : Rid) : List Event :=
  lock t (.note n) ++ [.thr t (.ld .acq (.notified n) .noteEnq 0), .thr t (.st .rlx (.waiting r) .noteEnq 1 0)]
  ++ unlock t (.note n)
def ctrEnq (t : Tid) (k : Nat) (r : Rid) (v : Nat) : List Event :=
  lock t (.ctr k) ++ [.thr t (.ld .acq (.value k) .ctrEnq v), .thr t (.st .rlx (.waiting r) .ctrEnq 1 0)]
  ++ unlock t (.ctr k)
def noteDeq (t : Tid) (n : Nat) (r : Rid) (now : Nat) : List Event :=
  nd t n now ++ lock t (.note n)
  ++ [.thr t (.ld .acq (.notified n) .noteDeq 0), .thr t (.st .rlx (.waiting r) .noteDeq 0 1)] ++ unlock t (.note n)
def ctrDeq0 (t : Tid) (k : Nat) (r : Rid) : List Event :=
  lock t (.ctr k) ++ [.thr t (.ld .acq (.value k) .ctrDeq 0), .thr t (.ld .acq (.waiting r) .ctrDeq 0)] ++ unlock t (.ctr k)
def spin (t : Tid) (c w : Nat) : List Event :=
  [.thr t (.ld .rlx (.cvWord c) .spin w), .thr t (.cas .acq (.cvWord c) .spin w (w + 1) w true)]
def cvEnq (t : Tid) (c : Nat) (r : Rid) : List Event :=
  [.thr t (.st .rlx (.waiting r) .waitN 0 9)] ++ spin t c 0
  ++ [.thr t (.st .rlx (.waiting r) .cvEnq 1 0), .thr t (.st .rel (.cvWord c) .cvEnq 2 1)]
def cvDeq1 (t : Tid) (c : Nat) (r : Rid) : List Event :=
  spin t c 2 ++ [.thr t (.ld .acq (.waiting r) .cvDeq 1), .thr t (.st .rlx (.waiting r) .cvDeq 0 1),
                 .thr t (.st .rel (.cvWord c) .cvDeq 0 3)]

/-- note 0 and counter 0 (value 1), no deadline; the counter reaches zero during the sleep; returns 1 -/
def noteCtr : List Event :=
  [.thr 9 (.newNote 0 none), .thr 9 (.newCtr 0 1), .thr 0 (.callWaitN none none [.note 0, .ctr 0] false)]
  ++ nd 0 0 0 ++ ctrRT 0 0 0 1
  ++ [.thr 0 (.st .rlx (.waiting (.stk 0)) .waitN 0 5)] ++ noteEnq 0 0 (.stk 0)
  ++ [.thr 0 (.st .rlx (.waiting (.stk 1)) .waitN 0 5)] ++ ctrEnq 0 0 (.stk 1) 1
  ++ nd 0 0 0 ++ ctrRT 0 0 1 1 ++ [.thr 0 (.pdEnter 3 none)]
  ++ lock 1 (.ctr 0) ++ [.thr 1 (.ld .rlx (.value 0) .other 1), .thr 1 (.cas .ar (.value 0) .other 1 0 1 true),
      .thr 1 (.st .rel (.waiting (.stk 1)) .other 0 1), .thr 1 (.semV 3)] ++ unlock 1 (.ctr 0)
  ++ [.thr 0 (.pdRet 3 false)] ++ nd 0 0 0 ++ ctrRT 0 0 1 0
  ++ noteDeq 0 0 (.stk 0) 0 ++ ctrDeq0 0 0 (.stk 1)

example : accepts (noteCtr ++ [.thr 0 (.retWaitN 1 false)]) = true := by decide
/-- the hypotheses of `C11_index_ready` are satisfiable (object 1 is a counter at zero) -/
example : (final noteCtr).map (fun s => decide (s.pc 0 = .wRet 1 ∧ (s.obj (.ctr 0)).value = 0 ∧ (s.fr 0).deqRes = [true, false]))
    = some true := by decide
/-- the same return with a wrong index is rejected -/
example : accepts (noteCtr ++ [.thr 0 (.retWaitN 0 false)]) = false := by decide

def five : List ObjId := [.cv 0, .cv 1, .cv 2, .cv 3, .cv 4]
/-- five condition variables (count > 4: heap array 7), mutex 0, deadline 500: times out, returns 5 -/
def heapTimeout : List Event :=
  [.thr 0 (.callWaitN (some 0) (some 500) five false), .thr 0 (.malloc (some 7))]
  ++ cvEnq 0 0 (.heap 7 0) ++ cvEnq 0 1 (.heap 7 1) ++ cvEnq 0 2 (.heap 7 2) ++ cvEnq 0 3 (.heap 7 3) ++ cvEnq 0 4 (.heap 7 4)
  ++ [.thr 0 (.annRel 0)]
  ++ [.thr 0 (.ld .acq (.waiting (.heap 7 0)) .cvRT 1), .thr 0 (.ld .acq (.waiting (.heap 7 1)) .cvRT 1),
      .thr 0 (.ld .acq (.waiting (.heap 7 2)) .cvRT 1), .thr 0 (.ld .acq (.waiting (.heap 7 3)) .cvRT 1),
      .thr 0 (.ld .acq (.waiting (.heap 7 4)) .cvRT 1), .thr 0 (.pdEnter 1 (some 500)), .tick 500, .thr 0 (.pdRet 1 true)]
  ++ cvDeq1 0 0 (.heap 7 0) ++ cvDeq1 0 1 (.heap 7 1) ++ cvDeq1 0 2 (.heap 7 2) ++ cvDeq1 0 3 (.heap 7 3) ++ cvDeq1 0 4 (.heap 7 4)
  ++ [.thr 0 (.free 7), .thr 0 (.annAcq 0)]

example : accepts (heapTimeout ++ [.thr 0 (.retWaitN 5 false)]) = true := by decide
/-- the hypotheses of `C11_timeout` / `C11_heap_path` / `C11_mutex` are satisfiable -/
example : (final heapTimeout).map (fun s => decide (s.pc 0 = .wRet 5 ∧ (s.fr 0).mallocs = 1 ∧ (s.fr 0).frees = 1
    ∧ (s.fr 0).held = true ∧ (s.fr 0).deqRes = [true, true, true, true, true] ∧ s.now = 500)) = some true := by decide
/-- a timeout reported before the deadline is rejected; so is a missing `free` -/
example : accepts ([.thr 0 (.callWaitN none (some 500) [.cv 0] false)] ++ cvEnq 0 0 (.stk 0)
  ++ [.thr 0 (.ld .acq (.waiting (.stk 0)) .cvRT 1), .thr 0 (.pdEnter 1 (some 500)), .tick 499, .thr 0 (.pdRet 1 true)]) = false := by
  decide
example : accepts (heapTimeout.dropLast.dropLast ++ [.thr 0 (.annAcq 0)]) = false := by decide

/-- one condition variable with mutex 0, no deadline; a signaller wakes the caller; returns 0 -/
def cvWoken : List Event :=
  [.thr 0 (.callWaitN (some 0) none [.cv 0] false)] ++ cvEnq 0 0 (.stk 4)
  ++ [.thr 0 (.annRel 0), .thr 0 (.ld .acq (.waiting (.stk 4)) .cvRT 1), .thr 0 (.pdEnter 2 none)]
  ++ [.thr 1 (.callSig 0 false), .thr 1 (.ld .acq (.cvWord 0) .sig 2)] ++ spin 1 0 2
  ++ [.thr 1 (.st .rel (.cvWord 0) .sig 0 3), .thr 1 (.st .rel (.waiting (.stk 4)) .wake 0 1), .thr 1 (.semV 2),
      .thr 1 (.retSig false)]
  ++ [.thr 0 (.pdRet 2 false), .thr 0 (.ld .acq (.waiting (.stk 4)) .cvRT 0)] ++ spin 0 0 0
  ++ [.thr 0 (.ld .acq (.waiting (.stk 4)) .cvDeq 0), .thr 0 (.st .rel (.cvWord 0) .cvDeq 0 1), .thr 0 (.annAcq 0)]

example : accepts (cvWoken ++ [.thr 0 (.retWaitN 0 false)]) = true := by decide
example : (final cvWoken).map (fun s => decide (s.pc 0 = .wRet 0 ∧ (s.rcd (.stk 4)).unl = .waker ∧ (s.fr 0).deqUnl = [.waker])) = some true := by
  decide

/-! #### the window of defect F3 -/

def r0 : Rid := .stk 0
/-- t: nsync_wait_n ([cv 0]) up to the sleep: init, cv_enqueue, one scan, pd_enter on sem j (cv word w before) -/
def cvSleep (t : Tid) (r : Rid) (dl : Deadline) (j : SemId) (w : Nat) : List Event :=
  [.thr t (.callWaitN none dl [.cv 0] false), .thr t (.st .rlx (.waiting r) .waitN 0 7)] ++ spin t 0 w
  ++ [.thr t (.st .rlx (.waiting r) .cvEnq 1 0), .thr t (.st .rel (.cvWord 0) .cvEnq 2 (w + 1)),
      .thr t (.ld .acq (.waiting r) .cvRT 1), .thr t (.pdEnter j dl)]
/-- u: nsync_cv_signal (cv 0) up to and including the unlink (spinlock released, `waiting` not yet cleared) -/
def sigUnlink (u : Tid) : List Event :=
  [.thr u (.callSig 0 false), .thr u (.ld .acq (.cvWord 0) .sig 2)] ++ spin u 0 2
  ++ [.thr u (.st .rel (.cvWord 0) .sig 0 3)]
/-- the caller's deadline expires inside the window; cv_dequeue takes the spinlock and reads `waiting == 1` -/
def window : List Event :=
  cvSleep 0 r0 (some 500) 0 0 ++ sigUnlink 1 ++ [.tick 500, .thr 0 (.pdRet 0 true)] ++ spin 0 0 0
  ++ [.thr 0 (.ld .acq (.waiting r0) .cvDeq 1)]
/-- the code before the repair: "remove" the record, report a timeout -/
def oldF3 : List Event :=
  window ++ [.thr 0 (.st .rlx (.waiting r0) .cvDeq 0 1)]
/-- the repaired code (the first execution of corpus/C13/f3_waitn_cv.txt): the record is not on
    pcv->waiters, release the spinlock, wait until the signaller has cleared `waiting`, return index 0;
    the signaller's V comes after the return and touches no record -/
def fixed : List Event :=
  window ++ [.thr 0 (.st .rel (.cvWord 0) .cvDeq 0 1), .thr 0 (.ld .acq (.waiting r0) .cvDeq 1),
             .thr 1 (.st .rel (.waiting r0) .wake 0 1), .thr 0 (.ld .acq (.waiting r0) .cvDeq 0)]

example : accepts window = true := by decide
example : accepts oldF3 = false := by decide
example : accepts (fixed ++ [.thr 0 (.retWaitN 0 false), .thr 1 (.semV 0), .thr 1 (.retSig false)]) = true := by decide
/-- … and it cannot report a timeout, nor return before the waker's store -/
example : accepts (fixed ++ [.thr 0 (.retWaitN 1 false)]) = false := by decide
example : accepts (fixed.dropLast.dropLast ++ [.thr 0 (.ld .acq (.waiting r0) .cvDeq 0)]) = false := by decide
example : (final fixed).map (fun s => decide (s.pc 0 = .wRet 0 ∧ (s.fr 0).deqUnl = [.waker] ∧ (s.rcd r0).live = true
    ∧ s.post 1 = some r0)) = some true := by decide

/-! #### no oversleep: each disjunct of `C11_no_oversleep` in an accepted trace -/

/-- t: nsync_wait_n ([cv 0]) up to the end of the first scan: the next event of t is the `pd_enter` of the P -/
def cvScan (t : Tid) (r : Rid) (dl : Deadline) (w : Nat) : List Event :=
  [.thr t (.callWaitN none dl [.cv 0] false), .thr t (.st .rlx (.waiting r) .waitN 0 7)] ++ spin t 0 w
  ++ [.thr t (.st .rlx (.waiting r) .cvEnq 1 0), .thr t (.st .rel (.cvWord 0) .cvEnq 2 (w + 1)),
      .thr t (.ld .acq (.waiting r) .cvRT 1)]

/-- the cv becomes ready for the caller BETWEEN its scan and its P.
    (C): a signaller has unlinked the record under the spinlock and not yet cleared `waiting` -/
def oversleepC : List Event := cvScan 0 r0 none 0 ++ sigUnlink 1
/-- (B): it has cleared `waiting`; its next semaphore operation is the V -/
def oversleepB : List Event := oversleepC ++ [.thr 1 (.st .rel (.waiting r0) .wake 0 1)]
/-- (A): the V is done before the caller's `pd_enter`: the token waits for the P -/
def oversleepA : List Event := oversleepB ++ [.thr 1 (.semV 5)]

example : (final oversleepC).map (fun s => decide (s.pc 0 = .wPdEnter ∧ (s.fr 0).recs = [r0] ∧ r0 ∉ (s.obj (.cv 0)).queue
    ∧ (s.rcd r0).waiting = true ∧ wk (s.pc 1) = some (0, [r0]) ∧ s.post 1 = none ∧ s.post 0 = none
    ∧ (s.fr 0).sem = none)) = some true := by decide
example : (final oversleepB).map (fun s => decide (s.pc 0 = .wPdEnter ∧ (s.rcd r0).waiting = false ∧ s.post 1 = some r0
    ∧ (s.fr 0).sem = none ∧ s.sem 5 = 0)) = some true := by decide
example : (final oversleepA).map (fun s => decide (s.pc 0 = .wPdEnter ∧ (s.fr 0).sem = some 5 ∧ s.sem 5 = 1 ∧ s.post 1 = none))
    = some true := by decide
example : binSem oversleepA 5 = true := by decide
/-- the P returns at once (no tick), the next scan sees `waiting == 0`, the loop is left -/
example : (final (oversleepA ++ [.thr 0 (.pdEnter 5 none), .thr 0 (.pdRet 5 false), .thr 0 (.ld .acq (.waiting r0) .cvRT 0)])).map
    (fun s => decide (s.pc 0 = .wDeqCv 0 (.spin .ld) ∧ (s.fr 0).why = .readyAt 0 ∧ s.now = 0)) = some true := by decide
/-- a P that returns 0 before the V is rejected, in (C) and in (B) -/
example : accepts (oversleepC ++ [.thr 0 (.pdEnter 5 none), .thr 0 (.pdRet 5 false)]) = false := by decide
example : accepts (oversleepB ++ [.thr 0 (.pdEnter 5 none), .thr 0 (.pdRet 5 false)]) = false := by decide
/-- flavours: a second V (here from foreign code) is absorbed by a binary semaphore; after the P the counting
    count is 1, the binary one 0, and the caller is scanning, not sleeping -/
example : binSem (oversleepA ++ [.thr 2 (.semV 5), .thr 0 (.pdEnter 5 none), .thr 0 (.pdRet 5 false)]) 5 = false := by decide
example : (final (oversleepA ++ [.thr 2 (.semV 5), .thr 0 (.pdEnter 5 none), .thr 0 (.pdRet 5 false)])).map
    (fun s => decide (s.sem 5 = 1 ∧ s.pc 0 = .wCvRT 0)) = some true := by decide

/-- t: nsync_wait_n ([note 0]) asleep in the P on semaphore 3 with deadline d (= the note's expiry `ex`, or none) -/
def noteSleep (ex d : Deadline) : List Event :=
  [.thr 9 (.newNote 0 ex), .thr 0 (.callWaitN none none [.note 0] false)] ++ nd 0 0 0
  ++ [.thr 0 (.st .rlx (.waiting (.stk 0)) .waitN 0 5)] ++ noteEnq 0 0 (.stk 0) ++ nd 0 0 0 ++ [.thr 0 (.pdEnter 3 d)]

/-- (D): the note is notified while the caller sleeps; the notifier holds note_mu and the record is still queued -/
def oversleepD : List Event := noteSleep none none ++ lock 1 (.note 0) ++ [.thr 1 (.st .rel (.notified 0) .notify 1 0)]

example : (final oversleepD).map (fun s => decide (s.pc 0 = .wPdWait 3 ∧ (s.obj (.note 0)).flag = true
    ∧ Rid.stk 0 ∈ (s.obj (.note 0)).queue ∧ (s.obj (.note 0)).lock = some 1 ∧ (s.rcd (.stk 0)).waiting = true
    ∧ s.sem 3 = 0 ∧ s.post 1 = none)) = some true := by decide
/-- the notifier cannot release note_mu before it has woken the caller -/
example : accepts (oversleepD ++ [.thr 1 (.unlockCall (.note 0))]) = false := by decide
/-- … it pops the record, posts, unlocks; the P returns, the scan reads `notified` and the loop is left -/
example : (final (oversleepD ++ [.thr 1 (.st .rel (.waiting (.stk 0)) .notify 0 1), .thr 1 (.semV 3)] ++ unlock 1 (.note 0)
    ++ [.thr 0 (.pdRet 3 false), .thr 0 (.ld .acq (.notified 0) .noteND 1)])).map
    (fun s => decide (s.pc 0 = .wND .deq 0 .ld0 ∧ (s.fr 0).why = .readyAt 0)) = some true := by decide

/-- (E): lazy expiry.  Nobody notifies the note; its deadline 500 passes while the caller sleeps: the P was
    called with that deadline (`C11_sleep_deadline`), so it times out -/
def oversleepE : List Event := noteSleep (some 500) (some 500) ++ [.tick 500]

example : (final oversleepE).map (fun s => decide (s.pc 0 = .wPdWait 3 ∧ (s.obj (.note 0)).flag = false
    ∧ expiredB (s.obj (.note 0)).expiry s.now = true ∧ (s.obj (.note 0)).lock = none ∧ s.sem 3 = 0
    ∧ (s.fr 0).min = some 500 ∧ expiredB (s.fr 0).min s.now = true)) = some true := by decide
example : accepts (oversleepE ++ [.thr 0 (.pdRet 3 true)]) = true := by decide
/-- the P of a call on a note with a deadline cannot be entered without that deadline -/
example : accepts (noteSleep (some 500) none) = false := by decide
example : accepts (noteSleep (some 500) (some 501)) = false := by decide

/-! the hypotheses of `C11_no_oversleep` are satisfiable in states where no token is available -/

theorem final_run {evs : List Event} {P : State → Bool} (h : (final evs).map P = some true) :
    ∃ s, run init evs = .ok s ∧ P s = true := by
  unfold final at h
  split at h
  · rename_i s hs
    simp only [Option.map_some, Option.some.injEq] at h
    exact ⟨s, hs, h⟩
  · simp at h

example : ∃ s, run init oversleepC = .ok s ∧ atP s 0 ∧ (s.fr 0).recs[0]? = some r0 ∧ becameReady s 0 0 r0
    ∧ ¬ Tok s (binSem oversleepC) 0 := by
  obtain ⟨s, hs, hp⟩ := final_run (evs := oversleepC) (P := fun s => decide (s.pc 0 = .wPdEnter ∧ (s.fr 0).recs[0]? = some r0
    ∧ (s.fr 0).objs[0]? = some (ObjId.cv 0) ∧ r0 ∉ (s.obj (.cv 0)).queue ∧ (s.fr 0).sem = none)) (by decide)
  simp only [decide_eq_true_eq] at hp
  refine ⟨s, hs, .inl hp.1, hp.2.1, ?_, ?_⟩
  · unfold becameReady; rw [hp.2.2.1]; exact hp.2.2.2.1
  · rintro ⟨j, hj, _⟩; rw [hp.2.2.2.2] at hj; cases hj

example : ∃ s, run init oversleepD = .ok s ∧ atP s 0 ∧ (s.fr 0).recs[0]? = some (Rid.stk 0) ∧ becameReady s 0 0 (.stk 0)
    ∧ ¬ Tok s (binSem oversleepD) 0 := by
  obtain ⟨s, hs, hp⟩ := final_run (evs := oversleepD) (P := fun s => decide (s.pc 0 = .wPdWait 3 ∧ (s.fr 0).recs[0]? = some (Rid.stk 0)
    ∧ (s.fr 0).objs[0]? = some (ObjId.note 0) ∧ (s.obj (.note 0)).flag = true ∧ (s.fr 0).sem = some 3 ∧ s.sem 3 = 0)) (by decide)
  simp only [decide_eq_true_eq] at hp
  refine ⟨s, hs, .inr ⟨3, hp.1⟩, hp.2.1, ?_, ?_⟩
  · unfold becameReady; rw [hp.2.2.1]; exact .inl hp.2.2.2.1
  · rintro ⟨j, hj, hpos, _⟩
    rw [hp.2.2.2.2.1] at hj; cases hj
    rw [hp.2.2.2.2.2] at hpos; cases hpos

example : ∃ s, run init oversleepE = .ok s ∧ atP s 0 ∧ (s.fr 0).recs[0]? = some (Rid.stk 0) ∧ becameReady s 0 0 (.stk 0)
    ∧ ¬ Tok s (binSem oversleepE) 0 := by
  obtain ⟨s, hs, hp⟩ := final_run (evs := oversleepE) (P := fun s => decide (s.pc 0 = .wPdWait 3 ∧ (s.fr 0).recs[0]? = some (Rid.stk 0)
    ∧ (s.fr 0).objs[0]? = some (ObjId.note 0) ∧ expiredB (s.obj (.note 0)).expiry s.now = true ∧ (s.fr 0).sem = some 3
    ∧ s.sem 3 = 0)) (by decide)
  simp only [decide_eq_true_eq] at hp
  refine ⟨s, hs, .inr ⟨3, hp.1⟩, hp.2.1, ?_, ?_⟩
  · unfold becameReady; rw [hp.2.2.1]; exact .inr hp.2.2.2.1
  · rintro ⟨j, hj, hpos, _⟩
    rw [hp.2.2.2.2.1] at hj; cases hj
    rw [hp.2.2.2.2.2] at hpos; cases hpos

/-- … and those of `C11_sleep_deadline` -/
example : ∃ s, Reachable s ∧ s.pc 0 = .wPdEnter
    ∧ okB (step s (.thr 0 (.pdEnter 3 (some 500)))) = true ∧ okB (step s (.thr 0 (.pdEnter 3 none))) = false := by
  obtain ⟨s, hs, hp⟩ := final_spec (evs := (noteSleep (some 500) (some 500)).dropLast) (P := fun s => decide (s.pc 0 = .wPdEnter
    ∧ okB (step s (.thr 0 (.pdEnter 3 (some 500)))) = true ∧ okB (step s (.thr 0 (.pdEnter 3 none))) = false)) (by decide)
  simp only [decide_eq_true_eq] at hp
  exact ⟨s, hs, hp⟩

end Example

end WaitN
