/-
  Props/C11.lean — property C11: "nsync_wait_n reports a ready object, or a real timeout, and cleans up."

  All theorems are about `Reachable s` of the WaitN acceptor (Model/WaitN.lean, the code AFTER the repair of
  defect F3 in cv.c): every number of callers, wakers, objects (1 ≤ count, stack and heap bookkeeping), every
  interleaving, every deadline and every sequence of ticks.  Trusted: the objects' mutexes are locks (C01/C02),
  the queues are sequences (C17), the semaphores are counting semaphores (C12).  Contract (explicit
  `Reject`s of the model): no increment of a counter from zero after a wait has been called.

  What "ready" means in the code (wait.c + the three waitables):
  * note:    NOTIFIED_TIME (n) <= 0 under note_mu, after nsync_note_notified_deadline_ has notified the
             note itself if its deadline had passed.  So a note whose deadline has passed counts as
             ready (and becomes notified by the caller), and a note created with a deadline that is not
             after time zero is "ready" without its `notified` flag ever being set (the flag is only
             read through NOTIFIED_TIME by the library; the harness oracles that read the flag
             directly report it, see tools/gen_waitn.py).  `noteReady` = notified ∨ deadline passed.
  * counter: value 0 observed (stable once a wait has been called: API contract).
  * cv:      cv_dequeue returned 0: it read `waiting == 0` under the cv spinlock, or it read `waiting != 0`,
             did not find the record on pcv->waiters and waited for `waiting == 0`.  In both cases a
             signaller had unlinked the record for this call (ghost `unl = waker`, recorded in the frame's
             ghost list `deqUnl` at the return of the dequeue call — the record itself may be reused by
             another thread's call between `free` and the return when count > 4).

  STATUS.  Proved as stated, for all three kinds of objects: `C11_index_ready`, `C11_timeout`,
  `C11_short_circuit`, `C11_cleanup` (+ `C11_cleanup_ret`), `C11_mutex` (+ `C11_mutex_marks`), `C11_heap_path`.
  * `C11_no_oversleep`: NOT PROVED (no partial result); the statement is kept as `C11_no_oversleep_full`.
    Missing: an accounting invariant for the call's semaphore (every cleared `waiting` is followed by a V
    that is only consumed by the owner's own `pd_ret`, and a scan that sees a cleared record does not sleep).
  The interleaving of defect F3 (caller times out between a signaller's unlink and its `waiting := 0`) is an
  `example` below: the old behaviour (cv_dequeue "removes" the record and reports a timeout) is REJECTED,
  the repaired behaviour (wait for the waker, return the cv's index) is accepted.
-/
import NsyncVerif.Proofs.WaitNAnn
import NsyncVerif.Proofs.WaitNDq2

set_option linter.unusedVariables false

namespace WaitN

/-! ### ready index -/

/-- object i of t's call is ready (notified / expired note, counter at zero, cv record unlinked by a
    signaller when its dequeue call returned) -/
def readyFor (s : State) (t : Tid) (i : Nat) : Prop :=
  match (s.fr t).objs[i]? with
  | some (.note n) => noteReady s n
  | some (.ctr c) => (s.obj (.ctr c)).value = 0
  | some (.cv _) => (s.fr t).deqUnl[i]? = some .waker
  | none => False

/-- what the return value of an accepted `ret nsync_wait_n r` is -/
theorem ret_facts {s s' : State} {t : Tid} {r : Nat} {nested : Bool} (hr : Reachable s)
    (hs : step s (.thr t (.retWaitN r nested)) = .ok s') :
    s.pc t = .wRet r ∧ LInv (.wRet r) (s.fr t) ∧ PostF s (s.fr t) := by
  have hpc := (ret_pc hs).1
  exact ⟨hpc, hpc ▸ linv_of_reachable hr t, by have := tf_of_reachable hr t; rw [hpc] at this; exact this⟩

/-- `ret nsync_wait_n i` with i < count is accepted only if object i is a note that is notified or whose
    deadline has passed, a counter whose value is 0, or a condition variable whose record a signaller had
    unlinked when cv_dequeue returned. -/
theorem C11_index_ready {s s' : State} {t : Tid} {r : Nat} {nested : Bool} (hr : Reachable s)
    (hs : step s (.thr t (.retWaitN r nested)) = .ok s') (hlt : r < (s.fr t).count) : readyFor s t r := by
  obtain ⟨_, hl, hp⟩ := ret_facts hr hs
  have hrr : r = (s.fr t).ready := hl.1
  unfold readyFor
  cases ho : (s.fr t).objs[r]? with
  | none =>
    have : r < (s.fr t).objs.length := hlt
    rw [List.getElem?_eq_getElem this] at ho; cases ho
  | some o =>
    cases o with
    | cv c =>
      simp only
      have hcv : isCvAt (s.fr t) (s.fr t).ready := ⟨c, hrr ▸ ho⟩
      have hne := hp.cvr (hrr ▸ hlt) hcv
      rcases hl.2 with ⟨hf, _, _⟩ | ⟨hpost, _⟩
      · exact absurd hf.recs hne
      · have h1 := (hpost.rdy.first (hrr ▸ hlt)).1
        rw [hrr]
        exact (dui_of_reachable hr).cv t _ c (hrr ▸ ho) h1
    | note n =>
      simp only
      have := hp.rdy (hrr ▸ hlt) (by rintro ⟨c, hc⟩; rw [← hrr, ho] at hc; cases hc)
      rw [← hrr] at this
      unfold sReady at this
      rw [ho] at this
      exact this
    | ctr k =>
      simp only
      have := hp.rdy (hrr ▸ hlt) (by rintro ⟨c, hc⟩; rw [← hrr, ho] at hc; cases hc)
      rw [← hrr] at this
      unfold sReady at this
      rw [ho] at this
      exact this.1

/-- every kind of object, cv included: after a sleep the returned index is the least one whose dequeue call
    reported "no longer enqueued" (for a cv: cv_dequeue read `waiting == 0` under the cv's spinlock). -/
theorem C11_index_ready_first {s s' : State} {t : Tid} {r : Nat} {nested : Bool} (hr : Reachable s)
    (hs : step s (.thr t (.retWaitN r nested)) = .ok s') (hlt : r < (s.fr t).count) (hne : (s.fr t).recs ≠ []) :
    (s.fr t).deqRes[r]? = some false ∧ ∀ k, k < r → (s.fr t).deqRes[k]? = some true := by
  obtain ⟨_, hl, _⟩ := ret_facts hr hs
  have hrr : r = (s.fr t).ready := hl.1
  rcases hl.2 with ⟨hf, _, _⟩ | ⟨hpost, _⟩
  · exact absurd hf.recs hne
  · rw [hrr]; exact hpost.rdy.first (hrr ▸ hlt)

/-! ### timeout -/

/-- `ret nsync_wait_n count` is accepted only if
    (a) the deadline was not after time zero and nothing was allocated, enqueued or slept on
        (the `abs_deadline <= 0` short-circuit of wait.c:39), or
    (b) the deadline of the call has passed, and every object was dequeued with the result
        "was still enqueued". -/
theorem C11_timeout {s s' : State} {t : Tid} {r : Nat} {nested : Bool} (hr : Reachable s)
    (hs : step s (.thr t (.retWaitN r nested)) = .ok s') (heq : r = (s.fr t).count) :
    (dlePast (s.fr t).dl = true ∧ (s.fr t).recs = [] ∧ (s.fr t).deqRes = [])
    ∨ (expiredB (s.fr t).dl s.now = true ∧ (s.fr t).deqRes.length = (s.fr t).recs.length
        ∧ (s.fr t).recs ≠ [] ∧ ∀ b ∈ (s.fr t).deqRes, b = true) := by
  obtain ⟨_, hl, hp⟩ := ret_facts hr hs
  have hrr : (s.fr t).ready = (s.fr t).count := hl.1 ▸ heq
  rcases hl.2 with ⟨hf, _, hd⟩ | ⟨hpost, _⟩
  · exact .inl ⟨hd hrr, hf.recs, hf.deqRes⟩
  · right
    have hall := hpost.rdy.all hrr
    have hwhy : (s.fr t).why = .timeout := by
      cases hw : (s.fr t).why with
      | none => exact absurd hw hpost.why
      | timeout => rfl
      | readyAt k =>
        have h1 := hp.why k hw
        have := hall false (List.mem_of_getElem? h1)
        cases this
    refine ⟨hp.tmo hwhy, hpost.dlen, ?_, hall⟩
    intro h0; have := hpost.npos; rw [h0] at this; exact absurd this (Nat.lt_irrefl _)

/-- the `abs_deadline <= 0` short-circuit: a caller whose deadline is not after time zero never
    leaves the first poll loop — no record, no allocation, no semaphore wait. -/
theorem C11_short_circuit {s : State} {t : Tid} (hr : Reachable s) (hc : inCall (s.pc t) = true)
    (hd : dlePast (s.fr t).dl = true) :
    (s.fr t).recs = [] ∧ (s.fr t).heap = none ∧ (s.fr t).mallocs = 0 ∧ (s.fr t).unlocked = false
    ∧ s.pc t ≠ .wPdEnter ∧ (∀ j, s.pc t ≠ .wPdWait j)
    ∧ ((∃ i l, s.pc t = .wCtrRT .poll i l) ∨ (∃ i st, s.pc t = .wND .poll i st) ∨ s.pc t = .wRet (s.fr t).ready) := by
  have hl := linv_of_reachable hr t
  have key : ∀ {f : Frame}, Alloc f → dlePast f.dl = true → False := fun a h => by rw [a.dl] at h; cases h
  cases hp : s.pc t with
  | idle => rw [hp] at hc; simp [inCall] at hc
  | sg c bc st => rw [hp] at hc; simp [inCall] at hc
  | stuck => rw [hp] at hl; exact hl.elim
  | wCtrRT u i l =>
    rw [hp] at hl
    cases u with
    | poll => exact ⟨hl.1.recs, hl.1.heap, hl.1.mallocs, hl.1.unlocked, by simp, by simp, .inl ⟨i, l, rfl⟩⟩
    | loop => exact (key hl.1.toAlloc hd).elim
    | deq => exact hl.elim
  | wND u i st =>
    rw [hp] at hl
    cases u with
    | poll => exact ⟨hl.1.recs, hl.1.heap, hl.1.mallocs, hl.1.unlocked, by simp, by simp, .inr (.inl ⟨i, st, rfl⟩)⟩
    | loop => exact (key hl.1.toAlloc hd).elim
    | deq => exact (key hl.1.toAlloc hd).elim
  | wAlloc => rw [hp] at hl; rw [hl.2.2.2] at hd; cases hd
  | wInit i => rw [hp] at hl; exact (key hl.1.toAlloc hd).elim
  | wEnqCv i st => rw [hp] at hl; exact (key hl.1.toAlloc hd).elim
  | wEnq i st => rw [hp] at hl; exact (key hl.1.toAlloc hd).elim
  | wUnlock => rw [hp] at hl; exact (key hl.1.toAlloc hd).elim
  | wCvRT j => rw [hp] at hl; exact (key hl.1.toAlloc hd).elim
  | wPdEnter => rw [hp] at hl; exact (key hl.1.toAlloc hd).elim
  | wPdWait j => rw [hp] at hl; exact (key hl.1.toAlloc hd).elim
  | wDeqCv j st => rw [hp] at hl; exact (key hl.1.toAlloc hd).elim
  | wDeq j st => rw [hp] at hl; exact (key hl.1.toAlloc hd).elim
  | wFree => rw [hp] at hl; exact (key hl.1.toAlloc hd).elim
  | wRelock => rw [hp] at hl; exact (key hl.1.toAlloc hd).elim
  | wRet r =>
    rw [hp] at hl
    rcases hl.2 with ⟨hf, _, _⟩ | ⟨hpost, _⟩
    · exact ⟨hf.recs, hf.heap, hf.mallocs, hf.unlocked, by simp, by simp, .inr (.inr (by rw [hl.1]))⟩
    · exact (key hpost.toAlloc hd).elim

/-! ### the supplied mutex -/

/-- Inside nsync_wait_n a lock annotation of the supplied mutex is accepted only as the `(*unlock) (mu)` of
    wait.c:62 — after the enqueue loop has attempted every object — or as the `(*lock) (mu)` of wait.c:96. -/
theorem C11_mutex_marks {s s' : State} {t : Tid} {e : Ev} {m : MuId} (hr : Reachable s)
    (he : e = .annRel m ∨ e = .annAcq m) (hc : inCall (s.pc t) = true) (hm : (s.fr t).mu = some m)
    (hs : step s (.thr t e) = .ok s') :
    (e = .annRel m ∧ s.pc t = .wUnlock ∧ (s.fr t).recs.length = (s.fr t).count ∧ (s.fr t).held = true)
    ∨ (e = .annAcq m ∧ s.pc t = .wRelock ∧ (s.fr t).held = false ∧ (s.fr t).deqRes.length = (s.fr t).recs.length) := by
  have hl := linv_of_reachable hr t
  rcases ann_pc he hc hm hs with ⟨h1, h2⟩ | ⟨h1, h2⟩
  · rw [h2] at hl
    exact .inl ⟨h1, h2, hl.2.1, by rw [hl.1.held, hm]; rfl⟩
  · rw [h2] at hl
    exact .inr ⟨h1, h2, hl.2.2, hl.1.dlen⟩

/-- `held` (ghost: the supplied mutex is held by the caller): true until the enqueue loop is over, false
    while the caller sleeps — and then every object has been attempted —, true again at the return. -/
theorem C11_mutex {s : State} {t : Tid} (hr : Reachable s) (hm : (s.fr t).mu.isSome = true) :
    ((∃ i, s.pc t = .wInit i) ∨ (∃ i st, s.pc t = .wEnqCv i st) ∨ (∃ i st, s.pc t = .wEnq i st) ∨ s.pc t = .wUnlock
        → (s.fr t).held = true ∧ (s.fr t).unlocked = false)
    ∧ (s.pc t = .wPdEnter ∨ (∃ j, s.pc t = .wPdWait j)
        → (s.fr t).held = false ∧ (s.fr t).unlocked = true ∧ (s.fr t).recs.length = (s.fr t).count)
    ∧ (∀ r, s.pc t = .wRet r → (s.fr t).held = true) := by
  have hl := linv_of_reachable hr t
  refine ⟨?_, ?_, ?_⟩
  · rintro (⟨i, hp⟩ | ⟨i, st, hp⟩ | ⟨i, st, hp⟩ | hp) <;> rw [hp] at hl <;>
      exact ⟨by rw [hl.1.held, hm], hl.1.unlocked⟩
  · rintro (hp | ⟨j, hp⟩) <;> rw [hp] at hl <;> exact ⟨hl.1.held, by rw [hl.1.unlocked, hm], hl.1.full⟩
  · intro r hp
    rw [hp] at hl
    rcases hl.2 with ⟨hf, _, _⟩ | ⟨_, hh⟩
    · rw [hf.held, hm]
    · rw [hh, hm]

/-! ### stack and heap bookkeeping -/

/-- At the return: a call over more than four objects that got past the first poll used one malloc'ed array,
    all its records are elements of that array, and it freed it exactly once; a call over at most four
    objects never called malloc / free and all its records are on its stack. -/
theorem C11_heap_path {s : State} {t : Tid} {r : Nat} (hr : Reachable s) (hp : s.pc t = .wRet r) :
    ((s.fr t).recs = [] → (s.fr t).mallocs = 0 ∧ (s.fr t).frees = 0)
    ∧ ((s.fr t).recs ≠ [] → 4 < (s.fr t).count →
        (s.fr t).mallocs = 1 ∧ (s.fr t).frees = 1 ∧ ∃ a, (s.fr t).heap = some a ∧ ∀ x ∈ (s.fr t).recs, ∃ i, x = .heap a i)
    ∧ ((s.fr t).recs ≠ [] → (s.fr t).count ≤ 4 →
        (s.fr t).mallocs = 0 ∧ (s.fr t).frees = 0 ∧ (s.fr t).heap = none ∧ ∀ x ∈ (s.fr t).recs, ∃ k, x = .stk k) := by
  have hl := linv_of_reachable hr t
  rw [hp] at hl
  rcases hl.2 with ⟨hf, _, _⟩ | ⟨hpost, _⟩
  · exact ⟨fun _ => ⟨hf.mallocs, hf.frees⟩, fun h => absurd hf.recs h, fun h => absurd hf.recs h⟩
  · have hne : (s.fr t).recs ≠ [] := fun h0 => by have := hpost.npos; rw [h0] at this; exact absurd this (Nat.lt_irrefl _)
    refine ⟨fun h0 => absurd h0 hne, ?_, ?_⟩
    · intro _ h4
      have hh := hpost.heap; simp only [h4, decide_true] at hh
      obtain ⟨a, ha⟩ := Option.isSome_iff_exists.1 hh
      refine ⟨by rw [hpost.mallocs]; simp [h4], by rw [hpost.frees, hpost.mallocs]; simp [h4], a, ha, ?_⟩
      intro x hx
      have := hpost.kinds x hx
      rw [ha] at this
      cases x with
      | stk k => exact this.elim
      | heap a' i => simp only [recKind] at this; subst this; exact ⟨i, rfl⟩
    · intro _ h4
      have h4' : ¬ 4 < (s.fr t).count := Nat.not_lt.2 h4
      have hh := hpost.heap; simp only [h4', decide_false] at hh
      have hn : (s.fr t).heap = none := by
        cases hx : (s.fr t).heap with
        | none => rfl
        | some a => rw [hx] at hh; cases hh
      refine ⟨by rw [hpost.mallocs]; simp [h4'], by rw [hpost.frees, hpost.mallocs]; simp [h4'], hn, ?_⟩
      intro x hx
      have := hpost.kinds x hx
      rw [hn] at this
      cases x with
      | stk k => exact ⟨k, rfl⟩
      | heap a' i => exact this.elim

/-! ### cleanup -/

/-- a record whose lifetime ends in this step — the return of a call with count <= 4, or the `free` of the
    heap array — belongs to the stepping caller, whose dequeue call for it has returned; it is in no object's
    queue, no signaller is between unlinking it and clearing its `waiting`, and no note / counter waker is
    between removing it and posting. -/
theorem C11_cleanup {s s' : State} {ev : Event} {r : Rid} (hr : Reachable s) (hs : step s ev = .ok s')
    (hl : registered s r) (hd : ¬ registered s' r) :
    (∃ t e, ev = .thr t e ∧ (s.rcd r).owner = t ∧ r ∈ (s.fr t).recs ∧ (s.pc t = .wFree ∨ ∃ r0, s.pc t = .wRet r0))
    ∧ (s.rcd r).deqd = true
    ∧ (∀ o, r ∉ (s.obj o).queue)
    ∧ (∀ u c l, wk (s.pc u) = some (c, l) → r ∉ pend (s.post u) l)
    ∧ (∀ u, s.post u = some r → (wk (s.pc u)).isSome = true) := by
  have hd' : (s'.rcd r).live = false := by
    cases hx : (s'.rcd r).live with
    | false => rfl
    | true => exact absurd hx hd
  obtain ⟨t, e, h1, h2, h3, h4, h5, _⟩ := dies_facts hr hs hl hd'
  have := deqd_out (qinv_of_reachable hr).qi h4
  exact ⟨⟨t, e, h1, h3, h2, h5⟩, h4, this.1, this.2.1, this.2.2⟩

/-- the statement at the return of a call whose records are on the caller's stack (count <= 4): none of them
    is in a queue, between a signaller's unlink and clear, or in the hands of a note / counter waker.
    (For count > 4 the records die at `free`: `C11_cleanup`.) -/
theorem C11_cleanup_ret {s s' : State} {t : Tid} {i : Nat} {nested : Bool} (hr : Reachable s)
    (hs : step s (.thr t (.retWaitN i nested)) = .ok s') (hh : (s.fr t).heap = none) :
    ∀ r ∈ (s.fr t).recs, (∀ o, r ∉ (s.obj o).queue) ∧ (∀ u c l, wk (s.pc u) = some (c, l) → r ∉ pend (s.post u) l)
      ∧ (∀ u, s.post u = some r → (wk (s.pc u)).isSome = true) := by
  intro r hm
  obtain ⟨hpc, hl, _⟩ := ret_facts hr hs
  have hfz : (s.fr t).frees = 0 := by
    rcases hl.2 with ⟨hf, _, _⟩ | ⟨hpost, _⟩
    · exact hf.frees
    · have h4 : ¬ 4 < (s.fr t).count := by
        intro h4; have := hpost.heap; rw [hh] at this; simp [h4] at this
      rw [hpost.frees, hpost.mallocs]; simp [h4]
  have hlive := ((own_of_reachable hr).own t r (by rw [hpc]; rfl) hfz hm).1
  have hdead : ¬ registered s' r := by
    simp only [step, stepThr, hpc, stepRet] at hs
    split at hs
    · cases hs; simp [registered, hh, hm]
    · simp at hs
  have := C11_cleanup hr hs hlive hdead
  exact ⟨this.2.2.1, this.2.2.2.1, this.2.2.2.2⟩

/-- FULL statement of the oversleep property (NOT PROVED): a caller asleep in the semaphore whose call has a
    record with `waiting = 0` has a token to consume, or a waker is about to post it. -/
def C11_no_oversleep_full : Prop :=
  ∀ (s : State) (t : Tid) (j : SemId), Reachable s → s.pc t = .wPdWait j →
    (∃ r ∈ (s.fr t).recs, (s.rcd r).waiting = false) → 0 < s.sem j ∨ ∃ u r, s.post u = some r ∧ r ∈ (s.fr t).recs

/-! ### non-vacuity, and the interleaving of defect F3 before and after the repair -/

namespace Example

def lock (t : Tid) (o : ObjId) : List Event := [.thr t (.lockCall o), .thr t .other, .thr t .lockRet]
def unlock (t : Tid) (o : ObjId) : List Event := [.thr t (.unlockCall o), .thr t .other, .thr t .unlockRet]
/-- nsync_note_notified_deadline_ on an un-notified note without deadline -/
def nd (t : Tid) (n : Nat) (now : Nat) : List Event :=
  [.thr t (.ld .acq (.notified n) .noteND 0)] ++ lock t (.note n) ++ [.thr t (.ld .acq (.notified n) .noteND 0)]
  ++ unlock t (.note n) ++ [.thr t (.now now)]
def ctrRT (t : Tid) (k : Nat) (w v : Nat) : List Event :=
  [.thr t (.st .rlx (.waited k) .ctrRT 1 w), .thr t (.ld .acq (.value k) .ctrRT v)]
def noteEnq (t : Tid) (n : Nat) (r : Rid) : List Event :=
  lock t (.note n) ++ [.thr t (.ld .acq (.notified n) .noteEnq 0), .thr t (.st .rlx (.waiting r) .noteEnq 1 0)]
  ++ unlock t (.note n)
def ctrEnq (t : Tid) (k : Nat) (r : Rid) (v : Nat) : List Event :=
  lock t (.ctr k) ++ [.thr t (.ld .acq (.value k) .ctrEnq v), .thr t (.st .rlx (.waiting r) .ctrEnq 1 0)]
  ++ unlock t (.ctr k)
def noteDeq (t : Tid) (n : Nat) (r : Rid) (now : Nat) : List Event :=
  nd t n now ++ lock t (.note n)
  ++ [.thr t (.ld .acq (.notified n) .noteDeq 0), .thr t (.st .rlx (.waiting r) .noteDeq 0 1)] ++ unlock t (.note n)
def ctrDeq0 (t : Tid) (k : Nat) (r : Rid) : List Event :=
  lock t (.ctr k) ++ [.thr t (.ld .acq (.value k) .ctrDeq 0), .thr t (.ld .acq (.waiting r) .ctrDeq 0)] ++ unlock t (.ctr k)
def spin (t : Tid) (c w : Nat) : List Event :=
  [.thr t (.ld .rlx (.cvWord c) .spin w), .thr t (.cas .acq (.cvWord c) .spin w (w + 1) w true)]
def cvEnq (t : Tid) (c : Nat) (r : Rid) : List Event :=
  [.thr t (.st .rlx (.waiting r) .waitN 0 9)] ++ spin t c 0
  ++ [.thr t (.st .rlx (.waiting r) .cvEnq 1 0), .thr t (.st .rel (.cvWord c) .cvEnq 2 1)]
def cvDeq1 (t : Tid) (c : Nat) (r : Rid) : List Event :=
  spin t c 2 ++ [.thr t (.ld .acq (.waiting r) .cvDeq 1), .thr t (.st .rlx (.waiting r) .cvDeq 0 1),
                 .thr t (.st .rel (.cvWord c) .cvDeq 0 3)]

/-- note 0 and counter 0 (value 1), no deadline; the counter reaches zero during the sleep; returns 1 -/
def noteCtr : List Event :=
  [.thr 9 (.newNote 0 none), .thr 9 (.newCtr 0 1), .thr 0 (.callWaitN none none [.note 0, .ctr 0] false)]
  ++ nd 0 0 0 ++ ctrRT 0 0 0 1
  ++ [.thr 0 (.st .rlx (.waiting (.stk 0)) .waitN 0 5)] ++ noteEnq 0 0 (.stk 0)
  ++ [.thr 0 (.st .rlx (.waiting (.stk 1)) .waitN 0 5)] ++ ctrEnq 0 0 (.stk 1) 1
  ++ nd 0 0 0 ++ ctrRT 0 0 1 1 ++ [.thr 0 (.pdEnter 3 none)]
  ++ lock 1 (.ctr 0) ++ [.thr 1 (.ld .rlx (.value 0) .other 1), .thr 1 (.cas .ar (.value 0) .other 1 0 1 true),
      .thr 1 (.st .rel (.waiting (.stk 1)) .other 0 1), .thr 1 (.semV 3)] ++ unlock 1 (.ctr 0)
  ++ [.thr 0 (.pdRet 3 false)] ++ nd 0 0 0 ++ ctrRT 0 0 1 0
  ++ noteDeq 0 0 (.stk 0) 0 ++ ctrDeq0 0 0 (.stk 1)

example : accepts (noteCtr ++ [.thr 0 (.retWaitN 1 false)]) = true := by decide
/-- the hypotheses of `C11_index_ready` are satisfiable (object 1 is a counter at zero) -/
example : (final noteCtr).map (fun s => decide (s.pc 0 = .wRet 1 ∧ (s.obj (.ctr 0)).value = 0 ∧ (s.fr 0).deqRes = [true, false]))
    = some true := by decide
/-- the same return with a wrong index is rejected -/
example : accepts (noteCtr ++ [.thr 0 (.retWaitN 0 false)]) = false := by decide

def five : List ObjId := [.cv 0, .cv 1, .cv 2, .cv 3, .cv 4]
/-- five condition variables (count > 4: heap array 7), mutex 0, deadline 500: times out, returns 5 -/
def heapTimeout : List Event :=
  [.thr 0 (.callWaitN (some 0) (some 500) five false), .thr 0 (.malloc (some 7))]
  ++ cvEnq 0 0 (.heap 7 0) ++ cvEnq 0 1 (.heap 7 1) ++ cvEnq 0 2 (.heap 7 2) ++ cvEnq 0 3 (.heap 7 3) ++ cvEnq 0 4 (.heap 7 4)
  ++ [.thr 0 (.annRel 0)]
  ++ [.thr 0 (.ld .acq (.waiting (.heap 7 0)) .cvRT 1), .thr 0 (.ld .acq (.waiting (.heap 7 1)) .cvRT 1),
      .thr 0 (.ld .acq (.waiting (.heap 7 2)) .cvRT 1), .thr 0 (.ld .acq (.waiting (.heap 7 3)) .cvRT 1),
      .thr 0 (.ld .acq (.waiting (.heap 7 4)) .cvRT 1), .thr 0 (.pdEnter 1 (some 500)), .tick 500, .thr 0 (.pdRet 1 true)]
  ++ cvDeq1 0 0 (.heap 7 0) ++ cvDeq1 0 1 (.heap 7 1) ++ cvDeq1 0 2 (.heap 7 2) ++ cvDeq1 0 3 (.heap 7 3) ++ cvDeq1 0 4 (.heap 7 4)
  ++ [.thr 0 (.free 7), .thr 0 (.annAcq 0)]

example : accepts (heapTimeout ++ [.thr 0 (.retWaitN 5 false)]) = true := by decide
/-- the hypotheses of `C11_timeout` / `C11_heap_path` / `C11_mutex` are satisfiable -/
example : (final heapTimeout).map (fun s => decide (s.pc 0 = .wRet 5 ∧ (s.fr 0).mallocs = 1 ∧ (s.fr 0).frees = 1
    ∧ (s.fr 0).held = true ∧ (s.fr 0).deqRes = [true, true, true, true, true] ∧ s.now = 500)) = some true := by decide
/-- a timeout reported before the deadline is rejected; so is a missing `free` -/
example : accepts ([.thr 0 (.callWaitN none (some 500) [.cv 0] false)] ++ cvEnq 0 0 (.stk 0)
  ++ [.thr 0 (.ld .acq (.waiting (.stk 0)) .cvRT 1), .thr 0 (.pdEnter 1 (some 500)), .tick 499, .thr 0 (.pdRet 1 true)]) = false := by
  decide
example : accepts (heapTimeout.dropLast.dropLast ++ [.thr 0 (.annAcq 0)]) = false := by decide

/-- one condition variable with mutex 0, no deadline; a signaller wakes the caller; returns 0 -/
def cvWoken : List Event :=
  [.thr 0 (.callWaitN (some 0) none [.cv 0] false)] ++ cvEnq 0 0 (.stk 4)
  ++ [.thr 0 (.annRel 0), .thr 0 (.ld .acq (.waiting (.stk 4)) .cvRT 1), .thr 0 (.pdEnter 2 none)]
  ++ [.thr 1 (.callSig 0 false), .thr 1 (.ld .acq (.cvWord 0) .sig 2)] ++ spin 1 0 2
  ++ [.thr 1 (.st .rel (.cvWord 0) .sig 0 3), .thr 1 (.st .rel (.waiting (.stk 4)) .wake 0 1), .thr 1 (.semV 2),
      .thr 1 (.retSig false)]
  ++ [.thr 0 (.pdRet 2 false), .thr 0 (.ld .acq (.waiting (.stk 4)) .cvRT 0)] ++ spin 0 0 0
  ++ [.thr 0 (.ld .acq (.waiting (.stk 4)) .cvDeq 0), .thr 0 (.st .rel (.cvWord 0) .cvDeq 0 1), .thr 0 (.annAcq 0)]

example : accepts (cvWoken ++ [.thr 0 (.retWaitN 0 false)]) = true := by decide
example : (final cvWoken).map (fun s => decide (s.pc 0 = .wRet 0 ∧ (s.rcd (.stk 4)).unl = .waker ∧ (s.fr 0).deqUnl = [.waker])) = some true := by
  decide

/-! #### the window of defect F3 -/

def r0 : Rid := .stk 0
/-- t: nsync_wait_n ([cv 0]) up to the sleep: init, cv_enqueue, one scan, pd_enter on sem j (cv word w before) -/
def cvSleep (t : Tid) (r : Rid) (dl : Deadline) (j : SemId) (w : Nat) : List Event :=
  [.thr t (.callWaitN none dl [.cv 0] false), .thr t (.st .rlx (.waiting r) .waitN 0 7)] ++ spin t 0 w
  ++ [.thr t (.st .rlx (.waiting r) .cvEnq 1 0), .thr t (.st .rel (.cvWord 0) .cvEnq 2 (w + 1)),
      .thr t (.ld .acq (.waiting r) .cvRT 1), .thr t (.pdEnter j dl)]
/-- u: nsync_cv_signal (cv 0) up to and including the unlink (spinlock released, `waiting` not yet cleared) -/
def sigUnlink (u : Tid) : List Event :=
  [.thr u (.callSig 0 false), .thr u (.ld .acq (.cvWord 0) .sig 2)] ++ spin u 0 2
  ++ [.thr u (.st .rel (.cvWord 0) .sig 0 3)]
/-- the caller's deadline expires inside the window; cv_dequeue takes the spinlock and reads `waiting == 1` -/
def window : List Event :=
  cvSleep 0 r0 (some 500) 0 0 ++ sigUnlink 1 ++ [.tick 500, .thr 0 (.pdRet 0 true)] ++ spin 0 0 0
  ++ [.thr 0 (.ld .acq (.waiting r0) .cvDeq 1)]
/-- the code before the repair: "remove" the record, report a timeout -/
def oldF3 : List Event :=
  window ++ [.thr 0 (.st .rlx (.waiting r0) .cvDeq 0 1)]
/-- the repaired code (the first execution of corpus/C13/f3_waitn_cv.txt): the record is not on
    pcv->waiters, release the spinlock, wait until the signaller has cleared `waiting`, return index 0;
    the signaller's V comes after the return and touches no record -/
def fixed : List Event :=
  window ++ [.thr 0 (.st .rel (.cvWord 0) .cvDeq 0 1), .thr 0 (.ld .acq (.waiting r0) .cvDeq 1),
             .thr 1 (.st .rel (.waiting r0) .wake 0 1), .thr 0 (.ld .acq (.waiting r0) .cvDeq 0)]

example : accepts window = true := by decide
example : accepts oldF3 = false := by decide
example : accepts (fixed ++ [.thr 0 (.retWaitN 0 false), .thr 1 (.semV 0), .thr 1 (.retSig false)]) = true := by decide
/-- … and it cannot report a timeout, nor return before the waker's store -/
example : accepts (fixed ++ [.thr 0 (.retWaitN 1 false)]) = false := by decide
example : accepts (fixed.dropLast.dropLast ++ [.thr 0 (.ld .acq (.waiting r0) .cvDeq 0)]) = false := by decide
example : (final fixed).map (fun s => decide (s.pc 0 = .wRet 0 ∧ (s.fr 0).deqUnl = [.waker] ∧ (s.rcd r0).live = true
    ∧ s.post 1 = some r0)) = some true := by decide

end Example

end WaitN
