/-
  Axiom audit of every theorem of Props/C08.lean, Props/C09.lean and Props/C19Note.lean
  (allowed: propext, Classical.choice, Quot.sound).
-/
import NsyncVerif.Props.C08
import NsyncVerif.Props.C09
import NsyncVerif.Props.C19Note

open Note

#print axioms C08_flag_monotone
#print axioms C08_flag_monotone_run
#print axioms C08_notified_monotone
#print axioms C08_monotone
#print axioms C08_observed_notified
#print axioms C08_anc_ever
#print axioms C08_sound
#print axioms C08_notify_post
#print axioms C08_creation_path
#print axioms C08_creation_ghosts
#print axioms C08_expiry_min
#print axioms C08_expiry_min_ret
#print axioms C08_expiry_min_full_holds
#print axioms C08_expiry_min_partial
#print axioms C08_expiry_min_old_code_witness
#print axioms Dl.minList_mem
#print axioms Dl.minList_le
#print axioms C08_complete
#print axioms C08_complete_partial
#print axioms C08_delivery_in_progress
#print axioms f4_repaired
#print axioms C08_complete_old_code_witness
#print axioms C08_stack_notified
#print axioms C08_unaffected_partial
#print axioms C08_ancestors_unaffected
#print axioms f5a_prefix_ok
#print axioms f5b_prefix_ok
#print axioms f4_trace_ok
#print axioms f4_prefix_ok
#print axioms C09_holds_iff
#print axioms C09_lock_order
#print axioms C09_no_lock_cycle
#print axioms C09_adoption
#print axioms C09_adoption_root
#print axioms C09_adoption_wakes
#print axioms C09_free_leaves_no_child
#print axioms C09_no_use_after_free
#print axioms C09_parent_not_stale
#print axioms C09_linked_or_locked_is_live
#print axioms f7_repaired
#print axioms C09_no_use_after_free_old_code_witness
#print axioms C09_no_use_after_free_partial
#print axioms C09_free_is_exclusive
#print axioms C09_no_stuck_state
#print axioms C09_wait_has_disconnectors
#print axioms C09_disconnecting_count
#print axioms f4_not_stuck
#print axioms C09_no_stuck_state_old_code_witness
#print axioms C09_no_stuck_state_partial
#print axioms pc_idle_of_not_actor
#print axioms f7_ok
#print axioms f7_prefix_ok
#print axioms f4_ok
#print axioms f4p_ok
#print axioms C19_note_new_fail
#print axioms C19_parent_usable
#print axioms State.ext'
