/-
  Axiom audit of every theorem of Props/C04Fix.lean, Props/C05CvFix.lean, Props/C13CvFix.lean
  (the Cv layer re-proved for cv.c with the repair /verif/fixes/F3/cv_fix.diff).
  Allowed: propext, Classical.choice, Quot.sound.
-/
import NsyncVerif.Props.C04Fix
import NsyncVerif.Props.C05CvFix
import NsyncVerif.Props.C13CvFix

open NsyncVerif.CvFix

#print axioms inv_reachable
#print axioms invD_reachable
#print axioms invE_reachable
#print axioms invF_reachable
#print axioms invG_reachable
#print axioms C04_queue_inv
#print axioms C04_spinlock_excl
#print axioms C04_wait_atomic
#print axioms C04_unlink_once
#print axioms C04_unlink_once_full_true
#print axioms C04_unlink_once_partial
#print axioms C04_unlinker_by_status
#print axioms C04_remove_count_handshake
#print axioms C04_outcome
#print axioms C04_waker_unlinked_is_ready
#print axioms C04_dequeue_waits_for_waker
#print axioms C04_outcome_partial
#print axioms C04_exitUnl_is_unl
#print axioms C04_signal
#print axioms C04_broadcast
#print axioms C04_broadcast_unlinks_all
#print axioms C04_no_lost_wake
#print axioms C04_f3_schedule_fixed
#print axioms C04_f3_old_behaviour_rejected
#print axioms C05_result_is_outcome
#print axioms C05_timedout
#print axioms C05_cancelled
#print axioms C05_no_resleep
#print axioms C05_not_sleeping
#print axioms C13_record_touch
#print axioms C13_record_touch_nw_full_true
#print axioms C13_listed_owner_waits
#print axioms C13_listed_alive
#print axioms C13_owner_returns_clean
#print axioms C13_owner_returns_clean_waitn
#print axioms C13_idle_not_touched
#print axioms C13_late_V_touches_nothing
