/-
  Props/C10Audit.lean — axioms used by every theorem of C10 and of the counter half of C19.
  Allowed: propext, Classical.choice, Quot.sound.
-/
import NsyncVerif.Props.C10
import NsyncVerif.Props.C19Counter

open Counter

#print axioms C10_linearizable
#print axioms C10_cas_atomic
#print axioms C10_tick_keeps
#print axioms C10_call_args_kept
#print axioms C10_add_returns
#print axioms C10_value_held
#print axioms C10_value_held_add
#print axioms C10_value_held_wait
#print axioms C10_wait_zero
#print axioms C10_wait_nonzero
#print axioms C10_release_all
#print axioms C10_release_all_unlock
#print axioms C10_released_posted
#print axioms C10_no_lost_wakeup
#print axioms C10_zero_stable
#print axioms C10_no_block_step
#print axioms C10_no_block_after_zero
#print axioms C10_wait_at_zero
#print axioms C10_record_lifetime
#print axioms C10_record_lifetime_post
#print axioms C10_record_lifetime_queue
#print axioms C10_record_lifetime_ret
#print axioms inv_of_reachable
#print axioms recs_of_reachable
#print axioms C19_counter_new_fail
#print axioms C19_counter_new_fail_no_access
#print axioms C19_counter_new_ok
#print axioms Counter.Driver.C19_driver_new_fail
#print axioms Counter.Driver.envOK_exec
