/-
  Property C03, once edge — the run of the once-function happens before every return of
  nsync_run_once / _arg / _spin / _arg_spin on the same nsync_once, under the DECLARED memory
  orders only.

  Happens-before is computed by the generic vector-clock machine `NsyncVerif.VC` from program
  order and from the order each atomic operation on the once word requests (release-sequence
  rule; a failed CAS is a relaxed load; no edge is credited to the slot mutex, the condition
  variable, the scheduler or the sequential consistency of the interleaving).  `Once.toVC`
  projects the events of the Once acceptor (`Model/Once.lean`) to that machine.  The acceptor
  rejects every order other than the one once.c declares (`ATM_LOAD_ACQ` for the wrapper load,
  the first impl load and the wait-loop load; `ATM_CAS_ACQ` for the claim; relaxed `ATM_LOAD`
  for the reload; `ATM_STORE_REL` for the store of 2), so the theorem is about the declared
  orders.  Unbounded: any number of threads and once objects, any interleaving, any hashing of
  once objects to slots.

  Status: proved in full (no `_partial`).
-/
import NsyncVerif.Proofs.OnceVCRun

namespace Once
open NsyncVerif

/-- The inductive invariant, over all reachable product states (Once state × clocks × ghost
    `ec o` = clock of the winner of `o` at the end of the once-function):
    (i)   word `o` = 2 → `ec o` ≤ release clock of the word;
    (ii)  a thread at a pc reachable only through an acquire load that observed 2
          (`fUnlockCall`, `fUnlockRet`, `readyRet`) → `ec o` ≤ its clock;
    (iii) the winner between the end of the function and its release store → `ec o` ≤ its clock. -/
theorem C03_once_invariant {cfg : Config} {p : PState} (h : PReachable cfg p) :
    (∀ o, p.s.word o = 2 → VC.Clock.le (p.ec o) (p.c.relc o)) ∧
    (∀ t o, (p.s.pc t).Leaving o → VC.Clock.le (p.ec o) (p.c.vc t)) ∧
    (∀ t o, (p.s.pc t).AfterCb o → VC.Clock.le (p.ec o) (p.c.vc t)) :=
  let v := (preachable_inv h).2
  ⟨v.relc, v.leaving, v.afterCb⟩

/-- C03, ONCE EDGE.  Take any event list accepted by the Once acceptor, any `cb … end` event in
    it (thread `w` leaving the once-function of the once object `g.o`, of which it is the CAS
    winner) and any later `ret` event (thread `t` returning from a run_once call on `f.o`).  If
    both concern the same once object, then the clock `w` had when the function ended is covered
    by the clock with which `t` continues after its return: everything `w` did up to the end of
    the once-function happens before everything `t` does after nsync_run_once* returns. -/
theorem C03_once {cfg : Config} {pre₀ rest post : List Event} {w t : Tid} {aw b a : Bool}
    {s : State}
    (h : run cfg init (pre₀ ++ [.cbEnd w aw] ++ rest ++ [.ret t b a] ++ post) = .ok s) :
    ∃ s₀ g s₁ f,
      run cfg init pre₀ = .ok s₀ ∧ s₀.pc w = .wCbEnd g ∧ s₀.winner g.o = some w ∧
      run cfg init (pre₀ ++ [.cbEnd w aw] ++ rest) = .ok s₁ ∧
      s₁.pc t = .readyRet f ∧ f.blocking = b ∧ f.arg = a ∧
      (f.o = g.o →
        VC.Clock.le ((clocks pre₀).vc w)
          ((clocks (pre₀ ++ [.cbEnd w aw] ++ rest ++ [.ret t b a])).vc t)) := by
  obtain ⟨pF, hF, -, -⟩ := prun_of_run (p := pinit) h
  obtain ⟨p3, h3, -⟩ := prun_append.mp hF
  obtain ⟨p2, h2, hret⟩ := prun_append.mp h3
  obtain ⟨p1, h1, hrest⟩ := prun_append.mp h2
  obtain ⟨p0, h0, hcb⟩ := prun_append.mp h1
  rw [prun_single] at hret hcb
  have r0 := run_of_prun h0
  have r2 := run_of_prun h2
  have r3 := run_of_prun h3
  obtain ⟨hi0, -⟩ := vinv_prun (inv_init cfg) vinv_init h0
  obtain ⟨hi1, -⟩ := vinv_prun (inv_init cfg) vinv_init h1
  obtain ⟨-, hv2⟩ := vinv_prun (inv_init cfg) vinv_init h2
  obtain ⟨g, hpcw, hec, hne, -⟩ := pstep_cbEnd hcb
  obtain ⟨f, hpct, hb, ha, hc⟩ := pstep_ret hret
  have hstable := ec_run_stable hi1 hne hrest
  have hwin : p0.s.winner g.o = some w := (hi0.inW w g.o (by simp [hpcw, PC.InW])).2
  refine ⟨p0.s, g, p2.s, f, r0.1, hpcw, hwin, r2.1, hpct, hb, ha, ?_⟩
  intro hfo
  have hle := hv2.leaving t f.o (by simp [hpct, PC.Leaving])
  have e0 : (clocks pre₀) = p0.c := r0.2.symm
  have e3 : clocks (pre₀ ++ [.cbEnd w aw] ++ rest ++ [.ret t b a]) = p2.c := by
    have := r3.2
    rw [hc] at this
    exact this.symm
  rw [e0, e3, ← hec, ← hstable, ← hfo]
  exact hle

/-- The same edge in state form: whenever a thread is about to return from a call on `o`
    (or is merely past the acquire load that observed 2), its clock covers `ec o`. -/
theorem C03_once_state {cfg : Config} {p : PState} (h : PReachable cfg p) {t : Tid} {f : Frame}
    (hpc : p.s.pc t = .readyRet f) : VC.Clock.le (p.ec f.o) (p.c.vc t) :=
  (preachable_inv h).2.leaving t f.o (by simp [hpc, PC.Leaving])

/-! ### negative control: the acquire on the wait-loop load is what carries the edge -/

section Control

/-- Spin caller 0 claims once 0 and runs `f`; spin caller 1 arrives while the word is 1 (its two
    acquire loads see 1: nothing to synchronise with yet); then 0 ends `f`. -/
def ctlPre₀ : List Event :=
  [.call 0 false false 0, .ld 0 (.outer false false) .acq 0 0, .ld 0 .impl .acq 0 0,
   .cas 0 .impl .acq 0 0 1 0 true, .cbStart 0 false,
   .call 1 false false 0, .ld 1 (.outer false false) .acq 0 1, .ld 1 .impl .acq 0 1]

/-- … `cb f end`, the release store of 2 … -/
def ctlMid : List Event := [.cbEnd 0 false, .st 0 .impl .rel 0 2 1]

def ctlCfg : Config := ⟨fun _ => 0⟩

/-- With the declared acquire wait-loop load the trace is accepted and thread 1 returns … -/
example : (run ctlCfg init (ctlPre₀ ++ ctlMid ++
    [.ld 1 .impl .acq 0 2, .ret 1 false false])).toOption.isSome := by decide

/-- … and (an instance of `C03_once`, here evaluated directly) component 0 of the returner's clock
    has caught up with the winner's clock at the end of the function (2 = initial 1 + the CAS). -/
example : (clocks ctlPre₀).vc 0 0 = 2 ∧
    (clocks (ctlPre₀ ++ ctlMid ++ [.ld 1 .impl .acq 0 2, .ret 1 false false])).vc 1 0 = 2 := by
  decide

/-- NEGATIVE CONTROL.  The same trace with a RELAXED wait-loop load: on the clock machine the
    returner's clock does not cover the winner's clock at the end of the function — the run of
    the once-function is NOT ordered before the continuation of thread 1.  The edge of
    `C03_once` is therefore carried by the acquire of `ATM_LOAD_ACQ` at once.c:87 (together
    with the release of `ATM_STORE_REL` at once.c:85), not by the interleaving. -/
theorem C03_once_needs_acquire :
    ¬ VC.Clock.le ((clocks ctlPre₀).vc 0)
        ((clocks (ctlPre₀ ++ ctlMid ++ [.ld 1 .impl .rlx 0 2, .ret 1 false false])).vc 1) := by
  intro hle
  have h0 := hle 0
  have e1 : (clocks ctlPre₀).vc 0 0 = 2 := by decide
  have e2 : (clocks (ctlPre₀ ++ ctlMid ++
      [.ld 1 .impl .rlx 0 2, .ret 1 false false])).vc 1 0 = 0 := by decide
  omega

/-- The acceptor does not let the relaxed variant through: it is rejected at that load. -/
example : (run ctlCfg init (ctlPre₀ ++ ctlMid ++ [.ld 1 .impl .rlx 0 2])).toOption.isNone := by
  decide

/-- In general: a relaxed load never changes any clock (`VC.relaxed_load_no_edge`), so a thread
    whose loads of the once word were relaxed could not acquire the edge from them. -/
theorem C03_once_relaxed_load_no_edge (c : VC.St OnceId) (t : Tid) (fn : Fn) (o : OnceId)
    (obs : Nat) : (cstep c (.ld t fn .rlx o obs)).vc = c.vc := by
  simp only [cstep, toVC, ordVC]
  exact VC.relaxed_load_no_edge c _ rfl rfl

/-- Likewise the release on the store is needed: with a relaxed store of 2 the release clock of
    the word would be wiped (`VC.relaxed_store_breaks`) instead of carrying the winner's clock. -/
theorem C03_once_relaxed_store_breaks (c : VC.St OnceId) (t : Tid) (fn : Fn) (o : OnceId)
    (new obs : Nat) : (cstep c (.st t fn .rlx o new obs)).relc o = VC.Clock.bot := by
  simp only [cstep, toVC, ordVC]
  exact VC.relaxed_store_breaks c ⟨t, .st, .rlx, o⟩ rfl rfl

end Control

end Once
