import NsyncVerif.Proofs.FutexFairMain
import NsyncVerif.Proofs.FutexFairBump
import NsyncVerif.Proofs.FutexFairArrivals
/-!
# C12, liveness half — "a post is never lost: a P whose post has been made eventually returns"

Model `NsyncVerif.Model.Futex` (platform/linux/src/nsync_semaphore_futex.c statement by statement over
the modelled futex(2), contract in the header of that file): ONE semaphore, one waiter thread (the
owner; single waiter is nsync's usage and a contract rejection of the model), ANY number of poster
threads, injected futex faults (EINTR, EAGAIN, spurious 0, premature ETIMEDOUT) and clock ticks at any
point, idle steps (`σ i = none`) at any time.  The vocabulary (`Exec`, `WeakFair`, `KernelFair`,
`FiniteSpurious`, `BoundedPosts`, `PostPending`, `inKernel`, `kernelDue`) is defined in
`Proofs/FutexFairDefs.lean` (it has to precede the proof files; `FiniteCalls` is in
`Proofs/FutexFairArrivals.lean`) and is repeated in words here.

NOTHING below is `_partial`: `C12_fair_termination : C12_fair_termination_full` is proved as stated.

## Statement (`C12_fair_termination_full`)

For every infinite execution `x` of the acceptor from a reachable state that is
* `WeakFair`   — a thread that from some time on is inside P / P_with_deadline / V and NOT queued in
                 the kernel (`inKernel`: inside futex WAIT with a sleeper record) moves;
* `KernelFair` — a thread that from some time on is queued in the kernel and has been the target of a
                 FUTEX_WAKE or has a timeout that the clock has reached (`kernelDue`) returns from the
                 system call (with any result the contract permits);
the following hold.
1. P / P_with_deadline with a matching post: a thread inside either function at time `i` returns
   (`pc = idle` at some `j ≥ i`) if at some time `j ≥ i` a matching post exists (`PostPending`, in the
   model's own counters: `takes < posts` — by `C12_conservation` the same as `0 < word` — or some call
   of V has started and has not yet performed its CAS).  NO finiteness hypothesis: spurious wake-ups,
   EINTRs, premature time-outs and new arrivals may go on for ever.
2. P_with_deadline with deadline `d`: returns also if the clock eventually reaches `d`, provided
   spurious wake-ups / EINTRs are finite (`FiniteSpurious`).
3. V: returns if only finitely many posts are made in the whole execution (`BoundedPosts`).
   `C12_fair_V_returns_finite_calls`: in particular if from some time on nobody calls P /
   P_with_deadline / V (`FiniteCalls`, the `FiniteArrivals` of C02; `finiteCalls_boundedPosts`).

## Each hypothesis is needed (explicit executions, machine-checked below)

* `C12_fair_needs_kernel`          trace + idling: the waiter sleeps, a poster posts, wakes it and
  returns; the kernel never lets the woken waiter return.  Weakly fair (the waiter is in the kernel's
  hands), no spurious wake-up, one post: P never returns although `takes < posts`.
* `C12_fair_needs_kernel_timeout`  the same for an expired timeout.
* `C12_fair_needs_finite_spurious` lasso of period 3: P_with_deadline with a deadline that has
  passed, the kernel returns 0 (spuriously — the contract allows it) instead of ETIMEDOUT each time;
  the waiter re-loads 0 and sleeps again.  Weakly fair, kernel-fair (the sleeper returns every
  time): the call never returns.  So clause 2 needs `FiniteSpurious`; clause 1 does not (proved).
* `C12_fair_needs_bounded_posts`   lasso of period 11 up to the ghost counters (`bumpExec`): thread
  2 is inside V; for ever: it loads 0; thread 1 performs a whole V (word 1); thread 2's CAS fails;
  thread 0 performs a whole P (word 0).  Weakly fair and kernel-fair, no futex wait at all: thread
  2's V never returns.  V's CAS loop is lock-free, not wait-free.  (The waiter's CAS loop cannot be
  starved like this: only posts interfere with it, each makes the word grow, and the word is
  bounded by 2^32 — the rank `rkW` of `Proofs/FutexFairRank.lean`.)
* `C12_fair_needs_post`            without a post P sleeps for ever (sanity check).
* `C12_fair_needs_weak`            `WeakFair` is needed (a poster that has called V and is never
  scheduled again).
  `C12_thread_enabled` / `C12_kernel_due_enabled`: the threads `WeakFair` / `KernelFair` speak about
  do have an accepted next event, except a poster at `vCas old` with `old + 1 = 2^32` (count
  overflow, which the model rejects as a contract violation; such an execution is not `WeakFair`).

## Non-vacuity

`eintrExec`: the accepted trace `trace_eintr` of `Props/C12.lean` followed by idling.  It satisfies
all four hypotheses; in it thread 0 calls P at time 0, sleeps in the kernel (asleep at times 3 and 6,
word 0; EINTR in between), the post is made at time 8 (`PostPending` from time 7 on), the wake at
time 9, and P returns at time 14 (`C12_fair_nonvacuous`).

## The argument

Weak fairness and kernel fairness enter only through `fair_move_awake`, `fair_move_due`,
`fair_move_posted` (`Proofs/FutexFairLive.lean`); the last one is applied (`waiter_live`) to the poster
that `C12_no_lost_post` (invariant `noLost`: asleep ∧ word ≠ 0 → some poster is between its CAS and
its wake) provides.  Each "eventually
returns" is the chain argument (`chain`) with a local rank (`rkW`, `rk0`, `rkV`, `rkT`).  For clause 2:
if the word is ever positive clause 1 applies; otherwise the word is 0 for ever, nobody enters
`vWake` any more, the finitely many (finite support of reachable states) threads there leave, so
eventually no stale FUTEX_WAKE hits the waiter, no spurious return happens, the deadline has passed:
the next futex wait can only return ETIMEDOUT and the clock read confirms it.
-/
namespace NsyncVerif.Futex

set_option linter.unusedSimpArgs false
set_option linter.unusedVariables false

/-! ## the theorem -/

def C12_fair_termination_full : Prop :=
  ∀ (s0 : State) (x : Exec s0), Reachable s0 → WeakFair x → KernelFair x →
    -- 1. P / P_with_deadline for which a matching post exists
    (∀ t i, ((x.ρ i).pc t).isWaiter = true → (∃ j, i ≤ j ∧ PostPending (x.ρ j)) →
        ∃ j, i ≤ j ∧ (x.ρ j).pc t = .idle) ∧
    -- 2. P_with_deadline whose deadline the clock eventually reaches
    (∀ t i d, callDeadline (x.ρ i) t = some (some d) → FiniteSpurious x →
        (∃ j, i ≤ j ∧ d ≤ (x.ρ j).now) → ∃ j, i ≤ j ∧ (x.ρ j).pc t = .idle) ∧
    -- 3. V
    (∀ t i, ((x.ρ i).pc t).isPoster = true → BoundedPosts x → ∃ j, i ≤ j ∧ (x.ρ j).pc t = .idle)

/-- Clause 1: a P / P_with_deadline whose post has been made, or is being made, returns. -/
theorem C12_fair_P_returns {s0 : State} (x : Exec s0) (hr : Reachable s0) (hf : WeakFair x)
    (kf : KernelFair x) {t : Tid} {i : Nat} (hw : ((x.ρ i).pc t).isWaiter = true)
    (hp : ∃ j, i ≤ j ∧ PostPending (x.ρ j)) : ∃ j, i ≤ j ∧ (x.ρ j).pc t = .idle :=
  waiter_returns x hr hf kf hw hp

/-- Clause 2: a P_with_deadline whose deadline passes returns (finitely many spurious wake-ups). -/
theorem C12_fair_PD_returns {s0 : State} (x : Exec s0) (hr : Reachable s0) (hf : WeakFair x)
    (kf : KernelFair x) (hfs : FiniteSpurious x) {t : Tid} {i d : Nat}
    (hd : callDeadline (x.ρ i) t = some (some d)) (hclk : ∃ j, i ≤ j ∧ d ≤ (x.ρ j).now) :
    ∃ j, i ≤ j ∧ (x.ρ j).pc t = .idle :=
  timed_waiter_returns x hr hf kf hfs hd hclk

/-- Clause 3: a V returns (finitely many posts).  Kernel fairness is not needed. -/
theorem C12_fair_V_returns {s0 : State} (x : Exec s0) (hr : Reachable s0) (hf : WeakFair x)
    (hb : BoundedPosts x) {t : Tid} {i : Nat} (hv : ((x.ρ i).pc t).isPoster = true) :
    ∃ j, i ≤ j ∧ (x.ρ j).pc t = .idle :=
  poster_returns x hr hf hb hv

/-- Clause 3 under the hypothesis of C02 (`FiniteArrivals` there, `FiniteCalls` here: from some time
    on nobody calls P / P_with_deadline / V): then only finitely many posts are made
    (`finiteCalls_boundedPosts`), so every V returns. -/
theorem C12_fair_V_returns_finite_calls {s0 : State} (x : Exec s0) (hr : Reachable s0) (hf : WeakFair x)
    (hc : FiniteCalls x) {t : Tid} {i : Nat} (hv : ((x.ρ i).pc t).isPoster = true) :
    ∃ j, i ≤ j ∧ (x.ρ j).pc t = .idle :=
  poster_returns x hr hf (finiteCalls_boundedPosts x hr hc) hv

/-- A V that has started makes its post or sees the word positive: eventually `0 < word`
    (no finiteness hypothesis, no kernel fairness). -/
theorem C12_fair_post_arrives {s0 : State} (x : Exec s0) (hr : Reachable s0) (hf : WeakFair x)
    {p : Tid} {j : Nat} (hv : ((x.ρ j).pc p).vPre = true) : ∃ j', j ≤ j' ∧ 0 < (x.ρ j').word :=
  post_arrives x hr hf hv

theorem C12_fair_termination : C12_fair_termination_full := by
  intro s0 x hr hf kf
  exact ⟨fun t i hw hp => waiter_returns x hr hf kf hw hp,
    fun t i d hd hfs hclk => timed_waiter_returns x hr hf kf hfs hd hclk,
    fun t i hv hb => poster_returns x hr hf hb hv⟩

/-- `PostPending` in terms of the word. -/
theorem PostPending_iff {s : State} (h : Reachable s) :
    PostPending s ↔ (0 < s.word ∨ ∃ p, (s.pc p).vPre = true) := by
  have := C12_conservation h
  unfold PostPending
  constructor
  · rintro (h | h)
    · exact Or.inl (by omega)
    · exact Or.inr h
  · rintro (h | h)
    · exact Or.inl (by omega)
    · exact Or.inr h

/-! ## the threads the fairness hypotheses speak about are enabled -/

theorem C12_thread_enabled {s : State} {t : Tid} (hr : Reachable s) (hne : s.pc t ≠ .idle)
    (hk : inKernel s t = false)
    (hov : ∀ old, s.pc t = .vCas old → old + 1 < limit) :
    ∃ e s', e.tid = some t ∧ step s e = .ok s' := by
  unfold inKernel at hk
  cases hp : s.pc t with
  | idle => exact absurd hp hne
  | wLoad k => exact ⟨.ld t (ldSite k) .rlx s.word, _, rfl, by simp [step, hp]; rfl⟩
  | wWait k =>
    by_cases hw : s.word = 0
    · exact ⟨.fwait t 0 k.timeout, _, rfl, by simp [step, hp, hw]; rfl⟩
    · exact ⟨.fwait t 0 k.timeout, _, rfl, by simp [step, hp, hw]; rfl⟩
  | wSleep k =>
    rw [hp] at hk
    have hsl : s.sleeper = none := by cases h : s.sleeper <;> simp_all
    exact ⟨.fwaitRet t .eagain, _, rfl, by simp [step, hp, hsl, waitRetAllowed]; rfl⟩
  | wNow dl => exact ⟨.now t s.now, _, rfl, by simp [step, hp]; rfl⟩
  | wCas k i =>
    by_cases hw : s.word = i
    · exact ⟨.cas t (casSite k) .acq i (i - 1) s.word true, _, rfl, by simp [step, hp, hw]; rfl⟩
    · exact ⟨.cas t (casSite k) .acq i (i - 1) s.word false, _, rfl, by simp [step, hp, hw]; rfl⟩
  | wRet k b =>
    cases k with
    | p =>
      cases b with
      | false => exact ⟨.retP t, _, rfl, by simp [step, hp]; rfl⟩
      | true => obtain ⟨d, hd⟩ := C12_no_deadline_never_times_out hr hp; cases hd
    | pd dl => exact ⟨.retPD t b, _, rfl, by simp [step, hp]; rfl⟩
  | vLoad => exact ⟨.ld t vLdSite .rlx s.word, _, rfl, by simp [step, hp]; rfl⟩
  | vCas old =>
    have := hov old hp
    by_cases hw : s.word = old
    · exact ⟨.cas t vCasSite .rel old (old + 1) s.word true, _, rfl, by simp [step, hp, hw, this]; rfl⟩
    · exact ⟨.cas t vCasSite .rel old (old + 1) s.word false, _, rfl, by simp [step, hp, hw, this]; rfl⟩
  | vWake => exact ⟨.fwake t 1 (wakeCount s.sleeper), _, rfl, by simp [step, hp]; rfl⟩
  | vRet => exact ⟨.retV t, _, rfl, by simp [step, hp]; rfl⟩

/-- The kernel can always honour `KernelFair`: a queued thread may return 0. -/
theorem C12_kernel_due_enabled {s : State} {t : Tid} (h : kernelDue s t = true) :
    ∃ s', step s (.fwaitRet t .ok) = .ok s' := by
  obtain ⟨k, si, hk, hsl, _⟩ := kernelDue_pc h
  cases k <;> exact ⟨_, by simp [step, hk, hsl, waitRetAllowed]; rfl⟩

/-! ## non-vacuity -/

theorem eintr_acc : acceptsFrom init trace_eintr = true := by decide

/-- `trace_eintr` of `Props/C12.lean`, then nothing for ever. -/
def eintrExec : Exec init := traceExec init trace_eintr _ (run_of_accepts eintr_acc)

theorem eintr_tail {j : Nat} (hj : 15 ≤ j) :
    eintrExec.ρ j = stateFrom init trace_eintr ∧ eintrExec.σ j = none :=
  traceExec_tail (run_of_accepts eintr_acc) (by simpa [trace_eintr] using hj)

theorem eintr_final_idle (t : Nat) : (stateFrom init trace_eintr).pc t = .idle := by
  by_cases ht : t < 2
  · have h : (List.range 2).all (fun t => decide ((stateFrom init trace_eintr).pc t = .idle)) = true := by decide
    simpa using all_range h ht
  · exact final_idle_above (b := 2) (by decide) eintr_acc (by omega)

/-- `eintrExec` satisfies every hypothesis of `C12_fair_termination` … -/
theorem eintr_hyps : Reachable init ∧ WeakFair eintrExec ∧ KernelFair eintrExec ∧
    FiniteSpurious eintrExec ∧ BoundedPosts eintrExec := by
  refine ⟨Reachable.init, ?_, ?_, ?_, ?_⟩
  · exact weakFair_of_final eintrExec 15 (fun j hj t => by rw [(eintr_tail hj).1]; exact Or.inl (eintr_final_idle t))
  · refine kernelFair_of_final eintrExec 15 (fun j hj t => ?_)
    rw [(eintr_tail hj).1]; unfold kernelDue; rw [eintr_final_idle t]
  · exact finiteSpurious_of_tail eintrExec 15 (fun j t r hj => by rw [(eintr_tail hj).2]; simp)
  · exact boundedPosts_of_tail eintrExec 15 _ (fun j hj => (eintr_tail hj).1)

theorem eintr_finite_calls : FiniteCalls eintrExec :=
  ⟨15, fun j e hj he => by rw [(eintr_tail hj).2] at he; cases he⟩

/-- … and in it thread 0 calls P at time 0, is asleep in the kernel with the word 0 at time 3, gets
    EINTR, is asleep again at time 6 — BEFORE the post: no post pending up to time 6, thread 1 calls V
    at time 6 (`PostPending` from time 7), posts at time 8, wakes at time 9 — and returns at time 14. -/
theorem C12_fair_nonvacuous :
    eintrExec.σ 0 = some (.callP 0) ∧
    ((eintrExec.ρ 3).asleep ∧ (eintrExec.ρ 3).word = 0 ∧ inKernel (eintrExec.ρ 3) 0 = true) ∧
    eintrExec.σ 3 = some (.fwaitRet 0 .eintr) ∧
    ((eintrExec.ρ 6).asleep ∧ (eintrExec.ρ 6).word = 0 ∧ inKernel (eintrExec.ρ 6) 0 = true ∧
      (eintrExec.ρ 6).posts = 0 ∧ (eintrExec.ρ 6).pc 1 = .idle) ∧
    eintrExec.σ 6 = some (.callV 1) ∧ ((eintrExec.ρ 7).pc 1).vPre = true ∧
    eintrExec.σ 8 = some (.cas 1 .v .rel 0 1 0 true) ∧
    ((eintrExec.ρ 9).takes < (eintrExec.ρ 9).posts ∧ (eintrExec.ρ 9).asleep) ∧
    eintrExec.σ 9 = some (.fwake 1 1 1) ∧ kernelDue (eintrExec.ρ 10) 0 = true ∧
    eintrExec.σ 14 = some (.retP 0) ∧ (eintrExec.ρ 15).pc 0 = .idle := by
  refine ⟨rfl, ?_, rfl, ?_, rfl, ?_, rfl, ?_, rfl, ?_, rfl, ?_⟩ <;> decide

/-- The theorem applied to it. -/
example : ∃ j, 1 ≤ j ∧ (eintrExec.ρ j).pc 0 = .idle :=
  C12_fair_P_returns eintrExec eintr_hyps.1 eintr_hyps.2.1 eintr_hyps.2.2.1 (t := 0) (i := 1) (by decide)
    ⟨7, by omega, Or.inr ⟨1, by decide⟩⟩

/-! ## `KernelFair` is needed -/

/-- The waiter sleeps in P; a poster posts, wakes it and returns. -/
def traceWoken : List Event :=
  [ .callP 0, .ld 0 .p .rlx 0, .fwait 0 0 none,
    .callV 1, .ld 1 .v .rlx 0, .cas 1 .v .rel 0 1 0 true, .fwake 1 1 1, .retV 1 ]

theorem woken_acc : acceptsFrom init traceWoken = true := by decide

/-- … and then nothing happens for ever: the kernel never lets the woken waiter return. -/
def wokenExec : Exec init := traceExec init traceWoken _ (run_of_accepts woken_acc)

theorem woken_tail {j : Nat} (hj : 8 ≤ j) :
    wokenExec.ρ j = stateFrom init traceWoken ∧ wokenExec.σ j = none :=
  traceExec_tail (run_of_accepts woken_acc) (by simpa [traceWoken] using hj)

theorem woken_final (t : Nat) :
    (stateFrom init traceWoken).pc t = .idle ∨ inKernel (stateFrom init traceWoken) t = true := by
  by_cases ht : t < 2
  · have h : (List.range 2).all (fun t => decide ((stateFrom init traceWoken).pc t = .idle) ||
        inKernel (stateFrom init traceWoken) t) = true := by decide
    simpa using all_range h ht
  · exact Or.inl (final_idle_above (b := 2) (by decide) woken_acc (by omega))

theorem C12_fair_needs_kernel :
    WeakFair wokenExec ∧ FiniteSpurious wokenExec ∧ BoundedPosts wokenExec ∧ ¬ KernelFair wokenExec ∧
      ((wokenExec.ρ 8).pc 0).isWaiter = true ∧ PostPending (wokenExec.ρ 8) ∧
      ∀ j, 8 ≤ j → (wokenExec.ρ j).pc 0 ≠ .idle := by
  have hwf : WeakFair wokenExec :=
    weakFair_of_final wokenExec 8 (fun j hj t => by rw [(woken_tail hj).1]; exact woken_final t)
  have hnever : ∀ j, 8 ≤ j → (wokenExec.ρ j).pc 0 ≠ .idle := by
    intro j hj; rw [(woken_tail hj).1]; decide
  have hw : ((wokenExec.ρ 8).pc 0).isWaiter = true := by decide
  have hpp : PostPending (wokenExec.ρ 8) := Or.inl (by decide)
  refine ⟨hwf, finiteSpurious_of_tail wokenExec 8 (fun j t r hj => by rw [(woken_tail hj).2]; simp),
    boundedPosts_of_tail wokenExec 8 _ (fun j hj => (woken_tail hj).1), fun kf => ?_, hw, hpp, hnever⟩
  obtain ⟨j, hj, hidle⟩ := C12_fair_P_returns wokenExec Reachable.init hwf kf hw ⟨8, Nat.le_refl _, hpp⟩
  exact hnever j hj hidle

/-- P_with_deadline with deadline 0 (reached: the clock is 0) goes to sleep; nothing else happens. -/
def traceExpired : List Event := [ .callPD 0 (some 0), .ld 0 .pd .rlx 0, .fwait 0 0 (some 0) ]

theorem expired_acc : acceptsFrom init traceExpired = true := by decide

def expiredExec : Exec init := traceExec init traceExpired _ (run_of_accepts expired_acc)

theorem expired_tail {j : Nat} (hj : 3 ≤ j) :
    expiredExec.ρ j = stateFrom init traceExpired ∧ expiredExec.σ j = none :=
  traceExec_tail (run_of_accepts expired_acc) (by simpa [traceExpired] using hj)

theorem expired_final (t : Nat) :
    (stateFrom init traceExpired).pc t = .idle ∨ inKernel (stateFrom init traceExpired) t = true := by
  by_cases ht : t < 1
  · have h : (List.range 1).all (fun t => decide ((stateFrom init traceExpired).pc t = .idle) ||
        inKernel (stateFrom init traceExpired) t) = true := by decide
    simpa using all_range h ht
  · exact Or.inl (final_idle_above (b := 1) (by decide) expired_acc (by omega))

theorem C12_fair_needs_kernel_timeout :
    WeakFair expiredExec ∧ FiniteSpurious expiredExec ∧ BoundedPosts expiredExec ∧ ¬ KernelFair expiredExec ∧
      callDeadline (expiredExec.ρ 3) 0 = some (some 0) ∧ 0 ≤ (expiredExec.ρ 3).now ∧
      ∀ j, 3 ≤ j → (expiredExec.ρ j).pc 0 ≠ .idle := by
  have hwf : WeakFair expiredExec :=
    weakFair_of_final expiredExec 3 (fun j hj t => by rw [(expired_tail hj).1]; exact expired_final t)
  have hfs := finiteSpurious_of_tail expiredExec 3 (fun j t r hj => by rw [(expired_tail hj).2]; simp)
  have hnever : ∀ j, 3 ≤ j → (expiredExec.ρ j).pc 0 ≠ .idle := by
    intro j hj; rw [(expired_tail hj).1]; decide
  have hd : callDeadline (expiredExec.ρ 3) 0 = some (some 0) := by decide
  refine ⟨hwf, hfs, boundedPosts_of_tail expiredExec 3 _ (fun j hj => (expired_tail hj).1), fun kf => ?_, hd,
    Nat.zero_le _, hnever⟩
  obtain ⟨j, hj, hidle⟩ := C12_fair_PD_returns expiredExec Reachable.init hwf kf hfs hd ⟨3, Nat.le_refl _, Nat.zero_le _⟩
  exact hnever j hj hidle

/-! ## `WeakFair` is needed (sanity check) -/

/-- The waiter sleeps in P; thread 1 calls V — and is never scheduled again. -/
def traceUnsched : List Event := [ .callP 0, .ld 0 .p .rlx 0, .fwait 0 0 none, .callV 1 ]

theorem unsched_acc : acceptsFrom init traceUnsched = true := by decide

def unschedExec : Exec init := traceExec init traceUnsched _ (run_of_accepts unsched_acc)

theorem unsched_tail {j : Nat} (hj : 4 ≤ j) :
    unschedExec.ρ j = stateFrom init traceUnsched ∧ unschedExec.σ j = none :=
  traceExec_tail (run_of_accepts unsched_acc) (by simpa [traceUnsched] using hj)

theorem C12_fair_needs_weak :
    KernelFair unschedExec ∧ FiniteSpurious unschedExec ∧ BoundedPosts unschedExec ∧ ¬ WeakFair unschedExec ∧
      ((unschedExec.ρ 4).pc 0).isWaiter = true ∧ PostPending (unschedExec.ρ 4) ∧
      ∀ j, 4 ≤ j → (unschedExec.ρ j).pc 0 ≠ .idle := by
  have hkf : KernelFair unschedExec := by
    refine kernelFair_of_final unschedExec 4 (fun j hj t => ?_)
    rw [(unsched_tail hj).1]
    by_cases ht : t < 2
    · have h : (List.range 2).all (fun t => !kernelDue (stateFrom init traceUnsched) t) = true := by decide
      simpa using all_range h ht
    · unfold kernelDue
      rw [final_idle_above (b := 2) (by decide) unsched_acc (t := t) (Nat.le_of_not_lt ht)]
  have hnever : ∀ j, 4 ≤ j → (unschedExec.ρ j).pc 0 ≠ .idle := by
    intro j hj; rw [(unsched_tail hj).1]; decide
  have hw : ((unschedExec.ρ 4).pc 0).isWaiter = true := by decide
  have hpp : PostPending (unschedExec.ρ 4) := Or.inr ⟨1, by decide⟩
  refine ⟨hkf, finiteSpurious_of_tail unschedExec 4 (fun j t r hj => by rw [(unsched_tail hj).2]; simp),
    boundedPosts_of_tail unschedExec 4 _ (fun j hj => (unsched_tail hj).1), fun hwf => ?_, hw, hpp, hnever⟩
  obtain ⟨j, hj, hidle⟩ := C12_fair_P_returns unschedExec Reachable.init hwf hkf hw ⟨4, Nat.le_refl _, hpp⟩
  exact hnever j hj hidle

/-! ## the post is needed (sanity check) -/

def traceNoPost : List Event := [ .callP 0, .ld 0 .p .rlx 0, .fwait 0 0 none ]

theorem nopost_acc : acceptsFrom init traceNoPost = true := by decide

def noPostExec : Exec init := traceExec init traceNoPost _ (run_of_accepts nopost_acc)

theorem nopost_tail {j : Nat} (hj : 3 ≤ j) :
    noPostExec.ρ j = stateFrom init traceNoPost ∧ noPostExec.σ j = none :=
  traceExec_tail (run_of_accepts nopost_acc) (by simpa [traceNoPost] using hj)

theorem nopost_final (t : Nat) :
    ((stateFrom init traceNoPost).pc t = .idle ∨ inKernel (stateFrom init traceNoPost) t = true) ∧
    kernelDue (stateFrom init traceNoPost) t = false := by
  by_cases ht : t < 1
  · have h : (List.range 1).all (fun t => (decide ((stateFrom init traceNoPost).pc t = .idle) ||
        inKernel (stateFrom init traceNoPost) t) && !kernelDue (stateFrom init traceNoPost) t) = true := by decide
    simpa using all_range h ht
  · have := final_idle_above (b := 1) (by decide) nopost_acc (t := t) (by omega)
    exact ⟨Or.inl this, by unfold kernelDue; rw [this]⟩

/-- All fairness hypotheses hold, no post is ever made or pending, and P sleeps for ever. -/
theorem C12_fair_needs_post :
    WeakFair noPostExec ∧ KernelFair noPostExec ∧ FiniteSpurious noPostExec ∧ BoundedPosts noPostExec ∧
      ((noPostExec.ρ 3).pc 0).isWaiter = true ∧ (∀ j, (noPostExec.ρ j).posts = 0) ∧
      (∀ j, 3 ≤ j → ¬ PostPending (noPostExec.ρ j)) ∧ ∀ j, 3 ≤ j → (noPostExec.ρ j).pc 0 ≠ .idle := by
  have hwf : WeakFair noPostExec :=
    weakFair_of_final noPostExec 3 (fun j hj t => by rw [(nopost_tail hj).1]; exact (nopost_final t).1)
  have hkf : KernelFair noPostExec :=
    kernelFair_of_final noPostExec 3 (fun j hj t => by rw [(nopost_tail hj).1]; exact (nopost_final t).2)
  have hnever : ∀ j, 3 ≤ j → (noPostExec.ρ j).pc 0 ≠ .idle := by
    intro j hj; rw [(nopost_tail hj).1]; decide
  have hw : ((noPostExec.ρ 3).pc 0).isWaiter = true := by decide
  refine ⟨hwf, hkf, finiteSpurious_of_tail noPostExec 3 (fun j t r hj => by rw [(nopost_tail hj).2]; simp),
    boundedPosts_of_tail noPostExec 3 _ (fun j hj => (nopost_tail hj).1), hw, fun j => ?_, fun j hj hpp => ?_, hnever⟩
  · have h1 := noPostExec.posts_mono (show j ≤ j + 3 by omega)
    rw [(nopost_tail (j := j + 3) (by omega)).1] at h1
    have h2 : (stateFrom init traceNoPost).posts = 0 := by decide
    omega
  · obtain ⟨j', hj', hidle⟩ := C12_fair_P_returns noPostExec Reachable.init hwf hkf hw ⟨j, hj, hpp⟩
    exact hnever j' hj' hidle

/-! ## `FiniteSpurious` is needed for the time-out branch -/

/-- The state after `traceExpired`: thread 0 asleep in P_with_deadline, deadline 0 = now. -/
def spurA : State :=
  { word := 0, now := 0, sleeper := some ⟨some 0, false⟩, owner := some 0,
    pc := setPc (fun _ => .idle) 0 (.wSleep (.pd (some 0))),
    posts := 0, takes := 0, succRets := 0, toRets := 0 }

/-- The kernel returns 0 — spuriously: nobody woke the sleeper, and its timeout HAS passed —, the
    waiter re-loads 0 and goes back to sleep. -/
def spurLoop : List Event := [ .fwaitRet 0 .ok, .ld 0 .pd .rlx 0, .fwait 0 0 (some 0) ]

theorem spur_pre : run init traceExpired = .ok spurA := by
  simp [traceExpired, run, step, Futex.init, spurA, WKind.timeout, ldSite, WKind.fn]

theorem spur_loop : run spurA spurLoop = .ok spurA := by
  simp [spurLoop, run, step, spurA, WKind.timeout, ldSite, WKind.fn, waitRetAllowed]

def spurExec : Exec init := lassoExec init traceExpired spurLoop spurA spur_pre spur_loop (by decide)

theorem spur_at {j : Nat} (hj : 3 ≤ j) :
    spurExec.ρ j = stateFrom spurA (spurLoop.take ((j - 3) % 3)) ∧ spurExec.σ j = spurLoop[(j - 3) % 3]? :=
  lassoExec_tail spur_pre spur_loop (by decide) (j := j) (by show traceExpired.length ≤ j; exact hj)

theorem spur_moves (i : Nat) : ∃ j e, i ≤ j ∧ spurExec.σ j = some e ∧ e.tid = some 0 := by
  have h : (List.range 3).all (fun r => match spurLoop[r]? with
      | some e => decide (e.tid = some 0) | none => false) = true := by decide
  have hr : (i + 3 - 3) % 3 < 3 := Nat.mod_lt _ (by omega)
  have := all_range h hr
  rw [← (spur_at (j := i + 3) (by omega)).2] at this
  cases he : spurExec.σ (i + 3) with
  | none => rw [he] at this; cases this
  | some e => rw [he] at this; exact ⟨i + 3, e, by omega, he, by simpa using this⟩

theorem spur_others {t : Nat} (ht : 1 ≤ t) {j : Nat} (hj : 3 ≤ j) : (spurExec.ρ j).pc t = .idle := by
  rw [(spur_at hj).1]
  rw [untouched_of_tidsBelow (b := 1) (tidsBelow_take (by decide) _) (stateFrom_ok spur_loop _) ht]
  show setPc (fun _ => PC.idle) 0 _ t = PC.idle
  rw [setPc_other _ _ (Nat.pos_iff_ne_zero.1 ht)]

theorem C12_fair_needs_finite_spurious :
    WeakFair spurExec ∧ KernelFair spurExec ∧ BoundedPosts spurExec ∧ ¬ FiniteSpurious spurExec ∧
      callDeadline (spurExec.ρ 3) 0 = some (some 0) ∧ 0 ≤ (spurExec.ρ 3).now ∧
      ∀ j, 3 ≤ j → (spurExec.ρ j).pc 0 ≠ .idle := by
  have hwf : WeakFair spurExec := by
    intro t i h
    by_cases ht : t = 0
    · subst ht; exact spur_moves i
    · exact absurd (spur_others (t := t) (Nat.pos_of_ne_zero ht) (j := i + 3) (by omega)) (h (i + 3) (by omega)).1
  have hkf : KernelFair spurExec := by
    intro t i h
    by_cases ht : t = 0
    · subst ht; exact spur_moves i
    · have := h (i + 3) (by omega)
      unfold kernelDue at this
      rw [spur_others (t := t) (Nat.pos_of_ne_zero ht) (j := i + 3) (by omega)] at this
      cases this
  have hstates : (List.range 3).all (fun r =>
      decide ((stateFrom spurA (spurLoop.take r)).pc 0 ≠ .idle) &&
      decide ((stateFrom spurA (spurLoop.take r)).posts = 0)) = true := by decide
  have hst : ∀ j, 3 ≤ j → (spurExec.ρ j).pc 0 ≠ .idle ∧ (spurExec.ρ j).posts = 0 := by
    intro j hj
    rw [(spur_at hj).1]
    simpa using all_range hstates (Nat.mod_lt (j - 3) (by omega : 0 < 3))
  have hbp : BoundedPosts spurExec := by
    refine ⟨0, fun j => ?_⟩
    have h1 := spurExec.posts_mono (show j ≤ j + 3 by omega)
    have h2 := (hst (j + 3) (by omega)).2
    omega
  have hd : callDeadline (spurExec.ρ 3) 0 = some (some 0) := by
    rw [(spur_at (Nat.le_refl 3)).1]; decide
  have hnever : ∀ j, 3 ≤ j → (spurExec.ρ j).pc 0 ≠ .idle := fun j hj => (hst j hj).1
  refine ⟨hwf, hkf, hbp, fun hfs => ?_, hd, Nat.zero_le _, hnever⟩
  obtain ⟨j, hj, hidle⟩ := C12_fair_PD_returns spurExec Reachable.init hwf hkf hfs hd ⟨3, Nat.le_refl _, Nat.zero_le _⟩
  exact hnever j hj hidle

/-- The spurious return itself, for the record: at every time `3 + 3n` the sleeper is asleep (not
    woken) with its timeout passed, and the kernel returns 0. -/
theorem spur_is_spurious (n : Nat) :
    spurExec.σ (3 + 3 * n) = some (.fwaitRet 0 .ok) ∧ (spurExec.ρ (3 + 3 * n)).asleep ∧
      kernelDue (spurExec.ρ (3 + 3 * n)) 0 = true := by
  have e : (3 + 3 * n - 3) % 3 = 0 := by omega
  obtain ⟨h1, h2⟩ := spur_at (j := 3 + 3 * n) (by omega)
  rw [h1, h2, e]
  exact ⟨rfl, by decide, by decide⟩

/-! ## `BoundedPosts` is needed for V -/

/-- Thread 1 performs a V, thread 0 a P (it becomes the owner), thread 2 calls V. -/
def starvePre : List Event :=
  [ .callV 1, .ld 1 .v .rlx 0, .cas 1 .v .rel 0 1 0 true, .fwake 1 1 0, .retV 1,
    .callP 0, .ld 0 .p .rlx 1, .cas 0 .p .acq 1 0 1 true, .retP 0,
    .callV 2 ]

/-- Thread 2 loads 0; thread 1 performs a whole V in between; thread 2's CAS fails; thread 0
    performs a whole P (the word is 0 again). -/
def starveLoop : List Event :=
  [ .ld 2 .v .rlx 0,
    .callV 1, .ld 1 .v .rlx 0, .cas 1 .v .rel 0 1 0 true,
    .cas 2 .v .rel 0 1 1 false,
    .fwake 1 1 0, .retV 1,
    .callP 0, .ld 0 .p .rlx 1, .cas 0 .p .acq 1 0 1 true, .retP 0 ]

def starveA : State :=
  { word := 0, now := 0, sleeper := none, owner := some 0,
    pc := setPc (fun _ => .idle) 2 .vLoad,
    posts := 1, takes := 1, succRets := 1, toRets := 0 }

theorem starve_pre : run init starvePre = .ok starveA := by
  simp [starvePre, run, step, Futex.init, starveA, vLdSite, vCasSite, ldSite, casSite, WKind.fn, limit,
    wakeCount, asleepInfo, markWoken, setPc_apply]
  apply pc3_ext <;> simp [setPc]
  all_goals
    intro t ht
    have h0 : t ≠ 0 := by omega
    have h1 : t ≠ 1 := by omega
    have h2 : t ≠ 2 := by omega
    simp [h0, h1, h2]

theorem starve_loop : run starveA starveLoop = .ok (bump 1 starveA) := by
  simp [starveLoop, run, step, starveA, bump, vLdSite, vCasSite, ldSite, casSite, WKind.fn, limit,
    wakeCount, asleepInfo, markWoken, setPc_apply]
  apply pc3_ext <;> simp [setPc]
  all_goals
    intro t ht
    have h0 : t ≠ 0 := by omega
    have h1 : t ≠ 1 := by omega
    have h2 : t ≠ 2 := by omega
    simp [h0, h1, h2]


def starveExec : Exec init := bumpExec init starvePre starveLoop starveA starve_pre starve_loop (by decide)

theorem starve_at {j : Nat} (hj : 10 ≤ j) :
    starveExec.ρ j = bump ((j - 10) / 11) (stateFrom starveA (starveLoop.take ((j - 10) % 11))) ∧
    starveExec.σ j = starveLoop[(j - 10) % 11]? :=
  bumpExec_tail starve_pre starve_loop (by decide) (j := j) (by show starvePre.length ≤ j; exact hj)

theorem starve_pos (i r : Nat) (hr : r < 11) :
    10 ≤ 10 + 11 * i + r ∧ i ≤ 10 + 11 * i + r ∧ (10 + 11 * i + r - 10) % 11 = r ∧
      (10 + 11 * i + r - 10) / 11 = i := by
  refine ⟨by omega, by omega, by omega, by omega⟩

/-- Thread `t` moves at position `r` of every period. -/
theorem starve_moves {t r : Nat} (hr : r < 11) {e : Event} (he : starveLoop[r]? = some e)
    (ht : e.tid = some t) (i : Nat) : ∃ j e, i ≤ j ∧ starveExec.σ j = some e ∧ e.tid = some t := by
  obtain ⟨h1, h2, h3, _⟩ := starve_pos i r hr
  exact ⟨10 + 11 * i + r, e, h2, by rw [(starve_at h1).2, h3]; exact he, ht⟩

theorem starve_others {t : Nat} (ht : 3 ≤ t) {j : Nat} (hj : 10 ≤ j) : (starveExec.ρ j).pc t = .idle := by
  rw [(starve_at hj).1]
  show (stateFrom starveA (starveLoop.take ((j - 10) % 11))).pc t = .idle
  rw [untouched_of_tidsBelow (b := 3) (tidsBelow_take (by decide) _) (stateFrom_ok starve_loop _) ht]
  show setPc (fun _ => PC.idle) 2 _ t = PC.idle
  have h2 : t ≠ 2 := by omega
  rw [setPc_other _ _ h2]

theorem starve_states : (List.range 11).all (fun r =>
    decide ((stateFrom starveA (starveLoop.take r)).pc 2 ≠ .idle) &&
    decide ((stateFrom starveA (starveLoop.take r)).sleeper = none)) = true := by decide

theorem C12_fair_needs_bounded_posts :
    WeakFair starveExec ∧ KernelFair starveExec ∧ FiniteSpurious starveExec ∧ ¬ BoundedPosts starveExec ∧
      ((starveExec.ρ 10).pc 2).isPoster = true ∧ ∀ j, 10 ≤ j → (starveExec.ρ j).pc 2 ≠ .idle := by
  have hst : ∀ j, 10 ≤ j → (starveExec.ρ j).pc 2 ≠ .idle ∧ (starveExec.ρ j).sleeper = none := by
    intro j hj
    rw [(starve_at hj).1]
    simpa [bump] using all_range starve_states (Nat.mod_lt (j - 10) (by omega : 0 < 11))
  have hwf : WeakFair starveExec := by
    intro t i h
    by_cases h0 : t = 0
    · subst h0; exact starve_moves (r := 7) (by omega) rfl rfl i
    by_cases h1 : t = 1
    · subst h1; exact starve_moves (r := 1) (by omega) rfl rfl i
    by_cases h2 : t = 2
    · subst h2; exact starve_moves (r := 0) (by omega) rfl rfl i
    · have ht : 3 ≤ (t : Nat) := by
        cases t with
        | zero => exact absurd rfl h0
        | succ t => cases t with
          | zero => exact absurd rfl h1
          | succ t => cases t with
            | zero => exact absurd rfl h2
            | succ t => exact Nat.le_add_left 3 t
      exact absurd (starve_others ht (j := i + 10) (by omega)) (h (i + 10) (by omega)).1
  have hkf : KernelFair starveExec := by
    intro t i h
    have := h (i + 10) (by omega)
    rw [kernelDue_none (hst (i + 10) (by omega)).2] at this
    cases this
  have hfs : FiniteSpurious starveExec := by
    refine finiteSpurious_of_tail starveExec 10 (fun j t r hj he => ?_)
    rw [(starve_at hj).2] at he
    have hm := List.mem_of_getElem? he
    have h : starveLoop.all (fun e => match e with | .fwaitRet _ _ => false | _ => true) = true := by decide
    simp only [List.all_eq_true] at h
    have := h _ hm
    simp at this
  have hnb : ¬ BoundedPosts starveExec := by
    rintro ⟨B, hB⟩
    obtain ⟨h1, _, h3, h4⟩ := starve_pos B 0 (by omega)
    have := hB (10 + 11 * B + 0)
    rw [(starve_at h1).1, h3, h4] at this
    simp [bump, stateFrom, run, starveA] at this
    omega
  have hv : ((starveExec.ρ 10).pc 2).isPoster = true := by
    rw [(starve_at (Nat.le_refl 10)).1]; decide
  exact ⟨hwf, hkf, hfs, hnb, hv, fun j hj => (hst j hj).1⟩

end NsyncVerif.Futex
