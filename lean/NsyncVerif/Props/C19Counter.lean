/-
  Props/C19Counter.lean — counter half of property C19: "If memory cannot be obtained,
  nsync_counter_new returns NULL and leaves every existing object unchanged and usable."

  Single-counter LTS: the malloc-NULL path changes nothing but the caller's program counter, and
  between `malloc NULL` and `ret … NULL` the acceptor rejects every access to the counter's
  locations.  Driver (several counters): the three lines of a failed nsync_counter_new leave the
  map of existing counters, the in-flight table and the environment untouched.
  Nothing here is `_partial`.
-/
import NsyncVerif.Proofs.CounterRet
import NsyncVerif.Model.CounterDriver

namespace Counter

/-- The failing path: `call nsync_counter_new v`, `malloc NULL`, `ret nsync_counter_new NULL` is
    accepted from every state in which the thread is idle and the object does not exist, and the
    resulting state differs from the original one in nothing (the program counter is idle again). -/
theorem C19_counter_new_fail {s : State} {t : Tid} {v : Nat} (hpc : s.pc t = .idle)
    (hph : s.sh.phase = .absent) (hv : v < two32) :
    ∃ s3, run s [.thr t (.callNew v), .thr t (.malloc false), .thr t (.retNew false)] = .ok s3
      ∧ s3.sh = s.sh ∧ ∀ u, s3.pc u = s.pc u := by
  refine ⟨((s.setPc t (.newMalloc v)).setPc t (.newRet false)).setPc t .idle, ?_, rfl, ?_⟩
  · simp [run, step, stepThr, hpc, hph, hv, State.setPc]
  · intro u
    by_cases hu : u = t
    · subst hu; simp [State.setPc, hpc]
    · simp [State.setPc, hu]

/-- After `malloc NULL` zero further operations on the object are accepted: every atomic access to
    `ctr.value` / `ctr.waited` by the caller is rejected, and the only counter-API event accepted
    is `ret nsync_counter_new NULL`, which changes only the program counter. -/
theorem C19_counter_new_fail_no_access {s : State} {t : Tid} (hpc : s.pc t = .newRet false) :
    (∀ o l obs, l = Loc.value ∨ l = Loc.waited → ∃ m, step s (.thr t (.ld o l obs)) = .error m)
    ∧ (∀ o l n obs, l = Loc.value ∨ l = Loc.waited → ∃ m, step s (.thr t (.st o l n obs)) = .error m)
    ∧ (∀ o l x n obs ok, l = Loc.value ∨ l = Loc.waited →
        ∃ m, step s (.thr t (.cas o l x n obs ok)) = .error m)
    ∧ (∀ ok s', step s (.thr t (.retNew ok)) = .ok s' → ok = false ∧ s'.sh = s.sh ∧ s'.pc t = .idle) := by
  refine ⟨?_, ?_, ?_, ?_⟩
  · intro o l obs hl; rcases hl with rfl | rfl <;> exact ⟨"unexpected access to the counter", by simp [step, stepThr, hpc, dflt, reject]⟩
  · intro o l n obs hl; rcases hl with rfl | rfl <;> exact ⟨"unexpected access to the counter", by simp [step, stepThr, hpc, dflt, reject]⟩
  · intro o l x n obs ok hl
    rcases hl with rfl | rfl <;> exact ⟨"unexpected access to the counter", by simp [step, stepThr, hpc, dflt, reject]⟩
  · intro ok s' h
    obtain ⟨h1, h2⟩ := retNew_pc h
    rw [hpc] at h1
    injection h1 with h1
    subst h2
    exact ⟨h1.symm, rfl, by simp [State.setPc]⟩

/-- The successful path creates a usable counter holding v: live, value v, history [v], empty
    queue, free mutex, `waited` clear. -/
theorem C19_counter_new_ok {s : State} {t : Tid} {v : Nat} (h : Reachable s) (hpc : s.pc t = .idle)
    (hph : s.sh.phase = .absent) (hv : v < two32) :
    ∃ s4, run s [.thr t (.callNew v), .thr t (.malloc true), .thr t (.st .rlx .value v 0),
                 .thr t (.retNew true)] = .ok s4
      ∧ s4.sh.phase = .live ∧ s4.sh.value = v ∧ s4.sh.hist = [v] ∧ s4.sh.waiters = []
      ∧ s4.sh.lockHolder = none ∧ s4.sh.waited = false ∧ s4.pc t = .idle
      ∧ ∀ u, u ≠ t → s4.pc u = s.pc u := by
  have hs := (inv_of_reachable h).sh
  have hn := hs.hnil (hs.creating (Or.inr hph))
  simp [run, step, stepThr, hpc, hph, hv, State.setPc, State.mk']
  refine ⟨hn.2.2.2.2.1, hn.2.2.1, hn.2.2.2.1, ?_⟩
  intro u hu; simp [hu]

/-! ### the driver's map of counters -/

namespace Driver

theorem erase_of_lookup_none {α} {k : Nat} {l : List (Nat × α)} (h : lookup k l = none) :
    erase k l = l := by
  induction l with
  | nil => rfl
  | cons x xs ih =>
    obtain ⟨k', v⟩ := x
    simp only [lookup] at h
    split at h
    · cases h
    · rename_i hne; simp [erase, hne, ih h]

theorem erase_insert {α} (k : Nat) (v : α) (l : List (Nat × α)) : erase k (insert k v l) = erase k l := by
  have : ∀ l : List (Nat × α), erase k (erase k l) = erase k l := by
    intro l
    induction l with
    | nil => rfl
    | cons x xs ih =>
      obtain ⟨k', w⟩ := x
      by_cases hk : k' = k <;> simp [erase, hk, ih]
  simp [insert, erase, this]

theorem lookup_insert {α} (k : Nat) (v : α) (l : List (Nat × α)) : lookup k (insert k v l) = some v := by
  simp [insert, lookup]

/-- A failed nsync_counter_new (three log lines) is accepted by the driver and leaves every
    existing counter, the in-flight table and the environment untouched. -/
theorem C19_driver_new_fail (d : DState) (t : Tid) (v : Nat)
    (ha : lookup t d.active = none) (hc : lookup t d.creating = none)
    (hpc : d.env.pc t = .idle) (hph : d.env.sh.phase = .absent) (hv : v < two32) :
    let r1 := exec d (.callNew t v)
    let r2 := exec r1.1 (.malloc t none)
    let r3 := exec r2.1 (.retNew t none)
    r1.2 = "ok" ∧ r2.2 = "ok" ∧ r3.2 = "ok"
    ∧ r3.1.ctrs = d.ctrs ∧ r3.1.active = d.active ∧ r3.1.creating = d.creating ∧ r3.1.env = d.env := by
  simp [exec, ha, hc, Counter.step, stepThr, hpc, hph, hv, lookup_insert, State.setPc, erase_insert,
    erase_of_lookup_none hc]

/-- The hypotheses about `env` above always hold: the environment instance never leaves the
    "not created, every thread idle" state. -/
def EnvOK (d : DState) : Prop := (∀ t, d.env.pc t = .idle) ∧ d.env.sh.phase = .absent

theorem dflt_pc_phase {s s' : State} {idle : Bool} {e : Ev} (h : dflt s idle e = .ok s') :
    s'.pc = s.pc ∧ s'.sh.phase = s.sh.phase := by
  unfold dflt at h
  repeat' (split at h)
  all_goals first | (cases h; done) | (cases h; exact ⟨rfl, rfl⟩)

theorem envOK_init : EnvOK init := ⟨fun _ => rfl, rfl⟩

theorem envOK_step_ev {env en : State} {t : Tid} {e : Ev} (h : (∀ t, env.pc t = .idle) ∧ env.sh.phase = .absent)
    (hr : isRouted e = false) (hs : Counter.step env (.thr t e) = .ok en) :
    (∀ t, en.pc t = .idle) ∧ en.sh.phase = .absent := by
  simp only [Counter.step, stepThr, h.1 t] at hs
  cases e <;> simp [isRouted] at hr <;> simp only [] at hs
  all_goals (have := dflt_pc_phase hs; exact ⟨fun u => by rw [this.1]; exact h.1 u, by rw [this.2]; exact h.2⟩)

theorem envOK_exec {d : DState} (h : EnvOK d) (c : Cmd) : EnvOK (exec d c).1 := by
  unfold exec
  repeat' split
  all_goals first
    | exact h
    | (dsimp only; split <;> exact h)
    | skip
  · -- tick
    rename_i hen
    simp only [Counter.step] at hen
    split at hen
    · cases hen; exact h
    · cases hen
  · -- broadcast
    rename_i hr _ d' hb
    unfold broadcast at hb
    repeat' (split at hb)
    all_goals first | (cases hb; done) | skip
    cases hb
    rename_i hen
    exact envOK_step_ev h (by simpa using hr) hen

end Driver

end Counter
