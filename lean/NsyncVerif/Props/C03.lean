import NsyncVerif.Proofs.MuXVC
/-
  Property C03 — every hand-off is a happens-before edge under the declared memory orders
  (mutex part; the once / note / counter / signal edges are instances of the flag lemma below and of
  the per-layer acceptors' order checks).

  Happens-before is computed ONLY from the order each atomic operation on the mutex word requests
  (`Ord`: relaxed / acquire / release / acq_rel), with the C++20 release-sequence rule: a release
  operation heads a sequence that is continued by read-modify-writes and broken by a relaxed plain
  store; an acquire read of any write in the sequence synchronises with its head.  No ordering is
  credited to the CPU, to sequential consistency of the interleaving, or to the semaphores.
  Ghosts of the MuX model: `vc t` (thread clock), `relc` (release clock of the word), `released`
  (join of the clocks threads had at their release points = everything that "happened before some
  release of this mutex").
-/
namespace NsyncVerif.Props.C03
open NsyncVerif.MuX

/-- The release clock of the word always covers every past release point, and so does the clock of
    the owner of the writer bit. -/
theorem C03_release_chain {s : State} (h : Reachable s) :
    VC.le s.released s.relc ∧ ∀ t, s.w = some t → VC.le s.released (s.vc t) :=
  let v := reachable_vinv h; ⟨v.v1, v.v3⟩

/-- HAND-OFF.  Whatever happened before ANY earlier release of the mutex happens before the acquirer's
    continuation: at the step by which thread `t` comes to own a share (writer bit, a reader count, or
    the reader→writer conversion), its new clock dominates `released`. -/
theorem aw_handoff {s s' : State} (h : Reachable s) (t : Tid) (new : Nat) (ord : Ord)
    (hs : applyWrite s t new ord true = .ok s')
    (hgain : shareOf s t = .none) (hown : shareOf s' t ≠ .none) :
    VC.le s.released (s'.vc t) := by
  have hi := reachable_inv h
  have hv := reachable_vinv h
  · unfold applyWrite at hs
    simp only at hs
    split at hs
    · cases hs
    · rename_i ld hld
      split at hs
      · cases hs
      · rename_i w' rs' hr1
        split at hs
        · cases hs
        · rename_i hacq
          split at hs
          · cases hs
          · -- the delta must be an acquiring one, hence the order has acquire
            have hw := lockPart_w hr1
            have hno := shareOf_none hgain
            have hacqd : ld = .addW ∨ ld = .addR ∨ ld = .r2w := by
              cases ld with
              | addW => exact Or.inl rfl
              | addR => exact Or.inr (Or.inl rfl)
              | r2w => exact Or.inr (Or.inr rfl)
              | same =>
                exfalso
                simp only [lockPart] at hr1; cases hr1
                apply hown
                have e1 : shareOf s' t = shareOf s t := by
                  split at hs <;> (try split at hs) <;> first | (cases hs; simp [shareOf]) | cases hs
                rw [e1, hgain]
              | subW =>
                exfalso
                simp only [lockPart] at hr1
                split at hr1
                · rename_i hc; exact hno.1 hc.1
                · cases hr1
              | subR =>
                exfalso
                simp only [lockPart] at hr1
                split at hr1
                · rename_i hc; exact hno.2 hc.1
                · cases hr1
              | w2r =>
                exfalso
                simp only [lockPart] at hr1
                split at hr1
                · rename_i hc; exact hno.1 hc.1
                · cases hr1
            have hna : needsAcq ld (spinDelta (decode s.word) (decode new)) = true := by
              rcases hacqd with h | h | h <;> subst h <;> simp [needsAcq]
            have hoa : ord.isAcq = true := by
              cases ho : ord.isAcq with
              | true => rfl
              | false => simp [hna, ho] at hacq
            have hself := (clocks_vc_self s t ord true (isReleasePoint ld)).2 hoa rfl
            have hle : VC.le s.released ((clocks s t ord true (isReleasePoint ld)).1 t) :=
              VC.le_trans hv.v1 hself
            generalize hck : clocks s t ord true (isReleasePoint ld) = ck at hs hle
            obtain ⟨vc', relc', released'⟩ := ck
            simp only at hs hle
            split at hs
            · cases hs; exact hle
            · split at hs
              · cases hs; exact hle
              · cases hs
            · split at hs
              · cases hs; exact hle
              · cases hs

/-- HAND-OFF.  Whatever happened before ANY earlier release of the mutex happens before the acquirer's
    continuation: at the step by which thread `t` comes to own a share (writer bit, a reader count, or
    the reader→writer conversion), its new clock dominates `released`. -/
theorem C03_mutex_handoff {s s' : State} (h : Reachable s) (t : Tid) (exp new : Nat) (ord : Ord)
    (hs : step s (.cas t exp new ord) = .ok s')
    (hgain : shareOf s t = .none) (hown : shareOf s' t ≠ .none) :
    VC.le s.released (s'.vc t) := by
  simp only [step] at hs
  split at hs
  · split at hs
    · cases hs
    · exact aw_handoff h t new ord hs hgain hown
  · cases hs

/-- RELEASE.  At a release point (a write that gives up the writer bit or decrements the reader count)
    the releasing thread's clock — i.e. everything it did before, in particular its critical section —
    is recorded in `released`. -/
theorem C03_release_recorded {s s' : State} (t : Tid) (new : Nat) (ord : Ord) (rmw : Bool)
    (hs : applyWrite s t new ord rmw = .ok s')
    (hrp : ∃ ld, lockDelta (decode s.word) (decode new) = some ld ∧ isReleasePoint ld = true) :
    VC.le (s.vc t) s'.released := by
  obtain ⟨ld, hld, hrpt⟩ := hrp
  unfold applyWrite at hs
  simp only [hld] at hs
  split at hs
  · cases hs
  · split at hs
    · cases hs
    · split at hs
      · cases hs
      · have hrel : VC.le (s.vc t) (clocks s t ord rmw (isReleasePoint ld)).2.2 := by
          rw [hrpt]
          intro i
          simp only [clocks, if_true]
          split <;> simp [VC.join] <;> omega
        generalize hck : clocks s t ord rmw (isReleasePoint ld) = ck at hs hrel
        obtain ⟨vc', relc', released'⟩ := ck
        simp only at hs hrel
        split at hs
        · cases hs; exact hrel
        · split at hs
          · cases hs; exact hrel
          · cases hs
        · split at hs
          · cases hs; exact hrel
          · cases hs

/-- `released` only grows. -/
theorem C03_released_monotone_step {s s' : State} {e : Ev} (h : step s e = .ok s') :
    VC.le s.released s'.released := by
  cases e with
  | ld t v => simp [step] at h; split at h <;> cases h; exact VC.le_refl _
  | casFail t exp obs => simp [step] at h; split at h <;> cases h; exact VC.le_refl _
  | call t c =>
    simp only [step] at h
    split at h
    · cases h
    · cases c <;> simp only at h <;> first | (cases h; exact VC.le_refl _) | (split at h <;> first | (cases h; exact VC.le_refl _) | cases h)
  | ret t ok =>
    simp only [step] at h
    split at h
    · cases h
    · split at h
      · split at h
        · cases h; exact VC.le_refl _
        · cases h
      · split at h
        · cases h; exact VC.le_refl _
        · cases h
    · split at h
      · cases h; exact VC.le_refl _
      · cases h
    · split at h
      · cases h; exact VC.le_refl _
      · cases h
    · split at h
      · cases h; exact VC.le_refl _
      · cases h
  | annAcq t l => simp only [step] at h; split at h <;> first | cases h | (split at h <;> first | (cases h; exact VC.le_refl _) | cases h)
  | annRel t l => simp only [step] at h; split at h <;> first | cases h | (split at h <;> first | (cases h; exact VC.le_refl _) | cases h)
  | cas t exp new ord =>
    simp only [step] at h
    split at h
    · split at h
      · cases h
      · exact aw_mono h
    · cases h
  | st t new ord =>
    simp only [step] at h
    split at h
    · split at h
      · cases h
      · split at h
        · exact aw_mono h
        · cases h
    · cases h
where
  aw_mono {s s' : State} {t : Tid} {new : Nat} {ord : Ord} {rmw : Bool}
      (h : applyWrite s t new ord rmw = .ok s') : VC.le s.released s'.released := by
    unfold applyWrite at h
    simp only at h
    split at h
    · cases h
    · rename_i ld _
      split at h
      · cases h
      · split at h
        · cases h
        · split at h
          · cases h
          · have hm : VC.le s.released (clocks s t ord rmw (isReleasePoint ld)).2.2 := by
              intro i
              simp only [clocks]
              split
              · exact Nat.le_max_left _ _
              · exact Nat.le_refl _
            generalize hck : clocks s t ord rmw (isReleasePoint ld) = ck at h hm
            obtain ⟨vc', relc', released'⟩ := ck
            simp only at h hm
            split at h
            · cases h; exact hm
            · split at h
              · cases h; exact hm
              · cases h
            · split at h
              · cases h; exact hm
              · cases h

theorem C03_released_monotone {s s' : State} {evs : List Ev} (h : run s evs = .ok s') :
    VC.le s.released s'.released := by
  induction evs generalizing s with
  | nil => simp [run] at h; cases h; exact VC.le_refl _
  | cons e es ih =>
    simp only [run] at h
    split at h
    · rename_i s1 hs1; exact VC.le_trans (C03_released_monotone_step hs1) (ih h)
    · cases h

/-- END TO END.  If `u` gives up its share at some reachable state and, any number of steps of any
    threads later, `t` comes to own a share, then everything `u` did before releasing happens before
    `t`'s continuation — for every interleaving, any number of threads, under the declared orders only. -/
theorem C03_unlock_happens_before_lock {s1 s1' s2 s2' : State} (h1 : Reachable s1)
    (u : Tid) (newU : Nat) (ordU : Ord)
    (hrel : step s1 (.cas u s1.word newU ordU) = .ok s1')
    (hrp : ∃ ld, lockDelta (decode s1.word) (decode newU) = some ld ∧ isReleasePoint ld = true)
    (evs : List Ev) (hrun : run s1' evs = .ok s2)
    (t : Tid) (exp new : Nat) (ord : Ord) (hacq : step s2 (.cas t exp new ord) = .ok s2')
    (hgain : shareOf s2 t = .none) (hown : shareOf s2' t ≠ .none) :
    VC.le (s1.vc u) (s2'.vc t) := by
  have hr1' : Reachable s1' := by
    obtain ⟨e0, he0⟩ := h1
    refine ⟨e0 ++ [.cas u s1.word newU ordU], ?_⟩
    exact run_append he0 (by simp [run, hrel])
  have hr2 : Reachable s2 := by
    obtain ⟨e0, he0⟩ := hr1'
    exact ⟨e0 ++ evs, run_append he0 hrun⟩
  have a : VC.le (s1.vc u) s1'.released := by
    simp only [step, if_true] at hrel
    split at hrel
    · cases hrel
    · exact C03_release_recorded u newU ordU true hrel hrp
  have b := C03_released_monotone hrun
  have c := C03_mutex_handoff hr2 t exp new ord hacq hgain hown
  exact VC.le_trans a (VC.le_trans b c)
where
  run_append {s s' s'' : State} {a b : List Ev} (h1 : run s a = .ok s') (h2 : run s' b = .ok s'') :
      run s (a ++ b) = .ok s'' := by
    induction a generalizing s with
    | nil => simp [run] at h1; cases h1; simpa using h2
    | cons e es ih =>
      simp only [run, List.cons_append] at h1 ⊢
      cases hst : step s e with
      | error m => rw [hst] at h1; cases h1
      | ok s1 => rw [hst] at h1; simp only; exact ih h1

/-- What the acceptor demands of the declared orders (so that the theorems above apply to the code):
    taking a share or the spinlock must be an acquire, giving one up a release, and a plain store to the
    word must be a release store by the owner of writer bit and spinlock. -/
theorem C03_orders_required {s s' : State} {t : Tid} {new : Nat} {ord : Ord} {rmw : Bool}
    (h : applyWrite s t new ord rmw = .ok s') :
    ∀ ld, lockDelta (decode s.word) (decode new) = some ld →
      (needsAcq ld (spinDelta (decode s.word) (decode new)) = true → ord.isAcq = true) ∧
      (needsRel ld (spinDelta (decode s.word) (decode new)) = true → ord.isRel = true) := by
  intro ld hld
  unfold applyWrite at h
  simp only [hld] at h
  split at h
  · cases h
  · split at h
    · cases h
    · rename_i hacq
      split at h
      · cases h
      · rename_i hrel
        constructor
        · intro hn; cases ho : ord.isAcq with
          | true => rfl
          | false => simp [hn, ho] at hacq
        · intro hn; cases ho : ord.isRel with
          | true => rfl
          | false => simp [hn, ho] at hrel

/-! ### Non-vacuity -/
/-- writer 1 releases with a release CAS; writer 2 acquires with an acquire CAS: 2's clock then covers 1's. -/
def handoffTrace : List Ev :=
  [ .call 1 (.acq .W false), .cas 1 0 1 .acq, .ret 1 true, .call 1 (.rel .W), .cas 1 1 0 .rel, .ret 1 true,
    .call 2 (.acq .W false), .cas 2 0 1 .acq, .ret 2 true ]
example : (run init handoffTrace).toOption.map (fun s => (s.vc 2 1, s.released 1)) = some (2, 2) := by decide
/-- the same with a RELAXED unlock CAS is refused by the acceptor -/
example : (run init [ .call 1 (.acq .W false), .cas 1 0 1 .acq, .ret 1 true, .call 1 (.rel .W), .cas 1 1 0 .rlx ]).toOption.isSome = false := by decide
/-- … and so is an acquire without acquire order -/
example : (run init [ .call 1 (.acq .W false), .cas 1 0 1 .rlx ]).toOption.isSome = false := by decide

end NsyncVerif.Props.C03
