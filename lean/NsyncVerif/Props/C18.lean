/-
Property C18 (fixed text):
  "On times with 0 <= nanoseconds < 1e9, nsync_time_add, nsync_time_sub and nsync_time_cmp agree
   with integer arithmetic and ordering on seconds*1e9+nanoseconds: results are normalized,
   (a+b)-b equals a (barring overflow of the seconds field), cmp is a total order consistent with
   the sign of a-b. nsync_time_ms, nsync_time_us and nsync_time_s_ns yield the stated duration for
   every argument, and nsync_time_zero <= t <= nsync_time_no_deadline for every non-negative t."

Everything below is proved in full (no `_partial`).  The model (`NsyncVerif.Model.Time`) wraps on
signed overflow; the `InRange64 …` hypotheses are exactly "the C execution has no signed overflow
of tv_sec" (UB otherwise), so the theorems say nothing about UB executions.
`time_rep.c` and `time_rep_timespec.cc` have identical bodies for all modelled functions.
-/
import NsyncVerif.Model.Time
import NsyncVerif.Proofs.Time

namespace NsyncVerif
namespace Time

/-- add, exact form: `AddNoOverflow a b` is precisely "the C execution has no signed overflow". -/
theorem C18_add_exact {a b : Time} (ha : Norm a) (hb : Norm b) (h : AddNoOverflow a b) :
    Norm (add a b) ∧ toNs (add a b) = toNs a + toNs b := by
  rw [add_eq_exact h]
  unfold Norm at *; unfold toNs
  split <;> (constructor <;> simp only <;> omega)

/-- sub, exact form. -/
theorem C18_sub_exact {a b : Time} (ha : Norm a) (hb : Norm b) (h : SubNoOverflow a b) :
    Norm (sub a b) ∧ toNs (sub a b) = toNs a - toNs b := by
  rw [sub_eq_exact h]
  unfold Norm at *; unfold toNs
  split <;> (constructor <;> simp only <;> omega)

/-- add: normalized result, and exact integer sum.  Hypotheses: both ideal values of tv_sec that
the C code may compute (`a.sec+b.sec`, and `+1` for the carry) are representable. -/
theorem C18_add {a b : Time} (ha : Norm a) (hb : Norm b)
    (h1 : InRange64 (a.sec + b.sec + 1)) (h0 : InRange64 (a.sec + b.sec)) :
    Norm (add a b) ∧ toNs (add a b) = toNs a + toNs b :=
  C18_add_exact ha hb (addNoOverflow_of ha hb h1 h0)

/-- sub: normalized result, and exact integer difference. -/
theorem C18_sub {a b : Time} (ha : Norm a) (hb : Norm b)
    (h1 : InRange64 (a.sec - b.sec - 1)) (h0 : InRange64 (a.sec - b.sec)) :
    Norm (sub a b) ∧ toNs (sub a b) = toNs a - toNs b :=
  C18_sub_exact ha hb (subNoOverflow_of ha hb h1 h0)

/-- cmp is the sign of the integer difference. -/
theorem C18_cmp {a b : Time} (ha : Norm a) (hb : Norm b) :
    (cmp a b = 1 ↔ toNs a > toNs b) ∧ (cmp a b = 0 ↔ toNs a = toNs b) ∧
    (cmp a b = -1 ↔ toNs a < toNs b) := by
  have h := cmp_spec a b
  unfold Norm at *; unfold toNs
  refine ⟨?_, ?_, ?_⟩ <;> (constructor <;> intro h' <;> omega)

/-- On normalized times `toNs` is injective, so "equal as integers" is "equal as structs". -/
theorem C18_toNs_injective {a b : Time} (ha : Norm a) (hb : Norm b) (h : toNs a = toNs b) :
    a = b := by
  unfold Norm at *; unfold toNs at h
  exact time_ext (by omega) (by omega)

/-- cmp is a total order (`a ≤ b :⇔ cmp a b ≤ 0`): values in {-1,0,1}, reflexive, antisymmetric,
transitive, total, and `cmp a b = - cmp b a`.  None of this needs normalization. -/
theorem C18_cmp_total_order (a b c : Time) :
    (cmp a b = -1 ∨ cmp a b = 0 ∨ cmp a b = 1) ∧
    cmp a a = 0 ∧
    cmp a b = - cmp b a ∧
    (cmp a b ≤ 0 → cmp b a ≤ 0 → a = b) ∧
    (cmp a b = 0 ↔ a = b) ∧
    (cmp a b ≤ 0 → cmp b c ≤ 0 → cmp a c ≤ 0) ∧
    (cmp a b < 0 → cmp b c ≤ 0 → cmp a c < 0) ∧
    (cmp a b ≤ 0 → cmp b c < 0 → cmp a c < 0) ∧
    (cmp a b ≤ 0 ∨ cmp b a ≤ 0) := by
  have hab := cmp_spec a b
  have hba := cmp_spec b a
  have hbc := cmp_spec b c
  have hac := cmp_spec a c
  have haa := cmp_spec a a
  refine ⟨by omega, by omega, by omega, ?_, ?_, by omega, by omega, by omega, by omega⟩
  · intro h1 h2; exact time_ext (by omega) (by omega)
  · constructor
    · intro h; exact time_ext (by omega) (by omega)
    · intro h; subst h; omega

/-- cmp agrees with the sign of `a - b` as computed by `nsync_time_sub` (no overflow), and
comparing the difference with zero gives the same answer as comparing the operands. -/
theorem C18_cmp_consistent_with_sub {a b : Time} (ha : Norm a) (hb : Norm b)
    (h1 : InRange64 (a.sec - b.sec - 1)) (h0 : InRange64 (a.sec - b.sec)) :
    (cmp a b = 1 ↔ toNs (sub a b) > 0) ∧ (cmp a b = 0 ↔ toNs (sub a b) = 0) ∧
    (cmp a b = -1 ↔ toNs (sub a b) < 0) ∧ cmp (sub a b) zero = cmp a b := by
  have hs := C18_sub ha hb h1 h0
  have hc := C18_cmp ha hb
  have hc' := C18_cmp hs.1 (show Norm zero by decide)
  have hz0 : toNs zero = 0 := by decide
  have hr := cmp_range a b
  have hr' := cmp_range (sub a b) zero
  rw [hs.2, hz0] at hc'
  rw [hs.2]
  refine ⟨?_, ?_, ?_, ?_⟩
  · rw [hc.1]; omega
  · rw [hc.2.1]; omega
  · rw [hc.2.2]; omega
  · omega

/-- (a+b)-b = a, barring overflow of the seconds field: the addition and the subsequent
subtraction are both overflow-free C executions (exact conditions). -/
theorem C18_roundtrip {a b : Time} (ha : Norm a) (hb : Norm b)
    (hadd : AddNoOverflow a b) (hsub : SubNoOverflow (add a b) b) :
    sub (add a b) b = a := by
  have h1 := C18_add_exact ha hb hadd
  have h2 := C18_sub_exact h1.1 hb hsub
  apply C18_toNs_injective h2.1 ha
  rw [h2.2, h1.2]; omega

/-- The same with range hypotheses on the operands only: besides the C18_add hypotheses,
`a.sec` and `a.sec + 1` representable (`a.sec + 1` is the intermediate `tv_sec` of the
subtraction when the addition carried). -/
theorem C18_roundtrip' {a b : Time} (ha : Norm a) (hb : Norm b)
    (h1 : InRange64 (a.sec + b.sec + 1)) (h0 : InRange64 (a.sec + b.sec))
    (hs : InRange64 a.sec) (hs1 : InRange64 (a.sec + 1)) :
    sub (add a b) b = a := by
  have hadd := addNoOverflow_of ha hb h1 h0
  apply C18_roundtrip ha hb hadd
  unfold SubNoOverflow
  rw [add_eq_exact hadd, NS_IN_S_eq]
  unfold Norm at ha hb; unfold InRange64 at *
  split <;> simp only <;> omega

/-- nsync_time_ms: for every `unsigned` argument the result is normalized and denotes x ms.
That no intermediate `unsigned` computation wraps is `ms_nsec_no_wrap` (restated below). -/
theorem C18_ms (x : Nat) (hx : x < 2 ^ 32) : Norm (ms x) ∧ toNs (ms x) = (x : Int) * 10 ^ 6 := by
  rw [ms_eq x (by omega)]
  unfold Norm toNs; simp only [Int.ofNat_eq_natCast]
  constructor <;> omega

theorem C18_us (x : Nat) (hx : x < 2 ^ 32) : Norm (us x) ∧ toNs (us x) = (x : Int) * 10 ^ 3 := by
  rw [us_eq x (by omega)]
  unfold Norm toNs; simp only [Int.ofNat_eq_natCast]
  constructor <;> omega

/-- The modelled machine expressions (`unsigned`, modulo 2^32) equal the ideal ones. -/
theorem C18_ms_us_no_wrap (x : Nat) :
    (wrapU32 ((wrapI32 (1000 * 1000)).toNat * (x % 1000)) = 1000000 * (x % 1000)
      ∧ 1000000 * (x % 1000) < 2 ^ 32) ∧
    (wrapU32 (1000 * (x % (wrapI32 (1000 * 1000)).toNat)) = 1000 * (x % 1000000)
      ∧ 1000 * (x % 1000000) < 2 ^ 32) := by
  have h1 := ms_nsec_no_wrap x
  have h2 := us_nsec_no_wrap x
  exact ⟨⟨h1.1, by omega⟩, ⟨h2.1, by omega⟩⟩

/-- nsync_time_s_ns. (`InRange64 s` just says that `s` is a `time_t`.) -/
theorem C18_s_ns (s : Int) (ns : Nat) (hns : ns < 10 ^ 9) (_hs : InRange64 s) :
    toNs (sNs s ns) = s * 10 ^ 9 + (ns : Int) ∧ Norm (sNs s ns) := by
  unfold sNs
  rw [wrap64_of_inRange (by unfold InRange64; simp only [Int.ofNat_eq_natCast]; omega)]
  unfold Norm toNs; simp only [Int.ofNat_eq_natCast]
  constructor <;> omega

/-- For every `unsigned` ns (not only < 1e9) the denoted duration is s*1e9+ns; the result is
normalized exactly when ns < 1e9. -/
theorem C18_s_ns_any (s : Int) (ns : Nat) (hns : ns < 2 ^ 32) :
    toNs (sNs s ns) = s * 10 ^ 9 + (ns : Int) ∧ (Norm (sNs s ns) ↔ ns < 10 ^ 9) := by
  unfold sNs
  rw [wrap64_of_inRange (by unfold InRange64; simp only [Int.ofNat_eq_natCast]; omega)]
  unfold Norm toNs; simp only [Int.ofNat_eq_natCast]
  constructor
  · omega
  · constructor <;> intro h <;> omega

/-- zero <= t <= no_deadline for every non-negative (normalized, representable) t. -/
theorem C18_bounds {t : Time} (ht : Norm t) (h0 : 0 ≤ t.sec) (hr : InRange64 t.sec) :
    cmp zero t ≤ 0 ∧ cmp t noDeadline ≤ 0 := by
  have h1 := cmp_spec zero t
  have h2 := cmp_spec t noDeadline
  have z1 : zero.sec = 0 := rfl
  have z2 : zero.nsec = 0 := rfl
  have n1 : noDeadline.sec = 9223372036854775807 := by decide
  have n2 : noDeadline.nsec = 999999999 := by decide
  unfold Norm at ht; unfold InRange64 at hr
  constructor <;> omega

/-- The constants themselves. -/
theorem C18_consts : Norm zero ∧ toNs zero = 0 ∧ Norm noDeadline ∧
    toNs noDeadline = (2 ^ 63 - 1) * 10 ^ 9 + (10 ^ 9 - 1) := by decide

/-! ### Non-vacuity: concrete instances, including boundary cases -/

-- carry at the nsec boundary: 1.999999999 + 0.000000001 = 2.0
example : add ⟨1, 999999999⟩ ⟨0, 1⟩ = ⟨2, 0⟩ := by decide
example : add ⟨1, 999999999⟩ ⟨2, 999999999⟩ = ⟨4, 999999998⟩ := by decide
-- negative seconds: -1.5s is represented as (-2, 500000000)
example : add ⟨-2, 500000000⟩ ⟨0, 500000000⟩ = ⟨-1, 0⟩ := by decide
example : sub ⟨0, 0⟩ ⟨0, 1⟩ = ⟨-1, 999999999⟩ := by decide
example : sub ⟨-5, 3⟩ ⟨-7, 999999999⟩ = ⟨1, 4⟩ := by decide
example : cmp ⟨-1, 999999999⟩ zero = -1 := by decide
example : cmp ⟨3, 5⟩ ⟨3, 4⟩ = 1 := by decide
-- extreme representable seconds (hypotheses of C18_add hold: 2^63-2 + 0 + 1 = 2^63-1)
example : Norm (add ⟨9223372036854775806, 999999999⟩ ⟨0, 1⟩) ∧
    toNs (add ⟨9223372036854775806, 999999999⟩ ⟨0, 1⟩)
      = toNs ⟨9223372036854775806, 999999999⟩ + toNs ⟨0, 1⟩ :=
  C18_add (by decide) (by decide) (by decide) (by decide)
example : sub (add ⟨-9223372036854775808, 999999999⟩ ⟨5, 999999999⟩) ⟨5, 999999999⟩
    = ⟨-9223372036854775808, 999999999⟩ :=
  C18_roundtrip' (by decide) (by decide) (by decide) (by decide) (by decide) (by decide)
example : ms 4294967295 = ⟨4294967, 295000000⟩ := by decide
example : us 4294967295 = ⟨4294, 967295000⟩ := by decide
example : ms 999 = ⟨0, 999000000⟩ := by decide
example : sNs (-3) 999999999 = ⟨-3, 999999999⟩ := by decide
example : cmp zero noDeadline = -1 ∧ cmp noDeadline noDeadline = 0 := by decide
/-- Outside the hypotheses the C code has UB and the wrap model shows why the hypothesis is
needed: the seconds field overflows. -/
example : add ⟨9223372036854775807, 999999999⟩ ⟨0, 1⟩ = ⟨-9223372036854775808, 0⟩ := by decide

end Time
end NsyncVerif
