/-
  Axiom audit of every theorem of Props/C16CvObserver.lean (C16, condition-variable observer half)
  and of the invariants it rests on.  Allowed: propext, Classical.choice, Quot.sound.
-/
import NsyncVerif.Props.C16CvObserver

open NsyncVerif.CvFix

#print axioms invO_reachable
#print axioms invH_reachable
#print axioms obs_step
#print axioms obs_ltr
#print axioms dbgRel_accepted
#print axioms C16_cv_observer_holds_word
#print axioms C16_cv_observer
#print axioms C16_cv_no_lost_wake
#print axioms C16_cv_observer_release_exact
#print axioms C16_cv_observer_bounded_hold
#print axioms C16_cv_observer_first_load
#print axioms C16_cv_observer_why_locked
#print axioms C16_cv_observer_never_sleeps
#print axioms C16_cv_observer_progress
#print axioms C16_cv_observer_record_access
#print axioms C16_cv_stale_release_rejected
#print axioms C16_cv_stale_states_unreachable
