import NsyncVerif.Props.C06Fair
import NsyncVerif.Proofs.MuCFairSteps6
import NsyncVerif.Proofs.MuCFairSpin5
import NsyncVerif.Proofs.MuCFairDead
/-!
# C06 / C02 liveness on a mutex with conditional critical sections — towards `C06_fair_finite_steps_full`

Continues `Props/C06Fair.lean` (which reduces `C06_fair_termination_full` to `C06_fair_finite_steps_full`: "only finitely
many steps of the library happen").  Model `NsyncVerif.Model.MuC`.  Steps as in the header of `Props/C02Fair.lean`.

## STATUS after the repair of DEFECT F9 (this file follows the REPAIRED mu_wait.c)

DEFECT F9 (genuine, found by this proof attempt, reproduced on the real library — scenario and schedule in the header of
Proofs/MuCTraceDead.lean): mu_try_acquire_after_timeout_or_cancel waited for MU_LONG_WAIT even after the thread had been
woken; a timed-out nsync_mu_wait caller that was woken (designated waker) while it spun, with the long waiter queued behind
it, left the mutex dead.  For the OLD code `C06_fair_termination_full` was FALSE: `C06_fair_termination_old_code_witness`
(the old acceptor `runOldF9`, Proofs/MuCFairDead.lean, accepts `traceDead`, which ends in the dead state — word 116 =
MU_WAITING|MU_CONDITION|MU_WRITER_WAITING|MU_LONG_WAIT, nobody holding, thread 0 asleep inside nsync_mu_lock, thread 4 inside
nsync_mu_wait_with_deadline (finite deadline) woken and spinning for ever); the repaired acceptor rejects the trace at the
new load of `waiting` (`dead_new_rejects`).
REPAIR (model: program point `mtLdWk`, local `MW.wk`): at the top of the loop body `if (ATM_LOAD_ACQ (&w->nw.waiting) == 0)
zero_to_acquire = MU_ANY_LOCK;` — a woken thread no longer waits for MU_LONG_WAIT, like a woken thread in lock_slow.
For the repaired code `C06_fair_termination_full` is OPEN again (neither proved nor refuted); `C06_long_wait_progress_full`
below is the invariant a proof would need in place of the refuted one (a woken spinner now counts as making progress).

## Also proved here (all for ALL executions, any number of threads) — towards `C06_fair_termination_nolw_full`:

STEP A — the stage (Proofs/MuCFairSteps*.lean)
* `C06_stage_monotone`     `stage s t` = 3 inside an acquisition (lock / rlock / trylock / rtrylock /
                           nsync_mu_wait_with_deadline, from call to return), 2 idle holding the mutex, 1 inside a release
                           (unlock / runlock / unlock_without_wakeup), 0 idle holding nothing.  No accepted step of anybody
                           (environment included) increases anybody's stage, except the `call` of an acquisition.
                           (Coarser than MuQ's stage — nsync_mu_wait holds and releases the mutex inside ONE call — but
                           monotone; `kind_step`: only `call` / `ret` enter or leave a call, and the kind of a call in
                           progress does not change.)
* `C06_fair_stage_freezes` after the last arrival every thread's stage is non-increasing, hence eventually constant.
* `C06_fair_closes`        ALL threads at once (`reachable_bounded`: only finitely many threads ever left `idle`): with
                           `HoldersRelease`, after the last arrival the system CLOSES (`ClosedFrom x n`): from time `n` on
                           every stage is constant and is 0, 1 or 3; no `call` and no `ret` happens any more — NOBODY EVER
                           RETURNS AGAIN —; nobody holds the mutex between calls; the protected data are constant
                           (`data_step`: data change only by `dataW`).
  So what is left of `C06_fair_finite_steps_full` is a statement about a closed system: a fixed finite set of threads each
  for ever inside one call, constant data (every condition has a fixed truth value), no arrivals, no failing
  `remove_count` CAS, no environment post — show that only finitely many steps happen (equivalently, by
  `C06_fair_settled_of_finite_steps` + `C06_no_stuck_state`: nobody is for ever inside a release, and everybody for ever
  inside an acquisition ends asleep).

STEP B — points of no return (with `C06_fair_trylock_returns`, `C06_fair_return_point`, `C06_fair_wakes_delivered`,
`C06_fair_past_release_returns`, `C06_fair_wait_null_returns` of Props/C06Fair.lean)
* `C06_fair_frozen_no_return_point`  a thread whose stage has frozen is never again at a return point, inside a try-lock,
                           or in the wake-up loop of a release (it would return, and its stage would drop).

  First consequences (Proofs/MuCFairSteps6.lean): `C06_fair_closed_prunes` (in the closed system nobody is at a return
  point, inside a try-lock or in the wake-up loop of a release — so no fast-path acquisition by a nsync_mu_lock caller and no
  release CAS of a nsync_mu_unlock caller ever succeeds again) and `C06_fair_closed_eval_false` (every condition evaluated
  inside nsync_mu_wait yields false and the call goes on to re-wait).

STEPS C, D — EVERY spinlock region, against a word nobody else changes (Proofs/MuCFairSpin*.lean, MuCFairQueue*.lean)
* `C06_cas_after_reread`   (D) the release CAS of mu_release_spinlock: if the word is what the thread loaded, the CAS succeeds
                           and the thread is in its wait loop; otherwise the word has changed, the thread re-loads and the
                           word is untouched.  (Same for the other word CASes of the regions: `own_mwRelCas`, `own_usFinCas`,
                           `own_usRelCas`; loads record the current word: `own_lsRelLd`, …)
* `C06_spin_region_exit`   (C, outside the scan loop) a thread in a spinlock region — queue insertion and
                           mu_release_spinlock of lock_slow; the release loop of nsync_mu_wait; the removal after a timeout
                           (mu_wait.c:90-113); the release before conditions are tested (mu.c:354) and the final CAS of
                           unlock_slow — leaves the region, PROVIDED that from now on nobody else changes the word and no CAS
                           on a `remove_count` fails: weak fairness + an explicit rank (`spinRk`: at most 6 own steps — one
                           stale CAS, a re-load, a CAS —, 7 for the removal after a timeout).
* `C06_scan_loop_exit`     (C, the scan loop) with `testing_conditions` off the scan keeps the spinlock: the thread reaches
                           the final load of unlock_slow after at most 2·(|mu->waiters| + |new_waiters|) + 1 own steps
                           (`scanRun_mu`: every successful CAS on a `remove_count` leaves less to look at), provided no CAS
                           on a `remove_count` fails.  No hypothesis on the word; `queue_frame`: while a thread owns the
                           spinlock no step of anybody else changes mu->waiters.
* `C06_spinlock_released`  (C) together: the owner of MU_SPINLOCK, facing a word nobody else changes and no failing
                           `remove_count` CAS, gives the spinlock up.  Conditions are evaluated in none of these regions
                           (`C16_no_callback_under_spinlock`): with `testing_conditions` on, the scan releases the spinlock
                           (`own_usRelCas`) before it evaluates.

## What remains for `C06_fair_termination_nolw_full` (nothing below is proved)

In the closed system (`ClosedFrom`), with no failing `remove_count` CAS and no environment post any more:
1. `C06_closed_word_settles_full` — the word changes only finitely often.  Sketch: every cycle of a thread that contains a
   successful CAS on the word passes through a semaphore P (lock_slow: enqueue, sleep; nsync_mu_wait: evaluate FALSE —
   `C06_fair_closed_eval_false` —, enqueue, release / scan, sleep), so it consumes a post; posts come only from the
   wake-up loops of nsync_mu_wait callers (an nsync_mu_unlock caller that reaches its wake-up loop returns: excluded by
   `C06_fair_closed_prunes`); a nsync_mu_wait caller is woken as a conditional waiter only if the scan finds its condition
   TRUE, on the same constant data on which it has just found it FALSE (`reachable_pd_cond`: the record carries the
   condition of the call) — so after its next enqueue it never evaluates, hence never scans, again: at most two scans per
   nsync_mu_wait caller, finitely many posts, finitely many rounds.  Needs a lexicographic potential (remaining scans,
   posts in flight = wake lists + semaphore counts, awake contenders) that every successful CAS on the word decreases.
2. `C06_closed_const_word_stops_full` — once the word is constant only finitely many steps happen: the spinlock is free
   (`C06_spinlock_released`), every CAS after a re-read would succeed and change the word (`C06_cas_after_reread` and its
   siblings), so after at most one stale CAS no thread is at a program point from which it reaches such a CAS; what is left
   is idle, asleep, the spurious-wake-up loops (finitely many posts) — and a thread spinning in
   mu_try_acquire_after_timeout_or_cancel on MU_LONG_WAIT: point 3.  Mechanical (local ranks for ~60 program points, the
   `own_cases` tactic of Proofs/MuCFairStraight.lean proves each successor lemma in three lines).
3. `C06_long_wait_progress_full` (OPEN for the repaired code; false for the old one): without it, the hypothesis `NoLongWait` in 2.
(1 ∧ 2 ⟹ `C06_fair_termination_nolw_full`: `C06_fair_termination_nolw_of_closed`, machine-checked glue.)

(The earlier version of this header argued informally that the dead state is unreachable; the argument overlooked that
MU_DESIG_WAKER can be cleared on behalf of ANOTHER woken thread.)
-/
namespace NsyncVerif.MuC

/-! ## step A -/

/-- No accepted step of anybody increases anybody's stage, except the `call` of an acquisition. -/
theorem C06_stage_monotone {cfg : Cfg} {s s' : State} {e : Event} (hr : Reachable cfg s) (hs : step cfg s e = .ok s')
    (hna : e.isArrival = false) (t : Tid) : stage s' t ≤ stage s t :=
  stage_step hr hs hna t

/-- After the last arrival every thread's stage freezes. -/
theorem C06_fair_stage_freezes {cfg : Cfg} {s0 : State} (x : Exec cfg s0) (hr : Reachable cfg s0) {n0 : Nat}
    (hna : NoArrivals x n0) (t : Tid) : ∃ n, n0 ≤ n ∧ ∀ j, n ≤ j → stage (x.ρ j) t = stage (x.ρ n) t :=
  stage_freezes x hr hna t

/-- After the last arrival the system closes: nobody ever returns again, nobody holds between calls, the data are
    constant, every thread is for ever idle holding nothing / inside a release / inside an acquisition. -/
theorem C06_fair_closes {cfg : Cfg} {s0 : State} (x : Exec cfg s0) (hr : Reachable cfg s0) (hh : HoldersRelease x)
    (ha : FiniteArrivals x) : ∃ n, ClosedFrom x n := by
  obtain ⟨n0, hn0⟩ := ha
  obtain ⟨n, _, hc⟩ := closes x hr hh (n0 := n0) hn0
  exact ⟨n, hc⟩

/-! ## step B -/

theorem C06_fair_frozen_no_return_point {cfg : Cfg} {s0 : State} (x : Exec cfg s0) (hr : Reachable cfg s0) (hf : WeakFair x)
    (hh : HoldersRelease x) {n0 : Nat} (hna : NoArrivals x n0) (t : Tid) {n : Nat} (hn : n0 ≤ n)
    (hfr : ∀ j, n ≤ j → stage (x.ρ j) t = stage (x.ρ n) t) (j : Nat) (hj : n ≤ j) :
    ¬ retPc ((x.ρ j).pc t) ∧ ¬ tryPc ((x.ρ j).pc t) ∧ ∀ l nw, ¬ wakePc (.ul l nw) ((x.ρ j).pc t) :=
  frozen_no_return_point x hr hf hh hna t hn hfr j hj

/-! ## steps C and D -/

/-- (D) mu_release_spinlock: the CAS after the re-read succeeds iff the word has not changed in between. -/
theorem C06_cas_after_reread {cfg : Cfg} {s s' : State} {e : Event} {t : Tid} {c : SL} {old : Word}
    (hs : step cfg s e = .ok s') (ht : e.tid = some t) (hd : e.isData = false) (hp : s.pc t = .lsRelCas c old) :
    (s.word = old ∧ s'.pc t = .lsWaitLd c) ∨ (s.word ≠ old ∧ s'.pc t = .lsRelLd c ∧ s'.word = s.word) :=
  own_lsRelCas hs ht hd hp

/-- (C) The owner of MU_SPINLOCK outside the scan loop, facing a word nobody else changes, leaves its region. -/
theorem C06_spin_region_exit {cfg : Cfg} {s0 : State} (x : Exec cfg s0) (hf : WeakFair x) (hr : Reachable cfg s0) (u : Tid)
    (i : Nat) (hin : ((x.ρ i).pc u).spinS = true)
    (hquiet : ∀ j, i ≤ j → ¬ RMoves x u j → (x.ρ (j + 1)).word = (x.ρ j).word)
    (hrc : ∀ j e, i ≤ j → x.σ j = some e → e.rcFail = false) :
    ∃ j, i ≤ j ∧ ((x.ρ j).pc u).spinS = true ∧ RMoves x u j ∧ ((x.ρ (j + 1)).pc u).spinS = false :=
  spin_region_exit x hf hr u i hin hquiet hrc

/-- (C) the scan loop with `testing_conditions` off. -/
theorem C06_scan_loop_exit {cfg : Cfg} {s0 : State} (x : Exec cfg s0) (hf : WeakFair x) (hr : Reachable cfg s0) (u : Tid)
    (i : Nat) (hin : ((x.ρ i).pc u).scanLoop = true) (hrc : ∀ j e, i ≤ j → x.σ j = some e → e.rcFail = false) :
    ∃ j, i ≤ j ∧ ((x.ρ j).pc u).scanLoop = true ∧ RMoves x u j ∧ ∃ r f, (x.ρ (j + 1)).pc u = .usFinLd r f :=
  scan_loop_exit x hf hr u i hin hrc

/-- (C) every region: the owner of MU_SPINLOCK, facing a word nobody else changes, gives it up. -/
theorem C06_spinlock_released {cfg : Cfg} {s0 : State} (x : Exec cfg s0) (hf : WeakFair x) (hr : Reachable cfg s0) (u : Tid)
    (i : Nat) (hin : (x.ρ i).sp = some u)
    (hquiet : ∀ j, i ≤ j → ¬ RMoves x u j → (x.ρ (j + 1)).word = (x.ρ j).word)
    (hrc : ∀ j e, i ≤ j → x.σ j = some e → e.rcFail = false) : ∃ j, i ≤ j ∧ (x.ρ j).sp ≠ some u :=
  spinlock_released x hf hr u i hin hquiet hrc

/-- While a thread owns MU_SPINLOCK nobody else changes mu->waiters. -/
theorem C06_queue_frame {cfg : Cfg} {s s' : State} {e : Event} {u : Tid} (hr : Reachable cfg s) (hsp : s.sp = some u)
    (hs : step cfg s e = .ok s') (hne : e.tid ≠ some u) : s'.queue = s.queue :=
  queue_frame (reachable_inv1 hr) (reachable_inv3 hr) hsp hs hne

/-! ## the closed system -/

theorem C06_fair_closed_prunes {cfg : Cfg} {s0 : State} (x : Exec cfg s0) (hr : Reachable cfg s0) (hf : WeakFair x)
    (hh : HoldersRelease x) {n0 n : Nat} (hna : NoArrivals x n0) (hn : n0 ≤ n) (hc : ClosedFrom x n) (t : Tid) (j : Nat)
    (hj : n ≤ j) : ¬ retPc ((x.ρ j).pc t) ∧ ¬ tryPc ((x.ρ j).pc t) ∧ ∀ l nw, ¬ wakePc (.ul l nw) ((x.ρ j).pc t) :=
  closed_prunes x hr hf hh hna hn hc t j hj

theorem C06_fair_closed_eval_false {cfg : Cfg} {s0 : State} (x : Exec cfg s0) (hr : Reachable cfg s0) (hf : WeakFair x)
    (hh : HoldersRelease x) {n0 n : Nat} (hna : NoArrivals x n0) (hn : n0 ≤ n) (hc : ClosedFrom x n) {t : Tid} {j : Nat}
    (hj : n ≤ j) {c : MW} (hp : (x.ρ j).pc t = .mwEval c) {e : Event} (he : x.σ j = some e) (ht : e.tid = some t)
    (hd : e.isData = false) : ∃ fn k, e = .cond t fn k false ∧ (x.ρ (j + 1)).pc t = .mwStW c :=
  closed_eval_false x hr hf hh hna hn hc hj hp he ht hd

/-- OPEN (1): in the closed system the word changes only finitely often. -/
def C06_closed_word_settles_full : Prop :=
  ∀ (cfg : Cfg) (s0 : State) (x : Exec cfg s0), FairHyps x → ∀ n, ClosedFrom x n →
    ∃ N, ∀ j, N ≤ j → (x.ρ j).word = (x.ρ N).word

/-- A thread spinning in mu_try_acquire_after_timeout_or_cancel that has NOT been seen woken (it still honours MU_LONG_WAIT). -/
def PC.mtSpin : PC → Bool
  | .mtLd c | .mtCasAcq c _ | .mtCasWW c _ | .mtLdWk c _ => !c.wk
  | _ => false

/-- (3) OPEN for the repaired code (it was false for the old code, where a woken spinner waited for the bit too).  While MU_LONG_WAIT is set and the spinlock is free, somebody who does not
    wait for the bit is responsible for the queued waiters: a thread that owns a share, an unlocker mid-scan or in its
    wake-up loop, or a thread in flight that is not spinning in mu_try_acquire_after_timeout_or_cancel. -/
def C06_long_wait_progress_full : Prop :=
  ∀ (cfg : Cfg) (s : State), Reachable cfg s → s.word.lw = true → s.word.spin = false →
    ∃ t, shareOf s t ≠ none ∨ (s.pc t).unl = true ∨ (s.pc t).wakeL ≠ [] ∨
      (InFlight s t ∧ (s.pc t).mtSpin = false ∧ (s.pc t).timedOut = false)

/-- MU_LONG_WAIT is never set. -/
def NoLongWait {cfg : Cfg} {s0 : State} (x : Exec cfg s0) : Prop := ∀ j, (x.ρ j).word.lw = false

/-- THE CORRECTED STATEMENT: `C06_fair_termination_full` for executions in which MU_LONG_WAIT is never set.  NOT PROVED. -/
def C06_fair_termination_nolw_full : Prop :=
  ∀ (cfg : Cfg) (s0 : State) (x : Exec cfg s0), FairHyps x → NoLongWait x →
    ∀ t i, MustReturn x t i → ∃ j, i ≤ j ∧ (x.ρ j).pc t = .idle

/-- OPEN (2): if MU_LONG_WAIT is never set, then once the word is constant only finitely many library steps happen. -/
def C06_closed_const_word_stops_full : Prop :=
  ∀ (cfg : Cfg) (s0 : State) (x : Exec cfg s0), FairHyps x → NoLongWait x → ∀ n, ClosedFrom x n →
    (∃ N, ∀ j, N ≤ j → (x.ρ j).word = (x.ρ N).word) → ∃ N, NoStepsFrom x N

/-- The glue: (1) and (2) give the corrected theorem. -/
theorem C06_fair_termination_nolw_of_closed :
    C06_closed_word_settles_full → C06_closed_const_word_stops_full → C06_fair_termination_nolw_full := by
  intro h1 h2 cfg s0 x hy hlw t i hm
  obtain ⟨n, hc⟩ := C06_fair_closes x hy.reach hy.release hy.arrivals
  obtain ⟨N, hN⟩ := h2 cfg s0 x hy hlw n hc (h1 cfg s0 x hy n hc)
  obtain ⟨m, hs⟩ := settled_of_no_steps x hy hN
  exact fair_termination_of_settled x hy.reach hy.contract hy.note hs t i hm

/-! ## DEFECT F9 of the old code -/

/-- For mu_wait.c before the repair of F9 the theorem was false: the old acceptor accepts `traceDead` (an execution
    reproduced on the real library), which ends with the mutex dead — MU_LONG_WAIT set, no lock bit, spinlock free, no
    designated waker; thread 0 asleep inside nsync_mu_lock with `long_wait` set, queued; thread 4 inside
    nsync_mu_wait_with_deadline with the finite deadline 5, timed out, woken, spinning — and the spinner's re-load of the
    word leads back to the same program point; the repaired acceptor rejects the trace at the new load of `waiting`. -/
theorem C06_fair_termination_old_code_witness :
    afterOldF9 ⟨false⟩ traceDead (fun s =>
      encode s.word == 116 && s.word.lw && !s.word.wlock && s.word.readers == 0 && !s.word.spin && !s.word.desig &&
      s.queue == [0] && (s.wr 0).sem == 0 && !(s.wr 3).waiting &&
      (match s.pc 0 with | .lsPRet c => c.lwl && decide (c.mw = none) | _ => false) &&
      (match s.pc 4 with | .mtLd c => decide (c.dl = some 5) && decide (c.so = .timedout) | _ => false) &&
      decide (s.pc 1 = .idle) && decide (s.pc 3 = .idle) && decide (s.held 1 = none) && decide (s.held 3 = none)) = true ∧
    afterOldF9 ⟨false⟩ (traceDead ++ [.ld 4 .rlx .word 116, .ld 4 .rlx .word 116, .ld 4 .rlx .word 116])
      (fun s => match s.pc 4 with | .mtLd _ => encode s.word == 116 | _ => false) = true ∧
    acceptsF ⟨false⟩ traceDead = false :=
  ⟨dead_old_accepts, dead_old_spins, dead_new_rejects.1⟩

/-! ## the open point: non-vacuity -/

set_option maxRecDepth 4096 in
/-- Non-vacuity of the premise: `traceLongWait` ends with MU_LONG_WAIT set and the spinlock free — and there the
    conclusion holds (thread 1 owns the writer share). -/
example : stateAfter ⟨false⟩ traceLongWait (fun s => s.word.lw && !s.word.spin && decide (shareOf s 1 ≠ none)) = true := by
  decide

end NsyncVerif.MuC
