/-
  Props/C13Cancel.lean — property C13, the cancellable-wait half: "no waker accesses the bookkeeping of … a
  cancellable wait after that call can have returned, so the caller's stack frame may be reused immediately".

  The bookkeeping: the on-stack `struct nsync_waiter_s nw` of nsync_sem_wait_with_cancel_ (internal/sem_wait.c),
  the sleep of every cancellable nsync_cv_wait_with_deadline / nsync_mu_wait_with_deadline; it is linked on the
  cancel note's `waiters` list and dies when nsync_sem_wait_with_cancel_ returns.  The wakers: notify () /
  note_notify_child (internal/note.c) — nsync_note_notify, or the lazy expiry inside
  nsync_note_notified_deadline_ (nsync_note_is_notified, another waiter, the owner itself).  Model:
  Model/SemWait.lean; all statements are over every reachable state of the acceptor of the code
  (`noReread = false`): any number of notes, waiters, notifiers, any interleaving and clock, both semaphore flavours.

  `touches s u e r`: event `e` of thread `u` loads / stores `nw->waiting` of r, or is the
  `nsync_mu_semaphore_v (nw->sem)` of the notifier that unlinked r.  What the code does (note.c:90-95): under
  note_mu, `n->waiters = nsync_dll_remove_ (…); ATM_STORE_REL (&nw->waiting, 0); nsync_mu_semaphore_v (nw->sem);`
  — the read of `nw->sem` comes AFTER `waiting := 0`, but still INSIDE note_mu, and the owner's path to its
  return goes through `nsync_mu_lock (&cancel_note->note_mu)` (sem_wait.c:67) whatever made its P return
  (the V, its deadline, a V of another layer).  So there is no window: NO DEFECT found here (unlike cv.c before
  the repair of F3, where the waker touched the record outside the lock).

  STATUS: both theorems proved as stated.
  * `C13_cancel_record_touch`: every access to a record by a thread other than its owner is made by the thread
    that holds the note's mutex, to a registered record, whose owner is inside nsync_sem_wait_with_cancel_
    between its enqueue and the return of its final `nsync_mu_lock (&cancel_note->note_mu)` (`enqNL`) — it cannot
    return before the notifier's unlock —, and the record is the head of the note's list (the unlinking store) or
    in the hands of that notifier between its unlink and its V (`post u = some r`).
  * `C13_cancel_owner_returns_clean`: at the return the record is unregistered, on no list, and in no notifier's
    hands; no registered record, list element or pending post belongs to the returning thread.
  * `C13_cancel_remove_safe`: the owner's `nsync_dll_remove_` (sem_wait.c:71) is only reached with the record on
    the list (the acceptor's "not on the list" rejection is dead).
-/
import NsyncVerif.Proofs.SemWaitSteps

set_option linter.unusedVariables false

namespace SemWait

/-- every access to a waiter record by a thread other than its owner: by the holder of the note's mutex, to a
    registered record whose owner is between its enqueue and its final acquisition of note_mu -/
theorem C13_cancel_record_touch {cfg : Config} {s s' : State} {u : Tid} {e : Ev} {r : Rid} (hc : cfg.noReread = false)
    (hr : Reachable cfg s) (hs : step cfg s (.thr u e) = .ok s') (ht : touches s u e r)
    (hne : (s'.rcd r).owner ≠ u) :
    registered s r
    ∧ (s.note (s.rcd r).note).lock = some u
    ∧ enqNL (s.pc (s.rcd r).owner) = true
    ∧ (s.fr (s.rcd r).owner).nw = some r ∧ (s.fr (s.rcd r).owner).note = (s.rcd r).note
    ∧ ((∃ tl, (s.note (s.rcd r).note).queue = r :: tl) ∨ s.post u = some r) := by
  have hi := inv_of_reachable hc hr
  have post_case : s.post u = some r → registered s r ∧ (s.note (s.rcd r).note).lock = some u
      ∧ enqNL (s.pc (s.rcd r).owner) = true ∧ (s.fr (s.rcd r).owner).nw = some r
      ∧ (s.fr (s.rcd r).owner).note = (s.rcd r).note
      ∧ ((∃ tl, (s.note (s.rcd r).note).queue = r :: tl) ∨ s.post u = some r) := by
    intro hp
    obtain ⟨a, -, -, -, e', f, -⟩ := hi.q.q3 u r hp
    have h4 := hi.a.i4 r a
    exact ⟨a, e', f, h4, ((hi.a.i1 _ _ h4).2.2.1).symm, .inr hp⟩
  cases e with
  | ld ord loc fn obs =>
    cases loc with
    | waiting r' => exact (touch_ld_never hs).elim
    | _ => exact ht.elim
  | st ord loc fn new obs =>
    cases loc with
    | waiting r' =>
      have : r' = r := ht
      subst this
      rcases touch_st_cases hs with ⟨-, ho⟩ | ⟨hp, tl, hqu, hl, -, -⟩
      · exact absurd ho hne
      · obtain ⟨h1, h2⟩ := pop_facts hi.a hi.q hp hqu hl
        have h4 := hi.a.i4 _ h2
        exact ⟨h2, hl, h1, h4, ((hi.a.i1 _ _ h4).2.2.1).symm, .inl ⟨tl, hqu⟩⟩
    | _ => exact ht.elim
  | semV j => exact post_case ht
  | _ => exact ht.elim

/-- the owner's own accesses: the initialising store, or an access as notifier (the lazy expiry of
    sem_wait.c:65 pops the caller's own record) — to a registered record too -/
theorem C13_cancel_owner_access {cfg : Config} {s s' : State} {u : Tid} {e : Ev} {r : Rid} (hc : cfg.noReread = false)
    (hr : Reachable cfg s) (hs : step cfg s (.thr u e) = .ok s') (ht : touches s u e r) :
    registered s r ∨ (s.pc u = .init ∧ (s'.rcd r).owner = u) := by
  have hi := inv_of_reachable hc hr
  cases e with
  | ld ord loc fn obs =>
    cases loc with
    | waiting r' => exact (touch_ld_never hs).elim
    | _ => exact ht.elim
  | st ord loc fn new obs =>
    cases loc with
    | waiting r' =>
      have : r' = r := ht
      subst this
      rcases touch_st_cases hs with h | ⟨hp, tl, hqu, hl, -, -⟩
      · exact .inr h
      · exact .inl (pop_facts hi.a hi.q hp hqu hl).2
    | _ => exact ht.elim
  | semV j => exact .inl (hi.q.q3 u r ht).1
  | _ => exact ht.elim

/-- at the return of nsync_sem_wait_with_cancel_: the frame's record is dead, on no list, in no notifier's hands;
    nothing registered, queued or pending belongs to the returning thread -/
theorem C13_cancel_owner_returns_clean {cfg : Config} {s s' : State} {t : Tid} {o : Outcome} (hc : cfg.noReread = false)
    (hr : Reachable cfg s) (hs : step cfg s (.thr t (.retSW o)) = .ok s') :
    (∀ r, (s.fr t).nw = some r →
        ¬ registered s' r ∧ (∀ k, r ∉ (s'.note k).queue) ∧ (∀ u, s'.post u ≠ some r))
    ∧ (∀ r, registered s' r → (s'.rcd r).owner ≠ t)
    ∧ (∀ k r, r ∈ (s'.note k).queue → registered s' r ∧ (s'.rcd r).owner ≠ t)
    ∧ (∀ u r, s'.post u = some r → registered s' r ∧ (s'.rcd r).owner ≠ t) := by
  have hi' := inv_of_reachable hc (reachable_step hr hs)
  obtain ⟨hpc, -, rfl⟩ := ret_cases hs
  have hidle : (s.returned t).pc t = .idle := by simp [State.returned]
  have h1 : ∀ r, registered (s.returned t) r → ((s.returned t).rcd r).owner ≠ t := by
    intro r hl ho
    have := (hi'.a.i1 _ _ (hi'.a.i4 r hl)).2.2.2
    rw [ho, hidle] at this
    cases this
  refine ⟨?_, h1, ?_, ?_⟩
  · intro r hnw
    have hdead : ¬ registered (s.returned t) r := by simp [registered, State.returned, hnw]
    exact ⟨hdead, fun k hm => hdead (hi'.q.q1 k r hm).1, fun u hp => hdead (hi'.q.q3 u r hp).1⟩
  · intro k r hm
    have := (hi'.q.q1 k r hm).1
    exact ⟨this, h1 r this⟩
  · intro u r hp
    have := (hi'.q.q3 u r hp).1
    exact ⟨this, h1 r this⟩

/-- the dequeue of sem_wait.c:71 (`NOTIFIED_TIME > 0` read under note_mu at :68) finds the record on the list -/
theorem C13_cancel_remove_safe {cfg : Config} {s : State} {t : Tid} {r : Rid} (hc : cfg.noReread = false)
    (hr : Reachable cfg s) (hpc : s.pc t = .ld68) (hnw : (s.fr t).nw = some r)
    (htp : timePos (s.note (s.fr t).note) = true) : r ∈ (s.note (s.fr t).note).queue := by
  have hi := inv_of_reachable hc hr
  obtain ⟨hl, ho, hn, -⟩ := hi.a.i1 t r hnw
  rcases hi.q.q5 r hl (by rw [ho, hpc]; rfl) with h | h
  · rw [hn] at h; exact h
  · have := (hi.q.q4 r hl h).1
    rw [hn] at this
    simp [timePos, this] at htp

/-! ### non-vacuity -/

namespace Example

def cfg : Config := { binary := false }

/-- nsync_note_new (NULL, d) -/
def mkNote (n : NoteId) (d : Deadline) : List Event := [.thr 9 (.newNote n d)]

/-- entry of nsync_sem_wait_with_cancel_ (w, dl, note n) by t at time `now`, first inspection: not notified,
    not expired; `nw.waiting := 1` (record r); lock; re-read: not notified, enqueue; unlock; P (sem j, deadline d) -/
def sleep (t : Tid) (n : NoteId) (dl : Deadline) (now : Nat) (r : Rid) (j : SemId) (d : Deadline) : List Event :=
  [.thr t (.callSW n dl), .thr t (.ld .acq (.notified n) .nd 0), .thr t (.lock n),
   .thr t (.ld .acq (.notified n) .nd 0), .thr t (.unlock n), .thr t (.now now),
   .thr t (.st .rlx (.waiting r) .sw 1 12345),
   .thr t (.lock n), .thr t (.ld .acq (.notified n) .sw 0), .thr t (.unlock n),
   .thr t (.pdEnter j d)]

/-- nsync_note_notify (n) by u up to and including the unlink of record r: note_mu held, `waiting := 0` done,
    `nsync_mu_semaphore_v (nw->sem)` not yet -/
def notifyToPop (u : Tid) (n : NoteId) (now : Nat) (r : Rid) : List Event :=
  [.thr u (.ld .acq (.notified n) .nd 0), .thr u (.lock n), .thr u (.ld .acq (.notified n) .nd 0), .thr u (.unlock n),
   .thr u (.now now),
   .thr u (.lock n), .thr u (.ld .acq (.notified n) .notify 0), .thr u (.ld .acq (.notified n) .child 0),
   .thr u (.st .rel (.notified n) .child 1 0), .thr u (.st .rel (.waiting r) .child 0 1)]

/-- … the V, WAIT_FOR_NO_CHILDREN, unlock -/
def notifyRest (u : Tid) (n : NoteId) (j : SemId) : List Event :=
  [.thr u (.semV j), .thr u (.muWait n), .thr u (.lock n), .thr u (.unlock n)]

/-- the waiter's P returns 0; final lock, NOTIFIED_TIME = 0: no dequeue, unlock, return 0 -/
def wake (t : Tid) (n : NoteId) (j : SemId) : List Event :=
  [.thr t (.pdRet j false), .thr t (.lock n), .thr t (.ld .acq (.notified n) .sw 1), .thr t (.unlock n),
   .thr t (.retSW .ok)]

/-- a waiter asleep on note 0, a notifier between its unlink and its V: the V is an access to a registered
    record, under note_mu, the owner inside its P -/
def midNotify : List Event := [.tick 5] ++ mkNote 0 none ++ sleep 0 0 none 5 0 7 none ++ notifyToPop 1 0 5 0

example : accepts cfg (midNotify ++ [.thr 1 (.semV 7)]) = true := by decide
example : (final cfg midNotify).map (fun s => decide (s.post 1 = some 0 ∧ (s.rcd 0).live = true
    ∧ (s.note 0).lock = some 1 ∧ s.pc 0 = .pdWait 7 ∧ (s.note 0).queue = [])) = some true := by decide
/-- the owner cannot pass its final `nsync_mu_lock` while the notifier holds note_mu (its P may have returned
    for another reason: here a V of another layer by thread 2) -/
example : accepts cfg (midNotify ++ [.thr 2 (.semV 7), .thr 0 (.pdRet 7 false), .thr 0 (.lock 0)]) = false := by decide
/-- the notifier may not release note_mu before its V (seeded mutant (c)) -/
example : accepts cfg (midNotify ++ [.thr 1 (.unlock 0)]) = false := by decide
/-- the complete cancellation by nsync_note_notify; the return leaves nothing behind -/
def cancelByNotify : List Event := midNotify ++ notifyRest 1 0 7 ++ wake 0 0 7
example : accepts cfg cancelByNotify = true := by decide
example : (final cfg cancelByNotify).map (fun s => decide ((s.rcd 0).live = false ∧ s.pc 0 = .idle
    ∧ (s.note 0).queue = [] ∧ s.post 1 = none ∧ (s.note 0).flag = true)) = some true := by decide
/-- the same under binary semaphores -/
example : accepts { binary := true } cancelByNotify = true := by decide
/-- a load of `nw->waiting` is in nobody's vocabulary -/
example : accepts cfg (midNotify ++ [.thr 1 (.ld .acq (.waiting 0) .child 0)]) = false := by decide

end Example

end SemWait
