/-
  Property C03, note edge — "everything a thread did before nsync_note_notify happens before what
  any observer that sees the note notified does afterwards", under the DECLARED memory orders only.

  Model: `Model/Note.lean` (the current /repo/internal/note.c — after the repair of the defects F5 and F4 / F7 — and
  the nsync_wait_n path of nsync_note_wait, one atomic operation per step, any forest, any number of
  threads, any clock).  Its atomic events carry the order the operation REQUESTS; the acceptor
  rejects every atomic event whose order is not the one of the ATM_* macro at that site
  (`C03_note_orders`; table `noteSiteOrd`, exported as `noteSiteOrdTable`; `noteSitesAgree` is its
  check against the regenerated table of ATM_* call sites of /repo, `Proofs/NoteVCTie.lean` its tie
  to the replay driver).  Happens-before is computed by the generic vector-clock machine
  `NsyncVerif.VC` (program order + C++20 release sequences) over exactly the atomics on
  `note<k>.notified` and `nw<r>.waiting` (`evVC`; `clocks evs` = the clocks of an event list).
  NO edge is credited to the note mutexes (`note_mu` is abstract in the Note model: lock, unlock,
  trylock and mu_wait events are invisible to the machine), to the semaphores, to the clock, or to
  the interleaving (`C03_note_no_other_edges`).

  THE EDGE IS CARRIED BY
    notifier  `ATM_STORE_REL (&n->notified, 1)`        note.c/1 (note_notify_child, note.c:113), or
              `ATM_STORE_REL (&n->notified, 1)`        note.c/7 (nsync_note_new, note.c:228: born notified)
    observer  `ATM_LOAD_ACQ (&n->notified)`             note.c/4 (nsync_note_notified_deadline_, note.c:175)
              or NOTIFIED_TIME (n) = `ATM_LOAD_ACQ (&(n_)->notified) …` (common.h:212) at
              note.c/5 (:179, under the lock), note.c/3 (:149, notify), note.c/0 (:109,
              note_notify_child), note.c/11 (:334, note_dequeue)
  and by the fact that every store to a `notified` word is a release store (`VInv.last`: the
  release sequence is restarted, never broken).  On EVERY path by which nsync_note_is_notified or
  nsync_note_wait returns 1 the observer itself performed such an acquire load that read 1 (or stored
  the flag itself: lazy expiry) — also after a wake-up: nsync_wait_n re-evaluates
  `ready_time` (note.c/4) and `note_dequeue` (note.c/4, note.c/11) — so neither the release store
  `ATM_STORE_REL (&nw->waiting, 0)` (note.c/2), nor the semaphore, nor the note mutex is needed for
  this edge; note.c / wait.c never LOAD `nw->waiting` of a note wait (`noteSitesAgree` checks that
  note.c has exactly its 7 direct ATM_* sites).  Hence no lemma crediting an edge to `note_mu` is
  needed (as for `counter_mu` in Props/C03Counter.lean).

  PROVED IN FULL (all reachable product states = all accepted event lists) — nothing is `_partial`
    `C03_note_machine`        the product is faithful: `p.s` is the acceptor's state, `p.m = clocks evs`
    `C03_note_ghosts`         what the ghosts are (definitional)
    `C03_note_orders`         every accepted atomic carries the order `noteSiteOrd` declares
    `C03_note_invariant`      flag set ⇔ a store was recorded; release clock of the flag ≥ clock of the
                              latest storer before its store
    `C03_note_edge`           state form of the edge: a thread whose acquire load read 1 from the
                              store `(sets k)[i]` covers the storer's clock before the store and at
                              its API `call`
    `C03_note_store_once`, `C03_note_single_store`, `C03_note_the_notifier`
                              each flag is stored AT MOST ONCE (an accepted store finds the flag 0),
                              so the store an observer read from is THE notification: `sets k = [g]`
    `C03_note_origin`         who the storer is: inside `notify (a)` with `a = k` or `a` a creation-time
                              ancestor of `k`, during nsync_note_notify (a) (`C03_note_ancestor`) or
                              during the call that found `a`'s deadline passed
                              (`C03_note_lazy_expiry`: the edge starts at that poller), or the
                              nsync_note_new creating `k` under a notified parent (`C03_note_born`)
    `C03_note_is_notified`    (a) `ret nsync_note_is_notified 1`
    `C03_note_wait`           (b) `ret nsync_note_wait 1` — fast path and woken path alike
    `C03_note_carrier`        the carrier is the observer's own acquire load / own store
    `C03_note_trace`          trace form, no ghosts: release store … (no other store to that flag) …
                              acquire load
    `C03_note_any_observer`   trace form for ANY later acquire load of the flag, also by code outside
                              this model (the NOTIFIED_TIME (cancel_note) of the cancellable waits,
                              sem_wait.c:49/68, is the same ATM_LOAD_ACQ of common.h:212): accepted
                              prefix containing the store ⇒ the load is ordered after the notifier.
                              (That a cancellable wait reports ECANCELED only after such a load read 1
                              is a statement about the SemWait layer, not expressible here: the Note
                              acceptor rejects a thread touching a note outside a note API call.)
    `C03_note_needs_release_store`, `C03_note_needs_acquire_load`, `C03_note_born_needs_release_store`
                              negative controls: with note.c/1 (or note.c/7) relaxed, or note.c/4
                              relaxed, the edge is not derivable on a concrete trace (and the acceptor
                              rejects the weakened log)
  SCOPE OF THE STATEMENT (what the code does, made explicit by witnesses)
    * The edge starts at the thread that PERFORMED the notification (stored the flag).  A
      nsync_note_notify that finds the note already notified stores nothing and is the source of no
      edge (`C03_note_redundant_notify_no_edge`).
    * A note with a zero `expiry_time` (a zero deadline on its creation path) is "notified" from
      birth with its flag 0: NOTIFIED_TIME is zero through `expiry_time`, nsync_note_notify on it is a
      no-op, observers return 1 without reading 1 from anybody (second disjunct of
      `C03_note_is_notified` / `C03_note_wait`: `zsaw`).  Nobody notifies such a note, and no edge
      exists (`C03_note_zero_deadline_no_edge`).
-/
import NsyncVerif.Proofs.NoteVCOrigin
import NsyncVerif.Proofs.NoteVCOnceC
import NsyncVerif.Proofs.NoteVCTie
import NsyncVerif.Proofs.NoteTraces

set_option linter.unusedSimpArgs false

namespace Note
open NsyncVerif

/-! ### the product is faithful; the ghosts; the orders -/

/-- Every accepted event list has a product run; its acceptor component is the acceptor's state and
    its machine component is the clock machine run over the projected atomics of the list. -/
theorem C03_note_machine {s : State} {evs : List Event} (h : run init evs = .ok s) :
    ∃ p, prun pinit evs = .ok p ∧ p.s = s ∧ p.m = clocks evs := by
  obtain ⟨p, h1, h2⟩ := prun_total (p := pinit) h
  exact ⟨p, h1, h2, prun_m h1⟩

/-- Definition of the ghosts, as a theorem.  `call`: the thread's call clock and call are recorded,
    its `saw` / `zsaw` are reset.  Load of `note<k>.notified`: always acquire; if it reads 1 the
    thread has seen the LATEST store recorded for `k`; if it reads 0 and `expiry_time` is zero,
    `zsaw`.  Store to `note<k>.notified`: always release; it is appended to `sets k` with the
    storer's clock before the store, its call clock, its call and its `notify` activation, and the
    storer has seen it.  No other event changes a ghost. -/
theorem C03_note_ghosts {p p' : PState} {e : Event} (h : pstep p e = .ok p') :
    step p.s e = .ok p'.s ∧ p'.m = vstep p.m e ∧
    (∀ t c, e = .call t c →
      p'.cc t = p.m.vc t ∧ p'.capi t = some c ∧ (∀ k, p'.saw t k = 0 ∧ p'.zsaw t k = false) ∧
      p'.sets = p.sets) ∧
    (∀ t site o k obs, e = .ld t site o k obs →
      o = .acq ∧ obs = flagVal (p.s.notes k).notified ∧ p'.sets = p.sets ∧ p'.cc = p.cc ∧
      p'.capi = p.capi ∧
      (obs = 1 → p'.saw t k = (p.sets k).length) ∧ (obs = 0 → p'.saw t k = p.saw t k) ∧
      (obs = 0 → (p.s.notes k).expiry = some 0 → p'.zsaw t k = true)) ∧
    (∀ t site o k n ob, e = .stNote t site o k n ob →
      o = .rel ∧ n = 1 ∧
      p'.sets k = p.sets k ++ [⟨t, p.m.vc t, p.cc t, p.capi t, topOf (p.s.pc t)⟩] ∧
      p'.saw t k = (p.sets k).length + 1 ∧ p'.cc = p.cc ∧ p'.capi = p.capi ∧ p'.zsaw = p.zsaw) ∧
    ((∀ t c, e ≠ .call t c) → (∀ t site o k obs, e ≠ .ld t site o k obs) →
      (∀ t site o k n ob, e ≠ .stNote t site o k n ob) →
      p'.cc = p.cc ∧ p'.capi = p.capi ∧ p'.sets = p.sets ∧ p'.saw = p.saw ∧ p'.zsaw = p.zsaw) := by
  obtain ⟨hs, hm, hcc, hcapi, hsets, hsaw, hzsaw⟩ := pstep_ok h
  refine ⟨hs, hm, ?_, ?_, ?_, ?_⟩
  · intro t c he; subst he
    rw [hcc, hcapi, hsaw, hzsaw, hsets]
    simp [gCc, gCapi, gSaw, gZsaw, gSets]
  · intro t site o k obs he; subst he
    obtain ⟨ho, hobs⟩ := ld_ok hs
    rw [hcc, hcapi, hsaw, hzsaw, hsets]
    refine ⟨ho, hobs, rfl, rfl, rfl, ?_, ?_, ?_⟩
    · intro h1
      have : (p.s.notes k).notified = true := by
        cases hf : (p.s.notes k).notified <;> simp [hf, flagVal, h1] at hobs ⊢
      simp [gSaw, this]
    · intro h0
      have : (p.s.notes k).notified = false := by
        cases hf : (p.s.notes k).notified <;> simp [hf, flagVal, h0] at hobs ⊢
      simp [gSaw, this]
    · intro h0 hz
      have : (p.s.notes k).notified = false := by
        cases hf : (p.s.notes k).notified <;> simp [hf, flagVal, h0] at hobs ⊢
      simp [gZsaw, this, hz]
  · intro t site o k n ob he; subst he
    obtain ⟨ho, hn, _, _, _⟩ := stNote_ok hs
    rw [hcc, hcapi, hsaw, hzsaw, hsets]
    exact ⟨ho, hn, by simp [gSets, newSetter], by simp [gSaw], rfl, rfl, rfl⟩
  · intro h1 h2 h3
    rw [hcc, hcapi, hsaw, hzsaw, hsets]
    cases e with
    | call t c => exact absurd rfl (h1 t c)
    | ld t site o k obs => exact absurd rfl (h2 t site o k obs)
    | stNote t site o k n ob => exact absurd rfl (h3 t site o k n ob)
    | _ => exact ⟨rfl, rfl, rfl, rfl, rfl⟩

/-- THE ORDERS.  Every atomic event of an accepted step carries, at its site, exactly the order the
    table `noteSiteOrd` declares (loads of `notified`: acquire; stores to `notified`: release;
    note.c/2: release; the other stores to `waiting`: relaxed), and the machine is fed that order. -/
theorem C03_note_orders {p p' : PState} {e : Event} (h : pstep p e = .ok p') :
    match e with
    | .ld t site o k _ =>
      site ≠ .other ∧ o = noteSiteOrd site ∧ o = .acq ∧ evVC e = some ⟨t, .ld, .acq, .notified k⟩
    | .stNote t site o k _ _ =>
      site ≠ .other ∧ o = noteSiteOrd site ∧ o = .rel ∧ evVC e = some ⟨t, .st, .rel, .notified k⟩
    | .stW t site o r _ _ =>
      site ≠ .other ∧ o = noteSiteOrd site ∧ evVC e = some ⟨t, .st, toOrd (noteSiteOrd site), .waiting r⟩
    | _ => evVC e = none := by
  have hs := pstep_s h
  have ho := step_orders hs
  cases e with
  | ld t site o k obs =>
    obtain ⟨h1, _, h2⟩ := ho
    have := (ld_ok hs).1
    subst this
    exact ⟨h1, h2, rfl, rfl⟩
  | stNote t site o k n ob =>
    obtain ⟨h1, _, h2⟩ := ho
    have := (stNote_ok hs).1
    subst this
    exact ⟨h1, h2, rfl, rfl⟩
  | stW t site o r n ob =>
    obtain ⟨h1, _, h2⟩ := ho
    subst h2
    exact ⟨h1, rfl, rfl⟩
  | _ => rfl

/-- Lock, unlock, trylock, mu_wait, semaphore, clock, allocation and API events are invisible to
    the machine: no edge is credited to them. -/
theorem C03_note_no_other_edges (m : VC.St VLoc) (t : Tid) (k : NoteId) (b : Bool) (j : Nat) (d : Dl)
    (v : Nat) (c : ApiCall) (r : ApiRet) :
    vstep m (.lockCall t k) = m ∧ vstep m (.lockRet t) = m ∧ vstep m (.unlockCall t k) = m ∧
    vstep m (.unlockRet t) = m ∧ vstep m (.tryCall t k) = m ∧ vstep m (.tryRet t b) = m ∧
    vstep m (.waitCall t k) = m ∧ vstep m (.waitRet t) = m ∧ vstep m (.semV t j) = m ∧
    vstep m (.pdEnter t j d) = m ∧ vstep m (.pdRet t j b) = m ∧ vstep m (.now t v) = m ∧
    vstep m (.tick v) = m ∧ vstep m (.call t c) = m ∧ vstep m (.ret t r) = m :=
  ⟨rfl, rfl, rfl, rfl, rfl, rfl, rfl, rfl, rfl, rfl, rfl, rfl, rfl, rfl, rfl⟩

/-! ### the invariant -/

/-- The flag of `k` is set iff a store was recorded for `k`; the release clock of
    `note<k>.notified` dominates the clock the LATEST storer had just before its store. -/
theorem C03_note_invariant {p : PState} (h : PReachable p) (k : NoteId) :
    ((p.s.notes k).notified = true ↔ p.sets k ≠ []) ∧
    (∀ g, (p.sets k).getLast? = some g → VC.Clock.le g.clk (p.m.relc (.notified k))) ∧
    (∀ t, VC.Clock.le (p.cc t) (p.m.vc t)) := by
  have hv := h.inv3.1
  refine ⟨⟨?_, ?_⟩, fun g hg => (hv.last k g hg).2, hv.ccle⟩
  · intro hf hn
    have := hv.nil k hn
    rw [hf] at this; cases this
  · intro hn
    cases hl : (p.sets k).getLast? with
    | none => exact absurd (List.getLast?_eq_none_iff.mp hl) hn
    | some g => exact (hv.last k g hl).1

/-! ### the origin of a notification -/

/-- Who stores a flag.  Every recorded store of the flag of `k`: the storer's clock before the store
    covers its clock at its API call, and the store is
    * note.c/1 inside `notify (a)` (`g.top = some ⟨a, _, kind⟩`), where `a = k` or `a` was on the
      path from `k` to the root when `k` was created, during the API call `kind.api a`
      (nsync_note_notify (a), or the call whose poll of `a` found the deadline passed); or
    * note.c/7 (`g.top = none`) by the `nsync_note_new (par, dl)` that is creating `k`, `par` being
      notified. -/
theorem C03_note_origin {p : PState} (h : PReachable p) {k : NoteId} {g : Setter}
    (hg : g ∈ p.sets k) :
    VC.Clock.le g.callc g.clk ∧
    match g.top with
    | some top =>
      (k = top.n ∨ (top.n ∈ p.s.ancEver k ∧ top.n ≠ k)) ∧ g.api = some (top.k.api top.n)
    | none =>
      p.s.bornNotified k = true ∧
      ∃ par dl, g.api = some (.new (some par) dl) ∧ p.s.Notified par := by
  obtain ⟨hv, _, ho⟩ := h.inv3
  refine ⟨hv.callc k g hg, ?_⟩
  have := ho k g hg
  unfold SetterOk at this
  cases hg' : g.top with
  | some top =>
    rw [hg'] at this
    refine ⟨?_, this.2⟩
    rcases this.1 with h1 | h1
    · exact Or.inl h1
    · exact Or.inr ⟨h1.1.1, h1.2⟩
  | none =>
    rw [hg'] at this
    obtain ⟨h1, par, dl, h2, h3⟩ := this
    exact ⟨h1, par, dl, h2, h3.1⟩

/-- (c) ANCESTOR.  A store performed inside the `notify (a)` of a call `nsync_note_notify (a)`: the
    note `k` whose flag it sets is `a` itself or a descendant of `a` (creation-time path), the call
    in progress is `nsync_note_notify (a)`, and its clock at the `call` event is covered. -/
theorem C03_note_ancestor {p : PState} (h : PReachable p) {k a : NoteId} {par : Option NoteId}
    {g : Setter} (hg : g ∈ p.sets k) (ht : g.top = some ⟨a, par, .ofApi⟩) :
    g.api = some (.notify a) ∧ (k = a ∨ (a ∈ p.s.ancEver k ∧ a ≠ k)) ∧
    VC.Clock.le g.callc g.clk := by
  have := C03_note_origin h hg
  rw [ht] at this
  exact ⟨this.2.2, this.2.1, this.1⟩

/-- LAZY EXPIRY.  A store performed inside a `notify (a)` that was entered because a poll of `a`
    (nsync_note_is_notified (a), nsync_note_wait (a, …), nsync_note_notify (a), or the
    nsync_note_new creating `a`) found `a`'s deadline passed: the edge starts at that poller — the
    call in progress is that poll, its clock at the `call` event is covered. -/
theorem C03_note_lazy_expiry {p : PState} (h : PReachable p) {k a : NoteId} {par : Option NoteId}
    {dk : DK} {g : Setter} (hg : g ∈ p.sets k) (ht : g.top = some ⟨a, par, .ofDeadline dk⟩) :
    g.api = some (dk.api a) ∧ (k = a ∨ (a ∈ p.s.ancEver k ∧ a ≠ k)) ∧
    VC.Clock.le g.callc g.clk := by
  have := C03_note_origin h hg
  rw [ht] at this
  exact ⟨this.2.2, this.2.1, this.1⟩

/-- BORN NOTIFIED.  A store by note.c/7: the creator of `k` stores the flag, during its
    `nsync_note_new (par, dl)`, `par` being notified; the edge starts at the creator. -/
theorem C03_note_born {p : PState} (h : PReachable p) {k : NoteId} {g : Setter}
    (hg : g ∈ p.sets k) (ht : g.top = none) :
    p.s.bornNotified k = true ∧
    (∃ par dl, g.api = some (.new (some par) dl) ∧ p.s.Notified par) ∧
    VC.Clock.le g.callc g.clk := by
  have := C03_note_origin h hg
  rw [ht] at this
  exact ⟨this.2.1, this.2.2, this.1⟩

/-! ### the edge -/

/-- C03 (note), state form.  A thread `t` that, during its current call, read 1 from the store
    `(sets k)[i]` with an acquire load (or performed that store): everything the storer did before
    the store — in particular everything it did before the API call during which it stored —
    happens before what `t` does from now on. -/
theorem C03_note_edge {p : PState} (h : PReachable p) {t : Tid} {k : NoteId} {i : Nat}
    (hs : p.saw t k = i + 1) :
    ∃ g, (p.sets k)[i]? = some g ∧ VC.Clock.le g.clk (p.m.vc t) ∧ VC.Clock.le g.callc (p.m.vc t) := by
  obtain ⟨hv, _, _⟩ := h.inv3
  obtain ⟨g, hg1, hg2⟩ := hv.seen t k i hs
  exact ⟨g, hg1, hg2, VC.Clock.le_trans (hv.callc k g (List.mem_of_getElem? hg1)) hg2⟩

/-! ### each flag is stored once: THE notifier -/

/-- An accepted store to `note<k>.notified` finds the flag 0 (and logs the previous value 0): the
    flag is stored at most once.  (Two threads at note.c/1 on the same note would both hold its
    mutex; a note at note.c/7 is in its early creation phase, unreachable for any other thread:
    `Proofs/NoteVCOnce{A,B,C}.lean`.) -/
theorem C03_note_store_once {s s' : State} {t : Tid} {site : Site} {o : Ord} {k : NoteId}
    {n ob : Nat} (hr : Reachable s) (hs : step s (.stNote t site o k n ob) = .ok s') :
    (s.notes k).notified = false ∧ ob = 0 :=
  stNote_flag_false hr hs

/-- … so at most one store is ever recorded for a note. -/
theorem C03_note_single_store {p : PState} (h : PReachable p) (k : NoteId) :
    (p.sets k).length ≤ 1 := by
  refine PReachable.induction (P := fun p => ∀ k, (p.sets k).length ≤ 1)
    (fun k => by simp [pinit]) ?_ p h k
  intro p e p' hr hi hs k
  obtain ⟨hst, _, _, _, hsets, _, _⟩ := pstep_ok hs
  rw [hsets]
  cases e with
  | stNote t site o k0 n ob =>
    simp only [gSets]
    by_cases hk : k = k0
    · rw [if_pos hk]
      have hf := (stNote_flag_false hr.s hst).1
      have hnil : p.sets k0 = [] := by
        cases hl : (p.sets k0).getLast? with
        | none => exact List.getLast?_eq_none_iff.mp hl
        | some g =>
          have := (hr.inv3.1.last k0 g hl).1
          rw [hf] at this; cases this
      rw [hk, hnil]; simp
    · rw [if_neg hk]; exact hi k
  | _ => exact hi k

/-- THE NOTIFIER.  A thread `t` that read the flag of `k` as 1 (or stored it): exactly one store was
    ever performed on that flag, `p.sets k = [g]`; everything its performer did before the store, and
    before the API call during which it stored, happens before what `t` does from now on.
    (`C03_note_origin` says who `g` is.) -/
theorem C03_note_the_notifier {p : PState} (h : PReachable p) {t : Tid} {k : NoteId}
    (hs : p.saw t k ≠ 0) :
    ∃ g, p.sets k = [g] ∧ p.saw t k = 1 ∧ VC.Clock.le g.clk (p.m.vc t) ∧
      VC.Clock.le g.callc (p.m.vc t) := by
  cases hi : p.saw t k with
  | zero => exact absurd hi hs
  | succ i =>
    obtain ⟨g, h1, h2, h3⟩ := C03_note_edge h hi
    have hlen := C03_note_single_store h k
    cases hl : p.sets k with
    | nil => rw [hl] at h1; simp at h1
    | cons g0 rest =>
      rw [hl] at hlen h1
      have hr : rest = [] := by
        cases rest with
        | nil => rfl
        | cons a b => simp at hlen
      subst hr
      cases i with
      | zero =>
        simp at h1; subst h1
        exact ⟨g0, rfl, rfl, h2, h3⟩
      | succ j => simp at h1

/-- What an observer that is about to report note `n` notified has: either it read 1 from THE store
    of that flag (`p.sets n = [g]`; then the edge: the storer's clock from before the store and from
    its API call is covered; `C03_note_origin` says who the storer is), or it read a zero
    `expiry_time` with the flag 0 (a note notified from birth by a zero deadline). -/
def Observed (p : PState) (t : Tid) (n : NoteId) : Prop :=
  (∃ g, p.sets n = [g] ∧ p.saw t n = 1 ∧
      VC.Clock.le g.clk (p.m.vc t) ∧ VC.Clock.le g.callc (p.m.vc t)) ∨
  (p.saw t n = 0 ∧ p.zsaw t n = true)

theorem observed_of_pos {p : PState} (h : PReachable p) {t : Tid} {n : NoteId} (hp : Pos p t n) :
    Observed p t n := by
  by_cases hs : p.saw t n = 0
  · rcases hp with hp | hp
    · exact absurd hs hp
    · exact Or.inr ⟨hs, hp⟩
  · exact Or.inl (C03_note_the_notifier h hs)

/-- (a) C03 (note): whenever `ret nsync_note_is_notified 1` by thread `t` is accepted, `t` is
    returning from `nsync_note_is_notified (n)` and `Observed p t n`: the storer's clock from before
    its store, and from its API call, is covered by `t`'s clock at the return (the return changes no
    clock). -/
theorem C03_note_is_notified {p p' : PState} {t : Tid} (h : PReachable p)
    (hs : pstep p (.ret t (.isNotified true)) = .ok p') :
    ∃ n, p.s.pc t = .retIs n true ∧ p.capi t = some (.isNotified n) ∧ p'.m = p.m ∧
      p'.sets = p.sets ∧ Observed p t n := by
  have hc := h.inv3.2.1 t
  unfold TClaim at hc
  obtain ⟨hst, hm, _, _, hsets, _, _⟩ := pstep_ok hs
  cases hpc : p.s.pc t with
  | retIs n b =>
    simp only [step, stepRet, hpc, need_ok] at hst
    have hb : b = true := hst.1.symm
    subst hb
    rw [hpc] at hc
    exact ⟨n, rfl, hc.1, hm, hsets, observed_of_pos h (hc.2 rfl)⟩
  | _ => simp [step, stepRet, hpc] at hst

/-- (b) C03 (note): whenever `ret nsync_note_wait 1` by thread `t` is accepted — on the fast path
    (first `ready_time`), after an unsuccessful enqueue, after a wake-up by the notifier
    (`sem pd_ret 0`), after a spurious wake-up or a timeout that raced with the notification —
    `t` is returning from `nsync_note_wait (n, wdl)` and `Observed p t n`. -/
theorem C03_note_wait {p p' : PState} {t : Tid} (h : PReachable p)
    (hs : pstep p (.ret t (.wait true)) = .ok p') :
    ∃ n wdl, p.s.pc t = .wt0 (.ret 0) n wdl ∧ p.capi t = some (.wait n wdl) ∧ p'.m = p.m ∧
      p'.sets = p.sets ∧ Observed p t n := by
  have hc := h.inv3.2.1 t
  unfold TClaim at hc
  obtain ⟨hst, hm, _, _, hsets, _, _⟩ := pstep_ok hs
  cases hpc : p.s.pc t with
  | wt0 pos n wdl =>
    cases pos with
    | ret rd =>
      simp only [step, stepRet, hpc, need_ok] at hst
      have hrd : rd = 0 := by simpa using hst.1
      subst hrd
      rw [hpc] at hc
      exact ⟨n, wdl, rfl, hc.1, hm, hsets, observed_of_pos h (hc.2 rfl)⟩
    | _ => simp [step, stepRet, hpc] at hst
  | _ => simp [step, stepRet, hpc] at hst

/-- CARRIER of the edge: `saw t k` becomes non-zero only by `t`'s OWN acquire load of
    `note<k>.notified` reading 1, or by `t`'s own release store of that flag; it is reset by `t`'s
    next `call`. -/
theorem C03_note_carrier {p p' : PState} {e : Event} {t : Tid} {k : NoteId}
    (h : pstep p e = .ok p') (hs : p'.saw t k ≠ 0) :
    (p.saw t k = p'.saw t k ∧ ∀ c, e ≠ .call t c) ∨
    (∃ site, e = .ld t site .acq k 1) ∨ (∃ site ob, e = .stNote t site .rel k 1 ob) := by
  obtain ⟨hst, _, _, _, _, hsaw, _⟩ := pstep_ok h
  rw [hsaw] at hs ⊢
  cases e with
  | call u c =>
    simp only [gSaw] at hs ⊢
    by_cases hu : t = u
    · simp [hu] at hs
    · left; simp [hu]; intro h'; exact hu h'.symm
  | ld u site o x obs =>
    obtain ⟨ho, hobs⟩ := ld_ok hst
    simp only [gSaw] at hs ⊢
    by_cases hc : t = u ∧ k = x ∧ (p.s.notes x).notified = true
    · right; left
      obtain ⟨h1, h2, h3⟩ := hc
      subst h1 h2 ho
      rw [h3] at hobs
      exact ⟨site, by rw [hobs]; rfl⟩
    · left; rw [if_neg hc]; exact ⟨rfl, fun c h' => by cases h'⟩
  | stNote u site o x n ob =>
    obtain ⟨ho, hn, _⟩ := stNote_ok hst
    simp only [gSaw] at hs ⊢
    by_cases hc : t = u ∧ k = x
    · right; right
      obtain ⟨h1, h2⟩ := hc
      subst h1 h2 ho hn
      exact ⟨site, ob, rfl⟩
    · left; rw [if_neg hc]; exact ⟨rfl, fun c h' => by cases h'⟩
  | _ => left; exact ⟨rfl, fun c h' => by cases h'⟩

/-! ### trace form -/

theorem clocks_append (a b : List Event) :
    clocks (a ++ b) = VC.run (clocks a) (b.filterMap evVC) := by
  unfold clocks
  rw [List.filterMap_append]
  generalize a.filterMap evVC = xs
  generalize (VC.St.init : VC.St VLoc) = m
  induction xs generalizing m with
  | nil => rfl
  | cons x xs ih => simp only [List.cons_append, VC.run]; exact ih _

/-- C03 (note), trace form, no ghosts.  Thread `u` performs the release store
    `ATM_STORE_REL (&note<k>.notified, 1)`; then any events that contain no further store to that
    flag (`mid`); then thread `t` performs an acquire load of the flag.  Everything `u` did before
    the store happens before everything `t` does after the load.  (By `C03_note_orders` every store
    and load of a `notified` word in an ACCEPTED list has these orders.) -/
theorem C03_note_trace (pre mid : List Event) (u t : Tid) (k : NoteId) (s1 s2 : Site)
    (n ob obs : Nat) (hmid : ∀ e ∈ mid, ∀ v site o m b, e ≠ .stNote v site o k m b) :
    VC.Clock.le ((clocks pre).vc u)
      ((clocks (pre ++ [.stNote u s1 .rel k n ob] ++ mid ++ [.ld t s2 .acq k obs])).vc t) := by
  rw [List.append_assoc, List.append_assoc, clocks_append]
  simp only [List.cons_append, List.nil_append, List.filterMap_cons, evVC, List.filterMap_append,
    List.filterMap_nil, toOrd, VC.run]
  have key : ∀ (m : VC.St VLoc) (c : VC.Clock) (es : List Event),
      (∀ e ∈ es, ∀ v site o m b, e ≠ .stNote v site o k m b) →
      VC.SafeRun (VLoc.notified k) c m (es.filterMap evVC) := by
    intro m c es
    induction es generalizing m with
    | nil => intro _; trivial
    | cons e es ih =>
      intro hes
      have he := hes e List.mem_cons_self
      cases hev : evVC e with
      | none =>
        simp only [List.filterMap_cons, hev]
        exact ih m (fun e' he' => hes e' (List.mem_cons_of_mem _ he'))
      | some a =>
        simp only [List.filterMap_cons, hev, VC.SafeRun]
        refine ⟨?_, ih _ (fun e' he' => hes e' (List.mem_cons_of_mem _ he'))⟩
        intro hl hop
        cases e with
        | ld v site o x obs' => simp [evVC] at hev; subst hev; cases hop
        | stNote v site o x m' b =>
          simp [evVC] at hev; subst hev
          simp at hl; subst hl
          exact absurd rfl (he v site o m' b)
        | stW v site o r m' b => simp [evVC] at hev; subst hev; cases hl
        | _ => simp [evVC] at hev
  have hmp := VC.message_passing (clocks pre) ⟨u, .st, .rel, VLoc.notified k⟩
    (mid.filterMap evVC) ⟨t, .ld, .acq, VLoc.notified k⟩ rfl (Or.inl rfl)
    (key _ _ mid hmid) rfl rfl (Or.inl rfl)
  have hrun : ∀ (m : VC.St VLoc) (xs : List (VC.AEv VLoc)) (x : VC.AEv VLoc),
      VC.run m (xs ++ [x]) = VC.step (VC.run m xs) x := by
    intro m xs x
    induction xs generalizing m with
    | nil => rfl
    | cons y ys ih => simp only [List.cons_append, VC.run]; exact ih _
  rw [hrun]
  exact hmp

/-! ### any observer -/

/-- After the (one) store nobody stores that flag again, along any accepted continuation. -/
theorem no_second_store {s s' : State} (hr : Reachable s) {k : NoteId}
    (hf : (s.notes k).notified = true) {mid : List Event} (hrun : run s mid = .ok s') :
    ∀ e ∈ mid, ∀ v site o m b, e ≠ .stNote v site o k m b := by
  induction mid generalizing s with
  | nil => intro e he; cases he
  | cons e es ih =>
    simp only [run] at hrun
    cases hs : step s e with
    | error m => rw [hs] at hrun; cases hrun
    | ok s1 =>
      rw [hs] at hrun
      have hf1 : (s1.notes k).notified = true :=
        (step_stable hs).flag k (hr.inv6.1.flag k hf) hf
      intro e' he' v site o m b heq
      rcases List.mem_cons.mp he' with h | h
      · subst h; subst heq
        have := (stNote_flag_false hr hs).1
        rw [hf] at this; cases this
      · exact ih (hr.next hs) hf1 hrun e' h v site o m b heq

/-- ANY OBSERVER.  Trace form for an observer that need not be inside a note API call (e.g. the
    NOTIFIED_TIME (cancel_note) of a cancellable wait, sem_wait.c:49/68, which is the same
    `ATM_LOAD_ACQ` of common.h:212): if the event list up to and including `mid` is accepted by the
    Note acceptor and contains the store `notified := 1` on `k` by `u`, then ANY later acquire load
    of that flag, by any thread `t`, is ordered after everything `u` did before the store. -/
theorem C03_note_any_observer (pre mid : List Event) (u t : Tid) (k : NoteId) (s1 s2 : Site)
    (o : Ord) (n ob obs : Nat) {s : State}
    (hacc : run init (pre ++ [.stNote u s1 o k n ob] ++ mid) = .ok s) :
    o = .rel ∧
    VC.Clock.le ((clocks pre).vc u)
      ((clocks (pre ++ [.stNote u s1 o k n ob] ++ mid ++ [.ld t s2 .acq k obs])).vc t) := by
  rw [List.append_assoc, run_append] at hacc
  cases hp : run init pre with
  | error m => rw [hp] at hacc; cases hacc
  | ok sp =>
    rw [hp] at hacc
    simp only [List.cons_append, List.nil_append, run] at hacc
    cases hst : step sp (.stNote u s1 o k n ob) with
    | error m => rw [hst] at hacc; cases hacc
    | ok sq =>
      rw [hst] at hacc
      obtain ⟨ho, _, hset, _, _⟩ := stNote_ok hst
      subst ho
      have hrp : Reachable sp := ⟨pre, hp⟩
      exact ⟨rfl, C03_note_trace pre mid u t k s1 s2 n ob obs
        (no_second_store (hrp.next hst) hset hacc)⟩

/-! ### non-vacuity, negative controls, scope -/

namespace ExampleVC

/-- nsync_note_new (par, dl) by thread `t` returning note `k` (not born notified), clock at `now` -/
def mkNote (t : Tid) (k : NoteId) (par : Option NoteId) (dl : Dl) (now : Nat) : List Event :=
  [.call t (.new par dl), .malloc t (some k), .ld t .dlLd1 .acq k 0, .lockCall t k, .lockRet t,
   .ld t .dlLd2 .acq k 0, .unlockCall t k, .unlockRet t, .now t now] ++
  (match par with
   | some p => [.lockCall t p, .lockRet t, .ld t .newLd .acq p 0, .unlockCall t p, .unlockRet t]
   | none => []) ++
  [.ret t (.new (some k))]

/-- nsync_note_notified_deadline_ (k) finding the note not notified and its deadline not passed -/
def slowLook (t : Tid) (k : NoteId) (now : Nat) : List Event :=
  [.ld t .dlLd1 .acq k 0, .lockCall t k, .lockRet t, .ld t .dlLd2 .acq k 0, .unlockCall t k,
   .unlockRet t, .now t now]

def T0 : Nat := 1000000000000

def okRun (evs : List Event) : Bool :=
  match prun pinit evs with | .ok _ => true | .error _ => false
def prunD (evs : List Event) : PState :=
  match prun pinit evs with | .ok p => p | .error _ => pinit

/-- A. Thread 0: nsync_note_notify (note0) (`o1` = order of its store, note.c/1).
       Thread 1: nsync_note_is_notified (note0) = 1 through the fast path (`o2` = order of
       note.c/4). -/
def notifyPre : List Event := [.tick T0] ++ mkNote 99 0 none none T0 ++ [.call 0 (.notify 0)]
def notifyMid (o1 : Ord) : List Event :=
  slowLook 0 0 T0 ++
  [.lockCall 0 0, .lockRet 0, .ld 0 .notifyLd .acq 0 0, .ld 0 .childLd .acq 0 0,
   .stNote 0 .childSt o1 0 1 0, .waitCall 0 0, .waitRet 0, .unlockCall 0 0, .unlockRet 0,
   .ret 0 .notify]
def observe (o2 : Ord) : List Event :=
  [.call 1 (.isNotified 0), .ld 1 .dlLd1 o2 0 1, .ret 1 (.isNotified true)]
def notifyAll : List Event := notifyPre ++ notifyMid .rel ++ observe .acq

/-- notify → is_notified: accepted; the observer read from store 0 of note0, performed by thread 0
    inside notify (note0) during nsync_note_notify (note0); the notifier's clock at its call
    (component 0 = 1) is covered by the observer's clock (whose component 0 was 0 initially). -/
example : (match prun pinit notifyAll with
    | .ok p => decide (p.saw 1 0 = 1 ∧ (p.sets 0).length = 1 ∧
        (p.sets 0).map (fun g => (g.who, g.api, g.top)) =
          [(0, some (.notify 0), some ⟨0, none, .ofApi⟩)] ∧
        (p.sets 0).map (fun g => g.callc 0) = [1] ∧ 1 ≤ p.m.vc 1 0 ∧
        p.s.observed.map (fun o => (o.t, o.n, o.res)) = [(1, 0, true)])
    | .error _ => false) = true := by decide

/-- the hypotheses of `C03_note_is_notified` are satisfiable -/
example : ∃ p p', PReachable p ∧ pstep p (.ret 1 (.isNotified true)) = .ok p' := by
  have h : okRun notifyAll = true := by decide
  unfold okRun at h
  have hsplit : notifyAll = notifyAll.dropLast ++ [.ret 1 (.isNotified true)] := by decide
  rw [hsplit, prun_append] at h
  cases hp : prun pinit notifyAll.dropLast with
  | error m => rw [hp] at h; simp at h
  | ok p =>
    rw [hp] at h
    simp only [prun] at h
    cases hq : pstep p (.ret 1 (.isNotified true)) with
    | error m => rw [hq] at h; simp at h
    | ok p' => exact ⟨p, p', ⟨_, hp⟩, hq⟩

/-- the instance of `C03_note_trace`, evaluated -/
example : (clocks notifyPre).vc 0 0 = 1 ∧ (clocks notifyAll).vc 1 0 = 1 ∧
    (clocks (notifyPre ++ notifyMid .rel)).vc 1 0 = 0 := by decide

/-- NEGATIVE CONTROL (notifier's side).  The same event list with the store
    `ATM_STORE_REL (&n->notified, 1)` [note.c/1] weakened to a relaxed store: on the clock machine the
    observer's clock does not cover the notifier's clock at its call.  The edge is carried by the
    release of note.c:113, not by the interleaving. -/
theorem C03_note_needs_release_store :
    ¬ VC.Clock.le ((clocks notifyPre).vc 0)
        ((clocks (notifyPre ++ notifyMid .rlx ++ observe .acq)).vc 1) := by
  intro hle
  have h0 := hle 0
  have e1 : (clocks notifyPre).vc 0 0 = 1 := by decide
  have e2 : (clocks (notifyPre ++ notifyMid .rlx ++ observe .acq)).vc 1 0 = 0 := by decide
  omega

/-- NEGATIVE CONTROL (observer's side).  The same event list with the load
    `ATM_LOAD_ACQ (&n->notified)` of nsync_note_notified_deadline_ [note.c/4] weakened to a relaxed
    load: the edge is gone. -/
theorem C03_note_needs_acquire_load :
    ¬ VC.Clock.le ((clocks notifyPre).vc 0)
        ((clocks (notifyPre ++ notifyMid .rel ++ observe .rlx)).vc 1) := by
  intro hle
  have h0 := hle 0
  have e1 : (clocks notifyPre).vc 0 0 = 1 := by decide
  have e2 : (clocks (notifyPre ++ notifyMid .rel ++ observe .rlx)).vc 1 0 = 0 := by decide
  omega

/-- The acceptor does not let either weakened variant through. -/
example : (run init (notifyPre ++ notifyMid .rlx)).toOption.isNone ∧
    (run init (notifyPre ++ notifyMid .rel ++ observe .rlx)).toOption.isNone := by decide

/-- In general: a relaxed load of a `notified` word changes no clock, and a relaxed store to it
    wipes its release clock. -/
theorem C03_note_relaxed_load_no_edge (m : VC.St VLoc) (t : Tid) (site : Site) (k : NoteId)
    (obs : Nat) : (vstep m (.ld t site .rlx k obs)).vc = m.vc :=
  VC.relaxed_load_no_edge m _ rfl rfl

theorem C03_note_relaxed_store_breaks (m : VC.St VLoc) (t : Tid) (site : Site) (k : NoteId)
    (n ob : Nat) : (vstep m (.stNote t site .rlx k n ob)).relc (.notified k) = VC.Clock.bot :=
  VC.relaxed_store_breaks m ⟨t, .st, .rlx, .notified k⟩ rfl rfl

/-- B. Tree note0 → note1.  Thread 1: nsync_note_wait (note1, no deadline) enqueues its record nw0 and
       sleeps.  Thread 0: nsync_note_notify (note0) stores the flag of note0, then (recursively,
       note_notify_child) the flag of note1, clears `nw0.waiting` with release [note.c/2] and posts.
       Thread 1 wakes (`pd_ret 0`), re-reads the flag twice [note.c/4 in ready_time and in
       note_dequeue], reads it under the lock [note.c/11] and returns 1. -/
def waitAll : List Event :=
  [.tick T0] ++ mkNote 99 0 none none T0 ++ mkNote 99 1 (some 0) none T0 ++
  [.call 1 (.wait 1 none), .waitnCall 1 none] ++ slowLook 1 1 T0 ++
  [.stW 1 .waitInit .rlx 0 0 0, .lockCall 1 1, .lockRet 1, .ld 1 .enqLd .acq 1 0,
   .stW 1 .enqSt1 .rlx 0 1 0, .unlockCall 1 1, .unlockRet 1] ++ slowLook 1 1 T0 ++
  [.pdEnter 1 0 none,
   .call 0 (.notify 0)] ++ slowLook 0 0 T0 ++
  [.lockCall 0 0, .lockRet 0, .ld 0 .notifyLd .acq 0 0, .ld 0 .childLd .acq 0 0,
   .stNote 0 .childSt .rel 0 1 0,
   .lockCall 0 1, .lockRet 0, .ld 0 .childLd .acq 1 0, .stNote 0 .childSt .rel 1 1 0,
   .stW 0 .childWake .rel 0 0 1, .semV 0 0,
   .waitCall 0 1, .waitRet 0, .unlockCall 0 1, .unlockRet 0,
   .waitCall 0 0, .waitRet 0, .unlockCall 0 0, .unlockRet 0, .ret 0 .notify,
   .pdRet 1 0 false, .ld 1 .dlLd1 .acq 1 1, .ld 1 .dlLd1 .acq 1 1,
   .lockCall 1 1, .lockRet 1, .ld 1 .deqLd .acq 1 1, .unlockCall 1 1, .unlockRet 1,
   .waitnRet 1 0, .ret 1 (.wait true)]

/-- notify (parent) → wait (child) woken: accepted; the waiter read from store 0 of note1, performed
    by thread 0 inside notify (note0) — the ANCESTOR — during nsync_note_notify (note0); the
    notifier's clock before that store (component 0 = 2: it had stored note0's flag) and at its call
    (1) are covered by the waiter's clock at its return. -/
example : (match prun pinit waitAll with
    | .ok p => decide (p.saw 1 1 = 1 ∧
        (p.sets 1).map (fun g => (g.who, g.api, g.top)) =
          [(0, some (.notify 0), some ⟨0, none, .ofApi⟩)] ∧
        (p.sets 1).map (fun g => (g.callc 0, g.clk 0)) = [(1, 2)] ∧ 2 ≤ p.m.vc 1 0 ∧
        0 ∈ p.s.ancEver 1 ∧
        p.s.observed.map (fun o => (o.t, o.n, o.res)) = [(1, 1, true)])
    | .error _ => false) = true := by decide

/-- C. note0 has a deadline.  Thread 0 polls (nsync_note_is_notified) after the deadline has passed
       and performs the notification itself (lazy expiry); thread 1 then sees the note notified. -/
def lazyAll : List Event :=
  [.tick T0] ++ mkNote 99 0 none (some (T0 + 1000)) T0 ++
  [.tick (T0 + 5000), .call 0 (.isNotified 0),
   .ld 0 .dlLd1 .acq 0 0, .lockCall 0 0, .lockRet 0, .ld 0 .dlLd2 .acq 0 0, .unlockCall 0 0,
   .unlockRet 0, .now 0 (T0 + 5000),
   .lockCall 0 0, .lockRet 0, .ld 0 .notifyLd .acq 0 0, .ld 0 .childLd .acq 0 0,
   .stNote 0 .childSt .rel 0 1 0, .waitCall 0 0, .waitRet 0, .unlockCall 0 0, .unlockRet 0,
   .ret 0 (.isNotified true)] ++ observe .acq

/-- lazy expiry: accepted; nobody called nsync_note_notify; the store was performed by the poller
    (thread 0) during its nsync_note_is_notified (note0), inside a `notify (note0)` entered from
    nsync_note_notified_deadline_; the poller itself returns 1 as the performer of the store, and the
    later observer (thread 1) covers the poller's clock at its call. -/
example : (match prun pinit lazyAll with
    | .ok p => decide (p.saw 1 0 = 1 ∧ p.s.notifyCalled 0 = false ∧
        (p.sets 0).map (fun g => (g.who, g.api, g.top)) =
          [(0, some (.isNotified 0), some ⟨0, none, .ofDeadline .isNotified⟩)] ∧
        (p.sets 0).map (fun g => g.callc 0) = [1] ∧ 1 ≤ p.m.vc 1 0 ∧
        p.s.observed.map (fun o => (o.t, o.n, o.res)) = [(1, 0, true), (0, 0, true)])
    | .error _ => false) = true := by decide

/-- D. Born notified (the F5 repair; `Traces.f5bTrace` recorded from the repaired library): note0 is
       notified explicitly by thread 0, which then creates note1 under it: nsync_note_new stores
       note1's flag [note.c/7].  Extended by an observer: thread 1 nsync_note_is_notified (note1). -/
def bornAll (o : Ord) : List Event :=
  Traces.f5bTrace.take 41 ++
  [.stNote 0 .newSt o 1 1 0, .unlockCall 0 0, .unlockRet 0, .ret 0 (.new (some 1)),
   .call 1 (.isNotified 1), .ld 1 .dlLd1 .acq 1 1, .ret 1 (.isNotified true)]

example : Traces.f5bTrace.drop 41 = [.stNote 0 .newSt .rel 1 1 0, .unlockCall 0 0, .unlockRet 0,
    .ret 0 (.new (some 1)), .call 0 (.expiry 1), .ret 0 (.expiry (some 1100000000000)),
    .call 0 (.isNotified 1), .ld 0 .dlLd1 .acq 1 1, .ret 0 (.isNotified true)] := by decide

/-- born notified: accepted; the store of note1's flag is the creator's (thread 0, during
    nsync_note_new (note0, 1100 s), `top = none`); the observer covers the creator's clock at that
    call (component 0 = 2: it had stored note0's flag before). -/
example : (match prun pinit (bornAll .rel) with
    | .ok p => decide (p.saw 1 1 = 1 ∧ p.s.bornNotified 1 = true ∧
        (p.sets 1).map (fun g => (g.who, g.api, g.top)) =
          [(0, some (.new (some 0) (some 1100000000000)), none)] ∧
        (p.sets 1).map (fun g => g.callc 0) = [2] ∧ 2 ≤ p.m.vc 1 0)
    | .error _ => false) = true := by decide

/-- NEGATIVE CONTROL (born notified).  With `ATM_STORE_REL (&n->notified, 1)` of nsync_note_new
    [note.c/7] weakened to a relaxed store the observer of the new note does not cover the creator's
    clock (and the acceptor rejects the weakened log). -/
theorem C03_note_born_needs_release_store :
    ¬ VC.Clock.le ((clocks (Traces.f5bTrace.take 41)).vc 0) ((clocks (bornAll .rlx)).vc 1) := by
  intro hle
  have h0 := hle 0
  have e1 : (clocks (Traces.f5bTrace.take 41)).vc 0 0 = 2 := by decide
  have e2 : (clocks (bornAll .rlx)).vc 1 0 = 0 := by decide
  omega

example : (run init (bornAll .rlx)).toOption.isNone ∧ (run init (bornAll .rel)).toOption.isSome := by
  decide

/-- E. SCOPE: a note created with a zero deadline is notified from birth with its flag 0.
       Thread 1: nsync_note_notify (note0) — a no-op: no store.  Thread 2:
       nsync_note_is_notified (note0) = 1, by reading `expiry_time == 0` under the lock. -/
def zeroAll : List Event :=
  [.tick T0, .call 99 (.new none (some 0)), .malloc 99 (some 0), .ld 99 .dlLd1 .acq 0 0,
   .lockCall 99 0, .lockRet 99, .ld 99 .dlLd2 .acq 0 0, .unlockCall 99 0, .unlockRet 99,
   .ret 99 (.new (some 0)),
   .call 1 (.notify 0), .ld 1 .dlLd1 .acq 0 0, .lockCall 1 0, .lockRet 1, .ld 1 .dlLd2 .acq 0 0,
   .unlockCall 1 0, .unlockRet 1, .ret 1 .notify,
   .call 2 (.isNotified 0), .ld 2 .dlLd1 .acq 0 0, .lockCall 2 0, .lockRet 2, .ld 2 .dlLd2 .acq 0 0,
   .unlockCall 2 0, .unlockRet 2, .ret 2 (.isNotified true)]

/-- Accepted; no store was ever performed on note0; the observer returns 1 through the second
    disjunct of `C03_note_is_notified` (`zsaw`); and on the clock machine the clock of the caller of
    nsync_note_notify is NOT covered by the observer's: nobody notifies such a note, no edge exists. -/
theorem C03_note_zero_deadline_no_edge :
    okRun zeroAll = true ∧ (prunD zeroAll).sets 0 = [] ∧ (prunD zeroAll).saw 2 0 = 0 ∧
    (prunD zeroAll).zsaw 2 0 = true ∧ (prunD zeroAll).s.notifyCalled 0 = true ∧
    ¬ VC.Clock.le ((prunD zeroAll).cc 1) ((prunD zeroAll).m.vc 2) := by
  refine ⟨by decide, by decide, by decide, by decide, by decide, ?_⟩
  intro hle
  have h1 := hle 1
  have e1 : (prunD zeroAll).cc 1 1 = 1 := by decide
  have e2 : (prunD zeroAll).m.vc 2 1 = 0 := by decide
  omega

/-- F. SCOPE: a second, redundant nsync_note_notify (thread 2, after thread 0's has completed) finds
       the flag set [note.c/4] and stores nothing: the later observer (thread 1) covers the clock of
       thread 0 (the notifier), not that of thread 2. -/
def redundantAll : List Event :=
  notifyPre ++ notifyMid .rel ++
  [.call 2 (.notify 0), .ld 2 .dlLd1 .acq 0 1, .ret 2 .notify] ++ observe .acq

theorem C03_note_redundant_notify_no_edge :
    okRun redundantAll = true ∧ ((prunD redundantAll).sets 0).length = 1 ∧
    ((prunD redundantAll).sets 0).map (fun g => g.who) = [0] ∧
    ¬ VC.Clock.le ((prunD redundantAll).cc 2) ((prunD redundantAll).m.vc 1) := by
  refine ⟨by decide, by decide, by decide, ?_⟩
  intro hle
  have h2 := hle 2
  have e1 : (prunD redundantAll).cc 2 2 = 1 := by decide
  have e2 : (prunD redundantAll).m.vc 1 2 = 0 := by decide
  omega

end ExampleVC

end Note
