import NsyncVerif.Props.C04Fix
import NsyncVerif.Props.C03Signal
/-
  Props/C14Cv.lean — property C14 across condition variables.

  MU_LONG_WAIT (and MU_WRITER_WAITING) may be ignored only by a thread that has itself waited on the mutex:
  nsync_mu_lock_slow_ drops the two bits from its acquire mask when called with `clear = MU_DESIG_WAKER`
  (mu.c:58-61).  The only caller that passes MU_DESIG_WAKER for a thread that was never queued by
  nsync_mu_lock itself is the end of nsync_cv_wait_with_deadline_generic (cv.c:297-303), and it may do so only
  for a waiter that wake_waiters has MOVED to the mutex queue (`w->cv_mu == NULL`): that thread was woken by an
  unlocker of the mutex, i.e. it has waited on the mutex.  Every other return from a cv wait (timeout,
  cancellation, a signal that woke it directly) re-acquires with the plain lock function and is a fresh locker
  for the purposes of C14.  Over the CvFix model (cv.c statement by statement):

  * `C14_cv_relock_slow_only_transferred` — the nested call of nsync_mu_lock_slow_ at the end of a cv wait is
    accepted only for a waiter whose ghost `xferd` is set;
  * `C14_cv_untransferred_uses_plain_lock` — and the plain re-acquisition only for one whose `xferd` is clear;
  * `C14_cv_xferd_is_transfer` — `xferd` is set exactly when, at the load that left the wait loop, the record's
    status was `xfer` = "moved to the mutex queue by wake_waiters (cv.c:80-114)";
  * `C14_cv_transferred_was_woken_by_waker` — and then a waker had unlinked it from the cv (so the hand-over to
    the mutex queue really happened: the composition CvFix × MuX of C03Transfer continues from here).

  Seeded change this is aimed at: seeded/C14-cv-return-reacquires-as-designated-waker (the
  `&& w->cv_mu == NULL` test dropped: every cv return calls nsync_mu_lock_slow_ with MU_DESIG_WAKER).
-/
namespace NsyncVerif.CvFix

theorem C14_cv_relock_slow_only_transferred {cfg : Config} {s s' : State} {t : Tid}
    (hs : step cfg s (.relockSlow t) = .ok s') : (s.thr t).loc = .wExit ∧ (s.thr t).xferd = true := by
  simp only [step, need_ok] at hs
  exact ⟨hs.1, hs.2.1⟩

theorem C14_cv_untransferred_uses_plain_lock {cfg : Config} {s s' : State} {t : Tid} {op : MuOp}
    (hs : step cfg s (.lockMark t op) = .ok s') : (s.thr t).loc = .wExit ∧ (s.thr t).xferd = false := by
  simp only [step, need_ok] at hs
  exact ⟨hs.1, hs.2.1⟩

/-- the two re-acquisition paths exclude each other in every state -/
theorem C14_cv_reacquire_paths_exclusive {cfg : Config} {s s1 s2 : State} {t : Tid} {op : MuOp}
    (h1 : step cfg s (.relockSlow t) = .ok s1) (h2 : step cfg s (.lockMark t op) = .ok s2) : False := by
  have a := (C14_cv_relock_slow_only_transferred h1).2
  have b := (C14_cv_untransferred_uses_plain_lock h2).2
  rw [a] at b; cases b

theorem C14_cv_xferd_is_transfer {cfg : Config} {s s' : State} {t : Tid} {r : Rid}
    (hs : step cfg s (.recLd t .wHead r 0) = .ok s') :
    ((s'.thr t).xferd = true ↔ (s.recs r).stat = RStat.xfer) := by
  simp only [step] at hs
  unfold stepRecLd at hs
  split at hs
  · cases hs
  · rename_i y hy
    dsimp only at hs
    split at hs <;> try contradiction
    simp only [need_ok] at hs
    obtain ⟨_, _, hs⟩ := hs
    simp only [if_true] at hs
    cases hs
    simp

/-- A waiter that leaves the wait loop as `transferred` was unlinked from the cv by exactly one waker (which
    handed it to the mutex queue), and it is a waiter on an nsync_mu (only those are ever transferred). -/
theorem C14_cv_transferred_was_woken_by_waker {cfg : Config} {s s' : State} {t : Tid} {r : Rid} (h : Reachable cfg s)
    (hs : step cfg s (.recLd t .wHead r 0) = .ok s') (hx : (s'.thr t).xferd = true) :
    (∃ u, (s'.thr t).exitUnl = [Unl.waker u]) ∧ r.isMucv = true := by
  have hst := (C14_cv_xferd_is_transfer hs).1 hx
  obtain ⟨_, _, _, _, h5, _, _⟩ := wHead_exit_accepted hs
  obtain ⟨u, hu⟩ := (invF_reachable h).unlW r (.inr hst)
  exact ⟨⟨u, by rw [h5, hu]⟩, (inv_reachable h).b.xferM r hst⟩

/-! ### non-vacuity and the seeded change (traces `xferAll`, `sigAll` of Props/C03Signal.lean) -/

/-- a transferred waiter: at its exit load `xferd` is set and the slow re-acquisition is accepted … -/
example : okRun ⟨false⟩ (xferAll.take 31) = true := by decide
/-- … the plain one is not -/
example : okRun ⟨false⟩ (xferAll.take 30 ++ [.lockMark 0 .wr]) = false := by decide
/-- a waiter woken directly by the signaller (not transferred): the plain re-acquisition is accepted … -/
example : okRun ⟨false⟩ sigAll = true := by decide
/-- … and nsync_mu_lock_slow_ with MU_DESIG_WAKER (the seeded change) is rejected -/
example : okRun ⟨false⟩ (sigAll.take 27 ++ [.relockSlow 0]) = false := by decide
example : okRun ⟨false⟩ (sigAll.take 27 ++ [.lockMark 0 .wr]) = true := by decide

end NsyncVerif.CvFix
