/-
  Property C05, liveness, timed waits — towards clause (a) of `C05_fair_return_full`
  (Proofs/CvFixFairDefs.lean): "a cv wait with a finite deadline returns once the clock has passed
  the deadline".  Continuation of Props/C05Fair.lean; proofs in Proofs/CvFixFairTimed.lean.

  STATUS: clause (a) is NOT proved (`C05_fair_timed_return` does not exist; `C05_fair_return_full`
  stays an unproved `def`).  PROVED, under `WaitHyps`:
  * `C05_fair_clock_monotone`       the clock of an execution never goes back;
  * `C05_fair_timed_sleeper_wakes`  a waiter asleep in the semaphore wait of cv.c (`wSemRet`, no
        cancel note) whose deadline has passed LEAVES the semaphore wait (`SemFair`; the deadline
        handed to the semaphore is `abs_deadline`: `TInvC.semRet`), and the step that leaves it is the
        edge to cv.c:249 with `sem_outcome = ETIMEDOUT`, or the edge to cv.c:282 (the semaphore
        returned 0: a post — real, stray or late);
  * `C05_fair_timedout_removes_or_returns`  step (2) of the timeout path: a waiter at cv.c:249 (its
        semaphore wait has timed out / been cancelled) takes the spinlock, re-checks `waiting`
        and `remove_count` (cv.c:259-260) and STARTS TO REMOVE ITSELF (`wRmLd`) — unless a waker got
        there first (`waiting = 0`, or `remove_count` changed: then the record is not queued any
        more, `TInvB.svQ`), and then its call returns 0;
  * `C05_fair_timed_reaches_removal`  the two together: a timed waiter asleep past its deadline
        gets the semaphore's 0 (cv.c:282), or returns 0, or reaches the self-removal;
  * `C05_fair_timed_covered_returns` if a waker wins the race (the record is unlinked by a waker at
        any time: `Covered`), the timed wait returns 0 — this is `C04_fair_woken_returns`.
  MISSING for clause (a) (the chain is described in the header of Props/C05Fair.lean):
  (1) after the edge to cv.c:282 with `waiting` still 1 (a spurious wake-up) the waiter sleeps again;
      `FiniteSpurious` bounds the number of rounds — needs the event of the edge (`sem pd_ret … 0`),
      which `HopAt` does not carry;
  (2) — DONE: `C05_fair_timedout_removes_or_returns`;
  (3) the self-removal `wRmLd … wClr → wRel2 → wTail → wHead` ends with `waiting = 0`
      (`TInvB.soW`) — needs that status `selfOut` is stable until the owner leaves (a lemma like
      `rec_stable` for `selfOut`) and the `remove_count` CAS loop (rank `rkS`);
  (4) for cancellable timed waits (`cPre`, `cWait`, `cPost`) additionally that the deadline handed to
      the semaphore is not later than `abs_deadline` while asleep in `cWait` (checked by the acceptor
      at `sem pd_enter`, but not kept as an invariant).
-/
import NsyncVerif.Proofs.CvFixFairTimed

namespace NsyncVerif.CvFix

/-- The clock never goes back. -/
theorem C05_fair_clock_monotone {cfg : Config} {s0 : State} (x : Exec cfg s0) {i j : Nat}
    (h : i ≤ j) : (x.ρ i).now ≤ (x.ρ j).now := by
  obtain ⟨d, rfl⟩ : ∃ d, j = i + d := ⟨j - i, by omega⟩
  exact exec_now_mono x i d

/-- A timed waiter asleep on its semaphore past its deadline leaves the semaphore wait: at some
    time `j1 ≥ j` it is still at `wSemRet` and its step at `j1` goes to cv.c:249 with
    `sem_outcome = ETIMEDOUT`, or to cv.c:282. -/
theorem C05_fair_timed_sleeper_wakes {cfg : Config} {s0 : State} (x : Exec cfg s0) (hy : WaitHyps x)
    {t : Tid} {j d : Nat} (hl : ((x.ρ j).thr t).loc = .wSemRet) (hd : ((x.ρ j).thr t).dl = some d)
    (hnow : d ≤ (x.ρ j).now) :
    ∃ j1, j ≤ j1 ∧ ((x.ρ j1).thr t).loc = .wSemRet ∧ ((x.ρ j1).thr t).dl = some d ∧
      ((((x.ρ (j1 + 1)).thr t).loc = .wChk ∧ ((x.ρ (j1 + 1)).thr t).semOut = .timedOut) ∨
       ((x.ρ (j1 + 1)).thr t).loc = .wTail) :=
  timed_sleeper_wakes x hy hl hd hnow

/-- If a waker wins the race against the timeout, the timed wait returns 0. -/
theorem C05_fair_timed_covered_returns {cfg : Config} {s0 : State} (x : Exec cfg s0)
    (hy : WaitHyps x) {t : Tid} {i : Nat} (h : Covered (x.ρ i) t) :
    ∃ j, i ≤ j ∧ x.σ j = some (.retWait t .ok) :=
  C04_fair_woken_returns x hy h

/-- Step (2) of the timeout path: from cv.c:249 the waiter starts to remove itself, or a waker got
    there first and the call returns 0. -/
theorem C05_fair_timedout_removes_or_returns {cfg : Config} {s0 : State} (x : Exec cfg s0)
    (hy : WaitHyps x) {t : Tid} {j : Nat} (hl : ((x.ρ j).thr t).loc = .wChk) :
    (∃ j', j ≤ j' ∧ x.σ j' = some (.retWait t .ok)) ∨
    (∃ j', j ≤ j' ∧ ((x.ρ j').thr t).loc = .wRmLd) :=
  timedout_removes_or_returns x hy hl

/-- A timed waiter asleep on its semaphore past its deadline gets the semaphore's 0 (next cv.c:282),
    or returns 0 (a waker won the race), or reaches its self-removal (cv.c:270). -/
theorem C05_fair_timed_reaches_removal {cfg : Config} {s0 : State} (x : Exec cfg s0)
    (hy : WaitHyps x) {t : Tid} {j d : Nat} (hl : ((x.ρ j).thr t).loc = .wSemRet)
    (hd : ((x.ρ j).thr t).dl = some d) (hnow : d ≤ (x.ρ j).now) :
    (∃ j', j ≤ j' ∧ ((x.ρ j').thr t).loc = .wTail) ∨
    (∃ j', j ≤ j' ∧ x.σ j' = some (.retWait t .ok)) ∨
    (∃ j', j ≤ j' ∧ ((x.ρ j').thr t).loc = .wRmLd) := by
  obtain ⟨j1, h1, _, _, h | h⟩ := timed_sleeper_wakes x hy hl hd hnow
  · rcases timedout_removes_or_returns x hy h.1 with ⟨j', h2, h3⟩ | ⟨j', h2, h3⟩
    · exact .inr (.inl ⟨j', by omega, h3⟩)
    · exact .inr (.inr ⟨j', by omega, h3⟩)
  · exact .inl ⟨j1 + 1, by omega, h⟩

end NsyncVerif.CvFix
