import NsyncVerif.Props.C03Once

#print axioms Once.vinv_step
#print axioms Once.C03_once_invariant
#print axioms Once.C03_once
#print axioms Once.C03_once_state
#print axioms Once.C03_once_needs_acquire
#print axioms Once.C03_once_relaxed_load_no_edge
#print axioms Once.C03_once_relaxed_store_breaks
