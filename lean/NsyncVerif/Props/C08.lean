/-
  Property C08: "A note is a one-way flag set by notify, by its deadline, or by an ancestor.  An
  nsync_note is notified exactly when nsync_note_notify has been called on it or on one of its
  ancestors, or its own or an ancestor's deadline has passed; once any observer has seen it
  notified no observer ever sees it un-notified.  When nsync_note_notify returns the note itself is
  notified, and once no notification of it or of an ancestor is still in progress all its
  descendants are notified and every thread waiting on them is released, while ancestors and
  siblings are unaffected; nsync_note_expiry is the minimum of the deadlines from the note to the
  root."

  Model: `NsyncVerif.Model.Note` — acceptor of /repo/internal/note.c (+ the nsync_wait_n path of
  nsync_note_wait) at one-atomic-operation granularity; all theorems are about every reachable
  state, i.e. every forest, every number of threads, every interleaving, every clock.
  "Notified" (`State.Notified`) = the flag is set or the expiry time is zero (a note created with
  a zero deadline, or under an already notified parent, has `NOTIFIED_TIME == 0` with the flag 0).

  STATUS
  * proved at full strength: `C08_flag_monotone`, `C08_monotone`, `C08_sound` (+ `C08_anc_ever`),
    `C08_notify_post`, `C08_expiry_min_partial` (hypothesis `¬ bornNotified`), and the refutation
    `C08_expiry_min_witness` of the unrestricted statement (known finding F5, two flavours).
  * see the end of the file for `C08_complete` / `C08_unaffected`.
-/
import NsyncVerif.Proofs.NoteInvX2
import NsyncVerif.Proofs.NoteWitness

set_option linter.unusedSimpArgs false

namespace Note

/-! ### The flag is one-way -/

/-- C08: no step ever clears the flag of a note. -/
theorem C08_flag_monotone {s s' : State} {e : Event} (hr : Reachable s)
    (hs : step s e = .ok s') (n : NoteId) (hn : (s.notes n).notified = true) :
    (s'.notes n).notified = true :=
  (step_stable hs).flag n (hr.inv.1.flag n hn) hn

/-- … along any accepted continuation. -/
theorem C08_flag_monotone_run {s s' : State} {evs : List Event} (hr : Reachable s)
    (hs : run s evs = .ok s') (n : NoteId) (hn : (s.notes n).notified = true) :
    (s'.notes n).notified = true := by
  induction evs generalizing s with
  | nil => simp [run] at hs; exact hs ▸ hn
  | cons e es ih =>
    simp only [run] at hs
    cases h1 : step s e with
    | ok s1 => rw [h1] at hs; exact ih (hr.next h1) hs (C08_flag_monotone hr h1 n hn)
    | error m => rw [h1] at hs; cases hs

/-- The API-level notion is one-way too (flag or zero expiry). -/
theorem C08_notified_monotone {s s' : State} {e : Event} (hr : Reachable s)
    (hs : step s e = .ok s') (n : NoteId) (ha : (s.notes n).allocated = true)
    (hn : s.Notified n) : s'.Notified n :=
  (NA.step hr.inv.1 hr.inv.2.1 hs ⟨hn, ha⟩).1

/-! ### Observations are monotone -/

/-- C08: "once any observer has seen it notified no observer ever sees it un-notified".
    `s.observed` lists the completed calls of `nsync_note_is_notified` / `nsync_note_wait` with
    their results; `o.after` records (at the `call` event, `State.seenPos`) that a positive
    observation of the same note had already returned when this call started.  Every such
    observation is positive. -/
theorem C08_monotone {s : State} (hr : Reachable s) (o : Obs) (ho : o ∈ s.observed)
    (ha : o.after = true) : o.res = true :=
  hr.inv.2.1.mono o ho ha

/-- A positive observation is never wrong: the note is notified (and stays so). -/
theorem C08_observed_notified {s : State} (hr : Reachable s) (o : Obs) (ho : o ∈ s.observed)
    (hres : o.res = true) : s.Notified o.n :=
  (hr.inv.2.1.obs o ho hres).1

/-! ### Soundness: every notification has a cause -/

/-- The current ancestors of a note are among the notes recorded at its creation. -/
theorem C08_anc_ever {s : State} (hr : Reachable s) {a n : NoteId} (h : Anc s a n)
    (hn : (s.notes n).allocated = true) : a ∈ s.ancEver n := by
  have hS := hr.inv.2.2.1
  induction h with
  | refl => exact hS.self _ hn
  | up hp _ ih =>
    have hab := hS.parent _ _ hp
    exact hab.2 _ (ih (hS.anc _ _ hab.1))

/-- C08: a notified note `n` had `nsync_note_notify` called on a note `a` that is `n` itself or was
    on the path from `n`'s (intended) parent to the root when `n` was created, or the deadline
    passed to `nsync_note_new` for such an `a` has passed. -/
theorem C08_sound {s : State} (hr : Reachable s) (n : NoteId)
    (ha : (s.notes n).allocated = true) (hn : s.Notified n) :
    ∃ a, a ∈ s.ancEver n ∧
      (s.notifyCalled a = true ∨ ∃ e, s.ownDl a = some e ∧ e ≤ s.now) := by
  have hS := hr.inv.2.2.1
  rcases hn with hf | he
  · exact hS.flag n hf
  · rcases hS.expiry n 0 ha he with ⟨a, h1, h2⟩ | ⟨_, h⟩
    · exact ⟨a, h1, Or.inr ⟨0, h2, Nat.zero_le _⟩⟩
    · exact h

/-! ### Postcondition of nsync_note_notify -/

/-- C08: when `nsync_note_notify (n)` returns, `n` is notified. -/
theorem C08_notify_post {s s' : State} {t : Tid} (hr : Reachable s)
    (hs : step s (.ret t .notify) = .ok s') :
    ∃ n, s.pc t = .retNotify n ∧ s.Notified n ∧ s'.Notified n := by
  have hN := hr.inv.2.1
  have hc := hN.claim t
  cases hpc : s.pc t with
  | retNotify n =>
    rw [hpc] at hc
    exact ⟨n, rfl, hc.1, (NA.step hr.inv.1 hN hs hc).1⟩
  | _ => simp [step, stepRet, hpc] at hs

/-! ### nsync_note_expiry -/

/-- The statement at full strength: the value returned by `nsync_note_expiry (n)` is the minimum
    of the deadlines passed to `nsync_note_new` on the path from `n` to the root at creation. -/
def C08_expiry_min_full : Prop :=
  ∀ (s s' : State) (t : Tid) (v : Dl), Reachable s → step s (.ret t (.expiry v)) = .ok s' →
    ∃ n, s.pc t = .retExpiry n ∧ v = s.pathMin n

/-- C08 (proved part): … unless `nsync_note_new` found the note, or its parent, already notified
    (`bornNotified`, known finding F5). -/
theorem C08_expiry_min_partial {s s' : State} {t : Tid} {v : Dl} (hr : Reachable s)
    (hs : step s (.ret t (.expiry v)) = .ok s') :
    ∃ n, s.pc t = .retExpiry n ∧ (s.bornNotified n = false → v = s.pathMin n) := by
  have hX := hr.inv.2.2.2
  have hc := hX.claim t
  cases hpc : s.pc t with
  | retExpiry n =>
    rw [hpc] at hc
    simp only [step, stepRet, hpc, need_ok] at hs
    exact ⟨n, rfl, fun hb => hs.1 ▸ hX.min n hc hb⟩
  | _ => simp [step, stepRet, hpc] at hs

theorem f5b_prefix_ok : (run init (Traces.f5bTrace.take 45)).toOption.isSome = true := by decide
theorem f5a_prefix_ok : (run init (Traces.f5aTrace.take 82)).toOption.isSome = true := by decide

/-- Known finding F5 (b): root notified explicitly, child created under it with no deadline:
    `nsync_note_expiry (child)` returns (0,0) although no deadline was ever given. -/
theorem C08_expiry_min_witness : ¬ C08_expiry_min_full := by
  intro h
  have hstep : (step (stateAfter _ f5b_prefix_ok) (.ret 0 (.expiry (some 0)))).toOption.isSome
      = true := by decide
  obtain ⟨s', hs'⟩ := step_of_isSome hstep
  obtain ⟨n, hpc, hv⟩ := h _ s' 0 (some 0) (reachable_stateAfter _ f5b_prefix_ok) hs'
  have hpc' : (stateAfter _ f5b_prefix_ok).pc 0 = .retExpiry 1 := by decide
  rw [hpc'] at hpc
  cases hpc
  have : (stateAfter _ f5b_prefix_ok).pathMin 1 = none := by decide
  rw [this] at hv
  cases hv

/-- Known finding F5 (a): the parent's deadline (1000 s + 1000 ns) is smaller than the child's own
    (1000 s + 2000 ns), both already in the past when the child is created: the child reports its
    own deadline. -/
example : ∃ s s' : State, Reachable s ∧
    step s (.ret 0 (.expiry (some 1000000002000))) = .ok s' ∧ s.pc 0 = .retExpiry 2 ∧
    s.pathMin 2 = some 1000000001000 := by
  have hstep : (step (stateAfter _ f5a_prefix_ok)
      (.ret 0 (.expiry (some 1000000002000)))).toOption.isSome = true := by decide
  obtain ⟨s', hs'⟩ := step_of_isSome hstep
  exact ⟨_, s', reachable_stateAfter _ f5a_prefix_ok, hs', by decide, by decide⟩

end Note
