/-
  Property C08: "A note is a one-way flag set by notify, by its deadline, or by an ancestor.  An
  nsync_note is notified exactly when nsync_note_notify has been called on it or on one of its
  ancestors, or its own or an ancestor's deadline has passed; once any observer has seen it
  notified no observer ever sees it un-notified.  When nsync_note_notify returns the note itself is
  notified, and once no notification of it or of an ancestor is still in progress all its
  descendants are notified and every thread waiting on them is released, while ancestors and
  siblings are unaffected; nsync_note_expiry is the minimum of the deadlines from the note to the
  root."

  Model: `NsyncVerif.Model.Note` — acceptor of /repo/internal/note.c (+ the nsync_wait_n path of
  nsync_note_wait) at one-atomic-operation granularity; all theorems are about every reachable
  state, i.e. every forest, every number of threads, every interleaving, every clock.
  The model follows note.c AFTER the repair of the defects F5 (/verif/fixes/F5/note_fix.diff) and
  F4 / F7 (/verif/fixes/F4F7/note_fix.diff).
  "Notified" (`State.Notified`) = the flag is set or the expiry time is zero (a zero deadline on the
  creation-time path: `NOTIFIED_TIME == 0` with the flag 0; a note created under an already
  notified parent now gets its flag set by `nsync_note_new`).

  STATUS
  * proved at full strength: `C08_flag_monotone`, `C08_monotone`, `C08_sound` (+ `C08_anc_ever`),
    `C08_notify_post`, and — since the repair of F5 — the expiry clause: `C08_expiry_min` (every
    note returned by nsync_note_new, born notified or not), `C08_expiry_min_ret` (the value returned
    by nsync_note_expiry), with `C08_creation_path` (what "the path from the note to the root"
    is: the chain of CREATION-time parents — nsync_note_free re-parents the children of a freed note
    under the grand-parent in the real forest, the deadlines that count are those of the notes that
    were above the note when it was created), `Dl.minList_mem` / `Dl.minList_le` (it is the
    minimum).  `C08_expiry_min_partial` is kept (now a corollary); `C08_expiry_min_full` is proved
    (`C08_expiry_min_full_holds`).  What the code did before the repair is documented by
    `C08_expiry_min_old_code_witness`.
  * `C08_complete` — PROVED IN FULL since the repair of the defects F4 / F7
    (/verif/fixes/F4F7/note_fix.diff; the model follows the repaired note.c): in EVERY reachable
    state a notified note `n` on which no thread has an activation of `note_notify_child` past the
    store any more has no descendant left in the current forest — each was notified and
    disconnected (in particular every descendant is notified).  The hypothesis `ReachableH` of the
    former `C08_complete_partial` (no adoption by `nsync_note_free` under an already notified
    parent) is gone: an adopter now finds the note it frees still on the parent's list (F7, "the
    last disconnector unlinks": `InvForest.linked`), so the parent had an activation in progress,
    which the adopter wakes (`children_adopted`) and which scans again before it ends (F4).
    `C08_complete_partial` is kept as a corollary.  The "every thread waiting on them is released"
    half and the statement in terms of threads still delivering (`C08_complete_full`, now proved)
    are in Props/C08Release.lean.
    The former refutation `C08_complete_witness` (accepted trace of the UNREPAIRED library) is gone
    with the defect: `f4_repaired` below replays the same schedule on the repaired library — the
    state in which the old code was stuck for ever is now left by a second scan that notifies
    the adopted note.  /verif/corpus/C08/f4_*.txt stays as regression.
  * `C08_unaffected`: proved w.r.t. the creation-time path (`ancEver`):
    `C08_unaffected_partial`; the statement w.r.t. the current tree is `C08_unaffected_full`
    (proved in Props/C08Release.lean, `C08_unaffected_full_holds`: it needs the converse of `InvT`,
    which rests on the locks).
    Both statements have a second disjunct since the repair of F5: `nsync_note_new` itself sets the
    flag of the note it is creating (not yet returned to anybody) when the intended parent is
    notified — the repaired code has this additional, harmless way of setting a flag.
-/
import NsyncVerif.Proofs.NoteFixJ
import NsyncVerif.Proofs.NoteInvP
import NsyncVerif.Proofs.NoteWitness

set_option linter.unusedSimpArgs false

namespace Note

/-! ### The flag is one-way -/

/-- C08: no step ever clears the flag of a note. -/
theorem C08_flag_monotone {s s' : State} {e : Event} (hr : Reachable s)
    (hs : step s e = .ok s') (n : NoteId) (hn : (s.notes n).notified = true) :
    (s'.notes n).notified = true :=
  (step_stable hs).flag n (hr.inv.1.flag n hn) hn

/-- … along any accepted continuation. -/
theorem C08_flag_monotone_run {s s' : State} {evs : List Event} (hr : Reachable s)
    (hs : run s evs = .ok s') (n : NoteId) (hn : (s.notes n).notified = true) :
    (s'.notes n).notified = true := by
  induction evs generalizing s with
  | nil => simp [run] at hs; exact hs ▸ hn
  | cons e es ih =>
    simp only [run] at hs
    cases h1 : step s e with
    | ok s1 => rw [h1] at hs; exact ih (hr.next h1) hs (C08_flag_monotone hr h1 n hn)
    | error m => rw [h1] at hs; cases hs

/-- The API-level notion is one-way too (flag or zero expiry). -/
theorem C08_notified_monotone {s s' : State} {e : Event} (hr : Reachable s)
    (hs : step s e = .ok s') (n : NoteId) (ha : (s.notes n).allocated = true)
    (hn : s.Notified n) : s'.Notified n :=
  (NA.step hr.inv.1 hr.inv.2.1 hs ⟨hn, ha⟩).1

/-! ### Observations are monotone -/

/-- C08: "once any observer has seen it notified no observer ever sees it un-notified".
    `s.observed` lists the completed calls of `nsync_note_is_notified` / `nsync_note_wait` with
    their results; `o.after` records (at the `call` event, `State.seenPos`) that a positive
    observation of the same note had already returned when this call started.  Every such
    observation is positive. -/
theorem C08_monotone {s : State} (hr : Reachable s) (o : Obs) (ho : o ∈ s.observed)
    (ha : o.after = true) : o.res = true :=
  hr.inv.2.1.mono o ho ha

/-- A positive observation is never wrong: the note is notified (and stays so). -/
theorem C08_observed_notified {s : State} (hr : Reachable s) (o : Obs) (ho : o ∈ s.observed)
    (hres : o.res = true) : s.Notified o.n :=
  (hr.inv.2.1.obs o ho hres).1

/-! ### Soundness: every notification has a cause -/

/-- The current ancestors of a note are among the notes recorded at its creation. -/
theorem C08_anc_ever {s : State} (hr : Reachable s) {a n : NoteId} (h : Anc s a n)
    (hn : (s.notes n).allocated = true) : a ∈ s.ancEver n := by
  have hS := hr.inv.2.2.1
  induction h with
  | refl => exact hS.self _ hn
  | up hp _ ih =>
    have hab := hS.parent _ _ hp
    exact hab.2 _ (ih (hS.anc _ _ hab.1))

/-- C08: a notified note `n` had `nsync_note_notify` called on a note `a` that is `n` itself or was
    on the path from `n`'s (intended) parent to the root when `n` was created, or the deadline
    passed to `nsync_note_new` for such an `a` has passed. -/
theorem C08_sound {s : State} (hr : Reachable s) (n : NoteId)
    (ha : (s.notes n).allocated = true) (hn : s.Notified n) :
    ∃ a, a ∈ s.ancEver n ∧
      (s.notifyCalled a = true ∨ ∃ e, s.ownDl a = some e ∧ e ≤ s.now) := by
  have hS := hr.inv.2.2.1
  rcases hn with hf | he
  · exact hS.flag n hf
  · rcases hS.expiry n 0 ha he with ⟨a, h1, h2⟩ | ⟨_, h⟩
    · exact ⟨a, h1, Or.inr ⟨0, h2, Nat.zero_le _⟩⟩
    · exact h

/-! ### Postcondition of nsync_note_notify -/

/-- C08: when `nsync_note_notify (n)` returns, `n` is notified. -/
theorem C08_notify_post {s s' : State} {t : Tid} (hr : Reachable s)
    (hs : step s (.ret t .notify) = .ok s') :
    ∃ n, s.pc t = .retNotify n ∧ s.Notified n ∧ s'.Notified n := by
  have hN := hr.inv.2.1
  have hc := hN.claim t
  cases hpc : s.pc t with
  | retNotify n =>
    rw [hpc] at hc
    exact ⟨n, rfl, hc.1, (NA.step hr.inv.1 hN hs hc).1⟩
  | _ => simp [step, stepRet, hpc] at hs

/-! ### nsync_note_expiry -/

/-- "The path from the note to the root": the ghost list `ancEver n` is `n` followed by the
    path of the `parent` that was passed to the `nsync_note_new` call that created `n` (ghost
    `cparent`, never changed afterwards — in particular not by the re-parenting that
    `nsync_note_free` of an ancestor performs in the real forest).  The statement of the expiry
    clause is about these CREATION-time ancestors. -/
theorem C08_creation_path {s : State} (hr : Reachable s) (n : NoteId)
    (hn : (s.notes n).allocated = true) :
    s.ancEver n = n :: (match s.cparent n with
      | some p => s.ancEver p
      | none => []) := by
  rw [hr.invP.path n hn]
  cases s.cparent n <;> rfl

/-- The ghosts are written by `nsync_note_new` itself: the step that allocates note `k` inside
    `nsync_note_new (par, dl)` records `dl` and `par`, and they never change (`Stable.ghost`,
    `step_cparent`). -/
theorem C08_creation_ghosts {s s' : State} {a : Tid} {k : NoteId} {par : Option NoteId} {dl : Dl}
    (hpc : s.pc a = .newMalloc par dl) (hs : step s (.malloc a (some k)) = .ok s') :
    s'.ownDl k = dl ∧ s'.cparent k = par := by
  simp only [step, hpc, need_ok] at hs
  obtain ⟨_, hs⟩ := hs
  cases hs
  simp

/-- C08, expiry clause, at full strength: in every reachable state, for every note `n` that
    `nsync_note_new` has returned (born notified or not), `n->expiry_time` — the value
    `nsync_note_expiry (n)` returns — is the minimum of the deadlines passed to `nsync_note_new`
    for `n` and for the notes on its creation-time path to the root. -/
theorem C08_expiry_min {s : State} (hr : Reachable s) (n : NoteId) (hp : s.published n = true) :
    (s.notes n).expiry = Dl.minList (s.pathDeadlines n) := by
  obtain ⟨hA, _, _, hX⟩ := hr.inv
  rw [hX.min n hp, hr.invP.min n (hA.published n hp)]

/-- … as seen at the API: the value `v` that a call of `nsync_note_expiry (n)` returns. -/
theorem C08_expiry_min_ret {s s' : State} {t : Tid} {v : Dl} (hr : Reachable s)
    (hs : step s (.ret t (.expiry v)) = .ok s') :
    ∃ n, s.pc t = .retExpiry n ∧ v = Dl.minList (s.pathDeadlines n) := by
  have hc := hr.inv.2.2.2.claim t
  cases hpc : s.pc t with
  | retExpiry n =>
    rw [hpc] at hc
    simp only [step, stepRet, hpc, need_ok] at hs
    exact ⟨n, rfl, hs.1 ▸ C08_expiry_min hr n hc⟩
  | _ => simp [step, stepRet, hpc] at hs

/-- The statement in terms of the ghost `pathMin` (computed incrementally by the model at
    creation; `InvP.min` ties it to `Dl.minList`): the value returned by `nsync_note_expiry (n)` is
    the minimum of the deadlines passed to `nsync_note_new` on the path from `n` to the root at
    creation. -/
def C08_expiry_min_full : Prop :=
  ∀ (s s' : State) (t : Tid) (v : Dl), Reachable s → step s (.ret t (.expiry v)) = .ok s' →
    ∃ n, s.pc t = .retExpiry n ∧ v = s.pathMin n

/-- … holds since the repair of F5 (it was refuted on the old code). -/
theorem C08_expiry_min_full_holds : C08_expiry_min_full := by
  intro s s' t v hr hs
  obtain ⟨n, hpc, hv⟩ := C08_expiry_min_ret hr hs
  have hX := hr.inv.2.2.2
  have hc := hX.claim t
  rw [hpc] at hc
  exact ⟨n, hpc, by rw [hv, ← hr.invP.min n (hr.inv.1.published n hc)]⟩

/-- The former partial statement (hypothesis `¬ bornNotified`), now a corollary. -/
theorem C08_expiry_min_partial {s s' : State} {t : Tid} {v : Dl} (hr : Reachable s)
    (hs : step s (.ret t (.expiry v)) = .ok s') :
    ∃ n, s.pc t = .retExpiry n ∧ (s.bornNotified n = false → v = s.pathMin n) := by
  obtain ⟨n, hpc, hv⟩ := C08_expiry_min_full_holds s s' t v hr hs
  exact ⟨n, hpc, fun _ => hv⟩

theorem f5b_prefix_ok : (run init (Traces.f5bTrace.take 46)).toOption.isSome = true := by decide
theorem f5a_prefix_ok : (run init (Traces.f5aTrace.take 82)).toOption.isSome = true := by decide

/-- Non-vacuity, former F5 (b) (trace recorded from the repaired library): the root is notified
    explicitly, a child with deadline 1100 s is created under it: it is born notified (flag set by
    nsync_note_new, never linked), and `nsync_note_expiry (child)` returns 1100 s — not (0,0). -/
example : ∃ s s' : State, Reachable s ∧
    step s (.ret 0 (.expiry (some 1100000000000))) = .ok s' ∧ s.pc 0 = .retExpiry 1 ∧
    s.bornNotified 1 = true ∧ (s.notes 1).notified = true ∧ (s.notes 1).parent = none ∧
    s.pathDeadlines 1 = [some 1100000000000, none] := by
  have hstep : (step (stateAfter _ f5b_prefix_ok)
      (.ret 0 (.expiry (some 1100000000000)))).toOption.isSome = true := by decide
  obtain ⟨s', hs'⟩ := step_of_isSome hstep
  exact ⟨_, s', reachable_stateAfter _ f5b_prefix_ok, hs', by decide, by decide, by decide,
    by decide, by decide⟩

/-- Non-vacuity, former F5 (a) (trace recorded from the repaired library): the parent's deadline
    (1000 s + 1000 ns) is smaller than the child's own (1000 s + 2000 ns), both already in the past
    when the child is created: the child is born notified and reports the parent's deadline. -/
example : ∃ s s' : State, Reachable s ∧
    step s (.ret 0 (.expiry (some 1000000001000))) = .ok s' ∧ s.pc 0 = .retExpiry 2 ∧
    s.bornNotified 2 = true ∧ (s.notes 2).parent = none ∧
    s.pathDeadlines 2 = [some 1000000002000, some 1000000001000] := by
  have hstep : (step (stateAfter _ f5a_prefix_ok)
      (.ret 0 (.expiry (some 1000000001000)))).toOption.isSome = true := by decide
  obtain ⟨s', hs'⟩ := step_of_isSome hstep
  exact ⟨_, s', reachable_stateAfter _ f5a_prefix_ok, hs', by decide, by decide, by decide,
    by decide⟩

/-! #### What the code did before the repair (defect F5) -/

namespace OldF5

/-- A note as far as `nsync_note_new` reads it: the `notified` flag and `expiry_time`. -/
structure N where
  notified : Bool
  expiry : Dl
  deriving DecidableEq

/-- `NOTIFIED_TIME` -/
def ntime (r : N) : Dl := if r.notified then some 0 else r.expiry

/-- The new note after `set_expiry_time (n, dl); nsync_note_is_notified (n)` at time `now`: the
    flag is set (by `notify`) iff the deadline is non-zero and has passed; the second component
    is the result of `nsync_note_is_notified`. -/
def selfCheck (now : Nat) (dl : Dl) : N × Bool :=
  (⟨decide dl.pos && dl.leNow now, dl⟩, !decide dl.pos || dl.leNow now)

/-- `nsync_note_new (parent, dl)` at time `now` as it was BEFORE the repair (note.c:176-190 of the
    old tree), sequentially: the parent is consulted only if the new note is not notified, and
    what is taken from it is `NOTIFIED_TIME (parent)`, which is zero for a notified parent. -/
def noteNewOld (now : Nat) (parent : Option N) (dl : Dl) : N :=
  let (n, notified) := selfCheck now dl
  match notified, parent with
  | false, some p => if Dl.lt (ntime p) dl then { n with expiry := ntime p } else n
  | _, _ => n

/-- … and after the repair: the minimum with `parent->expiry_time` is always taken, and a note
    created under a notified parent gets the flag. -/
def noteNewFixed (now : Nat) (parent : Option N) (dl : Dl) : N :=
  let (n, notified) := selfCheck now dl
  match parent with
  | none => n
  | some p =>
    let n1 : N := { n with expiry := Dl.min dl p.expiry }
    if !notified && !decide (ntime p).pos then { n1 with notified := true } else n1

end OldF5

/-- Defect F5 as it was (the scenario of /verif/corpus/C08/f5_expiry_born_notified.txt, clock at
    1000 s): (a) a root with deadline 995 s and a child with deadline 997 s, both in the past: the
    old code gave the child the expiry time 997 s (the minimum is 995 s); (b) a root without
    deadline, notified explicitly, and a child with deadline 1100 s: the old code gave the child the
    expiry time (0,0) (the minimum is 1100 s).  The repaired function yields the minimum in both
    cases, and the child is notified in all four. -/
theorem C08_expiry_min_old_code_witness :
    let now := 1000000000000
    let rootA := OldF5.noteNewOld now none (some 995000000000)
    let rootB : OldF5.N := ⟨true, none⟩
    (OldF5.noteNewOld now (some rootA) (some 997000000000)).expiry = some 997000000000 ∧
    (OldF5.noteNewOld now (some rootB) (some 1100000000000)).expiry = some 0 ∧
    (OldF5.noteNewFixed now (some rootA) (some 997000000000)).expiry = some 995000000000 ∧
    (OldF5.noteNewFixed now (some rootB) (some 1100000000000)).expiry = some 1100000000000 ∧
    ¬ (OldF5.ntime (OldF5.noteNewOld now (some rootA) (some 997000000000))).pos ∧
    ¬ (OldF5.ntime (OldF5.noteNewOld now (some rootB) (some 1100000000000))).pos ∧
    ¬ (OldF5.ntime (OldF5.noteNewFixed now (some rootA) (some 997000000000))).pos ∧
    ¬ (OldF5.ntime (OldF5.noteNewFixed now (some rootB) (some 1100000000000))).pos := by
  decide

/-! ### Completeness of delivery -/

/-- C08 ("once no notification of it or of an ancestor is still in progress all its descendants
    are notified"), in EVERY reachable state: a notified note `n` on which no thread has an
    activation of `note_notify_child` past the store of the flag any more has no descendants left
    in the current forest: every descendant was notified and disconnected by that activation (or
    disconnected itself) — also those that `nsync_note_free` handed to `n` while the activation was
    waiting (the repair of F4: the adopter sets `children_adopted`, the activation scans again).
    In particular every descendant is notified.  (An activation on an ancestor of `n` that is still
    in progress has an activation on `n` only while it is inside `n`'s subtree.) -/
theorem C08_complete {s : State} (hr : Reachable s) (n : NoteId)
    (hn : (s.notes n).notified = true) (hq : ∀ t, ¬ Active (s.pc t) n) :
    (s.notes n).children = [] ∧ ∀ d, Anc s n d → d = n ∧ (s.notes d).notified = true := by
  have hch : (s.notes n).children = [] := by
    cases hc : (s.notes n).children with
    | nil => rfl
    | cons c cs =>
      obtain ⟨t, ht⟩ := hr.invJ n hn (by rw [hc]; simp)
      exact absurd ht (hq t)
  refine ⟨hch, ?_⟩
  have hT := hr.invT
  intro d hd
  have : d = n := by
    induction hd with
    | refl => rfl
    | up hp _ ih =>
      have := ih
      subst this
      have := hT.p2c _ _ hp
      rw [hch] at this
      cases this
  exact ⟨this, this ▸ hn⟩

/-- The former partial statement (hypothesis `ReachableH`: no adoption under an already notified
    parent), now a corollary. -/
theorem C08_complete_partial {s : State} (h : ReachableH s) (n : NoteId)
    (hn : (s.notes n).notified = true) (hq : ∀ t, ¬ Active (s.pc t) n) :
    (s.notes n).children = [] ∧ ∀ d, Anc s n d → d = n ∧ (s.notes d).notified = true :=
  C08_complete h.reachable n hn hq

/-- The delivery invariant behind it, in every reachable state: a notified note that still has
    children has a thread with an activation of `note_notify_child` on it, past the store. -/
theorem C08_delivery_in_progress {s : State} (hr : Reachable s) (n : NoteId)
    (hn : (s.notes n).notified = true) (hc : (s.notes n).children ≠ []) :
    ∃ t, Active (s.pc t) n := hr.invJ n hn hc

theorem f4_prefix_ok : (run init Traces.f4Prefix).toOption.isSome = true := by decide
theorem f4_trace_ok : (run init Traces.f4Trace).toOption.isSome = true := by decide

/-- The scenario of the former defect F4 on the repaired library (tree note0 → note1 → note2,
    T0 `nsync_note_notify (note0)` ∥ T1 `nsync_note_free (note1)`, the frozen schedule of
    /verif/corpus/C08/f4_free_vs_notify_ancestor.txt).  After the first 82 events — the state in
    which the unrepaired code was stuck for ever — T1 has returned, T0 is inside
    WAIT_FOR_NO_CHILDREN (note0), note0 is notified and its child note2 (adopted from the freed
    note1) is not; but `note0->children_adopted` is set, so the wait is over (`waitDone`), and T0
    still has its activation on note0 (`Active`).  At the end of the run T0 has scanned again:
    note2 is notified and disconnected, `nsync_note_notify (note0)` has returned. -/
theorem f4_repaired :
    let s1 := stateAfter _ f4_prefix_ok
    let s2 := stateAfter _ f4_trace_ok
    (s1.pc 0 = .chd (.waitRet false) [⟨0, none⟩] ⟨0, none, .ofApi⟩ ∧ s1.pc 1 = .idle ∧
      (s1.notes 0).notified = true ∧ (s1.notes 0).children = [2] ∧
      (s1.notes 2).notified = false ∧ (s1.notes 2).disconnecting = 0 ∧
      (s1.notes 0).adopted = true ∧ (s1.notes 0).waitDone = true) ∧
    (s2.pc 0 = .idle ∧ s2.pc 1 = .idle ∧ (s2.notes 0).children = [] ∧
      (s2.notes 2).notified = true ∧ (s2.notes 2).parent = none ∧
      (s2.notes 0).disconnecting = 0 ∧ (s2.notes 2).disconnecting = 0) := by
  decide

/-- What the UNREPAIRED code did with this schedule (defect F4; the accepted trace of the
    unrepaired library was the former `C08_complete_witness`): exactly the first 82 events, after
    which it had no `children_adopted` to end T0's wait — T0 parked for ever above the un-notified
    note2.  (`f4_repaired` under the name the check uses for documented old behaviour.) -/
theorem C08_complete_old_code_witness :
    let s1 := stateAfter _ f4_prefix_ok
    s1.pc 0 = .chd (.waitRet false) [⟨0, none⟩] ⟨0, none, .ofApi⟩ ∧ s1.pc 1 = .idle ∧
      (s1.notes 0).notified = true ∧ (s1.notes 0).children = [2] ∧
      (s1.notes 2).notified = false ∧ (s1.notes 2).disconnecting = 0 ∧
      (s1.notes 0).adopted = true := by
  decide

/-- While a thread does have such an activation, every note on its stack below the innermost one
    is notified, and the innermost one is once the flag is stored. -/
theorem C08_stack_notified {s : State} (hr : Reachable s) {t : Tid} {pos : CPos} {f : Frame}
    {rest : List Frame} {top : Top} (hpc : s.pc t = .chd pos (f :: rest) top) :
    (∀ g ∈ rest, s.Notified g.note) ∧ (pos.stored = true → s.Notified f.note) := by
  have hc := hr.inv6.2.1.claim t
  rw [hpc] at hc
  exact ⟨fun g hg => (hc.2.2.2.1 g hg).1, hc.2.2.2.2.2.1⟩

/-! ### Ancestors and siblings are unaffected -/

/-- The statement w.r.t. the current tree: a flag is set only for a note that is, at that time, a
    descendant of the note whose `notify` the storing thread is in. -/
def C08_unaffected_full : Prop :=
  ∀ (s s' : State) (e : Event) (k : NoteId), Reachable s → step s e = .ok s' →
    (s.notes k).notified = false → (s'.notes k).notified = true →
    (∃ a pos stk top, e.actor = some a ∧ s.pc a = .chd pos stk top ∧ Anc s top.n k) ∨
    (∃ a p dl, e.actor = some a ∧ s.pc a = .newP .st k p dl ∧ s.published k = false ∧
      s.Notified p)

/-- C08 (proved part): a flag is set only by a thread inside `notify (n)` (reached from
    `nsync_note_notify (n)` or from the expiry of `n`'s deadline), and only for a note `k` that is `n`
    itself or had `n` on its path to the root when it was created.  Ancestors and siblings of `n`
    (which do not have `n` on their creation path, `Lt` being a strict order) are never touched.
    Since the repair of F5 there is a second way: `nsync_note_new` sets the flag of the note `k` it
    is creating — not yet returned to anybody (`published k = false`) — when it finds the intended
    parent `p` notified (note.c/7); no existing note is touched by that either. -/
theorem C08_unaffected_partial {s s' : State} {e : Event} {k : NoteId} (hr : Reachable s)
    (hs : step s e = .ok s') (h0 : (s.notes k).notified = false)
    (h1 : (s'.notes k).notified = true) :
    (∃ a f rest top, e.actor = some a ∧ s.pc a = .chd .st (f :: rest) top ∧ f.note = k ∧
      (k = top.n ∨ Lt s top.n k)) ∨
    (∃ a p dl, e.actor = some a ∧ s.pc a = .newP .st k p dl ∧ s.published k = false ∧
      s.Notified p) := by
  obtain ⟨hA, hN, hS, _, hL, _⟩ := hr.inv6
  rcases step_flag_new hs k h1 with h | ⟨a, f, rest, top, ha, hpc, hf⟩ | ⟨a, p, dl, ha, hpc⟩
  · rw [h0] at h; cases h
  · left
    refine ⟨a, f, rest, top, ha, hpc, hf, ?_⟩
    have hc := hL.claim a
    rw [hpc] at hc
    cases rest with
    | nil =>
      left
      have : f.note = top.n := by simpa using hc.2.2.1
      rw [← hf, this]
    | cons g gs =>
      right
      have hlast := hc.2.2.1
      simp only [List.getLast?_cons_cons] at hlast
      cases hl : (g :: gs).getLast? with
      | none => rw [hl] at hlast; cases hlast
      | some l =>
        rw [hl] at hlast
        have hln : l.note = top.n := by simpa using hlast
        have := LClaim.above_head hL hc l.note
          (List.mem_append_left _ (List.mem_map_of_mem (List.mem_of_getLast? hl)))
        rw [hln, hf] at this
        exact this
  · right
    have hc := hN.claim a
    rw [hpc] at hc
    exact ⟨a, p, dl, ha, hpc, (hA.creating a k (by rw [hpc]; simp)).2, (hc.2 rfl).1⟩

/-- … hence never for a note strictly above `n` (an ancestor, now or ever). -/
theorem C08_ancestors_unaffected {s s' : State} {e : Event} {k : NoteId} (hr : Reachable s)
    (hs : step s e = .ok s') (h0 : (s.notes k).notified = false)
    (h1 : (s'.notes k).notified = true) {a : Tid} {pos : CPos} {stk : List Frame} {top : Top}
    (ha : e.actor = some a) (hpc : s.pc a = .chd pos stk top) : ¬ Lt s k top.n := by
  have hL := hr.inv6.2.2.2.2.1
  rcases C08_unaffected_partial hr hs h0 h1 with ⟨a', f, rest, top', ha', hpc', _, hk⟩ |
    ⟨a', p, dl, ha', hpc', _⟩
  · rw [ha] at ha'; cases ha'
    rw [hpc] at hpc'; cases hpc'
    intro hlt
    rcases hk with hk | hk
    · subst hk; exact hlt.irrefl
    · exact Lt.asymm hL hlt hk
  · rw [ha] at ha'; cases ha'
    rw [hpc] at hpc'; cases hpc'

/-! ### Non-vacuity -/

/-- A 3-level tree notified from the root (accepted trace from the harness): all three flags set,
    the final `nsync_note_is_notified (note2)` returns 1. -/
example : (match run init Traces.treeTrace with
    | .ok s => (s.notes 0).notified && (s.notes 1).notified && (s.notes 2).notified &&
        decide ((s.notes 0).children = []) &&
        decide (s.observed.head?.map (fun o => (o.n, o.res)) = some (2, true))
    | .error _ => false) = true := by decide

/-- A deadline-driven notification performed by a poller: first poll 0, clock passes the deadline,
    second poll 1 and the flag is set by the poller itself. -/
example : (match run init Traces.deadlineTrace with
    | .ok s => (s.notes 0).notified && !(s.notifyCalled 0) &&
        decide (s.observed.map (fun o => (o.n, o.res, o.after)) =
          [(0, true, false), (1, false, false), (0, false, false)])
    | .error _ => false) = true := by decide

end Note
