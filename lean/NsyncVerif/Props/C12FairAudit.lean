/- Axiom audit of every C12Fair theorem (allowed: propext, Classical.choice, Quot.sound). -/
import NsyncVerif.Props.C12Fair

open NsyncVerif.Futex

#print axioms C12_fair_termination
#print axioms C12_fair_P_returns
#print axioms C12_fair_PD_returns
#print axioms C12_fair_V_returns
#print axioms C12_fair_post_arrives
#print axioms PostPending_iff
#print axioms C12_thread_enabled
#print axioms C12_kernel_due_enabled
#print axioms eintr_hyps
#print axioms C12_fair_nonvacuous
#print axioms C12_fair_needs_kernel
#print axioms C12_fair_needs_kernel_timeout
#print axioms C12_fair_needs_post
#print axioms C12_fair_needs_finite_spurious
#print axioms spur_is_spurious
#print axioms C12_fair_needs_bounded_posts
#print axioms C12_fair_V_returns_finite_calls
#print axioms C12_fair_needs_weak
#print axioms eintr_finite_calls
