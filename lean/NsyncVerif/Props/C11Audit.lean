/-
  Props/C11Audit.lean — axioms used by every theorem of C11 and of the nsync_wait_n half of C13.
  Allowed: propext, Classical.choice, Quot.sound.
-/
import NsyncVerif.Props.C11
import NsyncVerif.Props.C13WaitN

open WaitN

#print axioms C11_index_ready
#print axioms C11_index_ready_first
#print axioms C11_timeout
#print axioms C11_short_circuit
#print axioms C11_cleanup
#print axioms C11_cleanup_ret
#print axioms C11_mutex
#print axioms C11_mutex_marks
#print axioms C11_heap_path
#print axioms C11_no_oversleep
#print axioms C11_cleared_accounted
#print axioms C11_no_oversleep_token
#print axioms C11_sleep_deadline
#print axioms sleep_deadline_state
#print axioms C11_cv_unlinked_by_waker
#print axioms C13_record_lifetime
#print axioms C13_owner_access
#print axioms C13_record_lifetime_post
#print axioms C13_owner_returns_after
#print axioms C13_owner_returns_after_stack
-- the invariants behind them
#print axioms linv_of_reachable
#print axioms own_of_reachable
#print axioms tf_of_reachable
#print axioms qinv_of_reachable
#print axioms ulife_of_reachable
#print axioms dui_of_reachable
#print axioms touch_stepThr
#print axioms dies_facts
#print axioms inv_of_run
#print axioms sema_stepThr
#print axioms clr_stepThr
#print axioms bind_stepThr
#print axioms ti_move
