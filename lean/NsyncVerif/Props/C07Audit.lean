/-
  Axiom audit for property C07: every theorem may depend only on
  `propext`, `Classical.choice`, `Quot.sound`.
-/
import NsyncVerif.Props.C07

#print axioms Once.inv_reachable
#print axioms Once.C07_at_most_once
#print axioms Once.C07_runner_is_caller
#print axioms Once.C07_winner_only_by_cas
#print axioms Once.C07_entered_only_by_winner
#print axioms Once.C07_no_early_return
#print axioms Once.C07_exactly_once
#print axioms Once.C07_return_only_when_done
#print axioms Once.C07_word_meaning
#print axioms Once.C07_winner_unique
#print axioms Once.C07_word_step
#print axioms Once.C07_word_monotone
#print axioms Once.C07_done_is_wait_free
#print axioms Once.C07_done_only_path
#print axioms Once.C07_ready_only_ret
#print axioms Once.C07_done_stable
#print axioms Once.C07_no_stuck_state
#print axioms Once.C07_no_stuck_state'
#print axioms Once.C07_wait_exits_when_done
#print axioms Once.C07_progress
#print axioms Once.C07_shared_slot_independent
#print axioms Once.C07_all_hashings
#print axioms Once.C07_lock_discipline
#print axioms Once.C07_spin_never_locks
