/-
  Props/C03Counter.lean — property C03, counter edge: "the decrement that zeroes a counter happens
  before its waiters' return", under the DECLARED memory orders only.

  Setting (Proofs/CounterVC.lean): the Counter acceptor runs in lock-step with the generic
  vector-clock machine of Model/VC.lean.  The machine is fed exactly the atomics on `ctr.value`,
  `ctr.waited`, `nw<k>.waiting` of the log, each with the order it declares (the acceptor rejects an
  event whose order is not the one of the ATM_* macro in counter.c / wait.c; a failed CAS is a relaxed
  load, a successful CAS an RMW with its order).  NO edge is credited to counter_mu (its atomics are
  dropped), to the semaphores, or to the interleaving.  `PReachable p`: p is the product state after
  some accepted trace; `p.m = VC.run VC.St.init (trace.filterMap evVC)` (`C03_counter_machine`).
  Ghosts: `adds` = pre-CAS clocks of the adds whose CAS succeeded (oldest first), `zeroClock` = clock
  of the adding thread just before the latest CAS that took the value from non-zero to 0 (everything
  that thread did before the decrement), `zeroIdx` = position of that add in `adds` (+1).

  RESULT.  On EVERY path by which nsync_counter_wait returns 0 the edge is carried by an acquire
  load of `ctr.value` performed by the waiter itself that observed 0 (`C03_counter_carrier`):
  ready_time before the enqueue (counter.c ATM_LOAD_ACQ in counter_ready_time), the load of
  counter_dequeue (which is executed on every path that went through enqueue, also after a
  wake-up by the semaphore: the waiter re-reads `value` in ready_time and again in dequeue), or the
  final load of nsync_counter_wait.  It synchronises with the release sequence on `value`, which is
  never broken because after creation `value` is written only by ATM_CAS_RELACQ.  The semaphore and
  the STORE_REL on `nw->waiting` are not needed for this edge.  Nothing here is `_partial`.
-/
import NsyncVerif.Proofs.CounterVCAll
import NsyncVerif.Proofs.CounterRet
import NsyncVerif.Props.C10

namespace Counter

open NsyncVerif

/-! ### the product is faithful -/

/-- every accepted trace has a product run, its acceptor component is the acceptor's state, and
    its machine component is `VC.run` over the mapped atomics of the trace -/
theorem C03_counter_machine {s : State} {evs : List Event} (h : run init evs = .ok s) :
    ∃ p, prun pinit evs = .ok p ∧ p.s = s ∧ p.m = VC.run VC.St.init (evs.filterMap evVC) := by
  obtain ⟨p, h1, h2⟩ := prun_total (p := pinit) h
  exact ⟨p, h1, h2, prun_m h1⟩

/-- definition of the ghosts, as a theorem: they change only at the successful CAS of an add
    (`casOf`), which appends the adder's pre-CAS clock to `adds`, and sets `zeroClock` to it iff
    that CAS took the value from non-zero to 0 -/
theorem C03_counter_ghosts {p p' : PState} {e : Event} (h : pstep p e = .ok p') :
    step p.s e = .ok p'.s ∧ p'.m = vstep p.m e
    ∧ (∀ t, casOf p.s e = some t →
          p'.adds = p.adds ++ [p.m.vc t]
          ∧ (p.s.sh.value ≠ 0 ∧ p'.s.sh.value = 0 → p'.zeroClock = p.m.vc t ∧ p'.zeroIdx = p.adds.length + 1)
          ∧ (¬ (p.s.sh.value ≠ 0 ∧ p'.s.sh.value = 0) → p'.zeroClock = p.zeroClock ∧ p'.zeroIdx = p.zeroIdx))
    ∧ (casOf p.s e = none → p'.adds = p.adds ∧ p'.zeroClock = p.zeroClock ∧ p'.zeroIdx = p.zeroIdx) := by
  have hs := pstep_s h
  unfold pstep at h
  split at h
  · cases h
  · cases h
    refine ⟨hs, rfl, ?_, ?_⟩
    · intro t ht
      simp only [ht]
      exact ⟨trivial, fun hc => by simp [hc], fun hc => by simp [hc]⟩
    · intro hn; simp [hn]

/-- `casOf` is exactly "the successful ATM_CAS_RELACQ of an nsync_counter_add": it extends the value
    history by the new value (cf. C10_cas_atomic) -/
theorem C03_counter_casOf {p : PState} {s' : State} {t : Tid} {ev : Ev} (h : PReachable p)
    (hs : step p.s (.thr t ev) = .ok s') :
    (∀ t', casOf p.s (.thr t ev) = some t' → t' = t ∧ ∃ d v x n ob, p.s.pc t = .aCas d v
        ∧ ev = .cas .ar .value x n ob true ∧ x = p.s.sh.value
        ∧ s'.sh.hist = p.s.sh.hist ++ [n] ∧ s'.sh.value = n)
    ∧ (casOf p.s (.thr t ev) = none → s'.sh.hist = p.s.sh.hist ∨ p.s.sh.created = false) := by
  have hi := inv_of_reachable (preachable_s h)
  have hs' : stepThr p.s t ev = .ok s' := hs
  have g := vcfacts_stepThr hi hs'
  have f := facts_stepThr hi hs'
  refine ⟨?_, ?_⟩
  · intro t' ht
    obtain ⟨h1, d, v, x, n, ob, hpc, hev⟩ := casOf_some ht
    obtain ⟨_, h2, h3, h4⟩ := g.cas d v hpc x n ob hev
    exact ⟨h1, d, v, x, n, ob, hpc, hev, h4, h2, h3⟩
  · intro hn
    rcases f.hist with h1 | ⟨d, v, new, h1, h2, _⟩ | ⟨v, _, h1, _⟩
    · exact Or.inl h1.1
    · subst h2; rw [casOf_of h1] at hn; cases hn
    · exact Or.inr h1

/-! ### the release sequence on `value` -/

/-- After creation every write to `value` is an acq_rel RMW by an add; the only plain store is the
    initialising relaxed store of nsync_counter_new, before any add. -/
theorem C03_counter_value_writes {p : PState} {s' : State} {t : Tid} {ev : Ev} (h : PReachable p)
    (hs : step p.s (.thr t ev) = .ok s') :
    (∀ o n ob, ev = .st o .value n ob → p.s.sh.created = false ∧ p.adds = [])
    ∧ (∀ o x n ob, ev = .cas o .value x n ob true → o = .ar ∧ casOf p.s (.thr t ev) = some t) := by
  have hi := inv_of_reachable (preachable_s h)
  have hs' : stepThr p.s t ev = .ok s' := hs
  have g := vcfacts_stepThr hi hs'
  refine ⟨?_, ?_⟩
  · intro o n ob he
    have hc := g.stv o n ob he
    exact ⟨hc, ((vinv_of_preachable h).nil hc).1⟩
  · intro o x n ob he
    obtain ⟨h1, d, v, h2⟩ := g.rmwv o x n ob he
    subst h1 he
    exact ⟨rfl, casOf_of h2⟩

/-- ADDS CHAIN.  The release clock of `value` dominates the pre-CAS clock of every add whose CAS
    has succeeded so far (hence, in particular, `zeroClock`); `adds[i]` is the add that produced
    `hist[i+1]`. -/
theorem C03_counter_adds_chain {p : PState} (h : PReachable p) :
    (∀ c, c ∈ p.adds → VC.Clock.le c (p.m.relc .value))
    ∧ VC.Clock.le p.zeroClock (p.m.relc .value)
    ∧ (p.s.sh.created = true → p.s.sh.hist.length = p.adds.length + 1)
    ∧ ((p.zeroIdx = 0 ∧ p.zeroClock = VC.Clock.bot) ∨ ∃ i, p.zeroIdx = i + 1 ∧ p.adds[i]? = some p.zeroClock) :=
  let hv := vinv_of_preachable h
  ⟨hv.chain, hv.zc, hv.len, hv.zi⟩

/-! ### the edge -/

/-- C03 (counter): whenever `ret nsync_counter_wait 0` by thread t is accepted, everything the
    zeroing thread did before its decrement (`zeroClock`) — and everything every adder up to and
    including it did before its own CAS — happens before t's return. -/
theorem C03_counter {p p' : PState} {t : Tid} (h : PReachable p)
    (hs : pstep p (.thr t (.retWait 0)) = .ok p') :
    VC.Clock.le p'.zeroClock (p'.m.vc t)
    ∧ (∀ (j : Nat) (c : VC.Clock), j < p'.zeroIdx → p'.adds[j]? = some c → VC.Clock.le c (p'.m.vc t))
    ∧ p'.zeroClock = p.zeroClock ∧ p'.m = p.m ∧ p.s.sh.value = 0 := by
  have hv := vinv_of_preachable h
  obtain ⟨hs1, hm, _, hn⟩ := C03_counter_ghosts hs
  obtain ⟨h1, h2, h3⟩ := hn rfl
  have hm' : p'.m = p.m := hm
  obtain ⟨dl, hpc⟩ := retWait_pc (s := p.s) (t := t) hs1
  obtain ⟨g1, g2, _, g4⟩ := hv.seen t (by rw [hpc]; rfl)
  rw [h1, h2, h3, hm']
  exact ⟨g1, g4, rfl, rfl, g2⟩

/-- CARRIER of the edge: a thread gets to a program point from which it returns 0 (`seenZero`:
    `wRet _ 0`, or inside counter_dequeue after its load of `value` gave 0) only by its OWN acquire
    load of `ctr.value` observing 0, and `ret nsync_counter_wait 0` is accepted only there. -/
theorem C03_counter_carrier {p : PState} {s' : State} {t : Tid} {ev : Ev} (h : PReachable p)
    (hs : step p.s (.thr t ev) = .ok s') :
    (seenZero (s'.pc t) = true → seenZero (p.s.pc t) = true ∨ ev = .ld .acq .value 0)
    ∧ (ev = .retWait 0 → seenZero (p.s.pc t) = true) := by
  have hi := inv_of_reachable (preachable_s h)
  have hs' : stepThr p.s t ev = .ok s' := hs
  have g := vcfacts_stepThr hi hs'
  refine ⟨?_, ?_⟩
  · intro hu
    rcases g.seen hu with h1 | ⟨obs, h1, h2, _⟩
    · exact Or.inl h1
    · subst h2; exact Or.inr h1
  · intro he; subst he
    obtain ⟨dl, hpc⟩ := retWait_pc hs'
    rw [hpc]; rfl

/-- semaphore events, lock events and API events are invisible to the machine (no edge) -/
theorem C03_counter_no_other_edges (m : VC.St Loc) (t : Tid) (j : SemId) (d : Deadline) (b : Bool) (k : MuId) :
    vstep m (.thr t (.semV j)) = m ∧ vstep m (.thr t (.pdEnter j d)) = m
    ∧ vstep m (.thr t (.pdRet j b)) = m ∧ vstep m (.thr t (.callLock k)) = m
    ∧ vstep m (.thr t .retLock) = m ∧ vstep m (.thr t (.callUnlock k)) = m
    ∧ vstep m (.thr t .retUnlock) = m ∧ vstep m (.thr t .other) = m :=
  ⟨rfl, rfl, rfl, rfl, rfl, rfl, rfl, rfl⟩

/-! ### values returned by nsync_counter_value / nsync_counter_add -/

/-- `ret nsync_counter_value v` returns the result of an acquire load: v = hist[n] for some n, and
    the pre-CAS clocks of the add that produced it (`adds[n-1]`) and of all earlier adds are ≤ the
    reader's clock. -/
theorem C03_counter_value {p p' : PState} {t : Tid} {v : Nat} (h : PReachable p)
    (hs : pstep p (.thr t (.retValue v)) = .ok p') :
    ∃ n, p.s.sh.hist[n]? = some v ∧ ∀ (j : Nat) (c : VC.Clock), j < n → p.adds[j]? = some c → VC.Clock.le c (p.m.vc t) := by
  have hv := vinv_of_preachable h
  have hpc := retValue_pc (s := p.s) (t := t) (pstep_s hs)
  exact hv.val t v (by rw [hpc]; rfl)

/-- `ret nsync_counter_add r`: r = hist[n]; for delta ≠ 0 it is the value the caller's own
    acq_rel CAS produced, and that CAS imported the clocks of all earlier adds (and the caller's own
    pre-CAS clock); for delta = 0 as for nsync_counter_value. -/
theorem C03_counter_add {p p' : PState} {t : Tid} {r : Nat} (h : PReachable p)
    (hs : pstep p (.thr t (.retAdd r)) = .ok p') :
    ∃ n, p.s.sh.hist[n]? = some r ∧ ∀ (j : Nat) (c : VC.Clock), j < n → p.adds[j]? = some c → VC.Clock.le c (p.m.vc t) := by
  have hv := vinv_of_preachable h
  have hi := inv_of_reachable (preachable_s h)
  rcases retAdd_pc (s := p.s) (t := t) (pstep_s hs) with hpc | ⟨d, idx, hpc⟩
  · exact hv.val t r (by rw [hpc]; rfl)
  · have hp := hi.pcs t
    rw [hpc] at hp
    exact ⟨idx, hp.2.1, hv.idx t idx (by rw [hpc]; rfl)⟩

/-! ### non-vacuity and negative control -/

namespace ExampleVC

open Counter.Example

/-- the trace of Props/C10 (two adders, a waiter that sleeps and is woken at zero) in the product:
    accepted, zeroClock is thread 1's pre-CAS clock (non-trivial: component 1 is ≥ 1) -/
example : (match prun pinit twoAddersAndWaiter with
    | .ok p => decide (p.zeroIdx = 2 ∧ p.adds.length = 2 ∧ 1 ≤ p.zeroClock 1 ∧ p.zeroClock 1 ≤ p.m.vc 2 1
                        ∧ p.zeroClock 0 ≤ p.m.vc 2 0 ∧ 1 ≤ p.zeroClock 0)
    | .error _ => false) = true := by decide

/-- the acceptor insists on the declared orders the proof uses: a log in which ready_time's load of
    `value` is relaxed, or the add's CAS is acquire-only, is rejected -/
example : accepts (new 0 1 ++ [.thr 1 (.callWait none), .thr 1 (.st .rlx .waited 1 0),
    .thr 1 (.ld .rlx .value 1)]) = false := by decide
example : accepts (new 0 1 ++ [.thr 0 (.callAdd (-1))] ++ lock 0
    ++ [.thr 0 (.ld .rlx .value 1), .thr 0 (.cas .acq .value 1 0 1 true)]) = false := by decide

/-- machine-level positive control: T1 `CAS_RELACQ value`, then T2 `LOAD_ACQ value` -/
example : VC.Clock.le ((VC.St.init (Loc := Loc)).vc 1)
    ((VC.run VC.St.init [⟨1, .rmw, .ar, Loc.value⟩, ⟨2, .ld, .acq, Loc.value⟩]).vc 2) := by
  intro i
  by_cases h : i = 1
  · subst h; decide
  · simp [VC.St.init, h]

/-- NEGATIVE CONTROL: with the add's CAS demoted to acquire-only (no release) the chain lemma fails:
    after T1's CAS the release clock of `value` does not dominate T1's pre-CAS clock … -/
example : ¬ VC.Clock.le ((VC.St.init (Loc := Loc)).vc 1)
    ((VC.step VC.St.init ⟨1, .rmw, .acq, Loc.value⟩).relc Loc.value) := by
  intro h; exact absurd (h 1) (by decide)

/-- … and a later acquire load of `value` by T2 does not make T1's decrement happen-before T2. -/
example : ¬ VC.Clock.le ((VC.St.init (Loc := Loc)).vc 1)
    ((VC.run VC.St.init [⟨1, .rmw, .acq, Loc.value⟩, ⟨2, .ld, .acq, Loc.value⟩]).vc 2) := by
  intro h; exact absurd (h 1) (by decide)

/-- likewise if the waiter's load were relaxed -/
example : ¬ VC.Clock.le ((VC.St.init (Loc := Loc)).vc 1)
    ((VC.run VC.St.init [⟨1, .rmw, .ar, Loc.value⟩, ⟨2, .ld, .rlx, Loc.value⟩]).vc 2) := by
  intro h; exact absurd (h 1) (by decide)

end ExampleVC

end Counter
