/-
  Property C04 — condition-variable wake-ups are never lost and never swallowed by a timeout.

  "Condition-variable wake-ups are never lost and never swallowed by a timeout.  A thread that
   started waiting on an nsync_cv before a wake-up is issued is covered by it: nsync_cv_broadcast
   wakes every such thread, nsync_cv_signal wakes at least one, and if the thread signal picks
   holds the mutex as a reader, all waiting readers are woken.  Releasing the mutex and starting to
   wait is atomic with respect to wakers that hold the mutex, and a wait that consumes a wake-up
   reports it as a wake-up (0, or the object's index from nsync_wait_n), never as a timeout or
   cancellation."

  Model: `NsyncVerif/Model/Cv.lean` — acceptor for /repo/internal/cv.c (all of it), the cv half of
  sem_wait.c and the way wait.c drives cv_enqueue / cv_ready_time / cv_dequeue, ONE condition
  variable, one atomic operation / semaphore operation / API boundary per step.  Every theorem
  quantifies over all reachable states: any number of threads and records, all interleavings of
  waiters (plain, timed, cancellable, reader-mode, generic-lock, nsync_wait_n) with signallers and
  broadcasters inside or after the critical section, deadlines expiring anywhere, both semaphore
  flavours (`cfg` arbitrary).  The invariants behind them: `Proofs/CvInvA*.lean` (spinlock, queue,
  private lists, ownership) and `Proofs/CvInvB*.lean` (remove_count handshake, `waiting` flags,
  unlinkers, outcome); `inv_reachable : Reachable cfg s → Inv s`.

  STATUS
  proved in full
    `C04_queue_inv`        CV_NON_EMPTY ↔ queue ≠ [] when the spinlock is free; no duplicates;
                           every queued record has `waiting = 1`
    `C04_wait_atomic`      enqueue happens before the release of the mutex
    `C04_signal`           signal unlinks the first waiter, and if it is a reader all readers
                           plus at most one other record
    `C04_broadcast`        when a broadcast returns, every instance published before its first load
                           of the cv word is out of the queue and off the broadcaster's list
                           (invariant `Proofs/CvInvD*.lean` on the ghost sequence numbers);
                           `C04_broadcast_unlinks_all`: how — the acquisition unlinks the whole queue
    `C04_no_lost_wake`     a record unlinked by a waker and not transferred is on that waker's list
                           with the waker in flight, or woken: `waiting = 0` and posted, or the waker
                           is at the V for this instance (invariant `Proofs/CvInvE*.lean`)
    `C04_remove_count_handshake`  the timeout path removes the record only if it is still queued
                           (cv.c:259-260 never mis-fires: ghost flag `bad` is never set)
  proved for pooled waiters (`Rid.w`, i.e. every nsync_cv_wait*): `_partial`; FALSE for nsync_wait_n
    `C04_unlink_once_partial`  + `C04_unlink_once_full` (def) + `C04_unlink_once_nw_witness`,
                           `C04_unlink_once_full_false`: DEFECT F3 — `cv_dequeue` (cv.c:471-487)
                           decides "still queued" from `waiting != 0` alone, but a waker unlinks under
                           the spinlock and clears `waiting` only after dropping it; a wait_n that ends
                           by deadline in that window removes a record that is on the waker's private
                           list: the instance is unlinked twice, the wake-up is swallowed (wait_n
                           reports "nothing ready"), and the waker goes on to write `waiting := 0` into
                           a record whose owner may have returned (see Props/C13Cv.lean).  The witness
                           is an accepted trace of the model and a replayable harness schedule
                           (/verif/corpus/C04/f3_waitn_cv.txt, oracle `dead-object`).
    `C04_outcome_partial`  a cv wait returns non-zero only if the instance unlinked itself; an
                           instance unlinked by a waker returns 0.  (Covers every nsync_cv_wait*;
                           the index returned by nsync_wait_n spans several objects and is not
                           modelled in this single-cv layer — and for its cv objects the claim is
                           false, F3.)
  not in this layer
    the release mark of nsync_wait_n (it unlocks through a function pointer that the harness does
    not log as a nested call): `C04_wait_atomic` is stated for nsync_cv_wait*; for wait_n the order
    "cv_enqueue of every object, then unlock" is enforced by the acceptor only as program order of
    the atomics (cv.c/30-31 before the first cv.c/29).
-/
import NsyncVerif.Proofs.CvInvEAll

namespace NsyncVerif.Cv

/-! ### C04_queue_inv -/

/-- When the cv spinlock is free, CV_NON_EMPTY says exactly whether the queue is non-empty; the
    queue never contains a record twice; every queued record has `waiting = 1`. -/
theorem C04_queue_inv {cfg : Config} {s : State} (h : Reachable cfg s) :
    (s.word.spin = false → (s.word.ne = true ↔ s.queue ≠ [])) ∧ s.queue.Nodup ∧
    (∀ r, r ∈ s.queue → (s.recs r).waiting = true) ∧
    (∀ r, r ∈ s.queue ↔ (s.recs r).stat = .queued) := by
  have hi := (inv_reachable h).a
  refine ⟨?_, hi.qNd, fun r hr => hi.qWait r ((hi.qMem r).mp hr), hi.qMem⟩
  intro hsp
  apply hi.free
  have := hi.spin; rw [hsp] at this
  cases hh : s.holder with
  | none => rfl
  | some v => rw [hh] at this; simp at this

/-- The spinlock is a lock: the spin bit is set iff some thread is inside a critical section, and
    at most one thread is. -/
theorem C04_spinlock_excl {cfg : Config} {s : State} (h : Reachable cfg s) {t u : Tid}
    (ht : (s.thr t).loc.holds = true) (hu : (s.thr u).loc.holds = true) : u = t ∧ s.word.spin = true := by
  have hi := (inv_reachable h).a
  refine ⟨hi.holder_unique ht hu, ?_⟩
  have := hi.spin; rw [(hi.hold t).mpr ht] at this; simpa using this

/-! ### C04_wait_atomic -/

/-- When a waiter starts releasing the mutex (cv.c:235-239) its record is already in the queue of
    the cv — or a waker that found it there has already unlinked it (it is on that waker's list,
    or transferred to the mutex queue, or woken).  The enqueue happens before the release. -/
theorem C04_wait_atomic {cfg : Config} {s s' : State} {t : Tid} {op : MuOp} (h : Reachable cfg s)
    (hs : step cfg s (.relMark t op) = .ok s') :
    (s.recs (s.thr t).r).owner = t ∧
    ((s.thr t).r ∈ s.queue ∨ (∃ u, (s.thr t).r ∈ (s.thr u).list) ∨
     (s.recs (s.thr t).r).stat = .xfer ∨ (s.recs (s.thr t).r).stat = .woken) := by
  have hl := relMark_accepted hs
  have hi := inv_reachable h
  obtain ⟨ho, _, hlv⟩ := (hi.a.thr t).live (by simp [waitLive, hl])
  refine ⟨ho, ?_⟩
  cases hst : (s.recs (s.thr t).r).stat with
  | idle => rw [hst] at hlv; simp [RStat.live] at hlv
  | prep => rw [hst] at hlv; simp [RStat.live] at hlv
  | queued => exact .inl ((hi.a.qMem _).mpr hst)
  | listed u => exact .inr (.inl ⟨u, (hi.a.lMem u _).mpr hst⟩)
  | xfer => exact .inr (.inr (.inl rfl))
  | woken => exact .inr (.inr (.inr rfl))
  | selfOut =>
    have := (hi.b.thr t).soLoc (by simp [waitLive, hl]) hst
    rw [hl] at this; simp at this

/-! ### C04_unlink_once -/

/-- Every instance of a wait that uses a pooled waiter (all nsync_cv_wait* calls) is unlinked at
    most once: by a waker or by itself, never both, never twice. -/
theorem C04_unlink_once_partial {cfg : Config} {s : State} (h : Reachable cfg s) (r : Rid)
    (hk : r.isMucv = true) : (s.recs r).unl.length ≤ 1 :=
  (inv_reachable h).b.unl1 r hk

/-- The same for every kind of record, including the `nsync_waiter_s` of nsync_wait_n. -/
def C04_unlink_once_full : Prop :=
  ∀ (cfg : Config) (s : State) (r : Rid), Reachable cfg s → (s.recs r).unl.length ≤ 1

/-- The remove_count comparison of the timeout path (cv.c:259-260) succeeds only if the record is
    still in the queue and nobody has unlinked it: the path never removes a record that a waker has
    already taken. -/
theorem C04_remove_count_handshake {cfg : Config} {s s' : State} {t : Tid} {r : Rid} {obs : Nat}
    (h : Reachable cfg s) (hs : step cfg s (.recLd t .wCmp r obs) = .ok s')
    (he : obs = (s.thr t).saved) : r ∈ s.queue ∧ (s.recs r).unl = [] := by
  have hi := inv_reachable h
  obtain ⟨hl, hr, ho⟩ := wCmp_accepted hs
  have hq := (invB_wCmpEq hi.b hi.a t r obs hl hr ho he).1
  exact ⟨(hi.a.qMem r).mpr hq, hi.b.unlQ r (.inl hq)⟩

/-- DEFECT F3, as an accepted trace of the model (counting semaphores): thread 0 waits with
    nsync_wait_n on the cv with deadline 200; thread 1 broadcasts, unlinks the record `nw0` under the
    spinlock and releases it; the deadline expires; thread 0's `cv_dequeue` still finds
    `waiting = 1` and "removes" the record — which is on thread 1's private list. -/
def f3Trace : List Event := [
  .tick 100, .callWaitN 0, .nwInit 0 (.nw 0),
  .wordLd 0 .spin0 0, .wordCas 0 0 1 0 true, .recSt 0 .enqSt (.nw 0) 1 0, .wordSt 0 .enqRel 2 1,
  .recLd 0 .ready (.nw 0) 1, .semPdEnter 0 0 (some 200),
  .callBroadcast 1, .wordLd 1 .bcLd 2, .wordLd 1 .spin0 2, .wordCas 1 2 3 2 true, .wordSt 1 .bcRel 0 3,
  .tick 200, .semPdRet 0 0 true,
  .wordLd 0 .spin0 0, .wordCas 0 0 1 0 true, .recLd 0 .deqLd (.nw 0) 1]

theorem C04_unlink_once_nw_witness :
    ∃ evs s, run ⟨false⟩ init evs = .ok s ∧ (s.recs (.nw 0)).unl = [Unl.waker 1, Unl.self] ∧ s.f3 = true :=
  ⟨f3Trace, runD ⟨false⟩ f3Trace, run_runD (by decide), by decide, by decide⟩

theorem C04_unlink_once_full_false : ¬ C04_unlink_once_full := by
  intro h
  have := h ⟨false⟩ (runD ⟨false⟩ f3Trace) (.nw 0) (reachable_runD (by decide))
  revert this
  decide


/-! ### C04_outcome -/

/-- A cv wait returns non-zero only if its instance unlinked ITSELF (timeout / cancel path,
    cv.c:259-276), and an instance unlinked by a waker returns 0.  `exitUnl` is the list of
    unlinkers of the instance, frozen when the wait loop is left. -/
theorem C04_outcome_partial {cfg : Config} {s s' : State} {t : Tid} {res : Outcome} (h : Reachable cfg s)
    (hs : step cfg s (.retWait t res) = .ok s') :
    (res ≠ .ok → (s.thr t).exitUnl = [Unl.self]) ∧
    (∀ u, Unl.waker u ∈ (s.thr t).exitUnl → res = .ok) := by
  obtain ⟨hl, hr⟩ := retWait_accepted hs
  have hb := (inv_reachable h).b.thr t
  have key : res ≠ .ok → (s.thr t).exitUnl = [Unl.self] := by
    intro hne
    exact hb.outE (by rcases hl with hl | hl <;> simp [hl, Loc.afterLoop]) (by rw [← hr]; exact hne)
  refine ⟨key, ?_⟩
  intro u hu
  cases hres : res with
  | ok => rfl
  | timedOut => have := key (by rw [hres]; simp); rw [this] at hu; simp at hu
  | cancelled => have := key (by rw [hres]; simp); rw [this] at hu; simp at hu

/-- `exitUnl` is what the record said when the loop was left. -/
theorem C04_exitUnl_is_unl {cfg : Config} {s s' : State} {t : Tid} {r : Rid}
    (hs : step cfg s (.recLd t .wHead r 0) = .ok s') :
    (s'.thr t).exitUnl = (s.recs r).unl ∧ (s.recs r).unl = (s'.recs r).unl := by
  obtain ⟨_, _, _, _, h5, _, _⟩ := wHead_exit_accepted hs
  refine ⟨h5, ?_⟩
  simp only [step] at hs
  unfold stepRecLd at hs
  split at hs
  · cases hs
  · rename_i y hy
    dsimp only at hs
    split at hs <;> try contradiction
    simp only [need_ok] at hs
    obtain ⟨_, _, hs⟩ := hs
    simp only [if_true] at hs
    cases hs
    simp

/-! ### C04_signal -/

/-- When nsync_cv_signal takes the spinlock with a non-empty queue it unlinks the first waiter;
    if that one is a reader-mode waiter of an nsync_mu it unlinks every reader-mode waiter in the
    queue; among the records it unlinks at most one is not such a reader; and it unlinks nothing
    else (`sigSelect` is the exact set, in queue order: it becomes the private `to_wake_list`). -/
theorem C04_signal {cfg : Config} {s s' : State} {t : Tid} {exp new obs : Nat} {f : Rid} {rest : List Rid}
    (hs : step cfg s (.wordCas t exp new obs true) = .ok s') (hc : (s.thr t).cont = .sig)
    (hb : (s.thr t).bcast = false) (hq : s.queue = f :: rest) :
    (s'.recs f).stat = .listed t ∧
    (isReader s.recs f = true → ∀ r, r ∈ s.queue → isReader s.recs r = true → (s'.recs r).stat = .listed t) ∧
    (((s'.thr t).list.filter (fun r => !isReader s.recs r)).length ≤ 1) ∧
    (s'.thr t).list = sigSelect s.recs s.queue ∧
    (∀ r, r ∈ (s'.thr t).list → (s'.recs r).stat = .listed t ∧ Unl.waker t ∈ (s'.recs r).unl) ∧
    (∀ r, r ∉ (s'.thr t).list → s'.recs r = s.recs r) := by
  obtain ⟨_, _, hrec, hlist⟩ := acq_sig_state hs hc
  simp only [hb, Bool.false_eq_true, if_false] at hrec hlist
  have hsel : ∀ r, r ∈ sigSelect s.recs s.queue → (s'.recs r).stat = .listed t ∧ Unl.waker t ∈ (s'.recs r).unl := by
    intro r hr; rw [hrec r]; simp [hr]
  refine ⟨?_, ?_, ?_, hlist, ?_, ?_⟩
  · exact (hsel f (by rw [hq]; exact sigSelect_head _ _ _)).1
  · intro hf r hr hrd
    exact (hsel r (by rw [hq] at hr ⊢; exact sigSelect_readers _ _ _ hf r hr hrd)).1
  · rw [hlist]; exact sigSelect_nonreaders _ _
  · intro r hr; rw [hlist] at hr; exact hsel r hr
  · intro r hr; rw [hlist] at hr; rw [hrec r]; simp [hr]

/-! ### C04_broadcast -/

/-- When a broadcast call returns, every instance whose enqueue was published (cv spinlock released
    after the append: "started waiting") before the call's first load of the cv word has been
    unlinked — it is no longer in the queue — and none is left on the broadcaster's own list: each
    record the broadcaster unlinked has been woken (`waiting := 0`, then V) or transferred to the
    mutex queue; a record unlinked by somebody else is that waker's business (`C04_no_lost_wake`),
    or it unlinked itself (timeout).  `enqSeq` / `seq0` are the ghost sequence numbers at the
    publication / at the first load. -/
theorem C04_broadcast {cfg : Config} {s s' : State} {t : Tid} (h : Reachable cfg s)
    (hs : step cfg s (.retBroadcast t) = .ok s') (r : Rid) (hp : (s.recs r).pub = true)
    (hseq : (s.recs r).enqSeq < (s.thr t).seq0) :
    r ∉ s.queue ∧ (s.recs r).stat ≠ .queued ∧ (s.recs r).stat ≠ .listed t ∧ r ∉ (s.thr t).list := by
  obtain ⟨hl, hb⟩ := retBroadcast_accepted hs
  have hi := (inv_reachable h).a
  have hd := invD_reachable h
  have hnq : r ∉ s.queue := by
    intro hm
    have := hd.done t (by simp [bcastDone, hl, hb]) r hm hp
    omega
  have hlist := (hi.thr t).list0 (by simp [hl, Loc.wakePhase])
  refine ⟨hnq, fun e => hnq ((hi.qMem r).mpr e), ?_, by rw [hlist]; simp⟩
  intro e
  have := (hi.lMem t r).mpr e
  rw [hlist] at this; simp at this

/-- How it does it.  (1) At its spinlock acquisition nsync_cv_broadcast unlinks EVERY record
    of the queue (all get status `listed t` and the broadcaster among their unlinkers), the queue
    is left empty and the private list is the old queue.  (2) When the call returns, no record is
    left on its list: each record it unlinked has been woken (`waiting := 0` stored, then V) or
    transferred to the mutex queue. -/
theorem C04_broadcast_unlinks_all {cfg : Config} :
    (∀ (s s' : State) (t : Tid) (exp new obs : Nat), Reachable cfg s →
      step cfg s (.wordCas t exp new obs true) = .ok s' → (s.thr t).cont = .sig → (s.thr t).bcast = true →
        s'.queue = [] ∧ (s'.thr t).list = s.queue ∧
        ∀ r, r ∈ s.queue → (s'.recs r).stat = .listed t ∧ Unl.waker t ∈ (s'.recs r).unl) ∧
    (∀ (s s' : State) (t : Tid), Reachable cfg s → step cfg s (.retBroadcast t) = .ok s' →
        (s.thr t).list = [] ∧ ∀ r, (s.recs r).stat ≠ .listed t) := by
  constructor
  · intro s s' t exp new obs _ hs hc hb
    obtain ⟨_, hqueue, hrec, hlist⟩ := acq_sig_state hs hc
    simp only [hb, if_true] at hqueue hrec hlist
    refine ⟨by rw [hqueue, filter_not_contains_self], hlist, ?_⟩
    intro r hr; rw [hrec r]; simp [hr]
  · intro s s' t h hs
    obtain ⟨hl, _⟩ := retBroadcast_accepted hs
    have hi := (inv_reachable h).a
    have hlist := (hi.thr t).list0 (by simp [hl, Loc.wakePhase])
    refine ⟨hlist, ?_⟩
    intro r e
    have := (hi.lMem t r).mpr e
    rw [hlist] at this; simp at this

/-! ### C04_no_lost_wake -/

/-- Invariant form of "the wake-up is never lost".  A record that a waker has unlinked and not
    transferred is
      * either still on that waker's private list, and the waker is inside its wake-up phase
        (between the unlink and its last V: the acceptor leaves that phase only through
        `waiting := 0` + V, or the transfer, for every record of the list) — and if it is a pooled
        record it still has `waiting = 1`, so its owner has not left;
      * or woken: `waiting = 0` has been stored and the semaphore has been posted, or the waker is
        at the V for exactly this instance (`cur`). -/
theorem C04_no_lost_wake {cfg : Config} {s : State} (h : Reachable cfg s) (r : Rid) :
    (∀ u, (s.recs r).stat = .listed u → r ∈ (s.thr u).list ∧ (s.thr u).loc.wakePhase = true) ∧
    (∀ u, (s.recs r).stat = .listed u → r.isMucv = true → (s.recs r).waiting = true) ∧
    ((s.recs r).stat = .woken → (s.recs r).waiting = false ∧
      ((s.recs r).posted = true ∨ ∃ u, (s.thr u).cur = some (r, (s.recs r).enqSeq) ∧ (s.thr u).loc = .wwV)) := by
  have hi := inv_reachable h
  refine ⟨?_, fun u hu hk => hi.b.lWait r u hu (.inl hk),
    fun hw => ⟨hi.b.wokenW r hw, (invE_reachable h).woken r hw⟩⟩
  intro u hu
  have hm := (hi.a.lMem u r).mpr hu
  refine ⟨hm, ?_⟩
  cases hw : (s.thr u).loc.wakePhase
  · have := (hi.a.thr u).list0 hw; rw [this] at hm; simp at hm
  · rfl

/-! ### non-vacuity: accepted concrete traces -/

/-- one writer-mode waiter (thread 0, record w0), one broadcaster (thread 1) -/
def exBroadcast : List Event := [
  .tick 100, .callWait 0 false none false, .wInit 0 (.w 0), .recSt 0 .wSt1 (.w 0) 1 0, .muLd 0 .wMode 1,
  .wordLd 0 .spin0 0, .wordCas 0 0 3 0 true, .recLd 0 .wRc (.w 0) 0, .wordSt 0 .waitRel 2 3,
  .relMark 0 .wr, .nret 0, .recLd 0 .wHead (.w 0) 1, .semPdEnter 0 0 none,
  .callBroadcast 1, .wordLd 1 .bcLd 2, .wordLd 1 .spin0 2, .wordCas 1 2 3 2 true,
  .recLd 1 .bRcLd (.w 0) 0, .recCas 1 .bRcCas (.w 0) 0 1 0 true, .wordSt 1 .bcRel 0 3,
  .muLd 1 .wwLd 0, .recSt 1 .wake (.w 0) 0 1, .semV 1 0, .retBroadcast 1,
  .semPdRet 0 0 false, .recLd 0 .wTail (.w 0) 0, .recLd 0 .wHead (.w 0) 0, .lockMark 0 .wr, .nret 0,
  .retWait 0 .ok]

example : okRun ⟨false⟩ exBroadcast = true := by decide
example : okRun ⟨true⟩ exBroadcast = true := by decide
example : ((runD ⟨false⟩ exBroadcast).recs (.w 0)).unl = [Unl.waker 1] := by decide
/-- the hypotheses of `C04_wait_atomic` are satisfiable: after the first 9 events the release mark is accepted -/
example : okRun ⟨false⟩ (exBroadcast.take 10) = true ∧
    ((runD ⟨false⟩ (exBroadcast.take 9)).queue = [.w 0]) := by decide

/-- the hypotheses of `C04_broadcast` are satisfiable: before the `ret` of the broadcast the record is
    published with a sequence number below the broadcast's first load, and it has been woken and posted -/
example : okRun ⟨false⟩ (exBroadcast.take 24) = true ∧
    ((runD ⟨false⟩ (exBroadcast.take 23)).recs (.w 0)).pub = true ∧
    ((runD ⟨false⟩ (exBroadcast.take 23)).recs (.w 0)).enqSeq < ((runD ⟨false⟩ (exBroadcast.take 23)).thr 1).seq0 ∧
    ((runD ⟨false⟩ (exBroadcast.take 23)).recs (.w 0)).stat = .woken ∧
    ((runD ⟨false⟩ (exBroadcast.take 23)).recs (.w 0)).posted = true := by decide

/-- timed waiter whose deadline (150) races a signal: the signaller unlinks first, the semaphore
    wait times out, the remove_count comparison fails, the wait spins until woken and returns 0 -/
def exTimedSignalWins : List Event := [
  .tick 100, .callWait 0 false (some 150) false, .recSt 0 .wSt1 (.w 0) 1 0, .muLd 0 .wMode 1,
  .wordLd 0 .spin0 0, .wordCas 0 0 3 0 true, .recLd 0 .wRc (.w 0) 0, .wordSt 0 .waitRel 2 3,
  .relMark 0 .wr, .nret 0, .recLd 0 .wHead (.w 0) 1, .semPdEnter 0 0 (some 150), .tick 150,
  .callSignal 1, .wordLd 1 .sigLd 2, .wordLd 1 .spin0 2, .wordCas 1 2 3 2 true,
  .recLd 1 (.sRcLd true) (.w 0) 0, .recCas 1 (.sRcCas true) (.w 0) 0 1 0 true, .wordSt 1 .sigRel 0 3,
  .semPdRet 0 0 true, .recLd 0 .wChk (.w 0) 1, .wordLd 0 .spin0 0, .wordCas 0 0 1 0 true,
  .recLd 0 .wChk2 (.w 0) 1, .recLd 0 .wCmp (.w 0) 1, .wordSt 0 .waitRel2 0 1, .recLd 0 .wTail (.w 0) 1,
  .recLd 0 .wHead (.w 0) 1,
  .muLd 1 .wwLd 0, .recSt 1 .wake (.w 0) 0 1, .semV 1 0, .retSignal 1,
  .recLd 0 .wChk (.w 0) 0, .recLd 0 .wTail (.w 0) 0, .recLd 0 .wHead (.w 0) 0, .lockMark 0 .wr, .nret 0,
  .retWait 0 .ok]

example : okRun ⟨false⟩ exTimedSignalWins = true := by decide
example : okRun ⟨true⟩ exTimedSignalWins = true := by decide
/-- the same call may NOT report a timeout -/
example : okRun ⟨false⟩ (exTimedSignalWins.dropLast ++ [.retWait 0 .timedOut]) = false := by decide

/-- the same race, the timeout wins: the waiter removes itself, the signal finds an empty queue -/
def exTimedTimeoutWins : List Event := [
  .tick 100, .callWait 0 false (some 150) false, .recSt 0 .wSt1 (.w 0) 1 0, .muLd 0 .wMode 1,
  .wordLd 0 .spin0 0, .wordCas 0 0 3 0 true, .recLd 0 .wRc (.w 0) 0, .wordSt 0 .waitRel 2 3,
  .relMark 0 .wr, .nret 0, .recLd 0 .wHead (.w 0) 1, .semPdEnter 0 0 (some 150), .tick 150,
  .semPdRet 0 0 true, .recLd 0 .wChk (.w 0) 1, .wordLd 0 .spin0 2, .wordCas 0 2 3 2 true,
  .recLd 0 .wChk2 (.w 0) 1, .recLd 0 .wCmp (.w 0) 0, .recLd 0 .wRmLd (.w 0) 0,
  .recCas 0 .wRmCas (.w 0) 0 1 0 true, .recSt 0 .wClr (.w 0) 0 1, .wordSt 0 .waitRel2 0 3,
  .callSignal 1, .wordLd 1 .sigLd 0, .retSignal 1,
  .recLd 0 .wTail (.w 0) 0, .recLd 0 .wHead (.w 0) 0, .lockMark 0 .wr, .nret 0, .retWait 0 .timedOut]

example : okRun ⟨false⟩ exTimedTimeoutWins = true := by decide
example : ((runD ⟨false⟩ exTimedTimeoutWins).recs (.w 0)).unl = [Unl.self] := by decide

/-- two reader-mode waiters (threads 0 and 1), one signal (thread 2) wakes both -/
def exReaders : List Event := [
  .tick 100,
  .callWait 0 false none false, .recSt 0 .wSt1 (.w 0) 1 0, .muLd 0 .wMode 512,
  .wordLd 0 .spin0 0, .wordCas 0 0 3 0 true, .recLd 0 .wRc (.w 0) 0, .wordSt 0 .waitRel 2 3,
  .relMark 0 .rd, .nret 0, .recLd 0 .wHead (.w 0) 1, .semPdEnter 0 0 none,
  .callWait 1 false none false, .recSt 1 .wSt1 (.w 1) 1 0, .muLd 1 .wMode 256,
  .wordLd 1 .spin0 2, .wordCas 1 2 3 2 true, .recLd 1 .wRc (.w 1) 0, .wordSt 1 .waitRel 2 3,
  .relMark 1 .rd, .nret 1, .recLd 1 .wHead (.w 1) 1, .semPdEnter 1 1 none,
  .callSignal 2, .wordLd 2 .sigLd 2, .wordLd 2 .spin0 2, .wordCas 2 2 3 2 true,
  .recLd 2 (.sRcLd true) (.w 0) 0, .recCas 2 (.sRcCas true) (.w 0) 0 1 0 true,
  .recLd 2 (.sRcLd false) (.w 1) 0, .recCas 2 (.sRcCas false) (.w 1) 0 1 0 true,
  .wordSt 2 .sigRel 0 3, .muLd 2 .wwLd 0,
  .recSt 2 .wake (.w 0) 0 1, .semV 2 0, .recSt 2 .wake (.w 1) 0 1, .semV 2 1, .retSignal 2]

example : okRun ⟨false⟩ exReaders = true := by decide
example : ((runD ⟨false⟩ exReaders).recs (.w 0)).stat = .woken ∧
          ((runD ⟨false⟩ exReaders).recs (.w 1)).stat = .woken := by decide
/-- a signal that wakes only the first reader is rejected -/
example : okRun ⟨false⟩ (exReaders.take 29 ++ [.wordSt 2 .sigRel 2 3]) = false := by decide

/-- an nsync_wait_n record woken by a broadcast; the call dequeues it (`waiting = 0`: it was ready) -/
def exWaitN : List Event := [
  .tick 100, .callWaitN 0, .nwInit 0 (.nw 0),
  .wordLd 0 .spin0 0, .wordCas 0 0 1 0 true, .recSt 0 .enqSt (.nw 0) 1 0, .wordSt 0 .enqRel 2 1,
  .recLd 0 .ready (.nw 0) 1, .semPdEnter 0 0 none,
  .callBroadcast 1, .wordLd 1 .bcLd 2, .wordLd 1 .spin0 2, .wordCas 1 2 3 2 true, .wordSt 1 .bcRel 0 3,
  .recSt 1 .wake (.nw 0) 0 1, .semV 1 0, .retBroadcast 1,
  .semPdRet 0 0 false, .recLd 0 .ready (.nw 0) 0,
  .wordLd 0 .spin0 0, .wordCas 0 0 1 0 true, .recLd 0 .deqLd (.nw 0) 0, .wordSt 0 .deqRel 0 1, .retWaitN 0]

example : okRun ⟨false⟩ exWaitN = true := by decide
example : ((runD ⟨false⟩ exWaitN).recs (.nw 0)).unl = [Unl.waker 1] ∧ (runD ⟨false⟩ exWaitN).f3 = false := by decide

end NsyncVerif.Cv
