/- Axiom audit of every theorem of Props/C02Progress
   (allowed: propext, Classical.choice, Quot.sound). -/
import NsyncVerif.Props.C02Progress

open NsyncVerif.MuQ

#print axioms C02_solo_progress
#print axioms C02_solo_acquire
#print axioms C02_solo_release
#print axioms C02_thread_enabled
#print axioms C02_awake_responsible
#print axioms C02_leads_to_wake
#print axioms C02_can_always_complete
#print axioms C02_stage_monotone
-- the lemmas they rest on
#print axioms solo_acq_step
#print axioms solo_rel_step
#print axioms thread_enabled
#print axioms fresh_record
#print axioms reachable_semBound
#print axioms reachable_cover
#print axioms exists_mover
#print axioms round
#print axioms leads_to_wake
#print axioms drain
#print axioms stage_step_le
#print axioms runQuietB_sound
