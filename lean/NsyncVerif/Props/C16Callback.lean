import NsyncVerif.Proofs.MuCSpinApi
import NsyncVerif.Props.C06
/-
  Props/C16Callback.lean — property C16, "never deadlocks", the part that concerns nsync_mu_wait:

  nsync_mu_debug_state_and_waiters is the only public entry point that takes MU_SPINLOCK outside the
  lock / unlock protocol (it spins for it whenever MU_WAITING is set).  It cannot deadlock as long as every
  holder of the spinlock releases it within a bounded number of its own steps WITHOUT running client code.
  The only client code the mutex implementation ever runs are the wait conditions of nsync_mu_wait
  (`condition_true` in mu.c, the first evaluation in mu_wait.c).  Over the MuC model (mu.c / mu_wait.c
  statement by statement, any number of threads, every interleaving):

  * `C16_no_callback_under_spinlock` — a wait condition is never evaluated by a thread that owns MU_SPINLOCK:
    whoever evaluates (the waiter itself inside nsync_mu_wait, or an unlocker inside nsync_mu_unlock_slow_
    that is `testing_conditions`) has released the spinlock first (mu.c:354 / mu_wait.c:170, 265).  So a
    debug call made from inside a condition (a condition instrumented with a debug trace) finds the spinlock
    free or held by ANOTHER thread that is in a callback-free region.
  * `C16_spinlock_regions_callback_free` — the same fact read from the other side: at every program point
    that owns the spinlock (`PC.spin`), the owner's next event is not a condition evaluation.

  That the code is so is the lockstep tie (MuC acceptor: a `cond` event is accepted at `mwEval` / `usEval`
  only, and the accesses that release and re-take the spinlock around `usEval` are prescribed) plus the
  harness family `debug_cond`.  Seeded change this is aimed at:
  seeded/C16-conditions-evaluated-under-spinlock (the release / re-acquisition around the evaluation removed).
-/
namespace NsyncVerif.MuC

/-- the program points at which a thread evaluates a wait condition -/
theorem cond_pc {s s' : State} {t : Tid} {fn : CFn} {k : Nat} {res : Bool} {cfg : Cfg}
    (hs : step cfg s (.cond t fn k res) = .ok s') : (∃ c, s.pc t = .mwEval c) ∨ (∃ r sc, s.pc t = .usEval r sc) := by
  simp only [step, stepCond] at hs
  split at hs
  · exact .inl ⟨_, by assumption⟩
  · exact .inr ⟨_, _, by assumption⟩
  · cases hs

/-- C16: no client callback runs under the queue spinlock. -/
theorem C16_no_callback_under_spinlock {cfg : Cfg} {s s' : State} {t : Tid} {fn : CFn} {k : Nat} {res : Bool}
    (hr : Reachable cfg s) (hs : step cfg s (.cond t fn k res) = .ok s') : s.sp ≠ some t := by
  have h3 := reachable_inv3 hr
  intro hsp
  have hspin := (h3.own t).1 hsp
  rcases cond_pc hs with ⟨c, hp⟩ | ⟨r, sc, hp⟩ <;> rw [hp] at hspin <;> simp [PC.spin] at hspin

/-- … read from the owner's side: a thread that owns the spinlock cannot make a `cond` step. -/
theorem C16_spinlock_regions_callback_free {cfg : Cfg} {s : State} {t : Tid} (hr : Reachable cfg s)
    (hsp : s.sp = some t) (fn : CFn) (k : Nat) (res : Bool) : ∃ m, step cfg s (.cond t fn k res) = .error m := by
  cases h : step cfg s (.cond t fn k res) with
  | error m => exact ⟨m, rfl⟩
  | ok s' => exact absurd hsp (C16_no_callback_under_spinlock hr h)

/-- The spinlock bit of the word is set exactly while some thread owns it, and the owner is unique (so a
    debug caller that finds the bit clear takes a free spinlock). -/
theorem C16_spinlock_bit_is_owner {cfg : Cfg} {s : State} (hr : Reachable cfg s) :
    s.word.spin = s.sp.isSome ∧ ∀ t, s.sp = some t ↔ (s.pc t).spin = true :=
  ⟨(reachable_inv3 hr).bit, (reachable_inv3 hr).own⟩

/-! ### non-vacuity and the seeded change (trace `traceEqPair` of Props/C06.lean: two waiters, one setter) -/

/-- just before the setter's unlock_slow evaluates the first waiter's condition: nobody owns the spinlock, the
    setter still owns the write lock (it has taken the two waiters off the queue to examine them) -/
example : stateAfter ⟨false⟩ (traceEqPair.take 51) (fun s => s.sp == none && !s.word.spin && s.wOwner == some 2
    && (match s.pc 2 with | .usEval _ _ => true | _ => false)) = true := by decide
/-- the evaluation is accepted there (the hypothesis of `C16_no_callback_under_spinlock` is satisfiable) -/
example : stateAfter ⟨false⟩ (traceEqPair.take 52) (fun _ => true) = true := by decide
/-- the seeded change: without the release of the spinlock (`ld` + `cas rel … 159 → 157`, events 49-50) the
    evaluation comes while the unlocker owns the spinlock — rejected -/
example : stateAfter ⟨false⟩ (traceEqPair.take 49 ++ [.cond 2 .eq 2 true]) (fun _ => true) = false := by decide
example : stateAfter ⟨false⟩ (traceEqPair.take 49) (fun s => s.sp == some 2 && s.word.spin) = true := by decide

end NsyncVerif.MuC
