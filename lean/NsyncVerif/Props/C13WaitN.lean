/-
  Props/C13WaitN.lean — property C13, the nsync_wait_n half: "waking never touches a record its owner may
  already have reclaimed".

  Records: the `struct nsync_waiter_s` array of an nsync_wait_n call, on the caller's stack (count <= 4,
  `Rid.stk`) or malloc'ed (`Rid.heap`); their lifetime starts at the initialising store of wait.c:47 and ends
  at the return of the call (stack) or at `free` (heap): `registered s r`.  `touches s u e r`: event `e` of
  thread `u` reads or writes `nw->waiting` of r, or is the `nsync_mu_semaphore_v (nw->sem)` of a note / counter
  waker that popped r (it reads `nw->sem`).  The V of wake_waiters (cv.c) touches no record: after the repair
  of defect F3 the semaphore pointer is copied before `ATM_STORE_REL (&p_nw->waiting, 0)`.
  The statements range over all reachable states of the WaitN acceptor (the repaired code): any number of
  callers, condition-variable signallers / broadcasters, note and counter wakers, any interleaving.

  STATUS.  Both theorems are proved as stated, for all three kinds of objects:
  * `C13_record_lifetime`: every access to a record by a thread that is not its owner is to a registered
    record.  (Before the repair this failed for cv objects: the signaller's store to `waiting`, and its V,
    could hit a record whose owner had timed out inside the window and returned.  That interleaving is now
    rejected by the acceptor — `Example.oldF3` in Props/C11.lean — and the harness no longer reports
    `dead-object` on corpus/C13/f3_waitn_cv.txt, whose first execution is `Example.fixed`.)
  * `C13_owner_returns_after`: once the call has returned, none of its records is registered, queued on any
    object, between a signaller's unlink and clear, or in the hands of a note / counter waker.  (A signaller
    that has already cleared `waiting` may still owe the V — `Example.lateV` — which touches no record.)
-/
import NsyncVerif.Props.C11

set_option linter.unusedVariables false

namespace WaitN

/-- every access to a waiter record by a thread other than its owner is to a registered record -/
theorem C13_record_lifetime {s s' : State} {u : Tid} {e : Ev} {r : Rid} (hr : Reachable s)
    (hs : step s (.thr u e) = .ok s') (ht : touches s u e r) (hne : (s'.rcd r).owner ≠ u) : registered s r := by
  simp only [step] at hs
  have hq := (qinv_of_reachable hr).qi
  unfold registered
  cases touch_stepThr (linv_of_reachable hr u) hs ht with
  | init i hpc ho => exact absurd ho hne
  | own hm hc hf => exact ((own_of_reachable hr).own u r hc hf hm).1
  | pop o hm => exact (hq.q1 o r hm).1
  | clear c l hwk hp hm =>
    have : r ∈ pend (s.post u) l := by rw [hp]; exact hm
    exact ((hq.q4 u c l hwk).2.2 r this).1
  | post j he hp hw =>
    rcases hq.q5 u r hp with h1 | h2
    · rw [hw] at h1; cases h1
    · exact h2.1

/-- the owner itself only touches its own registered records, except for the initialising store -/
theorem C13_owner_access {s s' : State} {u : Tid} {e : Ev} {r : Rid} (hr : Reachable s)
    (hs : step s (.thr u e) = .ok s') (ht : touches s u e r) :
    registered s r ∨ ((∃ i, s.pc u = .wInit i) ∧ (s'.rcd r).owner = u) := by
  simp only [step] at hs
  have hq := (qinv_of_reachable hr).qi
  unfold registered
  cases touch_stepThr (linv_of_reachable hr u) hs ht with
  | init i hpc ho => exact .inr ⟨⟨i, hpc⟩, ho⟩
  | own hm hc hf => exact .inl ((own_of_reachable hr).own u r hc hf hm).1
  | pop o hm => exact .inl (hq.q1 o r hm).1
  | clear c l hwk hp hm =>
    have : r ∈ pend (s.post u) l := by rw [hp]; exact hm
    exact .inl ((hq.q4 u c l hwk).2.2 r this).1
  | post j he hp hw =>
    rcases hq.q5 u r hp with h1 | h2
    · rw [hw] at h1; cases h1
    · exact .inl h2.1

/-- the V of a note / counter waker is to a live record that is cleared and whose dequeue has not returned -/
theorem C13_record_lifetime_post {s s' : State} {u : Tid} {j : SemId} {r : Rid} (hr : Reachable s)
    (hs : step s (.thr u (.semV j)) = .ok s') (hp : s.post u = some r)
    (hw : wk (s.pc u) = none) : registered s r ∧ (s.rcd r).waiting = false ∧ (s.rcd r).deqd = false := by
  have hq := (qinv_of_reachable hr).qi
  rcases hq.q5 u r hp with h1 | h2
  · rw [hw] at h1; cases h1
  · exact ⟨h2.1, h2.2.2.2.2, h2.2.1⟩

/-! ### the owner's return -/

/-- u is between unlinking / popping record r and clearing its `waiting` (cv signaller), resp. between popping
    it and posting (note / counter waker, which reads `nw->sem` for the post) -/
def betweenUnlinkAndClear (s : State) (u : Tid) (r : Rid) : Prop :=
  (∃ c l, wk (s.pc u) = some (c, l) ∧ r ∈ pend (s.post u) l) ∨ (s.post u = some r ∧ wk (s.pc u) = none)

theorem ret_idle {s s' : State} {t : Tid} {i : Nat} {nested : Bool} (hs : step s (.thr t (.retWaitN i nested)) = .ok s') :
    s'.pc t = .idle := by
  have hpc := (ret_pc hs).1
  simp only [step, stepThr, hpc, stepRet] at hs
  split at hs
  · cases hs; simp
  · simp at hs

/-- after `ret nsync_wait_n` of thread t: no record is registered to t, nothing queued on any object belongs to
    t, and no thread is between unlink / pop and clear / post of a record of t.  (Stated with the ghost `owner`
    so that it is not defeated by the reuse of a freed heap address by another thread's call.) -/
theorem C13_owner_returns_after {s s' : State} {t : Tid} {i : Nat} {nested : Bool} (hr : Reachable s)
    (hs : step s (.thr t (.retWaitN i nested)) = .ok s') :
    (∀ r, registered s' r → (s'.rcd r).owner ≠ t)
    ∧ (∀ o r, r ∈ (s'.obj o).queue → registered s' r ∧ (s'.rcd r).owner ≠ t)
    ∧ (∀ u r, betweenUnlinkAndClear s' u r → registered s' r ∧ (s'.rcd r).owner ≠ t) := by
  have hr' := reachable_step hr hs
  have hidle := ret_idle hs
  have h1 : ∀ r, registered s' r → (s'.rcd r).owner ≠ t := by
    intro r hl ho
    have := ((own_of_reachable hr').back r hl).1
    rw [ho, hidle] at this
    cases this
  have hq := (qinv_of_reachable hr').qi
  refine ⟨h1, ?_, ?_⟩
  · intro o r hm
    have := (hq.q1 o r hm).1
    exact ⟨this, h1 r this⟩
  · intro u r hb
    rcases hb with ⟨c, l, hw, hm⟩ | ⟨hp, hw⟩
    · have := ((hq.q4 u c l hw).2.2 r hm).1
      exact ⟨this, h1 r this⟩
    · rcases hq.q5 u r hp with h | h
      · rw [hw] at h; cases h
      · exact ⟨h.1, h1 r h.1⟩

/-- the records of a call on the caller's stack (count <= 4) are unregistered by the return -/
theorem C13_owner_returns_after_stack {s s' : State} {t : Tid} {i : Nat} {nested : Bool}
    (hs : step s (.thr t (.retWaitN i nested)) = .ok s') (hh : (s.fr t).heap = none) :
    ∀ r ∈ (s.fr t).recs, ¬ registered s' r := by
  intro r hm
  have hpc := (ret_pc hs).1
  simp only [step, stepThr, hpc, stepRet] at hs
  split at hs
  · cases hs; simp [registered, hh, hm]
  · simp at hs

/-! ### non-vacuity -/

namespace Example

/-- `Example.fixed` (Props/C11.lean), the return of the caller, and then the signaller's V: accepted, and the V
    comes when the record is dead — it does not touch it (`touches` of a V by a thread inside
    nsync_cv_signal is `False` by definition). -/
def lateV : List Event := fixed ++ [.thr 0 (.retWaitN 0 false)]

example : accepts (lateV ++ [.thr 1 (.semV 0)]) = true := by decide
example : (final lateV).map (fun s => decide ((s.rcd r0).live = false ∧ s.post 1 = some r0 ∧ s.pc 1 = .sg 0 false (.wake [r0])))
    = some true := by decide
/-- the signaller's store to `waiting` before the caller has seen it is to a registered record -/
example : (final (fixed.dropLast.dropLast)).map (fun s => decide ((s.rcd r0).live = true ∧ s.pc 0 = .wDeqCv 0 .wspin
    ∧ s.pc 1 = .sg 0 false (.wake [r0]) ∧ s.post 1 = none)) = some true := by decide
/-- a counter waker's clear and V on the live record `stk 1` (`Example.noteCtr`) -/
example : (final (noteCtr.take 50)).map (fun s => decide (s.post 1 = some (.stk 1) ∧ (s.rcd (.stk 1)).live = true
    ∧ wk (s.pc 1) = none)) = some true := by decide

end Example

end WaitN
