/-
  Props/C13WaitN.lean — property C13, the nsync_wait_n half: "waking never touches a record its owner may
  already have reclaimed".

  Records: the `struct nsync_waiter_s` array of an nsync_wait_n call, on the caller's stack (count <= 4,
  `Rid.stk`) or malloc'ed (`Rid.heap`); their lifetime starts at the initialising store of wait.c:47 and ends
  at the return of the call (stack) or at `free` (heap): `registered s r`.  `touches s u e r`: event `e` of
  thread `u` reads or writes `nw->waiting` of r, or is the `nsync_mu_semaphore_v (nw->sem)` of a waker that
  popped r (it reads `nw->sem`).  The statements range over all reachable states of the WaitN acceptor: any
  number of callers, condition-variable signallers / broadcasters, note and counter wakers, any interleaving.

  PARTIAL results (defect F3: cv_dequeue decides "still enqueued" from `waiting != 0` alone):
  * `C13_record_lifetime_full` is FALSE on the unchanged code:
      - `C13_record_lifetime_full_false`  (trace `Example.f3touch`: the signaller's `STORE_REL (&nw->waiting, 0)`
        of wake_waiters, cv.c:144, hits the returned caller's stack record; the same events are the first
        execution of corpus/C13/f3_waitn_cv.txt, which the harness ends with `# outcome oracle … dead-object`);
      - `C13_record_lifetime_window2` (no F3 needed: the signaller's V after `waiting := 0` reads `nw->sem` of
        a record whose owner has timed out, seen `waiting == 0`, and returned; the real code reads the field
        before the store only if the compiler hoists it — the harness flavour passes `p_nw->sem` after).
  * `C13_record_lifetime_partial` is what holds: on runs on which no cv_dequeue has taken the F3 exit
    (`s'.f3 = false`), every access by a thread other than the owner, except the V of a cv signaller, is to a
    registered record.  In particular all note and counter wakers (they pop, clear and post under the
    object's mutex, which the owner's dequeue takes as well), every dequeue, every ready_time poll.
    Under F3 with slot reuse not even note / counter wakers are safe (the stale cv waker can clear `waiting`
    of the reused record, after which its new owner leaves early), hence the hypothesis on the whole run.
  * `C13_owner_returns_after_full` is FALSE (`…_full_false`, trace `Example.window2`);
    `C13_owner_returns_after_partial` (runs with `s'.f3 = false`): once the call has returned, none of its
    records is registered, queued on any object, pending in any signaller's wake list (between unlink and
    clear), or in the hands of a note / counter waker; only a cv signaller that has already cleared `waiting`
    may still owe the V.
-/
import NsyncVerif.Props.C11

set_option linter.unusedVariables false

namespace WaitN

/-- FULL statement (false on the current code, defect F3). -/
def C13_record_lifetime_full : Prop :=
  ∀ (s s' : State) (u : Tid) (e : Ev) (r : Rid), Reachable s → step s (.thr u e) = .ok s' → touches s u e r →
    (s'.rcd r).owner ≠ u → registered s r

/-- PARTIAL: runs without the F3 exit of cv_dequeue; every access but the final V of a cv signaller. -/
theorem C13_record_lifetime_partial {s s' : State} {u : Tid} {e : Ev} {r : Rid} (hr : Reachable s)
    (hs : step s (.thr u e) = .ok s') (hf3 : s'.f3 = false) (ht : touches s u e r) (hne : (s'.rcd r).owner ≠ u)
    (hv : ∀ j, e = .semV j → wk (s.pc u) = none) : registered s r := by
  simp only [step] at hs
  have hq := (qinv_of_reachable hr (f3_mono hs hf3)).qi
  unfold registered
  cases touch_stepThr (linv_of_reachable hr u) hs ht with
  | init i hpc ho => exact absurd ho hne
  | own hm hc hf => exact ((own_of_reachable hr).own u r hc hf hm).1
  | pop o hm => exact (hq.q1 o r hm).1
  | clear c l hwk hp hm =>
    have : r ∈ pend (s.post u) l := by rw [hp]; exact hm
    exact ((hq.q4 u c l hwk).2.2 r this).1
  | post j he hp =>
    rcases hq.q5 u r hp with h1 | h2
    · rw [hv j he] at h1; cases h1
    · exact h2.1

/-- note and counter wakers, spelled out: the V of a thread that is not a cv signaller is to a live record -/
theorem C13_record_lifetime_post {s s' : State} {u : Tid} {j : SemId} {r : Rid} (hr : Reachable s)
    (hs : step s (.thr u (.semV j)) = .ok s') (hf3 : s'.f3 = false) (hp : s.post u = some r)
    (hw : wk (s.pc u) = none) : registered s r ∧ (s.rcd r).waiting = false ∧ (s.rcd r).deqd = false := by
  simp only [step] at hs
  have hq := (qinv_of_reachable hr (f3_mono hs hf3)).qi
  rcases hq.q5 u r hp with h1 | h2
  · rw [hw] at h1; cases h1
  · exact ⟨h2.1, h2.2.2.2.2, h2.2.1⟩

/-! ### the owner's return -/

/-- u has record r in hand: it unlinked / popped r and has not finished clearing and posting it -/
def inHand (s : State) (u : Tid) (r : Rid) : Prop :=
  s.post u = some r ∨ ∃ c l, wk (s.pc u) = some (c, l) ∧ r ∈ pend (s.post u) l

theorem ret_idle {s s' : State} {t : Tid} {i : Nat} {nested : Bool} (hs : step s (.thr t (.retWaitN i nested)) = .ok s') :
    s'.pc t = .idle := by
  have hpc := (ret_pc hs).1
  simp only [step, stepThr, hpc, stepRet] at hs
  split at hs
  · cases hs; simp
  · simp at hs

/-- FULL statement (false: the second window): after the return no thread has a record of the call in hand. -/
def C13_owner_returns_after_full : Prop :=
  ∀ (s s' : State) (t : Tid) (i : Nat) (nested : Bool), Reachable s → step s (.thr t (.retWaitN i nested)) = .ok s' →
    ∀ r ∈ (s.fr t).recs, ∀ u, inHand s' u r → registered s' r ∧ (s'.rcd r).owner ≠ t

/-- PARTIAL (runs with `s'.f3 = false`): after `ret nsync_wait_n` of thread t no record is registered to t (this
    part needs no hypothesis), nothing queued on any object belongs to t, nothing between a signaller's
    unlink and clear belongs to t, and a record in the hands of a note / counter waker does not belong to t.
    (Stated with the ghost `owner` so that it is not defeated by the reuse of a freed heap address by
    another thread's call.) -/
theorem C13_owner_returns_after_partial {s s' : State} {t : Tid} {i : Nat} {nested : Bool} (hr : Reachable s)
    (hs : step s (.thr t (.retWaitN i nested)) = .ok s') :
    (∀ r, registered s' r → (s'.rcd r).owner ≠ t)
    ∧ (s'.f3 = false →
        (∀ o r, r ∈ (s'.obj o).queue → registered s' r ∧ (s'.rcd r).owner ≠ t)
        ∧ (∀ u c l r, wk (s'.pc u) = some (c, l) → r ∈ pend (s'.post u) l → registered s' r ∧ (s'.rcd r).owner ≠ t)
        ∧ (∀ u r, s'.post u = some r → wk (s'.pc u) = none → registered s' r ∧ (s'.rcd r).owner ≠ t)) := by
  have hr' := reachable_step hr hs
  have hidle := ret_idle hs
  have h1 : ∀ r, registered s' r → (s'.rcd r).owner ≠ t := by
    intro r hl ho
    have := ((own_of_reachable hr').back r hl).1
    rw [ho, hidle] at this
    cases this
  refine ⟨h1, fun hf3 => ?_⟩
  have hq := (qinv_of_reachable hr' hf3).qi
  refine ⟨?_, ?_, ?_⟩
  · intro o r hm
    have := (hq.q1 o r hm).1
    exact ⟨this, h1 r this⟩
  · intro u c l r hw hm
    have := ((hq.q4 u c l hw).2.2 r hm).1
    exact ⟨this, h1 r this⟩
  · intro u r hp hw
    rcases hq.q5 u r hp with h | h
    · rw [hw] at h; cases h
    · exact ⟨h.1, h1 r h.1⟩

/-! ### witnesses -/

namespace Example

/-- `Example.f3ret` (Props/C11.lean), then the signaller's `STORE_REL (&nw->waiting, 0)` on the dead record.
    Harness: corpus/C13/f3_waitn_cv.txt, first `exec sched=…` line (outcome `oracle … dead-object`). -/
def f3touch : List Event := f3ret ++ [.thr 1 (.st .rel (.waiting r0) .wake 0 0)]

example : accepts f3touch = true := by decide
example : accepts (f3touch ++ [.thr 1 (.semV 0), .thr 1 (.retSig false)]) = true := by decide

/-- a note waker against a caller that is woken: the hypotheses of the partial theorem are satisfiable
    (`Example.noteCtr` contains the counter waker's clear and V on the live record `stk 1`) -/
example : (final (noteCtr.take 50)).map (fun s => decide (s.post 1 = some (.stk 1) ∧ (s.rcd (.stk 1)).live = true ∧ s.f3 = false
    ∧ wk (s.pc 1) = none)) = some true := by decide

end Example

/-- evaluate a predicate on the result of a step -/
def thenB (r : R) (P : State → Bool) : Bool := match r with | .ok s' => P s' | .error _ => false

theorem thenB_spec {r : R} {P : State → Bool} (h : thenB r P = true) : ∃ s', r = .ok s' ∧ P s' = true := by
  cases r with
  | ok s' => exact ⟨s', rfl, h⟩
  | error m => simp [thenB] at h

/-- F3: the waker's store to `waiting` of a record that is dead (its owner returned `count`). -/
theorem C13_record_lifetime_full_false : ¬ C13_record_lifetime_full := by
  intro h
  obtain ⟨s, hr, hp⟩ := final_spec (evs := Example.f3ret)
    (P := fun s => thenB (step s (.thr 1 (.st .rel (.waiting Example.r0) .wake 0 0))) (fun s' => decide ((s'.rcd Example.r0).owner ≠ 1))
      && decide ((s.rcd Example.r0).live = false)) (by decide)
  simp only [Bool.and_eq_true, decide_eq_true_eq] at hp
  obtain ⟨s', hs', hp'⟩ := thenB_spec hp.1
  simp only [decide_eq_true_eq] at hp'
  have := h s s' 1 _ Example.r0 hr hs' (by simp [touches]) hp'
  rw [registered, hp.2] at this
  cases this

/-- the second window (no F3 exit taken, `f3 = false`): the signaller's V reads `nw->sem` of a dead record. -/
theorem C13_record_lifetime_window2 :
    ∃ s s' u j r, Reachable s ∧ step s (.thr u (.semV j)) = .ok s' ∧ s'.f3 = false ∧ touches s u (.semV j) r
      ∧ (s'.rcd r).owner ≠ u ∧ ¬ registered s r := by
  obtain ⟨s, hr, hp⟩ := final_spec (evs := Example.window2 ++ [.thr 0 (.retWaitN 0 false)])
    (P := fun s => thenB (step s (.thr 1 (.semV 0))) (fun s' => decide ((s'.rcd Example.r0).owner ≠ 1 ∧ s'.f3 = false))
      && decide ((s.rcd Example.r0).live = false ∧ s.post 1 = some Example.r0)) (by decide)
  simp only [Bool.and_eq_true, decide_eq_true_eq] at hp
  obtain ⟨s', hs', hp'⟩ := thenB_spec hp.1
  simp only [decide_eq_true_eq] at hp'
  refine ⟨s, s', 1, 0, Example.r0, hr, hs', hp'.2, hp.2.2, hp'.1, ?_⟩
  rw [registered, hp.2.1]; simp

theorem C13_owner_returns_after_full_false : ¬ C13_owner_returns_after_full := by
  intro h
  obtain ⟨s, hr, hp⟩ := final_spec (evs := Example.window2)
    (P := fun s => thenB (step s (.thr 0 (.retWaitN 0 false))) (fun s' => decide ((s'.rcd Example.r0).live = false ∧ s'.post 1 = some Example.r0))
      && decide ((s.fr 0).recs = [Example.r0])) (by decide)
  simp only [Bool.and_eq_true, decide_eq_true_eq] at hp
  obtain ⟨s', hs', hp'⟩ := thenB_spec hp.1
  simp only [decide_eq_true_eq] at hp'
  have := (h s s' 0 0 false hr hs' Example.r0 (by rw [hp.2]; simp) 1 (.inl hp'.2)).1
  rw [registered, hp'.1] at this
  cases this

end WaitN
