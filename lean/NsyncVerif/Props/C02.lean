import NsyncVerif.Proofs.MuQStepFacts3
/-!
# C02 — a released mutex is always handed on

Model: `NsyncVerif.Model.MuQ` (one `nsync_mu`, the six core entry points plus lock_slow /
unlock_slow / mu_release_spinlock, one step per atomic operation, any number of threads, counting
or binary semaphores `cfg.binary`).  `Reachable cfg s` quantifies over ALL interleavings, programs
and thread counts at once; every theorem below is an inductive invariant (no bound on threads or
steps) and holds for both semaphore flavours.

What is machine-checked here
* `C02_try_wait_free`      try-locks take ≤ 4 steps (3 atomics + return), never sleep, never spin,
                           never touch the queue or a waiter record.
* `C02_inv_spin`, `C02_inv_spin_queue`, `C02_inv_lock`, `C02_inv_queue`, `C02_inv_hint`
                           the invariants (I_spin) (I_lock) (I_queue) (I_hint).
* `C02_responsible`        every queued sleeper has somebody responsible for waking it.
* `C02_woken_not_lost`     a waiter removed from the queue is never left asleep: no lost post,
                           counting and binary flavour.
* `C02_no_stuck_state`     there is no reachable state in which somebody sleeps on the mutex while
                           every other thread is idle holding nothing or asleep as well.

The step from `C02_no_stuck_state` to "every lock call eventually returns if every holder
eventually releases": see `Props/C02Progress.lean`, which proves the statement
`C02_solo_progress_full` kept below (`theorem C02_solo_progress : C02_solo_progress_full`), its
release-side counterpart, and the leads-to argument in existential-schedule form
(`C02_leads_to_wake`, `C02_can_always_complete`, with an explicit ranking).  What remains a paper
argument is fair termination for ALL weakly fair schedules (`C02_fair_termination_full` there).
The safety core proved here excludes every state from which no thread can move, and
`C02_responsible` names, in every state with a queued sleeper, a thread that is awake and whose
remaining steps lead to a wake-up (a holder, which releases by hypothesis and then runs
unlock_slow because MU_WAITING is set and MU_DESIG_WAKER is not; or a woken thread in flight,
which either acquires and becomes such a holder, or re-queues behind a holder).
In THIS file `C02_solo_progress` is only proved for try-locks (`C02_solo_progress_partial`).

Findings about the formulation (see the report)
* The disjunct "MU_DESIG_WAKER is set and a designated waker is in flight" of the task's sketch of
  `C02_responsible` is NOT an invariant: with a reader batch the first woken reader clears
  MU_DESIG_WAKER while the others are still in flight, and with MU_LONG_WAIT set on a then free
  mutex a fresh thread queues itself although the bit is clear.  The responsible party is then a
  woken thread in flight WITHOUT the bit.  The invariant proved is therefore "holder ∨ woken
  thread in flight ∨ unlocker between grab and final CAS"; for the bit itself the legal direction
  is proved: `desig → a woken thread is in flight (or an unlocker is mid-scan)` ("illegal to
  set it when no such waiter exists", common.h:112-114).
* `word.ww → the queue contains a writer` is false as stated (the woken writer is no longer queued
  and MU_WRITER_WAITING stays set until it acquires); the invariant is "some writer is inside
  lock_slow that has queued itself at least once" (it clears the bit when it acquires).
* MU_ALL_FALSE is never set in the word by core operations (`C02_inv_hint`, `af = false`): the
  scan sets it only if it reaches the end of the queue without skipping anybody, i.e. only when
  it has woken everybody, and then the queue is empty and the bit is cleared again.
-/
namespace NsyncVerif.MuQ

/-! ## try-locks never block -/

theorem C02_try_wait_free {cfg : Cfg} {s s' : State} {e : Event} {t : Tid}
    (_hr : Reachable cfg s) (hin : inTry s t) (h : step cfg s e = .ok s') (he : e.tid = some t) :
    e.isSem = false ∧ tryRank (s'.pc t) < tryRank (s.pc t) ∧ tryRank (s.pc t) ≤ 4 ∧
      s'.queue = s.queue ∧ s'.wr = s.wr := by
  obtain ⟨h1, h2, h3, h4⟩ := try_wait_free hin h he
  exact ⟨h1, h2, tryRank_le _, h3, h4⟩

/-! ## the invariants -/

/-- (I_spin) the spinlock bit is set iff exactly one thread is at a spinlock-owning program point. -/
theorem C02_inv_spin {cfg : Cfg} {s : State} (hr : Reachable cfg s) :
    (s.word.spin = true ↔ ∃ t, (role (s.pc t)).spin = true) ∧
    (∀ t u, (role (s.pc t)).spin = true → (role (s.pc u)).spin = true → t = u) ∧
    (∀ t, s.sp = some t ↔ (role (s.pc t)).spin = true) := by
  have inv := (reachable_inv hr).spin
  have hb : s.word.spin = s.sp.isSome := inv.bit
  have hown : ∀ t, s.sp = some t ↔ (role (s.pc t)).spin = true := inv.own
  refine ⟨?_, fun t u ht hu => (inv.unique ht hu).symm, hown⟩
  rw [hb]
  constructor
  · intro h
    cases hx : s.sp with
    | none => rw [hx] at h; cases h
    | some t => exact ⟨t, (hown t).1 hx⟩
  · rintro ⟨t, ht⟩
    rw [(hown t).2 ht]; rfl

/-- (I_spin) the queue changes only in steps of the thread that owns the spinlock. -/
theorem C02_inv_spin_queue {cfg : Cfg} {s s' : State} {e : Event} (_hr : Reachable cfg s)
    (h : step cfg s e = .ok s') (hq : s'.queue ≠ s.queue) :
    ∃ t, e.tid = some t ∧ ((role (s.pc t)).spin = true ∨ (role (s'.pc t)).spin = true) :=
  queue_changed_by_spin_holder h hq

/-- (I_lock) the writer bit has exactly one owner, the reader count is the number of reader
    shares, never both; MU_CONDITION is never set. -/
theorem C02_inv_lock {cfg : Cfg} {s : State} (hr : Reachable cfg s) :
    (s.word.wlock = true ↔ ∃ t, shareOf s t = some .W) ∧
    (∀ t u, shareOf s t = some .W → shareOf s u = some .W → t = u) ∧
    (∃ rs : List Tid, rs.Nodup ∧ (∀ t, t ∈ rs ↔ shareOf s t = some .R) ∧ s.word.readers = rs.length) ∧
    ¬ (s.word.wlock = true ∧ s.word.readers ≠ 0) ∧ s.word.cond = false := by
  have inv := (reachable_inv hr).lock
  refine ⟨?_, ?_, ⟨s.rOwners, inv.nodup, inv.rown, inv.rd⟩, fun h => h.2 (inv.excl h.1), inv.cond⟩
  · have hwl : s.word.wlock = s.wOwner.isSome := inv.wl
    have hwo : ∀ t, s.wOwner = some t ↔ shareOf s t = some .W := inv.wown
    rw [hwl]
    constructor
    · intro h
      cases hx : s.wOwner with
      | none => rw [hx] at h; cases h
      | some t => exact ⟨t, (hwo t).1 hx⟩
    · rintro ⟨t, ht⟩; rw [(hwo t).2 ht]; rfl
  · intro t u ht hu
    have e1 := (inv.wown t).2 ht
    have e2 := (inv.wown u).2 hu
    rw [e1] at e2; exact Option.some.inj e2

/-- (I_queue) -/
theorem C02_inv_queue {cfg : Cfg} {s : State} (hr : Reachable cfg s) :
    s.queue.Nodup ∧
    -- a queued record has `waiting` set and its owner is inside lock_slow, between the enqueue
    -- store and the end of the wait loop
    (∀ k, k ∈ s.queue → (s.wr k).waiting = true ∧
        ∃ t c ph, (s.wr k).owner = some t ∧ role (s.pc t) = .slow c ph ∧ c.w = some k ∧ ph.queued = true) ∧
    -- a record with `waiting` set is queued, or on the private wake list of exactly one unlocker
    (∀ k, (s.wr k).waiting = true → k ∈ s.queue ∨ ∃ u, k ∈ (role (s.pc u)).wake) ∧
    (∀ u u' k, k ∈ (role (s.pc u)).wake → k ∈ (role (s.pc u')).wake → u = u') ∧
    -- a record on a private wake list is not queued, still has `waiting` set, and its owner is in
    -- the wait loop
    (∀ u k, k ∈ (role (s.pc u)).wake → k ∉ s.queue ∧ (s.wr k).waiting = true ∧
        ∃ t c ph, role (s.pc t) = .slow c ph ∧ c.w = some k ∧ ph.inLoop = true) := by
  have inv := (reachable_inv hr).queue
  refine ⟨inv.nodup, ?_, inv.wt, inv.wkUniq, inv.wk⟩
  intro k hk
  obtain ⟨h1, t, c, ph, h2, h3, h4⟩ := inv.inq k hk
  exact ⟨h1, t, c, ph, (inv.own k t).2 ⟨c, ph, h2, h3⟩, h2, h3, h4⟩

/-- (I_hint) what the hint bits mean. -/
theorem C02_inv_hint {cfg : Cfg} {s : State} (hr : Reachable cfg s) :
    -- MU_WAITING: exact when the spinlock is free
    (s.word.spin = false → (s.word.waiting = true ↔ s.queue ≠ [])) ∧
    -- MU_WRITER_WAITING: some writer inside lock_slow has queued itself (it clears the bit when it acquires)
    (s.word.ww = true → ∃ t c ph, role (s.pc t) = .slow c ph ∧ c.l = .W ∧ (ph = .st ∨ c.w.isSome = true)) ∧
    -- MU_LONG_WAIT: some thread inside lock_slow has its `long_wait` local set
    (s.word.lw = true → ∃ t c ph, role (s.pc t) = .slow c ph ∧ c.lwl = true) ∧
    -- MU_DESIG_WAKER: never set without a woken thread in flight (or an unlocker mid-scan, spinlock held)
    (s.word.desig = true → (∃ t, InFlightC s t) ∨ (∃ u, UnlockingC s u)) ∧
    (s.word.desig = true → s.word.spin = false → ∃ t, InFlightC s t) ∧
    -- MU_ALL_FALSE is never set by core operations
    s.word.af = false := by
  have inv := reachable_inv hr
  refine ⟨?_, inv.live.ww, inv.live.lw, inv.live.desig, ?_, inv.hint.af⟩
  · intro hsp
    apply inv.hint.wq
    have hb : s.word.spin = s.sp.isSome := inv.spin.bit
    cases hx : s.sp with
    | none => exact hx
    | some u => rw [hx, hsp] at hb; cases hb
  · intro hd hsp
    rcases inv.live.desig hd with h | ⟨u, hu⟩
    · exact h
    · have := unlocking_holds_spin hr hu
      have hb : s.word.spin = s.sp.isSome := inv.spin.bit
      rw [this, hsp] at hb
      cases hb

/-! ## nobody is left asleep -/

/-- Every queued sleeper has somebody responsible for waking it: a thread owning a share (it will
    release, and its release takes the slow path), a woken thread in flight, or — only while the
    spinlock is held — an unlocker between its grab CAS and its final CAS. -/
theorem C02_responsible {cfg : Cfg} {s : State} {k : Wid} (hr : Reachable cfg s) (hk : k ∈ s.queue) :
    ((∃ t, shareOf s t ≠ none) ∨ (∃ t, InFlightC s t) ∨ (∃ u, UnlockingC s u)) ∧
    (s.word.spin = false → (∃ t, shareOf s t ≠ none) ∨ (∃ t, InFlightC s t)) := by
  refine ⟨responsible hr hk, fun hsp => ?_⟩
  rcases responsible hr hk with h | h | ⟨u, hu⟩
  · exact Or.inl h
  · exact Or.inr h
  · have := unlocking_holds_spin hr hu
    have hb : s.word.spin = s.sp.isSome := (reachable_inv hr).spin.bit
    rw [this, hsp] at hb
    cases hb

/-- No lost wake-up: a thread in the wait loop whose record is NOT queued either has `waiting = 0`
    and will get through (it is about to re-read `waiting`, or its semaphore is posted, or the V
    is pending in an unlocker that has already cleared `waiting`), or `waiting` is still 1 and
    the record sits on the private list of an unlocker that has still to clear it.  Both flavours:
    a collapsed second V is harmless because the count is only needed to be non-zero. -/
theorem C02_woken_not_lost {cfg : Cfg} {s : State} {t : Tid} {c : SL} {ph : Phase} {k : Wid}
    (hr : Reachable cfg s) (hro : role (s.pc t) = .slow c ph) (hph : ph.inLoop = true)
    (hw : c.w = some k) (hk : k ∉ s.queue) :
    ((s.wr k).waiting = false ∧
      (ph = .loopLd ∨ (s.wr k).sem ≠ 0 ∨ ∃ u l r, s.pc u = .usWakeV l k r)) ∨
    ((s.wr k).waiting = true ∧ ∃ u, k ∈ (role (s.pc u)).wake) :=
  woken_not_lost hr hro hph hw hk

/-- The safety core of "every lock call returns if every holder releases": there is no reachable
    state in which some thread sleeps on the mutex while all the others are idle holding nothing
    or asleep too. -/
theorem C02_no_stuck_state {cfg : Cfg} {s : State} (hr : Reachable cfg s)
    (hall : ∀ t, IdleHoldingNothing s t ∨ AsleepOnSem s t) : ∀ t, IdleHoldingNothing s t :=
  no_stuck_state hr hall

/-! ## solo progress (stretch) -/

/-- Full statement (proved in `Props/C02Progress.lean`: `C02_solo_progress`, and in the sharper form
    `C02_solo_acquire` with the constant 14 + 3·M and the conclusion "has returned"; the release
    side is `C02_solo_release` there), for the ACQUIRING operations: from a reachable state in which the
    spinlock is free or its own, a thread inside lock / rlock / lock_slow that is not asleep, run
    alone, returns or goes to sleep within a bound linear in the stale counts `M` of the semaphores
    (it consumes a stale count with one P per trip round the wait loop).  The hypothesis on the
    spinlock is necessary: a frozen spinlock holder makes every contender spin.  For the RELEASING
    operations the corresponding bound (linear in the queue length) needs an assumption about the
    environment in addition: the retry loop on `remove_count` (mu.c:243-245) is on memory this mutex
    does not own, and the acceptor admits a failed CAS there whenever the log reports one. -/
def C02_solo_progress_full : Prop :=
  ∀ (cfg : Cfg) (s : State) (t : Tid) (M : Nat), Reachable cfg s → (∀ k, (s.wr k).sem ≤ M) →
    (acqMode (s.pc t) ≠ none ∨ ∃ c ph, role (s.pc t) = .slow c ph) → ¬ AsleepOnSem s t →
    (s.sp = none ∨ s.sp = some t) →
    ∀ evs s', (∀ e ∈ evs, e.tid = some t) → run cfg s evs = .ok s' →
      evs.length > 24 + 3 * M → ∃ n, n ≤ evs.length ∧
        ∃ s1, run cfg s (evs.take n) = .ok s1 ∧ (s1.pc t = .idle ∨ AsleepOnSem s1 t)

/-- Proved part: try-locks (at most 4 steps, whatever the other threads do). -/
theorem C02_solo_progress_partial {cfg : Cfg} {s s' : State} {e : Event} {t : Tid}
    (hin : inTry s t) (h : step cfg s e = .ok s') (he : e.tid = some t) :
    tryRank (s'.pc t) < tryRank (s.pc t) ∧ tryRank (s.pc t) ≤ 4 :=
  ⟨(try_wait_free hin h he).2.1, tryRank_le _⟩

/-! ## non-vacuity: accepted executions of the real library (harness logs, replayed by `decide`) -/

def accepts (cfg : Cfg) (evs : List Event) : Bool :=
  match run cfg init evs with
  | .ok _ => true
  | .error _ => false

def queueAfter (cfg : Cfg) (evs : List Event) : Option (List Wid) :=
  match run cfg init evs with
  | .ok s => some s.queue
  | .error _ => none

def wordAfter (cfg : Cfg) (evs : List Event) : Option Nat :=
  match run cfg init evs with
  | .ok s => some (encode s.word)
  | .error _ => none

/-- Three threads, counting semaphores.  Thread 0 holds; writers 1 (record w0) and 2 (record w1)
    queue and sleep; 0 unlocks (wakes w0) and barges in again; 1 wakes, loses the race, RE-QUEUES AT
    THE FRONT and sleeps; 0 unlocks (wakes w0 again); 1 acquires; then 2 is woken and acquires. -/
def traceFront : List Event := [
  .call 0 .lock,
  .cas 0 .acq .word 0 1 0 true,
  .ret 0 .lock none,
  .call 0 .unlock,
  .call 1 .lock,
  .cas 1 .acq .word 0 1 1 false,
  .ld 1 .rlx .word 1,
  .ld 1 .rlx .word 1,
  .cas 1 .acq .word 1 39 1 true,
  .st 1 .rlx (.waiting 0) 1 0,
  .ld 1 .rlx .word 39,
  .cas 1 .rel .word 39 37 39 true,
  .ld 1 .acq (.waiting 0) 1,
  .semPEnter 1 0,
  .call 2 .lock,
  .cas 2 .acq .word 0 1 37 false,
  .ld 2 .rlx .word 37,
  .ld 2 .rlx .word 37,
  .cas 2 .acq .word 37 39 37 true,
  .st 2 .rlx (.waiting 1) 1 0,
  .ld 2 .rlx .word 39,
  .cas 2 .rel .word 39 37 39 true,
  .ld 2 .acq (.waiting 1) 1,
  .semPEnter 2 1,
  .cas 0 .rel .word 1 0 37 false,
  .ld 0 .rlx .word 37,
  .ld 0 .rlx .word 37,
  .cas 0 .ar .word 37 46 37 true,
  .ld 0 .rlx (.rc 0) 0,
  .cas 0 .rlx (.rc 0) 0 1 0 true,
  .ld 0 .rlx .word 46,
  .cas 0 .rel .word 46 44 46 true,
  .st 0 .rel (.waiting 0) 0 1,
  .semV 0 0,
  .ret 0 .unlock none,
  .call 0 .lock,
  .cas 0 .acq .word 0 1 44 false,
  .ld 0 .rlx .word 44,
  .cas 0 .acq .word 44 13 44 true,
  .ret 0 .lock none,
  .call 0 .unlock,
  .semPRet 1 0,
  .ld 1 .acq (.waiting 0) 0,
  .ld 1 .rlx .word 13,
  .cas 1 .acq .word 13 39 13 true,
  .st 1 .rlx (.waiting 0) 1 0,
  .ld 1 .rlx .word 39,
  .cas 1 .rel .word 39 37 39 true,
  .ld 1 .acq (.waiting 0) 1,
  .semPEnter 1 0,
  .cas 0 .rel .word 1 0 37 false,
  .ld 0 .rlx .word 37,
  .ld 0 .rlx .word 37,
  .cas 0 .ar .word 37 46 37 true,
  .ld 0 .rlx (.rc 0) 1,
  .cas 0 .rlx (.rc 0) 1 2 1 true,
  .ld 0 .rlx .word 46,
  .cas 0 .rel .word 46 44 46 true,
  .st 0 .rel (.waiting 0) 0 1,
  .semV 0 0,
  .ret 0 .unlock none,
  .semPRet 1 0,
  .ld 1 .acq (.waiting 0) 0,
  .ld 1 .rlx .word 44,
  .cas 1 .acq .word 44 5 44 true,
  .ret 1 .lock none,
  .call 1 .unlock,
  .cas 1 .rel .word 1 0 5 false,
  .ld 1 .rlx .word 5,
  .ld 1 .rlx .word 5,
  .cas 1 .ar .word 5 14 5 true,
  .ld 1 .rlx (.rc 1) 0,
  .cas 1 .rlx (.rc 1) 0 1 0 true,
  .ld 1 .rlx .word 14,
  .cas 1 .rel .word 14 8 14 true,
  .st 1 .rel (.waiting 1) 0 1,
  .semV 1 1,
  .ret 1 .unlock none,
  .semPRet 2 1,
  .ld 2 .acq (.waiting 1) 0,
  .ld 2 .rlx .word 8,
  .cas 2 .acq .word 8 1 8 true,
  .ret 2 .lock none,
  .call 2 .unlock,
  .cas 2 .rel .word 1 0 1 true,
  .ret 2 .unlock none
]

set_option maxRecDepth 4096 in
example : accepts ⟨false⟩ traceFront = true := by decide
-- both queued: [w0, w1]
example : queueAfter ⟨false⟩ (traceFront.take 20) = some [0, 1] := by decide
-- thread 0's unlock_slow has removed w0
example : queueAfter ⟨false⟩ (traceFront.take 34) = some [1] := by decide
-- thread 1 lost the race and re-queued: w0 is in FRONT of w1 (make_last would give [1, 0])
set_option maxRecDepth 4096 in
example : queueAfter ⟨false⟩ (traceFront.take 46) = some [0, 1] := by decide
-- thread 1 has acquired: writer bit, MU_WAITING and MU_WRITER_WAITING (w1 is still queued)
set_option maxRecDepth 4096 in
example : wordAfter ⟨false⟩ (traceFront.take 66) = some 5 ∧ queueAfter ⟨false⟩ (traceFront.take 66) = some [1] := by decide
-- the trace is not accepted under a mutated step: dropping the V of the first wake-up is rejected
set_option maxRecDepth 4096 in
example : accepts ⟨false⟩ (traceFront.take 34 ++ traceFront.drop 35) = false := by decide

/-- Three threads, BINARY semaphores.  Writer 0 holds; readers 1 and 2 queue; 0's unlock_slow wakes
    BOTH readers in one scan (two remove_count increments, one final CAS, two stores, two Vs). -/
def traceBatch : List Event := [
  .call 0 .lock,
  .cas 0 .acq .word 0 1 0 true,
  .ret 0 .lock none,
  .call 0 .unlock,
  .call 1 .rlock,
  .cas 1 .acq .word 0 256 1 false,
  .ld 1 .rlx .word 1,
  .ld 1 .rlx .word 1,
  .cas 1 .acq .word 1 7 1 true,
  .st 1 .rlx (.waiting 0) 1 0,
  .ld 1 .rlx .word 7,
  .cas 1 .rel .word 7 5 7 true,
  .ld 1 .acq (.waiting 0) 1,
  .semPEnter 1 0,
  .call 2 .rlock,
  .cas 2 .acq .word 0 256 5 false,
  .ld 2 .rlx .word 5,
  .ld 2 .rlx .word 5,
  .cas 2 .acq .word 5 7 5 true,
  .st 2 .rlx (.waiting 1) 1 0,
  .ld 2 .rlx .word 7,
  .cas 2 .rel .word 7 5 7 true,
  .ld 2 .acq (.waiting 1) 1,
  .semPEnter 2 1,
  .cas 0 .rel .word 1 0 5 false,
  .ld 0 .rlx .word 5,
  .ld 0 .rlx .word 5,
  .cas 0 .ar .word 5 14 5 true,
  .ld 0 .rlx (.rc 0) 0,
  .cas 0 .rlx (.rc 0) 0 1 0 true,
  .ld 0 .rlx (.rc 1) 0,
  .cas 0 .rlx (.rc 1) 0 1 0 true,
  .ld 0 .rlx .word 14,
  .cas 0 .rel .word 14 8 14 true,
  .st 0 .rel (.waiting 0) 0 1,
  .semV 0 0,
  .st 0 .rel (.waiting 1) 0 1,
  .semV 0 1,
  .ret 0 .unlock none,
  .semPRet 1 0,
  .ld 1 .acq (.waiting 0) 0,
  .ld 1 .rlx .word 8,
  .cas 1 .acq .word 8 256 8 true,
  .ret 1 .rlock none,
  .call 1 .runlock,
  .semPRet 2 1,
  .ld 2 .acq (.waiting 1) 0,
  .ld 2 .rlx .word 256,
  .cas 2 .acq .word 256 512 256 true,
  .ret 2 .rlock none,
  .call 2 .runlock,
  .cas 1 .rel .word 256 0 512 false,
  .ld 1 .rlx .word 512,
  .cas 1 .rel .word 512 256 512 true,
  .ret 1 .runlock none,
  .cas 2 .rel .word 256 0 256 true,
  .ret 2 .runlock none
]

set_option maxRecDepth 4096 in
example : accepts ⟨true⟩ traceBatch = true := by decide
example : queueAfter ⟨true⟩ (traceBatch.take 20) = some [0, 1] := by decide
-- after the final CAS of thread 0: queue empty, word = MU_DESIG_WAKER only
set_option maxRecDepth 4096 in
example : queueAfter ⟨true⟩ (traceBatch.take 34) = some [] ∧ wordAfter ⟨true⟩ (traceBatch.take 34) = some 8 := by decide
-- both readers hold: reader count 2
set_option maxRecDepth 4096 in
example : wordAfter ⟨true⟩ (traceBatch.take 50) = some 512 := by decide

def checkAfter (cfg : Cfg) (evs : List Event) (f : State → Bool) : Bool :=
  match run cfg init evs with
  | .ok s => f s
  | .error _ => false

/-- The hypotheses of `C02_no_stuck_state` are satisfiable (initial state), and states with
    sleepers exist: after 24 events of `traceFront` threads 1 and 2 are asleep on semaphores with
    count 0, both records are queued, and the responsible party is thread 0, which owns the writer
    share (it is inside nsync_mu_unlock, before its first CAS). -/
example : ∀ t, IdleHoldingNothing init t := fun _ => ⟨rfl, rfl⟩

set_option maxRecDepth 4096 in
example : checkAfter ⟨false⟩ (traceFront.take 24) (fun s =>
    decide (s.pc 1 = .lsPRet { l := .W, w := some 0, clear := false, ign := false, wc := 0, lwl := false }) &&
    decide (s.pc 2 = .lsPRet { l := .W, w := some 1, clear := false, ign := false, wc := 0, lwl := false }) &&
    (s.wr 0).sem == 0 && (s.wr 1).sem == 0 && decide (s.queue = [0, 1]) &&
    decide (shareOf s 0 = some .W) && decide (s.pc 0 = .ulCas0 .W)) = true := by decide

end NsyncVerif.MuQ
