/-
  Property C16, condition-variable observer half.

  "Calling nsync_mu_debug_state, nsync_cv_debug_state or their *_and_waiters variants concurrently
   with any other operations on the same mutex or condition variable never changes who holds the
   mutex, never loses a wake-up and never deadlocks.  For every buffer size n they write only
   within buf[0..n-1] …"

  (Buffer half: `Props/C16Buffer.lean`; mutex observers: `Props/C16Observer.lean`.)

  Model: `NsyncVerif/Model/CvFix.lean` EXTENDED with observer threads — /repo/internal/debug.c
  `emit_cv_state` entered through `nsync_cv_debug_state` (`DKind.state`: blocking = 0,
  print_waiters = 0), `nsync_cv_debug_state_and_waiters` (`.waiters`: 1, 1) and `nsync_cv_debugger`
  (`.debugger`: 0, 1) — at the granularity of the rest of the model (one atomic operation per
  step): the load [debug.c/6], the shared `nsync_spin_test_and_set_` loop, the two loads of
  `emit_waiters` per pooled waiter [debug.c/0, debug.c/1], the release store [debug.c/7].
  `Reachable` now ranges over executions in which any number of threads make debug calls at any
  time, interleaved with waiters (plain, timed, cancellable, reader-mode, generic, nsync_wait_n),
  signallers and broadcasters.  EVERY theorem of Props/C04Fix.lean, C13CvFix.lean, C05CvFix.lean
  and C03Signal.lean is proved for this extended model with its statement unchanged
  (`Loc.holds` now includes the observer's two program points `dWalk`, `dRc`).

  WHAT IS PROVED HERE (all in full)
  * `C16_cv_observer`  a step of a thread inside a debug call leaves the queue, EVERY record (status,
      `waiting`, `remove_count`, owner, all ghosts), every other thread's frame, the CV_NON_EMPTY
      bit, the semaphores, the clock unchanged; the word changes only at the successful
      test-and-set (spin bit set, `old` := the word found) and at the release store (the word becomes
      `old` again = the current word minus the spin bit).  `C16_cv_observer_holds_word`: in between
      the word is constantly `old | CV_SPINLOCK` and the observer is THE holder.
      `C16_cv_no_lost_wake`: the queue invariant and the no-lost-wake invariant of C04 hold in
      every reachable state of the extended model (stated explicitly; they are `C04_queue_inv`,
      `C04_no_lost_wake`).
  * `C16_cv_observer_release_exact`  the release store writes the value the test-and-set returned,
      and that value is the current word minus the spinlock bit.  This is where "every word change
      happens under the spinlock" enters (`Proofs/CvFixObs.lean`: `InvO`, proved from `InvA.hold` /
      `holder_unique`, i.e. `C04_spinlock_excl`).
  * `C16_cv_observer_progress`  (a) between the successful test-and-set and the release store the
      observer has no loop: each of its steps releases or decreases `dbgFuel ≤ 2·|queue|+1`;
      (b) `nsync_cv_debug_state` never touches the spinlock, and no variant takes it when
      CV_NON_EMPTY is clear; `nsync_cv_debugger` does not wait when it finds the spinlock held;
      (c) a thread inside a debug call performs no semaphore operation (every one is rejected): it
      never sleeps.
  * `C16_cv_observer_record_access`  every record an observer's step reads is, at that moment, in
      the cv queue with `waiting = 1`, the observer holds the spinlock, and the record's owner is
      still inside its wait: a pooled waiter's owner is in the loop of nsync_cv_wait_with_deadline
      on this very record (`InvH`), an nsync_wait_n record's call is in progress (`alive`).
  * controls (`decide`): `C16_cv_stale_release_rejected` — the release with the word loaded BEFORE
      the test-and-set (seed /verif/seeded/C16-cv-debug-stale-word) is rejected on two concrete
      traces, the correct value is accepted, and forcing the stale value breaks the invariants
      (spinlock left set with no holder: every later wait/signal spins forever; or CV_NON_EMPTY
      set on an empty queue).

  LIMITS (explicit)
  * `nsync_cv_debugger` with the spinlock free at the load calls `nsync_spin_test_and_set_` like
    the blocking variant; if it loses the race it spins there (the code does, debug.c:248).  (b)
    says exactly what holds.
  * NOT MODELLED, and a finding about the code: when print_waiters != 0 and the spinlock is not
    taken (CV_NON_EMPTY clear at the load [debug.c/6]; or nsync_cv_debugger finding the spinlock
    held) debug.c:255 still evaluates `emit_waiters (b, cv->waiters)` WITHOUT the spinlock: a
    waiter enqueued after the load is walked unprotected (plain reads racing with the list
    operations of cv.c; for nsync_cv_debugger the source comment itself calls that combination not safe, for
    nsync_cv_debug_state_and_waiters it does not).  Reads only: none of the three claims of C16
    (holder, wake-ups, deadlock) nor the buffer bound is affected; `touches` gives these reads no
    label and `C16_cv_observer_record_access` does not cover them.  In the harness the window cannot
    open (no scheduling point between the load and the read of `cv->waiters`).
  * `emit_waiters` applies DLL_WAITER to every element; for a bare `nsync_waiter_s` of nsync_wait_n
    that is no `waiter` (it reads `w->tag` in front of the record, finds no WAITER_TAG and stops).
    The model rejects the two loads for such an element (the walk stops there).
-/
import NsyncVerif.Proofs.CvFixObsStep
import NsyncVerif.Props.C13CvFix

namespace NsyncVerif.CvFix

/-! ### C16_cv_observer -/

/-- While an observer holds the spinlock it is the holder, the cv word is its local `word`
    (`old`: what the test-and-set returned) plus the spinlock bit, and nobody else is in a critical
    section. -/
theorem C16_cv_observer_holds_word {cfg : Config} {s : State} {t : Tid} (h : Reachable cfg s)
    (hl : (s.thr t).loc.dbgHolds = true) :
    s.holder = some t ∧ s.word = { (s.thr t).old with spin := true } ∧ (s.thr t).old.spin = false ∧
    (∀ u, (s.thr u).loc.holds = true → u = t) := by
  have ha := (inv_reachable h).a
  have hh : s.holder = some t := (ha.hold t).mpr (dbgHolds_holds hl)
  have hsp : s.word.spin = true := by have := ha.spin; rw [hh] at this; simpa using this
  have hne := (invO_reachable h t).oldW hl
  refine ⟨hh, ?_, (ha.old t hh).1, fun u hu => ha.holder_unique (dbgHolds_holds hl) hu⟩
  cases hw : s.word with | mk sp ne =>
  rw [hw] at hsp hne; simp at hsp hne; subst hsp
  simp [hne]

/-- A step of a thread that is inside a debug call changes nothing of the cv but the spinlock bit:
    the queue, every record, every other thread's frame, the CV_NON_EMPTY bit, the semaphores, the
    clock and the ghosts are unchanged; the thread stays inside its call or returns from `dRet`;
    and the word changes only at the successful test-and-set (which remembers the word it found in
    `old`) and at the release store (which puts `old` back). -/
theorem C16_cv_observer {cfg : Config} {s s' : State} {e : Event} {t : Tid} (h : Reachable cfg s)
    (hs : step cfg s e = .ok s') (ht : e.tid = some t) (hd : inDebug (s.thr t) = true) :
    s'.queue = s.queue ∧ s'.recs = s.recs ∧ (∀ u, u ≠ t → s'.thr u = s.thr u) ∧
    s'.word.ne = s.word.ne ∧ s'.sem = s.sem ∧ s'.now = s.now ∧ s'.seq = s.seq ∧ s'.bad = s.bad ∧
    (inDebug (s'.thr t) = true ∨ ((s'.thr t).loc = .idle ∧ (s.thr t).loc = .dRet)) ∧
    (s'.word ≠ s.word →
      ((∃ exp new obs, e = .wordCas t exp new obs true) ∧ s.word.spin = false ∧
        s'.word = { s.word with spin := true } ∧ (s'.thr t).loc = .dWalk ∧ (s'.thr t).old = s.word ∧
        s'.holder = some t) ∨
      ((∃ new obs, e = .wordSt t .dbgRel new obs) ∧ s.word.spin = true ∧
        s'.word = { s.word with spin := false } ∧ s'.word = (s.thr t).old ∧ (s'.thr t).loc = .dRet ∧
        s'.holder = none)) := by
  have ha := (inv_reachable h).a
  rcases obs_step hs ht hd with ⟨rfl, _⟩ | ⟨x', hl, rfl⟩ | ⟨exp, new, obs, n, rfl, hl, hc, hexp, he1, _, hn, hnew, rfl⟩ |
      ⟨new, obs, n, rfl, hl, hh, hnew, _, hn, hsp, rfl⟩
  · exact ⟨rfl, rfl, fun _ _ => rfl, rfl, rfl, rfl, rfl, rfl, .inl hd, fun hne => absurd rfl hne⟩
  · obtain ⟨h1, _, _⟩ := obs_ltr hl hd
    refine ⟨rfl, rfl, fun u hu => by simp [hu], rfl, rfl, rfl, rfl, rfl, by simpa using h1, fun hne => absurd rfl hne⟩
  · -- the successful test-and-set
    have hev := (ha.thr t).casEven hl
    have hspin : s.word.spin = false := enc_even_spin (by rw [← he1, hexp]; exact hev)
    have hne0 := (invO_reachable h t).noNE (by simp [hl, Loc.spinLoop]) hc
    rw [he1] at hnew; rw [hnew] at hn
    obtain ⟨n1, n2⟩ := acq_words hspin hn
    rw [hne0] at n2; simp at n2
    have hw : n = { s.word with spin := true } := by
      cases n with | mk a b => cases hw : s.word with | mk c d => rw [hw] at n2; simp_all
    refine ⟨rfl, rfl, fun u hu => by simp [hu], by simp [n2], rfl, rfl, rfl, rfl, .inl (by simp [inDebug]), fun _ => ?_⟩
    exact .inl ⟨⟨_, _, _, rfl⟩, hspin, by simp [hw], by simp, by simp, rfl⟩
  · -- the release store
    have hold := (C16_cv_observer_holds_word h (t := t) (by simp [hl, Loc.dbgHolds]))
    have hn' : n = (s.thr t).old := word_of_dec hnew hn
    have hsw : s.word.spin = true := by rw [hold.2.1]
    have hne : (s.thr t).old.ne = s.word.ne := by rw [hold.2.1]
    have hw : n = { s.word with spin := false } := by
      rw [hn']; cases ho : (s.thr t).old with | mk a b =>
      have := hold.2.2.1; rw [ho] at this hne; simp at this hne; subst this; simp [hne]
    refine ⟨rfl, rfl, fun u hu => by simp [hu], by simp [hn', hne], rfl, rfl, rfl, rfl, .inl (by simp [inDebug]), fun _ => ?_⟩
    exact .inr ⟨⟨_, _, rfl⟩, hsw, by simp [hw], by simp [hn'], by simp, rfl⟩

/-- "Never loses a wake-up": the queue invariant and the no-lost-wake invariant of C04 hold in every
    reachable state of the model WITH observers (these are `C04_queue_inv` and `C04_no_lost_wake`,
    whose `Reachable` now ranges over executions containing debug calls). -/
theorem C16_cv_no_lost_wake {cfg : Config} {s : State} (h : Reachable cfg s) :
    ((s.word.spin = false → (s.word.ne = true ↔ s.queue ≠ [])) ∧ s.queue.Nodup ∧
      (∀ r, r ∈ s.queue → (s.recs r).waiting = true) ∧ (∀ r, r ∈ s.queue ↔ (s.recs r).stat = .queued)) ∧
    (∀ r, (∀ u, (s.recs r).stat = .listed u → r ∈ (s.thr u).list ∧ (s.thr u).loc.wakePhase = true) ∧
      (∀ u, (s.recs r).stat = .listed u → (s.recs r).waiting = true) ∧
      ((s.recs r).stat = .woken → (s.recs r).waiting = false ∧
        ((s.recs r).posted = true ∨ ∃ u, (s.thr u).cur = some (r, (s.recs r).enqSeq) ∧ (s.thr u).loc = .wwV))) :=
  ⟨C04_queue_inv h, fun r => C04_no_lost_wake h r⟩

/-! ### C16_cv_observer_release_exact -/

/-- The release store of emit_cv_state [debug.c/7] writes the value `nsync_spin_test_and_set_`
    returned (`old`), and that value is the CURRENT word minus the spinlock bit: nobody changed the
    word while the observer held the spinlock.  After the store the word is free with the same
    CV_NON_EMPTY bit. -/
theorem C16_cv_observer_release_exact {cfg : Config} {s s' : State} {t : Tid} {new obs : Nat}
    (h : Reachable cfg s) (hs : step cfg s (.wordSt t .dbgRel new obs) = .ok s') :
    new = (s.thr t).old.enc ∧ (s.thr t).old = { s.word with spin := false } ∧ s.word.spin = true ∧
    obs = s.word.enc ∧ obs = new + 1 ∧ s.holder = some t ∧
    s'.word = { s.word with spin := false } ∧ s'.holder = none := by
  obtain ⟨hl, hnew, hh, hobs, n, hn, hsp, rfl⟩ := dbgRel_accepted hs
  have hold := C16_cv_observer_holds_word h (t := t) (by simp [hl, Loc.dbgHolds])
  have hn' : n = (s.thr t).old := word_of_dec hnew hn
  have hw : (s.thr t).old = { s.word with spin := false } := by
    rw [hold.2.1]
    cases ho : (s.thr t).old with | mk a b =>
    have := hold.2.2.1; rw [ho] at this; simp at this; subst this; rfl
  refine ⟨hnew, hw, by rw [hold.2.1], hobs, ?_, hh, by simp [hn', hw], rfl⟩
  rw [hobs, hnew, hw]
  cases hsw : s.word with | mk a b =>
  have : s.word.spin = true := by rw [hold.2.1]
  rw [hsw] at this; simp at this; subst this
  cases b <;> simp [Word.enc]

/-! ### C16_cv_observer_progress -/

/-- What is left of the walk of emit_waiters: two loads per queue element not yet printed, and the
    release store (one more step when the next event is a `waiting` load or the store). -/
def dbgFuel (s : State) (t : Tid) : Nat :=
  2 * (s.queue.length - (s.thr t).dIdx) + (if (s.thr t).loc = .dWalk then 1 else 0)

/-- (a) No loop between the successful test-and-set and the release store: every ATOMIC OPERATION of
    an observer that holds the spinlock is the release store, or it decreases `dbgFuel`
    (≤ 2·|queue| + 1; the queue cannot change meanwhile: `C16_cv_observer_holds_word`).  The only
    other accepted event of such a thread is a ghost mark that changes nothing. -/
theorem C16_cv_observer_bounded_hold {cfg : Config} {s s' : State} {e : Event} {t : Tid}
    (_h : Reachable cfg s) (hs : step cfg s e = .ok s') (ht : e.tid = some t)
    (hl : (s.thr t).loc.dbgHolds = true) :
    (s' = s ∧ e.isAtomic = false) ∨
    ((∃ new obs, e = .wordSt t .dbgRel new obs) ∧ (s'.thr t).loc = .dRet ∧ s'.holder = none ∧
      s'.word.spin = false) ∨
    ((s'.thr t).loc.dbgHolds = true ∧ s'.queue = s.queue ∧ dbgFuel s' t < dbgFuel s t) := by
  have hd := dbgHolds_inDebug hl
  rcases obs_step hs ht hd with hst | ⟨x', hlt, rfl⟩ | ⟨_, _, _, _, _, hl', _⟩ | ⟨new, obs, n, rfl, _, _, _, _, _, hsp, rfl⟩
  · exact .inl hst
  · right; right
    obtain ⟨_, _, _, hw⟩ := obs_ltr hlt hd
    rcases (hw hl).2 with ⟨r, obs, _, hlw, hq, _, hx, hi⟩ | ⟨r, obs, _, hlr, hq, hx, hi⟩
    · -- `waiting` load of the walk: dWalk → dRc
      refine ⟨by simp [hx, Loc.dbgHolds], rfl, ?_⟩
      simp [dbgFuel, hx, hi, hlw]
    · -- `remove_count` load of the walk: dRc → dWalk, one element further
      obtain ⟨hlt', _⟩ := List.getElem?_eq_some_iff.mp hq
      refine ⟨by simp [hx, Loc.dbgHolds], rfl, ?_⟩
      simp [dbgFuel, hx, hi, hlr]; omega
  · rw [hl'] at hl; simp [Loc.dbgHolds] at hl
  · exact .inr (.inl ⟨⟨_, _, rfl⟩, by simp, rfl, hsp⟩)

/-- (b) The first load decides (debug.c:245-250): emit_cv_state goes for the spinlock only if
    print_waiters != 0, CV_NON_EMPTY was set, and (blocking, or the spinlock was free at the load);
    otherwise its next event is the `ret`.  So `nsync_cv_debug_state` never touches the spinlock,
    nobody takes it for an empty queue, and `nsync_cv_debugger` never waits for a spinlock it found
    held. -/
theorem C16_cv_observer_first_load {cfg : Config} {s s' : State} {t : Tid} {obs : Nat}
    (hs : step cfg s (.wordLd t .dbgLd obs) = .ok s') :
    (s.thr t).loc = .dLd ∧ obs = s.word.enc ∧
    (((s.thr t).dk.printWaiters = false ∨ obs / 2 % 2 = 0 ∨ ((s.thr t).dk.blocking = false ∧ obs % 2 = 1)) →
      (s'.thr t).loc = .dRet) ∧
    ((s'.thr t).loc = .dRet ∨
      ((s'.thr t).loc = .spLd0 ∧ (s'.thr t).cont = .dbg ∧ dbgAcquires (s.thr t).dk obs = true)) := by
  simp only [step, stepWordLd, need_ok] at hs
  obtain ⟨ho, hs⟩ := hs
  split at hs
  all_goals try (rename_i h1 h2; cases h1)
  · have hl := h2
    cases hs
    refine ⟨hl, ho, ?_, ?_⟩
    · intro hc
      have : dbgAcquires (s.thr t).dk obs = false := by
        unfold dbgAcquires
        rcases hc with hc | hc | ⟨hc1, hc2⟩
        · simp [hc]
        · simp [hc]
        · simp [hc1, hc2]
      simp [this]
    · by_cases hq : dbgAcquires (s.thr t).dk obs = true <;> simp [hq]
  · cases hs

/-- … and in every reachable state an observer that is in the test-and-set loop or holds the spinlock
    is there because debug.c:246-247 said so: print_waiters, CV_NON_EMPTY seen, and it is the blocking
    variant or saw the spinlock free.  In particular a thread inside `nsync_cv_debug_state` is never
    in the loop and never holds the spinlock. -/
theorem C16_cv_observer_why_locked {cfg : Config} {s : State} {t : Tid} (h : Reachable cfg s)
    (hl : ((s.thr t).loc.spinLoop = true ∧ (s.thr t).cont = .dbg) ∨ (s.thr t).loc.dbgHolds = true) :
    (s.thr t).dk.printWaiters = true ∧ (s.thr t).dWord / 2 % 2 = 1 ∧
    ((s.thr t).dk.blocking = true ∨ (s.thr t).dWord % 2 = 0) ∧ (s.thr t).dk ≠ .state := by
  have := (invO_reachable h t).why hl
  unfold dbgAcquires at this
  simp only [Bool.and_eq_true, Bool.or_eq_true, decide_eq_true_eq] at this
  refine ⟨this.1.2, this.1.1, this.2, ?_⟩
  intro e; rw [e] at this; simp [DKind.printWaiters] at this

/-- (c) A thread inside a debug call performs no semaphore operation: the acceptor rejects every one
    of them.  It never sleeps. -/
theorem C16_cv_observer_never_sleeps {cfg : Config} {s : State} {t : Tid}
    (hd : inDebug (s.thr t) = true) (k : SemId) (dl : Option Nat) (b : Bool) :
    (∃ m, step cfg s (.semPEnter t k) = .error m) ∧ (∃ m, step cfg s (.semPRet t k) = .error m) ∧
    (∃ m, step cfg s (.semPdEnter t k dl) = .error m) ∧ (∃ m, step cfg s (.semPdRet t k b) = .error m) ∧
    (∃ m, step cfg s (.semV t k) = .error m) := by
  have hno := inDebug_not_open hd
  unfold inDebug at hd
  refine ⟨?_, ?_, ?_, ?_, ?_⟩
  · simp [step, need, hno]
  · simp [step, need, hno]
  · simp only [step, stepSemPdEnter]
    cases hl : (s.thr t).loc <;> simp_all
  · simp only [step, stepSemPdRet]
    cases hl : (s.thr t).loc <;> simp_all
  · simp only [step, stepSemV]
    cases hl : (s.thr t).loc <;> simp_all [need, Loc.isOpen]

/-- Progress of observers: (a) bounded hold, (b) the non-blocking variants do not wait, (c) no
    semaphore operation. -/
theorem C16_cv_observer_progress {cfg : Config} :
    (∀ (s s' : State) (e : Event) (t : Tid), Reachable cfg s → step cfg s e = .ok s' → e.tid = some t →
      (s.thr t).loc.dbgHolds = true →
      (s' = s ∧ e.isAtomic = false) ∨
      ((∃ new obs, e = .wordSt t .dbgRel new obs) ∧ (s'.thr t).loc = .dRet ∧ s'.holder = none ∧
        s'.word.spin = false) ∨
      ((s'.thr t).loc.dbgHolds = true ∧ s'.queue = s.queue ∧ dbgFuel s' t < dbgFuel s t)) ∧
    (∀ (s : State) (t : Tid), dbgFuel s t ≤ 2 * s.queue.length + 1) ∧
    (∀ (s s' : State) (t : Tid) (obs : Nat), step cfg s (.wordLd t .dbgLd obs) = .ok s' →
      ((s.thr t).dk.printWaiters = false ∨ obs / 2 % 2 = 0 ∨ ((s.thr t).dk.blocking = false ∧ obs % 2 = 1)) →
      (s'.thr t).loc = .dRet) ∧
    (∀ (s : State) (t : Tid), Reachable cfg s → (s.thr t).dk = .state →
      ¬ ((s.thr t).loc.spinLoop = true ∧ (s.thr t).cont = .dbg) ∧ (s.thr t).loc.dbgHolds = false) ∧
    (∀ (s : State) (t : Tid) (k : SemId) (dl : Option Nat) (b : Bool), inDebug (s.thr t) = true →
      (∃ m, step cfg s (.semPEnter t k) = .error m) ∧ (∃ m, step cfg s (.semPRet t k) = .error m) ∧
      (∃ m, step cfg s (.semPdEnter t k dl) = .error m) ∧ (∃ m, step cfg s (.semPdRet t k b) = .error m) ∧
      (∃ m, step cfg s (.semV t k) = .error m)) := by
  refine ⟨fun s s' e t h hs ht hl => C16_cv_observer_bounded_hold h hs ht hl, ?_,
    fun s s' t obs hs hc => (C16_cv_observer_first_load hs).2.2.1 hc, ?_,
    fun s t k dl b hd => C16_cv_observer_never_sleeps hd k dl b⟩
  · intro s t; unfold dbgFuel; split <;> omega
  · intro s t h hk
    refine ⟨fun hc => (C16_cv_observer_why_locked h (.inl hc)).2.2.2 hk, ?_⟩
    cases hb : (s.thr t).loc.dbgHolds
    · rfl
    · exact absurd hk (C16_cv_observer_why_locked h (.inr hb)).2.2.2

/-! ### C16_cv_observer_record_access -/

theorem touches_nonatomic {s : State} {e : Event} (h : e.isAtomic = false) : touches s e = [] := by
  cases e <;> simp [Event.isAtomic] at h <;> rfl

theorem inDebug_not_waiting {x : Thr} (h : inDebug x = true) : waitLive x = false ∧ inWaitN x = false := by
  unfold inDebug at h
  unfold waitLive inWaitN
  cases hl : x.loc <;> simp_all

/-- Every record a step of an observer reads (`touches`: the `waiting` / `remove_count` loads of
    emit_waiters with the plain reads around them, and the rest of the walk at the release store) is,
    at that moment, in the cv queue — while the observer holds the spinlock — with `waiting = 1`, and
    its owner is another thread that is still inside its wait: for a pooled waiter the owner is in
    the loop of nsync_cv_wait_with_deadline working on this record; for a record of nsync_wait_n the
    call that created it is in progress (`alive`: its stack frame / heap array is valid).  The
    observer never reads a dead record. -/
theorem C16_cv_observer_record_access {cfg : Config} {s s' : State} {e : Event} {t : Tid} {r : Rid}
    (h : Reachable cfg s) (hs : step cfg s e = .ok s') (ht : e.tid = some t)
    (hd : inDebug (s.thr t) = true) (hr : r ∈ touches s e) :
    (s.thr t).loc.dbgHolds = true ∧ s.holder = some t ∧ r ∈ s.queue ∧ (s.recs r).stat = .queued ∧
    (s.recs r).waiting = true ∧ (s.recs r).owner ≠ t ∧
    (r.isMucv = true → waitLive (s.thr (s.recs r).owner) = true ∧ (s.thr (s.recs r).owner).r = r) ∧
    (r.isMucv = false → alive s r = true) := by
  have hi := inv_reachable h
  have key : (s.thr t).loc.dbgHolds = true ∧ r ∈ s.queue := by
    rcases obs_step hs ht hd with ⟨_, hna⟩ | ⟨x', hlt, _⟩ | ⟨_, _, _, _, rfl, hl, hc, _⟩ | ⟨_, _, _, rfl, hl, _⟩
    · rw [touches_nonatomic hna] at hr; cases hr
    · exact (obs_ltr hlt hd).2.2.1 r hr
    · simp [touches, hc] at hr
    · simp [touches] at hr; exact ⟨by simp [hl, Loc.dbgHolds], hr⟩
  obtain ⟨hh, hq⟩ := key
  have hst := (hi.a.qMem r).mp hq
  have hmu : r.isMucv = true → waitLive (s.thr (s.recs r).owner) = true ∧ (s.thr (s.recs r).owner).r = r :=
    fun hm => (invH_reachable h).own r hm hst
  have hal : r.isMucv = false → alive s r = true :=
    fun hm => registered_alive hi.a (invG_reachable h) r hm (by rw [hst]; simp)
  refine ⟨hh, (hi.a.hold t).mpr (dbgHolds_holds hh), hq, hst, hi.a.qWait r hst, ?_, hmu, hal⟩
  intro ho
  obtain ⟨n1, n2⟩ := inDebug_not_waiting hd
  cases hm : r.isMucv
  · have := hal hm
    unfold alive at this
    rw [ho, n2] at this; simp at this
  · have := (hmu hm).1
    rw [ho, n1] at this; cases this

/-! ### non-vacuity and controls -/

/-- One writer-mode waiter (thread 0, record w0) asleep; thread 1 calls
    nsync_cv_debug_state_and_waiters (load 2, test-and-set 2 → 3, walk: `waiting` and `remove_count`
    of w0, release store 2) and then nsync_cv_debug_state (one load); thread 2 broadcasts. -/
def exObserver : List Event := [
  .tick 100, .callWait 0 false none false, .wInit 0 (.w 0), .recSt 0 .wSt1 (.w 0) 1 0, .muLd 0 .wMode 1,
  .wordLd 0 .spin0 0, .wordCas 0 0 3 0 true, .recLd 0 .wRc (.w 0) 0, .wordSt 0 .waitRel 2 3,
  .relMark 0 .wr, .nret 0, .recLd 0 .wHead (.w 0) 1, .semPdEnter 0 0 none,
  .callDebug 1 .waiters, .wordLd 1 .dbgLd 2, .wordLd 1 .spin0 2, .wordCas 1 2 3 2 true,
  .recLd 1 .dbgW (.w 0) 1, .recLd 1 .dbgRc (.w 0) 0, .wordSt 1 .dbgRel 2 3, .retDebug 1 .waiters,
  .callDebug 1 .state, .wordLd 1 .dbgLd 2, .retDebug 1 .state,
  .callBroadcast 2, .wordLd 2 .bcLd 2, .wordLd 2 .spin0 2, .wordCas 2 2 3 2 true,
  .recLd 2 .bRcLd (.w 0) 0, .recCas 2 .bRcCas (.w 0) 0 1 0 true, .wordSt 2 .bcRel 0 3,
  .muLd 2 .wwLd 0, .recSt 2 .wake (.w 0) 0 1, .semV 2 0, .retBroadcast 2,
  .semPdRet 0 0 false, .recLd 0 .wTail (.w 0) 0, .recLd 0 .wHead (.w 0) 0, .lockMark 0 .wr, .nret 0,
  .retWait 0 .ok]

example : okRun ⟨false⟩ exObserver = true := by decide
example : okRun ⟨true⟩ exObserver = true := by decide
/-- the hypotheses of `C16_cv_observer`, `…_bounded_hold`, `…_record_access` are satisfiable: after 17
    events the observer holds the spinlock, the next event (the `waiting` load) is accepted and
    touches w0, which is queued and owned by thread 0 inside its wait -/
example : okRun ⟨false⟩ (exObserver.take 18) = true ∧
    inDebug ((runD ⟨false⟩ (exObserver.take 17)).thr 1) = true ∧
    ((runD ⟨false⟩ (exObserver.take 17)).thr 1).loc = .dWalk ∧
    (runD ⟨false⟩ (exObserver.take 17)).holder = some 1 ∧
    touches (runD ⟨false⟩ (exObserver.take 17)) (.recLd 1 .dbgW (.w 0) 1) = [.w 0] ∧
    touches (runD ⟨false⟩ (exObserver.take 19)) (.wordSt 1 .dbgRel 2 3) = [.w 0] ∧
    ((runD ⟨false⟩ (exObserver.take 17)).recs (.w 0)).owner = 0 ∧
    ((runD ⟨false⟩ (exObserver.take 17)).thr 0).loc = .wSemRet ∧
    dbgFuel (runD ⟨false⟩ (exObserver.take 17)) 1 = 3 ∧ dbgFuel (runD ⟨false⟩ (exObserver.take 18)) 1 = 2 ∧
    dbgFuel (runD ⟨false⟩ (exObserver.take 19)) 1 = 1 := by decide
/-- the word after the debug call is the word before it -/
example : (runD ⟨false⟩ (exObserver.take 13)).word = (runD ⟨false⟩ (exObserver.take 21)).word ∧
    (runD ⟨false⟩ (exObserver.take 21)).queue = [.w 0] ∧
    ((runD ⟨false⟩ (exObserver.take 21)).recs (.w 0)).stat = .queued := by decide
/-- the walk may stop early (output buffer full): release right after the test-and-set -/
example : okRun ⟨false⟩ (exObserver.take 17 ++ [.wordSt 1 .dbgRel 2 3, .retDebug 1 .waiters]) = true := by decide
/-- … but not between the two loads of one element, and not with a different element -/
example : okRun ⟨false⟩ (exObserver.take 18 ++ [.wordSt 1 .dbgRel 2 3]) = false ∧
    okRun ⟨false⟩ (exObserver.take 17 ++ [.recLd 1 .dbgW (.w 1) 0]) = false ∧
    okRun ⟨false⟩ (exObserver.take 19 ++ [.recLd 1 .dbgW (.w 0) 1]) = false := by decide
/-- an observer does no semaphore operation, and nsync_cv_debug_state does not touch the spinlock -/
example : okRun ⟨false⟩ (exObserver.take 17 ++ [.semPEnter 1 5]) = false ∧
    okRun ⟨false⟩ (exObserver.take 17 ++ [.semV 1 0]) = false ∧
    okRun ⟨false⟩ (exObserver.take 23 ++ [.wordLd 1 .spin0 2]) = false := by decide

/-- A timed waiter (thread 0) is in its timeout path holding the spinlock (word 3) when the blocking
    observer (thread 1) loads the word; the waiter removes itself and releases with 0 (queue empty);
    the observer's test-and-set returns 0.  `staleTrace` ends with the observer holding the
    spinlock. -/
def staleTrace : List Event := [
  .tick 100, .callWait 0 false (some 150) false, .recSt 0 .wSt1 (.w 0) 1 0, .muLd 0 .wMode 1,
  .wordLd 0 .spin0 0, .wordCas 0 0 3 0 true, .recLd 0 .wRc (.w 0) 0, .wordSt 0 .waitRel 2 3,
  .relMark 0 .wr, .nret 0, .recLd 0 .wHead (.w 0) 1, .semPdEnter 0 0 (some 150), .tick 150,
  .semPdRet 0 0 true, .recLd 0 .wChk (.w 0) 1, .wordLd 0 .spin0 2, .wordCas 0 2 3 2 true,
  .callDebug 1 .waiters, .wordLd 1 .dbgLd 3, .wordLd 1 .spin0 3,
  .recLd 0 .wChk2 (.w 0) 1, .recLd 0 .wCmp (.w 0) 0, .recLd 0 .wRmLd (.w 0) 0,
  .recCas 0 .wRmCas (.w 0) 0 1 0 true, .recSt 0 .wClr (.w 0) 0 1, .wordSt 0 .waitRel2 0 3,
  .wordLd 1 .spin2 0, .wordCas 1 0 1 0 true]

/-- The same race with the spinlock free at the observer's load (word 2): the waiter times out and
    removes itself between the load and the test-and-set. -/
def staleTrace2 : List Event := [
  .tick 100, .callWait 0 false (some 150) false, .recSt 0 .wSt1 (.w 0) 1 0, .muLd 0 .wMode 1,
  .wordLd 0 .spin0 0, .wordCas 0 0 3 0 true, .recLd 0 .wRc (.w 0) 0, .wordSt 0 .waitRel 2 3,
  .relMark 0 .wr, .nret 0, .recLd 0 .wHead (.w 0) 1, .semPdEnter 0 0 (some 150), .tick 150,
  .callDebug 1 .waiters, .wordLd 1 .dbgLd 2,
  .semPdRet 0 0 true, .recLd 0 .wChk (.w 0) 1, .wordLd 0 .spin0 2, .wordCas 0 2 3 2 true,
  .recLd 0 .wChk2 (.w 0) 1, .recLd 0 .wCmp (.w 0) 0, .recLd 0 .wRmLd (.w 0) 0,
  .recCas 0 .wRmCas (.w 0) 0 1 0 true, .recSt 0 .wClr (.w 0) 0 1, .wordSt 0 .waitRel2 0 3,
  .wordLd 1 .spin0 0, .wordCas 1 0 1 0 true]

/-- What the seeded bug does: the release store writes the local `word` as loaded BEFORE the
    test-and-set (`dWord`), whatever the model thinks of it. -/
def staleRelease (s : State) (t : Tid) : State :=
  match Word.dec? (s.thr t).dWord with
  | some w => { s with word := w, holder := none }
  | none => s

/-- Control: the variant observer that releases with the STALE word (the shape of
    /verif/seeded/C16-cv-debug-stale-word: `nsync_spin_test_and_set_ (…)` without the assignment to
    `word`) is rejected by the acceptor, the value the test-and-set returned is accepted, and the
    stale value, if forced, breaks the invariants: in the first trace the spinlock bit is left set
    with no holder (every later wait, signal or debug call spins forever: deadlock), in the second
    CV_NON_EMPTY is set on an empty queue with the spinlock free (`C04_queue_inv` fails). -/
theorem C16_cv_stale_release_rejected :
    okRun ⟨false⟩ staleTrace = true ∧
    ((runD ⟨false⟩ staleTrace).thr 1).dWord = 3 ∧ ((runD ⟨false⟩ staleTrace).thr 1).old.enc = 0 ∧
    okRun ⟨false⟩ (staleTrace ++ [.wordSt 1 .dbgRel 3 1]) = false ∧
    okRun ⟨false⟩ (staleTrace ++ [.wordSt 1 .dbgRel 0 1, .retDebug 1 .waiters]) = true ∧
    ((staleRelease (runD ⟨false⟩ staleTrace) 1).word.spin = true ∧
      (staleRelease (runD ⟨false⟩ staleTrace) 1).holder = none) ∧
    okRun ⟨false⟩ staleTrace2 = true ∧
    ((runD ⟨false⟩ staleTrace2).thr 1).dWord = 2 ∧ ((runD ⟨false⟩ staleTrace2).thr 1).old.enc = 0 ∧
    okRun ⟨false⟩ (staleTrace2 ++ [.wordSt 1 .dbgRel 2 1]) = false ∧
    okRun ⟨false⟩ (staleTrace2 ++ [.wordSt 1 .dbgRel 0 1, .retDebug 1 .waiters]) = true ∧
    ((staleRelease (runD ⟨false⟩ staleTrace2) 1).word.spin = false ∧
      (staleRelease (runD ⟨false⟩ staleTrace2) 1).word.ne = true ∧
      (staleRelease (runD ⟨false⟩ staleTrace2) 1).queue = []) := by decide

/-- The forced stale states are NOT reachable (they violate `C04_queue_inv` / `C04_spinlock_excl`'s
    invariant `word.spin = holder.isSome`). -/
theorem C16_cv_stale_states_unreachable {cfg : Config} :
    ¬ Reachable cfg (staleRelease (runD ⟨false⟩ staleTrace) 1) ∧
    ¬ Reachable cfg (staleRelease (runD ⟨false⟩ staleTrace2) 1) := by
  constructor
  · intro h
    have := (inv_reachable h).a.spin
    have e : (staleRelease (runD ⟨false⟩ staleTrace) 1).word.spin = true ∧
        (staleRelease (runD ⟨false⟩ staleTrace) 1).holder = none := by decide
    rw [e.1, e.2] at this; cases this
  · intro h
    have := (C04_queue_inv h).1
    have e : (staleRelease (runD ⟨false⟩ staleTrace2) 1).word.spin = false ∧
        (staleRelease (runD ⟨false⟩ staleTrace2) 1).word.ne = true ∧
        (staleRelease (runD ⟨false⟩ staleTrace2) 1).queue = [] := by decide
    have := (this e.1).mp e.2.1
    exact this e.2.2

end NsyncVerif.CvFix
