/-
  Props/C11FairFull.lean — property C11, LIVENESS form, at full strength: `C11_fair_termination_full` and
  `C11_fair_index_full` of Props/C11Fair.lean are PROVED here (no `_partial`, no sorry, no axiom).

  Props/C11Fair.lean proves both statements with the hypothesis `FiniteWakeups x t` (the P of the caller returns 0 only
  finitely often) in place of `FiniteStrayPosts x` (from some time on a semaphore that belongs to an in-flight call is
  only posted by a waker that owes the post for a live record of that call).  The missing link is
  `C11_fair_finite_wakeups` (Proofs/WaitNFairCount1–4.lean): for a call that never returns, `FiniteStrayPosts` implies
  `FiniteWakeups`.  Were the caller woken again and again, it would be in its sleep loop for ever with the same records
  and the same semaphore; the number of its records with `waiting` set cannot increase there, so it is eventually
  constant; from then on no record of the call is popped (a pop clears a `waiting` that was set: `PostEff`), so nobody
  comes to owe a post for one of them; the finitely many threads that owe one (`post_support`) make it (`ower_posts`,
  weak fairness) and owe nothing afterwards; then nobody posts the call's semaphore any more (`FiniteStrayPosts`), its
  count does not go up (`SemUp`) and every wake-up takes a token (`wake_dec`): contradiction.
-/
import NsyncVerif.Props.C11Fair
import NsyncVerif.Proofs.WaitNFairCount4

namespace WaitN

/-- For a call that never returns, finitely many stray posts mean finitely many wake-ups. -/
theorem C11_fair_finite_wakeups {s0 : State} (x : Exec s0) (hr : Reachable s0) (hw : WeakFair x) (hl : LockFair x)
    (hf : ForeignRelease x) (hsp : FiniteStrayPosts x) (t : Tid) (i : Nat)
    (hni : ∀ j, i ≤ j → (x.ρ j).pc t ≠ .idle) : FiniteWakeups x t :=
  finiteWakeups_of_stray x ⟨hr, hw, hl, hf⟩ hsp t i hni

/-- FAIR TERMINATION, as stated: in every execution of the WaitN model from a reachable state that is weakly fair, in
    which the object locks are starvation free and foreign holders release them, the clock passes every deadline a
    sleeper waits for and stray posts stop, every nsync_wait_n call returns provided its abs_deadline is finite or one
    of its objects becomes ready for it while it is at the P. -/
theorem C11_fair_termination : C11_fair_termination_full := by
  intro s0 x hr hw hl hf hc hsp t i hin hprov
  apply Classical.byContradiction
  intro hno
  have hni : ∀ j, i ≤ j → (x.ρ j).pc t ≠ .idle := fun j hj h => hno ⟨j, hj, h⟩
  exact hno (C11_fair_termination_partial x hr hw hl hf hc t
    (C11_fair_finite_wakeups x hr hw hl hf hsp t i hni) i hin hprov)

/-- … and without abs_deadline it returns the index of a ready object, not `count`. -/
theorem C11_fair_index : C11_fair_index_full := by
  intro s0 x hr hw hl hf hc hsp t i hin hdl hrdy
  obtain ⟨j, hj, hidle⟩ := C11_fair_termination s0 x hr hw hl hf hc hsp t i hin (.inr hrdy)
  obtain ⟨k, r, nested, hk, _, hall, hev, hk1⟩ := returns_by_ret x hr t i j hj hin hidle
  have hstep := x.next_some hev
  obtain ⟨d, rfl⟩ : ∃ d, k = i + d := ⟨k - i, by omega⟩
  have hdlk : ((x.ρ (i + d)).fr t).dl = none := by
    rw [dl_keep x hr t i d (fun m h1 h2 hm => by have := hall m h1 h2; rw [hm] at this; cases this)]; exact hdl
  have hrk := x.reach hr (i + d)
  obtain ⟨_, hl', _⟩ := ret_facts hrk hstep
  have hle : r ≤ ((x.ρ (i + d)).fr t).count := by
    rw [hl'.1]
    rcases hl'.2 with ⟨_, h, _⟩ | ⟨hpost, _⟩
    · exact h
    · exact hpost.rdy.le
  have hne : r ≠ ((x.ρ (i + d)).fr t).count := by
    intro heq
    rcases C11_timeout hrk hstep heq with ⟨h, _⟩ | ⟨h, _⟩
    · rw [hdlk] at h; cases h
    · rw [hdlk] at h; cases h
  have hlt : r < ((x.ρ (i + d)).fr t).count := Nat.lt_of_le_of_ne hle hne
  exact ⟨i + d, r, nested, hk, hev, hk1, hlt, C11_index_ready hrk hstep hlt⟩

/-! ### non-vacuity: the full theorems applied to the concrete executions of Props/C11Fair.lean -/

/-- `timeoutExec` (case (a)): the sleeping caller of time 34 returns. -/
example : ∃ j, 34 ≤ j ∧ (timeoutExec.ρ j).pc 0 = .idle :=
  C11_fair_termination init timeoutExec timeout_hyps.1 timeout_hyps.2.1 timeout_hyps.2.2.1 timeout_hyps.2.2.2.1
    timeout_hyps.2.2.2.2.1 timeout_hyps.2.2.2.2.2.2 0 34 timeout_call.2.2.1 (.inl ⟨500, timeout_call.2.2.2⟩)

/-- `wokenExec` (case (b)): the counter has just reached zero at time 49, the caller is asleep without a token; it
    returns. -/
example : ∃ j, 49 ≤ j ∧ (wokenExec.ρ j).pc 0 = .idle :=
  C11_fair_termination init wokenExec woken_hyps.1 woken_hyps.2.1 woken_hyps.2.2.1 woken_hyps.2.2.2.1
    woken_hyps.2.2.2.2.1 woken_hyps.2.2.2.2.2.2 0 49 (by rw [woken_sleeps.2.2.2.2.2.2.1]; rfl)
    (.inr ⟨49, 1, .stk 1, Nat.le_refl _,
      fun j h1 h2 => by
        have : j = 49 := Nat.le_antisymm h2 h1
        subst this; rw [woken_sleeps.2.2.2.2.2.2.1]; simp,
      .inr ⟨3, woken_sleeps.2.2.2.2.2.2.1⟩, woken_call.2.2.1, woken_call.2.2.2⟩)

end WaitN
