/-
  Property C07, liveness half — "every call of nsync_run_once / _arg / _spin / _arg_spin returns,
  and by then the initializer has run exactly once and ended" — for ALL fair schedules.

  Model: `NsyncVerif/Model/Once.lean` (once.c statement by statement), as in `Props/C07.lean`; any
  number of threads and once objects, any mix of the four entry points, any hashing of once
  objects to `once_sync[]` slots (once objects sharing a slot included), any spurious wake-up /
  timeout of the cv wait.  Definitions (`Exec`, `WeakFair`, `LockFair`, `InitReturns`, the
  `…_full` statements) are in `Proofs/OnceFairExec.lean`; the proof is in
  `Proofs/OnceFairStep.lean` (ranks, one-step lemmas) and `Proofs/OnceFairMain.lean` (chain).

  STATUS: everything below is proved in full (no `_partial`):
  * `C07_fair_termination : C07_fair_termination_full`
  * `C07_fair_exactly_once : C07_fair_exactly_once_full`
  * `C07_fair_lock_free_again`, `C07_fair_moves`, `C07_fair_done` (the intermediate leads-to facts)
  * `C07_fair_needs_weak_fair`, `C07_fair_needs_init_returns`, `C07_fair_needs_lock_fair`
    (each hypothesis is needed: an execution satisfying the others in which calls never return)
  * non-vacuity: `fairExec` with `fair_hyps` and the examples after it.

  THE ENABLEDNESS / FAIRNESS NOTIONS, and why
  `C07_progress` says: a thread inside run_once has an accepted next event (`Enabled`) unless it
  is at a lock acquisition (`ret nsync_mu_lock`, `ret nsync_cv_wait_with_deadline`:
  `PC.LockWait cfg k`) and the slot lock `k` is held by another thread.  Accordingly
  * `Ready cfg s t` := inside a call, executing LIBRARY code (not between `cb start` and `cb end`),
    and the awaited slot lock, if any, is free.  `Ready → Enabled` (`ready_enabled`).
  * `WeakFair`: a thread that is continuously `Ready` from some time on moves.  For a thread at a
    lock acquisition this is the weak form: it must move only if the lock is CONTINUOUSLY free;
    while the lock is held nothing is asked of it.
  * The client's function is excluded from `Ready` on purpose: the acceptor would accept `cb end`
    at any time, but whether `f` returns is the client's business, so it is the separate
    hypothesis `InitReturns` (and `C07_fair_needs_init_returns` shows it cannot be dropped).
  * Weak fairness of the lock acquisition is TOO WEAK, and `FiniteArrivals` (the remedy of
    C02Fair) does NOT help here: `C07_fair_needs_lock_fair` is a weakly fair execution with two
    calls and no further arrival in which the winner waits for ever at once.c:82
    (`nsync_mu_lock` after `f`) because a loser barges in for ever — its cv wait times out
    (≤ 50 ms deadline, once.c:93-94, any return time is accepted by assumption A2), re-acquires
    the slot lock, re-reads the word (1), waits again — so that the lock is free again and again
    but never continuously.  The hypothesis that is needed is starvation freedom of the slot
    lock, `LockFair`: a thread that waits for slot lock `k` for ever while `k` is free
    infinitely often moves (strong fairness of the acquisition, the liveness half of assumption
    A1 of Model/Once.lean).  It is an ASSUMPTION of this layer about the slot lock, exactly as
    mutual exclusion is; it is NOT derived from C02Fair (whose `FiniteArrivals` fails here: every
    timed-out cv wait is a fresh acquisition of `once_mu`).  What nsync_mu offers towards it: a
    waiter that has lost 30 times sets MU_LONG_WAIT, which blocks fresh acquirers (C14).
    That the lock is free infinitely often is not assumed: it is proved
    (`C07_fair_lock_free_again`: a holder never blocks and releases within 5 own steps).
-/
import NsyncVerif.Proofs.OnceFairTrace

namespace Once

/-! ### the theorems -/

/-- Every slot lock is free again and again (so the premise of `LockFair` is always met). -/
theorem C07_fair_lock_free_again {cfg : Config} {s0 : State} (x : Exec cfg s0)
    (hr : Reachable cfg s0) (hw : WeakFair x) (hl : LockFair x) (hi : InitReturns x)
    (k : SlotId) (i : Nat) : ∃ j, i ≤ j ∧ (x.ρ j).lockHolder k = none :=
  lock_free_again x ⟨hr, hw, hl, hi⟩ k i

/-- Every thread inside a call takes another step. -/
theorem C07_fair_moves {cfg : Config} {s0 : State} (x : Exec cfg s0)
    (hr : Reachable cfg s0) (hw : WeakFair x) (hl : LockFair x) (hi : InitReturns x)
    {t : Tid} {i : Nat} (hp : (x.ρ i).pc t ≠ .idle) : ∃ j, i ≤ j ∧ Moves x t j :=
  eventually_moves x ⟨hr, hw, hl, hi⟩ hp

/-- The once object of a call in progress is eventually done (word 2, for ever). -/
theorem C07_fair_done {cfg : Config} {s0 : State} (x : Exec cfg s0)
    (hr : Reachable cfg s0) (hw : WeakFair x) (hl : LockFair x) (hi : InitReturns x)
    {t : Tid} {f : Frame} {i : Nat} (hf : ((x.ρ i).pc t).frame? = some f) :
    ∃ j, i ≤ j ∧ ∀ j', j ≤ j' → (x.ρ j').word f.o = 2 := by
  obtain ⟨j, hj, h2⟩ := word_to_2 x ⟨hr, hw, hl, hi⟩ hf
  exact ⟨j, hj, word2_stable x hr h2⟩

/-- FAIR TERMINATION: in every weakly fair execution from a reachable state in which the slot
    locks are starvation free and the client's function returns, every call of
    nsync_run_once / _arg / _spin / _arg_spin returns. -/
theorem C07_fair_termination : C07_fair_termination_full := by
  intro cfg s0 x hr hw hl hi t i hp
  exact fair_returns x ⟨hr, hw, hl, hi⟩ hp

/-- … and when it returns the initializer of its once object has been started exactly once and
    ended exactly once, by the CAS winner (`C07_exactly_once` at the state after the `ret`). -/
theorem C07_fair_exactly_once : C07_fair_exactly_once_full := by
  intro cfg s0 x hr hw hl hi t i f hf
  exact fair_returns_once x ⟨hr, hw, hl, hi⟩ hf

/-! ### concrete executions (hashing `exCfg`: every once object on slot 0) -/

theorem two_le_of_ne {t : Nat} (h1 : t ≠ 1) (h0 : t ≠ 0) : 2 ≤ t := by omega
theorem lt3_cases {t : Nat} (h : t < 3) : t = 0 ∨ t = 1 ∨ t = 2 := by omega
theorem three_le_of_not_lt {t : Nat} (h : ¬ t < 3) : 3 ≤ t := by omega

def PC.inUserB : PC → Bool
  | .wCbEnd _ => true
  | _ => false

theorem inUserB_of_eq {p : PC} {f : Frame} (h : p = .wCbEnd f) : p.inUserB = true := by
  subst h; rfl

/-- `nsync_run_once` by thread `t` on once 0 up to the successful CAS and the release of the slot
    lock: the thread is about to enter `f`. -/
def winPrefix (t : Tid) : List Event :=
  [.call t true false 0, .ld t (.outer true false) .acq 0 0, .ld t .impl .acq 0 0,
   .muLockCall t 0, .muLockRet t, .cas t .impl .acq 0 0 1 0 true,
   .muUnlockCall t 0, .muUnlockRet t]

/-! #### `WeakFair` is needed (trivially: otherwise nobody need move) -/

def stallA : State := (run exCfg init [.call 0 true false 0]).toOption.get (by decide)

theorem stall_reach : Reachable exCfg stallA := run_ok_of_isSome _

theorem stallA_pc (t : Tid) : (t = 0 → stallA.pc t = .outerLd ⟨0, true, false⟩) ∧
    (t ≠ 0 → stallA.pc t = .idle) := by
  refine ⟨fun h => by subst h; decide, fun h => ?_⟩
  exact run_untouched [.call 0 true false 0] init stallA
    (tidsBelow_ne (n := 1) (by decide) (Nat.pos_of_ne_zero h)) (ok_of_isSome _ _)

/-- T0 has called nsync_run_once and nothing happens any more. -/
def stallExec : Exec exCfg stallA := traceExec exCfg stallA [] stallA rfl

theorem stall_at (j : Nat) : stallExec.ρ j = stallA ∧ stallExec.σ j = none :=
  traceExec_tail (cfg := exCfg) (s := stallA) (evs := []) rfl (Nat.zero_le j)

/-- `WeakFair` cannot be dropped: all other hypotheses hold and the call never returns. -/
theorem C07_fair_needs_weak_fair :
    ∃ x : Exec exCfg stallA, Reachable exCfg stallA ∧ LockFair x ∧ InitReturns x ∧
      FiniteArrivals x ∧ ¬ WeakFair x ∧ ∀ j, (x.ρ j).pc 0 = .outerLd ⟨0, true, false⟩ := by
  have hpc0 := (stallA_pc 0).1 rfl
  refine ⟨stallExec, stall_reach, ?_, ?_, ⟨0, ?_⟩, ?_, ?_⟩
  · intro t k i h _
    have hL := h i (Nat.le_refl _)
    rw [(stall_at i).1] at hL
    by_cases ht : t = 0
    · subst ht; rw [hpc0] at hL; simp [PC.LockWait] at hL
    · rw [(stallA_pc t).2 ht] at hL; simp [PC.LockWait] at hL
  · intro t i f hp
    rw [(stall_at i).1] at hp
    by_cases ht : t = 0
    · subst ht; rw [hpc0] at hp; cases hp
    · rw [(stallA_pc t).2 ht] at hp; cases hp
  · intro j t b a o _ he
    rw [(stall_at j).2] at he; cases he
  · intro hwf
    obtain ⟨j, _, e, he, _⟩ := hwf 0 0 (fun j _ => by
      rw [Ready, (stall_at j).1, hpc0]
      exact ⟨(by intro h; cases h), (by intro h; exact h), (by intro k hk; simp [PC.LockWait] at hk)⟩)
    rw [(stall_at j).2] at he; cases he
  · intro j; rw [(stall_at j).1]; exact hpc0

/-! #### `InitReturns` is needed -/

/-- T0 (nsync_run_once) wins once 0 and enters `f`; T1 (nsync_run_once_spin) arrives, sees 1 and
    is in the spin loop of once.c:87. -/
def cbPre : List Event :=
  winPrefix 0 ++ [.cbStart 0 false,
   .call 1 false false 0, .ld 1 (.outer false false) .acq 0 1, .ld 1 .impl .acq 0 1]

/-- One iteration of the spin loop of T1. -/
def cbLoop : List Event := [.ld 1 .impl .acq 0 1]

def cbA : State := (run exCfg init cbPre).toOption.get (by decide)

theorem cb_reach : Reachable exCfg cbA := run_ok_of_isSome _

theorem cbA_facts : cbA.pc 0 = .wCbEnd ⟨0, true, false⟩ ∧ cbA.pc 1 = .waitLd ⟨0, false, false⟩ ∧
    cbA.word 0 = 1 := by decide

theorem cbA_idle {t : Tid} (ht : 2 ≤ t) : cbA.pc t = .idle :=
  run_untouched cbPre init cbA (tidsBelow_ne (n := 2) (by decide) ht) (ok_of_isSome _ _)

theorem cb_cycle : run exCfg cbA cbLoop = .ok cbA := by
  obtain ⟨_, h1, hw⟩ := cbA_facts
  have : cbA.setPc 1 (.waitLd ⟨0, false, false⟩) = cbA := by
    simp only [State.setPc, upd_eq_self h1]
  simp [cbLoop, run, step, h1, need, hw, this]

/-- T0 stays in `f` for ever, T1 spins for ever. -/
def cbExec : Exec exCfg cbA := loopExec exCfg cbA cbLoop cb_cycle (by decide)

theorem cb_at (j : Nat) : cbExec.ρ j = cbA ∧ cbExec.σ j = some (.ld 1 .impl .acq 0 1) := by
  have h := loopExec_at cb_cycle (by decide) j
  have hm : j % cbLoop.length = 0 := by show j % 1 = 0; omega
  rw [hm] at h
  exact ⟨h.1.trans (by simp [stateFrom, run]), h.2.trans (by simp [cbLoop])⟩

/-- `InitReturns` cannot be dropped: a weakly fair execution from a reachable state, with
    starvation-free locks and no arrival at all, in which the client's function does not return
    and NO call ever returns (neither the winner's nor the spinning loser's). -/
theorem C07_fair_needs_init_returns :
    ∃ x : Exec exCfg cbA, Reachable exCfg cbA ∧ WeakFair x ∧ LockFair x ∧ FiniteArrivals x ∧
      ¬ InitReturns x ∧
      (∀ j, (x.ρ j).pc 0 = .wCbEnd ⟨0, true, false⟩) ∧
      (∀ j, (x.ρ j).pc 1 = .waitLd ⟨0, false, false⟩) := by
  obtain ⟨h0, h1, _⟩ := cbA_facts
  refine ⟨cbExec, cb_reach, ?_, ?_, ⟨0, ?_⟩, ?_, ?_, ?_⟩
  · intro t i h
    by_cases ht1 : t = 1
    · subst ht1; exact ⟨i, Nat.le_refl _, _, (cb_at i).2, rfl⟩
    · have hR := h i (Nat.le_refl _)
      rw [(cb_at i).1] at hR
      by_cases ht0 : t = 0
      · subst ht0; exact absurd (by rw [h0]; trivial) hR.2.1
      · exact absurd (cbA_idle (two_le_of_ne ht1 ht0)) hR.1
  · intro t k i h _
    have hL := h i (Nat.le_refl _)
    rw [(cb_at i).1] at hL
    by_cases ht1 : t = 1
    · subst ht1; rw [h1] at hL; simp [PC.LockWait] at hL
    · by_cases ht0 : t = 0
      · subst ht0; rw [h0] at hL; simp [PC.LockWait] at hL
      · rw [cbA_idle (two_le_of_ne ht1 ht0)] at hL; simp [PC.LockWait] at hL
  · intro j t b a o _ he
    rw [(cb_at j).2] at he; cases he
  · intro hir
    obtain ⟨j, _, hs⟩ := hir 0 0 ⟨0, true, false⟩ (by rw [(cb_at 0).1]; exact h0)
    rw [(cb_at j).2] at hs; cases hs
  · intro j; rw [(cb_at j).1]; exact h0
  · intro j; rw [(cb_at j).1]; exact h1

/-! #### `LockFair` is needed (weak fairness of the acquisition is not enough, finitely many
    arrivals do not help) -/

/-- T0 (nsync_run_once) wins once 0, runs `f` to its end and calls `nsync_mu_lock` (once.c:82);
    T1 (nsync_run_once) arrives, sees 1, takes the slot lock, and sleeps on the cv. -/
def bargePre : List Event :=
  winPrefix 0 ++ [.cbStart 0 false, .cbEnd 0 false, .muLockCall 0 0,
   .call 1 true false 0, .ld 1 (.outer true false) .acq 0 1, .ld 1 .impl .acq 0 1,
   .muLockCall 1 0, .muLockRet 1, .ld 1 .impl .acq 0 1, .cvWaitCall 1 0 0]

/-- One iteration of the wait loop of T1: the cv wait times out (re-acquiring the slot lock), the
    word is still 1, wait again (releasing the lock). -/
def bargeLoop : List Event := [.cvWaitRet 1 true, .ld 1 .impl .acq 0 1, .cvWaitCall 1 0 0]

def bargeA : State := (run exCfg init bargePre).toOption.get (by decide)

theorem barge_reach : Reachable exCfg bargeA := run_ok_of_isSome _

theorem bargeA_facts : bargeA.pc 0 = .wLockRet ⟨0, true, false⟩ ∧
    bargeA.pc 1 = .cvWaitRet ⟨0, true, false⟩ ∧ bargeA.word 0 = 1 ∧ bargeA.lockHolder 0 = none := by
  decide

theorem bargeA_idle {t : Tid} (ht : 2 ≤ t) : bargeA.pc t = .idle :=
  run_untouched bargePre init bargeA (tidsBelow_ne (n := 2) (by decide) ht) (ok_of_isSome _ _)

theorem barge_cycle : run exCfg bargeA bargeLoop = .ok bargeA := by
  obtain ⟨_, h1, hw, hl⟩ := bargeA_facts
  have e : ({ bargeA with
      lockHolder := upd (upd bargeA.lockHolder 0 (some 1)) 0 none
      pc := upd (upd (upd bargeA.pc 1 (.waitLd ⟨0, true, false⟩)) 1 (.cvWaitCall ⟨0, true, false⟩)) 1
              (.cvWaitRet ⟨0, true, false⟩) } : State) = bargeA := by
    rw [upd_upd, upd_upd, upd_upd, upd_eq_self h1, upd_eq_self hl]
  simp [bargeLoop, run, step, h1, need, hw, hl, exCfg, State.setPc, State.acquire, State.release, e]

/-- T0 waits for the slot lock for ever while T1 goes round its wait loop for ever. -/
def bargeExec : Exec exCfg bargeA := loopExec exCfg bargeA bargeLoop barge_cycle (by decide)

theorem barge_state (j : Nat) :
    bargeExec.ρ j = stateFrom exCfg bargeA (bargeLoop.take (j % 3)) := rfl

theorem barge_ev (j : Nat) : bargeExec.σ j = bargeLoop[j % 3]? := rfl

theorem barge_loop_tids : ∀ e ∈ bargeLoop, e.tid = some 1 := by decide

theorem barge_pc0 (j : Nat) : (bargeExec.ρ j).pc 0 = .wLockRet ⟨0, true, false⟩ := by
  have := loopExec_untouched barge_cycle (by decide) (t := 0)
    (fun e he => by rw [barge_loop_tids e he]; decide) j
  exact this.trans bargeA_facts.1

theorem barge_idle (j : Nat) {t : Tid} (ht : 2 ≤ t) : (bargeExec.ρ j).pc t = .idle := by
  have := loopExec_untouched barge_cycle (by decide) (t := t)
    (fun e he => by rw [barge_loop_tids e he]; intro h; cases h; exact absurd ht (by decide)) j
  exact this.trans (bargeA_idle ht)

theorem barge_states : ∀ r, r < 3 →
    ((stateFrom exCfg bargeA (bargeLoop.take r)).pc 1).inUserB = false ∧
    (r = 1 → (stateFrom exCfg bargeA (bargeLoop.take r)).lockHolder 0 = some 1) ∧
    (r = 0 → (stateFrom exCfg bargeA (bargeLoop.take r)).lockHolder 0 = none) ∧
    (stateFrom exCfg bargeA (bargeLoop.take r)).pc 1 ≠ .idle := by
  decide

theorem barge_moves (j : Nat) : Moves bargeExec 1 j := by
  have hlt : j % 3 < bargeLoop.length := by show j % 3 < 3; omega
  refine ⟨bargeLoop[j % 3], ?_, barge_loop_tids _ (List.getElem_mem hlt)⟩
  rw [barge_ev]; exact List.getElem?_eq_getElem hlt

/-- `LockFair` cannot be replaced by weak fairness of the lock acquisition, not even with finitely
    many arrivals: a weakly fair execution from a reachable state, in which the client's function
    has returned, nobody calls run_once any more and the slot lock is free again and again, and
    yet the winner's call never returns (it waits at once.c:82 for ever) — nor does the loser's. -/
theorem C07_fair_needs_lock_fair :
    ∃ x : Exec exCfg bargeA, Reachable exCfg bargeA ∧ WeakFair x ∧ InitReturns x ∧
      FiniteArrivals x ∧ ¬ LockFair x ∧
      (∀ j, ∃ j', j ≤ j' ∧ (x.ρ j').lockHolder 0 = none) ∧
      (∀ j, (x.ρ j).pc 0 = .wLockRet ⟨0, true, false⟩) ∧
      (∀ j, (x.ρ j).pc 1 ≠ .idle) := by
  have hwf : WeakFair bargeExec := by
    intro t i h
    by_cases ht1 : t = 1
    · subst ht1; exact ⟨i, Nat.le_refl _, barge_moves i⟩
    · by_cases ht0 : t = 0
      · subst ht0
        -- one step after a time that is a multiple of 3 the lock is held by T1
        have hR := h (3 * i + 1) (by omega)
        have hl := (barge_states 1 (by omega)).2.1 rfl
        have hm : (3 * i + 1) % 3 = 1 := by omega
        have hfree := hR.2.2 0 (by rw [barge_pc0]; simp [PC.LockWait, exCfg])
        rw [barge_state, hm, hl] at hfree
        cases hfree
      · exact absurd (barge_idle i (two_le_of_ne ht1 ht0)) (h i (Nat.le_refl _)).1
  have hir : InitReturns bargeExec := by
    intro t i f hp
    exfalso
    by_cases ht1 : t = 1
    · subst ht1
      have := (barge_states (i % 3) (by omega)).1
      rw [← barge_state, inUserB_of_eq hp] at this
      cases this
    · by_cases ht0 : t = 0
      · subst ht0; rw [barge_pc0] at hp; cases hp
      · rw [barge_idle i (two_le_of_ne ht1 ht0)] at hp; cases hp
  refine ⟨bargeExec, barge_reach, hwf, hir, ⟨0, ?_⟩, ?_, ?_, barge_pc0, ?_⟩
  · intro j t b a o _ he
    have hlt : j % 3 < bargeLoop.length := by show j % 3 < 3; omega
    rw [barge_ev, List.getElem?_eq_getElem hlt] at he
    have := barge_loop_tids _ (List.getElem_mem hlt)
    have hc : bargeLoop[j % 3] = .call t b a o := Option.some.inj he
    have h3 : j % 3 = 0 ∨ j % 3 = 1 ∨ j % 3 = 2 := by omega
    rcases h3 with h3 | h3 | h3 <;> simp [h3, bargeLoop] at hc
  · intro hlf
    obtain ⟨j, _, hidle⟩ := C07_fair_termination exCfg bargeA bargeExec barge_reach hwf hlf hir 0 0
      (by rw [barge_pc0]; intro h; cases h)
    rw [barge_pc0] at hidle; cases hidle
  · intro j
    refine ⟨3 * j, by omega, ?_⟩
    have hm : (3 * j) % 3 = 0 := by omega
    rw [barge_state, hm]
    exact (barge_states 0 (by omega)).2.2.1 rfl
  · intro j
    rw [barge_state]
    exact (barge_states (j % 3) (by omega)).2.2.2

/-! ### non-vacuity: the hypotheses hold in an execution in which threads really wait -/

/-- The accepted trace of `Props/C07.lean`: T0 (nsync_run_once) wins once 0, T1
    (nsync_run_once_spin) spins, T2 (nsync_run_once_arg) sleeps on the cv — twice — while T0 is
    inside `f`; T0 completes; everybody returns. -/
def fairEvs : List Event := exPart1 ++ exPart2

def fairFinal : State := (run exCfg init fairEvs).toOption.get (by decide)

theorem fair_run : run exCfg init fairEvs = .ok fairFinal := ok_of_isSome _ _

/-- … followed by idling for ever. -/
def fairExec : Exec exCfg init := traceExec exCfg init fairEvs fairFinal fair_run

theorem fair_final_idle (t : Tid) : fairFinal.pc t = .idle := by
  by_cases ht : t < 3
  · have h : fairFinal.pc 0 = .idle ∧ fairFinal.pc 1 = .idle ∧ fairFinal.pc 2 = .idle := by decide
    have h3 : t = 0 ∨ t = 1 ∨ t = 2 := lt3_cases ht
    rcases h3 with rfl | rfl | rfl
    · exact h.1
    · exact h.2.1
    · exact h.2.2
  · exact run_untouched fairEvs init fairFinal (tidsBelow_ne (n := 3) (by decide) (three_le_of_not_lt ht)) fair_run

theorem fair_tail {j : Nat} (hj : fairEvs.length ≤ j) : ∀ t, (fairExec.ρ j).pc t = .idle := by
  intro t
  rw [show fairExec.ρ j = fairFinal from (traceExec_tail fair_run hj).1]
  exact fair_final_idle t

/-- All hypotheses of `C07_fair_termination` hold for `fairExec`. -/
theorem fair_hyps : Reachable exCfg init ∧ WeakFair fairExec ∧ LockFair fairExec ∧
    InitReturns fairExec ∧ FiniteArrivals fairExec :=
  ⟨⟨[], rfl⟩, weakFair_of_quiescent _ _ (fun _ hj => fair_tail hj),
   lockFair_of_quiescent _ _ (fun _ hj => fair_tail hj),
   initReturns_of_quiescent _ _ (fun _ hj => fair_tail hj),
   finiteArrivals_of_tail _ fairEvs.length (fun _ hj => (traceExec_tail fair_run hj).2)⟩

/-- At time 29 (= after part 1) the word is 1, T0 is inside the initializer, T1 is in the spin loop
    (it has already loaded 1 twice), T2 sleeps on the cv with the slot lock released: the callers
    that lost really wait. -/
example : exPart1.length = 29 ∧ (fairExec.ρ 29).word 0 = 1 ∧
    (fairExec.ρ 29).pc 0 = .wCbEnd ⟨0, true, false⟩ ∧
    (fairExec.ρ 29).pc 1 = .waitLd ⟨0, false, false⟩ ∧
    (fairExec.ρ 29).pc 2 = .cvWaitRet ⟨0, true, true⟩ ∧
    (fairExec.ρ 29).lockHolder 0 = none ∧
    -- earlier, T2 really waited for the slot lock while T0 held it (events 11 … 18)
    (fairExec.ρ 12).pc 2 = .lock1Ret ⟨0, true, true⟩ 0 ∧ (fairExec.ρ 12).lockHolder 0 = some 0 ∧
    fairExec.σ 18 = some (.muLockRet 2) ∧
    fairExec.σ 25 = some (.ld 1 .impl .acq 0 1) ∧ fairExec.σ 28 = some (.cvWaitCall 2 0 0) := by
  decide

/-- The theorem applies and gives the return of the sleeping thread T2 … -/
example : ∃ j, 29 ≤ j ∧ (fairExec.ρ j).pc 2 = .idle :=
  C07_fair_termination exCfg init fairExec fair_hyps.1 fair_hyps.2.1 fair_hyps.2.2.1
    fair_hyps.2.2.2.1 2 29 (by decide)

/-- … and the corollary gives the `ret` of its call (nsync_run_once_arg) with exactly one completed
    run of the initializer, by T0. -/
example : ∃ j, 29 ≤ j ∧ fairExec.σ j = some (.ret 2 true true) ∧ (fairExec.ρ (j + 1)).pc 2 = .idle ∧
    (2, 0) ∈ (fairExec.ρ (j + 1)).returned ∧
    ∃ w, (fairExec.ρ (j + 1)).winner 0 = some w ∧ (fairExec.ρ (j + 1)).fStarts 0 = [w] ∧
      (fairExec.ρ (j + 1)).fEnds 0 = [w] ∧ (fairExec.ρ (j + 1)).word 0 = 2 :=
  C07_fair_exactly_once exCfg init fairExec fair_hyps.1 fair_hyps.2.1 fair_hyps.2.2.1
    fair_hyps.2.2.2.1 2 29 ⟨0, true, true⟩ (by decide)

/-- In the concrete execution: the three `ret`s are events 38, 40 and 45; the winner is T0. -/
example : fairExec.σ 38 = some (.ret 0 true false) ∧ fairExec.σ 40 = some (.ret 1 false false) ∧
    fairExec.σ 45 = some (.ret 2 true true) ∧ fairEvs.length = 46 ∧
    (fairExec.ρ 46).fStarts 0 = [0] ∧ (fairExec.ρ 46).fEnds 0 = [0] := by
  decide

end Once
