/-
  Property C03, cv-signal edge — everything a thread did before nsync_cv_signal /
  nsync_cv_broadcast (indeed: before its store `waiting := 0` into a waiter record, which is later)
  happens before what the woken waiter does after its wait returns, under the DECLARED memory
  orders only.

  Model: `Model/CvFix.lean` (the current /repo/internal/cv.c + sem_wait.c + the cv hooks of wait.c,
  statement by statement).  Its events carry SITES; `siteOrd` (Proofs/CvFixVC.lean; exported as
  `siteOrdTable`) is the order each site declares in the source.  Happens-before is computed by the
  generic vector-clock machine `NsyncVerif.VC` from program order and from those orders (C++20
  release sequences; a failed CAS is a relaxed load); `toVC` is the projection, `clocks fo evs` the
  clocks of an event list.  Accesses by OTHER code to record fields (`fLd`/`fSt`/`fCas`: mu.c,
  mu_wait.c, …) carry no site: their order is taken from an oracle `fo : Nat → VC.Ord` (position in
  the list ↦ order) and every theorem holds for ALL oracles.  No edge is credited to the
  semaphores, to the mutex marks, or to the interleaving.  Unbounded: any number of threads and
  records, any accepted event list, both semaphore flavours.  The mutex word cv.c itself reads and
  CASes (cv.c/0..4, cv.c/7) is ONE location of the machine (this layer has no mutex identity); the
  proofs of the wake-up edges use only the release clock of the record's `waiting` flag.
  `Proofs/CvFixVCTie.lean` ties `siteOrd` to the site tables of the replay driver (an accepted log
  carries, at every site, exactly the order the clock machine uses); `sitesAgree` is the check of
  `siteOrd` against the regenerated table of ATM_* call sites of /repo.

  The edge is carried by
    waker   `ATM_STORE_REL (&p_nw->waiting, 0)`          cv.c/5  (wake_waiters)
    waiter  `while (ATM_LOAD_ACQ (&w->nw.waiting) != 0)`  cv.c/10 (nsync_cv_wait_with_deadline_generic)
    wait_n  `ATM_LOAD_ACQ (&nw->waiting)`                 cv.c/32 (cv_dequeue), or the wait-for-waker
            loop `while (ATM_LOAD_ACQ (&nw->waiting) != 0)` cv.c/35 (cv_dequeue, repair of F3)
  and by the fact (`woken_no_store`) that between the waker's store and the owner's load nobody
  performs a plain store to that flag.

  PROVED IN FULL
    `C03_signal`              trace form, nsync_cv_wait*: waker's store … loop exit … `ret` = 0
    `C03_signal_waitn`        trace form, nsync_wait_n: waker's store … cv_dequeue's load observing 0
    `C03_signal_before_call`  program order: the waker's clock at the store covers its clock at any
                              earlier point, in particular at its `call nsync_cv_signal|broadcast`
    `C03_signal_wait`, `C03_signal_dequeue`   the same edges in state form (ghosts defined by
                              `C03_signal_ghosts`), with the waker's clock AT ITS CALL covered too
    `C03_signal_invariant`    the inductive invariant
    `C03_cv_spinlock`         the cv spinlock hands over the previous holder's clock
    `C03_signal_needs_release_store`, `C03_signal_needs_acquire_load`,
    `C03_signal_waitn_needs_acquire_load`, `C03_signal_waitn_needs_acquire_loop`
                              negative controls: with cv.c/5 relaxed, or cv.c/10, cv.c/32, cv.c/35
                              relaxed, the edge is not derivable on a concrete accepted trace
  PARTIAL (waiters TRANSFERRED to the mutex queue, cv.c:64-135)
    `C03_signal_transfer_partial`   the edge up to the transfer: the waker's clock from before its
                              `ATM_CAS_ACQ (&pmu->word)` [cv.c/1] is covered by the release clock of
                              the mutex word as soon as the waker has released the mutex' spinlock
                              with `ATM_CAS_REL (&pmu->word)` [cv.c/3].
    `C03_signal_transfer_full`      (a `def`, not proved) … and by the waiter's clock at its return.
    What is missing: the wake-up of a transferred waiter is performed by the mutex unlock path
    (mu.c: acquire CAS on the mutex word, then `ATM_STORE_REL (&w->nw.waiting, 0)`), whose
    operations on the mutex word are not events of this layer; here that store is a foreign store
    by a thread whose clock never imported the mutex word's release clock.
    `C03_signal_transfer_full_not_in_model` shows that the full statement is FALSE of this
    layer's clock machine (concrete accepted trace): it needs the product with the mutex layer.
-/
import NsyncVerif.Proofs.CvFixVCRun
import NsyncVerif.Proofs.CvFixVCTie
import NsyncVerif.Props.C04Fix

namespace NsyncVerif.CvFix
open NsyncVerif

/-! ### the product is faithful; the ghosts -/

/-- Every accepted event list has a product run; its acceptor component is the acceptor's state and
    its clock component is the clock machine run over the projected events. -/
theorem C03_signal_machine {cfg : Config} (fo : Nat → VC.Ord) {s : State} {evs : List Event}
    (h : run cfg init evs = .ok s) :
    ∃ p, prun cfg fo pinit evs = .ok p ∧ p.s = s ∧ p.c = clocks fo evs ∧ p.n = evs.length := by
  obtain ⟨p, h1, h2⟩ := prun_of_run (fo := fo) (p := pinit) h
  exact ⟨p, h1, h2, (preachable_clocks h1).1, (preachable_clocks h1).2⟩

/-- Definition of the ghosts, as a theorem. -/
theorem C03_signal_ghosts {cfg : Config} {fo : Nat → VC.Ord} {p p' : PState} {e : Event}
    (h : pstep cfg fo p e = .ok p') :
    step cfg p.s e = .ok p'.s ∧ p'.c = cstep (fo p.n) p.c e ∧
    -- set by …
    (∀ u, e = .callSignal u ∨ e = .callBroadcast u → p'.cc u = p.c.vc u) ∧
    (∀ u r n o, e = .recSt u .wake r n o → p'.wk r = some ⟨u, p.c.vc u, p.cc u⟩) ∧
    (∀ t r, e = .recLd t .wHead r 0 →
      p'.xw t = (if (p.s.recs r).stat = .woken then p.wk r else none) ∧
      p'.xt t = (if (p.s.recs r).stat = .xfer then p.xf r else none)) ∧
    (∀ u x n o r, e = .muCas u .wwCas x n o true → (p'.s.recs r).stat = .xfer →
      (p.s.recs r).stat ≠ .xfer → p'.xf r = some ⟨u, p.c.vc u, p.cc u⟩) ∧
    (∀ t site n o, e = .wordSt t site n o → p'.lastRel = p.c.vc t) ∧
    -- … and unchanged otherwise
    (∀ u, e ≠ .callSignal u → e ≠ .callBroadcast u → p'.cc u = p.cc u) ∧
    (∀ r, (∀ u n o, e ≠ .recSt u .wake r n o) → p'.wk r = p.wk r) ∧
    (∀ t, xwTid e ≠ some t → p'.xw t = p.xw t) ∧
    (∀ r, (p.s.recs r).stat = .xfer → p'.xf r = p.xf r) := by
  obtain ⟨s', hs, rfl⟩ := pstep_ok h
  refine ⟨hs, rfl, ?_, ?_, ?_, ?_, ?_, ?_, ?_, ?_, ?_⟩
  · rintro u (rfl | rfl) <;> exact VC.upd_same _ _ _
  · rintro u r n o rfl; exact VC.upd_same _ _ _
  · rintro t r rfl; exact ⟨VC.upd_same _ _ _, VC.upd_same _ _ _⟩
  · rintro u x n o r rfl h1 h2
    have h1' : (s'.recs r).stat = .xfer := h1
    simp [pnext, xfUpd, h1', h2]
  · rintro t site n o rfl; rfl
  · intro u h1 h2
    cases e <;> first | rfl | skip
    · rename_i t; simp only [pnext, ccUpd]
      exact VC.upd_other _ _ (fun hh => h1 (by rw [hh]))
    · rename_i t; simp only [pnext, ccUpd]
      exact VC.upd_other _ _ (fun hh => h2 (by rw [hh]))
  · intro r hr
    cases e <;> first | rfl | skip
    rename_i t site r' n o
    cases site <;> first | rfl | skip
    simp only [pnext, wkUpd]
    exact VC.upd_other _ _ (fun hh => hr t n o (by rw [hh]))
  · intro t ht; exact xwUpd_other p e t ht
  · intro r hr; exact xfUpd_keep p s' e r hr

/-- The inductive invariant (`VInv`, Proofs/CvFixVCInv.lean), over all reachable product states. -/
theorem C03_signal_invariant {cfg : Config} {fo : Nat → VC.Ord} {p : PState}
    (h : PReachable cfg fo p) : VInv p := vinv_preachable h

/-! ### the edge, trace form -/

/-- C03, CV-SIGNAL EDGE (nsync_cv_wait, nsync_cv_wait_with_deadline[_generic]).  Take any accepted
    event list, any store `ATM_STORE_REL (&p_nw->waiting, 0)` [cv.c/5] in it (waker `u`, inside
    nsync_cv_signal or nsync_cv_broadcast, record `r`), the first load
    `ATM_LOAD_ACQ (&w->nw.waiting)` [cv.c/10] on `r` after it that observes 0 (thread `t` leaves
    its wait loop) and the first `ret` of `t`'s wait after that.  Then the wait returns 0, and
    `u`'s clock just before its store is covered by `t`'s clock at the return: everything `u` did
    before the store happens before everything `t` does after its wait returns.  For every
    assignment `fo` of orders to the foreign accesses. -/
theorem C03_signal {cfg : Config} {fo : Nat → VC.Ord} {pre mid rest post : List Event}
    {u t : Tid} {r : Rid} {n o : Nat} {res : Outcome} {s : State}
    (h : run cfg init (pre ++ [.recSt u .wake r n o] ++ mid ++ [.recLd t .wHead r 0] ++ rest ++
          [.retWait t res] ++ post) = .ok s)
    (hmid : ∀ t', Event.recLd t' .wHead r 0 ∉ mid)
    (hrest : ∀ res', Event.retWait t res' ∉ rest) :
    res = .ok ∧
    VC.Clock.le ((clocks fo pre).vc u)
      ((clocks fo (pre ++ [.recSt u .wake r n o] ++ mid ++ [.recLd t .wHead r 0] ++ rest ++
          [.retWait t res])).vc t) :=
  signal_trace h hmid hrest

/-- C03, CV-SIGNAL EDGE (nsync_wait_n on a condition variable).  Take any accepted event list, any
    store `ATM_STORE_REL (&p_nw->waiting, 0)` [cv.c/5] in it (waker `u`, record `r`) and the first
    load of `r.waiting` by cv_dequeue after it that observes 0 — `ATM_LOAD_ACQ` at cv.c/32, or in
    the wait-for-waker loop at cv.c/35.  Then `u`'s clock just before its store is covered by the
    clock of the thread `t` inside nsync_wait_n right after that load, and that cv_dequeue reports
    the object ready (`was_queued = 0`). -/
theorem C03_signal_waitn {cfg : Config} {fo : Nat → VC.Ord} {pre mid post : List Event}
    {u t : Tid} {r : Rid} {n o : Nat} {site : RSite} {s : State}
    (h : run cfg init (pre ++ [.recSt u .wake r n o] ++ mid ++ [.recLd t site r 0] ++ post) = .ok s)
    (hsite : site = .deqLd ∨ site = .deqSpin)
    (hmid : ∀ t', Event.recLd t' .deqLd r 0 ∉ mid ∧ Event.recLd t' .deqSpin r 0 ∉ mid ∧
      Event.recLd t' .wHead r 0 ∉ mid) :
    VC.Clock.le ((clocks fo pre).vc u)
      ((clocks fo (pre ++ [.recSt u .wake r n o] ++ mid ++ [.recLd t site r 0])).vc t) ∧
    ∃ s3, run cfg init (pre ++ [.recSt u .wake r n o] ++ mid ++ [.recLd t site r 0]) = .ok s3 ∧
      (s3.thr t).wasQ = false :=
  signal_trace_waitn h hsite hmid

/-- Program order: a thread's clock covers its clock at any earlier point of the list.  With
    `pre = pre₀ ++ pre₁` in `C03_signal` / `C03_signal_waitn` (e.g. `pre₀` ending just before the
    waker's `call nsync_cv_signal`), everything the waker did before its CALL happens before the
    woken waiter's continuation. -/
theorem C03_signal_before_call (fo : Nat → VC.Ord) (pre₀ pre₁ : List Event) (u : Tid) :
    VC.Clock.le ((clocks fo pre₀).vc u) ((clocks fo (pre₀ ++ pre₁)).vc u) :=
  clocks_prefix_le fo pre₀ pre₁ u

/-! ### the edge, state form -/

/-- Whenever `ret nsync_cv_wait* ` by thread `t` is accepted and the instance of the wait was
    unlinked by a waker `u` and not transferred to the mutex queue: the wait returns 0, the ghost
    `xw t` is a wake-up by `u`, and `u`'s clock just before its store `waiting := 0` — which covers
    `u`'s clock at its call of nsync_cv_signal / nsync_cv_broadcast — is covered by `t`'s clock. -/
theorem C03_signal_wait {cfg : Config} {fo : Nat → VC.Ord} {p p' : PState} {t u : Tid}
    {res : Outcome} (h : PReachable cfg fo p) (hs : pstep cfg fo p (.retWait t res) = .ok p')
    (hu : Unl.waker u ∈ (p.s.thr t).exitUnl) (hx : (p.s.thr t).xferd = false) :
    res = .ok ∧ ∃ w, p.xw t = some w ∧ w.by_ = u ∧ VC.Clock.le w.clk (p'.c.vc t) ∧
      VC.Clock.le w.call w.clk := by
  obtain ⟨s', hs', rfl⟩ := pstep_ok hs
  have hv := vinv_preachable h
  obtain ⟨hl, _⟩ := retWait_accepted hs'
  have hal : (p.s.thr t).loc.afterLoop = true := by
    rcases hl with hl | hl <;> simp [hl, Loc.afterLoop]
  obtain ⟨w, hw, hby⟩ := hv.exit t hal hx u hu
  obtain ⟨h1, h2⟩ := hv.seen t w hw
  exact ⟨(C04_outcome_partial (preachable_reachable h) hs').2 u hu, w, hw, hby, h1, h2⟩

/-- Whenever `cv_dequeue (pcv, r)` returns 0 ("not still enqueued": the object is ready) to thread
    `t` inside nsync_wait_n: the record was unlinked by the waker of the ghost `wk r`, and that
    waker's clock just before its store `waiting := 0` — which covers its clock at its call — is
    covered by `t`'s clock. -/
theorem C03_signal_dequeue {cfg : Config} {fo : Nat → VC.Ord} {p p' : PState} {t : Tid} {r : Rid}
    {e : Event} (h : PReachable cfg fo p) (hs : pstep cfg fo p e = .ok p')
    (hd : deqReturns p.s t r e) (hq : (p.s.thr t).wasQ = false) :
    ∃ w, p.wk r = some w ∧ (p.s.recs r).unl = [Unl.waker w.by_] ∧
      VC.Clock.le w.clk (p'.c.vc t) ∧ VC.Clock.le w.call w.clk := by
  obtain ⟨s', hs', rfl⟩ := pstep_ok hs
  have hv := vinv_preachable h
  have hr := preachable_reachable h
  have hf := invF_reachable hr
  rcases hd with ⟨new, obs, rfl, hl, rfl⟩ | rfl
  · have hwk : (p.s.recs (p.s.thr t).r).stat = .woken := by
      rcases (hf.thr t).wqRel hl with ⟨a, _, _⟩ | ⟨_, _, c⟩
      · rw [hq] at a; cases a
      · exact c
    obtain ⟨w, h1, h2, _, h4⟩ := hv.woken _ hwk
    obtain ⟨w', h1', h2'⟩ := hv.deq t hl hq
    rw [h1] at h1'; cases h1'
    exact ⟨w, h1, h2, VC.Clock.le_trans h2' (cstep_mono (fo p.n) p.c (.wordSt t .deqRel new obs) t), h4⟩
  · obtain ⟨hl, hx, hw, _⟩ := deqSpin_exit_accepted hs'
    have hwk : (p.s.recs r).stat = .woken := by
      rcases (C04_dequeue_waits_for_waker hr (.inr hl)).2.2 with ⟨v, _, _, c⟩ | ⟨c, _⟩
      · rw [← hx, hw] at c; cases c
      · rw [← hx] at c; exact c
    obtain ⟨w, h1, h2, h3, h4⟩ := hv.woken r hwk
    exact ⟨w, h1, h2, VC.Clock.le_trans h3 (cstep_acq_ld (fo p.n) p.c t .deqSpin r 0 rfl), h4⟩

/-- The cv spinlock (acquire CAS common.c/1, release stores cv.c/9,17,24,28,31,34) hands over the
    clock of the previous holder at its release — hence, by induction, of all previous holders:
    the plain accesses to `pcv->waiters` inside the critical sections are ordered. -/
theorem C03_cv_spinlock {cfg : Config} {fo : Nat → VC.Ord} {p p' : PState} {t : Tid}
    {exp new obs : Nat} (h : PReachable cfg fo p)
    (hs : pstep cfg fo p (.wordCas t exp new obs true) = .ok p') :
    VC.Clock.le p.lastRel (p'.c.vc t) := by
  obtain ⟨s', _, rfl⟩ := pstep_ok hs
  exact VC.Clock.le_trans (vinv_preachable h).spin (cstep_word_cas (fo p.n) p.c t exp new obs)

/-! ### transferred waiters -/

/-- THE EDGE UP TO THE TRANSFER.  A record that wake_waiters moved to the mutex queue (status
    `xfer`): the ghost `xf r` is that transfer, its waker is the record's unlinker, the waker's
    clock from just before it took the mutex' spinlock [cv.c/1] covers its clock at its call, and
    it is covered by the RELEASE CLOCK OF THE MUTEX WORD — or the waker is still between cv.c/1 and
    its successful `ATM_CAS_REL (&pmu->word, …)` [cv.c/3], and its own clock covers it. -/
theorem C03_signal_transfer_partial {cfg : Config} {fo : Nat → VC.Ord} {p : PState}
    (h : PReachable cfg fo p) (r : Rid) (hx : (p.s.recs r).stat = .xfer) :
    ∃ w, p.xf r = some w ∧ (p.s.recs r).unl = [Unl.waker w.by_] ∧ VC.Clock.le w.call w.clk ∧
      (VC.Clock.le w.clk (p.c.relc .mu) ∨
        ((p.s.thr w.by_).loc.muHeld = true ∧ VC.Clock.le w.clk (p.c.vc w.by_))) :=
  (xinv_preachable h).xfer r hx

/-- In particular once the waker has returned from nsync_cv_signal / nsync_cv_broadcast. -/
theorem C03_signal_transfer_released {cfg : Config} {fo : Nat → VC.Ord} {p : PState}
    (h : PReachable cfg fo p) (r : Rid) (hx : (p.s.recs r).stat = .xfer) :
    ∃ w, p.xf r = some w ∧ ((p.s.thr w.by_).loc = .idle → VC.Clock.le w.clk (p.c.relc .mu)) := by
  obtain ⟨w, h1, _, _, h4⟩ := C03_signal_transfer_partial h r hx
  refine ⟨w, h1, fun hl => ?_⟩
  rcases h4 with h4 | ⟨h4, _⟩
  · exact h4
  · rw [hl] at h4; cases h4

/-- The full statement for transferred waiters (NOT proved; see the header): when the wait of a
    transferred waiter returns, the clock its waker had before the transfer is covered by the
    waiter's clock.  `xt t` = the transfer of `t`'s record, recorded when `t` left its loop. -/
def C03_signal_transfer_full : Prop :=
  ∀ (cfg : Config) (fo : Nat → VC.Ord) (p p' : PState) (t u : Tid) (res : Outcome),
    PReachable cfg fo p → pstep cfg fo p (.retWait t res) = .ok p' →
    Unl.waker u ∈ (p.s.thr t).exitUnl → (p.s.thr t).xferd = true →
    ∃ w, p.xt t = some w ∧ w.by_ = u ∧ VC.Clock.le w.clk (p'.c.vc t)

/-! ### non-vacuity and controls: concrete accepted traces -/

section Examples

/-- all foreign accesses relaxed -/
def fo0 : Nat → VC.Ord := fun _ => .rlx

/-- The table `siteOrd` with one site weakened to relaxed. -/
def weaken (x : Site) : Site → VC.Ord := fun s => if s = x then .rlx else siteOrd s

def clocksX (so : Site → VC.Ord) (evs : List Event) : VC.St VLoc := crunx so fo0 0 VC.St.init evs

theorem clocksX_siteOrd (evs : List Event) : clocksX siteOrd evs = clocks fo0 evs := rfl

/-- The product state after a concrete event list (`pinit` if it is rejected). -/
def prunD (cfg : Config) (evs : List Event) : PState :=
  match prun cfg fo0 pinit evs with
  | .ok p => p
  | .error _ => pinit

def pokRun (cfg : Config) (evs : List Event) : Bool :=
  match prun cfg fo0 pinit evs with
  | .ok _ => true
  | .error _ => false

theorem prun_prunD {cfg : Config} {evs : List Event} (h : pokRun cfg evs = true) :
    prun cfg fo0 pinit evs = .ok (prunD cfg evs) := by
  unfold pokRun at h; unfold prunD
  split at h
  · rename_i p hp; rw [hp]
  · cases h

/-- A writer-mode waiter (thread 0, pooled record w0) and a signaller (thread 1), up to the
    signaller's store: enqueue, release of the mutex, sleep; signal unlinks w0. -/
def sigPre : List Event := [
  .tick 100, .callWait 0 false none false, .wInit 0 (.w 0), .recSt 0 .wSt1 (.w 0) 1 0, .muLd 0 .wMode 1,
  .wordLd 0 .spin0 0, .wordCas 0 0 3 0 true, .recLd 0 .wRc (.w 0) 0, .wordSt 0 .waitRel 2 3,
  .relMark 0 .wr, .nret 0, .recLd 0 .wHead (.w 0) 1, .semPdEnter 0 0 none,
  .callSignal 1, .wordLd 1 .sigLd 2, .wordLd 1 .spin0 2, .wordCas 1 2 3 2 true,
  .recLd 1 (.sRcLd true) (.w 0) 0, .recCas 1 (.sRcCas true) (.w 0) 0 1 0 true, .wordSt 1 .sigRel 0 3,
  .muLd 1 .wwLd 0]

/-- … the store `waiting := 0` [cv.c/5], V, return of the signaller; the waiter wakes … -/
def sigMid : List Event := [.semV 1 0, .retSignal 1, .semPdRet 0 0 false, .recLd 0 .wTail (.w 0) 0]

/-- … leaves its loop [cv.c/10 observes 0], re-acquires the mutex and returns 0. -/
def sigAll : List Event :=
  sigPre ++ [.recSt 1 .wake (.w 0) 0 1] ++ sigMid ++ [.recLd 0 .wHead (.w 0) 0] ++
    [.lockMark 0 .wr, .nret 0] ++ [.retWait 0 .ok]

/-- The trace is accepted (both semaphore flavours): the hypotheses of `C03_signal` are
    satisfiable (`sigMid` contains no loop exit, the two marks no `ret`). -/
example : okRun ⟨false⟩ sigAll = true ∧ okRun ⟨true⟩ sigAll = true := by decide

/-- The instance of `C03_signal`, evaluated: the signaller's own component of its clock before the
    store is 4 (initial 1 + the spinlock CAS + the remove_count CAS + the spinlock release), and the
    waiter's clock at its return has caught up with it. -/
example : (clocks fo0 sigPre).vc 1 1 = 4 ∧ (clocks fo0 sigAll).vc 0 1 = 4 := by decide

/-- The hypotheses of the state form `C03_signal_wait` are satisfiable: just before the `ret` the
    product state is reachable, the instance was unlinked by waker 1, not transferred, and the
    ghost `xw 0` is a wake-up by thread 1 whose clock component 1 is 4. -/
example : pokRun ⟨false⟩ sigAll = true ∧
    ((prunD ⟨false⟩ sigAll.dropLast).s.thr 0).exitUnl = [Unl.waker 1] ∧
    ((prunD ⟨false⟩ sigAll.dropLast).s.thr 0).xferd = false ∧
    (match (prunD ⟨false⟩ sigAll.dropLast).xw 0 with
      | some w => decide (w.by_ = 1 ∧ w.clk 1 = 4 ∧ w.call 1 = 1)
      | none => false) = true := by decide

/-- The hypotheses of `C03_cv_spinlock` are satisfiable: the signaller's acquisition of the cv
    spinlock (17th event) follows the waiter's release; the waiter's clock at that release had
    component 4 (initial 1 + `remove_count := 0` + `waiting := 1` + spinlock CAS) and the signaller
    has it after its CAS. -/
example : pokRun ⟨false⟩ (sigPre.take 17) = true ∧ (prunD ⟨false⟩ (sigPre.take 16)).lastRel 0 = 4 ∧
    (prunD ⟨false⟩ (sigPre.take 17)).c.vc 1 0 = 4 := by decide

/-- NEGATIVE CONTROL (waker's side).  The same accepted trace with the waker's store
    `ATM_STORE_REL (&p_nw->waiting, 0)` [cv.c/5] weakened to a relaxed store: on the clock machine
    the waiter's clock at its return does not cover the signaller's clock before the store.  The
    edge of `C03_signal` is carried by the release of cv.c:149, not by the interleaving. -/
theorem C03_signal_needs_release_store :
    ¬ VC.Clock.le ((clocksX (weaken .cv5) sigPre).vc 1) ((clocksX (weaken .cv5) sigAll).vc 0) := by
  intro hle
  have h1 := hle 1
  have e1 : (clocksX (weaken .cv5) sigPre).vc 1 1 = 4 := by decide
  have e2 : (clocksX (weaken .cv5) sigAll).vc 0 1 = 0 := by decide
  omega

/-- NEGATIVE CONTROL (waiter's side).  The same trace with the load of the wait loop
    `ATM_LOAD_ACQ (&w->nw.waiting)` [cv.c/10] weakened to a relaxed load: the edge is gone. -/
theorem C03_signal_needs_acquire_load :
    ¬ VC.Clock.le ((clocksX (weaken .cv10) sigPre).vc 1) ((clocksX (weaken .cv10) sigAll).vc 0) := by
  intro hle
  have h1 := hle 1
  have e1 : (clocksX (weaken .cv10) sigPre).vc 1 1 = 4 := by decide
  have e2 : (clocksX (weaken .cv10) sigAll).vc 0 1 = 0 := by decide
  omega

/-- In general: a relaxed load changes no clock, a relaxed plain store wipes the release clock of
    its location. -/
theorem C03_signal_relaxed_load_no_edge (so : Site → VC.Ord) (site : RSite) (h : so (rSite site) = .rlx)
    (o : VC.Ord) (c : VC.St VLoc) (t : Tid) (r : Rid) (obs : Nat) :
    (cstepx so o c (.recLd t site r obs)).vc = c.vc := by
  simp only [cstepx, toVCx, h]
  exact VC.relaxed_load_no_edge c _ rfl rfl

theorem C03_signal_relaxed_store_breaks (so : Site → VC.Ord) (site : RSite) (h : so (rSite site) = .rlx)
    (o : VC.Ord) (c : VC.St VLoc) (t : Tid) (r : Rid) (new obs : Nat) :
    (cstepx so o c (.recSt t site r new obs)).relc (.fld r (rFld site)) = VC.Clock.bot := by
  simp only [cstepx, toVCx, h]
  exact VC.relaxed_store_breaks c ⟨t, .st, .rlx, .fld r (rFld site)⟩ rfl rfl

/-- nsync_wait_n (thread 0, record nw0) whose deadline expires; the broadcaster (thread 1) has
    unlinked nw0 and stores `waiting := 0` just before cv_dequeue's load [cv.c/32], which observes 0. -/
def wnPre : List Event := [
  .tick 100, .callWaitN 0, .nwInit 0 (.nw 0),
  .wordLd 0 .spin0 0, .wordCas 0 0 1 0 true, .recSt 0 .enqSt (.nw 0) 1 0, .wordSt 0 .enqRel 2 1,
  .recLd 0 .ready (.nw 0) 1, .semPdEnter 0 0 (some 200),
  .callBroadcast 1, .wordLd 1 .bcLd 2, .wordLd 1 .spin0 2, .wordCas 1 2 3 2 true, .wordSt 1 .bcRel 0 3,
  .tick 200, .semPdRet 0 0 true]

def wnMid : List Event := [.semV 1 0, .retBroadcast 1, .wordLd 0 .spin0 0, .wordCas 0 0 1 0 true]

def wnAll : List Event :=
  wnPre ++ [.recSt 1 .wake (.nw 0) 0 1] ++ wnMid ++ [.recLd 0 .deqLd (.nw 0) 0]

/-- accepted, and it continues to the return of nsync_wait_n: the hypotheses of
    `C03_signal_waitn` (site cv.c/32) are satisfiable -/
example : okRun ⟨false⟩ (wnAll ++ [.wordSt 0 .deqRel 0 1, .retWaitN 0]) = true := by decide

/-- the instance of `C03_signal_waitn`, evaluated: the broadcaster's component is 3 before its
    store (initial 1 + spinlock CAS + spinlock release) and the waiter has it after cv.c/32 -/
example : (clocks fo0 wnPre).vc 1 1 = 3 ∧ (clocks fo0 wnAll).vc 0 1 = 3 := by decide

/-- the hypotheses of the state form `C03_signal_dequeue` are satisfiable (return through cv.c/34) -/
example : pokRun ⟨false⟩ (wnAll ++ [.wordSt 0 .deqRel 0 1]) = true ∧
    ((prunD ⟨false⟩ wnAll).s.thr 0).loc = .nDeqRel ∧ ((prunD ⟨false⟩ wnAll).s.thr 0).r = .nw 0 ∧
    ((prunD ⟨false⟩ wnAll).s.thr 0).wasQ = false := by decide

/-- NEGATIVE CONTROL (nsync_wait_n, cv.c/32).  With cv_dequeue's `ATM_LOAD_ACQ (&nw->waiting)`
    weakened to a relaxed load the waiter only has what the cv spinlock gave it (the broadcaster's
    clock at its release of the spinlock: component 2), not the clock before the store (3). -/
theorem C03_signal_waitn_needs_acquire_load :
    ¬ VC.Clock.le ((clocksX (weaken .cv32) wnPre).vc 1) ((clocksX (weaken .cv32) wnAll).vc 0) := by
  intro hle
  have h1 := hle 1
  have e1 : (clocksX (weaken .cv32) wnPre).vc 1 1 = 3 := by decide
  have e2 : (clocksX (weaken .cv32) wnAll).vc 0 1 = 2 := by decide
  omega

/-- The F3 schedule on the repaired code (`f3Fixed`, Props/C04Fix.lean): cv_dequeue finds
    `waiting = 1` and the record gone from the queue, releases the spinlock and waits in its loop
    [cv.c/35] until the waker has stored 0. -/
def f3Pre : List Event := f3Fixed.take 22
def f3All : List Event := f3Fixed.take 26

example : f3Fixed.drop 22 = [.recSt 1 .wake (.nw 0) 0 1, .semV 1 0, .retBroadcast 1,
    .recLd 0 .deqSpin (.nw 0) 0, .retWaitN 0] := by decide

/-- the instance of `C03_signal_waitn` (site cv.c/35), evaluated -/
example : (clocks fo0 f3Pre).vc 1 1 = 3 ∧ (clocks fo0 f3All).vc 0 1 = 3 := by decide

/-- the hypotheses of the state form `C03_signal_dequeue` are satisfiable (return through cv.c/35) -/
example : pokRun ⟨false⟩ f3All = true ∧
    deqReturns (prunD ⟨false⟩ (f3Fixed.take 25)).s 0 (.nw 0) (.recLd 0 .deqSpin (.nw 0) 0) ∧
    ((prunD ⟨false⟩ (f3Fixed.take 25)).s.thr 0).wasQ = false :=
  ⟨by decide, .inr rfl, by decide⟩

/-- NEGATIVE CONTROL (nsync_wait_n, cv.c/35: the load added by the repair of F3).  With the load
    of the wait-for-waker loop weakened to a relaxed load the edge is gone on the F3 schedule. -/
theorem C03_signal_waitn_needs_acquire_loop :
    ¬ VC.Clock.le ((clocksX (weaken .cv35) f3Pre).vc 1) ((clocksX (weaken .cv35) f3All).vc 0) := by
  intro hle
  have h1 := hle 1
  have e1 : (clocksX (weaken .cv35) f3Pre).vc 1 1 = 3 := by decide
  have e2 : (clocksX (weaken .cv35) f3All).vc 0 1 = 2 := by decide
  omega

/-- A TRANSFER: the signaller (thread 1) finds the mutex held by a writer (`pmu->word = 1`), takes
    the mutex' spinlock [cv.c/1], moves w0 to the mutex queue and releases [cv.c/3] with
    MU_WRITER_WAITING; later the mutex unlock path (thread 2; only its accesses to the record and the
    semaphore are events of this layer) stores `waiting := 0` and posts; the waiter returns through
    nsync_mu_lock_slow_. -/
def xferAll : List Event := [
  .tick 100, .callWait 0 false none false, .wInit 0 (.w 0), .recSt 0 .wSt1 (.w 0) 1 0, .muLd 0 .wMode 1,
  .wordLd 0 .spin0 0, .wordCas 0 0 3 0 true, .recLd 0 .wRc (.w 0) 0, .wordSt 0 .waitRel 2 3,
  .relMark 0 .wr, .nret 0, .recLd 0 .wHead (.w 0) 1, .semPdEnter 0 0 none,
  .callSignal 1, .wordLd 1 .sigLd 2, .wordLd 1 .spin0 2, .wordCas 1 2 3 2 true,
  .recLd 1 (.sRcLd true) (.w 0) 0, .recCas 1 (.sRcCas true) (.w 0) 0 1 0 true, .wordSt 1 .sigRel 0 3,
  .muLd 1 .wwLd 1, .muCas 1 .wwCas 1 7 1 true, .muLd 1 .wwRelLd 7, .muCas 1 .wwRelCas 7 37 7 true,
  .retSignal 1,
  .fSt 2 (.w 0) .waiting 0, .semV 2 0,
  .semPdRet 0 0 false, .recLd 0 .wTail (.w 0) 0, .recLd 0 .wHead (.w 0) 0, .relockSlow 0,
  .retWait 0 .ok]

example : okRun ⟨false⟩ xferAll = true ∧ okRun ⟨true⟩ xferAll = true := by decide

/-- The hypothesis of `C03_signal_transfer_partial` is satisfiable: after the signaller's return
    w0 is transferred, the ghost is the transfer by thread 1 (clock component 4), and that clock
    is covered by the release clock of the mutex word (checked here on components 0..2). -/
example : ((prunD ⟨false⟩ (xferAll.take 25)).s.recs (.w 0)).stat = .xfer ∧
    (match (prunD ⟨false⟩ (xferAll.take 25)).xf (.w 0) with
      | some w => decide (w.by_ = 1 ∧ w.clk 1 = 4 ∧
          w.clk 0 ≤ (prunD ⟨false⟩ (xferAll.take 25)).c.relc .mu 0 ∧
          w.clk 1 ≤ (prunD ⟨false⟩ (xferAll.take 25)).c.relc .mu 1 ∧
          w.clk 2 ≤ (prunD ⟨false⟩ (xferAll.take 25)).c.relc .mu 2)
      | none => false) = true := by decide

/-- WHY THE MODEL CANNOT CARRY THE EDGE TO A TRANSFERRED WAITER.  On the trace above the waiter's
    clock at its return does not cover the clock the signaller had before the transfer: the store
    that wakes the waiter is performed by the mutex unlock path, whose acquire of the mutex word is
    not an event of this layer, so on this layer's clock machine nothing links the release clock
    of the mutex word to that store.  `C03_signal_transfer_full` is false HERE; it is a statement
    about the product of this layer with the mutex layer. -/
theorem C03_signal_transfer_full_not_in_model : ¬ C03_signal_transfer_full := by
  intro hfull
  have hok : pokRun ⟨false⟩ xferAll = true := by decide
  have hrun := prun_prunD hok
  have hsplit : xferAll = xferAll.dropLast ++ [.retWait 0 .ok] := by decide
  rw [hsplit] at hrun
  obtain ⟨p, hp, hlast⟩ := prun_append.mp hrun
  rw [prun_single] at hlast
  have hok' : pokRun ⟨false⟩ xferAll.dropLast = true := by decide
  have hp' := prun_prunD hok'
  rw [hp'] at hp; cases hp
  obtain ⟨w, hw, _, hle⟩ := hfull ⟨false⟩ fo0 _ _ 0 1 .ok ⟨_, hp'⟩ hlast (by decide) (by decide)
  have e1 : (match (prunD ⟨false⟩ xferAll.dropLast).xt 0 with
      | some w => decide (w.clk 1 = 4) | none => false) = true := by decide
  rw [hw] at e1
  have e1' : w.clk 1 = 4 := by simpa using e1
  have e2 : (prunD ⟨false⟩ (xferAll.dropLast ++ [.retWait 0 .ok])).c.vc 0 1 = 0 := by decide
  have h1 := hle 1
  rw [e1', e2] at h1
  omega

end Examples

end NsyncVerif.CvFix
