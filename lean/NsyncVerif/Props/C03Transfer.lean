/-
  Property C03, cv-signal edge, TRANSFERRED waiters — everything a thread did before
  nsync_cv_signal / nsync_cv_broadcast happens before what a waiter does after its wait returns,
  also when wake_waiters does not wake the waiter itself but moves it to the mutex queue
  (cv.c:64-135) and a later nsync_mu_unlock wakes it; under the DECLARED memory orders only.

  This closes `C03_signal_transfer_full` of `Props/C03Signal.lean`, which is false of the CvFix layer
  alone (`C03_signal_transfer_full_not_in_model`: there the wake-up is a foreign store by a thread
  whose operations on the mutex word are not events).  It is proved here BY COMPOSITION, with no new
  model of any C code:

    joint acceptor   `Model/CvMu.lean`: an event is delivered to `CvFix.step` (cv.c) and / or to
                     `MuX.step` (the exclusion protocol of the word of mutex `m`); cv.c's own accesses
                     to a mutex word (cv.c/0..4, cv.c/7) go to BOTH.  A joint log is accepted only if
                     each layer accepts its projection (`C03_transfer_machine`), plus five checks
                     K1–K5 (listed in Model/CvMu.lean) of which only K5 is not a property either
                     layer could check alone: the thread that stores `waiting := 0` into a
                     transferred record has done a successful ACQUIRE read-modify-write on the word of
                     the mutex the record was transferred to, after the waker's cv.c/3.
    clock machine    the generic `NsyncVerif.VC` over the cv word, the word of every mutex and the
                     two atomic fields of every record; cv.c sites carry the order `siteOrd` declares,
                     all other code the order LOGGED with the operation (no oracle any more).

  THE CHAIN (`JI`, Proofs/CvMuVCInv.lean; every link is a lemma of Proofs/VC.lean)
    waker u      clock `w.clk` just before `ATM_CAS_ACQ (&pmu->word)` [cv.c/1] ≥ its clock at its call
                 `ATM_CAS_REL (&pmu->word)` [cv.c/3]            RELEASE   → relc (mu.word) ≥ w.clk
    anybody      later successful CASes on mu.word of ANY order continue the release sequence
                 (C++20); plain stores to mu.word are accepted by MuX only as RELEASE stores of
                 the holder of the queue spinlock (mu_wait.c/7, mu_wait.c/8), and whoever holds
                 the spinlock took it with an ACQUIRE CAS (MuX: `needsAcq`) after cv.c/3 — the
                 waker held it until then — so its clock already covers w.clk: relc stays ≥ w.clk
    unlocker v   successful ACQUIRE CAS on mu.word after cv.c/3 (K5: mu.c/24 `ATM_CAS_RELACQ`, or
                 common.c/1 `ATM_CAS_ACQ` when it re-takes the spinlock)          → vc v ≥ w.clk
                 `ATM_STORE_REL (&w->nw.waiting, 0)` [mu.c/28]  RELEASE (K4) → relc (waiting) ≥ w.clk
    nobody       stores to `waiting` of a transferred record but such a store (`xfer_no_store`)
    waiter t     `while (ATM_LOAD_ACQ (&w->nw.waiting) != 0)` [cv.c/10] observes 0
                                                               ACQUIRE   → vc t ≥ w.clk

  PROVED IN FULL
    `C03_signal_transfer`        the statement of `C03_signal_transfer_full`, over the composition
    `C03_signal_transfer_loop_exit`  … already at the waiter's loop exit, before it re-acquires the mutex
    `C03_signal_transfer_published`, `C03_signal_transfer_wake`   the two middle links as theorems
    `C03_transfer_orders`        what acceptance demands of the orders of other code
    `C03_transfer_machine`, `C03_transfer_ghosts`, `C03_transfer_invariant`
    controls `C03_transfer_needs_*`: each of the four orders weakened breaks the edge on a
                                 concrete trace (and the joint acceptor rejects the weakened log)
  SCOPE inherited from the two layers: one condition variable (the log is projected per cv, as for
  every CvFix theorem), any number of mutexes, threads and records, both semaphore flavours; waits
  through nsync_cv_wait / nsync_cv_wait_with_deadline[_generic] (transfers only happen to
  waiters with an nsync_mu).
-/
import NsyncVerif.Proofs.CvMuVCRun
import NsyncVerif.Props.C03Signal

namespace NsyncVerif.CvMu
open NsyncVerif NsyncVerif.CvFix

/-! ### the composition is faithful; the ghosts -/

/-- Every accepted joint log has a product run; its acceptor component is the joint acceptor's
    state, its clock component the clock machine run over the projected events; the CvFix acceptor
    accepts the CvFix projection of the log and the MuX acceptor, for every mutex, the projection
    onto that mutex. -/
theorem C03_transfer_machine {cfg : Config} {evs : List XEv} {j : JState}
    (h : jrun cfg jinit evs = .ok j) :
    (∃ p, jprun cfg jpinit evs = .ok p ∧ p.j = j ∧ p.c = xclocks evs) ∧
    CvFix.run cfg CvFix.init (cvProj evs) = .ok j.s ∧
    ∀ m, MuX.run MuX.init (muProj m evs) = .ok (j.mx m) := by
  obtain ⟨p, h1, h2⟩ := jprun_of_jrun (p := jpinit) h
  exact ⟨⟨p, h1, h2, jprun_clocks h1⟩, jrun_cv h, fun m => jrun_mu h m⟩

/-- Definition of the ghosts, as a theorem. -/
theorem C03_transfer_ghosts {cfg : Config} {p p' : JP} {ev : XEv} (h : jpstep cfg p ev = .ok p') :
    jstep cfg p.j ev = .ok p'.j ∧ p'.c = xcstep p.c ev ∧
    -- set by …
    (∀ u m o, ev = .cv (.callSignal u) m o ∨ ev = .cv (.callBroadcast u) m o → p'.cc u = p.c.vc u) ∧
    (∀ u x n ob r m o, ev = .cv (.muCas u .wwCas x n ob true) m o → (p'.j.s.recs r).stat = .xfer →
      (p.j.s.recs r).stat ≠ .xfer → p'.xf r = some ⟨u, p.c.vc u, p.cc u⟩) ∧
    (∀ t r m o, ev = .cv (.recLd t .wHead r 0) m o →
      p'.xt t = (if (p.j.s.recs r).stat = .xfer then p.xf r else none)) ∧
    -- … and unchanged otherwise
    (∀ r, (p.j.s.recs r).stat = .xfer → p'.xf r = p.xf r) ∧
    (∀ m x, ev = .mu m x → p'.cc = p.cc ∧ p'.xf = p.xf ∧ p'.xt = p.xt) := by
  obtain ⟨j', hj, rfl⟩ := jpstep_ok h
  refine ⟨by rw [jpnext_j]; exact hj, jpnext_c p ev j', ?_, ?_, ?_, ?_, ?_⟩
  · rintro u m o (rfl | rfl) <;> exact VC.upd_same _ _ _
  · rintro u x n ob r m o rfl h1 h2
    have h1' : (j'.s.recs r).stat = .xfer := h1
    show xfE p j'.s (.muCas u .wwCas x n ob true) r = _
    simp [xfE, newly_true h1' h2]
  · rintro t r m o rfl
    exact VC.upd_same _ _ _
  · intro r hr
    cases ev with
    | cv e m o => exact xfE_keep p j'.s e r (newly_false_of_xfer hr)
    | mu m x => rfl
  · rintro m x rfl; exact ⟨rfl, rfl, rfl⟩

/-- The inductive invariant (`JI`, Proofs/CvMuVCInv.lean), over all reachable product states. -/
theorem C03_transfer_invariant {cfg : Config} {p : JP} (h : JPReachable cfg p) : JI p :=
  (ji_reachable h).1

/-! ### the links -/

/-- LINK 1 (cv.c/3 → the mutex word).  A transferred record whose waker's `ATM_CAS_REL` [cv.c/3]
    has succeeded (`pub`): the waker's clock from just before the transfer — which covers its
    clock at its call — is covered by the RELEASE CLOCK OF THE WORD OF THAT MUTEX, and it stays so
    whatever other code does to the word (this is an invariant).  Before that the waker holds the
    mutex' queue spinlock and its own clock covers it. -/
theorem C03_signal_transfer_published {cfg : Config} {p : JP} (h : JPReachable cfg p) (r : Rid)
    (hx : (p.j.s.recs r).stat = .xfer) :
    ∃ w, p.xf r = some w ∧ (p.j.s.recs r).unl = [Unl.waker w.by_] ∧ VC.Clock.le w.call w.clk ∧
      (p.j.g.pub r = true → VC.Clock.le w.clk (p.c.relc (.mu (p.j.g.xm r)))) ∧
      (p.j.g.pub r = false → (p.j.mx (p.j.g.xm r)).sp = some w.by_ ∧ VC.Clock.le w.clk (p.c.vc w.by_)) := by
  obtain ⟨w, h1, R⟩ := (ji_reachable h).1.xfer r hx
  exact ⟨w, h1, R.unl, R.call, fun hp => (R.pub hp).1, fun hp => ⟨(R.unpub hp).2.2.2, (R.unpub hp).2.2.1⟩⟩

/-- LINK 2 (the mutex word → the unlocker → `waiting`).  Whenever a store `waiting := 0` into a
    transferred record from outside cv.c is accepted: it is a release store, the storing thread's
    clock covers the clock the waker had before the transfer (it acquired the mutex word after the
    waker's cv.c/3), and so does the release clock of `waiting` afterwards. -/
theorem C03_signal_transfer_wake {cfg : Config} {p p' : JP} {v : Tid} {r : Rid} {m : MuId} {o : VC.Ord}
    (h : JPReachable cfg p) (hs : jpstep cfg p (.cv (.fSt v r .waiting 0) m o) = .ok p')
    (hx : (p.j.s.recs r).stat = .xfer) :
    o.isRel = true ∧ ∃ w, p.xf r = some w ∧ VC.Clock.le w.clk (p.c.vc v) ∧
      VC.Clock.le w.clk (p'.c.relc (.fld r .waiting)) := by
  obtain ⟨j', hj, rfl⟩ := jpstep_ok hs
  obtain ⟨_, _, hg⟩ := jstep_cv hj
  obtain ⟨k4, k5⟩ := (ghost_cv hg).wake v r rfl hx
  obtain ⟨w, h1, R⟩ := (ji_reachable h).1.xfer r hx
  exact ⟨k4, w, h1, R.got v k5, VC.Clock.le_trans (R.got v k5) (xc_fSt p.c v r 0 m o k4)⟩

/-! ### the edge -/

/-- The edge at the waiter's LOOP EXIT.  Whenever thread `t` leaves its wait loop (its
    `ATM_LOAD_ACQ (&w->nw.waiting)` [cv.c/10] observes 0) on a record that was transferred to a
    mutex queue: the ghost `xt t` becomes that transfer, and the clock its waker had before the
    transfer (which covers the waker's clock at its call) is covered by `t`'s clock — before `t`
    re-acquires the mutex. -/
theorem C03_signal_transfer_loop_exit {cfg : Config} {p p' : JP} {t : Tid} {r : Rid} {m : MuId}
    {o : VC.Ord} (h : JPReachable cfg p)
    (hs : jpstep cfg p (.cv (.recLd t .wHead r 0) m o) = .ok p')
    (hx : (p.j.s.recs r).stat = .xfer) :
    ∃ w, p.xf r = some w ∧ p'.xt t = some w ∧ (p.j.s.recs r).unl = [Unl.waker w.by_] ∧
      VC.Clock.le w.clk (p'.c.vc t) ∧ VC.Clock.le w.call w.clk := by
  obtain ⟨w, h1, R⟩ := (ji_reachable h).1.xfer r hx
  have h2 : p'.xt t = some w := by
    rw [(C03_transfer_ghosts hs).2.2.2.2.1 t r m o rfl, if_pos hx]; exact h1
  obtain ⟨h3, h4⟩ := (ji_reachable (jpreachable_step h hs)).1.seen t w h2
  exact ⟨w, h1, h2, R.unl, h3, h4⟩

/-- C03, CV-SIGNAL EDGE, TRANSFERRED WAITERS (the statement of `C03_signal_transfer_full`, over
    the composition).  Whenever `ret nsync_cv_wait*` by thread `t` is accepted and the instance of
    the wait was unlinked by a waker `u` and TRANSFERRED to the mutex queue: the wait returns 0,
    the ghost `xt t` is a transfer by `u`, and `u`'s clock from just before its
    `ATM_CAS_ACQ (&pmu->word)` [cv.c/1] — which covers `u`'s clock at its call of
    nsync_cv_signal / nsync_cv_broadcast — is covered by `t`'s clock: everything `u` did before the
    call happens before everything `t` does after its wait returns.  No hypothesis beyond an
    accepted joint log. -/
theorem C03_signal_transfer {cfg : Config} {p p' : JP} {t u : Tid} {res : Outcome} {m : MuId}
    {o : VC.Ord} (h : JPReachable cfg p) (hs : jpstep cfg p (.cv (.retWait t res) m o) = .ok p')
    (hu : Unl.waker u ∈ (p.j.s.thr t).exitUnl) (hx : (p.j.s.thr t).xferd = true) :
    res = .ok ∧ ∃ w, p.xt t = some w ∧ w.by_ = u ∧ VC.Clock.le w.clk (p'.c.vc t) ∧
      VC.Clock.le w.call w.clk := by
  obtain ⟨j', hj, rfl⟩ := jpstep_ok hs
  obtain ⟨hs', _, _⟩ := jstep_cv hj
  obtain ⟨hv, hr⟩ := ji_reachable h
  obtain ⟨hl, _⟩ := retWait_accepted hs'
  have hal : (p.j.s.thr t).loc.afterLoop = true := by
    rcases hl with hl | hl <;> simp [hl, Loc.afterLoop]
  obtain ⟨w, hw, hby⟩ := hv.exit t hal hx u hu
  obtain ⟨h1, h2⟩ := hv.seen t w hw
  refine ⟨(C04_outcome_partial hr hs').2 u hu, w, hw, hby, ?_, h2⟩
  rw [jpnext_c]
  exact VC.Clock.le_trans h1 (xc_mono p.c _ t)

/-- The statement of `C03_signal_transfer_full` (Props/C03Signal.lean) transcribed to the
    composition: `PReachable`/`pstep` of the CvFix product with an oracle become
    `JPReachable`/`jpstep` of the composition without one. -/
def C03_signal_transfer_composed : Prop :=
  ∀ (cfg : Config) (p p' : JP) (t u : Tid) (res : Outcome) (m : MuId) (o : VC.Ord),
    JPReachable cfg p → jpstep cfg p (.cv (.retWait t res) m o) = .ok p' →
    Unl.waker u ∈ (p.j.s.thr t).exitUnl → (p.j.s.thr t).xferd = true →
    ∃ w, p.xt t = some w ∧ w.by_ = u ∧ VC.Clock.le w.clk (p'.c.vc t)

theorem C03_signal_transfer_full_composed : C03_signal_transfer_composed := by
  intro cfg p p' t u res m o h hs hu hx
  obtain ⟨_, w, h1, h2, h3, _⟩ := C03_signal_transfer h hs hu hx
  exact ⟨w, h1, h2, h3⟩

/-! ### the orders the composition relies on -/

/-- What acceptance by the joint acceptor demands of the orders of OTHER code (the orders of the
    cv.c sites are fixed by `siteOrd`, tied to the source by `signal_sites_tie`):
    (1) an event of other code that makes a thread the holder of a mutex' queue spinlock is a
        successful CAS with ACQUIRE;
    (2) a plain store to a mutex word is a RELEASE store by the holder of that spinlock;
    (3) a store `waiting := 0` into a transferred record is a RELEASE store, by a thread that has
        acquired the word of that mutex since the transfer was published. -/
theorem C03_transfer_orders {cfg : Config} {j j' : JState} :
    (∀ m x v, jstep cfg j (.mu m x) = .ok j' → (j.mx m).sp ≠ some v → (j'.mx m).sp = some v →
      ∃ exp new ord, x = .cas v exp new ord ∧ ord.isAcq = true) ∧
    (∀ m t new ord, jstep cfg j (.mu m (.st t new ord)) = .ok j' →
      (j.mx m).sp = some t ∧ ord.isRel = true) ∧
    (∀ v r m o, jstep cfg j (.cv (.fSt v r .waiting 0) m o) = .ok j' → (j.s.recs r).stat = .xfer →
      o.isRel = true ∧ j.g.got v r = true) := by
  refine ⟨?_, ?_, ?_⟩
  · intro m x v h h1 h2
    obtain ⟨_, hm, _⟩ := jstep_mu h
    rcases muxStep_sp hm m with h3 | ⟨_, t, exp, new, ord, hx, ha, _, h4⟩ | ⟨_, _, _, _, h3, _⟩
    · rw [h3] at h2; exact absurd h2 h1
    · cases hx
      rw [h4] at h2
      cases h2
      exact ⟨exp, new, ord, rfl, ha⟩
    · rw [h3] at h2; cases h2
  · intro m t new ord h
    obtain ⟨_, hm, _⟩ := jstep_mu h
    obtain ⟨mm, hmm, _⟩ := muxStep_some hm
    exact mux_st hmm
  · intro v r m o h hx
    obtain ⟨_, _, hg⟩ := jstep_cv h
    exact (ghost_cv hg).wake v r rfl hx

/- The site table of the chain (`transferSiteRows`, `transferSitesAgree`) and the check that every
   plain store to a mutex word is a release store (`muWordStoresRel`) are in Proofs/CvMuVC.lean;
   they are tied to the regenerated site table in Proofs/TieTransfer.lean. -/

/-! ### non-vacuity and controls: a concrete accepted joint log -/

section Examples

def jokRun (cfg : Config) (evs : List XEv) : Bool :=
  match jrun cfg jinit evs with
  | .ok _ => true
  | .error _ => false

def jprunD (cfg : Config) (evs : List XEv) : JP :=
  match jprun cfg jpinit evs with
  | .ok p => p
  | .error _ => jpinit

def jpokRun (cfg : Config) (evs : List XEv) : Bool :=
  match jprun cfg jpinit evs with
  | .ok _ => true
  | .error _ => false

theorem jprun_jprunD {cfg : Config} {evs : List XEv} (h : jpokRun cfg evs = true) :
    jprun cfg jpinit evs = .ok (jprunD cfg evs) := by
  unfold jpokRun at h; unfold jprunD
  split at h
  · rename_i p hp; rw [hp]
  · cases h

/-- an event of the CvFix layer (mutex 0; the logged order matters only for foreign accesses) -/
def L (e : Event) : XEv := .cv e 0 .rlx
/-- an event of other code on mutex 0 -/
def M (x : MuX.Ev) : XEv := .mu 0 x

/-- Thread 0 locks mu0 and waits on the cv (writer mode, pooled record w0): enqueue, release of mu0
    (fast path of nsync_mu_unlock), sleep.  Thread 2 locks mu0.  Thread 1 — which does NOT hold
    mu0 — signals: it unlinks w0, finds mu0 held by a writer (word = 1), takes mu0's spinlock
    [cv.c/1, 1 → 7] … -/
def xjPre : List XEv := [
  L (.tick 100),
  M (.call 0 (.acq .W false)), M (.cas 0 0 1 .acq), M (.ret 0 true),
  M (.call 0 .wait), L (.callWait 0 false none false), L (.wInit 0 (.w 0)),
  L (.recSt 0 .wSt1 (.w 0) 1 0), L (.muLd 0 .wMode 1),
  L (.wordLd 0 .spin0 0), L (.wordCas 0 0 3 0 true), L (.recLd 0 .wRc (.w 0) 0), L (.wordSt 0 .waitRel 2 3),
  L (.relMark 0 .wr), M (.cas 0 1 0 .rel), L (.nret 0), L (.recLd 0 .wHead (.w 0) 1), L (.semPdEnter 0 0 none),
  M (.call 2 (.acq .W false)), M (.cas 2 0 1 .acq), M (.ret 2 true),
  L (.callSignal 1), L (.wordLd 1 .sigLd 2), L (.wordLd 1 .spin0 2), L (.wordCas 1 2 3 2 true),
  L (.recLd 1 (.sRcLd true) (.w 0) 0), L (.recCas 1 (.sRcCas true) (.w 0) 0 1 0 true), L (.wordSt 1 .sigRel 0 3),
  L (.muLd 1 .wwLd 1)]

/-- … moves w0 to mu0's queue and releases the spinlock with MU_WRITER_WAITING [cv.c/3, 7 → 37];
    returns.  Thread 2 unlocks mu0: the fast path fails (word = 37), nsync_mu_unlock_slow_ takes
    the spinlock and gives up the write lock with `spinCas` [mu.c/24, 37 → 46, declared
    ATM_CAS_RELACQ], dequeues w0, releases the spinlock [mu.c/26, 46 → 8 = MU_DESIG_WAKER],
    stores `waiting := 0` with order `wakeOrd` [mu.c/28, declared ATM_STORE_REL], posts.
    Thread 0 wakes and leaves its loop [cv.c/10 observes 0]. -/
def xjMid (spinCas wakeOrd : VC.Ord) : List XEv := [
  L (.muCas 1 .wwCas 1 7 1 true), L (.muLd 1 .wwRelLd 7), L (.muCas 1 .wwRelCas 7 37 7 true),
  L (.retSignal 1),
  M (.call 2 (.rel .W)), M (.casFail 2 1 37), M (.ld 2 37), M (.ld 2 37),
  M (.cas 2 37 46 (ordX spinCas)), M (.ld 2 46), M (.cas 2 46 8 .rel),
  .cv (.fSt 2 (.w 0) .waiting 0) 0 wakeOrd, L (.semV 2 0), M (.ret 2 true),
  L (.semPdRet 0 0 false), L (.recLd 0 .wTail (.w 0) 0), L (.recLd 0 .wHead (.w 0) 0)]

/-- Thread 0 re-acquires mu0 through nsync_mu_lock_slow_ [8 → 1] and returns 0. -/
def xjPost : List XEv := [
  L (.relockSlow 0), M (.ld 0 8), M (.cas 0 8 1 .acq), L (.retWait 0 .ok), M (.ret 0 true)]

/-- up to the waiter's loop exit -/
def xjExit (spinCas wakeOrd : VC.Ord) : List XEv := xjPre ++ xjMid spinCas wakeOrd
/-- the whole log -/
def xjAll : List XEv := xjExit .ar .rel ++ xjPost

/-- The log is accepted by the joint acceptor (both semaphore flavours) — hence by CvFix and by
    MuX (`C03_transfer_machine`). -/
example : jokRun ⟨false⟩ xjAll = true ∧ jokRun ⟨true⟩ xjAll = true := by decide

/-- The hypotheses of `C03_signal_transfer` are satisfiable: just before `ret nsync_cv_wait` of
    thread 0 (event 49 of 51; the last is its `ret` in the mutex layer) the product state is reachable, the instance was unlinked by
    waker 1 and transferred, and the ghost `xt 0` is the transfer by thread 1, whose clock from
    before cv.c/1 has own component 4 (initial 1 + cv spinlock CAS + remove_count CAS + cv
    spinlock release) and covers its clock at the call (1). -/
example : jpokRun ⟨false⟩ (xjAll.take 49) = true ∧
    ((jprunD ⟨false⟩ (xjAll.take 49)).j.s.thr 0).exitUnl = [Unl.waker 1] ∧
    ((jprunD ⟨false⟩ (xjAll.take 49)).j.s.thr 0).xferd = true ∧
    (match (jprunD ⟨false⟩ (xjAll.take 49)).xt 0 with
      | some w => decide (w.by_ = 1 ∧ w.clk 1 = 4 ∧ w.call 1 = 1)
      | none => false) = true := by decide

/-- The instance, evaluated: thread 1's own component is 4 before its cv.c/1 (5 when it executes
    cv.c/3, whose clock is what the release sequence carries); thread 0 has 5 ≥ 4 at its loop exit
    and at its return. -/
example : (xclocks xjPre).vc 1 1 = 4 ∧ (xclocks (xjExit .ar .rel)).vc 0 1 = 5 ∧
    (xclocks (xjAll.take 50)).vc 0 1 = 5 := by decide

/-- The chain, link by link: after cv.c/3 (3 events into `xjMid`) the release clock of mu0's word
    has thread 1's component (5 = 4 + cv.c/1); thread 2 has nothing of thread 1 before its
    mu.c/24 (8 events in) and 5 after it (9 events in); the release clock of w0.waiting has it
    after mu.c/28 (12 events in). -/
example :
    (xclocks (xjPre ++ (xjMid .ar .rel).take 3)).relc (.mu 0) 1 = 5 ∧
    (xclocks (xjPre ++ (xjMid .ar .rel).take 8)).vc 2 1 = 0 ∧
    (xclocks (xjPre ++ (xjMid .ar .rel).take 9)).vc 2 1 = 5 ∧
    (xclocks (xjPre ++ (xjMid .ar .rel).take 12)).relc (.fld (.w 0) .waiting) 1 = 5 := by decide

/-- The clocks with the order table of the cv.c sites replaced by `so`. -/
def xclocksX (so : Site → VC.Ord) (evs : List XEv) : VC.St XLoc := xcrunx so VC.St.init evs

/-- NEGATIVE CONTROL (unlocker's acquire).  The same log with the unlocker's spinlock-taking CAS
    [mu.c/24] weakened from ATM_CAS_RELACQ to a release-only CAS: the joint acceptor REJECTS it
    (MuX: a write that takes the spinlock must be an acquire), and on the clock machine the
    waiter's clock at its loop exit does not cover the signaller's clock from before the transfer:
    the edge is carried by that acquire, not by the interleaving. -/
theorem C03_transfer_needs_acquire_cas :
    jokRun ⟨false⟩ (xjExit .rel .rel) = false ∧
    ¬ VC.Clock.le ((xclocks xjPre).vc 1) ((xclocks (xjExit .rel .rel)).vc 0) := by
  refine ⟨by decide, ?_⟩
  intro hle
  have h1 := hle 1
  have e1 : (xclocks xjPre).vc 1 1 = 4 := by decide
  have e2 : (xclocks (xjExit .rel .rel)).vc 0 1 = 0 := by decide
  omega

/-- NEGATIVE CONTROL (unlocker's release).  With the store `waiting := 0` [mu.c/28] weakened from
    ATM_STORE_REL to a relaxed store: rejected (K4), and the edge is gone. -/
theorem C03_transfer_needs_release_store :
    jokRun ⟨false⟩ (xjExit .ar .rlx) = false ∧
    ¬ VC.Clock.le ((xclocks xjPre).vc 1) ((xclocks (xjExit .ar .rlx)).vc 0) := by
  refine ⟨by decide, ?_⟩
  intro hle
  have h1 := hle 1
  have e1 : (xclocks xjPre).vc 1 1 = 4 := by decide
  have e2 : (xclocks (xjExit .ar .rlx)).vc 0 1 = 0 := by decide
  omega

/-- NEGATIVE CONTROL (waker's release).  With `ATM_CAS_REL (&pmu->word)` [cv.c/3] weakened to a
    relaxed CAS the release clock of the mutex word never receives the waker's clock. -/
theorem C03_transfer_needs_release_cas :
    ¬ VC.Clock.le ((xclocksX (weaken .cv3) xjPre).vc 1) ((xclocksX (weaken .cv3) (xjExit .ar .rel)).vc 0) := by
  intro hle
  have h1 := hle 1
  have e1 : (xclocksX (weaken .cv3) xjPre).vc 1 1 = 4 := by decide
  have e2 : (xclocksX (weaken .cv3) (xjExit .ar .rel)).vc 0 1 = 0 := by decide
  omega

/-- NEGATIVE CONTROL (waiter's acquire).  With the load of the wait loop [cv.c/10] weakened to a
    relaxed load the edge is gone at the loop exit. -/
theorem C03_transfer_needs_acquire_load :
    ¬ VC.Clock.le ((xclocksX (weaken .cv10) xjPre).vc 1) ((xclocksX (weaken .cv10) (xjExit .ar .rel)).vc 0) := by
  intro hle
  have h1 := hle 1
  have e1 : (xclocksX (weaken .cv10) xjPre).vc 1 1 = 4 := by decide
  have e2 : (xclocksX (weaken .cv10) (xjExit .ar .rel)).vc 0 1 = 0 := by decide
  omega

/-- Why the controls look at the LOOP EXIT: a waiter with an nsync_mu re-acquires the mutex before it
    returns, with an acquire CAS on the same word [nsync_mu_lock_slow_], and thereby imports the
    release clock of the word again — with the unlocker's orders weakened as in the first two
    controls the clock at the RETURN still covers the signaller's (the mutex edge of
    `Props/C03.lean`); what the weakened orders lose are the waiter's accesses between its loop
    exit and that CAS (cv.c:252-295: `w->cv_mu`, the cancel note, `nsync_waiter_free_`). -/
example : (xclocks (xjExit .rel .rlx ++ xjPost)).vc 0 1 = 5 := by decide

/-- K5 is a real check: a thread 3 that has not acquired the word of mu0 since the transfer was
    published stores `waiting := 0` into w0 (release store, right after the signaller's return, or
    after thread 2 has dequeued w0): rejected. -/
example :
    jokRun ⟨false⟩ (xjPre ++ (xjMid .ar .rel).take 4 ++ [.cv (.fSt 3 (.w 0) .waiting 0) 0 .rel]) = false ∧
    jokRun ⟨false⟩ (xjPre ++ (xjMid .ar .rel).take 11 ++ [.cv (.fSt 3 (.w 0) .waiting 0) 0 .rel]) = false := by
  decide

end Examples

end NsyncVerif.CvMu
