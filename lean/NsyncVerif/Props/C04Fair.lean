/-
  Properties C04 / C05, liveness half, on the REPAIRED cv.c — "nsync_cv_broadcast wakes every such
  thread, nsync_cv_signal wakes at least one", and "a wait returns" — for ALL fair schedules.

  Model: `NsyncVerif/Model/CvFix.lean` (cv.c after the repair of F3, statement by statement), as in
  `Props/C04Fix.lean`: one condition variable, any number of threads and records, all interleavings
  of waiters (plain, timed, cancellable, reader-mode, generic-lock, nsync_wait_n), signallers,
  broadcasters and observers, both semaphore flavours.  Definitions (`Exec`, `Moves`, `Ready`, the
  hypotheses, the `…_full` statements) are in `Proofs/CvFixFairDefs.lean`; the proofs are in
  `Proofs/CvFixFairStep.lean` (one-step facts, rank of a critical section), `CvFixFairLock.lean`
  (the spinlock), `CvFixFairWake.lean` (signal / broadcast return), `CvFixFairList.lean` (every
  unlinked record is woken or transferred), `CvFixFairTrace.lean` (concrete executions).

  STATUS
  PROVED IN FULL, under `Hyps` = reachable start ∧ `WeakFair` ∧ `SpinFair` ∧ `MuRelFair`:
  * `C04_fair_lock_free_again`   every critical section of the cv spinlock ends: the spinlock is
                                 free again and again (so the premise of `SpinFair` is always met);
  * `C04_fair_spin_exits`        every thread leaves `nsync_spin_test_and_set_`;
  * `C04_fair_signal_returns`    (1) EVERY nsync_cv_signal / nsync_cv_broadcast call returns;
  * `C04_fair_broadcast_wakes_all`  every record on `pcv->waiters` when a broadcast takes the
                                 spinlock is eventually transferred to the mutex queue or woken
                                 (`waiting := 0` stored and the V performed by the broadcaster);
  * `C04_fair_signal_wakes_one`  the same for every record of `sigSelect` (the first waiter; all
                                 reader-mode waiters if the first is one), in particular the first:
                                 at least one;
  * `C04_fair_unlinked_woken`    liveness form of `C04_no_lost_wake`: a record with status
                                 `listed u` (unlinked by waker `u`) is eventually transferred or woken;
  * `C04_fair_wakeup_partial : C04_fair_wakeup_partial_stmt`   the conjunction of the three.
  * each of the three hypotheses is NEEDED: `C04_fair_needs_weak_fair` (trace + idling),
    `C04_fair_needs_mu_rel` (lasso of period 2), `C04_fair_needs_spin_fair` (lasso of period 9):
    executions from a reachable state satisfying the other two hypotheses in which a signal call
    never returns (and, in the last one, the sleeping waiter is never woken);
  * non-vacuity: `bcExec` (`exBroadcast` of Props/C04Fix.lean + idling) satisfies `Hyps`; in it
    thread 0 really sleeps on its semaphore when the broadcast starts.  (Satisfiability of the
    additional hypotheses of `WaitHyps`, which only the unproved statements use, is NOT shown.)
  The concrete executions are checked with `decide` / `decide +kernel` (kernel evaluation, no
  compiler trust: `#print axioms` shows propext, Classical.choice, Quot.sound only).
  NOT PROVED (kept as `def … : Prop`, no theorem claims them):
  * `C04_fair_wakeup_full`: what is missing over `C04_fair_wakeup_partial_stmt` is, in (2) and
    (3), the conjunct "if `r` is the record of a cv wait, its owner's call RETURNS, with result 0":
    the waiter's side (from "woken / transferred" to `ret`), which needs the hypotheses of
    `WaitHyps` beyond `Hyps` (`SemFair`, `MutexFair`, `AllocFair`, `CancelFair`, `TransferFair`,
    `PostKept`, `FiniteSpurious`).
  * `C05_fair_return_full` (timed / cancellable / covered wait returns): nothing of it is proved.
    The ingredients that are there: `spin_exits` (the wait's two acquisitions), `lock_released`,
    `listed_woken` (a record on a waker's list gets `waiting := 0` and its V, or is transferred),
    `C05_no_resleep` / `C05_not_sleeping` (Props/C05CvFix.lean).  Missing: the chain for the waiting
    thread itself (program points `wHead … wTail`, the semaphore wait under `SemFair`, the foreign
    program points under `MutexFair` / `AllocFair` / `CancelFair`), and the stability facts it needs
    (`waiting = 0` of a woken record until its owner leaves: `InvB.wokenW`; `PostKept`).

  THE NOTIONS, and why
  * `Moves x t j`: an accepted event of `t` other than `noteSeen t` (the mark "the thread has
    observed its note notified", which the acceptor accepts at every program point, as a no-op
    outside sem_wait.c: counting it would let a thread "move" for ever without executing cv.c).
  * `Ready s t`: inside a call, at a program point of cv.c / common.c's spin loop / debug.c, and not
    inside the semaphore wait.  At such a point the only accepted events of `t` are the next
    operation of that code (`nonatomic_closed`, `closed_step_cases`), so `WeakFair` (a continuously
    `Ready` thread moves) is the usual weak fairness of the scheduler.  NOT `Ready`:
    - a thread asleep on its semaphore (`wSemRet`, `cWait`): hypothesis `SemFair` (C12's guarantee);
    - the program points at which the thread runs code of another layer and the acceptor accepts any
      number of foreign accesses (`Loc.foreign`): the waiter pool (`wNew`, `wExit`), the caller's
      mutex (`wUnlocking`, `wExit`, `wLocking`, `wRelocking`: `MutexFair`, C02's guarantee imported),
      the note code called by sem_wait.c (`cPre`, `cPost`: `CancelFair`), nsync_wait_n outside
      cv_enqueue / cv_dequeue (`nOut`: layer WaitN).
  * THE SPINLOCK.  The cv spinlock is a test-and-set lock; a failed CAS and the loads of the loop
    are moves, so a spinning thread is `Ready` and weak fairness says nothing about its success.
    We take STRONG fairness of the acquisition as the explicit hypothesis `SpinFair`: no thread
    stays in `nsync_spin_test_and_set_` for ever while the spinlock is free again and again.  That
    it IS free again and again is proved (`C04_fair_lock_free_again`), not assumed.  The
    alternative of C02Fair (failed CAS = stutter, plus `FiniteArrivals`) was not taken because
    "finitely many calls" does not bound the number of acquisitions here: a waiter whose deadline
    has expired while a waker holds its record re-takes the spinlock on every round of its loop
    (cv.c:249-281) until the waker has stored `waiting := 0`, and the acceptor lets one
    nsync_wait_n call enqueue and dequeue any number of times.  `C04_fair_needs_spin_fair`: a
    weakly fair lasso in which an observer (nsync_cv_debug_state_and_waiters) takes and releases
    the spinlock for ever while a signaller's test-and-set never succeeds.
  * `SemFair`, `TransferFair`, `PostKept`, `FiniteSpurious`, `NoSleepAfterNotify`, `NoteWakes`,
    `ClockAdvances` (used by the unproved `…_full` statements only) are explained at their
    definitions; `TransferFair` and `PostKept` are in STATE form ("from some time on `waiting = 0`
    and, while the owner sleeps, the count is positive") because the acceptor accepts `sem p_ret`
    on any semaphore from any thread outside cv.c, so that an event form ("the V happens") would
    not survive a stolen post.
  * `MuRelFair`: wake_waiters, having taken the MUTEX's spinlock (cv.c:67), releases it by a CAS
    loop on the mutex word (cv.c:130-134).  The mutex word is abstract here (every observed value is
    accepted), so the loop may fail for ever in the model (`C04_fair_needs_mu_rel`); that it ends
    is the mutex layer's business, imported as a hypothesis.
-/
import NsyncVerif.Proofs.CvFixFairTrace
import NsyncVerif.Props.C03Signal

namespace NsyncVerif.CvFix

/-! ### the theorems -/

/-- The cv spinlock is free again and again. -/
theorem C04_fair_lock_free_again {cfg : Config} {s0 : State} (x : Exec cfg s0) (hy : Hyps x)
    (i : Nat) : ∃ j, i ≤ j ∧ (x.ρ j).holder = none :=
  lock_free_again x hy.reach hy.weak i

/-- Every thread leaves the test-and-set loop (with the spinlock, `spin_sig_own`). -/
theorem C04_fair_spin_exits {cfg : Config} {s0 : State} (x : Exec cfg s0) (hy : Hyps x)
    (t : Tid) (i : Nat) : ∃ j, i ≤ j ∧ ((x.ρ j).thr t).loc.spinLoop = false :=
  spin_exits x hy.reach hy.weak hy.spin t i

/-- (1) Every nsync_cv_signal / nsync_cv_broadcast call returns. -/
theorem C04_fair_signal_returns {cfg : Config} {s0 : State} (x : Exec cfg s0) (hy : Hyps x)
    {t : Tid} {i : Nat} (hw : inWake ((x.ρ i).thr t) = true) :
    ∃ j, i ≤ j ∧ (x.σ j = some (.retSignal t) ∨ x.σ j = some (.retBroadcast t)) :=
  waker_returns x hy hw

/-- The records a waker unlinks at its acquisition are on its private list right after it. -/
theorem acquires_list {cfg : Config} {s0 : State} (x : Exec cfg s0) {t : Tid} {b : Bool} {i : Nat}
    (ha : WakerAcquires x t b i) :
    ((x.ρ (i + 1)).thr t).list = if b then (x.ρ i).queue else sigSelect (x.ρ i).recs (x.ρ i).queue := by
  obtain ⟨⟨exp, new, obs, he⟩, hc, hb⟩ := ha
  obtain ⟨_, _, _, hl⟩ := acq_sig_state (x.next_some he) hc
  rw [hl, hb]

/-- (2, wake half) nsync_cv_broadcast wakes every thread that is waiting: every record on
    `pcv->waiters` when the broadcast takes the spinlock is eventually transferred to the mutex
    queue or gets `waiting := 0` and the V of the broadcaster. -/
theorem C04_fair_broadcast_wakes_all {cfg : Config} {s0 : State} (x : Exec cfg s0) (hy : Hyps x)
    {t : Tid} {i : Nat} (ha : WakerAcquires x t true i) {r : Rid} (hr : r ∈ (x.ρ i).queue) :
    EventuallyWoken x r i := by
  have hl := acquires_list x ha
  simp only [if_true] at hl
  obtain ⟨j, hj, h⟩ := listed_woken x hy (t := t) (i := i + 1) (r := r) (by rw [hl]; exact hr)
  refine ⟨j, by omega, ?_⟩
  rcases h with h | ⟨q, k, h1, h2⟩
  · exact .inl h
  · exact .inr ⟨t, q, k, h1, h2⟩

/-- (3, wake half) nsync_cv_signal wakes at least one: the first waiter of a non-empty queue is
    among the records it unlinks (`sigSelect`; all reader-mode waiters if the first is one:
    `C04_signal`), and each of those is eventually transferred or woken. -/
theorem C04_fair_signal_wakes_one {cfg : Config} {s0 : State} (x : Exec cfg s0) (hy : Hyps x)
    {t : Tid} {i : Nat} (ha : WakerAcquires x t false i) :
    (∀ f rest, (x.ρ i).queue = f :: rest → f ∈ sigSelect (x.ρ i).recs (x.ρ i).queue) ∧
    ∀ r, r ∈ sigSelect (x.ρ i).recs (x.ρ i).queue → EventuallyWoken x r i := by
  refine ⟨fun f rest hq => by rw [hq]; exact sigSelect_head _ _ _, fun r hr => ?_⟩
  have hl := acquires_list x ha
  simp only [Bool.false_eq_true, if_false] at hl
  obtain ⟨j, hj, h⟩ := listed_woken x hy (t := t) (i := i + 1) (r := r) (by rw [hl]; exact hr)
  refine ⟨j, by omega, ?_⟩
  rcases h with h | ⟨q, k, h1, h2⟩
  · exact .inl h
  · exact .inr ⟨t, q, k, h1, h2⟩

/-- No wake-up is lost, liveness form of `C04_no_lost_wake`: a record that a waker has unlinked (at
    any time, by a signal or a broadcast) is eventually transferred to the mutex queue or gets
    `waiting := 0` and that waker's V. -/
theorem C04_fair_unlinked_woken {cfg : Config} {s0 : State} (x : Exec cfg s0) (hy : Hyps x)
    {r : Rid} {u : Tid} {i : Nat} (h : ((x.ρ i).recs r).stat = .listed u) :
    EventuallyWoken x r i := by
  have hm := ((x.inv hy.reach i).a.lMem u r).mpr h
  obtain ⟨j, hj, h⟩ := listed_woken x hy hm
  refine ⟨j, hj, ?_⟩
  rcases h with h | ⟨q, k, h1, h2⟩
  · exact .inl h
  · exact .inr ⟨u, q, k, h1, h2⟩

/-- What is proved of `C04_fair_wakeup_full`: everything except "the woken waiter's call returns". -/
def C04_fair_wakeup_partial_stmt : Prop :=
  ∀ (cfg : Config) (s0 : State) (x : Exec cfg s0), Hyps x →
    (∀ t i, inWake ((x.ρ i).thr t) = true →
      ∃ j, i ≤ j ∧ (x.σ j = some (.retSignal t) ∨ x.σ j = some (.retBroadcast t))) ∧
    (∀ t i, WakerAcquires x t true i → ∀ r, r ∈ (x.ρ i).queue → EventuallyWoken x r i) ∧
    (∀ t i, WakerAcquires x t false i →
      (∀ f rest, (x.ρ i).queue = f :: rest → f ∈ sigSelect (x.ρ i).recs (x.ρ i).queue) ∧
      ∀ r, r ∈ sigSelect (x.ρ i).recs (x.ρ i).queue → EventuallyWoken x r i)

theorem C04_fair_wakeup_partial : C04_fair_wakeup_partial_stmt :=
  fun _ _ x hy =>
    ⟨fun _ _ hw => C04_fair_signal_returns x hy hw,
     fun _ _ ha _ hr => C04_fair_broadcast_wakes_all x hy ha hr,
     fun _ _ ha => C04_fair_signal_wakes_one x hy ha⟩

/-! ### non-vacuity: `exBroadcast` followed by idling -/

deriving instance DecidableEq for Thr

theorem ok_of_okRun {cfg : Config} {evs : List Event} (h : okRun cfg evs = true) :
    run cfg init evs = .ok (runD cfg evs) := run_runD h

/-- One writer-mode waiter (thread 0, record w0) that sleeps on its semaphore, one broadcaster
    (thread 1); then nothing for ever. -/
def bcExec : Exec ⟨false⟩ init :=
  traceExec ⟨false⟩ init exBroadcast (runD ⟨false⟩ exBroadcast) (ok_of_okRun (by decide))

theorem lt2_cases {t : Nat} (h : t < 2) : t = 0 ∨ t = 1 := by omega

theorem bc_final_idle (t : Tid) : ((runD ⟨false⟩ exBroadcast).thr t).loc = .idle := by
  by_cases ht : t < 2
  · have h : ((runD ⟨false⟩ exBroadcast).thr 0).loc = .idle ∧
        ((runD ⟨false⟩ exBroadcast).thr 1).loc = .idle := by decide
    rcases lt2_cases ht with rfl | rfl
    · exact h.1
    · exact h.2
  · have := run_untouched (cfg := ⟨false⟩) (t := t) exBroadcast init (runD ⟨false⟩ exBroadcast)
      (tidsBelow_ne (n := 2) (by decide) (Nat.le_of_not_lt ht)) (ok_of_okRun (by decide))
    rw [this]; rfl

/-- All hypotheses of the proved theorems hold for `bcExec`. -/
theorem bc_hyps : Hyps bcExec :=
  hyps_of_quiescent bcExec ⟨[], rfl⟩ exBroadcast.length (fun j hj t => by
    rw [show bcExec.ρ j = runD ⟨false⟩ exBroadcast from
      (traceExec_tail (ok_of_okRun (by decide)) hj).1]
    exact bc_final_idle t)

/-- At time 16 the broadcaster (thread 1) takes the spinlock; the queue is `[w0]`; thread 0 is
    asleep on its semaphore (count 0, no deadline): a thread really blocks first. -/
theorem bc_acquires : WakerAcquires bcExec 1 true 16 ∧ (bcExec.ρ 16).queue = [.w 0] ∧
    ((bcExec.ρ 16).thr 0).loc = .wSemRet ∧ (bcExec.ρ 16).sem 0 = 0 ∧
    ((bcExec.ρ 16).thr 0).semDl = none := by
  refine ⟨⟨⟨2, 3, 2, by decide⟩, by decide, by decide⟩, by decide, by decide, by decide, by decide⟩

/-- The theorems apply: the broadcast returns … -/
example : ∃ j, 14 ≤ j ∧ (bcExec.σ j = some (.retSignal 1) ∨ bcExec.σ j = some (.retBroadcast 1)) :=
  C04_fair_signal_returns bcExec bc_hyps (by decide)

/-- … and the sleeping waiter's record is woken. -/
example : EventuallyWoken bcExec (.w 0) 16 :=
  C04_fair_broadcast_wakes_all bcExec bc_hyps bc_acquires.1 (by rw [bc_acquires.2.1]; simp)

/-- In the concrete execution: `waiting := 0` at time 21, the V at 22, the return of the broadcast
    at 23, the return of the wait (result 0) at 29. -/
example : bcExec.σ 21 = some (.recSt 1 .wake (.w 0) 0 1) ∧ bcExec.σ 22 = some (.semV 1 0) ∧
    ((bcExec.ρ 22).thr 1).cur = some (.w 0, 0) ∧ bcExec.σ 23 = some (.retBroadcast 1) ∧
    bcExec.σ 29 = some (.retWait 0 .ok) := by decide

/-! ### `WeakFair` is needed (trivially: otherwise nobody need move) -/

def stallEvs : List Event := [.callSignal 0]

def stallExec : Exec ⟨false⟩ init :=
  traceExec ⟨false⟩ init stallEvs (runD ⟨false⟩ stallEvs) (ok_of_okRun (by decide))

theorem stall_at {j : Nat} (hj : 1 ≤ j) :
    stallExec.ρ j = runD ⟨false⟩ stallEvs ∧ stallExec.σ j = none :=
  traceExec_tail (ok_of_okRun (by decide)) (by simpa [stallEvs] using hj)

theorem stall_thr (t : Tid) : (t = 0 → ((runD ⟨false⟩ stallEvs).thr t).loc = .sLd) ∧
    (t ≠ 0 → ((runD ⟨false⟩ stallEvs).thr t).loc = .idle) := by
  refine ⟨fun h => by subst h; decide, fun h => ?_⟩
  have := run_untouched (cfg := ⟨false⟩) (t := t) stallEvs init (runD ⟨false⟩ stallEvs)
    (tidsBelow_ne (n := 1) (by decide) (Nat.pos_of_ne_zero h)) (ok_of_okRun (by decide))
  rw [this]; rfl

/-- `WeakFair` cannot be dropped: thread 0 has called nsync_cv_signal and is never scheduled again;
    the other hypotheses hold and the call never returns. -/
theorem C04_fair_needs_weak_fair :
    ∃ x : Exec ⟨false⟩ init, Reachable ⟨false⟩ init ∧ SpinFair x ∧ MuRelFair x ∧ ¬ WeakFair x ∧
      ∀ j, 1 ≤ j → ((x.ρ j).thr 0).loc = .sLd := by
  have hloc : ∀ j, 1 ≤ j → ∀ t, (t = 0 → ((stallExec.ρ j).thr t).loc = .sLd) ∧
      (t ≠ 0 → ((stallExec.ρ j).thr t).loc = .idle) := by
    intro j hj t; rw [(stall_at hj).1]; exact stall_thr t
  refine ⟨stallExec, ⟨[], rfl⟩, ?_, ?_, ?_, fun j hj => (hloc j hj 0).1 rfl⟩
  · intro t i h _
    have := h (i + 1) (by omega)
    by_cases ht : t = 0
    · rw [(hloc (i + 1) (by omega) t).1 ht] at this; cases this
    · rw [(hloc (i + 1) (by omega) t).2 ht] at this; cases this
  · intro t i h
    have := h (i + 1) (by omega)
    by_cases ht : t = 0
    · rw [(hloc (i + 1) (by omega) t).1 ht] at this; cases this
    · rw [(hloc (i + 1) (by omega) t).2 ht] at this; cases this
  · intro hwf
    obtain ⟨j, hj, e, he, _⟩ := hwf 0 1 (fun j hj => by
      have := (hloc j hj 0).1 rfl
      refine ⟨?_, ?_, ?_⟩ <;> simp [this, Loc.foreign, Loc.asleep])
    rw [(stall_at hj).2] at he; cases he

/-! ### `MuRelFair` is needed -/

theorem run_stateFrom {cfg : Config} {s : State} {evs : List Event}
    (h : (run cfg s evs).toOption.isSome = true) : run cfg s evs = .ok (stateFrom cfg s evs) := by
  unfold stateFrom
  cases hr : run cfg s evs with
  | ok s' => rfl
  | error m => rw [hr] at h; cases h

/-- The transfer of `xferAll` (Props/C03Signal.lean) up to the successful CAS that takes the MUTEX's
    spinlock (cv.c:67): thread 0 sleeps in its wait, its record w0 has been moved to the mutex queue
    by the signaller (thread 1), whose first release CAS (cv.c:131) fails. -/
def relPre : List Event := xferAll.take 22 ++ [.muLd 1 .wwRelLd 7, .muCas 1 .wwRelCas 7 37 9 false]

/-- One round of the release loop cv.c:130-134: reload the mutex word, CAS fails again. -/
def relLoop : List Event := [.muLd 1 .wwRelLd2 7, .muCas 1 .wwRelCas 7 37 9 false]

def relA : State := runD ⟨false⟩ relPre

theorem rel_reach : Reachable ⟨false⟩ relA := reachable_runD (by decide)

theorem two_le_of_ne {t : Nat} (h1 : t ≠ 1) (h0 : t ≠ 0) : 2 ≤ t := by omega
theorem ne_of_two_le {t : Nat} (h : 2 ≤ t) : 1 ≠ t ∧ 0 ≠ t := by omega

theorem rel_loop_tid {t : Tid} (ht : t ≠ 1) : ∀ e ∈ relLoop, e.tid ≠ some t := by
  intro e he
  simp only [relLoop, List.mem_cons, List.mem_nil_iff, or_false] at he
  rcases he with rfl | rfl <;> simp only [Event.tid, ne_eq, Option.some.injEq] <;>
    exact fun h => ht h.symm

/-- A step of the release loop changes the frame of its thread only. -/
theorem step_muLd_local {cfg : Config} {s s' : State} {t : Tid} {site : MSite} {obs : Nat}
    (hs : step cfg s (.muLd t site obs) = .ok s') (hsite : site ≠ .wMode) :
    ∃ x', s' = s.setThr t x' := by
  simp only [step, stepMuLd] at hs
  split at hs
  · exact absurd rfl hsite
  · split at hs
    · cases hs
    · cases hs; exact ⟨_, rfl⟩
  · cases hs; exact ⟨_, rfl⟩
  · cases hs; exact ⟨_, rfl⟩
  · cases hs

theorem step_muCas_fail_local {cfg : Config} {s s' : State} {t : Tid} {site : MSite} {exp new obs : Nat}
    (hs : step cfg s (.muCas t site exp new obs false) = .ok s') : ∃ x', s' = s.setThr t x' := by
  simp only [step, stepMuCas, need_ok] at hs
  obtain ⟨_, _, hs⟩ := hs
  split at hs
  · simp only [need_ok, Bool.false_eq_true, if_false] at hs
    obtain ⟨_, hs⟩ := hs; cases hs; exact ⟨_, rfl⟩
  · simp only [need_ok, Bool.false_eq_true, if_false] at hs
    obtain ⟨_, hs⟩ := hs; cases hs; exact ⟨_, rfl⟩
  · cases hs

/-- Two steps that change only the frame of `t`, and leave it as it was, lead back to the state. -/
theorem two_local_cycle {cfg : Config} {A B : State} {t : Tid} {e1 e2 : Event}
    (hl : run cfg A [e1, e2] = .ok B)
    (hloc1 : ∀ s s', step cfg s e1 = .ok s' → ∃ x', s' = s.setThr t x')
    (hloc2 : ∀ s s', step cfg s e2 = .ok s' → ∃ x', s' = s.setThr t x')
    (hthr : B.thr t = A.thr t) : B = A := by
  simp only [run] at hl
  cases h1 : step cfg A e1 with
  | error m => rw [h1] at hl; cases hl
  | ok s1 =>
    rw [h1] at hl
    dsimp only at hl
    cases h2 : step cfg s1 e2 with
    | error m => rw [h2] at hl; cases hl
    | ok s2 =>
      rw [h2] at hl
      cases hl
      obtain ⟨x1, rfl⟩ := hloc1 _ _ h1
      obtain ⟨x2, rfl⟩ := hloc2 _ _ h2
      apply State.ext' <;> try rfl
      funext u
      by_cases hu : u = t
      · subst hu; exact hthr
      · simp [State.setThr, updT, hu]

theorem rel_cycle : run ⟨false⟩ relA relLoop = .ok relA := by
  have hl := run_stateFrom (cfg := ⟨false⟩) (s := relA) (evs := relLoop) (by decide +kernel)
  have hthr1 : (stateFrom ⟨false⟩ relA relLoop).thr 1 = relA.thr 1 := by decide +kernel
  have hB := two_local_cycle (t := 1) hl
    (fun s s' h => step_muLd_local (site := .wwRelLd2) h (by decide))
    (fun s s' h => step_muCas_fail_local h) hthr1
  exact hl.trans (congrArg Except.ok hB)

/-- Thread 1 goes round the release loop for ever. -/
def relExec : Exec ⟨false⟩ relA := loopExec ⟨false⟩ relA relLoop rel_cycle (by decide)

theorem rel_loc (j : Nat) : ((relExec.ρ j).thr 1).loc.muRel = true ∧
    ((relExec.ρ j).thr 0).loc = .wSemRet ∧ ∀ t, 2 ≤ t → ((relExec.ρ j).thr t).loc = .idle := by
  have h2 : j % 2 = 0 ∨ j % 2 = 1 := by omega
  have hst : relExec.ρ j = stateFrom ⟨false⟩ relA (relLoop.take (j % 2)) := rfl
  refine ⟨?_, ?_, ?_⟩
  · rw [hst]; rcases h2 with h | h <;> rw [h] <;> decide
  · rw [hst]; rcases h2 with h | h <;> rw [h] <;> decide
  · intro t ht
    have h1 := loopExec_untouched rel_cycle (by decide) (t := t)
      (rel_loop_tid (fun h => (ne_of_two_le ht).1 h.symm)) j
    have h3 := run_untouched (cfg := ⟨false⟩) (t := t) relPre init relA
      (tidsBelow_ne (n := 2) (by decide) ht) (ok_of_okRun (by decide))
    show ((relExec.ρ j).thr t).loc = .idle
    rw [show (relExec.ρ j).thr t = relA.thr t from h1, h3]; rfl

theorem rel_moves (j : Nat) : Moves relExec 1 j := by
  have hlt : j % 2 < relLoop.length := by show j % 2 < 2; omega
  refine ⟨relLoop[j % 2], ?_, ?_, ?_⟩
  · show relLoop[j % 2]? = _; exact List.getElem?_eq_getElem hlt
  · have h2 : j % 2 = 0 ∨ j % 2 = 1 := by omega
    rcases h2 with h | h <;> simp [h, relLoop, Event.tid]
  · have h2 : j % 2 = 0 ∨ j % 2 = 1 := by omega
    rcases h2 with h | h <;> simp [h, relLoop]

/-- `MuRelFair` cannot be dropped: a weakly fair execution from a reachable state, in which nobody
    is in the test-and-set loop, in which the signaller (thread 1) is inside the release loop of the
    mutex's spinlock for ever (every CAS on the — abstract — mutex word fails): its call never
    returns. -/
theorem C04_fair_needs_mu_rel :
    ∃ x : Exec ⟨false⟩ relA, Reachable ⟨false⟩ relA ∧ WeakFair x ∧ SpinFair x ∧ ¬ MuRelFair x ∧
      inWake ((x.ρ 0).thr 1) = true ∧
      ∀ j, x.σ j ≠ some (.retSignal 1) ∧ x.σ j ≠ some (.retBroadcast 1) := by
  have hloc : ∀ j t, ((relExec.ρ j).thr t).loc.spinLoop = false ∧
      (t ≠ 1 → ¬ Ready (relExec.ρ j) t) := by
    intro j t
    obtain ⟨h1, h0, h2⟩ := rel_loc j
    by_cases ht1 : t = 1
    · subst ht1
      refine ⟨?_, fun h => absurd rfl h⟩
      cases hl : ((relExec.ρ j).thr 1).loc <;> simp_all [Loc.muRel, Loc.spinLoop]
    · by_cases ht0 : t = 0
      · subst ht0
        exact ⟨by rw [h0]; rfl, fun _ hr => by have := hr.2.2; rw [h0] at this; cases this⟩
      · have := h2 t (two_le_of_ne ht1 ht0)
        exact ⟨by rw [this]; rfl, fun _ hr => hr.1 this⟩
  refine ⟨relExec, rel_reach, ?_, ?_, ?_, by decide, ?_⟩
  · intro t i h
    by_cases ht1 : t = 1
    · subst ht1; exact ⟨i, Nat.le_refl _, rel_moves i⟩
    · exact absurd (h i (Nat.le_refl _)) ((hloc i t).2 ht1)
  · intro t i h _
    have := h i (Nat.le_refl _)
    rw [(hloc i t).1] at this; cases this
  · intro hm
    exact hm 1 0 (fun j _ => (rel_loc j).1)
  · intro j
    have hlt : j % 2 < relLoop.length := by show j % 2 < 2; omega
    have he : relExec.σ j = some relLoop[j % 2] := List.getElem?_eq_getElem hlt
    have h2 : j % 2 = 0 ∨ j % 2 = 1 := by omega
    rw [he]
    rcases h2 with h | h <;> simp [h, relLoop]

/-! ### `SpinFair` is needed -/

/-- The part of the state that observers and spinning threads do not change. -/
def SameShared (s s' : State) : Prop :=
  s'.queue = s.queue ∧ s'.recs = s.recs ∧ s'.sem = s.sem ∧ s'.now = s.now ∧ s'.seq = s.seq ∧
    s'.bad = s.bad

theorem SameShared.trans {a b c : State} (h1 : SameShared a b) (h2 : SameShared b c) :
    SameShared a c := by
  obtain ⟨a1, a2, a3, a4, a5, a6⟩ := h1
  obtain ⟨b1, b2, b3, b4, b5, b6⟩ := h2
  exact ⟨b1.trans a1, b2.trans a2, b3.trans a3, b4.trans a4, b5.trans a5, b6.trans a6⟩

theorem same_of_obs {cfg : Config} {s s' : State} {e : Event} {t : Tid}
    (hs : step cfg s e = .ok s') (ht : e.tid = some t) (hd : inDebug (s.thr t) = true) :
    SameShared s s' := by
  rcases obs_step hs ht hd with ⟨rfl, _⟩ | ⟨x', _, rfl⟩ | ⟨_, _, _, _, _, _, _, _, _, _, _, _, rfl⟩ |
    ⟨_, _, _, _, _, _, _, _, _, _, rfl⟩ <;> exact ⟨rfl, rfl, rfl, rfl, rfl, rfl⟩

theorem same_of_wordLd {cfg : Config} {s s' : State} {t : Tid} {site : WSite} {obs : Nat}
    (hs : step cfg s (.wordLd t site obs) = .ok s') : SameShared s s' := by
  simp only [step, stepWordLd, need_ok] at hs
  obtain ⟨_, hs⟩ := hs
  split at hs
  all_goals (first
    | (cases hs; done)
    | (cases hs; exact ⟨rfl, rfl, rfl, rfl, rfl, rfl⟩)
    | (simp only [need_ok] at hs; obtain ⟨_, hs⟩ := hs; cases hs; exact ⟨rfl, rfl, rfl, rfl, rfl, rfl⟩))

theorem same_of_callDebug {cfg : Config} {s s' : State} {t : Tid} {k : DKind}
    (hs : step cfg s (.callDebug t k) = .ok s') : SameShared s s' := by
  simp only [step] at hs
  obtain ⟨_, rfl⟩ := stepCall_ok hs
  exact ⟨rfl, rfl, rfl, rfl, rfl, rfl⟩

/-- The event is a load of the cv word, the entry of a debug call, or an event of a thread that is
    inside a debug call. -/
def harmless (s : State) (e : Event) : Bool :=
  match e with
  | .wordLd .. => true
  | .callDebug .. => true
  | e => match e.tid with
    | some t => inDebug (s.thr t)
    | none => false

theorem same_of_harmless {cfg : Config} {s s' : State} {e : Event}
    (hs : step cfg s e = .ok s') (h : harmless s e = true) : SameShared s s' := by
  unfold harmless at h
  split at h
  · exact same_of_wordLd hs
  · exact same_of_callDebug hs
  · split at h
    · rename_i t ht; exact same_of_obs hs ht h
    · cases h

/-- A list of harmless events leaves the shared part alone. -/
theorem same_of_run {cfg : Config} {A B : State} {evs : List Event} (hl : run cfg A evs = .ok B)
    (hh : ∀ i, i < evs.length →
      harmless (stateFrom cfg A (evs.take i)) (evs[i]?.getD .skip) = true) :
    ∀ i, i ≤ evs.length → SameShared A (stateFrom cfg A (evs.take i)) := by
  intro i
  induction i with
  | zero => intro _; simp [stateFrom, run]; exact ⟨rfl, rfl, rfl, rfl, rfl, rfl⟩
  | succ i ih =>
    intro hi
    have hlt : i < evs.length := by omega
    have hst := stateFrom_step hl hlt
    have hhi := hh i hlt
    rw [List.getElem?_eq_getElem hlt] at hhi
    exact (ih (by omega)).trans (same_of_harmless hst hhi)

/-- Thread 0 has enqueued itself and sleeps (`exBroadcast`, first 13 events); thread 1 calls
    nsync_cv_signal, sees CV_NON_EMPTY; thread 2 (nsync_cv_debug_state_and_waiters) takes the
    spinlock; thread 1's first load of the test-and-set loop sees it held. -/
def spinPre : List Event := exBroadcast.take 13 ++
  [.callSignal 1, .wordLd 1 .sigLd 2,
   .callDebug 2 .waiters, .wordLd 2 .dbgLd 2, .wordLd 2 .spin0 2, .wordCas 2 2 3 2 true,
   .wordLd 1 .spin0 3]

/-- Thread 2 prints the queue, releases, returns, calls again and re-takes the spinlock; only then
    does thread 1 look at the word again. -/
def spinLoop : List Event :=
  [.recLd 2 .dbgW (.w 0) 1, .recLd 2 .dbgRc (.w 0) 0, .wordSt 2 .dbgRel 2 3, .retDebug 2 .waiters,
   .callDebug 2 .waiters, .wordLd 2 .dbgLd 2, .wordLd 2 .spin0 2, .wordCas 2 2 3 2 true,
   .wordLd 1 .spin2 3]

def spinA : State := runD ⟨false⟩ spinPre

theorem spin_reach : Reachable ⟨false⟩ spinA := reachable_runD (by decide +kernel)

theorem spin_loop_tid {t : Tid} (h1 : t ≠ 1) (h2 : t ≠ 2) : ∀ e ∈ spinLoop, e.tid ≠ some t := by
  intro e he
  simp only [spinLoop, List.mem_cons, List.mem_nil_iff, or_false] at he
  rcases he with rfl | rfl | rfl | rfl | rfl | rfl | rfl | rfl | rfl <;>
    simp only [Event.tid, ne_eq, Option.some.injEq] <;>
    first | exact fun h => h1 h.symm | exact fun h => h2 h.symm

theorem spin_cycle : run ⟨false⟩ spinA spinLoop = .ok spinA := by
  have hl := run_stateFrom (cfg := ⟨false⟩) (s := spinA) (evs := spinLoop) (by decide +kernel)
  have hh : ∀ i, i < spinLoop.length →
      harmless (stateFrom ⟨false⟩ spinA (spinLoop.take i)) (spinLoop[i]?.getD .skip) = true := by
    decide +kernel
  have hsame := same_of_run hl hh spinLoop.length (Nat.le_refl _)
  rw [stateFrom_all hl (Nat.le_refl _)] at hsame
  obtain ⟨a1, a2, a3, a4, a5, a6⟩ := hsame
  have hw : (stateFrom ⟨false⟩ spinA spinLoop).word = spinA.word := by decide +kernel
  have hho : (stateFrom ⟨false⟩ spinA spinLoop).holder = spinA.holder := by decide +kernel
  have ht1 : (stateFrom ⟨false⟩ spinA spinLoop).thr 1 = spinA.thr 1 := by decide +kernel
  have ht2 : (stateFrom ⟨false⟩ spinA spinLoop).thr 2 = spinA.thr 2 := by decide +kernel
  have hB : stateFrom ⟨false⟩ spinA spinLoop = spinA := by
    apply State.ext' hw hho a1 a2 ?_ a3 a4 a5 a6
    funext u
    by_cases hu1 : u = 1
    · subst hu1; exact ht1
    · by_cases hu2 : u = 2
      · subst hu2; exact ht2
      · exact run_untouched (cfg := ⟨false⟩) spinLoop spinA _ (spin_loop_tid hu1 hu2) hl
  exact hl.trans (congrArg Except.ok hB)

/-- Thread 2 takes and releases the spinlock for ever; thread 1 looks at the word only while it is
    held. -/
def spinExec : Exec ⟨false⟩ spinA := loopExec ⟨false⟩ spinA spinLoop spin_cycle (by decide)

theorem spin_tab : ∀ r, r < 9 →
    ((stateFrom ⟨false⟩ spinA (spinLoop.take r)).thr 1).loc = .spLd2 ∧
    ((stateFrom ⟨false⟩ spinA (spinLoop.take r)).thr 0).loc = .wSemRet ∧
    ((stateFrom ⟨false⟩ spinA (spinLoop.take r)).thr 2).loc.muRel = false ∧
    (r = 3 → (stateFrom ⟨false⟩ spinA (spinLoop.take r)).holder = none) := by
  decide +kernel

theorem spin_state (j : Nat) :
    spinExec.ρ j = stateFrom ⟨false⟩ spinA (spinLoop.take (j % 9)) := rfl

theorem spin_ev (j : Nat) : spinExec.σ j = spinLoop[j % 9]? := rfl

theorem ne_of_three_le {t : Nat} (h : 3 ≤ t) : t ≠ 1 ∧ t ≠ 2 := by omega

theorem spin_idle (j : Nat) {t : Tid} (ht : 3 ≤ t) : ((spinExec.ρ j).thr t).loc = .idle := by
  have h1 := loopExec_untouched spin_cycle (by decide) (t := t)
    (spin_loop_tid (t := t) (ne_of_three_le ht).1 (ne_of_three_le ht).2) j
  have h3 := run_untouched (cfg := ⟨false⟩) (t := t) spinPre init spinA
    (tidsBelow_ne (n := 3) (by decide) ht) (ok_of_okRun (by decide +kernel))
  show ((spinExec.ρ j).thr t).loc = .idle
  rw [show (spinExec.ρ j).thr t = spinA.thr t from h1, h3]; rfl

theorem lt3_cases {t : Nat} (h : t < 3) : t = 0 ∨ t = 1 ∨ t = 2 := by omega

/-- `SpinFair` cannot be dropped (weak fairness of the test-and-set is not enough): a weakly fair
    execution from a reachable state in which nobody is in the release loop of wake_waiters, the
    spinlock is free again and again, and yet the signaller (thread 1) stays in
    `nsync_spin_test_and_set_` for ever — every time it looks, the observer (thread 2) holds the
    spinlock: its call never returns, and the sleeping waiter (thread 0) is never woken. -/
theorem C04_fair_needs_spin_fair :
    ∃ x : Exec ⟨false⟩ spinA, Reachable ⟨false⟩ spinA ∧ WeakFair x ∧ MuRelFair x ∧ ¬ SpinFair x ∧
      (∀ j, ∃ j', j ≤ j' ∧ (x.ρ j').holder = none) ∧
      (∀ j, inWake ((x.ρ j).thr 1) = true ∧ ((x.ρ j).thr 1).loc.spinLoop = true) ∧
      (∀ j, ((x.ρ j).thr 0).loc = .wSemRet) := by
  have htab : ∀ j, ((spinExec.ρ j).thr 1).loc = .spLd2 ∧ ((spinExec.ρ j).thr 0).loc = .wSemRet ∧
      ((spinExec.ρ j).thr 2).loc.muRel = false := by
    intro j
    obtain ⟨a, b, c, _⟩ := spin_tab (j % 9) (Nat.mod_lt _ (by decide))
    rw [spin_state]; exact ⟨a, b, c⟩
  have hcont : ∀ j, ((spinExec.ρ j).thr 1).cont = .sig := by
    intro j
    have : ∀ r, r < 9 → ((stateFrom ⟨false⟩ spinA (spinLoop.take r)).thr 1).cont = .sig := by
      decide +kernel
    rw [spin_state]; exact this _ (Nat.mod_lt _ (by decide))
  have hfree : ∀ j, ∃ j', j ≤ j' ∧ (spinExec.ρ j').holder = none := by
    intro j
    refine ⟨9 * j + 3, by omega, ?_⟩
    rw [spin_state, show (9 * j + 3) % 9 = 3 by omega]
    exact (spin_tab 3 (by decide)).2.2.2 rfl
  have hmv : ∀ (t : Tid) (k : Nat), k < 9 → (∃ e, spinLoop[k]? = some e ∧ e.tid = some t ∧ e ≠ .noteSeen t) →
      ∀ i, ∃ j, i ≤ j ∧ Moves spinExec t j := by
    intro t k hk ⟨e, he, ht, hne⟩ i
    refine ⟨9 * i + k, by omega, e, ?_, ht, hne⟩
    rw [spin_ev, show (9 * i + k) % 9 = k by omega]; exact he
  refine ⟨spinExec, spin_reach, ?_, ?_, ?_, hfree, ?_, fun j => (htab j).2.1⟩
  · intro t i h
    by_cases ht : t < 3
    · rcases lt3_cases ht with rfl | rfl | rfl
      · have := (h i (Nat.le_refl _)).2.2
        rw [(htab i).2.1] at this; cases this
      · exact hmv 1 8 (by decide) ⟨_, rfl, rfl, by decide⟩ i
      · exact hmv 2 0 (by decide) ⟨_, rfl, rfl, by decide⟩ i
    · exact absurd (spin_idle i (Nat.le_of_not_lt ht)) (h i (Nat.le_refl _)).1
  · intro t i h
    have := h i (Nat.le_refl _)
    by_cases ht : t < 3
    · rcases lt3_cases ht with rfl | rfl | rfl
      · rw [(htab i).2.1] at this; cases this
      · rw [(htab i).1] at this; cases this
      · rw [(htab i).2.2] at this; cases this
    · rw [spin_idle i (Nat.le_of_not_lt ht)] at this; cases this
  · intro hsf
    exact hsf 1 0 (fun j _ => by rw [(htab j).1]; rfl) (fun j _ => hfree j)
  · intro j
    constructor
    · unfold inWake; rw [(htab j).1, hcont j]; rfl
    · rw [(htab j).1]; rfl

end NsyncVerif.CvFix
