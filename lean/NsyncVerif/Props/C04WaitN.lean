import NsyncVerif.Props.C11
/-
  Props/C04WaitN.lean — the nsync_wait_n half of property C04:

    "Releasing the mutex and starting to wait is atomic with respect to wakers that hold the mutex, and a
     wait that consumes a wake-up reports it as a wake-up (… the object's index from nsync_wait_n) …"

  over the WaitN model (wait.c statement by statement + cv_enqueue / cv_dequeue / wake_waiters).

  * `C04_waitn_release_after_enqueue` — the lock annotation that releases the supplied mutex inside
    nsync_wait_n is accepted only at wait.c:62, when every object of the call has been through its enqueue.
  * `C04_waitn_enqueued_at_release` — at that program point every condition-variable record of the call is on
    its pcv->waiters queue, or has ALREADY been taken off it by a signaller (ghost `unl = waker`): a waker that
    acquires the mutex after this release therefore finds the caller queued (its signal / broadcast covers the
    caller), and one that signalled earlier, without the mutex, has already consumed-and-delivered its wake-up.
    Nothing in between: there is no state in which the mutex is released and the record is neither queued nor
    already woken.
  * `C04_waitn_enqueued_while_unlocked` — the same holds at every later point of the call at which the
    mutex is not held and the caller has not begun to dequeue (the scan / sleep loop).

  Seeded change this is aimed at: `(*unlock) (mu)` moved in front of the enqueue loop
  (seeded/C04-waitn-unlocks-before-enqueue): the WaitN acceptor rejects the annotation at `wInit 0`.
-/
namespace WaitN

/-- The release of the supplied mutex inside nsync_wait_n happens after the enqueue loop: all `count` records
    exist, the caller still held the mutex until this very step. -/
theorem C04_waitn_release_after_enqueue {s s' : State} {t : Tid} {m : MuId} (hr : Reachable s)
    (hc : inCall (s.pc t) = true) (hm : (s.fr t).mu = some m) (hs : step s (.thr t (.annRel m)) = .ok s') :
    s.pc t = .wUnlock ∧ (s.fr t).recs.length = (s.fr t).count ∧ (s.fr t).held = true := by
  rcases C11_mutex_marks hr (.inl rfl) hc hm hs with ⟨_, h2, h3, h4⟩ | ⟨h1, _⟩
  · exact ⟨h2, h3, h4⟩
  · cases h1

/-- a cv record of a caller that is past its enqueue and has not begun to dequeue is queued or was unlinked by
    a signaller -/
private theorem cv_rec_queued_or_woken {s : State} {t : Tid} {i c : Nat} {r : Rid} (hreach : Reachable s)
    (hc : inCall (s.pc t) = true) (hfr : (s.fr t).frees = 0)
    (hfresh : freshAt (s.pc t) (s.fr t) ≠ some r) (hdq : dqIdx (s.pc t) (s.fr t) = 0)
    (hnrel : ∀ k, s.pc t ≠ .wDeqCv k (.release true))
    (hr : (s.fr t).recs[i]? = some r) (ho : (s.fr t).objs[i]? = some (.cv c)) :
    r ∈ (s.obj (.cv c)).queue ∨ (s.rcd r).unl = .waker := by
  have own := own_of_reachable hreach
  have qi := qinv_of_reachable hreach
  have ul := ulife_of_reachable hreach
  have hlive := (own.own t r hc hfr (List.mem_of_getElem? hr)).1
  have hidx := own.idx t i r hc hfr hr
  rw [ho] at hidx
  have hobj : (s.rcd r).obj = .cv c := (Option.some.inj hidx).symm
  cases hw : (s.rcd r).waiting with
  | true =>
    rcases qi.qi.q3 r hlive hw with h | ⟨u, c', l, h1, h2⟩
    · rw [hobj] at h; exact .inl h
    · exact .inr (ul.pend u c' l r h1 h2)
  | false =>
    cases hu : (s.rcd r).unl with
    | waker => exact .inr rfl
    | none =>
      exfalso
      rcases ul.fresh t i r c hc hfr hr hobj hu with h | h
      · rw [hw] at h; cases h
      · exact hfresh h
    | owner =>
      exfalso
      rcases ul.owner t i r c hc hfr hr hobj hu with h | h
      · have := ((qi.cf t).dq hc hfr i r hr).1 h
        omega
      · exact hnrel i h

/-- At the release of the supplied mutex every cv record of the call is on its queue or was already unlinked by
    a signaller. -/
theorem C04_waitn_enqueued_at_release {s : State} {t : Tid} {i c : Nat} {r : Rid} (hreach : Reachable s)
    (hp : s.pc t = .wUnlock) (hr : (s.fr t).recs[i]? = some r) (ho : (s.fr t).objs[i]? = some (.cv c)) :
    r ∈ (s.obj (.cv c)).queue ∨ (s.rcd r).unl = .waker := by
  have hl := linv_of_reachable hreach t
  rw [hp] at hl
  exact cv_rec_queued_or_woken hreach (by rw [hp]; rfl) hl.1.frees (by rw [hp]; simp [freshAt]) (by rw [hp]; rfl)
    (by intro k; rw [hp]; simp) hr ho

/-- … and stays so while the caller scans / sleeps with the mutex released. -/
theorem C04_waitn_enqueued_while_unlocked {s : State} {t : Tid} {i c : Nat} {r : Rid} (hreach : Reachable s)
    (hp : atP s t) (hr : (s.fr t).recs[i]? = some r) (ho : (s.fr t).objs[i]? = some (.cv c)) :
    r ∈ (s.obj (.cv c)).queue ∨ (s.rcd r).unl = .waker := by
  by_cases hq : r ∈ (s.obj (.cv c)).queue
  · exact .inl hq
  · exact .inr (C11_cv_unlinked_by_waker hreach hp hr ho hq)

/-- The two theorems together, as the statement reads: from the step that releases the mutex on, the caller is
    covered by every later wake-up of each of its condition variables. -/
theorem C04_waitn_atomic {s s' : State} {t : Tid} {m : MuId} {i c : Nat} {r : Rid} (hreach : Reachable s)
    (hc : inCall (s.pc t) = true) (hm : (s.fr t).mu = some m) (hs : step s (.thr t (.annRel m)) = .ok s')
    (hr : (s.fr t).recs[i]? = some r) (ho : (s.fr t).objs[i]? = some (.cv c)) :
    (s.fr t).recs.length = (s.fr t).count ∧ (r ∈ (s.obj (.cv c)).queue ∨ (s.rcd r).unl = .waker) := by
  have h := C04_waitn_release_after_enqueue hreach hc hm hs
  exact ⟨h.2.1, C04_waitn_enqueued_at_release hreach h.1 hr ho⟩

/-! ### non-vacuity and the seeded change -/

namespace Example

/-- nsync_wait_n (mu 0, no deadline, [cv 0]) up to the point where the next event is the release of mutex 0 -/
def upToUnlock : List Event :=
  [.thr 0 (.callWaitN (some 0) none [.cv 0] false)] ++ cvEnq 0 0 (.stk 4)

/-- the hypotheses of `C04_waitn_enqueued_at_release` / `C04_waitn_atomic` are met by a reachable state: the
    caller is at wait.c:62, holds the mutex, and its record is on pcv->waiters -/
example : (final upToUnlock).map (fun s => decide (s.pc 0 = .wUnlock ∧ (s.fr 0).mu = some 0 ∧ (s.fr 0).held = true
    ∧ (s.fr 0).recs[0]? = some (.stk 4) ∧ (s.fr 0).objs[0]? = some (.cv 0) ∧ Rid.stk 4 ∈ (s.obj (.cv 0)).queue)) = some true := by
  decide
example : accepts (upToUnlock ++ [.thr 0 (.annRel 0)]) = true := by decide
/-- the other disjunct: a signaller (not holding the mutex) unlinks the record BEFORE the caller releases the
    mutex — `unl = waker`, the record is off the queue -/
example : (final (upToUnlock ++ sigUnlink 1)).map (fun s => decide (s.pc 0 = .wUnlock ∧ (s.rcd (.stk 4)).unl = .waker
    ∧ Rid.stk 4 ∉ (s.obj (.cv 0)).queue)) = some true := by
  decide
/-- the seeded change (unlock moved in front of the enqueue loop) is rejected at its first event -/
example : accepts [.thr 0 (.callWaitN (some 0) none [.cv 0] false), .thr 0 (.annRel 0)] = false := by decide
/-- … and so is a release in the middle of the loop (two objects, first one enqueued) -/
example : accepts ([.thr 0 (.callWaitN (some 0) none [.cv 0, .cv 1] false)] ++ cvEnq 0 0 (.stk 4) ++ [.thr 0 (.annRel 0)]) = false := by
  decide

end Example

end WaitN
