/-
  Property C19 (note half): "If memory cannot be obtained, nsync_note_new returns NULL and leaves
  every existing object (in particular the intended parent note) unchanged and usable."

  Model: `NsyncVerif.Model.Note` (acceptor of note.c at one-atomic-operation granularity).  The
  failing allocation is the event `malloc t none` of a thread inside `nsync_note_new`.
  Everything is proved; nothing is partial.
-/
import NsyncVerif.Proofs.NoteFrame

namespace Note

/-- State extensionality. -/
theorem State.ext' {a b : State} (h1 : a.notes = b.notes) (h2 : a.recs = b.recs)
    (h3 : a.now = b.now) (h4 : a.pc = b.pc) (h5 : a.users = b.users) (h6 : a.freeing = b.freeing)
    (h7 : a.published = b.published) (h8 : a.notifyCalled = b.notifyCalled)
    (h9 : a.ownDl = b.ownDl) (h10 : a.ancEver = b.ancEver) (h11 : a.pathMin = b.pathMin)
    (h12 : a.bornNotified = b.bornNotified) (h13 : a.after = b.after)
    (h14 : a.observed = b.observed) (h15 : a.cparent = b.cparent) : a = b := by
  cases a; cases b; simp_all

/-- C19: when `malloc` fails inside `nsync_note_new`, nothing but the caller's program counter
    changes (no note, no waiter record, no ghost), and the only thing the caller can do next is to
    return NULL: zero further operations. -/
theorem C19_note_new_fail {s s1 : State} {t : Tid} {par : Option NoteId} {dl : Dl}
    (hpc : s.pc t = .newMalloc par dl) (hs : step s (.malloc t none) = .ok s1) :
    s1 = s.setPc t (.newRetNull par) ∧
    (∀ k, s1.notes k = s.notes k) ∧
    (∀ e s2, e.actor = some t → step s1 e = .ok s2 → e = .ret t (.new none)) := by
  have h1 : s1 = s.setPc t (.newRetNull par) := by
    simp only [step, hpc] at hs
    exact (Except.ok.inj hs).symm
  refine ⟨h1, fun k => by rw [h1]; rfl, ?_⟩
  intro e s2 ha he
  subst h1
  cases e <;> simp only [Event.actor, Option.some.injEq, reduceCtorEq] at ha <;> subst ha
  all_goals
    simp only [step, stepCall, stepRet, stepLd, stepStNote, stepStW, stepLockCall, stepLockRet,
      stepUnlockCall, stepUnlockRet, stepTryCall, stepTryRet, stepWaitCall, stepWaitRet,
      setPc_pc, upd_same, need_ok, reduceCtorEq, false_and, and_false] at he
  all_goals (try (exfalso; exact he))
  all_goals (try (split at he <;> simp at he))
  · rename_i r
    cases r with
    | new res => cases res <;> simp_all
    | _ => simp at he

/-- C19: the failed call is a no-op: after `call nsync_note_new p d`, `malloc NULL`,
    `ret nsync_note_new NULL` the state is exactly the state before the call — the intended parent
    (its flag, lock, children, waiters, disconnecting count, and the set of threads using it) and
    every other object are unchanged, so every continuation accepted before is accepted after. -/
theorem C19_parent_usable {s s1 s2 s3 : State} {t : Tid} {par : Option NoteId} {dl : Dl}
    (h1 : step s (.call t (.new par dl)) = .ok s1) (h2 : step s1 (.malloc t none) = .ok s2)
    (h3 : step s2 (.ret t (.new none)) = .ok s3) :
    s3 = s ∧ ∀ evs, run s3 evs = run s evs := by
  have hidle : s.pc t = .idle := by
    simp only [step] at h1
    split at h1
    · assumption
    · cases h1
  have : s3 = s := by
    simp only [step, hidle, stepCall] at h1
    cases par with
    | none =>
      simp only [Except.ok.injEq] at h1
      subst h1
      simp only [step, setPc_pc, upd_same, Except.ok.injEq] at h2
      subst h2
      simp only [step, stepRet, setPc_pc, upd_same, Except.ok.injEq] at h3
      subst h3
      apply State.ext' <;> try rfl
      funext u
      simp only [setPc_pc, upd_apply]
      split
      · next h => rw [h, hidle]
      · rfl
    | some p =>
      simp only [need_ok, Except.ok.injEq] at h1
      obtain ⟨_, h1⟩ := h1
      subst h1
      simp only [step, setPc_pc, upd_same, Except.ok.injEq] at h2
      subst h2
      simp only [step, stepRet, setPc_pc, upd_same, Except.ok.injEq] at h3
      subst h3
      apply State.ext' <;> try rfl
      · funext u
        simp only [leave_pc, setPc_pc, upd_apply]
        split
        · next h => rw [h, hidle]
        · rfl
      · funext k
        simp only [leave_users, setPc_users, addUser_users, upd_apply]
        split
        · next h => subst h; simp
        · rfl
  exact ⟨this, fun evs => by rw [this]⟩

/-- Non-vacuity: a concrete accepted trace — a root, then a child creation whose `malloc` fails,
    then the parent is notified and polled as if nothing had happened. -/
example :
    (match run init [
        .tick 10, .call 0 (.new none none), .malloc 0 (some 0),
        .ld 0 .dlLd1 .acq 0 0, .lockCall 0 0, .lockRet 0, .ld 0 .dlLd2 .acq 0 0,
        .unlockCall 0 0, .unlockRet 0, .now 0 10, .ret 0 (.new (some 0)),
        .call 1 (.new (some 0) (some 50)), .malloc 1 none, .ret 1 (.new none),
        .call 1 (.isNotified 0), .ld 1 .dlLd1 .acq 0 0, .lockCall 1 0, .lockRet 1,
        .ld 1 .dlLd2 .acq 0 0, .unlockCall 1 0, .unlockRet 1, .now 1 10,
        .ret 1 (.isNotified false)] with
      | .ok s => decide ((s.notes 0).children = []) && (s.users 0).isEmpty && !(s.notes 1).allocated
      | .error _ => false) = true := by
  decide

end Note
