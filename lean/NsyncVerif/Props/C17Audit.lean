import NsyncVerif.Props.C17

#print axioms Dll.C17_remove
#print axioms Dll.C17_remove_ring
#print axioms Dll.C17_splice
#print axioms Dll.C17_splice_rot
#print axioms Dll.C17_splice_list
#print axioms Dll.C17_make_first
#print axioms Dll.C17_make_first_singleton
#print axioms Dll.C17_make_first_null
#print axioms Dll.C17_make_last
#print axioms Dll.C17_make_last_singleton
#print axioms Dll.C17_make_last_null
#print axioms Dll.C17_traversals
#print axioms Dll.C17_step
#print axioms Dll.C17_sequences
#print axioms Dll.C17_sequences_from_empty
#print axioms Dll.C17_sequences_observe
#print axioms Dll.C17_no_null_deref
