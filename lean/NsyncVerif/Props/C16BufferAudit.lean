/- Axiom audit for the Emit layer (C16, buffer half). -/
import NsyncVerif.Props.C16Buffer

open NsyncVerif.Emit

#print axioms C16_buffer
#print axioms C16_cstr_unique
#print axioms C16_mu_debug_state
#print axioms C16_cv_debug_state
#print axioms inv_run
#print axioms print_mu_header
#print axioms print_cv_header
#print axioms print_readers
#print axioms print_close
#print axioms print_word
#print axioms muDebugChars_ne_zero
#print axioms cvDebugChars_ne_zero
#print axioms muDebugChars_eq_prints
#print axioms cvDebugChars_eq_prints
