/-
Property C17 — "The waiter-queue list operations implement a sequence."

Model: `NsyncVerif/Model/Dll.lean` (statement-by-statement model of `/repo/internal/dll.c`).
Everything below is proved in full (there is no `_partial` theorem); all theorems are for lists and
operation sequences of arbitrary length (induction, not enumeration), arbitrarily many lists
(`LId = Nat`) and arbitrary addresses.

Vocabulary (`Proofs/DllRing.lean`):
  `Ring H xs`   : `xs` non-empty, duplicate-free, `0 ∉ xs`, and `next`/`prev` of heap `H` are the cyclic
                  successor/predecessor along `xs`.
  `Repr H l xs` : handle `l` represents sequence `xs` : `xs = [] ∧ l = 0`, or `Ring H xs ∧ l = last xs`.
Contract (explicit hypotheses): the inserted element lies in a ring disjoint from the list; the
removed element is in the list.  `Ring H [e]` is exactly "`e ≠ NULL` is self-linked", the state
`nsync_dll_init_` and `nsync_dll_remove_` leave an element in.
-/
import NsyncVerif.Proofs.DllSeq
import NsyncVerif.Proofs.DllDeref

namespace Dll

/-! ## remove -/

/-- `nsync_dll_remove_`: the list loses exactly `e` (order of the others unchanged); `e` becomes a
self-linked singleton ring, in no list, that can be inserted again; every cell outside the list
is untouched, hence every disjoint list and ring is preserved. -/
theorem C17_remove {H : Heap} {l e : Addr} {xs : List Addr}
    (hr : Repr H l xs) (he : e ∈ xs) :
    Repr (remove H l e).1 (remove H l e).2 (xs.erase e) ∧
    ((remove H l e).1.next e = e ∧ (remove H l e).1.prev e = e) ∧
    Ring (remove H l e).1 [e] ∧ e ∉ xs.erase e ∧
    (∀ x, x ∉ xs → (remove H l e).1.next x = H.next x ∧ (remove H l e).1.prev x = H.prev x) ∧
    (∀ l2 ys, (∀ y ∈ ys, y ∉ xs) → Repr H l2 ys → Repr (remove H l e).1 l2 ys) ∧
    (∀ ys, (∀ y ∈ ys, y ∉ xs) → Ring H ys → Ring (remove H l e).1 ys) ∧
    (remove H l e).1.container = H.container :=
  ⟨remove_spec hr he, remove_self H l e, (remove_singleton hr he).1, (remove_singleton hr he).2,
   fun _ hx => remove_frame' hr he hx,
   fun _ _ hd h => h.frame (fun y hy => remove_frame' hr he (hd y hy)),
   fun _ hd h => h.frame (fun y hy => remove_frame' hr he (hd y hy)),
   remove_container H l e⟩

/-- The same heap effect on a bare ring (no handle), as `mu.c` inlines it for the
`same_condition` rings: removing `e` from the ring `e :: t` leaves the ring `t` and the
singleton `[e]`. -/
theorem C17_remove_ring {H : Heap} {l e : Addr} {t : List Addr}
    (h : Ring H (e :: t)) (ht : t ≠ []) :
    Ring (remove H l e).1 t ∧ Ring (remove H l e).1 [e] ∧
    (∀ x, x ∉ e :: t → (remove H l e).1.next x = H.next x ∧ (remove H l e).1.prev x = H.prev x) :=
  ⟨ring_remove_head h ht,
   (ring_singleton _ e).mpr ⟨h.ne_zero (by simp), remove_self H l e⟩,
   fun _ hx => remove_frame h (by simp) hx⟩

/-! ## splice -/

/-- `nsync_dll_splice_after_ (p, n)` on two disjoint rings `p :: ps` and `n :: ns`: afterwards the
ring of `p` is `p :: n :: ns ++ ps` (the comment in dll.c: `p->n->n_2nd…n_last->p_2nd…p_last->p`);
nothing outside the two rings is written. -/
theorem C17_splice {H : Heap} {p n : Addr} {ps ns : List Addr}
    (hp : Ring H (p :: ps)) (hn : Ring H (n :: ns)) (hd : ∀ x ∈ p :: ps, x ∉ n :: ns) :
    Ring (spliceAfter H p n) (p :: ((n :: ns) ++ ps)) ∧
    (∀ x, x ∉ p :: ps → x ∉ n :: ns →
      (spliceAfter H p n).next x = H.next x ∧ (spliceAfter H p n).prev x = H.prev x) ∧
    (spliceAfter H p n).container = H.container :=
  ⟨ring_splice hp hn hd,
   fun _ hxp hxn => splice_frame hp hn (by simp) (by simp) hxp hxn,
   splice_container H p n⟩

/-- `splice_after` with `p` and `n` anywhere in their rings (rings are rotation invariant). -/
theorem C17_splice_rot {H : Heap} {p n : Addr} {ps ns : List Addr}
    (hp : Ring H ps) (hn : Ring H ns) (hpm : p ∈ ps) (hnm : n ∈ ns) (hd : ∀ x ∈ ps, x ∉ ns) :
    Ring (spliceAfter H p n) (p :: (rotateTo n ns ++ (rotateTo p ps).tail)) := by
  obtain ⟨u, v, rfl, hu⟩ := List.eq_append_cons_of_mem hpm
  obtain ⟨u', v', rfl, hu'⟩ := List.eq_append_cons_of_mem hnm
  rw [rotateTo_split v hu, rotateTo_split v' hu']
  have h1 : Ring H (p :: (v ++ u)) := by simpa using hp.rotate
  have h2 : Ring H (n :: (v' ++ u')) := by simpa using hn.rotate
  refine ring_splice h1 h2 ?_
  intro x hx hx'
  refine hd x ?_ ?_
  · simp only [List.mem_cons, List.mem_append] at hx ⊢; grind
  · simp only [List.mem_cons, List.mem_append] at hx' ⊢; grind

/-- `splice_after (p, n)` where `p` is an element of a list with a handle: the ring of `n`,
starting at `n`, is inserted right after `p`; "after the last element" is the front of the list.
The handle stays valid. -/
theorem C17_splice_list {H : Heap} {l p n : Addr} {xs ys : List Addr}
    (hr : Repr H l xs) (hr2 : Ring H ys) (hp : p ∈ xs) (hn : n ∈ ys) (hd : ∀ x ∈ ys, x ∉ xs) :
    Repr (spliceAfter H p n) l
      (if xs.getLast? = some p then rotateTo n ys ++ xs else insertAfter p (rotateTo n ys) xs) :=
  splice_spec' hr hr2 hp hn hd

/-! ## make_first / make_last -/

/-- `nsync_dll_make_first_in_list_ (list, e)`, `e` an element of a ring `es` disjoint from the list:
the result represents `es` rotated to start at `e`, followed by the old list. -/
theorem C17_make_first {H : Heap} {l e : Addr} {xs es : List Addr}
    (hr : Repr H l xs) (hes : Ring H es) (hem : e ∈ es) (hd : ∀ x ∈ es, x ∉ xs) :
    Repr (makeFirst H l e).1 (makeFirst H l e).2 (rotateTo e es ++ xs) ∧
    (∀ x, x ∉ xs → x ∉ es →
      (makeFirst H l e).1.next x = H.next x ∧ (makeFirst H l e).1.prev x = H.prev x) ∧
    (makeFirst H l e).1.container = H.container :=
  ⟨makeFirst_spec_rot hr hes hem hd, fun _ hx hx' => makeFirst_frame hr hes hem hx hx',
   makeFirst_container H l e⟩

/-- Special case used by every nsync queue: a self-linked singleton goes to the front. -/
theorem C17_make_first_singleton {H : Heap} {l e : Addr} {xs : List Addr}
    (hr : Repr H l xs) (hes : Ring H [e]) (hd : e ∉ xs) :
    Repr (makeFirst H l e).1 (makeFirst H l e).2 (e :: xs) :=
  makeFirst_spec hr hes (by simpa using hd)

/-- `e == NULL`: nothing happens. -/
theorem C17_make_first_null (H : Heap) (l : Addr) : makeFirst H l 0 = (H, l) :=
  makeFirst_null H l

/-- `nsync_dll_make_last_in_list_ (list, e)`: the result represents the old list followed by `es`
rotated so that it ENDS with `e`; the returned handle is `e`. -/
theorem C17_make_last {H : Heap} {l e : Addr} {xs es : List Addr}
    (hr : Repr H l xs) (hes : Ring H es) (hem : e ∈ es) (hd : ∀ x ∈ es, x ∉ xs) :
    Repr (makeLast H l e).1 (makeLast H l e).2 (xs ++ rotateEnd e es) ∧
    (makeLast H l e).2 = e ∧
    (∀ x, x ∉ xs → x ∉ es →
      (makeLast H l e).1.next x = H.next x ∧ (makeLast H l e).1.prev x = H.prev x) ∧
    (makeLast H l e).1.container = H.container :=
  ⟨makeLast_spec_rot hr hes hem hd,
   by simp [makeLast, hes.ne_zero hem],
   fun _ hx hx' => makeLast_frame hr hes hem hx hx',
   makeLast_container H l e⟩

/-- Special case: a self-linked singleton goes to the back. -/
theorem C17_make_last_singleton {H : Heap} {l e : Addr} {xs : List Addr}
    (hr : Repr H l xs) (hes : Ring H [e]) (hd : e ∉ xs) :
    Repr (makeLast H l e).1 (makeLast H l e).2 (xs ++ [e]) :=
  makeLast_spec (t := []) hr hes (by simpa using hd)

/-- `e == NULL`: nothing happens. -/
theorem C17_make_last_null (H : Heap) (l : Addr) : makeLast H l 0 = (H, l) :=
  makeLast_null H l

/-! ## traversals -/

/-- `is_empty/first/last/next/prev` enumerate exactly the represented sequence, forwards and
backwards, and report emptiness exactly for `[]`.  The last clause is the client loop
`for (p = first (l); p != NULL; p = next (l, p))` (and its backward dual) with any sufficient fuel. -/
theorem C17_traversals {H : Heap} {l : Addr} {xs : List Addr} (hr : Repr H l xs) :
    (isEmpty l = true ↔ xs = []) ∧
    (first H l = 0 ↔ xs = []) ∧
    (∀ a t, xs = a :: t → first H l = a) ∧
    (last H l = 0 ↔ xs = []) ∧
    (∀ t z, xs = t ++ [z] → last H l = z) ∧
    (∀ as a b bs, xs = as ++ a :: b :: bs → next H l a = b ∧ prev H l b = a) ∧
    (∀ as z, xs = as ++ [z] → next H l z = 0) ∧
    (∀ a bs, xs = a :: bs → prev H l a = 0) ∧
    (∀ fuel, xs.length ≤ fuel →
      toListFwd H l fuel = xs ∧ toListBwd H l fuel = xs.reverse) := by
  refine ⟨isEmpty_spec hr, first_eq_zero_iff hr, ?_, last_eq_zero_iff hr, ?_, ?_, ?_, ?_, ?_⟩
  · rintro a t rfl; exact first_cons hr
  · rintro t z rfl; exact last_concat hr
  · rintro as a b bs rfl; exact ⟨next_mid hr, prev_mid hr⟩
  · rintro as z rfl; exact next_last hr
  · rintro a bs rfl; exact prev_first hr
  · intro fuel hf; exact ⟨toListFwd_spec hr hf, toListBwd_spec hr hf⟩

/-! ## arbitrary operation sequences on arbitrarily many disjoint lists -/

/-- One contract-abiding operation preserves the simultaneous representation of all lists. -/
theorem C17_step {C : Conc} {A : Spec} (hinv : Inv C A) (op : Op) (hok : op.Ok A) :
    Inv (C.apply op) (A.apply op) :=
  hinv.step op hok

/-- For EVERY finite sequence `ops` of `init / makeFirst / makeLast / remove / makeFirstAll /
makeLastAll / splice` operations (no length bound) each of which respects its contract in the
abstract state it is applied to, starting from any related pair of states, the concrete heap and
handles represent the abstract sequences after every prefix of `ops`. -/
theorem C17_sequences {C : Conc} {A : Spec} (hinv : Inv C A) (ops : List Op) (hok : OkSeq A ops) :
    ∀ k, Inv (C.run (ops.take k)) (A.run (ops.take k)) :=
  fun k => hinv.run (ops.take k) (hok.take k)

/-- … in particular starting from arbitrary uninitialised memory `H0` with all lists empty. -/
theorem C17_sequences_from_empty (H0 : Heap) (ops : List Op) (hok : OkSeq Spec.empty ops) :
    ∀ k, Inv ((Conc.empty H0).run (ops.take k)) (Spec.empty.run (ops.take k)) :=
  C17_sequences (Inv.empty H0) ops hok

/-- … and what a client observes then: walking any list with `first/next` (resp. `last/prev`)
yields exactly the abstract sequence (resp. its reverse), `is_empty` is exact, and the free
elements are self-linked. -/
theorem C17_sequences_observe (H0 : Heap) (ops : List Op) (hok : OkSeq Spec.empty ops) (lid : LId) :
    let C := (Conc.empty H0).run ops
    let A := Spec.empty.run ops
    (∀ fuel, (A.lists lid).length ≤ fuel →
      toListFwd C.heap (C.handle lid) fuel = A.lists lid ∧
      toListBwd C.heap (C.handle lid) fuel = (A.lists lid).reverse) ∧
    (isEmpty (C.handle lid) = true ↔ A.lists lid = []) ∧
    (∀ a, A.free a → C.heap.next a = a ∧ C.heap.prev a = a) := by
  intro C A
  have hinv : Inv C A := (Inv.empty H0).run ops hok
  refine ⟨fun fuel hf => ⟨toListFwd_spec (hinv.repr lid) hf, toListBwd_spec (hinv.repr lid) hf⟩,
    isEmpty_spec (hinv.repr lid), fun a ha => ?_⟩
  exact ((ring_singleton _ a).mp (hinv.free a ha).1).2

/-! ## no NULL dereference under the contract -/

/-- Every pointer the C code dereferences (listed per function in `Model/Dll.lean`) is an element
of one of the rings involved, hence non-null. -/
theorem C17_no_null_deref {H : Heap} {l : Addr} {xs : List Addr} (hr : Repr H l xs) :
    (∀ e ∈ xs, ∀ a ∈ removeDerefs H l e, a ≠ 0) ∧
    (∀ e es, Ring H es → e ∈ es → ∀ a ∈ makeFirstDerefs H l e, a ≠ 0) ∧
    (∀ e es, Ring H es → e ∈ es → ∀ a ∈ makeLastDerefs H l e, a ≠ 0) ∧
    (∀ p ∈ xs, ∀ n es, Ring H es → n ∈ es → ∀ a ∈ spliceAfterDerefs H p n, a ≠ 0) ∧
    (∀ a ∈ firstDerefs l, a ≠ 0) ∧
    (∀ e ∈ xs, ∀ a ∈ nextDerefs l e, a ≠ 0) ∧
    (∀ e ∈ xs, ∀ a ∈ prevDerefs H l e, a ≠ 0) :=
  ⟨fun _ he a ha => (remove_no_null hr he a ha).2,
   fun _ _ hes hem a ha => (makeFirst_no_null hr hes hem a ha).2,
   fun _ _ hes hem a ha => (makeLast_no_null hr hes hem a ha).2,
   fun _ hp _ _ hes hn a ha =>
     (splice_no_null (hr.ring (List.ne_nil_of_mem hp)).1 hes hp hn a ha).2,
   (traversal_no_null hr).1, (traversal_no_null hr).2.1, (traversal_no_null hr).2.2⟩

/-! ## non-vacuity: concrete states satisfying the hypotheses -/

/-- Two lists `L0 = [1,2,3]` (handle 3), `L1 = [4,5]` (handle 5) and a free element 6. -/
def exHeap : Heap where
  next := fun a => match a with
    | 1 => 2 | 2 => 3 | 3 => 1 | 4 => 5 | 5 => 4 | 6 => 6 | _ => 0
  prev := fun a => match a with
    | 1 => 3 | 2 => 1 | 3 => 2 | 4 => 5 | 5 => 4 | 6 => 6 | _ => 0
  container := fun _ => 0

example : Repr exHeap 3 [1, 2, 3] := by
  refine Repr.of_ring ?_ (by simp)
  simp [ring_cons, exHeap]

example : Repr exHeap 5 [4, 5] := by
  refine Repr.of_ring ?_ (by simp)
  simp [ring_cons, exHeap]

example : Ring exHeap [6] := by simp [ring_singleton, exHeap]

/-- The hypotheses of `C17_make_first` (multi-element ring, `e` in the middle of it) hold … -/
example : Repr (makeFirst exHeap 3 5).1 (makeFirst exHeap 3 5).2 ([5, 4] ++ [1, 2, 3]) := by
  have h0 : Repr exHeap 3 [1, 2, 3] := Repr.of_ring (by simp [ring_cons, exHeap]) (by simp)
  have h1 : Ring exHeap [4, 5] := by simp [ring_cons, exHeap]
  have := (C17_make_first (e := 5) h0 h1 (by simp) (by simp)).1
  simpa [rotateTo] using this

/-- … and the model computes the same thing. -/
example : toListFwd (makeFirst exHeap 3 5).1 (makeFirst exHeap 3 5).2 10 = [5, 4, 1, 2, 3] ∧
    toListBwd (makeFirst exHeap 3 5).1 (makeFirst exHeap 3 5).2 10 = [3, 2, 1, 4, 5] := by
  decide

/-- The hypotheses of `C17_remove` hold (middle element of `L0`), and the model agrees. -/
example : toListFwd (remove exHeap 3 2).1 (remove exHeap 3 2).2 10 = [1, 2, 3].erase 2 := by
  decide

/-- A contract-abiding operation sequence from uninitialised memory, exercising every
operation, two lists and a multi-element splice. -/
def exOps : List Op :=
  [.init 1 0, .init 2 0, .init 3 0, .init 4 0, .init 5 0,
   .makeLast 0 1, .makeLast 0 2, .makeFirst 1 3, .makeLast 1 4, .makeFirst 0 5,
   .remove 0 1, .makeFirstAll 0 1, .makeLast 1 1, .makeLastAll 1 0, .remove 1 4,
   .makeFirst 0 4, .splice 1 5 0 4]

example : OkSeq Spec.empty exOps := by
  simp [exOps, OkSeq, Op.Ok, Spec.apply, Spec.empty, upd]

example :
    toListFwd ((Conc.empty Heap.zero).run exOps).heap (((Conc.empty Heap.zero).run exOps).handle 1) 9
      = [1, 3, 5, 4, 2] ∧
    toListBwd ((Conc.empty Heap.zero).run exOps).heap (((Conc.empty Heap.zero).run exOps).handle 1) 9
      = [2, 4, 5, 3, 1] ∧
    isEmpty (((Conc.empty Heap.zero).run exOps).handle 0) = true := by
  decide

end Dll

/-
Property theorems of C17 (all in namespace `Dll`):
  C17_remove                 C17_remove_ring
  C17_splice                 C17_splice_rot            C17_splice_list
  C17_make_first             C17_make_first_singleton  C17_make_first_null
  C17_make_last              C17_make_last_singleton   C17_make_last_null
  C17_traversals
  C17_step                   C17_sequences             C17_sequences_from_empty
  C17_sequences_observe
  C17_no_null_deref
`#print axioms` for each of them: `NsyncVerif/Props/C17Audit.lean`.
-/
