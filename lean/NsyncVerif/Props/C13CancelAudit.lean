/-
  Props/C13CancelAudit.lean — axioms used by the theorems of Props/C13Cancel.lean and Props/C05Cancel.lean
  (layer SemWait).  Expected: a subset of `propext`, `Classical.choice`, `Quot.sound`.
-/
import NsyncVerif.Props.C13Cancel
import NsyncVerif.Props.C05Cancel

#print axioms SemWait.inv_of_reachable
#print axioms SemWait.C13_cancel_record_touch
#print axioms SemWait.C13_cancel_owner_access
#print axioms SemWait.C13_cancel_owner_returns_clean
#print axioms SemWait.C13_cancel_remove_safe
#print axioms SemWait.C05_cancel_reason
#print axioms SemWait.C05_cancel_reason_enqueued
#print axioms SemWait.C05_cancel_consumed_step
#print axioms SemWait.C05_cancel_zero_takes_token
#print axioms SemWait.C05_cancel_unlock_needs_empty
#print axioms SemWait.C05_cancel_no_missed
#print axioms SemWait.C05_cancel_p_deadline
#print axioms SemWait.C05_cancel_deadline_bound
#print axioms SemWait.C05_cancel_l65_notified
#print axioms SemWait.ExampleC05.lost_not_asleep
