/-
  Property C09, liveness half — "no such call deadlocks" — and C08's "every thread waiting on them
  is released", for fair schedules.

  Model: `NsyncVerif/Model/Note.lean` (note.c after the repairs of F4 / F5 / F7, statement by
  statement, and the `nsync_wait_n` path of `nsync_note_wait`), as in `Props/C09.lean` and
  `Props/C08Release.lean`: any forest, any number of threads, any clock; notify / free / new /
  wait on related notes, recursion into children, WAIT_FOR_NO_CHILDREN, adoptions, rescans.
  Definitions (`Exec`, `Moves`, `Ready`, `WeakFair`, `LockFair`, `WaitFair`, `FiniteArrivals`,
  `ClockAdvances`, `SemSound`, `WaitEnds`, `WaitEndsFlag`, `LeafCalls`, the `…_full` statements)
  are in `Proofs/NoteFairDefs.lean` (+ `FiniteWork`, `Looper` in `Proofs/NoteFairGen.lean`,
  `Frozen` in `Proofs/NoteFairDeadlock.lean`).

  STATUS: everything is proved at full strength (no `_partial` is needed any more; the theorem
  named `C09_fair_termination_partial` is kept as a corollary).
  * `C09_fair_termination : C09_fair_termination_full` — ALL calls, no restriction on the forest
    or on what the calls do: in every weakly fair execution from a reachable state with
    starvation-free note mutexes (`LockFair`, `WaitFair`) and finitely many arrivals, every call of
    nsync_note_new / _notify / _is_notified / _expiry / _free returns, and every nsync_note_wait
    returns whose note is notified at some time (`State.Notified`: flag set or expiry time zero),
    or — if the clock passes every value (`ClockAdvances`) and the semaphore returns 0 only when
    posted (`SemSound`) — whose own deadline or whose note's expiry time is finite (`WaitEnds`).
    Its cases are theorems of their own: `C09_fair_termination_flag` (flag set at some time),
    `C09_fair_termination_deadline` (finite deadline of the wait), `notified_returns`,
    `expiry_returns` (Proofs/NoteFairExp.lean).
  * The two halves of the proof, each a theorem of its own:
      `C09_fair_finite_work` — BOUNDED WORK: every thread takes finitely many steps inside its
          calls unless it goes round the wait loop of an un-notified nsync_note_wait for ever
          (no fairness of the mutexes needed).  Rank (Proofs/NoteFairRankG.lean, NoteFairPot2.lean):
          lexicographically (potential, phase, work, waiters) where
            potential = 2·(Σ over notes of the number of notes above their parent in the creation
                        order + (B+1)·number of nsync_note_new calls before their link)
                        + number of `children_adopted` marks + number of notes not yet notified;
                        it never increases; an adoption decreases it (the adopted note moves
                        strictly up: `C09_lock_order`'s order), so does a rescan after
                        WAIT_FOR_NO_CHILDREN (it clears a mark) and the store of a flag (so every
                        recursive activation that scans a list pays for it);
            work      = position in the code, and in the loops over children 12·(number of
                        children from the saved `next` pointer on) per activation — the lists are
                        stable while the thread holds the mutex (`step_children_other`), have no
                        duplicates (`C08_children_nodup`), and only shrink when the thread itself
                        disconnects a child.
      `C09_fair_termination_modulo_work` — BLOCKING: with bounded work every call returns.  A
          thread that has stopped for ever inside a call waits for a mutex or for the children of
          a note (`WeakFair`); then the mutex is held for ever by ONE thread that has stopped too,
          strictly below (`LockFair`, `C09_lock_order`); or a child of the note is `disconnecting`
          and a thread counted in it has stopped at or below the child, or at the mutex of the
          note itself (`WaitFair`, `C09_wait_has_disconnectors`, `C09_disconnecting_count`,
          `counted_target`): descent along the finite creation order.  A sleeper whose note has
          its flag set has been posted once no activation on the note is left
          (`C08_waiters_released`) — C08's "every thread waiting on them is released".
      For the deadline clauses: a P that returns 0 is impossible while the flag is unset
      (`Reachable.postedFlag` + `SemSound`), so the wait is no looper (`ph2`); the deadline of its
      sleep is the minimum of its own deadline and the note's expiry time (`Reachable.sleepOk`,
      `Reachable.wOk`; the expiry time is constant during the wait, `expiry_const`), which the
      clock passes.  For a note with expiry time zero: a wait on it never gets a waiter record
      (`Reachable.wOk`), so it never sleeps and never re-reads the flag.
  * Also proved:
      `C09_fair_termination_leaf : C09_fair_termination_leaf_full` — for executions in which no
          call works on a child note (`LeafCalls`), WITHOUT `WaitFair`, with
          `C09_fair_lock_free_again`: every note mutex is free again and again.
      `C09_fair_no_deadlock : C09_fair_no_deadlock_full` — with weak fairness ALONE and without
          `FiniteArrivals`: an execution cannot come to a standstill with a call blocked on a note
          mutex or inside a WAIT_FOR_NO_CHILDREN (liveness reading of `C09_no_stuck_state`).
      `C09_fair_needs_weak_fair`, `C09_fair_needs_lock_fair` — each is needed: an execution
          satisfying all the other hypotheses (and `LeafCalls`) in which a call never returns.
      non-vacuity: `timedExec` / `timed_hyps` (a timed wait on a note that is never notified
          really sleeps, the clock — which then ticks for ever — passes its deadline, it
          returns 0), `leafExec` / `leaf_hyps`, `releaseExec` / `release_hyps`
          (`Traces.releaseTrace`, recorded from the library, followed by idling: a waiter on a
          CHILD really sleeps, `notify (parent)` really recurses into the child and posts; the
          theorem is applied to the sleeper and to the notifier inside the recursive activation).
  * NOT delivered: necessity witnesses for `FiniteArrivals` (with infinitely many arrivals an ever
    growing chain of threads, the k-th holding the mutex of note k and waiting for that of its
    fresh child k+1, starves the first for ever; it is not a lasso) and for `WaitFair`.

  THE ENABLEDNESS / FAIRNESS NOTIONS, and why
  * `Ready s t` := inside a call, the note mutex it waits for (`PC.wants`, if any) is free, it is
    not inside a WAIT_FOR_NO_CHILDREN whose condition is false, and if it sleeps on the semaphore
    of its waiter record, the record has been posted (`posted ≠ 0`, "count non-zero": the model
    does not keep the semaphore count, A3) or the deadline of the sleep has passed.
  * `WeakFair`: a thread that is continuously `Ready` moves.  For a mutex acquisition this is the
    weak form; it is TOO WEAK: `C09_fair_needs_lock_fair` is a weakly fair lasso with finitely many
    arrivals and leaf calls only in which `nsync_note_is_notified (n)` waits for ever inside
    `nsync_mu_lock (&n->note_mu)` while a thread in `nsync_note_wait (n)` goes round the wait loop
    of `nsync_wait_n` (its P returns 0 again and again although nobody posted: accepted by
    assumption A3 of the model) and takes and releases the mutex each time.  Hence `LockFair`
    (strong fairness of the acquisition; liveness half of assumption A1), exactly as in
    Props/C07Fair.lean, and `WaitFair` for the return of `nsync_mu_wait` (liveness half of A2:
    mutex free AND condition true, again and again).  With a semaphore that never returns 0
    unposted (`SemSound`) this particular witness disappears; whether `LockFair` is then
    derivable from `FiniteArrivals` is left open.
  * `FiniteArrivals` makes the set of notes finite and constant from some time on (`settled_gen`),
    which the potential and the descent need (see (c)).
-/
import NsyncVerif.Proofs.NoteFairWitness
import NsyncVerif.Proofs.NoteFairDeadlock
import NsyncVerif.Proofs.NoteFairExp

set_option linter.unusedSimpArgs false

namespace Note

/-! ### the theorems -/

/-- FAIR TERMINATION, all calls: in every weakly fair execution from a reachable state with
    starvation-free note mutexes and finitely many arrivals, every call of nsync_note_new / _notify /
    _is_notified / _expiry / _free returns, and so does every nsync_note_wait on a note whose flag
    is set at some time.  (`C09_fair_termination_full` but for `WaitEndsFlag` in the place of
    `WaitEnds`.) -/
theorem C09_fair_termination_flag : C09_fair_termination_flag_full := by
  intro s0 x hr hw hl hwt hf t i hp hwe
  exact fair_returns_all x hr hw hl hwt hf hp hwe

/-- … and every nsync_note_wait with a finite deadline of its own returns, whether or not its note
    is ever notified, if the clock passes every value and the semaphore returns 0 only when it
    has been posted. -/
theorem C09_fair_termination_deadline {s0 : State} (x : Exec s0) (hr : Reachable s0)
    (hw : WeakFair x) (hl : LockFair x) (hwt : WaitFair x) (hf : FiniteArrivals x)
    (hclk : ClockAdvances x) (hss : SemSound x) {t : Tid} {i : Nat} {n : NoteId} {w : Nat}
    (hwo : ((x.ρ i).pc t).waitOn = some (n, some w)) : ∃ j, i ≤ j ∧ (x.ρ j).pc t = .idle :=
  dl_returns x hr hw hl hwt hf hclk hss hwo

/-- FAIR TERMINATION, the FULL statement: in every weakly fair execution from a reachable state with
    starvation-free note mutexes (`LockFair`, `WaitFair`) and finitely many arrivals, every call of
    nsync_note_new / _notify / _is_notified / _expiry / _free returns, and so does every
    nsync_note_wait whose note is notified at some time (flag set, or expiry time zero), or — if the
    clock passes every value and the semaphore returns 0 only when posted — whose own deadline or
    whose note's expiry time is finite. -/
theorem C09_fair_termination : C09_fair_termination_full := by
  intro s0 x hr hw hl hwt hf t i hp hwe
  cases hwo : ((x.ρ i).pc t).waitOn with
  | none =>
    exact fair_returns_all x hr hw hl hwt hf hp (fun n wdl h => by rw [hwo] at h; cases h)
  | some p =>
    obtain ⟨n, wdl⟩ := p
    rcases hwe n wdl hwo with ⟨j, hN⟩ | ⟨hclk, hss, hfin⟩
    · exact notified_returns x hr hw hl hwt hf hwo hN
    · cases wdl with
      | some w => exact dl_returns x hr hw hl hwt hf hclk hss hwo
      | none =>
        cases hex : ((x.ρ i).notes n).expiry with
        | some ex => exact expiry_returns x hr hw hl hwt hf hclk hss hwo hex
        | none => rcases hfin with h | h <;> exact absurd (by first | rfl | exact hex) h

/-- A corollary (the first version of the theorem, kept): the full statement with `WaitEndsPartial`
    (flag set at some time, or finite deadline of the wait passed by the clock) in the place of
    `WaitEnds`. -/
theorem C09_fair_termination_partial : C09_fair_termination_partial_statement := by
  intro s0 x hr hw hl hwt hf t i hp hwe
  cases hwo : ((x.ρ i).pc t).waitOn with
  | none =>
    exact fair_returns_all x hr hw hl hwt hf hp (fun n wdl h => by rw [hwo] at h; cases h)
  | some p =>
    obtain ⟨n, wdl⟩ := p
    rcases hwe n wdl hwo with hfl | ⟨hclk, hss, hfin⟩
    · exact fair_returns_all x hr hw hl hwt hf hp (fun n' wdl' h => by
        rw [hwo] at h; cases h; exact hfl)
    · cases wdl with
      | none => exact absurd rfl hfin
      | some w => exact dl_returns x hr hw hl hwt hf hclk hss hwo

/-- BOUNDED WORK: every thread takes finitely many steps inside its calls, unless it goes round the
    wait loop of an un-notified nsync_note_wait for ever. -/
theorem C09_fair_finite_work {s0 : State} (x : Exec s0) (hr : Reachable s0) (hw : WeakFair x)
    (hf : FiniteArrivals x) : FiniteWork x :=
  finiteWork x hr hw hf

/-- BLOCKING: with bounded work every call returns. -/
theorem C09_fair_termination_modulo_work : C09_fair_termination_modulo_work_full := by
  intro s0 x hr hw hl hwt hf hfw t i hp hwe
  exact gen_returns x ⟨hr, hw, hl, hwt, hf, hfw⟩ hp hwe

/-- FAIR TERMINATION for leaf calls (no `WaitFair`): in every weakly fair execution from a reachable state with
    starvation-free note mutexes, finitely many arrivals and leaf calls only, every call of
    nsync_note_new / _notify / _is_notified / _expiry / _free returns, and so does every
    nsync_note_wait on a note whose flag is set at some time. -/
theorem C09_fair_termination_leaf : C09_fair_termination_leaf_full := by
  intro s0 x hr hw hl hf hleaf t i hp hwe
  exact fair_returns x ⟨hr, hw, hl, hf, hleaf⟩ hp hwe

/-- … and from some time on every note mutex is free again and again. -/
theorem C09_fair_lock_free_again {s0 : State} (x : Exec s0) (hr : Reachable s0) (hw : WeakFair x)
    (hl : LockFair x) (hf : FiniteArrivals x) (hleaf : LeafCalls x) :
    ∃ N, ∀ m i, N ≤ i → ∃ j, i ≤ j ∧ ((x.ρ j).notes m).lockHolder = none := by
  obtain ⟨N, hS⟩ := settled x ⟨hr, hw, hl, hf, hleaf⟩
  exact ⟨N, fun m i hi => lock_recurs x ⟨hr, hw, hl, hf, hleaf⟩ hS m i hi⟩

/-- NO DEADLOCK (all calls, weak fairness alone): if from time `T` on no thread moves, every
    thread is outside any call, or asleep in nsync_note_wait — not blocked on a note mutex, not
    inside a WAIT_FOR_NO_CHILDREN — on a semaphore that is unposted before its deadline. -/
theorem C09_fair_no_deadlock : C09_fair_no_deadlock_full := by
  intro s0 x hr hw T hf t
  exact fair_no_deadlock x hr hw hf t

/-! ### each hypothesis is needed -/

/-- `WeakFair` cannot be dropped: all other hypotheses hold and the call never returns. -/
theorem C09_fair_needs_weak_fair :
    ∃ x : Exec stallA, Reachable stallA ∧ LockFair x ∧ WaitFair x ∧ FiniteArrivals x ∧
      LeafCalls x ∧ WaitEndsFlag x 0 0 ∧ ¬ WeakFair x ∧
      ∀ j, (x.ρ j).pc 0 = .newMalloc none none := by
  have hpc0 := (stallA_pc 0).1 rfl
  have hpc : ∀ t, stallA.pc t = .newMalloc none none ∨ stallA.pc t = .idle := by
    intro t
    by_cases ht : t = 0
    · subst ht; exact Or.inl hpc0
    · exact Or.inr ((stallA_pc t).2 ht)
  refine ⟨stallExec, stall_reach, ?_, ?_, ⟨0, ?_⟩, ?_, ?_, ?_, ?_⟩
  · intro t m i h _
    have hL := h i (Nat.le_refl _)
    rw [(stall_at i).1] at hL
    rcases hpc t with h' | h' <;> (rw [h'] at hL; cases hL)
  · intro t m i h _
    have hL := h i (Nat.le_refl _)
    rw [(stall_at i).1] at hL
    rcases hpc t with h' | h' <;> (rw [h'] at hL; cases hL)
  · intro j t a _ he
    rw [(stall_at j).2] at he; cases he
  · intro j t
    rw [(stall_at j).1]
    rcases hpc t with h' | h' <;> (rw [h']; rfl)
  · intro n wdl h
    rw [(stall_at 0).1, hpc0] at h; cases h
  · intro hwf
    obtain ⟨j, _, e, he, _⟩ := hwf 0 0 (fun j _ => by
      rw [Ready, (stall_at j).1, hpc0]
      refine ⟨(by intro h; cases h), (by intro m h; cases h), ?_, ?_⟩
      · unfold WaitBlocked; rw [hpc0]; exact fun h => h
      · unfold SemReady; rw [hpc0]; trivial)
    rw [(stall_at j).2] at he; cases he
  · intro j; rw [(stall_at j).1]; exact hpc0

/-- `LockFair` cannot be replaced by weak fairness of the acquisition, not even with finitely
    many arrivals and leaf calls only: a weakly fair execution from a reachable state in which
    the mutex of note0 is free again and again and yet `nsync_note_is_notified (note0)` waits
    inside `nsync_mu_lock` for ever. -/
theorem C09_fair_needs_lock_fair :
    ∃ x : Exec bargeA, Reachable bargeA ∧ WeakFair x ∧ WaitFair x ∧ FiniteArrivals x ∧
      LeafCalls x ∧ WaitEndsFlag x 0 0 ∧ ¬ LockFair x ∧
      (∀ j, ∃ j', j ≤ j' ∧ ((x.ρ j').notes 0).lockHolder = none) ∧
      (∀ j, (x.ρ j).pc 0 = .dl .lockRet 0 none .isNotified) := by
  have hfree : ∀ j, ∃ j', j ≤ j' ∧ ((bargeExec.ρ j').notes 0).lockHolder = none := by
    intro j
    refine ⟨9 * j, by omega, ?_⟩
    have hm : (9 * j) % 9 = 0 := by omega
    rw [barge_state, hm]
    exact (barge_states 0 (by omega)).2.2.2.1 rfl
  refine ⟨bargeExec, barge_reach, ?_, ?_, ⟨0, ?_⟩, ?_, ?_, ?_, hfree, barge_pc0⟩
  · -- weakly fair
    intro t i h
    by_cases ht1 : t = 1
    · subst ht1; exact ⟨i, Nat.le_refl _, barge_moves i⟩
    · by_cases ht0 : t = 0
      · subst ht0
        -- four steps after a multiple of 9 the mutex is held by T1
        have hR := h (9 * i + 4) (by omega)
        have hl := (barge_states 4 (by omega)).2.2.1 rfl
        have hm : (9 * i + 4) % 9 = 4 := by omega
        have hfree := hR.2.1 0 (by rw [barge_pc0]; rfl)
        rw [barge_state, hm, hl] at hfree
        cases hfree
      · exact absurd (barge_idle i (two_le_of_ne ht1 ht0)) (h i (Nat.le_refl _)).1
  · -- no child wait at all
    intro t m i h _
    have hL := h i (Nat.le_refl _)
    by_cases ht1 : t = 1
    · subst ht1
      rw [barge_state, (barge_states (i % 9) (by omega)).2.1] at hL; cases hL
    · by_cases ht0 : t = 0
      · subst ht0; rw [barge_pc0] at hL; cases hL
      · rw [barge_idle i (two_le_of_ne ht1 ht0)] at hL; cases hL
  · intro j t a _ he
    have hlt : j % 9 < bargeLoop.length := by show j % 9 < 9; omega
    rw [barge_ev, List.getElem?_eq_getElem hlt] at he
    have hc : bargeLoop[j % 9] = .call t a := Option.some.inj he
    have h9 : j % 9 = 0 ∨ j % 9 = 1 ∨ j % 9 = 2 ∨ j % 9 = 3 ∨ j % 9 = 4 ∨ j % 9 = 5 ∨
        j % 9 = 6 ∨ j % 9 = 7 ∨ j % 9 = 8 := by omega
    rcases h9 with h | h | h | h | h | h | h | h | h <;> simp [h, bargeLoop] at hc
  · intro j t
    by_cases ht1 : t = 1
    · subst ht1; rw [barge_state]; exact (barge_states (j % 9) (by omega)).1
    · by_cases ht0 : t = 0
      · subst ht0; rw [barge_pc0]; rfl
      · rw [barge_idle j (two_le_of_ne ht1 ht0)]; rfl
  · intro n wdl h
    rw [barge_pc0] at h; cases h
  · intro hlf
    obtain ⟨j, _, hm⟩ := hlf 0 0 0 (fun j _ => by rw [barge_pc0]; rfl) (fun j _ => hfree j)
    exact barge_not_moves0 j hm

/-! ### non-vacuity: the hypotheses hold in executions in which threads really wait -/

/-- In `leafExec` (all hypotheses of the leaf theorem: `leaf_hyps`) at time 34 T1 is asleep in
    `nsync_note_wait (note0)` on an unposted semaphore, its record queued with `waiting = 1`, the
    flag unset; T0's `nsync_note_notify (note0)` stores the flag at time 46, clears `waiting` at
    47 and posts at 48; T1's P returns at 54; both calls return (53, 63). -/
example : (leafExec.ρ 34).pc 1 = .wt (.pdRet none) 0 none 0 ∧
    ((leafExec.ρ 34).recs 0).posted = 0 ∧ ((leafExec.ρ 34).recs 0).waiting = true ∧
    ((leafExec.ρ 34).notes 0).waiters = [0] ∧ ((leafExec.ρ 34).notes 0).notified = false ∧
    leafExec.σ 46 = some (.stNote 0 .childSt .rel 0 1 0) ∧
    leafExec.σ 47 = some (.stW 0 .childWake .rel 0 0 1) ∧ leafExec.σ 48 = some (.semV 0 0) ∧
    ((leafExec.ρ 49).recs 0).posted = 1 ∧ ((leafExec.ρ 49).notes 0).notified = true ∧
    leafExec.σ 53 = some (.ret 0 .notify) ∧ leafExec.σ 54 = some (.pdRet 1 0 false) ∧
    leafExec.σ 63 = some (.ret 1 (.wait true)) ∧ leafEvs.length = 64 := by
  decide

/-- The sleeper is not `Ready` at time 34 (nothing is asked of it by `WeakFair`). -/
example : ¬ Ready (leafExec.ρ 34) 1 := by
  intro h
  have hpc : (leafExec.ρ 34).pc 1 = .wt (.pdRet none) 0 none 0 := by decide
  have hs := h.2.2.2
  unfold SemReady at hs
  rw [hpc] at hs
  have hp : ((leafExec.ρ 34).recs 0).posted = 0 := by decide
  rcases hs with hs | hs
  · exact hs hp
  · simp [Dl.leNow] at hs

theorem leaf_waitEnds : WaitEndsFlag leafExec 1 34 := by
  intro n wdl h
  have hpc : (leafExec.ρ 34).pc 1 = .wt (.pdRet none) 0 none 0 := by decide
  rw [hpc] at h
  cases h
  exact ⟨64, by decide⟩

/-- The theorem applies and gives the return of the sleeping thread T1. -/
example : ∃ j, 34 ≤ j ∧ (leafExec.ρ j).pc 1 = .idle :=
  C09_fair_termination_leaf init leafExec leaf_hyps.1 leaf_hyps.2.1 leaf_hyps.2.2.1
    leaf_hyps.2.2.2.2.1 leaf_hyps.2.2.2.2.2 1 34 (by decide) leaf_waitEnds

/-- … and that of the notifier T0, in the middle of its wake loop (time 47). -/
example : ∃ j, 47 ≤ j ∧ (leafExec.ρ j).pc 0 = .idle :=
  C09_fair_termination_leaf init leafExec leaf_hyps.1 leaf_hyps.2.1 leaf_hyps.2.2.1
    leaf_hyps.2.2.2.2.1 leaf_hyps.2.2.2.2.2 0 47 (by decide)
    (fun n wdl h => by
      have hpc : (leafExec.ρ 47).pc 0 = .chd (.wake 0) [⟨0, none⟩] ⟨0, none, .ofApi⟩ := by decide
      rw [hpc] at h; cases h)

/-- The hypotheses of the FULL statement (`C09_fair_termination_full`) are satisfiable by an
    execution recorded from the library in which a notifier works on CHILDREN: in `releaseExec`
    (`release_hyps`) at time 82 T0 is asleep in `nsync_note_wait (note1)`, T1 inside
    `note_notify_child (note1, note0)` (a recursive activation) is about to clear
    `nw0.waiting`; at the end everybody has returned. -/
example : (releaseExec.ρ 82).pc 0 = .wt (.pdRet none) 1 none 0 ∧
    (releaseExec.ρ 82).pc 1 = .chd (.wake 0) [⟨1, none⟩, ⟨0, some 2⟩] ⟨0, none, .ofApi⟩ ∧
    ((releaseExec.ρ 82).pc 1).inChildLoop = true ∧
    WaitEnds releaseExec 0 82 ∧
    (∀ t, (releaseExec.ρ Traces.releaseTrace.length).pc t = .idle) := by
  refine ⟨by decide, by decide, by decide, ?_, fun t => rel_tail (Nat.le_refl _) t⟩
  intro n wdl h
  have hpc : (releaseExec.ρ 82).pc 0 = .wt (.pdRet none) 1 none 0 := by decide
  rw [hpc] at h
  cases h
  exact Or.inl ⟨Traces.releaseTrace.length, Or.inl (by decide)⟩

theorem release_waitEnds_full : WaitEnds releaseExec 0 82 := by
  intro n wdl h
  have hpc : (releaseExec.ρ 82).pc 0 = .wt (.pdRet none) 1 none 0 := by decide
  rw [hpc] at h
  cases h
  exact Or.inl ⟨Traces.releaseTrace.length, Or.inl (by decide)⟩

/-- The FULL theorem applies to `releaseExec`: the waiter T0, asleep on the child note1 while T1
    notifies the parent, returns. -/
example : ∃ j, 82 ≤ j ∧ (releaseExec.ρ j).pc 0 = .idle :=
  C09_fair_termination init releaseExec release_hyps.1 release_hyps.2.1 release_hyps.2.2.1
    release_hyps.2.2.2.1 release_hyps.2.2.2.2 0 82 (by decide) release_waitEnds_full

theorem release_waitEnds : WaitEndsFlag releaseExec 0 82 := by
  intro n wdl h
  have hpc : (releaseExec.ρ 82).pc 0 = .wt (.pdRet none) 1 none 0 := by decide
  rw [hpc] at h
  cases h
  exact ⟨Traces.releaseTrace.length, by decide⟩

/-- The general theorem applies to `releaseExec` and gives the return of the waiter T0, asleep on
    the CHILD note1 while T1 notifies the parent … -/
example : ∃ j, 82 ≤ j ∧ (releaseExec.ρ j).pc 0 = .idle :=
  C09_fair_termination_flag init releaseExec release_hyps.1 release_hyps.2.1 release_hyps.2.2.1
    release_hyps.2.2.2.1 release_hyps.2.2.2.2 0 82 (by decide) release_waitEnds

/-- … and that of the notifier T1, inside the recursive activation for the child. -/
example : ∃ j, 82 ≤ j ∧ (releaseExec.ρ j).pc 1 = .idle :=
  C09_fair_termination_flag init releaseExec release_hyps.1 release_hyps.2.1 release_hyps.2.2.1
    release_hyps.2.2.2.1 release_hyps.2.2.2.2 1 82 (by decide)
    (fun n wdl h => by
      have hpc : (releaseExec.ρ 82).pc 1 =
          .chd (.wake 0) [⟨1, none⟩, ⟨0, some 2⟩] ⟨0, none, .ofApi⟩ := by decide
      rw [hpc] at h; cases h)

/-- The hypotheses of `C09_fair_termination_deadline` hold (`timed_hyps`) for `timedExec`: root
    note0 is never notified; T1 calls `nsync_note_wait (note0, deadline 5)` at time 0 and at time 34
    is asleep with the deadline 5, its record queued and unposted; the clock goes to 7 (event 34);
    P returns ETIMEDOUT (35); the wait dequeues its record and returns 0 (50); then the clock
    ticks for ever. -/
example : (timedExec.ρ 34).pc 1 = .wt (.pdRet (some 5)) 0 (some 5) 0 ∧
    ((timedExec.ρ 34).recs 0).posted = 0 ∧ ((timedExec.ρ 34).notes 0).waiters = [0] ∧
    ((timedExec.ρ 34).notes 0).notified = false ∧ (timedExec.ρ 34).now = 0 ∧
    timedExec.σ 34 = some (.tick 7) ∧ timedExec.σ 35 = some (.pdRet 1 0 true) ∧
    timedExec.σ 50 = some (.ret 1 (.wait false)) ∧ timedEvs.length = 51 ∧
    ((timedExec.ρ 51).notes 0).notified = false ∧ ((timedExec.ρ 51).notes 0).waiters = [] ∧
    timedExec.σ 51 = some (.tick 8) ∧ (timedExec.ρ 60).now = 16 := by
  decide

/-- The theorem applies and gives the return of the sleeper, whose note is never notified. -/
example : ∃ j, 34 ≤ j ∧ (timedExec.ρ j).pc 1 = .idle :=
  C09_fair_termination_deadline timedExec timed_hyps.1 timed_hyps.2.1 timed_hyps.2.2.1
    timed_hyps.2.2.2.1 timed_hyps.2.2.2.2.1 timed_hyps.2.2.2.2.2.1 timed_hyps.2.2.2.2.2.2
    (t := 1) (i := 34) (n := 0) (w := 5) (by decide)

/-- `C09_fair_no_deadlock` applies to `releaseExec` (it is at a standstill from the end of the
    trace on) and says that nobody is left inside a call. -/
example : ∀ t, (releaseExec.ρ Traces.releaseTrace.length).pc t = .idle ∨
    (Asleep (releaseExec.ρ Traces.releaseTrace.length) t ∧
      ¬ LockBlocked (releaseExec.ρ Traces.releaseTrace.length) t ∧
      ¬ WaitBlocked (releaseExec.ρ Traces.releaseTrace.length) t ∧
      ∃ j, Traces.releaseTrace.length ≤ j ∧ ¬ SemReady (releaseExec.ρ j) t) :=
  C09_fair_no_deadlock init releaseExec release_hyps.1 release_hyps.2.1 _
    (fun j t hj ⟨e, he, _⟩ => by
      rw [show releaseExec.σ j = none from (traceExec_tail rel_run hj).2] at he; cases he)

end Note
