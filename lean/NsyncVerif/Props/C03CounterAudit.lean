/-
  Props/C03CounterAudit.lean — axioms used by the theorems of the counter edge of C03.
  Allowed: propext, Classical.choice, Quot.sound.
-/
import NsyncVerif.Props.C03Counter

open Counter

#print axioms C03_counter_machine
#print axioms C03_counter_ghosts
#print axioms C03_counter_casOf
#print axioms C03_counter_value_writes
#print axioms C03_counter_adds_chain
#print axioms C03_counter
#print axioms C03_counter_carrier
#print axioms C03_counter_no_other_edges
#print axioms C03_counter_value
#print axioms C03_counter_add
#print axioms vinv_of_preachable
