/-
  Property C12 — "The per-thread semaphore never loses a post."

  All theorems below are proved at full strength (nothing is `_partial`; Props/C12Audit.lean prints
  the dependencies of each: propext / Classical.choice / Quot.sound only).  They quantify over every `Reachable` state of the
  acceptor `Futex.step` (Model/Futex.lean), i.e. over ALL interleavings of one waiter thread
  (the owner; single-waiter is nsync's usage and an explicit API-contract rejection of the
  model) with ANY number of poster threads, at the granularity of one atomic operation / one
  futex call per step, with ANY number of injected futex faults (EINTR, EAGAIN, spurious 0,
  premature ETIMEDOUT) and clock ticks at any point.  The proofs are inductive invariants
  (Proofs/FutexInv.lean), not enumerations.

  One deviation from the task sketch, stated where it occurs: the bound of `C12_post_enables`
  is 5 own steps to the `ret` event (4 to the successful take), because from "loaded 0, about
  to call futex" the waiter needs  futex wait → wait_ret EAGAIN → load → CAS → ret.
  And a waiter that has already seen ETIMEDOUT with an expired deadline returns ETIMEDOUT and
  leaves the post for the next wait (`C12_post_kept_on_timeout`).
-/
import NsyncVerif.Proofs.FutexInv
import NsyncVerif.Proofs.FutexSolo
import NsyncVerif.Proofs.FutexRefine

namespace NsyncVerif.Futex

/-! ## Conservation: word = posts − takes -/

/-- The futex word is exactly (successful V CASes) − (successful P/PD CASes). -/
theorem C12_conservation (h : Reachable s) : s.word + s.takes = s.posts :=
  h.inv.cons

/-- A take never happens without a post. -/
theorem C12_takes_le_posts (h : Reachable s) : s.takes ≤ s.posts := by
  have := C12_conservation h; omega

/-- API vocabulary: #(P / P_with_deadline calls that returned 0) ≤ #(V calls that performed
    their CAS). -/
theorem C12_success_le_posts (h : Reachable s) : s.succRets ≤ s.posts := by
  have h1 := h.inv.cons; have h2 := h.inv.rets; omega

/-- The word is a non-negative `int` that fits 32 bits (overflow is a contract rejection). -/
theorem C12_word_fits (h : Reachable s) : s.word < 2 ^ 32 := h.inv.fits

/-- The count never goes negative: a decrementing CAS is only ever attempted with `i > 0`,
    so `i - 1` in the model is an exact subtraction … -/
theorem C12_take_positive (h : Reachable s) (hpc : s.pc t = .wCas k i) : 0 < i :=
  h.inv.casPos t k i hpc

/-- … and every step that increments `takes` decrements the word by exactly one, from a
    positive value. -/
theorem C12_take_exact (h : Reachable s) (hs : step s e = .ok s')
    (ht : s'.takes = s.takes + 1) : 0 < s.word ∧ s'.word + 1 = s.word ∧ s'.posts = s.posts := by
  have h1 := h.inv.cons
  have h2 := (h.step hs).inv.cons
  have hp : s'.posts = s.posts := by
    have := (label_counters h.inv hs)
    by_cases hl : labelOf s e = .post
    · have := this.2.1; by_cases hl2 : labelOf s e = .take <;> simp_all
    · simpa [hl] using this.1
  omega

/-! ## A successful return needs its own take -/

theorem inFlight_le_one (s : State) : inFlight s ≤ 1 := by
  unfold inFlight
  split
  · omega
  · split <;> omega

/-- succRets = takes − (takes in flight); at most one take is in flight. -/
theorem C12_success_needs_post (h : Reachable s) :
    s.succRets + inFlight s = s.takes ∧ inFlight s ≤ 1 :=
  ⟨h.inv.rets, inFlight_le_one s⟩

/-- Every `ret … 0` of P / P_with_deadline consumes exactly one in-flight take: it is preceded
    by its own successful CAS, and one take serves one return. -/
theorem C12_success_ret_consumes_take (h : Reachable s) (hs : step s e = .ok s')
    (hr : s'.succRets = s.succRets + 1) :
    (∃ t, e = .retP t ∨ e = .retPD t false) ∧ inFlight s = 1 ∧ inFlight s' = 0 ∧
    s'.takes = s.takes := by
  have h1 := h.inv.rets
  have h2 := (h.step hs).inv.rets
  have h3 := inFlight_le_one s
  have hev : (∃ t, e = .retP t ∨ e = .retPD t false) ∧ s'.takes = s.takes := by
    cases e <;> simp only [step] at hs <;> (repeat' split at hs) <;> (try simp at hs) <;>
      (try subst hs) <;> simp_all <;> omega
  refine ⟨hev.1, ?_, ?_, hev.2⟩ <;> omega

/-! ## No lost post -/

/-- If the waiter is asleep in the kernel (queued, no wake addressed to it yet) then the word
    is 0, or some poster is between its successful CAS and its futex wake.  Hence: a post that
    has not been consumed finds the waiter awake, or a wake for it is still coming. -/
theorem C12_no_lost_post (h : Reachable s) (ha : s.asleep) :
    s.word = 0 ∨ ∃ p, s.pc p = .vWake :=
  h.inv.noLost ha

/-- Only the owner sleeps, and it does so at its `futex wait` statement with the timeout of
    its call. -/
theorem C12_sleeper_is_owner (h : Reachable s) (hsl : s.sleeper = some si) :
    ∃ o k, s.owner = some o ∧ s.pc o = .wSleep k ∧ si.deadline = k.timeout :=
  h.inv.sleepPc si hsl

/-! ## A post enables the waiter -/

/-- If the count is positive and the waiter is inside P / P_with_deadline, not asleep in the
    kernel, and has not already committed to ETIMEDOUT, then running the waiter ALONE (no other
    thread, no tick, no fault) it returns 0 within 5 of its own steps, never sleeping
    (`runSolo` fails on any asleep state).  -/
theorem C12_post_enables (h : Reachable s) (hw : 0 < s.word)
    (hpc : (s.pc w).isWaiter = true) (hna : ¬ s.asleep) (htc : timeoutCommitted s w = false) :
    ∃ s', runSolo s w 5 = .ok s' ∧ SoloSuccess s w s' :=
  post_enables_aux h.inv hw hpc hna htc

/-- … and its successful take (CAS i → i-1) happens within 4 own steps. -/
theorem C12_post_enables_take4 (h : Reachable s) (hw : 0 < s.word)
    (hpc : (s.pc w).isWaiter = true) (hna : ¬ s.asleep) (htc : timeoutCommitted s w = false) :
    ∃ s', runSolo s w 4 = .ok s' ∧ TakeDone s w s' :=
  post_enables_take4 h.inv hw hpc hna htc

/-- "…or future wait": with a positive count, a fresh P by the owner returns without sleeping. -/
theorem C12_future_wait_returns (h : Reachable s) (hw : 0 < s.word) (hidle : s.pc w = .idle)
    (hown : s.owner = none ∨ s.owner = some w) :
    ∃ s1 s', step s (.callP w) = .ok s1 ∧ runSolo s1 w 5 = .ok s' ∧ SoloSuccess s1 w s' := by
  have hs1 : step s (.callP w) =
      .ok { s with owner := some w, pc := setPc s.pc w (.wLoad .p) } := by
    simp [step, hidle, hown]
  have hinv := h.inv
  have hr1 := h.step hs1
  have hna : ¬ State.asleep { s with owner := some w, pc := setPc s.pc w (.wLoad .p) } := by
    intro ha
    cases hsl : s.sleeper with
    | none => simp [State.asleep, asleepInfo, hsl] at ha
    | some si =>
      obtain ⟨o, k, ho, hpo, _⟩ := hinv.sleepPc si hsl
      have : s.owner ≠ some w := by
        intro hw'; rw [hw'] at ho; cases ho; simp [hidle] at hpo
      have hno : s.owner = none := by cases hown <;> simp_all
      simp [hno] at ho
  obtain ⟨s', hrun, hsucc⟩ := post_enables_aux hr1.inv (w := w) hw
    (by simp [setPc, PC.isWaiter]) hna (by simp [timeoutCommitted, setPc])
  exact ⟨_, s', hs1, hrun, hsucc⟩

/-- Same for a fresh P_with_deadline, whatever its deadline (even one already expired: the
    deadline is only consulted after a futex ETIMEDOUT). -/
theorem C12_future_timed_wait_returns (h : Reachable s) (hw : 0 < s.word)
    (hidle : s.pc w = .idle) (hown : s.owner = none ∨ s.owner = some w) (dl : Option Nat) :
    ∃ s1 s', step s (.callPD w dl) = .ok s1 ∧ runSolo s1 w 5 = .ok s' ∧ SoloSuccess s1 w s' := by
  have hs1 : step s (.callPD w dl) =
      .ok { s with owner := some w, pc := setPc s.pc w (.wLoad (.pd dl)) } := by
    simp [step, hidle, hown]
  have hinv := h.inv
  have hr1 := h.step hs1
  have hna : ¬ State.asleep { s with owner := some w, pc := setPc s.pc w (.wLoad (.pd dl)) } := by
    intro ha
    cases hsl : s.sleeper with
    | none => simp [State.asleep, asleepInfo, hsl] at ha
    | some si =>
      obtain ⟨o, k, ho, hpo, _⟩ := hinv.sleepPc si hsl
      have : s.owner ≠ some w := by
        intro hw'; rw [hw'] at ho; cases ho; simp [hidle] at hpo
      have hno : s.owner = none := by cases hown <;> simp_all
      simp [hno] at ho
  obtain ⟨s', hrun, hsucc⟩ := post_enables_aux hr1.inv (w := w) hw
    (by simp [setPc, PC.isWaiter]) hna (by simp [timeoutCommitted, setPc])
  exact ⟨_, s', hs1, hrun, hsucc⟩

/-- The excluded case of `C12_post_enables`: a waiter that has committed to ETIMEDOUT returns
    it within 2 own steps and leaves word, posts and takes alone — the post is kept for the
    next wait (see `C12_future_wait_returns`). -/
theorem C12_post_kept_on_timeout (h : Reachable s) (htc : timeoutCommitted s w = true) :
    ∃ s', runSolo s w 2 = .ok s' ∧ s'.pc w = .idle ∧ s'.word = s.word ∧ s'.posts = s.posts ∧
      s'.takes = s.takes ∧ s'.succRets = s.succRets ∧ s'.toRets = s.toRets + 1 := by
  have hinv := h.inv
  have hown : s.owner = some w := by
    apply Classical.byContradiction; intro hc
    have := hinv.nonOwner w hc
    unfold timeoutCommitted at htc
    split at htc <;> simp_all [PC.isWaiter]
  have hsn : s.sleeper = none := by
    cases hsl : s.sleeper with
    | none => rfl
    | some si =>
      obtain ⟨o, k, ho, hpo, _⟩ := hinv.sleepPc si hsl
      rw [hown] at ho; cases ho
      simp [timeoutCommitted, hpo] at htc
  unfold timeoutCommitted at htc
  split at htc
  · next dl hp =>
    simp [runSolo, soloEvent, step, hp, setPc, htc, State.asleep, asleepInfo, hsn]
  · next k hp =>
    obtain ⟨d, hd, _⟩ := hinv.toReal w k hp
    subst hd
    simp [runSolo, soloEvent, step, hp, setPc, State.asleep, asleepInfo, hsn]
  · simp at htc

/-! ## The wait re-checks: atomic compare-and-sleep -/

/-- A futex wait is only issued by a thread that has just loaded 0 (`pc = wWait`), with
    `val = 0` and the timeout of the call; the kernel puts it to sleep iff the word is still 0
    at that instant, otherwise it will return EAGAIN. -/
theorem C12_wait_rechecks (hs : step s (.fwait t val dl) = .ok s') :
    val = 0 ∧ (∃ k, s.pc t = .wWait k ∧ dl = k.timeout ∧ s'.pc t = .wSleep k) ∧
    (s.word = 0 → s'.sleeper = some ⟨dl, false⟩) ∧
    (s.word ≠ 0 → s'.sleeper = none ∧ waitRetAllowed s'.sleeper .eagain = true ∧
      ∀ r, waitRetAllowed s'.sleeper r = true → r = .eagain) ∧
    s'.word = s.word := by
  simp only [step] at hs
  split at hs <;> try simp at hs
  split at hs <;> try simp at hs
  split at hs <;> simp at hs <;> subst hs <;> simp_all [setPc, waitRetAllowed]
  intro r; cases r <;> simp

/-- `pc = wWait` (about to call futex wait) is only ever entered by a load that observed 0. -/
theorem C12_wait_only_after_zero_load (hs : step s e = .ok s')
    (h0 : ∀ k, s.pc t ≠ .wWait k) (h1 : s'.pc t = .wWait k) :
    (∃ site ord, e = .ld t site ord 0) ∧ s.word = 0 ∧ s.pc t = .wLoad k := by
  cases e
  case ld t1 site ord obs =>
    simp only [step] at hs
    split at hs <;> try simp at hs
    · next k1 hpc =>
      split at hs <;> simp at hs
      rename_i hc
      subst hs
      simp only [setPc] at h1
      by_cases htt : t = t1
      · subst htt
        by_cases hw : s.word = 0
        · simp [hw] at h1; subst h1
          exact ⟨⟨site, ord, by simp [hc.2.2, hw]⟩, hw, hpc⟩
        · simp [hw] at h1
      · simp [htt] at h1; exact absurd h1 (h0 k)
    · next hpc =>
      split at hs <;> simp at hs
      subst hs
      simp only [setPc] at h1
      by_cases htt : t = t1
      · simp [htt] at h1
      · simp [htt] at h1; exact absurd h1 (h0 k)
  all_goals
    simp only [step] at hs <;> (repeat' split at hs) <;> (try simp at hs) <;>
    (try subst hs) <;> simp only [setPc] at h1 <;> grind

/-- The waiter only ever falls asleep through a futex wait that found the word equal to 0. -/
theorem C12_sleep_only_if_zero (hs : step s e = .ok s') (h0 : ¬ s.asleep) (h1 : s'.asleep) :
    (∃ t dl, e = .fwait t 0 dl) ∧ s.word = 0 := by
  cases e <;> simp only [step] at hs <;> (repeat' split at hs) <;> (try simp at hs) <;>
    (try subst hs) <;> simp only [State.asleep, asleepInfo_markWoken] at * <;>
    simp_all [asleepInfo]

/-! ## ETIMEDOUT only at or after the deadline -/

/-- Whatever the kernel did (premature ETIMEDOUT included), when P_with_deadline returns
    ETIMEDOUT the deadline of that call has been reached on the clock. -/
theorem C12_timeout_real (h : Reachable s) (hs : step s (.retPD t true) = .ok s') :
    ∃ d, callDeadline s t = some (some d) ∧ d ≤ s.now := by
  simp only [step] at hs
  split at hs <;> try simp at hs
  next dl b hpc =>
    split at hs <;> simp at hs
    rename_i hb; subst hb
    obtain ⟨d, hd, hle⟩ := h.inv.toReal t _ hpc
    cases hd
    exact ⟨d, by simp [callDeadline, hpc], hle⟩

/-- `callDeadline` really is the argument of the call … -/
theorem C12_deadline_set (hs : step s (.callPD t dl) = .ok s') :
    callDeadline s' t = some dl := by
  simp only [step] at hs
  split at hs <;> try simp at hs
  split at hs <;> simp at hs
  subst hs; simp [callDeadline, setPc]

/-- … and does not change until the call returns. -/
theorem C12_deadline_stable (hs : step s e = .ok s') (hd : callDeadline s t = some d)
    (hni : s'.pc t ≠ .idle) : callDeadline s' t = some d := by
  unfold callDeadline at hd
  split at hd <;> simp at hd <;> subst hd <;>
  (cases e <;> simp only [step] at hs <;> (repeat' split at hs) <;> (try simp at hs) <;>
    (try subst hs) <;> simp only [callDeadline, setPc] at * <;> grind)

/-- No timeout is reported for `no_deadline`. -/
theorem C12_no_deadline_never_times_out (h : Reachable s) (hpc : s.pc t = .wRet k true) :
    ∃ d, k = .pd (some d) :=
  let ⟨d, hd, _⟩ := h.inv.toReal t k hpc; ⟨d, hd⟩

/-! ## Faults are harmless -/

/-- Any return of the futex wait — 0 (real or spurious), EINTR, EAGAIN, ETIMEDOUT (real or
    premature) — leaves word, posts, takes and the return counters unchanged, takes the waiter
    out of the kernel, and sends it back to its load (re-check); ETIMEDOUT sends it to the clock
    read first.  Never to a successful return. -/
theorem C12_faults_harmless (hs : step s (.fwaitRet t r) = .ok s') :
    s'.word = s.word ∧ s'.posts = s.posts ∧ s'.takes = s.takes ∧ s'.succRets = s.succRets ∧
    s'.toRets = s.toRets ∧ s'.now = s.now ∧ s'.sleeper = none ∧
    (∃ k, s.pc t = .wSleep k ∧ (r ≠ .etimedout → s'.pc t = .wLoad k) ∧
      (r = .etimedout → ∃ dl, k = .pd dl ∧ s'.pc t = .wNow dl)) ∧
    (∀ k b, s'.pc t ≠ .wRet k b) := by
  simp only [step] at hs
  split at hs
  · next k hpc =>
    split at hs
    · cases r <;> cases k <;> simp at hs <;> subst hs <;> simp_all [setPc]
    · simp at hs
  · simp at hs

/-- The clock read after a futex ETIMEDOUT: a premature timeout (deadline not reached) leads
    back to the load; only an expired deadline yields ETIMEDOUT.  Counters untouched. -/
theorem C12_premature_timeout_rechecks (hs : step s (.now t ns) = .ok s') :
    ∃ dl, s.pc t = .wNow dl ∧ ns = s.now ∧
      s'.word = s.word ∧ s'.posts = s.posts ∧ s'.takes = s.takes ∧ s'.succRets = s.succRets ∧
      s'.toRets = s.toRets ∧
      (expired dl s.now = false → s'.pc t = .wLoad (.pd dl)) ∧
      (expired dl s.now = true → s'.pc t = .wRet (.pd dl) true) := by
  simp only [step] at hs
  split at hs <;> try simp at hs
  split at hs <;> simp at hs
  subst hs; simp_all [setPc]

/-! ## Refinement of the abstract counting semaphore -/

theorem C12_refines_init : init.abs = AState.init := rfl

/-- Every concrete step is an abstract step of the counting semaphore (`post`: count+1,
    `take`: count-1 from a positive count, `timeout d`: count unchanged and d ≤ now, `tick`)
    or a stutter, under the abstraction `abs s = ⟨s.word, s.now⟩`. -/
theorem C12_refines (h : Reachable s) (hs : step s e = .ok s') :
    AStep s.abs (labelOf s e) s'.abs :=
  refines_step h.inv hs

/-- The labels are tied to the ghost counters: `post` ⇔ posts+1 (successful CAS of V),
    `take` ⇔ takes+1 (successful CAS of P/PD), `timeout` ⇔ an ETIMEDOUT return. -/
theorem C12_refines_labels (h : Reachable s) (hs : step s e = .ok s') :
    s'.posts = s.posts + (if labelOf s e = .post then 1 else 0) ∧
    s'.takes = s.takes + (if labelOf s e = .take then 1 else 0) ∧
    s'.toRets = s.toRets + (if (labelOf s e).isTimeout then 1 else 0) :=
  label_counters h.inv hs

/-- Trace form: every accepted log is a run of the abstract semaphore. -/
theorem C12_refines_run (hr : run init evs = .ok s) :
    ARun AState.init (labels init evs) s.abs :=
  refines_run Inv.init hr

/-! ## Non-vacuity: concrete accepted traces -/

/-- waiter 0 sleeps, gets EINTR, re-sleeps; poster 1 posts and wakes; waiter returns 0. -/
def trace_eintr : List Event :=
  [ .callP 0,
    .ld 0 .p .rlx 0,
    .fwait 0 0 none,
    .fwaitRet 0 .eintr,
    .ld 0 .p .rlx 0,
    .fwait 0 0 none,
    .callV 1,
    .ld 1 .v .rlx 0,
    .cas 1 .v .rel 0 1 0 true,
    .fwake 1 1 1,
    .retV 1,
    .fwaitRet 0 .ok,
    .ld 0 .p .rlx 1,
    .cas 0 .p .acq 1 0 1 true,
    .retP 0 ]

def summary (r : Except String State) : Option (Nat × Nat × Nat × Nat × Nat × Bool) :=
  match r with
  | .ok s => some (s.word, s.posts, s.takes, s.succRets, s.toRets, s.sleeper.isSome)
  | .error _ => none

example : summary (run init trace_eintr) = some (0, 1, 1, 1, 0, false) := by decide

/-- After the second `futex wait` of that trace the waiter is asleep (hypothesis of
    `C12_no_lost_post` is satisfiable), and after the poster's CAS the right disjunct holds. -/
example : (match run init (trace_eintr.take 6) with
    | .ok s => decide s.asleep && s.word == 0 | .error _ => false) = true := by decide
example : (match run init (trace_eintr.take 9) with
    | .ok s => decide s.asleep && s.word == 1 && s.pc 1 == .vWake | .error _ => false) = true := by
  decide

/-- timed wait with deadline 100: premature ETIMEDOUT at time 40 (re-check, sleep again),
    then a real timeout at 100. -/
def trace_timeout : List Event :=
  [ .tick 10,
    .callPD 0 (some 100),
    .ld 0 .pd .rlx 0,
    .fwait 0 0 (some 100),
    .tick 40,
    .fwaitRet 0 .etimedout,        -- premature
    .now 0 40,
    .ld 0 .pd .rlx 0,
    .fwait 0 0 (some 100),
    .tick 100,
    .fwaitRet 0 .etimedout,
    .now 0 100,
    .retPD 0 true ]

example : summary (run init trace_timeout) = some (0, 0, 0, 0, 1, false) := by decide

/-- Hypotheses of `C12_post_enables` are satisfiable: poster posts between the waiter's load
    of 0 and its futex wait; the wait returns EAGAIN and the waiter takes the post. -/
def trace_eagain : List Event :=
  [ .callPD 0 none,
    .ld 0 .pd .rlx 0,
    .callV 7,
    .ld 7 .v .rlx 0,
    .cas 7 .v .rel 0 1 0 true ]

example : (match run init trace_eagain with
    | .ok s => decide (0 < s.word) && (s.pc 0).isWaiter && !decide s.asleep
                 && !timeoutCommitted s 0 | .error _ => false) = true := by decide
example : (match run init trace_eagain with
    | .ok s => summary (runSolo s 0 5) | .error _ => none) = some (0, 1, 1, 1, 0, false) := by
  decide

/-! ## The acceptor rejects what the C code cannot do -/

/-- P returning without a take. -/
example : (step (match run init [.callP 0, .ld 0 .p .rlx 0] with | .ok s => s | .error _ => init)
    (.retP 0)).toOption.isNone = true := by decide
/-- ETIMEDOUT returned before the deadline. -/
example : (run init [.tick 10, .callPD 0 (some 100), .ld 0 .pd .rlx 0, .fwait 0 0 (some 100),
    .fwaitRet 0 .etimedout, .now 0 10, .retPD 0 true]).toOption.isNone = true := by decide
/-- futex wake before the CAS of V. -/
example : (run init [.callV 1, .ld 1 .v .rlx 0, .fwake 1 1 0]).toOption.isNone = true := by decide
/-- A second waiter. -/
example : (run init [.callP 0, .callP 1]).toOption.isNone = true := by decide
/-- futex wait with a stale value / after a non-zero load. -/
example : (run init [.callV 1, .ld 1 .v .rlx 0, .cas 1 .v .rel 0 1 0 true, .callP 0,
    .ld 0 .p .rlx 1, .fwait 0 1 none]).toOption.isNone = true := by decide
/-- EINTR cannot be reported to a thread that never slept (word changed → EAGAIN only). -/
example : (run init (trace_eagain ++ [.fwait 0 0 none, .fwaitRet 0 .eintr])).toOption.isNone
    = true := by decide

end NsyncVerif.Futex
