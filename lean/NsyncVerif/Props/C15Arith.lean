/-
Arithmetic half of property C15 (deadline classification): how the library's test
`nsync_time_cmp (deadline, nsync_time_zero) <= 0` / comparison with `nsync_time_no_deadline`
classifies normalized deadlines.  All proved in full.
-/
import NsyncVerif.Model.Time
import NsyncVerif.Proofs.Time

namespace NsyncVerif
namespace Time

/-- `cmp d zero <= 0` holds exactly for the non-positive durations. -/
theorem C15_cmp_zero_classifies {d : Time} (hd : Norm d) : cmp d zero ≤ 0 ↔ toNs d ≤ 0 := by
  have h := cmp_spec d zero
  have z1 : zero.sec = 0 := rfl
  have z2 : zero.nsec = 0 := rfl
  unfold Norm at hd; unfold toNs
  constructor <;> intro h' <;> omega

/-- Any normalized deadline before the epoch compares as strictly expired. -/
theorem C15_neg_sec_is_past {d : Time} (_hd : Norm d) (hneg : d.sec < 0) : cmp d zero < 0 := by
  have h := cmp_spec d zero
  have z1 : zero.sec = 0 := rfl
  omega

/-- `nsync_time_no_deadline` is the maximum of all normalized representable times. -/
theorem C15_noDeadline_max {d : Time} (hd : Norm d) (hr : InRange64 d.sec) :
    cmp d noDeadline ≤ 0 := by
  have h := cmp_spec d noDeadline
  have n1 : noDeadline.sec = 9223372036854775807 := by decide
  have n2 : noDeadline.nsec = 999999999 := by decide
  unfold Norm at hd; unfold InRange64 at hr
  omega

/-- Equality with `no_deadline` (how the library recognises "wait forever") is exact. -/
theorem C15_noDeadline_eq_iff (d : Time) : cmp d noDeadline = 0 ↔ d = noDeadline := by
  have h := cmp_spec d noDeadline
  constructor
  · intro h'; exact time_ext (by omega) (by omega)
  · intro h'; subst h'; decide

-- non-vacuity
example : cmp ⟨-1, 999999999⟩ zero < 0 := C15_neg_sec_is_past (by decide) (by decide)
example : cmp ⟨0, 0⟩ zero ≤ 0 ∧ ¬ cmp ⟨0, 1⟩ zero ≤ 0 := by decide
example : cmp ⟨9223372036854775807, 999999998⟩ noDeadline = -1 := by decide

end Time
end NsyncVerif
