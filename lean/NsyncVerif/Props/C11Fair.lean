/-
  Props/C11Fair.lean — property C11, LIVENESS form: "nsync_wait_n does not keep sleeping after one of the
  objects becomes ready" / "every nsync_wait_n call with a deadline returns" / "every nsync_cv_signal and
  nsync_cv_broadcast call returns", for ALL fair schedules of the WaitN model (Model/WaitN.lean: wait.c
  statement by statement, the three waitable implementations, cv signallers with program counters,
  protocol-driven note / counter wakers, semaphores, clock).

  DEFINITIONS (Proofs/WaitNFairDefs.lean)
  * `Exec s0`      infinite execution (`σ i = none`: nobody moves at time `i`; ticks at any time).
  * `Moves x t j`  thread `t` executes the next operation of its own code at time `j`: its program point changes,
                   or (wake_waiters, protocol-driven wakers) it pops a record / posts the owed semaphore.
  * `Blocked s t`  asleep in the P of wait.c:78 on a semaphore with count 0 before `min_ntime`; or at the
                   acquisition of an object's mutex (`ret nsync_mu_lock`) / at the load of the test-and-set loop of a
                   cv's spinlock while the lock is held; or in the wait loop of cv_dequeue while `waiting` is set.
  * `Ready s t`    inside nsync_wait_n / nsync_cv_signal / broadcast, or owing a post (`post t = some r`: the
                   protocol-driven wakers must complete what they started), and not blocked.
  * `WeakFair x`   a thread that is continuously `Ready` from some time on moves.  NOTE (as in C10Fair): a thread at
                   a program point with no accepted own operation (the `malloc NULL` crash of wait.c) never moves, so
                   such executions are not weakly fair.
  * `LockFair x`   ASSUMPTION (strong fairness of acquisition, liveness half of "they are locks"): a thread cannot be
                   acquiring note_mu / counter_mu / a cv's spinlock for ever while that lock is free again and again.
                   That every lock IS free again and again is proved (`C11_fair_lock_free_again`).
  * `ForeignRelease x`  ASSUMPTION about code that is not programmed by this layer: a holder of an object's lock that
                   is not at a program point of wait.c / cv.c that accounts for it (`accounts`) releases it: foreign
                   API code (pc = idle), the protocol-driven wake loop of the lazy note expiry (`nfWake`), and a caller
                   that took a note's mutex before calling nsync_wait_n (the acceptor cannot exclude it).  For the
                   program points of wait.c / cv.c the release is PROVED (`C11_fair_holder_releases`).
  * `ClockAdvances x`  the clock passes every finite `min_ntime` a sleeper is waiting for.
  * `FiniteStrayPosts x`  from some time on a semaphore bound to an in-flight call is only posted by a waker that owes
                   the post for a live record of that call.  `FiniteWakeups x t`: from some time on the P of `t` does
                   not return 0.
                   (The acceptor accepts `sem v` on any semaphore from any thread — traffic of other layers —, and a
                   sleeper whose deadline has passed and that is woken again and again by stray posts rescans and
                   sleeps again for ever: `C11_fair_needs_finite_wakeups`.)

  MACHINE-CHECKED HERE (no sorry, no axiom; `#print axioms`: propext, Classical.choice, Quot.sound)
  * `C11_fair_termination_partial`  both cases of the full statement, with `FiniteWakeups x t` in place of
        `FiniteStrayPosts x`: in every execution from a reachable state with `WeakFair`, `LockFair`, `ForeignRelease`,
        `ClockAdvances` and `FiniteWakeups x t`, an nsync_wait_n call of thread `t` returns PROVIDED
        (a) its abs_deadline is finite, or
        (b) at some time while it is at the P of wait.c:78 one of its objects is ready for it in the sense of
            `becameReady` (note notified / expired, counter at zero, cv record unlinked by a signaller) — `ReadyAtP`.
        Covers every path of wait.c: poll loop, malloc, enqueue loop with the object mutexes / cv spinlocks, the sleep
        loop, the dequeue loop including cv_dequeue's wait loop on `waiting` (`wspin_owned`: a signaller owns the
        record; it is never blocked, so it makes its store), free, relock, return.
        (a): the P times out once the clock has passed `min_ntime ≤ abs_deadline`.
        (b): `becameReady` is stable while the caller is in its sleep loop (`ready_step`); by `C11_no_oversleep` a token
        is available (it stays until the caller's own `pd_ret`: `token_stays`), or a waker owes the post (it is Ready,
        posts, and the post binds to the caller's semaphore: `inflight_posts`), or a signaller has unlinked the record
        (it clears `waiting`: `pend_clears`, then `C11_cleared_accounted`), or the record is queued on the ready object
        whose mutex is held — not for ever, the mutex is free again and again —, or `min_ntime` has passed.
        Why "at the P": for a condition variable `becameReady` (= the record is not on pcv->waiters) holds trivially
        between the record's initialisation and its enqueue, so, as in `C11_no_oversleep`, readiness is taken while the
        caller is about to enter / inside the P.  Readiness BEFORE the sleep needs no proviso:
  * `C11_fair_returns_or_sleeps`  (no deadline / readiness proviso, no clock) a call returns, or from some time on it
        sleeps in the P for ever — so a call that finds an object ready in its first poll or during the enqueue loop
        returns.
  * `C11_fair_termination_timed`  = case (a) alone.
  * `C11_fair_index_partial`  (corollary `C11_fair_index_full` with `FiniteWakeups`): in case (b) without abs_deadline the
        call returns by `ret nsync_wait_n r` with `r < count` and object `r` ready (`C11_index_ready`), not `count`
        (`C11_timeout`).
  * `C11_fair_timed_result`  in case (a) it returns by `ret nsync_wait_n r` with `r < count → readyFor` and
        `r = count →` a real timeout.
  * `C11_fair_signal_returns`  every nsync_cv_signal / nsync_cv_broadcast call returns (no clock, no wake-up bound).
  * `C11_fair_lock_free_again`, `C11_fair_holder_releases`.
  * NECESSITY, each by an explicit execution satisfying all other hypotheses in which a call with deadline 500 never
    returns: `C11_fair_needs_weak_fair`, `C11_fair_needs_lock_fair` (a foreign thread locks and unlocks note_mu for
    ever; the lock is free again and again), `C11_fair_needs_foreign_release`, `C11_fair_needs_clock`,
    `C11_fair_needs_finite_wakeups` (also `¬ FiniteStrayPosts`); and the readiness-or-deadline proviso:
    `C11_fair_needs_ready_or_deadline` (all hypotheses hold, no deadline, the note is never notified: the caller
    sleeps for ever).
  * NON-VACUITY: `timeoutExec` (`Example.heapTimeout`, then the `ret`, then idling) and `wokenExec`
    (`Example.noteCtr` …) satisfy all hypotheses; the caller really sleeps (Blocked) before it times out / is woken;
    the theorems apply (examples at the end).  `cvWokenExec` for the signaller.

  (UPDATE: the gap described in this paragraph is CLOSED in Props/C11FairFull.lean — `C11_fair_finite_wakeups`,
  `C11_fair_termination : C11_fair_termination_full`, `C11_fair_index : C11_fair_index_full`; what follows is the
  state of THIS file.)
  NOT PROVED IN THIS FILE — the `_full` statements are kept as definitions, nothing is weakened silently
  The ONLY difference between `C11_fair_termination_full` / `C11_fair_index_full` and the `_partial` theorems is the
  hypothesis `FiniteStrayPosts x` (about who posts) in place of `FiniteWakeups x t` (about the caller's own P).  Missing
  is `FiniteStrayPosts x → FiniteWakeups x t` for a call that never returns: once the stray posts have stopped, every
  token that reaches the call's semaphore is the post of a waker that owed it for one of the call's records; a record is
  popped only while its `waiting` is set, and `waiting` is never set again after the enqueue loop; so there are only
  finitely many such posts — those already owed when the call started to sleep (including the late V's of wakers of
  earlier calls that used the same stack records, `Example.lateV`; finitely many because only finitely many threads
  have acted) plus at most one per record —, and each wake-up consumes one token.  This needs a counting argument over
  threads (finite support of `post`) with the potential `sem j + #{records still waiting} + #{owed posts}`; the
  invariants of Proofs/WaitNSem*.lean say where tokens are, not how many.  NOT done.
  Remark on the statement: `FiniteStrayPosts` asks for a waker that owes the post for a LIVE record of the call that owns
  the semaphore; "some thread with `post ≠ none`" would not do in this model, because the acceptor accepts the late V
  of a waker whose record has died on any semaphore, also one that has been handed to another call since.
-/
import NsyncVerif.Proofs.WaitNFairMain3
import NsyncVerif.Proofs.WaitNFairTrace3

namespace WaitN

/-! ### statements at full strength -/

/-- FULL statement (proved with `FiniteWakeups x t` in place of `FiniteStrayPosts x`: `C11_fair_termination_partial`).
    `ReadyAtP x t i`: at some time `i' ≥ i`, the call of time `i` still running and at its P, object `k` is ready for its
    record `r = nw[k]` (`becameReady`). -/
def C11_fair_termination_full : Prop :=
  ∀ (s0 : State) (x : Exec s0), Reachable s0 → WeakFair x → LockFair x → ForeignRelease x → ClockAdvances x →
    FiniteStrayPosts x →
    ∀ t i, inCall ((x.ρ i).pc t) = true →
      ((∃ d : Int, ((x.ρ i).fr t).dl = some d) ∨ ReadyAtP x t i) →
      ∃ j, i ≤ j ∧ (x.ρ j).pc t = .idle

/-- FULL statement of the corollary (proved with `FiniteWakeups x t`: `C11_fair_index_partial`): without deadline the
    call returns an index, not `count`. -/
def C11_fair_index_full : Prop :=
  ∀ (s0 : State) (x : Exec s0), Reachable s0 → WeakFair x → LockFair x → ForeignRelease x → ClockAdvances x →
    FiniteStrayPosts x →
    ∀ t i, inCall ((x.ρ i).pc t) = true → ((x.ρ i).fr t).dl = none → ReadyAtP x t i →
      ∃ j r nested, i ≤ j ∧ x.σ j = some (.thr t (.retWaitN r nested)) ∧ (x.ρ (j + 1)).pc t = .idle
        ∧ r < ((x.ρ j).fr t).count ∧ readyFor (x.ρ j) t r

/-- `ReadyAtP` spelled out. -/
example {s0 : State} (x : Exec s0) (t : Tid) (i : Nat) : ReadyAtP x t i ↔
    ∃ i' k r, i ≤ i' ∧ (∀ j, i ≤ j → j ≤ i' → (x.ρ j).pc t ≠ .idle) ∧ atP (x.ρ i') t
      ∧ ((x.ρ i').fr t).recs[k]? = some r ∧ becameReady (x.ρ i') t k r := Iff.rfl

/-! ### proved -/

/-- Every lock (note_mu, counter_mu, cv spinlock) is free again and again: the premise of `LockFair` is always met. -/
theorem C11_fair_lock_free_again {s0 : State} (x : Exec s0) (hr : Reachable s0) (hw : WeakFair x)
    (hf : ForeignRelease x) (o : ObjId) (j : Nat) : ∃ j', j ≤ j' ∧ ((x.ρ j').obj o).lock = none :=
  lock_free_again x hr hw hf o j

/-- Every holder of an object's lock releases it (for the program points of wait.c / cv.c this is proved, for
    the others it is `ForeignRelease`). -/
theorem C11_fair_holder_releases {s0 : State} (x : Exec s0) (hr : Reachable s0) (hw : WeakFair x)
    (hf : ForeignRelease x) (o : ObjId) (u : Tid) (j : Nat) (h : ((x.ρ j).obj o).lock = some u) :
    ∃ j', j ≤ j' ∧ ((x.ρ j').obj o).lock ≠ some u :=
  holder_releases x hr hw hf o u j h

/-- FAIR TERMINATION (`C11_fair_termination_full` with `FiniteWakeups x t` in place of `FiniteStrayPosts x`): every
    nsync_wait_n call returns provided its abs_deadline is finite or one of its objects becomes ready for it. -/
theorem C11_fair_termination_partial {s0 : State} (x : Exec s0) (hr : Reachable s0) (hw : WeakFair x) (hl : LockFair x)
    (hf : ForeignRelease x) (hc : ClockAdvances x) (t : Tid) (hfw : FiniteWakeups x t) (i : Nat)
    (hin : inCall ((x.ρ i).pc t) = true)
    (hprov : (∃ d : Int, ((x.ρ i).fr t).dl = some d) ∨ ReadyAtP x t i) :
    ∃ j, i ≤ j ∧ (x.ρ j).pc t = .idle :=
  wait_returns x ⟨hr, hw, hl, hf⟩ hc t hfw i hin hprov

/-- "It does not keep sleeping after one of the objects becomes ready", with the result: without abs_deadline the call
    returns the index of a ready object (`C11_fair_index_full` with `FiniteWakeups x t`). -/
theorem C11_fair_index_partial {s0 : State} (x : Exec s0) (hr : Reachable s0) (hw : WeakFair x) (hl : LockFair x)
    (hf : ForeignRelease x) (hc : ClockAdvances x) (t : Tid) (hfw : FiniteWakeups x t) (i : Nat)
    (hin : inCall ((x.ρ i).pc t) = true) (hdl : ((x.ρ i).fr t).dl = none) (hrdy : ReadyAtP x t i) :
    ∃ j r nested, i ≤ j ∧ x.σ j = some (.thr t (.retWaitN r nested)) ∧ (x.ρ (j + 1)).pc t = .idle
      ∧ r < ((x.ρ j).fr t).count ∧ readyFor (x.ρ j) t r :=
  wait_index_ready x ⟨hr, hw, hl, hf⟩ hc t hfw i hin hdl hrdy

/-- Without any proviso: the only way for an nsync_wait_n call not to return is to sleep in the P of wait.c:78 for
    ever (from time `j` on it does not execute any operation of its own code, and it is `Blocked` again and again).  In
    particular a call that finds an object ready in its first poll, or during the enqueue loop, returns. -/
theorem C11_fair_returns_or_sleeps {s0 : State} (x : Exec s0) (hr : Reachable s0) (hw : WeakFair x) (hl : LockFair x)
    (hf : ForeignRelease x) (t : Tid) (hfw : FiniteWakeups x t) (i : Nat) (hin : inCall ((x.ρ i).pc t) = true) :
    (∃ j, i ≤ j ∧ (x.ρ j).pc t = .idle)
    ∨ (∃ j k, i ≤ j ∧ Still x t j ∧ (x.ρ j).pc t = .wPdWait k ∧ ∀ j1, j ≤ j1 → ∃ j', j1 ≤ j' ∧ Blocked (x.ρ j') t) :=
  wait_returns_or_sleeps x ⟨hr, hw, hl, hf⟩ t hfw i hin

/-- FAIR TERMINATION, timed case: every nsync_wait_n call with a finite abs_deadline returns. -/
theorem C11_fair_termination_timed {s0 : State} (x : Exec s0) (hr : Reachable s0) (hw : WeakFair x) (hl : LockFair x)
    (hf : ForeignRelease x) (hc : ClockAdvances x) (t : Tid) (hfw : FiniteWakeups x t) (i : Nat)
    (hin : inCall ((x.ρ i).pc t) = true) (d : Int) (hd : ((x.ρ i).fr t).dl = some d) :
    ∃ j, i ≤ j ∧ (x.ρ j).pc t = .idle :=
  wait_returns_timed x ⟨hr, hw, hl, hf⟩ hc t hfw i hin d hd

/-- … by a `ret nsync_wait_n r` event, and `r` is the index of a ready object (`C11_index_ready`) or `count` after a
    real timeout (`C11_timeout`). -/
theorem C11_fair_timed_result {s0 : State} (x : Exec s0) (hr : Reachable s0) (hw : WeakFair x) (hl : LockFair x)
    (hf : ForeignRelease x) (hc : ClockAdvances x) (t : Tid) (hfw : FiniteWakeups x t) (i : Nat)
    (hin : inCall ((x.ρ i).pc t) = true) (d : Int) (hd : ((x.ρ i).fr t).dl = some d) :
    ∃ j r nested, i ≤ j ∧ x.σ j = some (.thr t (.retWaitN r nested)) ∧ (x.ρ (j + 1)).pc t = .idle
      ∧ (r < ((x.ρ j).fr t).count → readyFor (x.ρ j) t r)
      ∧ (r = ((x.ρ j).fr t).count →
          (dlePast ((x.ρ j).fr t).dl = true ∧ ((x.ρ j).fr t).recs = [] ∧ ((x.ρ j).fr t).deqRes = [])
          ∨ (expiredB ((x.ρ j).fr t).dl (x.ρ j).now = true ∧ ((x.ρ j).fr t).deqRes.length = ((x.ρ j).fr t).recs.length
              ∧ ((x.ρ j).fr t).recs ≠ [] ∧ ∀ b ∈ ((x.ρ j).fr t).deqRes, b = true)) := by
  obtain ⟨j, hj, hidle⟩ := C11_fair_termination_timed x hr hw hl hf hc t hfw i hin d hd
  obtain ⟨k, r, nested, hk, _, _, hev, hk1⟩ := returns_by_ret x hr t i j hj hin hidle
  have hstep := x.next_some hev
  exact ⟨k, r, nested, hk, hev, hk1, fun hlt => C11_index_ready (x.reach hr k) hstep hlt,
    fun heq => C11_timeout (x.reach hr k) hstep heq⟩

/-- Every nsync_cv_signal / nsync_cv_broadcast call returns. -/
theorem C11_fair_signal_returns {s0 : State} (x : Exec s0) (hr : Reachable s0) (hw : WeakFair x) (hl : LockFair x)
    (hf : ForeignRelease x) (u : Tid) (c : Nat) (bc : Bool) (st : SgSt) (i : Nat)
    (hp : (x.ρ i).pc u = .sg c bc st) : ∃ j, i ≤ j ∧ (x.ρ j).pc u = .idle :=
  signal_returns x ⟨hr, hw, hl, hf⟩ u c bc st i hp

/-! ### each hypothesis is needed (explicit executions: Proofs/WaitNFairTrace2.lean, WaitNFairTrace3.lean) -/

/-- `WeakFair` cannot be dropped: after `call nsync_wait_n` (deadline 500) nothing happens for ever. -/
theorem C11_fair_needs_weak_fair :
    ∃ x : Exec init, Reachable init ∧ ¬ WeakFair x ∧ LockFair x ∧ ForeignRelease x ∧ ClockAdvances x ∧
      (∀ t, FiniteWakeups x t) ∧ FiniteStrayPosts x ∧
      ((x.ρ 1).fr 0).dl = some 500 ∧ (∀ j, 1 ≤ j → (x.ρ j).pc 0 ≠ .idle) :=
  ⟨stallExec, stall_needs_weakFair⟩

/-- `LockFair` cannot be replaced by weak fairness of the acquisition: a foreign thread locks and unlocks note_mu for
    ever, the lock is free again and again, the caller (deadline 500) waits for it for ever. -/
theorem C11_fair_needs_lock_fair :
    ∃ x : Exec init, Reachable init ∧ WeakFair x ∧ ¬ LockFair x ∧ ForeignRelease x ∧ ClockAdvances x ∧
      (∀ t, FiniteWakeups x t) ∧ FiniteStrayPosts x ∧
      (∀ j, ∃ j', j ≤ j' ∧ ((x.ρ j').obj (.note 0)).lock = none) ∧
      ((x.ρ 2).fr 0).dl = some 500 ∧ (∀ j, 4 ≤ j → (x.ρ j).pc 0 = .wND .poll 0 .lockWait) :=
  ⟨bargeExec, barge_needs_lockFair⟩

/-- `ForeignRelease` cannot be dropped: a foreign thread keeps note_mu for ever. -/
theorem C11_fair_needs_foreign_release :
    ∃ x : Exec init, Reachable init ∧ WeakFair x ∧ LockFair x ∧ ¬ ForeignRelease x ∧ ClockAdvances x ∧
      (∀ t, FiniteWakeups x t) ∧ FiniteStrayPosts x ∧
      ((x.ρ 4).fr 0).dl = some 500 ∧
      (∀ j, 6 ≤ j → (x.ρ j).pc 0 = .wND .poll 0 .lockWait ∧ ((x.ρ j).obj (.note 0)).lock = some 1) :=
  ⟨holdExec, hold_needs_foreignRelease⟩

/-- `ClockAdvances` cannot be dropped: the caller sleeps with deadline 500 and the clock stays at 0. -/
theorem C11_fair_needs_clock :
    ∃ x : Exec init, Reachable init ∧ WeakFair x ∧ LockFair x ∧ ForeignRelease x ∧ ¬ ClockAdvances x ∧
      (∀ t, FiniteWakeups x t) ∧ FiniteStrayPosts x ∧
      ((x.ρ 1).fr 0).dl = some 500 ∧ (∀ j, (x.ρ j).now = 0) ∧
      (∀ j, 8 ≤ j → (x.ρ j).pc 0 = .wPdWait 0 ∧ ((x.ρ j).fr 0).min = some 500) ∧
      (∀ j, 1 ≤ j → (x.ρ j).pc 0 ≠ .idle) :=
  ⟨noClockExec, noClock_needs_clock⟩

/-- `FiniteWakeups` (resp. `FiniteStrayPosts`) cannot be dropped: the deadline 500 has passed, a stray post wakes the
    sleeper again and again, it rescans, finds nothing ready and sleeps again. -/
theorem C11_fair_needs_finite_wakeups :
    ∃ x : Exec init, Reachable init ∧ WeakFair x ∧ LockFair x ∧ ForeignRelease x ∧ ClockAdvances x ∧
      ¬ FiniteWakeups x 0 ∧ ¬ FiniteStrayPosts x ∧
      ((x.ρ 1).fr 0).dl = some 500 ∧ (∀ j, 9 ≤ j → (x.ρ j).now = 500) ∧ (∀ j, 1 ≤ j → (x.ρ j).pc 0 ≠ .idle) :=
  ⟨strayExec, stray_needs_finite⟩

/-- The readiness-or-deadline proviso cannot be dropped: ALL hypotheses hold, the call has no deadline, its only object
    (a note without deadline) is never notified — and the caller sleeps for ever. -/
theorem C11_fair_needs_ready_or_deadline :
    ∃ x : Exec init, Reachable init ∧ WeakFair x ∧ LockFair x ∧ ForeignRelease x ∧ ClockAdvances x ∧
      (∀ t, FiniteWakeups x t) ∧ FiniteStrayPosts x ∧
      ((x.ρ 2).fr 0).dl = none ∧ ((x.ρ 2).fr 0).objs = [.note 0] ∧
      (∀ j, ((x.ρ j).obj (.note 0)).flag = false ∧ ((x.ρ j).obj (.note 0)).expiry = none) ∧
      (∀ j, 30 ≤ j → (x.ρ j).pc 0 = .wPdWait 3 ∧ (x.ρ j).sem 3 = 0 ∧ ((x.ρ j).fr 0).min = none ∧ Blocked (x.ρ j) 0) :=
  ⟨foreverExec, forever_sleeps⟩

/-! ### non-vacuity -/

/-- `Example.heapTimeout` (five condition variables, heap array, mutex, deadline 500), its `ret`, then idling: all
    hypotheses hold; at time 34 the caller is asleep (Blocked: count 0, clock 0 < 500); event 34 is the tick to 500,
    event 35 the `pd_ret ETIMEDOUT`, event 63 the `ret nsync_wait_n 5`. -/
example : Reachable init ∧ WeakFair timeoutExec ∧ LockFair timeoutExec ∧ ForeignRelease timeoutExec ∧
    ClockAdvances timeoutExec ∧ (∀ t, FiniteWakeups timeoutExec t) ∧ FiniteStrayPosts timeoutExec := timeout_hyps

example : (timeoutExec.ρ 34).pc 0 = .wPdWait 1 ∧ (timeoutExec.ρ 34).sem 1 = 0 ∧ ((timeoutExec.ρ 34).fr 0).min = some 500 ∧
    (timeoutExec.ρ 34).now = 0 ∧ Blocked (timeoutExec.ρ 34) 0 :=
  ⟨timeout_sleeps.2.1, timeout_sleeps.2.2.1, timeout_sleeps.2.2.2.1, timeout_sleeps.2.2.2.2.1, timeout_sleeps.2.2.2.2.2.1⟩

/-- the theorem applies to the sleeping caller … -/
example : ∃ j, 34 ≤ j ∧ (timeoutExec.ρ j).pc 0 = .idle :=
  C11_fair_termination_timed timeoutExec timeout_hyps.1 timeout_hyps.2.1 timeout_hyps.2.2.1 timeout_hyps.2.2.2.1
    timeout_hyps.2.2.2.2.1 0 (timeout_hyps.2.2.2.2.2.1 0) 34 timeout_call.2.2.1 500 timeout_call.2.2.2

/-- … and in the concrete execution the return is event 63, with result 5 = count. -/
example : timeoutExec.σ 63 = some (.thr 0 (.retWaitN 5 false)) ∧ ((timeoutExec.ρ 63).fr 0).objs.length = 5 ∧
    ∀ j, 64 ≤ j → (timeoutExec.ρ j).pc 0 = .idle :=
  ⟨timeout_sleeps.2.2.2.2.2.2.2.2.2.1, timeout_sleeps.2.2.2.2.2.2.2.2.2.2.2.1, timeout_sleeps.2.2.2.2.2.2.2.2.2.2.2.2⟩

/-- `Example.noteCtr` (note 0 and counter 0, no deadline; the counter reaches zero during the sleep), its `ret`, then
    idling: all hypotheses hold; the caller is asleep (Blocked) at time 44 … 49, the counter reaches 0 at time 49
    (`becameReady`, the hypothesis of case (b) of `C11_fair_termination_full`), the post is event 50, the `pd_ret`
    event 54, the `ret nsync_wait_n 1` event 91. -/
example : (Reachable init ∧ WeakFair wokenExec ∧ LockFair wokenExec ∧ ForeignRelease wokenExec ∧
    ClockAdvances wokenExec ∧ (∀ t, FiniteWakeups wokenExec t) ∧ FiniteStrayPosts wokenExec)
    ∧ Blocked (wokenExec.ρ 44) 0 ∧ ((wokenExec.ρ 44).fr 0).dl = none
    ∧ ((wokenExec.ρ 49).fr 0).recs[1]? = some (.stk 1) ∧ becameReady (wokenExec.ρ 49) 0 1 (.stk 1)
    ∧ wokenExec.σ 91 = some (.thr 0 (.retWaitN 1 false)) :=
  ⟨woken_hyps, woken_sleeps.2.2.2.1, woken_call.2.1, woken_call.2.2.1, woken_call.2.2.2,
   woken_sleeps.2.2.2.2.2.2.2.2.2.2.2.2.1⟩

/-- case (b) applies to the sleeping caller at time 49 (the counter has just reached zero, the caller is still
    asleep, no token yet) and gives its return … -/
example : ∃ j, 49 ≤ j ∧ (wokenExec.ρ j).pc 0 = .idle :=
  C11_fair_termination_partial wokenExec woken_hyps.1 woken_hyps.2.1 woken_hyps.2.2.1 woken_hyps.2.2.2.1
    woken_hyps.2.2.2.2.1 0 (woken_hyps.2.2.2.2.2.1 0) 49 (by rw [woken_sleeps.2.2.2.2.2.2.1]; rfl)
    (.inr ⟨49, 1, .stk 1, Nat.le_refl _,
      fun j h1 h2 => by
        have : j = 49 := Nat.le_antisymm h2 h1
        subst this; rw [woken_sleeps.2.2.2.2.2.2.1]; simp,
      .inr ⟨3, woken_sleeps.2.2.2.2.2.2.1⟩, woken_call.2.2.1, woken_call.2.2.2⟩)

/-- `Example.cvWoken`: thread 1 has called nsync_cv_signal at time 10; the theorem gives its return. -/
example : ∃ j, 10 ≤ j ∧ (cvWokenExec.ρ j).pc 1 = .idle :=
  C11_fair_signal_returns cvWokenExec cvWoken_hyps.1 cvWoken_hyps.2.1 cvWoken_hyps.2.2.1 cvWoken_hyps.2.2.2.1
    1 0 false .load 10 cvWoken_sig

end WaitN
