import NsyncVerif.Props.C05Mu
import NsyncVerif.Proofs.MuCOther2
import NsyncVerif.Proofs.MuCInv11Reach
import NsyncVerif.Proofs.MuCInv12Reach
import NsyncVerif.Proofs.MuCTraceLW
/-!
# C06 — conditional critical sections

Model: `NsyncVerif.Model.MuC` — the code of /repo AFTER the repair of defect F8 (commit ace4c21,
internal/mu_wait.c: `had_waiters = (old_word & MU_WAITING) != 0` at the enqueue CAS; the release loop
tests MU_DESIG_WAKER on the word it has just loaded).  See the header of `Props/C05Mu.lean` for the
conventions.  Everything below is for `Reachable cfg s`: every program, interleaving, thread count,
clock; both semaphore flavours.

PROVED (theorems; each `def …_full : Prop` that is proved has a theorem of that type)
* `C06_cond_under_lock`   every accepted `cond` evaluation is made by a thread that owns a share of the
                          mutex (own share inside mu_wait, or the writer bit — incl. the temporary
                          writer lock of unlock_slow); no OTHER thread owns the writer bit; the condition
                          is the one the model prescribes and the logged result is its value on the
                          model's data.
* `C06_inv_lock`, `C06_inv_spin`, `C06_inv_queue`
                          (I_lock) (I_spin) (I_queue) for the extended model.
* `C06_samecond_ring_sound : C06_samecond_ring_sound_full`
                          the same_condition ring invariant (`Chain`) holds on mu->waiters and on both
                          private lists of an unlocker in every reachable state (Proofs/MuCInv6*).
* `C06_skip_sound`        hence the skip of unlock_slow is sound, unconditionally: after an accepted
                          evaluation `false`, every waiter skip_past_same_condition passes over has a
                          condition that is false on the current data.
  `C06_samecond_ring_partial` (the older conditional form) is kept.
* `C06_hint : C06_hint_full`
                          MU_CONDITION clear ⇒ no queued waiter has a condition (`C06_hint_partial`);
                          MU_ALL_FALSE set, nobody owns the writer bit, contract of
                          unlock_without_wakeup kept ⇒ every queued waiter has a condition and it is
                          false on the current data.  `C06_hint_all_false` is the general form (also
                          while a write section is open: then "false on the data as it was when the
                          section began", and only while nobody is `susp`ended).  Proofs/MuCInv7*.
* `C06_true_cond_has_responsible`  (I_resp, Proofs/MuCInv8*–MuCInv11*)
                          contract kept and some queued waiter has a condition that is TRUE on the
                          current data ⇒ some thread is responsible: owns a share / is an unlocker between
                          grab CAS and final CAS / is in flight / spins after a timeout.
* `C06_desig_waker_justified`
                          MU_DESIG_WAKER set ⇒ an unlocker is mid-scan or a woken thread is in flight.
* `C06_no_missed_cond : C06_no_missed_cond_full`
                          quiescent state, contract kept ⇒ every waiter on mu->waiters that has a
                          condition has a FALSE condition.  (Non-vacuous: `C06_quiescent_witness`.)
* `C06_without_wakeup_sound`, `C06_without_wakeup_no_missed`
                          the corrected statements for nsync_mu_unlock_without_wakeup: on the
                          MU_ALL_FALSE fast path every queued waiter has a false condition; on ANY fast
                          path either no queued condition is true or another thread is responsible.

* `C06_writer_waiting_justified`, `C06_long_wait_justified`  (Proofs/MuCInv12*, MuCTL*)
                          the two hints that make an ARRIVING thread queue itself on a free mutex are never stale:
                          MU_WRITER_WAITING set ⇒ some thread's next acquisition clears the bit (a writer inside
                          lock_slow that has queued itself or been woken, a write-mode waiter taken off the queue and
                          in flight, a timed-out waiter spinning in mu_try_acquire_after_timeout_or_cancel) or a
                          queued write-mode waiter could run (no condition, or condition true on the data) — and the
                          last alternative needs no condition at all while a client may change the data;
                          MU_LONG_WAIT set ⇒ some thread inside lock_slow has `long_wait` set, and (spinlock free) it
                          is woken / in flight or its record is queued.
* `C06_responsible`       contract kept ⇒ EVERY queued waiter — with or without a condition — whose condition is absent
                          or true on the data has somebody responsible (holder, unlocker between grab CAS and final
                          CAS, woken thread in flight, timed-out waiter re-acquiring); also while a thread is between
                          its enqueue CAS and the queue insertion (`C06_responsible_pending`).
* `C06_no_stuck_state : C06_no_stuck_state_full`
                          in a quiescent state (contract kept) nobody sleeps inside nsync_mu_lock / nsync_mu_rlock, and
                          every sleeper is a nsync_mu_wait waiter on mu->waiters whose condition is false.
                          (Non-vacuous: `C06_quiescent_witness`; hints: `traceLongWait`, `tracePassedWriter`.)

* witnesses (`decide` on accepted traces of the real library): two eq-equivalent waiters woken by one
  nsync_mu_unlock (`traceEqPair`); the reader-mode timeout under a writer (the F6 path of mu_wait.c)
  with the fresh reader acquiring, and the acceptor rejecting the store of the unfixed code
  (`traceReaderTimeout`); unlock_without_wakeup leaving a false-condition waiter asleep on its
  MU_ALL_FALSE fast path (`traceNoWakeup`); a contract violation seen by the ghost (`traceNwViol`); a thread woken
  30 times whose re-queue sets MU_LONG_WAIT (`traceLongWait`); a writer-mode waiter with a true condition passed over
  by the scan, MU_WRITER_WAITING left set on its behalf (`tracePassedWriter`).

REFUTED as stated (concrete accepted traces of the real library, by `decide`), corrected versions proved
* `C06_samecond_ring_full_refuted`      rings are not the maximal runs (WAIT_CONDITION_EQ is asymmetric);
                                        corrected: `C06_samecond_ring_sound_full` (proved).
* `C06_without_wakeup_sound_full_refuted`  the fast path is also taken when MU_DESIG_WAKER is set, with
                                        condition-less waiters queued (`traceNwDesig`); corrected:
                                        `C06_without_wakeup_sound`, `C06_without_wakeup_no_missed`.

Every `def …_full : Prop` of this file is now either proved or refuted-and-corrected.

DEFECT F8 (found by this proof attempt; genuine; repaired in /repo by ace4c21)
  In the pinned code `had_waiters` of nsync_mu_wait_with_deadline was computed as
  `(old_word & (MU_DESIG_WAKER|MU_WAITING)) == MU_WAITING` at the enqueue CAS and the release loop did
  not look at MU_DESIG_WAKER again: a reader-mode waiter that queued itself while a designated waker
  was in flight released the last read lock without calling unlock_slow although, by the time of the
  release, the designated waker had acquired and gone.  Both `_full` statements about quiescent states
  were FALSE for that code: `C06_no_stuck_state_old_code_witness` (a thread asleep inside nsync_mu_lock
  on a free mutex) and `C06_no_missed_cond_old_code_witness` (a nsync_mu_wait waiter asleep with a true
  condition).  They are statements about `runOld` (the old rule, kept as a 2-program-point variant of
  `step`), NOT about the current model, which rejects both traces at the waiter's release load.
  Scenarios: /verif/corpus/C06/f8_*.txt (now regressions: outcome `ok` on the repaired library).

Model changes of this delivery (acceptor re-validated, see the delivery report)
* F8 rule (above).
* ghost `secStart`: a nsync_mu_wait that returns at once (`MW.first`: NULL or true condition, mutex never
  released) no longer re-takes the snapshot of the protected data — the caller's write section simply
  continues.  Before, a section  lock; x := …; nsync_mu_wait(NULL); unlock_without_wakeup  hid a contract
  violation from `nwViol` (`traceNwViol`).  Ghost only: accepts the same logs.

Other findings
* WAIT_CONDITION_EQ is asymmetric (only its first argument's `eq` is consulted): rings are not maximal
  runs; harmless for correctness, costs evaluations.
* skip_past_same_condition does not skip when the ring is the whole list (`last == p->prev`): the second
  member is evaluated again (`traceEqPair`, events 32-33).
* After a timed-out waiter has removed itself from the queue (mu_wait.c:100-109) MU_WAITING,
  MU_CONDITION and MU_ALL_FALSE can stay set on a free mutex with an EMPTY queue (word 148 at the
  end of `traceReaderTimeout`): "MU_WAITING indicates whether the waiter queue is non-empty"
  (common.h:116) holds only in the direction queue non-empty ⇒ bit set.  Harmless.
* nsync_mu_unlock_without_wakeup takes its fast path under MU_DESIG_WAKER too (mu_wait.c:320): its
  comment "no waiter whose condition is true" is to be read modulo the designated waker.
-/
namespace NsyncVerif.MuC

/-! ## a condition is only evaluated under the lock -/

/-- Every evaluation of a wait condition the acceptor accepts is made by a thread `t` that owns a
    share of the mutex — its own share inside nsync_mu_wait_with_deadline (`mwEval`, mode `c.l`), or
    the writer bit inside nsync_mu_unlock_slow_ (`usEval`: the caller's writer lock, or the temporary
    writer lock of mu.c:285-301) — while no other thread owns the writer bit, in particular no other
    thread is inside a write critical section (`held u = some .W`); the condition evaluated is the
    one the model prescribes and the logged result is its value on the model's data. -/
theorem C06_cond_under_lock {cfg : Cfg} {s s' : State} {t : Tid} {fn : CFn} {k : Nat} {res : Bool}
    (hr : Reachable cfg s) (h : step cfg s (.cond t fn k res) = .ok s') :
    ((∃ c, s.pc t = .mwEval c ∧ shareOf s t = some c.l) ∨
     (∃ r sc, s.pc t = .usEval r sc ∧ shareOf s t = some .W ∧ s.wOwner = some t ∧ s.word.wlock = true)) ∧
    (∀ u, u ≠ t → s.held u ≠ some .W ∧ shareOf s u ≠ some .W) ∧
    (∃ c : Cond, c.fn = fn ∧ c.k = k ∧ res = evalCond s.data c ∧
      ((∃ m, s.pc t = .mwEval m ∧ m.cond = some c) ∨
       (∃ r sc w rest, s.pc t = .usEval r sc ∧ sc.todo = w :: rest ∧ (s.wr w).cond = some c))) := by
  have inv := reachable_inv1 hr
  simp only [step, stepCond] at h
  have others : ∀ m, shareOf s t = some m → ∀ u, u ≠ t → s.held u ≠ some .W ∧ shareOf s u ≠ some .W := by
    intro m hm u hu
    have h2 : shareOf s u ≠ some .W := by
      intro hw
      exact hu (inv.lock.writer_alone hw (by rw [hm]; simp)).symm
    refine ⟨?_, h2⟩
    intro hh
    apply h2
    simp [shareOf, tshare, hh]
  split at h
  · rename_i c heq
    have hsh : shareOf s t = some c.l := by rw [inv.share_eq (by rw [heq]; simp), heq]; rfl
    refine ⟨Or.inl ⟨c, heq, hsh⟩, others _ hsh, ?_⟩
    split at h
    · cases h
    · rename_i cd hcd
      split at h
      · cases h
      · split at h
        · cases h
        · rename_i h1 h2
          simp only [not_or, Decidable.not_not] at h1 h2
          exact ⟨cd, h1.1, h1.2, h2, Or.inl ⟨c, heq, hcd⟩⟩
  · rename_i r sc heq
    have hok := inv.pcok t; rw [heq] at hok
    have hlate : sc.late = true := hok.2.1 hok.2.2.1
    have hsh : shareOf s t = some .W := by rw [inv.share_eq (by rw [heq]; simp), heq]; simp [pcShare, hlate]
    have hown := (inv.lock.wown t).2 hsh
    have hwl : s.word.wlock = true := by rw [inv.lock.wl, hown]; rfl
    refine ⟨Or.inr ⟨r, sc, heq, hsh, hown, hwl⟩, others _ hsh, ?_⟩
    split at h
    · cases h
    · rename_i w rest htodo
      split at h
      · cases h
      · rename_i cd hcd
        split at h
        · cases h
        · split at h
          · cases h
          · rename_i h1 h2
            simp only [not_or, Decidable.not_not] at h1 h2
            exact ⟨cd, h1.1, h1.2, h2, Or.inr ⟨r, sc, w, rest, heq, htodo, hcd⟩⟩
  · cases h

/-! ## witnesses: accepted traces of the real library (harness executions, converted by the driver) -/

def stateAfter (cfg : Cfg) (evs : List Event) (f : State → Bool) : Bool :=
  match run cfg init evs with
  | .ok s => f s
  | .error _ => false

/-- Two reader-mode waiters with EQUIVALENT conditions (c2, then c1: same function, different
    argument objects, condition_arg_eq says equal) and one setter.  Thread 0's own unlock_slow
    (events 27-42) evaluates BOTH although they form one same_condition ring: the ring is the whole
    list, the case `last_with_same_condition == p->prev` of skip_past_same_condition.  The setter's
    single nsync_mu_unlock (events 45-65) evaluates c2 (true), c1 (true) and wakes both. -/
def traceEqPair : List Event := [
 .call 1 .rlock,
 .cas 1 .acq .word 0 256 0 true,
 .ret 1 .rlock .void,
 .call 1 (.wait (some { fn := .eq, k := 2, var := 0, val := 1, hasEq := true }) none false),
 .ld 1 .rlx .word 256,
 .cond 1 .eq 2 false,
 .st 1 .rlx (.waiting 0) 1 0,
 .ld 1 .rlx (.rc 0) 0,
 .ld 1 .rlx .word 256,
 .cas 1 .acq .word 256 278 256 true,
 .ld 1 .rlx .word 278,
 .cas 1 .rel .word 278 20 278 true,
 .ld 1 .acq (.waiting 0) 1,
 .semPdEnter 1 0 none,
 .call 0 .rlock,
 .cas 0 .acq .word 0 256 20 false,
 .ld 0 .rlx .word 20,
 .cas 0 .acq .word 20 276 20 true,
 .ret 0 .rlock .void,
 .call 0 (.wait (some { fn := .eq, k := 1, var := 0, val := 1, hasEq := true }) none false),
 .ld 0 .rlx .word 276,
 .cond 0 .eq 1 false,
 .st 0 .rlx (.waiting 1) 1 0,
 .ld 0 .rlx (.rc 1) 0,
 .ld 0 .rlx .word 276,
 .cas 0 .acq .word 276 278 276 true,
 .ld 0 .rlx .word 278,
 .cas 0 .rel .word 278 276 278 true,
 .ld 0 .rlx .word 276,
 .cas 0 .ar .word 276 31 276 true,
 .ld 0 .rlx .word 31,
 .cas 0 .rel .word 31 29 31 true,
 .cond 0 .eq 2 false,
 .cond 0 .eq 1 false,
 .ld 0 .rlx .word 29,
 .cas 0 .acq .word 29 31 29 true,
 .ld 0 .rlx .word 31,
 .cas 0 .rel .word 31 148 31 true,
 .call 2 .lock,
 .cas 2 .acq .word 0 1 148 false,
 .ld 2 .rlx .word 148,
 .cas 2 .acq .word 148 149 148 true,
 .ret 2 .lock .void,
 .dataW 2 0 1,
 .call 2 .unlock,
 .cas 2 .rel .word 1 0 149 false,
 .ld 2 .rlx .word 149,
 .ld 2 .rlx .word 149,
 .cas 2 .ar .word 149 159 149 true,
 .ld 2 .rlx .word 159,
 .cas 2 .rel .word 159 157 159 true,
 .cond 2 .eq 2 true,
 .ld 2 .rlx (.rc 0) 0,
 .cas 2 .rlx (.rc 0) 0 1 0 true,
 .cond 2 .eq 1 true,
 .ld 2 .rlx (.rc 1) 0,
 .cas 2 .rlx (.rc 1) 0 1 0 true,
 .ld 2 .rlx .word 157,
 .cas 2 .acq .word 157 159 157 true,
 .ld 2 .rlx .word 159,
 .cas 2 .rel .word 159 8 159 true,
 .st 2 .rel (.waiting 0) 0 1,
 .semV 2 0,
 .st 2 .rel (.waiting 1) 0 1,
 .semV 2 1,
 .ret 2 .unlock .void,
 .semPdRet 1 0 false,
 .ld 1 .rlx (.waiting 0) 0,
 .ld 1 .acq (.waiting 0) 0,
 .ld 0 .acq (.waiting 1) 0,
 .ld 0 .rlx .word 8,
 .cas 0 .acq .word 8 256 8 true,
 .cond 0 .eq 1 true,
 .ret 0 (.wait (some { fn := .eq, k := 1, var := 0, val := 1, hasEq := true }) none false) (.outc (.ok)),
 .call 0 .runlock,
 .cas 0 .rel .word 256 0 256 true,
 .ret 0 .runlock .void,
 .ld 1 .rlx .word 0,
 .cas 1 .acq .word 0 256 0 true,
 .cond 1 .eq 2 true,
 .ret 1 (.wait (some { fn := .eq, k := 2, var := 0, val := 1, hasEq := true }) none false) (.outc (.ok)),
 .call 1 .runlock,
 .cas 1 .rel .word 256 0 256 true,
 .ret 1 .runlock .void
]
example : accepts ⟨false⟩ traceEqPair = true ∧ accepts ⟨true⟩ traceEqPair = true := by decide
/-- before the setter arrives both are queued in one ring (`lnk` of the first is set) -/
example : stateAfter ⟨false⟩ (traceEqPair.take 42) (fun s => s.queue == [0, 1] && (s.wr 0).lnk && !(s.wr 1).lnk
    && (s.wr 0).cond != (s.wr 1).cond && condEq (s.wr 0).cond (s.wr 1).cond) = true := by decide
/-- after the setter's unlock has returned nobody is queued and both have been released -/
example : stateAfter ⟨false⟩ (traceEqPair.take 66) (fun s => s.queue == [] && !(s.wr 0).waiting && !(s.wr 1).waiting
    && (s.wr 0).sem == 1 && (s.wr 1).sem == 1) = true := by decide

/-- A reader-mode waiter (thread 0) times out while a WRITER (thread 1) holds the mutex: it sets
    MU_WRITER_WAITING (event 23: 21 → 53), the writer's unlock_slow finds its condition false and
    leaves MU_ALL_FALSE|MU_WRITER_WAITING (180), the waiter acquires writer bit and spinlock (180 → 151,
    which clears MU_WRITER_WAITING), removes itself and converts to a reader lock with the release
    store of mu_wait.c:108.  The value stored is 404 = (180 & ~MU_WRITER_WAITING) + MU_RLOCK; the
    unfixed code stored 436 (bit put back), after which the last runlock took the MU_ALL_FALSE fast
    path and the fresh reader (thread 2, events 54-58) would have slept for ever (defect F6). -/
def traceReaderTimeout : List Event := [
 .call 0 .rlock,
 .cas 0 .acq .word 0 256 0 true,
 .ret 0 .rlock .void,
 .call 0 (.wait (some { fn := .eq, k := 0, var := 0, val := 1, hasEq := false }) (some 1000000001000) false),
 .ld 0 .rlx .word 256,
 .cond 0 .eq 0 false,
 .st 0 .rlx (.waiting 0) 1 0,
 .ld 0 .rlx (.rc 0) 0,
 .ld 0 .rlx .word 256,
 .cas 0 .acq .word 256 278 256 true,
 .ld 0 .rlx .word 278,
 .cas 0 .rel .word 278 20 278 true,
 .ld 0 .acq (.waiting 0) 1,
 .semPdEnter 0 0 (some 1000000001000),
 .call 1 .lock,
 .cas 1 .acq .word 0 1 20 false,
 .tick 1000000001000,
 .ld 1 .rlx .word 20,
 .cas 1 .acq .word 20 21 20 true,
 .ret 1 .lock .void,
 .semPdRet 0 0 true,
 .ld 0 .rlx (.waiting 0) 1,
 .ld 0 .rlx .word 21,
 .ld 0 .acq (.waiting 0) 1,
 .cas 0 .ar .word 21 53 21 true,
 .call 1 .unlock,
 .cas 1 .rel .word 1 0 53 false,
 .ld 1 .rlx .word 53,
 .ld 1 .rlx .word 53,
 .cas 1 .ar .word 53 63 53 true,
 .ld 1 .rlx .word 63,
 .cas 1 .rel .word 63 61 63 true,
 .cond 1 .eq 0 false,
 .ld 1 .rlx .word 61,
 .cas 1 .acq .word 61 63 61 true,
 .ld 1 .rlx .word 63,
 .cas 1 .rel .word 63 180 63 true,
 .ret 1 .unlock .void,
 .ld 0 .rlx .word 180,
 .cas 0 .acq .word 180 151 180 true,
 .ld 0 .rlx (.waiting 0) 1,
 .ld 0 .rlx (.rc 0) 0,
 .ld 0 .rlx (.rc 0) 0,
 .cas 0 .rlx (.rc 0) 0 1 0 true,
 .st 0 .rlx (.waiting 0) 0 1,
 .st 0 .rel .word 404 151,
 .ld 0 .rlx (.waiting 0) 0,
 .ld 0 .acq (.waiting 0) 0,
 .cond 0 .eq 0 false,
 .ret 0 (.wait (some { fn := .eq, k := 0, var := 0, val := 1, hasEq := false }) (some 1000000001000) false) (.outc (.timedout)),
 .call 0 .runlock,
 .cas 0 .rel .word 256 0 404 false,
 .ld 0 .rlx .word 404,
 .cas 0 .rel .word 404 148 404 true,
 .ret 0 .runlock .void,
 .call 2 .rlock,
 .cas 2 .acq .word 0 256 148 false,
 .ld 2 .rlx .word 148,
 .cas 2 .acq .word 148 404 148 true,
 .ret 2 .rlock .void,
 .call 2 .runlock,
 .cas 2 .rel .word 256 0 404 false,
 .ld 2 .rlx .word 404,
 .cas 2 .rel .word 404 148 404 true,
 .ret 2 .runlock .void
]
example : accepts ⟨false⟩ traceReaderTimeout = true := by decide
/-- the acceptor rejects the store of the unfixed code -/
example : accepts ⟨false⟩ (traceReaderTimeout.take 45 ++ [.st 0 .rel .word 436 151]) = false := by decide
/-- the fresh reader acquires; at the end the mutex is free, nobody is queued — and the word is 148:
    MU_WAITING|MU_CONDITION|MU_ALL_FALSE are left set by the self-removal (harmless: cleared by the
    next unlock_slow; the documented "MU_WAITING ⇔ queue non-empty" only holds in the direction ⇐). -/
example : stateAfter ⟨false⟩ traceReaderTimeout (fun s => s.queue == [] && encode s.word == 148
    && s.wOwner == none && s.rOwners == []) = true := by decide

/-- nsync_mu_unlock_without_wakeup leaves a waiter whose condition is false asleep: the first such
    release (events 20-32) scans, finds the condition false and sets MU_ALL_FALSE; the second
    (events 39-43) takes the fast path — 4 events, no evaluation, nobody woken; the waiter is woken by
    the nsync_mu_unlock of the section that makes its condition true (events 50-66). -/
def traceNoWakeup : List Event := [
 .call 0 .lock,
 .cas 0 .acq .word 0 1 0 true,
 .ret 0 .lock .void,
 .call 0 (.wait (some { fn := .eq, k := 0, var := 0, val := 1, hasEq := false }) none false),
 .ld 0 .rlx .word 1,
 .cond 0 .eq 0 false,
 .st 0 .rlx (.waiting 0) 1 0,
 .ld 0 .rlx (.rc 0) 0,
 .ld 0 .rlx .word 1,
 .cas 0 .acq .word 1 23 1 true,
 .ld 0 .rlx .word 23,
 .cas 0 .rel .word 23 20 23 true,
 .ld 0 .acq (.waiting 0) 1,
 .semPdEnter 0 0 none,
 .call 1 .lock,
 .cas 1 .acq .word 0 1 20 false,
 .ld 1 .rlx .word 20,
 .cas 1 .acq .word 20 21 20 true,
 .ret 1 .lock .void,
 .dataW 1 2 5,
 .call 1 .unlockNw,
 .cas 1 .rel .word 1 0 21 false,
 .ld 1 .rlx .word 21,
 .ld 1 .rlx .word 21,
 .cas 1 .ar .word 21 31 21 true,
 .ld 1 .rlx .word 31,
 .cas 1 .rel .word 31 29 31 true,
 .cond 1 .eq 0 false,
 .ld 1 .rlx .word 29,
 .cas 1 .acq .word 29 31 29 true,
 .ld 1 .rlx .word 31,
 .cas 1 .rel .word 31 148 31 true,
 .ret 1 .unlockNw .void,
 .call 1 .lock,
 .cas 1 .acq .word 0 1 148 false,
 .ld 1 .rlx .word 148,
 .cas 1 .acq .word 148 149 148 true,
 .ret 1 .lock .void,
 .dataW 1 2 6,
 .call 1 .unlockNw,
 .cas 1 .rel .word 1 0 149 false,
 .ld 1 .rlx .word 149,
 .cas 1 .rel .word 149 148 149 true,
 .ret 1 .unlockNw .void,
 .call 1 .lock,
 .cas 1 .acq .word 0 1 148 false,
 .ld 1 .rlx .word 148,
 .cas 1 .acq .word 148 149 148 true,
 .ret 1 .lock .void,
 .dataW 1 0 1,
 .call 1 .unlock,
 .cas 1 .rel .word 1 0 149 false,
 .ld 1 .rlx .word 149,
 .ld 1 .rlx .word 149,
 .cas 1 .ar .word 149 159 149 true,
 .ld 1 .rlx .word 159,
 .cas 1 .rel .word 159 157 159 true,
 .cond 1 .eq 0 true,
 .ld 1 .rlx (.rc 0) 0,
 .cas 1 .rlx (.rc 0) 0 1 0 true,
 .ld 1 .rlx .word 157,
 .cas 1 .acq .word 157 159 157 true,
 .ld 1 .rlx .word 159,
 .cas 1 .rel .word 159 8 159 true,
 .st 1 .rel (.waiting 0) 0 1,
 .semV 1 0,
 .ret 1 .unlock .void,
 .semPdRet 0 0 false,
 .ld 0 .rlx (.waiting 0) 0,
 .ld 0 .acq (.waiting 0) 0,
 .ld 0 .rlx .word 8,
 .cas 0 .acq .word 8 1 8 true,
 .cond 0 .eq 0 true,
 .ret 0 (.wait (some { fn := .eq, k := 0, var := 0, val := 1, hasEq := false }) none false) (.outc (.ok)),
 .call 0 .unlock,
 .cas 0 .rel .word 1 0 1 true,
 .ret 0 .unlock .void
]
example : accepts ⟨false⟩ traceNoWakeup = true ∧ accepts ⟨true⟩ traceNoWakeup = true := by decide
example : stateAfter ⟨false⟩ (traceNoWakeup.take 44) (fun s => s.queue == [0] && (s.wr 0).waiting && s.word.af
    && !s.nwViol && !evalOpt s.data (s.wr 0).cond && (s.wr 0).sem == 0) = true := by decide

/-! ## statements about the queue, the same_condition rings and the hint bits -/

/-- No unlocker is in the middle of a scan when nobody owns the spinlock or the writer bit. -/
theorem not_midScan {cfg : Cfg} {s : State} (hr : Reachable cfg s) (hsp : s.sp = none) (hw : s.wOwner = none) :
    ¬ MidScan s := by
  rintro ⟨u, sc, hsc⟩
  have inv1 := reachable_inv1 hr
  have inv3 := reachable_inv3 hr
  have hok := inv1.pcok u
  have hok3 := inv3.ok3 u
  have hspin : (s.pc u).spin = false := by
    cases hsp' : (s.pc u).spin with
    | false => rfl
    | true => have := (inv3.own u).2 hsp'; rw [hsp] at this; cases this
  have hshare : shareOf s u ≠ some .W := by
    intro e; have := (inv1.lock.wown u).2 e; rw [hw] at this; cases this
  have hse := inv1.share_eq (t := u)
  have key : ∀ sc' : Scan, pcShare (s.pc u) = (if sc'.late then some .W else none) → sc'.ok →
      ((s.pc u).spin = !sc'.tc ∨ (s.pc u).spin = true ∨ sc'.tc = true) → s.pc u ≠ .idle → False := by
    intro sc' h1 h2 h3 h4
    have hs := hse h4
    rw [h1] at hs
    cases hl : sc'.late with
    | true => rw [hl] at hs; exact hshare (by simpa using hs)
    | false =>
      have htc : sc'.tc = false := by
        cases ht : sc'.tc with
        | false => rfl
        | true => have := h2 ht; rw [hl] at this; cases this
      rcases h3 with h3 | h3 | h3
      · rw [hspin, htc] at h3; cases h3
      · rw [hspin] at h3; cases h3
      · rw [htc] at h3; cases h3
  cases hpc : s.pc u <;> rw [hpc] at hsc <;> simp [PC.scan?] at hsc <;> subst hsc <;>
    rw [hpc] at hok hok3 key
  case usRelLd r sc0 => exact key sc0 rfl hok.2 (Or.inr (Or.inl rfl)) (by simp)
  case usRelCas r sc0 old => exact key sc0 rfl hok.2 (Or.inr (Or.inl rfl)) (by simp)
  case usEval r sc0 => exact key sc0 rfl hok.2.1 (Or.inr (Or.inr hok.2.2.1)) (by simp)
  case usRcLd r sc0 k => exact key sc0 rfl hok.2 (Or.inl rfl) (by simp)
  case usRcCas r sc0 k old => exact key sc0 rfl hok.2 (Or.inl rfl) (by simp)
  case usReLd r sc0 => exact key sc0 rfl hok.2 (Or.inr (Or.inr hok3)) (by simp)
  case usReCas r sc0 old => exact key sc0 rfl hok.2 (Or.inr (Or.inr hok3.2)) (by simp)

/-- The literal statement "the same_condition groups are exactly the maximal runs of adjacent waiters
    with WAIT_CONDITION_EQ-equal conditions": FALSE for the code (`C06_samecond_ring_full_refuted`).
    nsync_remove_from_mu_queue_ re-merges the neighbours only when the removed element was alone in
    its ring (mu.c:250-258); WAIT_CONDITION_EQ is not symmetric (it consults only its first
    argument's `eq`), so a ring c1–c0 (c1 has an eq function, c0 has none) followed by c2 (eq function,
    equivalent) is legal, and removing c0 leaves c1, c2 adjacent, equal and unmerged. -/
def C06_samecond_ring_full : Prop :=
  ∀ (cfg : Cfg) (s : State), Reachable cfg s → s.sp = none → ¬ MidScan s →
    groupsOf s.wr s.queue = runsOf s.wr s.queue

/-- Three writer-mode waiters queue with conditions c1 (eq), c0 (no eq function), c2 (eq) on the same
    (variable, value); c0's wait times out and removes itself (events 62-76), returns ETIMEDOUT and unlocks (81-94:
    its unlock_slow finds both remaining conditions false). -/
def traceNotMaximal : List Event := [
 .call 0 .lock,
 .cas 0 .acq .word 0 1 0 true,
 .ret 0 .lock .void,
 .call 0 (.wait (some { fn := .eq, k := 1, var := 0, val := 1, hasEq := true }) none false),
 .ld 0 .rlx .word 1,
 .cond 0 .eq 1 false,
 .st 0 .rlx (.waiting 0) 1 0,
 .ld 0 .rlx (.rc 0) 0,
 .ld 0 .rlx .word 1,
 .cas 0 .acq .word 1 23 1 true,
 .ld 0 .rlx .word 23,
 .cas 0 .rel .word 23 20 23 true,
 .ld 0 .acq (.waiting 0) 1,
 .semPdEnter 0 0 none,
 .call 1 .lock,
 .cas 1 .acq .word 0 1 20 false,
 .ld 1 .rlx .word 20,
 .cas 1 .acq .word 20 21 20 true,
 .ret 1 .lock .void,
 .call 1 (.wait (some { fn := .eq, k := 0, var := 0, val := 1, hasEq := false }) (some 1000000001000) false),
 .ld 1 .rlx .word 21,
 .cond 1 .eq 0 false,
 .st 1 .rlx (.waiting 1) 1 0,
 .ld 1 .rlx (.rc 1) 0,
 .ld 1 .rlx .word 21,
 .cas 1 .acq .word 21 23 21 true,
 .ld 1 .rlx .word 23,
 .cas 1 .rel .word 23 21 23 true,
 .ld 1 .rlx .word 21,
 .cas 1 .ar .word 21 31 21 true,
 .ld 1 .rlx .word 31,
 .cas 1 .rel .word 31 29 31 true,
 .cond 1 .eq 1 false,
 .cond 1 .eq 0 false,
 .ld 1 .rlx .word 29,
 .cas 1 .acq .word 29 31 29 true,
 .ld 1 .rlx .word 31,
 .cas 1 .rel .word 31 148 31 true,
 .call 2 .lock,
 .cas 2 .acq .word 0 1 148 false,
 .ld 2 .rlx .word 148,
 .cas 2 .acq .word 148 149 148 true,
 .ret 2 .lock .void,
 .call 2 (.wait (some { fn := .eq, k := 2, var := 0, val := 1, hasEq := true }) none false),
 .ld 2 .rlx .word 149,
 .cond 2 .eq 2 false,
 .st 2 .rlx (.waiting 2) 1 0,
 .ld 2 .rlx (.rc 2) 0,
 .ld 2 .rlx .word 149,
 .cas 2 .acq .word 149 23 149 true,
 .ld 2 .rlx .word 23,
 .cas 2 .rel .word 23 21 23 true,
 .ld 2 .rlx .word 21,
 .cas 2 .ar .word 21 31 21 true,
 .ld 2 .rlx .word 31,
 .cas 2 .rel .word 31 29 31 true,
 .cond 2 .eq 1 false,
 .cond 2 .eq 2 false,
 .ld 2 .rlx .word 29,
 .cas 2 .acq .word 29 31 29 true,
 .ld 2 .rlx .word 31,
 .cas 2 .rel .word 31 148 31 true,
 .ld 2 .acq (.waiting 2) 1,
 .semPdEnter 2 2 none,
 .ld 1 .acq (.waiting 1) 1,
 .semPdEnter 1 1 (some 1000000001000),
 .tick 1000000001000,
 .semPdRet 1 1 true,
 .ld 1 .rlx (.waiting 1) 1,
 .ld 1 .rlx .word 148,
 .cas 1 .acq .word 148 151 148 true,
 .ld 1 .rlx (.waiting 1) 1,
 .ld 1 .rlx (.rc 1) 0,
 .ld 1 .rlx (.rc 1) 0,
 .cas 1 .rlx (.rc 1) 0 1 0 true,
 .st 1 .rlx (.waiting 1) 0 1,
 .st 1 .rel .word 149 151,
 .ld 1 .rlx (.waiting 1) 0,
 .ld 1 .acq (.waiting 1) 0,
 .cond 1 .eq 0 false,
 .ret 1 (.wait (some { fn := .eq, k := 0, var := 0, val := 1, hasEq := false }) (some 1000000001000) false) (.outc (.timedout)),
 .call 1 .unlock,
 .cas 1 .rel .word 1 0 149 false,
 .ld 1 .rlx .word 149,
 .ld 1 .rlx .word 149,
 .cas 1 .ar .word 149 159 149 true,
 .ld 1 .rlx .word 159,
 .cas 1 .rel .word 159 157 159 true,
 .cond 1 .eq 1 false,
 .cond 1 .eq 2 false,
 .ld 1 .rlx .word 157,
 .cas 1 .acq .word 157 159 157 true,
 .ld 1 .rlx .word 159,
 .cas 1 .rel .word 159 148 159 true,
 .ret 1 .unlock .void
]
example : accepts ⟨false⟩ traceNotMaximal = true := by decide
example : stateAfter ⟨false⟩ (traceNotMaximal.take 60) (fun s => s.queue == [0, 1, 2] && (s.wr 0).lnk && !(s.wr 1).lnk) = true := by
  decide

def notMaximalCheck : Bool :=
  match run ⟨false⟩ init traceNotMaximal with
  | .ok s => s.sp == none && s.wOwner == none && s.queue == [0, 2] && !(s.wr 0).lnk && !(s.wr 2).lnk
      && condEq (s.wr 0).cond (s.wr 2).cond && condEq (s.wr 2).cond (s.wr 0).cond
  | .error _ => false

theorem C06_samecond_ring_full_refuted : ¬ C06_samecond_ring_full := by
  intro h
  have key : notMaximalCheck = true := by decide
  unfold notMaximalCheck at key
  split at key
  · rename_i s hs
    simp only [Bool.and_eq_true, beq_iff_eq, Bool.not_eq_true'] at key
    obtain ⟨⟨⟨⟨⟨⟨h1, h2⟩, h3⟩, h4⟩, h5⟩, h6⟩, h7⟩ := key
    have hr : Reachable ⟨false⟩ s := ⟨_, hs⟩
    have := h ⟨false⟩ s hr h1 (not_midScan hr h1 h2)
    rw [h3] at this
    simp [groupsOf, runsOf, h4, h6] at this
  · cases key

/-- The direction the code guarantees (and the one the skip of unlock_slow needs): on every list of
    waiters (`Chain`, Proofs/MuCRing.lean) a record the model links to its successor has a condition
    that denotes the same predicate as the successor's, and the last record is not linked — so all
    members of a ring have the same truth value.  PROVED: `C06_samecond_ring_sound`. -/
def C06_samecond_ring_sound_full : Prop :=
  ∀ (cfg : Cfg) (s : State), Reachable cfg s →
    Chain s.wr s.queue ∧
    ∀ u sc, (s.pc u).scan? = some sc → Chain s.wr sc.done ∧ Chain s.wr (sc.passed ++ sc.todo)

/-- The ring invariant holds in every reachable state, on mu->waiters and on both private lists of an
    unlocker (`waiters`, `new_waiters`).  It is preserved by nsync_maybe_merge_conditions_ at either end
    of the queue and at the junction of `waiters` and `new_waiters` (mu.c:403), by both branches of the
    fix-up in nsync_remove_from_mu_queue_ (unlink, or re-merge of the two neighbours), and needs: every
    stored condition agrees with what its argument object denotes (`Inv6.cwr`, from the contract of
    nsync_mu_wait that an argument object does not change its meaning), a record on no list is not
    linked (`Inv6.off`), and the lists are duplicate-free and disjoint (I_queue). -/
theorem C06_samecond_ring_sound : C06_samecond_ring_sound_full :=
  fun _ _ hr => ⟨(reachable_inv6 hr).cq, (reachable_inv6 hr).cs⟩

/-- What IS proved about the rings: under the ring invariant of the list being scanned, the skip of
    unlock_slow (mu.c:369-372, `skipPast`) passes only over waiters whose conditions denote the same
    predicate as the condition just evaluated; if that was false on the current data, so are theirs.
    (A fact about the transcription of skip_past_same_condition, for arbitrary record contents.) -/
theorem C06_samecond_ring_partial {wr : Wid → WRec} {passed rest : List Wid} {k : Wid} {data : Nat → Int}
    (hc : Chain wr (passed ++ k :: rest)) :
    (∃ skipped, (skipPast wr passed k rest).1 = passed ++ k :: skipped ∧
      skipped ++ (skipPast wr passed k rest).2 = rest ∧
      ∀ x, x ∈ skipped → SameSem (wr k).cond (wr x).cond) ∧
    (evalOpt data (wr k).cond = false →
      ∀ x, x ∈ (skipPast wr passed k rest).1 → x ∉ passed → evalOpt data (wr x).cond = false) :=
  ⟨skipPast_sound hc, skipPast_false hc⟩

/-- The skip is sound, unconditionally: whenever the acceptor accepts an evaluation `false` of the
    condition of waiter `w` inside nsync_mu_unlock_slow_, every waiter the scan then passes over
    without evaluating it (`skipped`: the rest of w's same_condition ring, mu.c:372) has a condition,
    and that condition is false on the current protected data. -/
theorem C06_skip_sound {cfg : Cfg} {s s' : State} {t : Tid} {fn : CFn} {k : Nat} {r : Ret} {sc : Scan} {w : Wid} {rest : List Wid}
    (hr : Reachable cfg s) (h : step cfg s (.cond t fn k false) = .ok s') (hpc : s.pc t = .usEval r sc) (htodo : sc.todo = w :: rest) :
    ∃ skipped, (skipPast s.wr sc.passed w rest).1 = sc.passed ++ w :: skipped ∧
      skipped ++ (skipPast s.wr sc.passed w rest).2 = rest ∧
      ∀ x, x ∈ w :: skipped → ∃ c, (s.wr x).cond = some c ∧ evalCond s.data c = false := by
  have h6 := reachable_inv6 hr
  have hchain : Chain s.wr (sc.passed ++ w :: rest) := by
    rw [← htodo]; exact (h6.cs t sc (by rw [hpc]; rfl)).2
  obtain ⟨sk, h1, h2, h3⟩ := skipPast_sound hchain
  obtain ⟨_, _, c, hfn, hk, hres, hwhich⟩ := C06_cond_under_lock hr h
  have hw : CondFalse s s.data w := by
    rcases hwhich with ⟨m, hm, _⟩ | ⟨r', sc', w', rest', hp', ht', hc'⟩
    · rw [hpc] at hm; cases hm
    · rw [hpc] at hp'; cases hp'
      rw [htodo] at ht'; cases ht'
      exact ⟨c, hc', hres.symm⟩
  refine ⟨sk, h1, h2, ?_⟩
  intro x hx
  simp only [List.mem_cons] at hx
  rcases hx with rfl | hx
  · exact hw
  · exact condFalse_of_sameSem (h3 x hx) hw

/-- Meaning of MU_CONDITION and MU_ALL_FALSE (common.h:118-134).  PROVED: `C06_hint`. -/
def C06_hint_full : Prop :=
  ∀ (cfg : Cfg) (s : State), Reachable cfg s →
    (s.word.cond = false → ∀ k, Queued s k → (s.wr k).cond = none) ∧
    (s.word.af = true → s.sp = none → s.wOwner = none → WithoutWakeupContract s →
      ∀ k, Queued s k → ∃ c, (s.wr k).cond = some c ∧ evalCond s.data c = false)

/-- First half of `C06_hint_full`: MU_CONDITION clear ⇒ no waiter on mu->waiters or on the private
    lists of an unlocker has a condition ("illegal to fail to set it with such a waiter"). -/
theorem C06_hint_partial {cfg : Cfg} {s : State} (hr : Reachable cfg s) (hc : s.word.cond = false) :
    ∀ k, Queued s k → (s.wr k).cond = none := by
  intro k hk
  cases hcd : (s.wr k).cond with
  | none => rfl
  | some c =>
    have := (reachable_inv5 hr).h1 k hk (by rw [hcd]; simp)
    rw [hc] at this; cases this

/-- MU_ALL_FALSE, general form.  While the bit is set every queued waiter (mu->waiters and the private
    lists of an unlocker) has a condition — unconditionally.  If moreover every write section that ended
    with nsync_mu_unlock_without_wakeup kept the contract of that call, and nobody is `susp`ended (no
    writer is inside nsync_mu_unlock before its release CAS, no unlocker that tests conditions is
    between its grab CAS and its final CAS), that condition is false: on the protected data as it was
    when the current write section began while a client write section is open (`SecOpen`: the client
    holds the mutex in write mode, or is in the first iteration of nsync_mu_wait before it has queued
    itself), and on the current data otherwise. -/
theorem C06_hint_all_false {cfg : Cfg} {s : State} (hr : Reachable cfg s) (haf : s.word.af = true) (k : Wid) (hk : Queued s k) :
    (s.wr k).cond ≠ none ∧
    (WithoutWakeupContract s → (∀ u, (s.pc u).susp = false) →
      ∃ c, (s.wr k).cond = some c ∧ (SecOpen s → evalCond s.secStart c = false) ∧ (¬ SecOpen s → evalCond s.data c = false)) := by
  obtain ⟨a, b⟩ := (reachable_inv7 hr).a1 haf k hk
  refine ⟨a, fun hc hns => ?_⟩
  cases hcd : (s.wr k).cond with
  | none => exact absurd hcd a
  | some c =>
    refine ⟨c, rfl, fun ho => ?_, fun hcl => ?_⟩
    · obtain ⟨c', h1, h2⟩ := b hc hns s.secStart (refData_of_open ho)
      rw [hcd] at h1; cases h1; exact h2
    · obtain ⟨c', h1, h2⟩ := b hc hns s.data (refData_of_closed hcl)
      rw [hcd] at h1; cases h1; exact h2

/-- `C06_hint_full` as stated (the hypothesis `s.sp = none` is not even needed): on a mutex whose
    writer bit nobody owns, MU_ALL_FALSE set means that every queued waiter has a condition and it is
    false on the current protected data. -/
theorem C06_hint : C06_hint_full := by
  intro cfg s hr
  refine ⟨C06_hint_partial hr, ?_⟩
  intro haf _ hw hc k hk
  have h1 := reachable_inv1 hr
  obtain ⟨c, h1', _, h3⟩ := (C06_hint_all_false hr haf k hk).2 hc (no_susp_of_free h1 hw)
  exact ⟨c, h1', h3 (not_secOpen_of_free h1 hw)⟩

/-- A state with MU_ALL_FALSE set, a queued waiter, nobody owning writer bit or spinlock (non-vacuity of
    `C06_hint`): `traceNoWakeup` after the first nsync_mu_unlock_without_wakeup has returned. -/
example : stateAfter ⟨false⟩ (traceNoWakeup.take 33) (fun s => s.word.af && s.queue == [0] && s.sp == none && s.wOwner == none
    && !s.nwViol && !evalOpt s.data (s.wr 0).cond) = true := by decide

/-! ## the invariants re-proved for the extended model (lock, spinlock, queue) -/

/-- (I_lock) the lock bits of the word are exactly the shares the threads own; the client-visible
    `held` is one of them; a writer is alone. -/
theorem C06_inv_lock {cfg : Cfg} {s : State} (hr : Reachable cfg s) :
    (∀ t, s.wOwner = some t ↔ shareOf s t = some .W) ∧ (∀ t, t ∈ s.rOwners ↔ shareOf s t = some .R) ∧
    s.rOwners.Nodup ∧ s.word.wlock = s.wOwner.isSome ∧ s.word.readers = s.rOwners.length ∧
    (s.word.wlock = true → s.word.readers = 0) ∧
    (∀ t m, s.held t = some m → shareOf s t = some m ∧ s.pc t = .idle) ∧
    (∀ t u, shareOf s t = some .W → shareOf s u ≠ none → u = t) := by
  have inv := reachable_inv1 hr
  refine ⟨inv.lock.wown, inv.lock.rown, inv.lock.nodup, inv.lock.wl, inv.lock.rd, inv.lock.excl, ?_, ?_⟩
  · intro t m hm
    exact ⟨by simp [shareOf, tshare, hm], inv.hidle t (by rw [hm]; simp)⟩
  · intro t u ht hu; exact inv.lock.writer_alone ht hu

/-- (I_spin) MU_SPINLOCK is set iff some thread owns it, and the owner is exactly the thread whose
    program point lies in a region that holds it. -/
theorem C06_inv_spin {cfg : Cfg} {s : State} (hr : Reachable cfg s) :
    (∀ t, s.sp = some t ↔ (s.pc t).spin = true) ∧ s.word.spin = s.sp.isSome :=
  ⟨(reachable_inv3 hr).own, (reachable_inv3 hr).bit⟩

/-- (I_queue) waiter records are owned by the threads that refer to them; at most one thread is
    between the grab CAS and the final CAS of unlock_slow; no record occurs twice on mu->waiters, the
    private lists and the wake list; everything queued has `waiting` set, as have the waiters an
    unlocker has removed and not yet released, which are on no list any more; wake lists of different
    threads are disjoint; MU_WAITING etc. are cleared by the final CAS exactly when the queue is empty. -/
theorem C06_inv_queue {cfg : Cfg} {s : State} (hr : Reachable cfg s) :
    (∀ t k, k ∈ (s.pc t).ws → (s.wr k).owner = some t) ∧
    (∀ t u, (s.pc t).unl = true → (s.pc u).unl = true → t = u) ∧
    (∀ t, (s.queue ++ (s.pc t).priv ++ (s.pc t).wakeL).Nodup) ∧
    (∀ k, Queued s k → (s.wr k).waiting = true) ∧
    (∀ t k, k ∈ (s.pc t).wakeL → (s.wr k).waiting = true ∧ ¬ Queued s k) ∧
    (∀ t u k, k ∈ (s.pc t).wakeL → k ∈ (s.pc u).wakeL → t = u) ∧
    (∀ t f, (s.pc t).finOf = some f → f.cEmpty = s.queue.isEmpty) := by
  have inv := reachable_inv4 hr
  exact ⟨inv.own, inv.uniq, inv.nd, inv.wait, inv.wk, inv.wkd, inv.finq⟩

/-- No waiter whose condition is true is left asleep when nobody is active.
    PROVED for the model of the repaired code (`C06_no_missed_cond`); it was FALSE for the pinned code
    before the repair of defect F8 (`C06_no_missed_cond_old_code_witness`). -/
def C06_no_missed_cond_full : Prop :=
  ∀ (cfg : Cfg) (s : State), Reachable cfg s → Quiescent s → WithoutWakeupContract s →
    ∀ k c, k ∈ s.queue → (s.wr k).cond = some c → evalCond s.data c = false

/-- With the contract of nsync_mu_unlock_without_wakeup respected, the only threads that can be
    asleep in a quiescent state are waiters whose conditions are false.
    PROVED: `C06_no_stuck_state` (below, after `C06_responsible`).  It was FALSE for the pinned code before
    the repair of defect F8, where a thread could be left asleep inside nsync_mu_lock on a free mutex:
    `C06_no_stuck_state_old_code_witness`. -/
def C06_no_stuck_state_full : Prop :=
  ∀ (cfg : Cfg) (s : State), Reachable cfg s → Quiescent s → WithoutWakeupContract s →
    ∀ t, Asleep s t → ∃ c k cd, s.pc t = .mwPdRet c none ∧ c.w = some k ∧ k ∈ s.queue ∧
      (s.wr k).cond = some cd ∧ evalCond s.data cd = false

/-! ## somebody is responsible for every waiter whose condition is true (repaired code) -/

/-- (I_resp) In every reachable state in which the contract of nsync_mu_unlock_without_wakeup was kept:
    if some queued waiter (on mu->waiters or on the private lists of an unlocker) has a condition that is
    true on the current data, then some thread is RESPONSIBLE: it owns a share of the mutex (it will
    release), or it is an unlocker between grab CAS and final CAS, or it is in flight (woken inside
    lock_slow with `clear` pending, or its record has been taken off the queue and it has not yet
    re-contended), or it spins in mu_try_acquire_after_timeout_or_cancel / the loop around it. -/
theorem C06_true_cond_has_responsible {cfg : Cfg} {s : State} (hr : Reachable cfg s) (hc : WithoutWakeupContract s)
    (k : Wid) (c : Cond) (hk : Queued s k) (hcd : (s.wr k).cond = some c) (hev : evalCond s.data c = true) :
    ∃ t, RespT s t :=
  (reachable_inv11 hr).nm hc ⟨k, c, hk, hcd, hev⟩

/-- MU_DESIG_WAKER is never stale: while it is set, an unlocker is between grab CAS and final CAS or a
    woken thread is in flight (this is what makes the fast paths that test the bit sound). -/
theorem C06_desig_waker_justified {cfg : Cfg} {s : State} (hr : Reachable cfg s) (hd : s.word.desig = true) :
    ∃ t, (s.pc t).unl = true ∨ InFlight s t :=
  (reachable_inv11 hr).hd hd

theorem quiescent_pc {s : State} (hq : Quiescent s) (u : Tid) :
    s.pc u = .idle ∨ (∃ c, s.pc u = .lsPRet c) ∨ ∃ c, s.pc u = .mwPdRet c none := by
  rcases hq u with ⟨a, _⟩ | ⟨c, k, a, _⟩ | ⟨c, k, a, _⟩
  · exact Or.inl a
  · exact Or.inr (Or.inl ⟨c, a⟩)
  · exact Or.inr (Or.inr ⟨c, a⟩)

/-- In a quiescent state a sleeper's record is still on mu->waiters with `waiting` set. -/
theorem quiescent_sleeper_queued {cfg : Cfg} {s : State} (hr : Reachable cfg s) (hq : Quiescent s) {t : Tid} {k : Wid}
    (hp : (s.pc t).pwait = some k) (hw : (s.pc t).waitRec = some k) (hsem : (s.wr k).sem = 0) :
    (s.wr k).waiting = true ∧ k ∈ s.queue := by
  have h9 := reachable_inv9 hr
  have hnowk : ∀ u, (s.pc u).wakeL = [] := by
    intro u
    rcases quiescent_pc hq u with a | ⟨c, a⟩ | ⟨c, a⟩ <;> rw [a] <;> rfl
  have hnosc : ∀ u, (s.pc u).scan? = none := by
    intro u
    rcases quiescent_pc hq u with a | ⟨c, a⟩ | ⟨c, a⟩ <;> rw [a] <;> rfl
  have hwt : (s.wr k).waiting = true := by
    cases e : (s.wr k).waiting with
    | true => rfl
    | false =>
      exfalso
      rcases h9.w1 t k hp e with a | ⟨u, r, rest, a⟩
      · exact a hsem
      · rcases quiescent_pc hq u with b | ⟨c, b⟩ | ⟨c, b⟩ <;> rw [b] at a <;> cases a
  refine ⟨hwt, ?_⟩
  rcases h9.w3 t k hw hwt with (a | ⟨u, sc, a, _⟩) | ⟨u, a⟩
  · exact a
  · rw [hnosc u] at a; cases a
  · rw [hnowk u] at a; cases a

/-- In a quiescent state nobody is responsible. -/
theorem quiescent_not_resp {cfg : Cfg} {s : State} (hr : Reachable cfg s) (hq : Quiescent s) (t : Tid) : ¬ RespT s t := by
  have h1 := (reachable_inv_all hr).1
  rcases hq t with ⟨a, b⟩ | ⟨c, k, a, b, d⟩ | ⟨c, k, a, b, d⟩
  · rintro (e | (e | e | ⟨x, e, _⟩) | e)
    · simp [shareOf, tshare, a, b, pcShare] at e
    · rw [a] at e; cases e
    · rw [a] at e; cases e
    · rw [a] at e; cases e
    · rw [a] at e; cases e
  · have hheld : s.held t = none := h1.held_none (by rw [a]; simp)
    have hqd := quiescent_sleeper_queued hr hq (t := t) (k := k) (by rw [a]; exact b) (by rw [a]; exact b) d
    rintro (e | (e | e | ⟨x, e, _, f⟩) | e)
    · simp [shareOf, tshare, a, hheld, pcShare] at e
    · rw [a] at e; cases e
    · rw [a] at e; cases e
    · rw [a] at e; simp only [PC.waitRec, b, Option.some.injEq] at e; subst e
      exact f (Or.inl hqd.2)
    · rw [a] at e; cases e
  · have hheld : s.held t = none := h1.held_none (by rw [a]; simp)
    have hqd := quiescent_sleeper_queued hr hq (t := t) (k := k) (by rw [a]; exact b) (by rw [a]; exact b) d
    rintro (e | (e | e | ⟨x, e, _, f⟩) | e)
    · simp [shareOf, tshare, a, hheld, pcShare] at e
    · rw [a] at e; cases e
    · rw [a] at e; cases e
    · rw [a] at e; simp only [PC.waitRec, b, Option.some.injEq] at e; subst e
      exact f (Or.inl hqd.2)
    · rw [a] at e; cases e

/-- No waiter whose condition is true is left asleep when nobody is active (model of the repaired code). -/
theorem C06_no_missed_cond : C06_no_missed_cond_full := by
  intro cfg s hr hq hc k c hk hcd
  cases hev : evalCond s.data c with
  | false => rfl
  | true =>
    obtain ⟨t, ht⟩ := C06_true_cond_has_responsible hr hc k c (Or.inl hk) hcd hev
    exact absurd ht (quiescent_not_resp hr hq t)

/-- The older, weaker form of `C06_no_stuck_state` (kept): in a quiescent state (contract kept) every sleeper's
    record is still on mu->waiters with `waiting` set — it has not been dequeued without being woken, nor
    marked woken without a semaphore post — and if the record carries a condition, the condition is false
    on the current data. -/
theorem C06_no_stuck_state_partial {cfg : Cfg} {s : State} (hr : Reachable cfg s) (hq : Quiescent s)
    (hc : WithoutWakeupContract s) (t : Tid) (ha : Asleep s t) :
    ∃ k, (s.pc t).pwait = some k ∧ k ∈ s.queue ∧ (s.wr k).waiting = true ∧
      ∀ cd, (s.wr k).cond = some cd → evalCond s.data cd = false := by
  rcases ha with ⟨c, k, a, b, d⟩ | ⟨c, k, a, b, d⟩
  all_goals
    (have hqd := quiescent_sleeper_queued hr hq (t := t) (k := k) (by rw [a]; exact b) (by rw [a]; exact b) d
     exact ⟨k, by rw [a]; exact b, hqd.2, hqd.1, fun cd hcd => C06_no_missed_cond cfg s hr hq hc k cd hqd.2 hcd⟩)

/-! ## the hints MU_WRITER_WAITING / MU_LONG_WAIT are never stale; every waiter that could run has somebody responsible -/

/-- MU_WRITER_WAITING is never stale.  While the bit is set,
    * some thread `t` justifies it — `(s.pc t).wwA`: a writer inside nsync_mu_lock_slow_ that has done its enqueue CAS
      (it is at the queue insertion, in the wait loop, or woken with `clear` pending) or a waiter of ANY mode spinning
      in mu_try_acquire_after_timeout_or_cancel (it acquires in write mode first); or `WaitW s t`: a write-mode waiter
      whose record an unlocker has taken off the queue and that has not yet re-contended — in every case the thread's
      next acquisition clears the bit (MU_WCLEAR_ON_ACQUIRE), or it queues itself again and sets it;
    * or a queued write-mode waiter could run: it has no condition, or its condition is true on the current data
      (the writer the scan of nsync_mu_unlock_slow_ passed over, mu.c:382-385).
    While a client may change the protected data (`ClientW`: the writer bit is owned by a thread that is not an
    unlocker mid-scan) the second alternative holds with a waiter WITHOUT condition: every acquisition in write mode
    clears the bit, so a justification by a true condition never outlives the section that could falsify it.
    (Defect F6 was a violation of this statement; repaired by 03d0bdc.) -/
theorem C06_writer_waiting_justified {cfg : Cfg} {s : State} (hr : Reachable cfg s) (hww : s.word.ww = true) :
    ((∃ t, (s.pc t).wwA = true ∨ WaitW s t) ∨
      ∃ k, Queued s k ∧ (s.wr k).lType = .W ∧ evalOpt s.data (s.wr k).cond = true) ∧
    (ClientW s → (∃ t, (s.pc t).wwA = true ∨ WaitW s t) ∨ ∃ k, Queued s k ∧ (s.wr k).lType = .W ∧ (s.wr k).cond = none) :=
  ⟨(reachable_Inv12 hr).ww hww, (reachable_Inv12 hr).wws hww⟩

/-- While a thread is between the acquiring CAS and the release store of mu_try_acquire_after_timeout_or_cancel
    MU_WRITER_WAITING is clear, the `old_word` it will store has MU_WRITER_WAITING masked (03d0bdc), and MU_LONG_WAIT in it
    only if the bit is set in the word at this moment: the store cannot leave a stale hint.
    (STATEMENT CHANGED with the repair of F9: before, `old_word` had passed a test that included MU_LONG_WAIT and the third
    clause read `(…).lw = false`; a thread that has been woken now acquires although MU_LONG_WAIT is set, and stores the
    bit back — it is still set, nobody can clear it while this thread holds the spinlock and the writer bit.) -/
theorem C06_timeout_store_clean {cfg : Cfg} {s : State} (hr : Reachable cfg s) (t : Tid) (c : MW) (old : Word) (ok : Bool)
    (hpc : s.pc t = .mtStRel c old ok) :
    s.word.ww = false ∧ (mtRelWord (if ok then some c.l else none) old).ww = false ∧
      ((mtRelWord (if ok then some c.l else none) old).lw = true → s.word.lw = true) := by
  have h12 := reachable_Inv12 hr
  refine ⟨h12.mtw t old (by rw [hpc]; rfl), ?_, ?_⟩
  · unfold mtRelWord; (repeat' split) <;> rfl
  · intro hl
    refine h12.mtlw t old (by rw [hpc]; rfl) ?_
    unfold mtRelWord at hl; (repeat' split at hl) <;> exact hl

/-- MU_LONG_WAIT is never stale: while it is set some thread inside nsync_mu_lock_slow_ has its `long_wait` local set
    (it clears the bit when it acquires, mu.c:66), and when the spinlock is free that thread is woken / in flight, or its
    record is on the queue. -/
theorem C06_long_wait_justified {cfg : Cfg} {s : State} (hr : Reachable cfg s) (hlw : s.word.lw = true) :
    ∃ t c, (s.pc t).sl? = some c ∧ c.lwl = true ∧
      (s.word.spin = false → InFlight s t ∨ ∃ k, (s.pc t).lsRec = some k ∧ Queued s k) := by
  obtain ⟨t, c, h1, h2⟩ := (reachable_Inv12 hr).lw hlw
  refine ⟨t, c, h1, h2, fun hsp => ?_⟩
  rcases lwl_cases (reachable_inv8 hr t) h1 h2 with a | a | ⟨k, a⟩
  · exact Or.inl (Or.inl a)
  · have := (reachable_inv3 hr).no_spin_of_free hsp t; rw [a] at this; cases this
  · by_cases hq : Queued s k
    · exact Or.inr ⟨k, a, hq⟩
    · exact Or.inl (Or.inr ⟨k, (lsRec_waitRec a).1, (lsRec_waitRec a).2, hq⟩)

/-- (I_resp), full form.  In every reachable state in which the contract of nsync_mu_unlock_without_wakeup was kept:
    if some waiter on mu->waiters or on the private lists of an unlocker could run — it has NO condition (a thread
    inside nsync_mu_lock / nsync_mu_rlock, or re-acquiring for nsync_mu_wait) or its condition is true on the current
    data — then some thread is responsible: it owns a share of the mutex (it will release, and its release takes the
    slow path unless a designated waker is in flight or MU_ALL_FALSE is set — and then every queued waiter has a false
    condition), it is an unlocker between grab CAS and final CAS, it is a woken thread in flight, or it spins after a
    timeout in mu_try_acquire_after_timeout_or_cancel. -/
theorem C06_responsible {cfg : Cfg} {s : State} (hr : Reachable cfg s) (hc : WithoutWakeupContract s)
    (k : Wid) (hk : Queued s k) (he : evalOpt s.data (s.wr k).cond = true) : ∃ t, RespT s t := by
  cases hcd : (s.wr k).cond with
  | none => exact (reachable_Inv12 hr).nm hc (Or.inl ⟨k, hk, hcd⟩)
  | some c => rw [hcd] at he; exact C06_true_cond_has_responsible hr hc k c hk hcd he

/-- The same while a thread is between its enqueue CAS (mu.c:76) and the queue insertion. -/
theorem C06_responsible_pending {cfg : Cfg} {s : State} (hr : Reachable cfg s) (hc : WithoutWakeupContract s)
    (t : Tid) (c : SL) (hpc : s.pc t = .lsSt c) : ∃ u, RespT s u :=
  (reachable_Inv12 hr).nm hc (Or.inr ⟨t, by rw [hpc]; rfl⟩)

/-- The record of a thread waiting inside nsync_mu_lock_slow_ has no condition (mu.c:83). -/
theorem C06_lock_slow_record {cfg : Cfg} {s : State} (hr : Reachable cfg s) (t : Tid) (k : Wid)
    (h : (s.pc t).lsRec = some k) : (s.wr k).cond = none :=
  (reachable_Inv12 hr).rcn t k h

/-- There is no reachable quiescent state (every thread idle holding nothing, or asleep) in which, the contract of
    nsync_mu_unlock_without_wakeup having been kept, anybody sleeps on the mutex except nsync_mu_wait waiters (without
    deadline) whose records are on mu->waiters and whose conditions are false on the protected data.  In particular no
    thread sleeps inside nsync_mu_lock / nsync_mu_rlock, and none inside the re-acquisition of nsync_mu_wait. -/
theorem C06_no_stuck_state : C06_no_stuck_state_full := by
  intro cfg s hr hq hc t ha
  have h12 := reachable_Inv12 hr
  have noResp : (∃ u, RespT s u) → False := fun ⟨u, hu⟩ => quiescent_not_resp hr hq u hu
  rcases ha with ⟨c, k, a, b, d⟩ | ⟨c, k, a, b, d⟩
  · exfalso
    have hqd := quiescent_sleeper_queued hr hq (t := t) (k := k) (by rw [a]; exact b) (by rw [a]; exact b) d
    have hcn := h12.rcn t k (by rw [a]; exact b)
    exact noResp (h12.nm hc (Or.inl ⟨k, Or.inl hqd.2, hcn⟩))
  · have hqd := quiescent_sleeper_queued hr hq (t := t) (k := k) (by rw [a]; exact b) (by rw [a]; exact b) d
    cases hcd : (s.wr k).cond with
    | none => exact (noResp (h12.nm hc (Or.inl ⟨k, Or.inl hqd.2, hcd⟩))).elim
    | some cd => exact ⟨c, k, cd, a, b, hqd.2, hcd, C06_no_missed_cond cfg s hr hq hc k cd hqd.2 hcd⟩

/-- Corollary: in a quiescent state (contract kept) no waiter without a condition is queued at all. -/
theorem C06_quiescent_no_plain_waiter {cfg : Cfg} {s : State} (hr : Reachable cfg s) (hq : Quiescent s)
    (hc : WithoutWakeupContract s) (k : Wid) (hk : k ∈ s.queue) : (s.wr k).cond ≠ none := by
  intro hcd
  obtain ⟨u, hu⟩ := (reachable_Inv12 hr).nm hc (Or.inl ⟨k, Or.inl hk, hcd⟩)
  exact quiescent_not_resp hr hq u hu

/-! ### witnesses for the hint invariants (harness executions of the real library) -/

set_option maxRecDepth 4096 in
/-- MU_LONG_WAIT (`traceLongWait`, Proofs/MuCTraceLW.lean, 792 events): thread 0 has been woken 30 times inside
    nsync_mu_lock without getting the mutex; after its 30th re-queue the word is 101 = MU_WLOCK|MU_WAITING|
    MU_WRITER_WAITING|MU_LONG_WAIT, thread 0 is in the wait loop of lock_slow with `long_wait` set, its record (no
    condition) is on the queue, thread 1 holds the mutex: the hypotheses of `C06_long_wait_justified`,
    `C06_writer_waiting_justified` (first alternative: thread 0 is a writer in lock_slow) and `C06_responsible`
    (thread 1, a holder) are satisfied by a reachable state. -/
example : stateAfter ⟨false⟩ traceLongWait (fun s => s.word.lw && s.word.ww && encode s.word == 101 && s.queue == [0]
    && (s.wr 0).cond == none && !s.nwViol && (s.pc 0).wwA
    && (match (s.pc 0).sl? with | some c => c.lwl && c.wc == 30 | none => false) && (s.pc 0).lsRec == some 0
    && s.wOwner == some 1) = true := by decide

set_option maxRecDepth 4096 in
/-- the bit is set by the enqueue CAS of that re-queue (event 789: 9 → 103) and not before -/
example : stateAfter ⟨false⟩ (traceLongWait.take 788) (fun s => !s.word.lw) = true := by decide

/-- The writer the scan passes over.  A reader-mode waiter (thread 0, x0 >= 1) and a writer-mode waiter (thread 1,
    x0 == 1) are queued; thread 2 sets x0 := 1; its nsync_mu_unlock wakes the reader and PASSES the writer although its
    condition is true (mu.c:382-385), leaving MU_WRITER_WAITING set (event 61: word 60 = MU_WAITING|MU_DESIG_WAKER|
    MU_CONDITION|MU_WRITER_WAITING).  Scenario (seed 1, strategy 2):
      cond c0 ge x0 1 / cond c1 eq x0 1
      fiber rlock mu0 ; muwait mu0 c0 inf ; runlock mu0
      fiber after_blocked 0 ; lock mu0 ; muwait mu0 c1 inf ; unlock mu0
      fiber after_blocked 1 ; lock mu0 ; wr x0 1 ; unlock mu0 -/
def tracePassedWriter : List Event := [
 .call 0 .rlock,
 .cas 0 .acq .word 0 256 0 true,
 .ret 0 .rlock .void,
 .call 0 (.wait (some { fn := .ge, k := 0, var := 0, val := 1, hasEq := false }) none false),
 .ld 0 .rlx .word 256,
 .cond 0 .ge 0 false,
 .st 0 .rlx (.waiting 0) 1 0,
 .ld 0 .rlx (.rc 0) 0,
 .ld 0 .rlx .word 256,
 .cas 0 .acq .word 256 278 256 true,
 .ld 0 .rlx .word 278,
 .cas 0 .rel .word 278 20 278 true,
 .ld 0 .acq (.waiting 0) 1,
 .semPdEnter 0 0 none,
 .call 1 .lock,
 .cas 1 .acq .word 0 1 20 false,
 .ld 1 .rlx .word 20,
 .cas 1 .acq .word 20 21 20 true,
 .ret 1 .lock .void,
 .call 1 (.wait (some { fn := .eq, k := 1, var := 0, val := 1, hasEq := false }) none false),
 .ld 1 .rlx .word 21,
 .cond 1 .eq 1 false,
 .st 1 .rlx (.waiting 1) 1 0,
 .ld 1 .rlx (.rc 1) 0,
 .ld 1 .rlx .word 21,
 .cas 1 .acq .word 21 23 21 true,
 .ld 1 .rlx .word 23,
 .cas 1 .rel .word 23 21 23 true,
 .ld 1 .rlx .word 21,
 .cas 1 .ar .word 21 31 21 true,
 .ld 1 .rlx .word 31,
 .cas 1 .rel .word 31 29 31 true,
 .cond 1 .ge 0 false,
 .cond 1 .eq 1 false,
 .ld 1 .rlx .word 29,
 .cas 1 .acq .word 29 31 29 true,
 .ld 1 .rlx .word 31,
 .cas 1 .rel .word 31 148 31 true,
 .ld 1 .acq (.waiting 1) 1,
 .semPdEnter 1 1 none,
 .call 2 .lock,
 .cas 2 .acq .word 0 1 148 false,
 .ld 2 .rlx .word 148,
 .cas 2 .acq .word 148 149 148 true,
 .ret 2 .lock .void,
 .dataW 2 0 1,
 .call 2 .unlock,
 .cas 2 .rel .word 1 0 149 false,
 .ld 2 .rlx .word 149,
 .ld 2 .rlx .word 149,
 .cas 2 .ar .word 149 159 149 true,
 .ld 2 .rlx .word 159,
 .cas 2 .rel .word 159 157 159 true,
 .cond 2 .ge 0 true,
 .ld 2 .rlx (.rc 0) 0,
 .cas 2 .rlx (.rc 0) 0 1 0 true,
 .cond 2 .eq 1 true,
 .ld 2 .rlx .word 157,
 .cas 2 .acq .word 157 159 157 true,
 .ld 2 .rlx .word 159,
 .cas 2 .rel .word 159 60 159 true,
 .st 2 .rel (.waiting 0) 0 1,
 .semV 2 0,
 .ret 2 .unlock .void,
 .semPdRet 0 0 false,
 .ld 0 .rlx (.waiting 0) 0,
 .ld 0 .acq (.waiting 0) 0,
 .ld 0 .rlx .word 60,
 .cas 0 .acq .word 60 308 60 true,
 .cond 0 .ge 0 true,
 .ret 0 (.wait (some { fn := .ge, k := 0, var := 0, val := 1, hasEq := false }) none false) (.outc .ok),
 .call 0 .runlock,
 .cas 0 .rel .word 256 0 308 false,
 .ld 0 .rlx .word 308,
 .ld 0 .rlx .word 308,
 .cas 0 .ar .word 308 63 308 true,
 .ld 0 .rlx .word 63,
 .cas 0 .rel .word 63 61 63 true,
 .cond 0 .eq 1 true,
 .ld 0 .rlx (.rc 1) 0,
 .cas 0 .rlx (.rc 1) 0 1 0 true,
 .ld 0 .rlx .word 61,
 .cas 0 .acq .word 61 63 61 true,
 .ld 0 .rlx .word 63,
 .cas 0 .rel .word 63 8 63 true,
 .st 0 .rel (.waiting 1) 0 1,
 .semV 0 1,
 .ret 0 .runlock .void,
 .semPdRet 1 1 false,
 .ld 1 .rlx (.waiting 1) 0,
 .ld 1 .acq (.waiting 1) 0,
 .ld 1 .rlx .word 8,
 .cas 1 .acq .word 8 1 8 true,
 .cond 1 .eq 1 true,
 .ret 1 (.wait (some { fn := .eq, k := 1, var := 0, val := 1, hasEq := false }) none false) (.outc .ok),
 .call 1 .unlock,
 .cas 1 .rel .word 1 0 1 true,
 .ret 1 .unlock .void

]
example : accepts ⟨false⟩ tracePassedWriter = true ∧ accepts ⟨true⟩ tracePassedWriter = true := by decide
/-- After the reader has re-acquired (event 69, word 308 = one reader + the four bits) MU_WRITER_WAITING is justified by
    the SECOND alternative of `C06_writer_waiting_justified` only: the queued writer-mode waiter (record 1) has a
    condition that is true on the data; no thread is inside lock_slow or spinning after a timeout, the reader (a
    holder, not a client writer) is responsible for it (`C06_responsible`). -/
example : stateAfter ⟨false⟩ (tracePassedWriter.take 69) (fun s => s.word.ww && encode s.word == 308 && s.queue == [1]
    && (s.wr 1).lType == .W && (s.wr 1).cond.isSome && evalOpt s.data (s.wr 1).cond && !s.nwViol
    && !(s.pc 0).wwA && !(s.pc 1).wwA && !(s.pc 2).wwA && s.wOwner == none && s.rOwners == [0]) = true := by decide
/-- MU_WRITER_WAITING set by a timed-out waiter that spins (`traceReaderTimeout`, event 24: 21 → 53): the third kind
    of justification — thread 0 is in the loop of mu_try_acquire_after_timeout_or_cancel. -/
example : stateAfter ⟨false⟩ (traceReaderTimeout.take 25) (fun s => s.word.ww && (s.pc 0).wwA && (s.pc 0).timedOut
    && s.wOwner == some 1) = true := by decide
/-- … and the release store of that path leaves the bit clear (event 45: 151 → 404). -/
example : stateAfter ⟨false⟩ (traceReaderTimeout.take 46) (fun s => !s.word.ww && !s.word.lw) = true := by decide

/-! ## defect F8 of the pinned code (repaired in /repo by commit ace4c21; the model follows the repaired code)

`stepOld` / `runOld` are the acceptor for mu_wait.c as it was: `had_waiters` computed as
`(old_word & (MU_DESIG_WAKER|MU_WAITING)) == MU_WAITING` at the enqueue CAS (mu_wait.c:201) and the
release loop (mu_wait.c:222-229) not looking at MU_DESIG_WAKER again.  They differ from `step` / `run`
at these two program points only.  The two traces below are harness executions of the pinned library
(outcome `stuck`); the current acceptor rejects them at the waiter's release load. -/

def stepOld (cfg : Cfg) (s : State) : Event → Except String State
  | .cas t o loc exp new obs ok =>
    match s.pc t with
    | .mwEnqCas c old =>
      match c.w with
      | none => .error "no waiter record"
      | some k =>
        let nw := mwEnqWord c.cond.isSome old
        let c' := { c with hadW := old.waiting && !old.desig, first := false }
        let s1 := { s with word := nw, sp := some t }
        casWord s o .acq loc exp new obs ok old nw
          (setPc (if c.first then enqLast s1 k else enqFirst s1 k) t (.mwRelLd c')) (setPc s t (.mwEnqLd c))
    | _ => step cfg s (.cas t o loc exp new obs ok)
  | .ld t o loc obs =>
    match s.pc t with
    | .mwRelLd c =>
      if !hasShare c.l s.word then .error "release loop of mu_wait on a word without the caller's share"
      else
        let sub := subWord c.l s.word
        let add0 := !sub.wlock && sub.readers == 0 && c.hadW
        ldWord s o loc obs (setPc s t (.mwRelCas c s.word add0))
    | _ => step cfg s (.ld t o loc obs)
  | e => step cfg s e

def runOld (cfg : Cfg) (s : State) : List Event → Except String State
  | [] => .ok s
  | e :: es =>
    match stepOld cfg s e with
    | .ok s' => runOld cfg s' es
    | .error m => .error m

/-- DEFECT F8 (lost wake-up in nsync_mu_wait_with_deadline, reader mode; harness execution of the
    pinned library, outcome `stuck`, /verif/corpus/C06/f8_muwait_stale_had_waiters.txt).
    Thread 0 waits in read mode for x0 >= 1; thread 1 sets x0 := 1 and its nsync_mu_unlock wakes 0 and
    leaves MU_DESIG_WAKER set (word 8, event 33); thread 2 takes a fresh read lock (8 → 264: the bit
    stays); thread 3 (a writer) blocks behind it and queues itself (events 43-52); thread 2 calls
    nsync_mu_wait on x1 == 1 and queues itself (event 58: 300 → 318) — `had_waiters` (mu_wait.c:201) is
    FALSE because MU_DESIG_WAKER is set; it still holds the spinlock and its read lock when thread 0
    acquires in read mode (318 → 566, clearing MU_DESIG_WAKER), returns from its wait and runlocks on the
    fast path (two readers: 566 → 310); now thread 2 releases (event 72: 310 → 52): it is the last
    reader, waiters are queued, there is no designated waker — but the stale `had_waiters` makes it
    release WITHOUT nsync_mu_unlock_slow_.  Final state: word 52 = MU_WAITING|MU_CONDITION|
    MU_WRITER_WAITING, no lock held, everybody idle or asleep: the writer 3 sleeps in nsync_mu_lock for
    ever (and 2 waits for the x1 := 1 that 3 would have written). -/
def traceF8 : List Event := [
 .call 0 .rlock,
 .cas 0 .acq .word 0 256 0 true,
 .ret 0 .rlock .void,
 .call 0 (.wait (some { fn := .ge, k := 3, var := 0, val := 1, hasEq := false }) none false),
 .ld 0 .rlx .word 256,
 .cond 0 .ge 3 false,
 .st 0 .rlx (.waiting 0) 1 0,
 .ld 0 .rlx (.rc 0) 0,
 .ld 0 .rlx .word 256,
 .cas 0 .acq .word 256 278 256 true,
 .ld 0 .rlx .word 278,
 .cas 0 .rel .word 278 20 278 true,
 .ld 0 .acq (.waiting 0) 1,
 .semPdEnter 0 0 none,
 .call 1 .lock,
 .cas 1 .acq .word 0 1 20 false,
 .ld 1 .rlx .word 20,
 .cas 1 .acq .word 20 21 20 true,
 .ret 1 .lock .void,
 .dataW 1 0 1,
 .call 1 .unlock,
 .cas 1 .rel .word 1 0 21 false,
 .ld 1 .rlx .word 21,
 .ld 1 .rlx .word 21,
 .cas 1 .ar .word 21 31 21 true,
 .ld 1 .rlx .word 31,
 .cas 1 .rel .word 31 29 31 true,
 .cond 1 .ge 3 true,
 .ld 1 .rlx (.rc 0) 0,
 .cas 1 .rlx (.rc 0) 0 1 0 true,
 .ld 1 .rlx .word 29,
 .cas 1 .acq .word 29 31 29 true,
 .ld 1 .rlx .word 31,
 .cas 1 .rel .word 31 8 31 true,
 .st 1 .rel (.waiting 0) 0 1,
 .semV 1 0,
 .ret 1 .unlock .void,
 .call 2 .rlock,
 .cas 2 .acq .word 0 256 8 false,
 .ld 2 .rlx .word 8,
 .cas 2 .acq .word 8 264 8 true,
 .ret 2 .rlock .void,
 .call 2 (.wait (some { fn := .eq, k := 4, var := 1, val := 1, hasEq := false }) none false),
 .call 3 .lock,
 .cas 3 .acq .word 0 1 264 false,
 .ld 3 .rlx .word 264,
 .ld 3 .rlx .word 264,
 .cas 3 .acq .word 264 302 264 true,
 .st 3 .rlx (.waiting 1) 1 0,
 .ld 3 .rlx .word 302,
 .cas 3 .rel .word 302 300 302 true,
 .ld 3 .acq (.waiting 1) 1,
 .semPEnter 3 1,
 .ld 2 .rlx .word 300,
 .cond 2 .eq 4 false,
 .st 2 .rlx (.waiting 2) 1 0,
 .ld 2 .rlx (.rc 2) 0,
 .ld 2 .rlx .word 300,
 .cas 2 .acq .word 300 318 300 true,
 .semPdRet 0 0 false,
 .ld 0 .rlx (.waiting 0) 0,
 .ld 0 .acq (.waiting 0) 0,
 .ld 0 .rlx .word 318,
 .cas 0 .acq .word 318 566 318 true,
 .cond 0 .ge 3 true,
 .ret 0 (.wait (some { fn := .ge, k := 3, var := 0, val := 1, hasEq := false }) none false) (.outc .ok),
 .call 0 .runlock,
 .cas 0 .rel .word 256 0 566 false,
 .ld 0 .rlx .word 566,
 .cas 0 .rel .word 566 310 566 true,
 .ret 0 .runlock .void,
 .ld 2 .rlx .word 310,
 .cas 2 .rel .word 310 52 310 true,
 .ld 2 .acq (.waiting 2) 1,
 .semPdEnter 2 2 none
]
/-- the current acceptor (repaired code) rejects the trace: at its release load (event 71) the waiter
    must now go on to nsync_mu_unlock_slow_ -/
example : accepts ⟨false⟩ traceF8 = false ∧ accepts ⟨false⟩ (traceF8.take 71) = true := by decide

/-- `Asleep`, decidably. -/
def asleepB (s : State) (t : Tid) : Bool :=
  match s.pc t with
  | .lsPRet c => (match c.w with | some k => (s.wr k).sem == 0 | none => false)
  | .mwPdRet c none => (match c.w with | some k => (s.wr k).sem == 0 | none => false)
  | _ => false

theorem asleep_of_asleepB {s : State} {t : Tid} (h : asleepB s t = true) : Asleep s t := by
  unfold asleepB at h
  split at h
  · rename_i c hpc
    split at h
    · rename_i k hk; exact Or.inl ⟨c, k, hpc, hk, by simpa using h⟩
    · cases h
  · rename_i c hpc
    split at h
    · rename_i k hk; exact Or.inr ⟨c, k, hpc, hk, by simpa using h⟩
    · cases h
  · cases h

/-- What the pinned code did (accepted by `runOld`): threads 0 and 1 idle holding nothing, thread 2
    asleep in nsync_mu_wait, thread 3 asleep INSIDE nsync_mu_lock (program point `lsPRet`, semaphore 0),
    contract ghost clean, word 52 with no lock bit, nobody owns anything — no thread can move. -/
theorem C06_no_stuck_state_old_code_witness :
    ∃ s, runOld ⟨false⟩ init traceF8 = .ok s ∧
      (s.pc 0 = .idle ∧ s.held 0 = none) ∧ (s.pc 1 = .idle ∧ s.held 1 = none) ∧ Asleep s 2 ∧ Asleep s 3 ∧
      (∃ c, s.pc 3 = .lsPRet c) ∧ s.nwViol = false ∧ encode s.word = 52 ∧ s.queue = [1, 2] ∧
      s.wOwner = none ∧ s.rOwners = [] ∧ s.sp = none := by
  have key : (match runOld ⟨false⟩ init traceF8 with
      | .ok s => (s.pc 0 == .idle && s.held 0 == none) && (s.pc 1 == .idle && s.held 1 == none) && asleepB s 2 && asleepB s 3
          && !s.nwViol && encode s.word == 52 && s.queue == [1, 2] && s.wOwner == none && s.rOwners == [] && s.sp == none
          && (match s.pc 3 with | .lsPRet _ => true | _ => false)
      | .error _ => false) = true := by decide
  split at key
  · rename_i s hs
    simp only [Bool.and_eq_true, beq_iff_eq, Bool.not_eq_true'] at key
    obtain ⟨⟨⟨⟨⟨⟨⟨⟨⟨⟨⟨h0, h0'⟩, ⟨h1, h1'⟩⟩, h2⟩, h3⟩, hnv⟩, hw⟩, hq⟩, ho⟩, hro⟩, hsp⟩, hpc3⟩ := key
    refine ⟨s, hs, ⟨h0, h0'⟩, ⟨h1, h1'⟩, asleep_of_asleepB h2, asleep_of_asleepB h3, ?_, hnv, hw, hq, ho, hro, hsp⟩
    split at hpc3
    · rename_i c hc; exact ⟨c, hc⟩
    · cases hpc3
  · cases key

/-- DEFECT F8, variant whose victim is a nsync_mu_wait waiter with a TRUE condition (harness execution of
    the unmodified library, outcome `stuck`, /verif/corpus/C06/f8_muwait_true_condition_left_asleep.txt).
    Queue [0: reader, x0 >= 1; 1: WRITER, x0 == 1].  Thread 2 sets x0 := 1; its nsync_mu_unlock evaluates
    both conditions true, wakes the reader 0 and passes the writer 1 (MU_WRITER_WAITING and MU_DESIG_WAKER
    set, word 60).  Thread 3 barges in (lock; unlock on the fast path): its acquire clears
    MU_WRITER_WAITING (word 28), so the fresh reader 4 gets a read lock.  4 calls nsync_mu_wait on
    x1 == 1 and queues itself with `had_waiters` = false (MU_DESIG_WAKER set); before its release CAS the
    designated waker 0 acquires in read mode, returns and runlocks on the fast path; 4 releases without
    nsync_mu_unlock_slow_.  Final state: word 20, no lock held, everybody idle or asleep, waiter 1 asleep
    in nsync_mu_wait although its condition x0 == 1 was made true by a critical section that ended with
    nsync_mu_unlock (and 4 waits for the x1 := 1 that 1 would write after its wait).  Repaired by ace4c21. -/
def traceF8b : List Event := [
 .call 0 .rlock,
 .cas 0 .acq .word 0 256 0 true,
 .ret 0 .rlock .void,
 .call 0 (.wait (some { fn := .ge, k := 3, var := 0, val := 1, hasEq := false }) none false),
 .ld 0 .rlx .word 256,
 .cond 0 .ge 3 false,
 .st 0 .rlx (.waiting 0) 1 0,
 .ld 0 .rlx (.rc 0) 0,
 .ld 0 .rlx .word 256,
 .cas 0 .acq .word 256 278 256 true,
 .ld 0 .rlx .word 278,
 .cas 0 .rel .word 278 20 278 true,
 .ld 0 .acq (.waiting 0) 1,
 .semPdEnter 0 0 none,
 .call 1 .lock,
 .cas 1 .acq .word 0 1 20 false,
 .ld 1 .rlx .word 20,
 .cas 1 .acq .word 20 21 20 true,
 .ret 1 .lock .void,
 .call 1 (.wait (some { fn := .eq, k := 0, var := 0, val := 1, hasEq := false }) none false),
 .ld 1 .rlx .word 21,
 .cond 1 .eq 0 false,
 .st 1 .rlx (.waiting 1) 1 0,
 .ld 1 .rlx (.rc 1) 0,
 .ld 1 .rlx .word 21,
 .cas 1 .acq .word 21 23 21 true,
 .ld 1 .rlx .word 23,
 .cas 1 .rel .word 23 21 23 true,
 .ld 1 .rlx .word 21,
 .cas 1 .ar .word 21 31 21 true,
 .ld 1 .rlx .word 31,
 .cas 1 .rel .word 31 29 31 true,
 .cond 1 .ge 3 false,
 .cond 1 .eq 0 false,
 .ld 1 .rlx .word 29,
 .cas 1 .acq .word 29 31 29 true,
 .ld 1 .rlx .word 31,
 .cas 1 .rel .word 31 148 31 true,
 .ld 1 .acq (.waiting 1) 1,
 .semPdEnter 1 1 none,
 .call 2 .lock,
 .cas 2 .acq .word 0 1 148 false,
 .ld 2 .rlx .word 148,
 .cas 2 .acq .word 148 149 148 true,
 .ret 2 .lock .void,
 .dataW 2 0 1,
 .call 2 .unlock,
 .cas 2 .rel .word 1 0 149 false,
 .ld 2 .rlx .word 149,
 .ld 2 .rlx .word 149,
 .cas 2 .ar .word 149 159 149 true,
 .ld 2 .rlx .word 159,
 .cas 2 .rel .word 159 157 159 true,
 .cond 2 .ge 3 true,
 .ld 2 .rlx (.rc 0) 0,
 .cas 2 .rlx (.rc 0) 0 1 0 true,
 .cond 2 .eq 0 true,
 .ld 2 .rlx .word 157,
 .cas 2 .acq .word 157 159 157 true,
 .ld 2 .rlx .word 159,
 .cas 2 .rel .word 159 60 159 true,
 .st 2 .rel (.waiting 0) 0 1,
 .semV 2 0,
 .ret 2 .unlock .void,
 .call 3 .lock,
 .cas 3 .acq .word 0 1 60 false,
 .ld 3 .rlx .word 60,
 .cas 3 .acq .word 60 29 60 true,
 .ret 3 .lock .void,
 .call 3 .unlock,
 .cas 3 .rel .word 1 0 29 false,
 .ld 3 .rlx .word 29,
 .cas 3 .rel .word 29 28 29 true,
 .ret 3 .unlock .void,
 .call 4 .rlock,
 .cas 4 .acq .word 0 256 28 false,
 .ld 4 .rlx .word 28,
 .cas 4 .acq .word 28 284 28 true,
 .ret 4 .rlock .void,
 .call 4 (.wait (some { fn := .eq, k := 4, var := 1, val := 1, hasEq := false }) none false),
 .ld 4 .rlx .word 284,
 .cond 4 .eq 4 false,
 .st 4 .rlx (.waiting 2) 1 0,
 .ld 4 .rlx (.rc 2) 0,
 .ld 4 .rlx .word 284,
 .cas 4 .acq .word 284 286 284 true,
 .semPdRet 0 0 false,
 .ld 0 .rlx (.waiting 0) 0,
 .ld 0 .acq (.waiting 0) 0,
 .ld 0 .rlx .word 286,
 .cas 0 .acq .word 286 534 286 true,
 .cond 0 .ge 3 true,
 .ret 0 (.wait (some { fn := .ge, k := 3, var := 0, val := 1, hasEq := false }) none false) (.outc .ok),
 .call 0 .runlock,
 .cas 0 .rel .word 256 0 534 false,
 .ld 0 .rlx .word 534,
 .cas 0 .rel .word 534 278 534 true,
 .ret 0 .runlock .void,
 .ld 4 .rlx .word 278,
 .cas 4 .rel .word 278 20 278 true,
 .ld 4 .acq (.waiting 2) 1,
 .semPdEnter 4 2 none
]
example : accepts ⟨false⟩ traceF8b = false := by decide

/-- What the pinned code did (accepted by `runOld`): everybody idle or asleep, word 20 with no lock bit,
    contract ghost clean — and waiter 1 is queued, asleep, with a condition that is TRUE on the data. -/
theorem C06_no_missed_cond_old_code_witness :
    ∃ s, runOld ⟨false⟩ init traceF8b = .ok s ∧
      (s.pc 0 = .idle ∧ s.held 0 = none) ∧ Asleep s 1 ∧ (s.pc 2 = .idle ∧ s.held 2 = none) ∧
      (s.pc 3 = .idle ∧ s.held 3 = none) ∧ Asleep s 4 ∧ s.nwViol = false ∧ encode s.word = 20 ∧ s.queue = [1, 2] ∧
      s.wOwner = none ∧ s.rOwners = [] ∧ s.sp = none ∧ ∃ c, (s.wr 1).cond = some c ∧ evalCond s.data c = true := by
  have key : (match runOld ⟨false⟩ init traceF8b with
      | .ok s => (s.pc 0 == .idle && s.held 0 == none) && asleepB s 1 && (s.pc 2 == .idle && s.held 2 == none)
          && (s.pc 3 == .idle && s.held 3 == none) && asleepB s 4
          && !s.nwViol && encode s.word == 20 && s.queue == [1, 2] && s.wOwner == none && s.rOwners == [] && s.sp == none
          && (match (s.wr 1).cond with | some c => evalCond s.data c | none => false)
      | .error _ => false) = true := by decide
  split at key
  · rename_i s hs
    simp only [Bool.and_eq_true, beq_iff_eq, Bool.not_eq_true'] at key
    obtain ⟨⟨⟨⟨⟨⟨⟨⟨⟨⟨⟨⟨h0, h0'⟩, h1⟩, ⟨h2, h2'⟩⟩, ⟨h3, h3'⟩⟩, h4⟩, hnv⟩, hw⟩, hq⟩, ho⟩, hro⟩, hsp⟩, hc⟩ := key
    refine ⟨s, hs, ⟨h0, h0'⟩, asleep_of_asleepB h1, ⟨h2, h2'⟩, ⟨h3, h3'⟩, asleep_of_asleepB h4, hnv, hw, hq, ho, hro, hsp, ?_⟩
    split at hc
    · rename_i c hcd; exact ⟨c, hcd, hc⟩
    · cases hc
  · cases key

/-! ## non-vacuity of the statements about quiescent states and responsibility -/

/-- Non-vacuity of `C06_no_missed_cond` and `C06_no_stuck_state_partial`: the hypotheses hold in a state of a
    harness execution of the real library (`traceNoWakeup`, 44 events: thread 1 has released with
    nsync_mu_unlock_without_wakeup) — reachable, quiescent for EVERY thread id (the threads that take no
    step are idle by `run_other`), contract kept, thread 0 asleep in nsync_mu_wait with its record, which
    carries a condition, on the queue. -/
theorem C06_quiescent_witness :
    ∃ s, Reachable ⟨false⟩ s ∧ Quiescent s ∧ WithoutWakeupContract s ∧ Asleep s 0 ∧
      ∃ c, 0 ∈ s.queue ∧ (s.wr 0).cond = some c := by
  have key : (match run ⟨false⟩ init (traceNoWakeup.take 44) with
      | .ok s => asleepB s 0 && (s.pc 1 == .idle && s.held 1 == none) && !s.nwViol && s.queue == [0] && (s.wr 0).cond.isSome
      | .error _ => false) = true := by decide
  have htid : (traceNoWakeup.take 44).all (fun e => match e.tid with | some u => decide (u < 2) | none => true) = true := by decide
  split at key
  · rename_i s hs
    simp only [Bool.and_eq_true, beq_iff_eq, Bool.not_eq_true'] at key
    obtain ⟨⟨⟨⟨h0, h1, h1'⟩, hnv⟩, hq⟩, hc⟩ := key
    refine ⟨s, ⟨_, hs⟩, ?_, hnv, asleep_of_asleepB h0, ?_⟩
    · intro t
      by_cases e0 : t = 0
      · subst e0; exact Or.inr (asleep_of_asleepB h0)
      · by_cases e1 : t = 1
        · subst e1; exact Or.inl ⟨h1, h1'⟩
        · left
          have := run_other (cfg := ⟨false⟩) t (traceNoWakeup.take 44) init s (by
            intro e he hte
            have := List.all_eq_true.mp htid e he
            rw [hte] at this
            simp only [decide_eq_true_eq] at this
            have ar : ∀ n : Nat, n < 2 → n ≠ 0 → n ≠ 1 → False := by omega
            exact ar t this e0 e1) hs
          exact ⟨this.1, this.2⟩
    · obtain ⟨c, hc'⟩ := Option.isSome_iff_exists.mp hc
      exact ⟨c, by rw [hq]; simp, hc'⟩
  · cases key

example : ∃ s, Reachable ⟨false⟩ s ∧ Quiescent s ∧ ∃ c, 0 ∈ s.queue ∧ (s.wr 0).cond = some c ∧ evalCond s.data c = false := by
  obtain ⟨s, hr, hq, hc, _, c, hk, hcd⟩ := C06_quiescent_witness
  exact ⟨s, hr, hq, c, hk, hcd, C06_no_missed_cond _ s hr hq hc 0 c hk hcd⟩

example : ∃ s k, Reachable ⟨false⟩ s ∧ Asleep s 0 ∧ (s.pc 0).pwait = some k ∧ k ∈ s.queue ∧ (s.wr k).waiting = true := by
  obtain ⟨s, hr, hq, hc, ha, _⟩ := C06_quiescent_witness
  obtain ⟨k, h1, h2, h3, _⟩ := C06_no_stuck_state_partial hr hq hc 0 ha
  exact ⟨s, k, hr, ha, h1, h2, h3⟩

/-- Non-vacuity of `C06_desig_waker_justified` / `C06_true_cond_has_responsible`: after 60 events of `traceF8b`
    (a harness execution; the current model accepts this prefix) MU_DESIG_WAKER is set, the contract
    ghost is clean and a waiter on mu->waiters has a condition that is true on the data. -/
example : stateAfter ⟨false⟩ (traceF8b.take 60) (fun s => s.word.desig && !s.nwViol &&
    s.queue.any (fun k => match (s.wr k).cond with | some c => evalCond s.data c | none => false)) = true := by decide

/-- When nsync_mu_unlock_without_wakeup releases on its fast path (no waiter is examined or woken),
    every queued waiter has a condition that was false when this write section began.
    AS STATED: FALSE (`C06_without_wakeup_sound_full_refuted`) — the fast path is also taken when a
    designated waker is in flight (MU_DESIG_WAKER, mu_wait.c:320), and then waiters without any
    condition may be queued; the designated waker is responsible for them.  The corrected statement is
    `C06_without_wakeup_sound`. -/
def C06_without_wakeup_sound_full : Prop :=
  ∀ (cfg : Cfg) (s s' : State) (t : Tid) (old : Word) (o : Ord) (loc : Loc) (exp new obs : Nat),
    Reachable cfg s → s.pc t = .ulCas1 .W true old →
    step cfg s (.cas t o loc exp new obs true) = .ok s' →
    ∀ k, Queued s k → ∃ c, (s.wr k).cond = some c ∧ evalCond s.secStart c = false

/-- Threads 1 and 2 queue behind the writer 0 (no conditions); 0's nsync_mu_unlock wakes 1 and leaves
    MU_DESIG_WAKER set (word 44); before 1 runs, thread 3 barges in (44 → 13) and is about to release
    with nsync_mu_unlock_without_wakeup: fast path because of MU_DESIG_WAKER, while 2 is still queued. -/
def traceNwDesig : List Event := [
 .call 0 .lock, .cas 0 .acq .word 0 1 0 true, .ret 0 .lock .void,
 .call 1 .lock, .cas 1 .acq .word 0 1 1 false, .ld 1 .rlx .word 1, .ld 1 .rlx .word 1,
 .cas 1 .acq .word 1 39 1 true, .st 1 .rlx (.waiting 0) 1 0, .ld 1 .rlx .word 39, .cas 1 .rel .word 39 37 39 true,
 .ld 1 .acq (.waiting 0) 1, .semPEnter 1 0,
 .call 2 .lock, .cas 2 .acq .word 0 1 37 false, .ld 2 .rlx .word 37, .ld 2 .rlx .word 37,
 .cas 2 .acq .word 37 39 37 true, .st 2 .rlx (.waiting 1) 1 0, .ld 2 .rlx .word 39, .cas 2 .rel .word 39 37 39 true,
 .ld 2 .acq (.waiting 1) 1, .semPEnter 2 1,
 .call 0 .unlock, .cas 0 .rel .word 1 0 37 false, .ld 0 .rlx .word 37, .ld 0 .rlx .word 37,
 .cas 0 .ar .word 37 46 37 true, .ld 0 .rlx (.rc 0) 0, .cas 0 .rlx (.rc 0) 0 1 0 true,
 .ld 0 .rlx .word 46, .cas 0 .rel .word 46 44 46 true, .st 0 .rel (.waiting 0) 0 1, .semV 0 0, .ret 0 .unlock .void,
 .call 3 .lock, .cas 3 .acq .word 0 1 44 false, .ld 3 .rlx .word 44, .cas 3 .acq .word 44 13 44 true, .ret 3 .lock .void,
 .call 3 .unlockNw, .cas 3 .rel .word 1 0 13 false, .ld 3 .rlx .word 13
]

def nwDesigCheck : Bool :=
  match run ⟨false⟩ init traceNwDesig with
  | .ok s => s.pc 3 == .ulCas1 .W true (decode 13) && s.queue == [1] && (s.wr 1).cond == none &&
      (match step ⟨false⟩ s (.cas 3 .rel .word 13 12 13 true) with | .ok _ => true | .error _ => false)
  | .error _ => false

theorem C06_without_wakeup_sound_full_refuted : ¬ C06_without_wakeup_sound_full := by
  intro h
  have key : nwDesigCheck = true := by decide
  unfold nwDesigCheck at key
  split at key
  · rename_i s hs
    simp only [Bool.and_eq_true, beq_iff_eq] at key
    obtain ⟨⟨⟨h1, h2⟩, h3⟩, h4⟩ := key
    split at h4
    · rename_i s' hs'
      have hr : Reachable ⟨false⟩ s := ⟨_, hs⟩
      obtain ⟨c, hc, _⟩ := h ⟨false⟩ s s' 3 (decode 13) .rel .word 13 12 13 hr h1 hs' 1 (Or.inl (by rw [h2]; simp))
      rw [h3] at hc; cases hc
    · cases h4
  · cases key

/-- Corrected: when nsync_mu_unlock_without_wakeup releases on its fast path BECAUSE MU_ALL_FALSE IS SET
    (the only reason besides "no waiters" and "a designated waker is in flight", mu_wait.c:318-320), and
    every write section that ended with that call so far — this one included — kept its contract, then
    every queued waiter has a condition and it is false on the protected data as the section leaves it:
    nobody whose condition is true is left asleep.  (Under the contract "false now" is what the client
    needs; that the conditions were false when the section began is the content of the contract ghost
    `nwViol`, computed by the acceptor at the call.) -/
theorem C06_without_wakeup_sound {cfg : Cfg} {s s' : State} {t : Tid} {old : Word} {o : Ord} {loc : Loc} {exp new obs : Nat}
    (hr : Reachable cfg s) (hpc : s.pc t = .ulCas1 .W true old)
    (h : step cfg s (.cas t o loc exp new obs true) = .ok s') (haf : old.af = true) (hc : WithoutWakeupContract s) :
    ∀ k, Queued s k → ∃ c, (s.wr k).cond = some c ∧ evalCond s.data c = false := by
  intro k hk
  have h1 := reachable_inv1 hr
  have hw : s.word = old := by
    simp only [step, stepCas, hpc] at h
    rcases casWord_ok h with ⟨e, _, _⟩ | ⟨_, e, _⟩
    · exact e
    · cases e
  have hown : s.wOwner = some t := owner_of_pcShare h1 hpc rfl
  have hheld : s.held t = none := held_none_of_pc h1 hpc (by simp)
  have hns := no_susp_of_owner h1 hown (by rw [hpc]; rfl)
  have hcl : ¬ SecOpen s := not_secOpen_of_owner h1 hown (by rw [hheld]; simp) (by rw [hpc]; rfl)
  obtain ⟨c, h1', _, h3⟩ := (C06_hint_all_false hr (by rw [hw]; exact haf) k hk).2 hc hns
  exact ⟨c, h1', h3 hcl⟩

/-- Non-vacuity: the second nsync_mu_unlock_without_wakeup of `traceNoWakeup` is at its fast-path CAS
    (event 42: 149 → 148) with MU_ALL_FALSE set, the contract kept and the waiter queued. -/
example : stateAfter ⟨false⟩ (traceNoWakeup.take 42) (fun s => s.pc 1 == .ulCas1 .W true (decode 149) && (decode 149).af
    && !s.nwViol && s.queue == [0]
    && (match step ⟨false⟩ s (.cas 1 .rel .word 149 148 149 true) with | .ok _ => true | .error _ => false)) = true := by decide

/-- All three reasons of the fast path of nsync_mu_unlock_without_wakeup together (no waiters / a
    designated waker / MU_ALL_FALSE, mu_wait.c:318-320; model of the repaired code): when the release CAS
    succeeds and the contract was kept, either no queued waiter has a condition that is true on the
    data the section leaves behind, or ANOTHER thread is responsible for the queue (it owns a share, is an
    unlocker mid-scan, is in flight, or spins after a timeout) — with MU_DESIG_WAKER it is the designated
    waker itself (`C06_desig_waker_justified`). -/
theorem C06_without_wakeup_no_missed {cfg : Cfg} {s s' : State} {t : Tid} {old : Word} {o : Ord} {loc : Loc} {exp new obs : Nat}
    (hr : Reachable cfg s) (hpc : s.pc t = .ulCas1 .W true old)
    (h : step cfg s (.cas t o loc exp new obs true) = .ok s') (hc : WithoutWakeupContract s) :
    (∀ k c, Queued s k → (s.wr k).cond = some c → evalCond s.data c = false) ∨ ∃ u, u ≠ t ∧ RespT s u := by
  have ha := reachable_inv_all hr
  have h1 := ha.1
  have hw : s.word = old := by
    simp only [step, stepCas, hpc] at h
    rcases casWord_ok h with ⟨e, _, _⟩ | ⟨_, e, _⟩
    · exact e
    · cases e
  have hheld : s.held t = none := held_none_of_pc h1 hpc (by simp)
  have hsh : shareOf s t = some .W := by simp [shareOf, tshare, hheld, hpc, pcShare]
  have hns : ¬ StrongResp s t := by
    rintro (a | a | ⟨k, a, _⟩) <;> rw [hpc] at a <;> simp [PC.unl, PC.woken, PC.waitRec] at a
  have hok8 := reachable_inv8 hr t
  rw [hpc, ← hw] at hok8
  have key : ¬ NeedC s ∨ ∃ u, u ≠ t ∧ RespT s u := by
    refine resp_or_quiet h1 ha.2.2.2.2.2 (reachable_inv9 hr) (reachable_inv11 hr) hns hc ?_
    cases hwt : s.word.waiting with
    | false => exact Or.inl rfl
    | true =>
      cases hdg : s.word.desig with
      | true => exact Or.inr (Or.inl rfl)
      | false =>
        right; right; right
        simp only [PC.ok8, hwt, hdg, Bool.not_false, Bool.and_true, Bool.true_and] at hok8
        have hok8' : s.word.af = true := by simpa using hok8
        exact ⟨hok8', by rw [hsh]; simp, by rw [hpc]; rfl, by rw [hpc]; rfl, hheld⟩
  rcases key with a | a
  · left
    intro k c hk hcd
    cases hev : evalCond s.data c with
    | false => rfl
    | true => exact absurd ⟨k, c, hk, hcd, hev⟩ a
  · exact Or.inr a

/-- The contract hypothesis is necessary, and the acceptor's contract ghost sees a violation even when
    the section contains a nsync_mu_wait that returned at once (no release, no wake-up, mu_wait.c:170):
    after the first nsync_mu_unlock_without_wakeup of `traceNoWakeup` has set MU_ALL_FALSE, thread 1
    locks, makes the waiter's condition true, calls nsync_mu_wait with a NULL condition (returns at
    once) and releases with nsync_mu_unlock_without_wakeup on the fast path: the waiter stays asleep
    with a TRUE condition — `nwViol` is set.  (With the snapshot `secStart` re-taken at the return of
    that nsync_mu_wait, as the model did before this proof, the violation went unnoticed.) -/
def traceNwViol : List Event := traceNoWakeup.take 33 ++ [
 .call 1 .lock, .cas 1 .acq .word 0 1 148 false, .ld 1 .rlx .word 148, .cas 1 .acq .word 148 149 148 true, .ret 1 .lock .void,
 .dataW 1 0 1,
 .call 1 (.wait none none false), .ld 1 .rlx .word 149, .ret 1 (.wait none none false) (.outc .ok),
 .call 1 .unlockNw, .cas 1 .rel .word 1 0 149 false, .ld 1 .rlx .word 149, .cas 1 .rel .word 149 148 149 true, .ret 1 .unlockNw .void]
example : stateAfter ⟨false⟩ traceNwViol (fun s => s.nwViol && s.queue == [0] && s.word.af && evalOpt s.data (s.wr 0).cond
    && s.wOwner == none && s.sp == none) = true := by decide

end NsyncVerif.MuC
